#!/bin/bash
# usage: tools_seedall.sh [width]   re-runs every kept seed (seeded/<id>/patch.diff) against the check(s) recorded in its meta.json
# with the current binary ($NEBCHECK_BIN or /verif/bin/nebcheck), on scratch worktrees /tmp/seedall_<slot>; prints one line per seed
# and lists every seed that is no longer reported with exit 1 by at least one of its checks.
w=${1:-4}
export NEBCHECK_BIN=${NEBCHECK_BIN:-/verif/bin/nebcheck}
mkdir -p /tmp/seedall
ls /verif/seeded | xargs -P $w --process-slot-var=SLOT -I{} sh -c '
  k={}; props=$(jq -r .checks /verif/seeded/$k/meta.json | grep -o "C[0-9][0-9]" | sort -u | tr "\n" " ")
  [ -z "$props" ] && props=$(jq -r .property /verif/seeded/$k/meta.json)
  SEEDTEST_WT=/tmp/seedall_$SLOT /verif/tools_seedtest.sh /verif/seeded/$k/patch.diff $props > /tmp/seedall/$k.txt 2>&1
  echo "$k $(grep "^== " /tmp/seedall/$k.txt | tr "\n" " ")"'
echo "---- seeds not reported by any of their checks:"
for f in /tmp/seedall/*.txt; do grep -q "exit=1" $f || echo "$(basename $f .txt): $(grep '^== ' $f | tr '\n' ' ')"; done
for s in $(seq 0 $w); do git -C /repo worktree remove --force /tmp/seedall_$s >/dev/null 2>&1; rm -rf /tmp/seedall_${s}_verif /tmp/seedall_$s.lock; done
