#!/bin/bash
# usage: tools_seedprep.sh <ID> [suffix]  creates scratch worktree /tmp/seed/<ID><suffix> and the task text /tmp/seedprompts/<ID><suffix>.txt
id=$1; sfx=${2:-}
wt=/tmp/seed/$id$sfx; out=/tmp/seedout/$id$sfx
mkdir -p /tmp/seed /tmp/seedout /tmp/seedprompts $out
[ -d $wt ] || git -C /repo worktree add --detach $wt HEAD >/dev/null 2>&1
prop=$(grep "\"id\": \"$id\"" /verif/properties.jsonl | jq .)
cat > /tmp/seedprompts/$id$sfx.txt <<EOT
You are helping to evaluate a verification tool by producing a realistic, subtle regression in the Go project slackhq/nebula (a peer-to-peer overlay VPN).

Your scratch git worktree of the project is: $wt   (work ONLY there; never touch /repo or /verif, and do not read anything under /verif).
Write your deliverables into: $out

Toolchain (the sandbox is offline). Prefix EVERY go command like this, and use the go1.26.8 binary, never plain "go":
  cd $wt && env -u GOWORK GOFLAGS=-mod=mod GOPROXY=off GOSUMDB=off GOTOOLCHAIN=local go1.26.8 test -vet=off -count=1 ./...
(The shell prints a conda warning line first; ignore it. The shell's working directory resets between calls, so always cd.)

The property of nebula that your change must BREAK:

$prop

Task: make a small source change to nebula (non-test .go files only, in the worktree) that breaks this property while
  (a) everything still compiles:  go1.26.8 build ./...  and  go1.26.8 vet is not required,
  (b) the complete existing test suite still passes UNEDITED with your change:  go1.26.8 test -vet=off -count=1 -timeout 60m ./...   (run it; it takes several minutes),
  (c) the breakage needs something specific to manifest - a particular interleaving, a crash or fault at a particular point, a multi-step sequence of operations, an unusual input, a boundary value, or two cooperating sites that each look fine alone - NOT something ordinary use would expose at once. It should look like a plausible refactoring slip, optimisation, or well-meant "simplification" a maintainer could make, not sabotage. Keep it small (typically 1-15 changed lines, one or two sites). Prefer a change in the code the property's anchors name.
$3
Also write a demonstration: ONE new Go test file (name it zz_seed_demo_test.go, placed in the package directory it tests, package clause matching the existing tests there) containing a test that FAILS with your change applied and PASSES on the unchanged tree. It may use unexported identifiers of the package. It must not depend on timing luck: make it deterministic.

Deliverables in $out :
  1. patch.diff  - output of  git -C $wt diff  covering ONLY your change to non-test source files (NOT the demo test). Produce it before adding the demo file, or use  git diff -- <files>.
  2. zz_seed_demo_test.go - the demonstration test file (a copy).
  3. demo_path.txt - first line: the exact command to run the demo, in this form (package dir last):   go1.26.8 test -vet=off -count=1 -run 'TestName' ./pkgdir/     ; then a few lines: which file/function you changed, what the change is, why existing tests do not notice, and what specific situation makes it manifest.
Verify yourself before finishing: demo passes on the clean tree (check with the patch reversed: git apply -R; NEVER git stash), demo fails with the change, full suite passes with the change (without the demo file present). Leave the worktree with your change applied and the demo file present. Report a short summary as your final answer.
EOT
echo /tmp/seedprompts/$id$sfx.txt
