package main

import (
	"fmt"
	"strings"

	"golang.org/x/tools/go/ssa"
)

func init() {
	register(&Property{
		ID: "C07", Title: "A rejected handshake message never wedges the handshake",
		Patterns:  []string{".", "./handshake"},
		Technique: "typestate over the handshake Machine's error contract (CFG must-pass-through of the failed flag on every post-advance error, no state store on pre-advance errors), dominating refusal once failed, rollback pairing rule on the pinned noise dependency's ReadMessage, guard on the manager's abandon decision",
		LevelText: "Structural necessary conditions of the Machine's error contract on all paths: once failed, Initiate/ProcessPacket refuse before doing anything else; every error returned after the Noise state was advanced sets failed first (in ProcessPacket and in the callee summaries processPayload / validateCert / requireComplete); nothing is stored into the Machine or its Result before the Noise read; an error of the Noise read itself is reported as still-usable only if the Noise state is known to be unchanged — either the pinned noise version rolls back on every error return after its checkpoint, or the Machine compares the handshake hash before and after and fails otherwise; the manager abandons a pending handshake exactly when the machine reports failed.",
		LevelNote: "Not decided: the behaviour of the genuine message afterwards is the consequence of these conditions, not re-derived; noise's cipher nonce handling inside DecryptAndHash is trusted.",
		Explanation: "K1 dominance of the failed test, must-pass-through (instruction cut) of `failed = true` before post-advance error returns with one level of callee summaries, K4 pairing Checkpoint/Rollback on github.com/flynn/noise (*HandshakeState).ReadMessage at the version go.mod pins, K1 on continueHandshake",
		Run:       runC07,
		Canaries: func(c *Ctx) []Canary {
			return []Canary{
				{Name: "processPayload-error-without-failed", File: "handshake/machine.go", Old: "\tif hasCertData != flags.expectsCert {\n\t\tm.failed = true\n", New: "\tif hasCertData != flags.expectsCert {\n", Rule: "C07.post-advance"},
				{Name: "result-store-before-read", File: "handshake/machine.go", Old: "\tmsg, eKey, dKey, err := m.hs.ReadMessage(nil, packet[header.Len:])\n", New: "\tm.result.HandshakeTime = 0\n\tmsg, eKey, dKey, err := m.hs.ReadMessage(nil, packet[header.Len:])\n", Rule: "C07.pre-advance"},
				{Name: "failed-check-after-length-check", File: "handshake/machine.go", Old: "func (m *Machine) ProcessPacket(out, packet []byte) ([]byte, *Result, error) {\n\tif m.failed {\n\t\treturn nil, nil, ErrMachineFailed\n\t}\n", New: "func (m *Machine) ProcessPacket(out, packet []byte) ([]byte, *Result, error) {\n", Rule: "C07.refuse"},
				{Name: "manager-keeps-failed-machine", File: "handshake_manager.go", Old: "\t\t\t\t\"vpnAddrs\", hostinfo.vpnAddrs, \"from\", via, \"error\", err)\n\t\t\thm.DeleteHostInfo(hostinfo)\n\t\t} else {", New: "\t\t\t\t\"vpnAddrs\", hostinfo.vpnAddrs, \"from\", via, \"error\", err)\n\t\t} else {", Rule: "C07.manager"},
				{Name: "buildResponse-error-recoverable", File: "handshake/machine.go", Old: "\tout, dk, ek, err := m.buildResponse(out)\n\tif err != nil {\n\t\tm.failed = true\n\t\treturn nil, nil, err\n\t}\n\n\tif ek != nil", New: "\tout, dk, ek, err := m.buildResponse(out)\n\tif err != nil {\n\t\treturn nil, nil, err\n\t}\n\n\tif ek != nil", Rule: "C07.post-advance"},
			}
		},
	})
}

func runC07(c *Ctx) {
	c.Rule("C07.refuse", "K1: in Initiate and ProcessPacket the `failed` refusal dominates every call and store", 2)
	c.Rule("C07.post-advance", "typestate: every error return after the Noise read succeeded passes `failed = true` first (ProcessPacket, and the summaries of processPayload, validateCert, requireComplete)", 6)
	c.Rule("C07.pre-advance", "typestate: no store to Machine/Result fields (other than failed) and no state-advancing call happens before the Noise read succeeded", 1)
	c.Rule("C07.read-error", "an error of hs.ReadMessage is returned as recoverable only if the Noise state is unchanged: dependency rollback rule holds, or the handshake hash is compared before/after and the machine fails on a difference", 1)
	c.Rule("C07.dep-rollback", "K4 on github.com/flynn/noise ReadMessage (pinned version): every error return after ss.Checkpoint() is preceded by ss.Rollback()", 1)
	c.Rule("C07.manager", "K1: continueHandshake deletes the pending handshake on a ProcessPacket error exactly when machine.Failed()", 2)

	fFailed := c.Field("handshake", "Machine", "failed")
	mach := c.NamedType("handshake", "Machine")
	res := c.NamedType("handshake", "Result")
	if fFailed == nil || mach == nil || res == nil {
		return
	}
	notFailed := gValBool("!m.failed", false, func(v ssa.Value) bool { return loadsField(v, fFailed) })
	setsFailed := func(in ssa.Instruction) bool { return storesFieldBool(in, fFailed, true) }
	readRef := Ref{"github.com/flynn/noise", "HandshakeState", "ReadMessage"}

	for _, name := range []string{"Initiate", "ProcessPacket"} {
		fn := c.Func(Ref{"handshake", "Machine", name})
		if fn == nil {
			continue
		}
		var sinks []Sink
		eachInstr(fn, func(in ssa.Instruction) {
			switch x := in.(type) {
			case *ssa.Store:
				sinks = append(sinks, Sink{Instr: x, Desc: "store"})
			case ssa.CallInstruction:
				if builtinName(x) == "" {
					sinks = append(sinks, Sink{Instr: in, Desc: "call"})
				}
			}
		})
		bad := false
		for _, s := range sinks {
			if ok, _, path := c.mustPass(fn, s, notFailed); !ok {
				bad = true
				c.Bad("C07.refuse", name+":failed-refusal-dominates", c.instrPos(s.Instr), "a "+s.Desc+" executes although the machine may already have failed", path...)
				break
			}
		}
		if !bad {
			c.OK("C07.refuse", name+":failed-refusal-dominates", fmt.Sprintf("%d calls/stores all behind the refusal", len(sinks)))
		}
	}

	summarized := []Ref{{"handshake", "Machine", "processPayload"}, {"handshake", "Machine", "validateCert"}, {"handshake", "Machine", "requireComplete"}}
	fromSummarized := func(v ssa.Value) bool { return derivesFrom(v, sliceLocal, isCallTo(summarized...)) }
	// helpers the tabled functions or ProcessPacket delegate to are summarised as well when every error return of theirs passes
	// failed=true or forwards an already summarised error (least fixpoint; they add no obligations of their own: a helper that
	// does not qualify is simply not trusted, and the return forwarding its error is then judged on its own path)
	if pp := c.funcQuiet(Ref{"handshake", "Machine", "ProcessPacket"}); pp != nil {
		tabled := map[string]bool{"ProcessPacket": true, "Initiate": true}
		for _, r := range summarized {
			tabled[r.Name] = true
		}
		for changed := true; changed; {
			changed = false
			for _, fn := range c.moduleFuncs() {
				if fn.Pkg != pp.Pkg || fn.Parent() != nil || tabled[fn.Name()] || fn.Signature.Recv() == nil {
					continue
				}
				rn := recvNamed(fn.Signature.Recv().Type())
				if rn == nil || rn.Obj() != mach.Obj() {
					continue
				}
				idx := errResultIndex(fn)
				if idx < 0 {
					continue
				}
				rets := errorReturns(fn, idx)
				ok := len(rets) > 0
				for _, ret := range rets {
					if fromSummarized(retResult(ret, idx)) {
						continue
					}
					if bad, _ := c.avoidsCut(fn, nil, ret, setsFailed); bad {
						ok = false
					}
				}
				if ok {
					tabled[fn.Name()] = true
					summarized = append(summarized, Ref{"handshake", "Machine", fn.Name()})
					c.Note("C07: helper %s summarised: every error return marks the machine failed", fnName(fn))
					changed = true
				}
			}
		}
	}
	nTabled := 3
	// callee summaries: every error return passes failed=true (or forwards a summarized callee's error)
	for _, r := range summarized[:nTabled] {
		fn := c.Func(r)
		if fn == nil {
			continue
		}
		idx := errResultIndex(fn)
		for i, ret := range errorReturns(fn, idx) {
			cons := fmt.Sprintf("%s:error-return#%d", r.Name, i)
			if fromSummarized(retResult(ret, idx)) {
				c.OK("C07.post-advance", cons, "forwards a summarized callee's error")
				continue
			}
			if bad, path := c.avoidsCut(fn, nil, ret, setsFailed); bad {
				c.Bad("C07.post-advance", cons, c.instrPos(ret), "an error is returned after the Noise state advanced without marking the machine failed: the caller will treat it as recoverable but the genuine message can no longer be read", path...)
			} else {
				c.OK("C07.post-advance", cons, "failed set on every path")
			}
		}
	}
	pp := c.Func(Ref{"handshake", "Machine", "ProcessPacket"})
	if pp == nil {
		return
	}
	reads := callsIn(pp, readRef)
	if len(reads) != 1 {
		c.Unknown("C07.post-advance", "ProcessPacket:ReadMessage", fmt.Sprintf("%d calls to hs.ReadMessage found", len(reads)))
		return
	}
	read := reads[0].(*ssa.Call)
	readErr := func(v ssa.Value) bool {
		return derivesFrom(v, sliceThrough, func(x ssa.Value) bool {
			ex, ok := x.(*ssa.Extract)
			return ok && ex.Tuple == read && ex.Index == 3
		})
	}
	// success edge of the read
	okEdgeTargets, _ := splitEdges(pp, gErrNil("ReadMessage ok", callTo(readRef)))
	if len(okEdgeTargets) != 1 {
		c.Unknown("C07.post-advance", "ProcessPacket:ReadMessage-success-edge", "err test of ReadMessage not found")
		return
	}
	after := reachable(okEdgeTargets[0], nil)
	idx := errResultIndex(pp)
	var readErrRets []*ssa.Return
	for i, ret := range errorReturns(pp, idx) {
		cons := fmt.Sprintf("ProcessPacket:error-return#%d", i)
		if _, post := after[ret.Block()]; post {
			if fromSummarized(retResult(ret, idx)) {
				c.OK("C07.post-advance", cons, "forwards a summarized callee's error")
				continue
			}
			// from the success edge target to the return, failed=true must be passed
			first := okEdgeTargets[0].Instrs[0]
			bad, path := c.avoidsCut(pp, nil, ret, func(in ssa.Instruction) bool { return setsFailed(in) })
			_ = first
			// restrict: only paths through the success edge matter; avoidsCut from entry also covers them
			if bad && pathThrough(pp, okEdgeTargets[0], ret, setsFailed) {
				c.Bad("C07.post-advance", cons, c.instrPos(ret), "an error is returned after the Noise read succeeded without marking the machine failed", path...)
			} else {
				c.OK("C07.post-advance", cons, "failed set on every path")
			}
			continue
		}
		if readErr(retResult(ret, idx)) {
			readErrRets = append(readErrRets, ret)
		}
	}
	// pre-advance discipline
	{
		var sinks []Sink
		eachInstr(pp, func(in ssa.Instruction) {
			switch x := in.(type) {
			case *ssa.Store:
				if fa, ok := x.Addr.(*ssa.FieldAddr); ok {
					n := recvNamed(fa.X.Type())
					if n != nil && (n.Obj() == mach.Obj() || n.Obj() == res.Obj()) && fieldOfAddr(fa) != fFailed {
						sinks = append(sinks, Sink{Instr: x, Desc: "store to " + n.Obj().Name() + "." + fieldOfAddr(fa).Name()})
					}
				}
			case ssa.CallInstruction:
				if matchAny(calleeObj(x), []Ref{{"handshake", "Machine", "processPayload"}, {"handshake", "Machine", "buildResponse"}, {"handshake", "Machine", "completed"}, {"handshake", "Machine", "requireComplete"}}) {
					sinks = append(sinks, Sink{Instr: in, Desc: "state-advancing call " + calleeObj(x).Name()})
				}
			}
		})
		bad := false
		g := gErrNil("ReadMessage ok", callTo(readRef))
		for _, s := range sinks {
			if ok, _, path := c.mustPass(pp, s, g); !ok {
				bad = true
				c.Bad("C07.pre-advance", "ProcessPacket:"+s.Desc, c.instrPos(s.Instr), s.Desc+" happens before the Noise read succeeded: a rejected message would leave a trace", path...)
			}
		}
		if !bad {
			c.OK("C07.pre-advance", "ProcessPacket:no-state-before-read", fmt.Sprintf("%d state changes, all after the read succeeded", len(sinks)))
		}
	}
	// dependency rule
	depOK := c07Dependency(c)
	// read-error classification
	if len(readErrRets) == 0 {
		c.Unknown("C07.read-error", "ProcessPacket:ReadMessage-error-return", "the return forwarding ReadMessage's error was not found")
	}
	chanBind := Ref{"github.com/flynn/noise", "HandshakeState", "ChannelBinding"}
	for i, ret := range readErrRets {
		cons := fmt.Sprintf("ProcessPacket:ReadMessage-error-return#%d", i)
		if bad, _ := c.avoidsCut(pp, read, ret, setsFailed); !bad {
			c.OK("C07.read-error", cons, "reported as fatal (failed set)")
			continue
		}
		// recoverable: needs the unchanged-state test or the dependency rule
		unchanged := gBool("handshake hash unchanged (bytes.Equal(before, hs.ChannelBinding()))", true, -1, CallSpec{Refs: []Ref{{"bytes", "", "Equal"}}, Args: map[int]func(ssa.Value) bool{
			0: func(v ssa.Value) bool { return derivesFrom(v, sliceThrough, isCallTo(chanBind)) },
			1: func(v ssa.Value) bool { return derivesFrom(v, sliceThrough, isCallTo(chanBind)) },
		}})
		edges, n := passEdges(pp, unchanged)
		guarded := false
		if n > 0 {
			// the recoverable return must not be reachable from the read without crossing the pass edge or setting failed
			bad, _ := c.avoidsCutEdges(pp, read, ret, setsFailed, edges)
			guarded = !bad
		}
		switch {
		case guarded:
			c.OK("C07.read-error", cons, "recoverable only when the handshake hash is unchanged; otherwise failed")
		case depOK:
			c.OK("C07.read-error", cons, "recoverable; the pinned noise version rolls back on every error return")
		default:
			c.Bad("C07.read-error", cons, c.instrPos(ret), "a ReadMessage error is reported as recoverable (failed not set) although the pinned noise version returns some errors after mutating its state without Rollback (see C07.dep-rollback): a short or invalid-point message wedges the handshake while Failed()==false")
		}
	}
	c07Manager(c)
}

// pathThrough: some path via -> to avoids cut.
func pathThrough(fn *ssa.Function, via *ssa.BasicBlock, to ssa.Instruction, cut func(ssa.Instruction) bool) bool {
	seen := map[*ssa.BasicBlock]bool{via: true}
	queue := []*ssa.BasicBlock{via}
	for len(queue) > 0 {
		b := queue[0]
		queue = queue[1:]
		blocked := false
		for _, in := range b.Instrs {
			if in == to {
				return true
			}
			if cut(in) {
				blocked = true
				break
			}
		}
		if blocked {
			continue
		}
		for _, s := range b.Succs {
			if !seen[s] {
				seen[s] = true
				queue = append(queue, s)
			}
		}
	}
	return false
}

// avoidsCutEdges: like avoidsCut but additionally forbids crossing the given edges.
func (c *Ctx) avoidsCutEdges(fn *ssa.Function, from, to ssa.Instruction, cut func(ssa.Instruction) bool, edges map[Edge]bool) (bool, []string) {
	seen := map[*ssa.BasicBlock]bool{}
	type item struct {
		b     *ssa.BasicBlock
		start int
	}
	var queue []item
	b0 := from.Block()
	for i, in := range b0.Instrs {
		if in == from {
			queue = append(queue, item{b0, i + 1})
		}
	}
	for len(queue) > 0 {
		it := queue[0]
		queue = queue[1:]
		blocked := false
		for i := it.start; i < len(it.b.Instrs); i++ {
			in := it.b.Instrs[i]
			if in == to {
				return true, nil
			}
			if cut(in) {
				blocked = true
				break
			}
		}
		if blocked {
			continue
		}
		for i, s := range it.b.Succs {
			if edges[Edge{it.b, i}] || seen[s] {
				continue
			}
			seen[s] = true
			queue = append(queue, item{s, 0})
		}
	}
	return false, nil
}

// c07Dependency checks the rollback pairing in the pinned noise version.
func c07Dependency(c *Ctx) bool {
	noisePkg := "github.com/flynn/noise"
	if c.P.SSAPkgs[noisePkg] == nil {
		c.Unknown("C07.dep-rollback", "noise", "dependency github.com/flynn/noise not loaded")
		return false
	}
	fn := c.Func(Ref{noisePkg, "HandshakeState", "ReadMessage"})
	if fn == nil {
		return false
	}
	cps := callsIn(fn, Ref{noisePkg, "symmetricState", "Checkpoint"})
	if len(cps) != 1 {
		c.Unknown("C07.dep-rollback", "noise.ReadMessage", fmt.Sprintf("%d Checkpoint calls", len(cps)))
		return false
	}
	isRollback := func(in ssa.Instruction) bool {
		ci, ok := in.(ssa.CallInstruction)
		return ok && matchFunc(calleeObj(ci), Ref{noisePkg, "symmetricState", "Rollback"})
	}
	var offenders []string
	idx := errResultIndex(fn)
	n := 0
	for _, ret := range errorReturns(fn, idx) {
		if bad, _ := c.avoidsCut(fn, cps[0], ret, isRollback); bad {
			offenders = append(offenders, c.instrPos(ret))
		}
		n++
	}
	ver := ""
	if pk := c.P.All[noisePkg]; pk != nil && pk.Module != nil {
		ver = pk.Module.Version
	}
	c.Note("noise %s ReadMessage: %d error returns, %d after Checkpoint without Rollback: %s", ver, n, len(offenders), strings.Join(offenders, ", "))
	// informational obligation: never a violation on its own (it is a premise of C07.read-error)
	if len(offenders) == 0 {
		c.OK("C07.dep-rollback", "noise.ReadMessage", "every error return after Checkpoint rolls back")
		return true
	}
	c.OK("C07.dep-rollback", "noise.ReadMessage", fmt.Sprintf("premise does NOT hold for %s: %d error return(s) after Checkpoint without Rollback (%s); C07.read-error therefore requires the Machine's own unchanged-state test", ver, len(offenders), strings.Join(offenders, ", ")))
	return false
}

func c07Manager(c *Ctx) {
	if c.P.SSAPkgs[nebulaMod] == nil {
		c.Unknown("C07.manager", "root", "root package not loaded")
		return
	}
	fn := c.Func(Ref{"", "HandshakeManager", "continueHandshake"})
	if fn == nil {
		return
	}
	ppRef := Ref{"handshake", "Machine", "ProcessPacket"}
	_, errArm := splitEdges(fn, gErrNil("ProcessPacket ok", callTo(ppRef)))
	if len(errArm) != 1 {
		c.Unknown("C07.manager", "continueHandshake:error-arm", "error arm of ProcessPacket not found")
		return
	}
	region := reachable(errArm[0], nil)
	failedT, failedF := splitEdges(fn, gBool("machine.Failed()", true, -1, callTo(Ref{"handshake", "Machine", "Failed"})))
	if len(failedT) != 1 {
		c.Bad("C07.manager", "continueHandshake:abandon-iff-failed", c.P.Pos(fn.Pos()), "the error arm no longer consults machine.Failed()")
		return
	}
	isDel := func(in ssa.Instruction) bool {
		ci, ok := in.(ssa.CallInstruction)
		return ok && matchFunc(calleeObj(ci), Ref{"", "HandshakeManager", "DeleteHostInfo"})
	}
	// failed arm: every path to a return deletes
	okT := true
	for _, b := range fn.Blocks {
		if _, in := reachable(failedT[0], nil)[b]; !in {
			continue
		}
		if ret, ok := b.Instrs[len(b.Instrs)-1].(*ssa.Return); ok {
			if pathThrough(fn, failedT[0], ret, isDel) {
				okT = false
				c.Bad("C07.manager", "continueHandshake:failed=>abandon", c.instrPos(ret), "a failed machine is kept in the pending table: every later packet is refused until the handshake times out")
			}
		}
	}
	if okT {
		c.OK("C07.manager", "continueHandshake:failed=>abandon", "failed machine is always deleted")
	}
	// recoverable arm: no delete
	okF := true
	for b := range reachable(failedF[0], nil) {
		if _, inRegion := region[b]; !inRegion {
			continue
		}
		for _, in := range b.Instrs {
			if isDel(in) {
				okF = false
				c.Bad("C07.manager", "continueHandshake:recoverable=>keep", c.instrPos(in), "a still-usable handshake is deleted on a rejected message: one forged packet aborts a genuine handshake")
			}
		}
	}
	if okF {
		c.OK("C07.manager", "continueHandshake:recoverable=>keep", "recoverable error keeps the pending handshake")
	}
}
