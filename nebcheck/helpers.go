package main

import (
	"fmt"
	"go/constant"
	"go/token"
	"go/types"
	"sort"
	"strings"

	"golang.org/x/tools/go/ssa"
)

// ---------------------------------------------------------------------------------------
// Anchor resolution (by package path, receiver type name, name — never by text or line)

// Ref names a function or method: Pkg short path, Recv type name ("" for functions), Name.
type Ref struct{ Pkg, Recv, Name string }

func (r Ref) String() string {
	p := r.Pkg
	if p == "" {
		p = "nebula"
	}
	if r.Recv != "" {
		return p + ".(" + r.Recv + ")." + r.Name
	}
	return p + "." + r.Name
}

func recvNamed(t types.Type) *types.Named {
	for {
		switch u := t.(type) {
		case *types.Pointer:
			t = u.Elem()
			continue
		case *types.Alias:
			t = types.Unalias(u)
			continue
		case *types.Named:
			return u
		}
		return nil
	}
}

// matchFunc reports whether fn is the function/method named by r (interface methods included).
func matchFunc(fn *types.Func, r Ref) bool {
	if fn == nil || fn.Name() != r.Name {
		return false
	}
	fn = fn.Origin()
	if fn.Pkg() == nil || fn.Pkg().Path() != PkgPath(r.Pkg) {
		return false
	}
	sig := fn.Type().(*types.Signature)
	if sig.Recv() == nil {
		return r.Recv == ""
	}
	if r.Recv == "" {
		return false
	}
	if n := recvNamed(sig.Recv().Type()); n != nil {
		return n.Obj().Name() == r.Recv
	}
	// interface method declared in an unnamed interface
	return false
}

func matchAny(fn *types.Func, refs []Ref) bool {
	for _, r := range refs {
		if matchFunc(fn, r) {
			return true
		}
	}
	return false
}

// Func resolves r to its SSA function in the current program; an unresolved anchor makes the
// check UNDECIDED.
func (c *Ctx) Func(r Ref) *ssa.Function {
	fn := c.funcQuiet(r)
	if fn == nil {
		c.Unknown("anchor", r.String(), "function not found in the current tree (renamed or removed): the rules anchored on it cannot be decided")
		return nil
	}
	c.Funcs[fn.String()] = true
	return fn
}

func (c *Ctx) funcQuiet(r Ref) *ssa.Function {
	sp := c.P.SSAPkgs[PkgPath(r.Pkg)]
	if sp == nil {
		return nil
	}
	if r.Recv == "" {
		return sp.Func(r.Name)
	}
	tn, _ := sp.Pkg.Scope().Lookup(r.Recv).(*types.TypeName)
	if tn == nil {
		return nil
	}
	for _, t := range []types.Type{types.NewPointer(tn.Type()), tn.Type()} {
		ms := c.P.SSA.MethodSets.MethodSet(t)
		for i := 0; i < ms.Len(); i++ {
			sel := ms.At(i)
			if sel.Obj().Name() == r.Name {
				// only methods declared on this type (not promoted)
				if len(sel.Index()) == 1 {
					if f := c.P.SSA.MethodValue(sel); f != nil {
						return f
					}
				}
			}
		}
	}
	return nil
}

// NamedType resolves a named type.
func (c *Ctx) NamedType(pkg, name string) *types.Named {
	tp := c.P.TypesPkg(pkg)
	if tp == nil {
		c.Unknown("anchor", pkg+"."+name, "package not loaded")
		return nil
	}
	tn, _ := tp.Scope().Lookup(name).(*types.TypeName)
	if tn == nil {
		c.Unknown("anchor", pkg+"."+name, "type not found in the current tree")
		return nil
	}
	n, _ := types.Unalias(tn.Type()).(*types.Named)
	return n
}

// Field resolves a struct field object.
func (c *Ctx) Field(pkg, typ, field string) *types.Var {
	n := c.NamedType(pkg, typ)
	if n == nil {
		return nil
	}
	st, _ := n.Underlying().(*types.Struct)
	if st == nil {
		c.Unknown("anchor", pkg+"."+typ, "not a struct")
		return nil
	}
	for i := 0; i < st.NumFields(); i++ {
		if st.Field(i).Name() == field {
			return st.Field(i)
		}
	}
	c.Unknown("anchor", pkg+"."+typ+"."+field, "field not found in the current tree")
	return nil
}

func (c *Ctx) ConstVal(pkg, name string) constant.Value {
	tp := c.P.TypesPkg(pkg)
	if tp == nil {
		c.Unknown("anchor", pkg+"."+name, "package not loaded")
		return nil
	}
	k, _ := tp.Scope().Lookup(name).(*types.Const)
	if k == nil {
		c.Unknown("anchor", pkg+"."+name, "constant not found")
		return nil
	}
	return k.Val()
}

// ---------------------------------------------------------------------------------------
// Instruction helpers

// calleeObj returns the called function object (static callee, bound method or interface
// method); nil for dynamic calls through function values.
func calleeObj(ci ssa.CallInstruction) *types.Func {
	cc := ci.Common()
	if cc.IsInvoke() {
		return cc.Method
	}
	switch v := cc.Value.(type) {
	case *ssa.Function:
		return fnObj(v)
	case *ssa.MakeClosure:
		if f, ok := v.Fn.(*ssa.Function); ok {
			return fnObj(f)
		}
	case *ssa.Builtin:
		return nil
	}
	return nil
}

func fnObj(f *ssa.Function) *types.Func {
	if f == nil {
		return nil
	}
	if f.Origin() != nil {
		f = f.Origin()
	}
	if o, ok := f.Object().(*types.Func); ok {
		return o
	}
	// bound method wrapper / thunk: Synthetic; find underlying through name
	return nil
}

func builtinName(ci ssa.CallInstruction) string {
	if b, ok := ci.Common().Value.(*ssa.Builtin); ok {
		return b.Name()
	}
	return ""
}

// callArgs returns receiver+args uniformly (receiver first for both invoke and static methods).
func callArgs(ci ssa.CallInstruction) []ssa.Value {
	cc := ci.Common()
	if cc.IsInvoke() {
		return append([]ssa.Value{cc.Value}, cc.Args...)
	}
	return cc.Args
}

// funcsWithAnon returns fn and all its nested anonymous functions.
func funcsWithAnon(fn *ssa.Function) []*ssa.Function {
	out := []*ssa.Function{fn}
	for _, a := range fn.AnonFuncs {
		out = append(out, funcsWithAnon(a)...)
	}
	return out
}

func eachInstr(fn *ssa.Function, f func(ssa.Instruction)) {
	for _, b := range fn.Blocks {
		for _, in := range b.Instrs {
			f(in)
		}
	}
}

// callsIn lists calls in fn (not nested closures) whose callee matches any ref, in source order.
func callsIn(fn *ssa.Function, refs ...Ref) []ssa.CallInstruction {
	var out []ssa.CallInstruction
	eachInstr(fn, func(in ssa.Instruction) {
		if ci, ok := in.(ssa.CallInstruction); ok {
			if matchAny(calleeObj(ci), refs) {
				out = append(out, ci)
			}
		}
	})
	sort.SliceStable(out, func(i, j int) bool { return out[i].Pos() < out[j].Pos() })
	return out
}

func callsInDeep(fn *ssa.Function, refs ...Ref) []ssa.CallInstruction {
	var out []ssa.CallInstruction
	for _, f := range funcsWithAnon(fn) {
		out = append(out, callsIn(f, refs...)...)
	}
	return out
}

// moduleFuncs enumerates every source function (incl. methods and closures) of the nebula
// module packages loaded, excluding _test.go files.
func (c *Ctx) moduleFuncs() []*ssa.Function {
	var out []*ssa.Function
	seen := map[*ssa.Function]bool{}
	var add func(f *ssa.Function)
	add = func(f *ssa.Function) {
		if f == nil || seen[f] || f.Blocks == nil {
			return
		}
		seen[f] = true
		out = append(out, f)
		for _, a := range f.AnonFuncs {
			add(a)
		}
	}
	for path, sp := range c.P.SSAPkgs {
		if !strings.HasPrefix(path, nebulaMod) {
			continue
		}
		for _, m := range sp.Members {
			switch m := m.(type) {
			case *ssa.Function:
				add(m)
			case *ssa.Type:
				for _, t := range []types.Type{m.Type(), types.NewPointer(m.Type())} {
					ms := c.P.SSA.MethodSets.MethodSet(t)
					for i := 0; i < ms.Len(); i++ {
						if f := c.P.SSA.MethodValue(ms.At(i)); f != nil && f.Synthetic == "" {
							add(f)
						}
					}
				}
			}
		}
	}
	sort.Slice(out, func(i, j int) bool { return out[i].String() < out[j].String() })
	var res []*ssa.Function
	for _, f := range out {
		if c.isTestFile(f.Pos()) {
			continue
		}
		res = append(res, f)
	}
	return res
}

func (c *Ctx) isTestFile(pos token.Pos) bool {
	if !pos.IsValid() {
		return false
	}
	fn := c.P.Fset.Position(pos).Filename
	return strings.HasSuffix(fn, "_test.go")
}

func (c *Ctx) fileOf(pos token.Pos) string {
	if !pos.IsValid() {
		return ""
	}
	fn := c.P.Fset.Position(pos).Filename
	if i := strings.LastIndexByte(fn, '/'); i >= 0 {
		return fn[i+1:]
	}
	return fn
}

// fnName gives a stable, readable name: pkg.(Recv).Name or pkg.Name$1
func fnName(f *ssa.Function) string {
	if f == nil {
		return "<nil>"
	}
	s := f.String()
	s = strings.ReplaceAll(s, nebulaMod+"/", "")
	s = strings.ReplaceAll(s, nebulaMod+".", "nebula.")
	s = strings.ReplaceAll(s, "(*"+nebulaMod+".", "(*nebula.")
	return s
}

// topFunc returns the outermost enclosing declared function of a closure.
func topFunc(f *ssa.Function) *ssa.Function {
	for f.Parent() != nil {
		f = f.Parent()
	}
	return f
}

// ---------------------------------------------------------------------------------------
// Condition normalisation

type CondKind int

const (
	CondBool   CondKind = iota // Base is a boolean value; condition true <=> Base true (xor Neg)
	CondNotNil                 // condition true <=> Base != nil (xor Neg)
	CondCmp                    // Base is a *ssa.BinOp comparison (xor Neg)
)

type Cond struct {
	Base ssa.Value
	Kind CondKind
	Neg  bool
}

func isNilConst(v ssa.Value) bool {
	k, ok := v.(*ssa.Const)
	return ok && k.Value == nil && !isBasicNumeric(k.Type())
}

func isBasicNumeric(t types.Type) bool {
	b, ok := t.Underlying().(*types.Basic)
	return ok && b.Info()&(types.IsNumeric|types.IsString|types.IsBoolean) != 0
}

func boolConst(v ssa.Value) (bool, bool) {
	k, ok := v.(*ssa.Const)
	if !ok || k.Value == nil || k.Value.Kind() != constant.Bool {
		return false, false
	}
	return constant.BoolVal(k.Value), true
}

func normCond(v ssa.Value) Cond {
	neg := false
	for {
		switch x := v.(type) {
		case *ssa.UnOp:
			if x.Op == token.NOT {
				neg = !neg
				v = x.X
				continue
			}
		case *ssa.BinOp:
			if x.Op == token.EQL || x.Op == token.NEQ {
				var other ssa.Value
				if isNilConst(x.Y) {
					other = x.X
				} else if isNilConst(x.X) {
					other = x.Y
				}
				if other != nil {
					n := neg
					if x.Op == token.EQL {
						n = !n
					}
					return Cond{Base: other, Kind: CondNotNil, Neg: n}
				}
				// comparison with boolean constant
				if b, ok := boolConst(x.Y); ok {
					if (x.Op == token.EQL) != b {
						neg = !neg
					}
					v = x.X
					continue
				}
				if b, ok := boolConst(x.X); ok {
					if (x.Op == token.EQL) != b {
						neg = !neg
					}
					v = x.Y
					continue
				}
			}
			switch x.Op {
			case token.EQL, token.NEQ, token.LSS, token.LEQ, token.GTR, token.GEQ:
				return Cond{Base: x, Kind: CondCmp, Neg: neg}
			}
		}
		return Cond{Base: v, Kind: CondBool, Neg: neg}
	}
}

// stripValue removes conversions / interface wrapping that do not change identity.
func stripValue(v ssa.Value) ssa.Value {
	for {
		switch x := v.(type) {
		case *ssa.ChangeType:
			v = x.X
		case *ssa.Convert:
			v = x.X
		case *ssa.ChangeInterface:
			v = x.X
		case *ssa.MakeInterface:
			v = x.X
		default:
			return v
		}
	}
}

// callOf returns the call instruction that produced v (directly or as a tuple Extract) and the
// tuple index (-1 for a direct single result).
func callOf(v ssa.Value) (*ssa.Call, int) {
	v = stripValue(v)
	switch x := v.(type) {
	case *ssa.Call:
		return x, -1
	case *ssa.Extract:
		if c, ok := x.Tuple.(*ssa.Call); ok {
			return c, x.Index
		}
	}
	return nil, -1
}

// ---------------------------------------------------------------------------------------
// CFG reachability with removed edges

type Edge struct {
	From *ssa.BasicBlock
	Succ int
}

// reachable computes blocks reachable from start without using blocked edges.
// It returns the predecessor map for witness paths.
func reachable(start *ssa.BasicBlock, blocked map[Edge]bool) map[*ssa.BasicBlock]*ssa.BasicBlock {
	prev := map[*ssa.BasicBlock]*ssa.BasicBlock{start: nil}
	work := []*ssa.BasicBlock{start}
	for len(work) > 0 {
		b := work[0]
		work = work[1:]
		for i, s := range b.Succs {
			if blocked[Edge{b, i}] {
				continue
			}
			if _, ok := prev[s]; !ok {
				prev[s] = b
				work = append(work, s)
			}
		}
	}
	return prev
}

func (c *Ctx) blockPath(prev map[*ssa.BasicBlock]*ssa.BasicBlock, to *ssa.BasicBlock) []string {
	var rev []*ssa.BasicBlock
	for b := to; b != nil; b = prev[b] {
		rev = append(rev, b)
	}
	var out []string
	for i := len(rev) - 1; i >= 0; i-- {
		b := rev[i]
		out = append(out, fmt.Sprintf("b%d(%s)", b.Index, c.blockLine(b)))
	}
	return out
}

func (c *Ctx) blockLine(b *ssa.BasicBlock) string {
	for _, in := range b.Instrs {
		if in.Pos().IsValid() {
			return fmt.Sprintf("L%d", c.P.Fset.Position(in.Pos()).Line)
		}
	}
	return b.Comment
}

// instrPos returns a usable position for an instruction (falls back to neighbours / function).
func (c *Ctx) instrPos(in ssa.Instruction) string {
	if in == nil {
		return "?"
	}
	if in.Pos().IsValid() {
		return c.P.Pos(in.Pos())
	}
	if v, ok := in.(ssa.Value); ok {
		_ = v
	}
	b := in.Block()
	if b != nil {
		for _, o := range b.Instrs {
			if o.Pos().IsValid() {
				return c.P.Pos(o.Pos())
			}
		}
		if b.Parent() != nil {
			return c.P.Pos(b.Parent().Pos())
		}
	}
	return "?"
}

// ---------------------------------------------------------------------------------------
// Return classification

// errResultIndex returns the index of the last result of type error, or -1.
func errResultIndex(fn *ssa.Function) int {
	res := fn.Signature.Results()
	for i := res.Len() - 1; i >= 0; i-- {
		if types.Identical(res.At(i).Type(), types.Universe.Lookup("error").Type()) {
			return i
		}
	}
	return -1
}

// definitelyNonNil reports whether v is obviously a non-nil error / pointer value.
func definitelyNonNil(v ssa.Value, depth int) bool {
	if depth > 6 {
		return false
	}
	switch x := v.(type) {
	case *ssa.Const:
		return false
	case *ssa.MakeInterface:
		return true
	case *ssa.Alloc, *ssa.MakeMap, *ssa.MakeSlice, *ssa.MakeChan, *ssa.MakeClosure, *ssa.Function:
		return true
	case *ssa.ChangeInterface:
		return definitelyNonNil(x.X, depth+1)
	case *ssa.UnOp:
		if x.Op == token.MUL {
			if _, ok := x.X.(*ssa.Global); ok {
				return true // package-level sentinel error variable
			}
		}
	case *ssa.Call:
		if o := calleeObj(x); o != nil && o.Pkg() != nil {
			switch o.Pkg().Path() + "." + o.Name() {
			case "errors.New", "fmt.Errorf", "errors.Join":
				return true
			}
			// constructor-style helpers returning a fresh error
			if strings.HasPrefix(o.Name(), "New") && strings.Contains(o.Name(), "Err") {
				return true
			}
			if o.Name() == "NewContextualError" || o.Name() == "ContextualizeIfNeeded" {
				return o.Name() == "NewContextualError"
			}
		}
	case *ssa.Phi:
		for _, e := range x.Edges {
			if e == x {
				continue
			}
			if !definitelyNonNil(e, depth+1) {
				return false
			}
		}
		return true
	}
	return false
}

// retResult returns the value a Return yields at index i. In functions with defers go/ssa spills
// results through allocs (`*t0 = v; rundefers; t = *t0; return t`): the stored value is returned
// when the store is in the same block before the RunDefers.
func retResult(ret *ssa.Return, i int) ssa.Value {
	v := ret.Results[i]
	u, ok := v.(*ssa.UnOp)
	if !ok || u.Op != token.MUL {
		return v
	}
	al, ok := u.X.(*ssa.Alloc)
	if !ok {
		return v
	}
	var stored ssa.Value
	for _, in := range ret.Block().Instrs {
		if in == ssa.Instruction(u) {
			break
		}
		if st, ok := in.(*ssa.Store); ok && st.Addr == al {
			stored = st.Val
		}
	}
	if stored != nil {
		return stored
	}
	return v
}

// A Sink is a program point: the instruction and its block.
type Sink struct {
	Instr ssa.Instruction
	Desc  string
	// ViaEdge: when the sink is "phi edge k of a return", only paths arriving through this
	// predecessor count. nil otherwise.
	ViaPred *ssa.BasicBlock
}

// successReturns lists the returns of fn whose result #idx may be nil (idx error-typed) /
// may be true (idx bool-typed, wantBool). Phi results are split per incoming edge.
func successReturns(fn *ssa.Function, idx int) []Sink {
	var out []Sink
	for _, b := range fn.Blocks {
		if len(b.Instrs) == 0 {
			continue
		}
		ret, ok := b.Instrs[len(b.Instrs)-1].(*ssa.Return)
		if !ok || idx >= len(ret.Results) {
			continue
		}
		v := retResult(ret, idx)
		if phi, ok := v.(*ssa.Phi); ok && phi.Block() == b {
			for k, e := range phi.Edges {
				if !definitelyNonNil(e, 0) {
					out = append(out, Sink{Instr: ret, Desc: "return (nil via phi)", ViaPred: b.Preds[k]})
				}
			}
			continue
		}
		if !definitelyNonNil(v, 0) && !nonNilOnAllPaths(fn, v, b) {
			out = append(out, Sink{Instr: ret, Desc: "return nil-able"})
		}
	}
	return out
}

// nonNilOnAllPaths: block blk is reachable only through the "v != nil" side of a test on v.
func nonNilOnAllPaths(fn *ssa.Function, v ssa.Value, blk *ssa.BasicBlock) bool {
	v = stripValue(v)
	edges := map[Edge]bool{}
	for _, b := range fn.Blocks {
		if len(b.Instrs) == 0 {
			continue
		}
		ifi, ok := b.Instrs[len(b.Instrs)-1].(*ssa.If)
		if !ok {
			continue
		}
		cd := normCond(ifi.Cond)
		if cd.Kind != CondNotNil || stripValue(cd.Base) != v {
			continue
		}
		// cond true <=> v != nil xor Neg. the non-nil side:
		if !cd.Neg {
			edges[Edge{b, 0}] = true
		} else {
			edges[Edge{b, 1}] = true
		}
	}
	if len(edges) == 0 {
		return false
	}
	_, reach := reachable(fn.Blocks[0], edges)[blk]
	return !reach
}

// boolReturns lists returns whose result #idx may equal want.
func boolReturns(fn *ssa.Function, idx int, want bool) []Sink {
	var out []Sink
	for _, b := range fn.Blocks {
		if len(b.Instrs) == 0 {
			continue
		}
		ret, ok := b.Instrs[len(b.Instrs)-1].(*ssa.Return)
		if !ok || idx >= len(ret.Results) {
			continue
		}
		v := retResult(ret, idx)
		if bv, ok := boolConst(v); ok {
			if bv == want {
				out = append(out, Sink{Instr: ret, Desc: fmt.Sprintf("return %v", want)})
			}
			continue
		}
		if phi, ok := v.(*ssa.Phi); ok && phi.Block() == b {
			for k, e := range phi.Edges {
				if bv, ok := boolConst(e); ok && bv != want {
					continue
				}
				out = append(out, Sink{Instr: ret, Desc: fmt.Sprintf("return maybe-%v (phi)", want), ViaPred: b.Preds[k]})
			}
			continue
		}
		out = append(out, Sink{Instr: ret, Desc: fmt.Sprintf("return maybe-%v", want)})
	}
	return out
}

// ---------------------------------------------------------------------------------------
// Guard matching (K1)

// Guard describes a test that must have passed on the way to a sink.
type Guard struct {
	Name string
	// Match decides, for an If instruction's normalised condition, whether this If tests the
	// guard, and returns which outcome of the *condition* (true/false) is the passing one.
	Match func(c Cond, ifi *ssa.If) (isGuard bool, passWhenTrue bool)
}

// passEdges returns the pass edges of g in fn: for each If matching g, the successor edge taken
// when the guard holds.
func passEdges(fn *ssa.Function, g Guard) (map[Edge]bool, int) { return passEdgesD(fn, g, 0) }

func passEdgesD(fn *ssa.Function, g Guard, depth int) (map[Edge]bool, int) {
	edges := map[Edge]bool{}
	n := 0
	for _, b := range fn.Blocks {
		if len(b.Instrs) == 0 {
			continue
		}
		ifi, ok := b.Instrs[len(b.Instrs)-1].(*ssa.If)
		if !ok {
			continue
		}
		cd := normCond(ifi.Cond)
		is, passTrue := g.Match(cd, ifi)
		if !is {
			is, passTrue = helperEstablishes(fn, cd, g, depth)
		}
		if !is {
			continue
		}
		n++
		// cond true -> Succs[0]
		if passTrue {
			edges[Edge{b, 0}] = true
		} else {
			edges[Edge{b, 1}] = true
		}
	}
	return edges, n
}

// helperEstablishes: the condition tests the result of a module helper h (its error being nil, or its
// single boolean result being true) and h itself establishes g on every path to such a result - the
// shape left behind when a guard sequence is extracted into a helper. Two levels deep at most.
func helperEstablishes(fn *ssa.Function, cd Cond, g Guard, depth int) (bool, bool) {
	if depth >= 2 || cd.Base == nil {
		return false, false
	}
	call, idx := callOf(cd.Base)
	if call == nil {
		return false, false
	}
	h := call.Common().StaticCallee()
	if h == nil || h.Blocks == nil || h == fn || !strings.HasPrefix(pkgPathOf(h), nebulaMod) {
		return false, false
	}
	held := func(ret *ssa.Return, via *ssa.BasicBlock) bool {
		edges, n := passEdgesD(h, g, depth+1)
		if n == 0 {
			return false
		}
		prev := reachable(h.Blocks[0], edges)
		rb := ret.Block()
		if via != nil {
			if _, ok := prev[via]; !ok {
				return true
			}
			for i, su := range via.Succs {
				if su == rb && !edges[Edge{via, i}] {
					return false
				}
			}
			return true
		}
		_, reached := prev[rb]
		return !reached
	}
	res := h.Signature.Results()
	switch {
	case cd.Kind == CondNotNil && isErrorType(cd.Base.Type()):
		ei := errResultIndex(h)
		if ei < 0 || (idx >= 0 && idx != ei) || (idx < 0 && res.Len() != 1) {
			return false, false
		}
		succ := successReturns(h, ei)
		if len(succ) == 0 {
			return false, false
		}
		for _, s := range succ {
			if !held(s.Instr.(*ssa.Return), s.ViaPred) {
				return false, false
			}
		}
		return true, cd.Neg
	case cd.Kind == CondBool && idx < 0 && res.Len() == 1:
		if b, ok := res.At(0).Type().Underlying().(*types.Basic); !ok || b.Kind() != types.Bool {
			return false, false
		}
		n := 0
		for _, b := range h.Blocks {
			ret, ok := b.Instrs[len(b.Instrs)-1].(*ssa.Return)
			if !ok {
				continue
			}
			v := retResult(ret, 0)
			if k, isK := boolConst(v); isK && !k {
				continue
			}
			if phi, isPhi := v.(*ssa.Phi); isPhi && phi.Block() == b {
				// judge each incoming edge that can carry true
				for i, e := range phi.Edges {
					if k, isK := boolConst(e); isK && !k {
						continue
					}
					n++
					if !held(ret, b.Preds[i]) {
						return false, false
					}
				}
				continue
			}
			n++
			if !held(ret, nil) {
				return false, false
			}
		}
		if n == 0 {
			return false, false
		}
		return true, !cd.Neg
	}
	return false, false
}

// mustPass checks that every path entry->sink crosses a pass edge of g. It returns ok, number of
// matched tests, and a witness bypass path.
func (c *Ctx) mustPass(fn *ssa.Function, s Sink, g Guard) (bool, int, []string) {
	edges, n := passEdges(fn, g)
	sb := s.Instr.Block()
	if s.ViaPred != nil {
		// only paths arriving through ViaPred: reach ViaPred, and the edge ViaPred->sb not blocked
		prev := reachable(fn.Blocks[0], edges)
		if _, ok := prev[s.ViaPred]; !ok {
			return true, n, nil
		}
		for i, su := range s.ViaPred.Succs {
			if su == sb && !edges[Edge{s.ViaPred, i}] {
				return false, n, append(c.blockPath(prev, s.ViaPred), fmt.Sprintf("b%d(return)", sb.Index))
			}
		}
		return true, n, nil
	}
	prev := reachable(fn.Blocks[0], edges)
	if _, ok := prev[sb]; ok {
		return false, n, c.blockPath(prev, sb)
	}
	return true, n, nil
}

// requireGuards emits one obligation per (sink, guard).
func (c *Ctx) requireGuards(rule string, fn *ssa.Function, sinks []Sink, sinkName string, guards ...Guard) {
	if fn == nil {
		return
	}
	if len(sinks) == 0 {
		c.Unknown(rule, fnName(fn)+":"+sinkName, "no sink instance found (the guarded construct is gone): cannot decide")
		return
	}
	for _, g := range guards {
		allOK := true
		matched := 0
		for i, s := range sinks {
			ok, n, path := c.mustPass(fn, s, g)
			matched = n
			if !ok {
				allOK = false
				c.Bad(rule, fmt.Sprintf("%s:%s#%d<-%s", fnName(fn), sinkName, i, g.Name), c.instrPos(s.Instr),
					fmt.Sprintf("%s is reachable without passing the test %q (%d matching tests found in the function)", sinkName, g.Name, n), path...)
			}
		}
		if allOK {
			if matched == 0 {
				// no test at all and still unreachable? means sink unreachable from entry — suspicious
				c.Unknown(rule, fmt.Sprintf("%s:%s<-%s", fnName(fn), sinkName, g.Name), "guard test not found and sink unreachable: unrecognised shape")
				continue
			}
			c.OK(rule, fmt.Sprintf("%s:%s<-%s", fnName(fn), sinkName, g.Name), fmt.Sprintf("%d sink(s), every path passes one of %d test(s)", len(sinks), matched))
		}
	}
}

// ---- guard constructors

// gCallBool: a call to callee returning bool (or a tuple whose element idx is bool) must be `want`.
func gCallBool(name string, want bool, idx int, refs ...Ref) Guard {
	return Guard{Name: name, Match: func(cd Cond, _ *ssa.If) (bool, bool) {
		if cd.Kind != CondBool {
			return false, false
		}
		call, i := callOf(cd.Base)
		if call == nil || !matchAny(calleeObj(call), refs) {
			return false, false
		}
		if idx >= 0 && i != idx {
			return false, false
		}
		// condition true <=> base true xor Neg ; we need base == want
		return true, want != cd.Neg
	}}
}

// gCallErrNil: the error result of a call to callee must be nil.
func gCallErrNil(name string, refs ...Ref) Guard {
	return Guard{Name: name, Match: func(cd Cond, _ *ssa.If) (bool, bool) {
		if cd.Kind != CondNotNil {
			return false, false
		}
		call, _ := callOf(cd.Base)
		if call == nil || !matchAny(calleeObj(call), refs) {
			return false, false
		}
		// cond true <=> base != nil xor Neg ; pass when base == nil
		return true, cd.Neg
	}}
}

// gCallNotNil: a (pointer/interface) result of a call must be non-nil.
func gCallNotNil(name string, idx int, refs ...Ref) Guard {
	return Guard{Name: name, Match: func(cd Cond, _ *ssa.If) (bool, bool) {
		if cd.Kind != CondNotNil {
			return false, false
		}
		call, i := callOf(cd.Base)
		if call == nil || !matchAny(calleeObj(call), refs) {
			return false, false
		}
		if idx >= 0 && i != idx {
			return false, false
		}
		return true, !cd.Neg
	}}
}

// gCmp: a comparison whose two operands satisfy pa/pb (in either order). pass(op, swapped)
// tells for the effective operator (with operands ordered a,b and negation folded in) whether
// the condition being true is the passing outcome.
func gCmp(name string, pa, pb func(ssa.Value) bool, passWhen func(op token.Token) (isGuard bool, passTrue bool)) Guard {
	return Guard{Name: name, Match: func(cd Cond, _ *ssa.If) (bool, bool) {
		if cd.Kind != CondCmp {
			return false, false
		}
		bo := cd.Base.(*ssa.BinOp)
		op := bo.Op
		var ok bool
		if pa(bo.X) && pb(bo.Y) {
			ok = true
		} else if pa(bo.Y) && pb(bo.X) {
			ok = true
			op = swapOp(op)
		}
		if !ok {
			return false, false
		}
		if cd.Neg {
			op = negOp(op)
		}
		return passWhen(op)
	}}
}

func swapOp(op token.Token) token.Token {
	switch op {
	case token.LSS:
		return token.GTR
	case token.GTR:
		return token.LSS
	case token.LEQ:
		return token.GEQ
	case token.GEQ:
		return token.LEQ
	}
	return op
}

func negOp(op token.Token) token.Token {
	switch op {
	case token.EQL:
		return token.NEQ
	case token.NEQ:
		return token.EQL
	case token.LSS:
		return token.GEQ
	case token.GEQ:
		return token.LSS
	case token.GTR:
		return token.LEQ
	case token.LEQ:
		return token.GTR
	}
	return op
}

// mustEqual: pass when a == b
func mustEqual(op token.Token) (bool, bool) {
	switch op {
	case token.EQL:
		return true, true
	case token.NEQ:
		return true, false
	}
	return false, false
}

// mustDiffer: pass when a != b
func mustDiffer(op token.Token) (bool, bool) {
	switch op {
	case token.EQL:
		return true, false
	case token.NEQ:
		return true, true
	}
	return false, false
}

// ---- value predicates

func anyValue(ssa.Value) bool { return true }

// isCallTo: v is (a conversion of) the result of a call to one of refs.
func isCallTo(refs ...Ref) func(ssa.Value) bool {
	return func(v ssa.Value) bool {
		call, _ := callOf(v)
		return call != nil && matchAny(calleeObj(call), refs)
	}
}

// isFieldLoad: v is a load of the given field (of any base) or the field's address / value.
func isFieldLoad(f *types.Var) func(ssa.Value) bool {
	return func(v ssa.Value) bool {
		return f != nil && loadsField(v, f)
	}
}

func loadsField(v ssa.Value, f *types.Var) bool {
	v = stripValue(v)
	switch x := v.(type) {
	case *ssa.UnOp:
		if x.Op == token.MUL {
			if fa, ok := x.X.(*ssa.FieldAddr); ok {
				return fieldOfAddr(fa) == f
			}
		}
	case *ssa.Field:
		return fieldOfVal(x) == f
	case *ssa.FieldAddr:
		return fieldOfAddr(x) == f
	}
	return false
}

func fieldOfAddr(fa *ssa.FieldAddr) *types.Var {
	t := fa.X.Type()
	if p, ok := t.Underlying().(*types.Pointer); ok {
		t = p.Elem()
	}
	st, ok := t.Underlying().(*types.Struct)
	if !ok || fa.Field >= st.NumFields() {
		return nil
	}
	return st.Field(fa.Field)
}

func fieldOfVal(f *ssa.Field) *types.Var {
	st, ok := f.X.Type().Underlying().(*types.Struct)
	if !ok || f.Field >= st.NumFields() {
		return nil
	}
	return st.Field(f.Field)
}

func isLenOf(inner func(ssa.Value) bool) func(ssa.Value) bool {
	return func(v ssa.Value) bool {
		v = stripValue(v)
		call, ok := v.(*ssa.Call)
		if !ok {
			return false
		}
		if b, ok := call.Call.Value.(*ssa.Builtin); ok && (b.Name() == "len" || b.Name() == "cap") {
			return inner(call.Call.Args[0])
		}
		return false
	}
}

func isIntConst(val int64) func(ssa.Value) bool {
	return func(v ssa.Value) bool {
		k, ok := stripValue(v).(*ssa.Const)
		if !ok || k.Value == nil {
			return false
		}
		i, exact := constant.Int64Val(constant.ToInt(k.Value))
		return exact && i == val
	}
}

func isParam(fn *ssa.Function, name string) func(ssa.Value) bool {
	return func(v ssa.Value) bool {
		p, ok := stripValue(v).(*ssa.Parameter)
		return ok && p.Name() == name && p.Parent() == fn
	}
}

// constInt returns the integer constant value of v, if any.
func constInt(v ssa.Value) (int64, bool) {
	k, ok := stripValue(v).(*ssa.Const)
	if !ok || k.Value == nil {
		return 0, false
	}
	if k.Value.Kind() != constant.Int {
		return 0, false
	}
	return constant.Int64Val(k.Value)
}

func constUint(v ssa.Value) (uint64, bool) {
	k, ok := stripValue(v).(*ssa.Const)
	if !ok || k.Value == nil {
		return 0, false
	}
	if k.Value.Kind() != constant.Int {
		return 0, false
	}
	return constant.Uint64Val(k.Value)
}

func constString(v ssa.Value) (string, bool) {
	k, ok := stripValue(v).(*ssa.Const)
	if !ok || k.Value == nil || k.Value.Kind() != constant.String {
		return "", false
	}
	return constant.StringVal(k.Value), true
}

// effCall is a call of a target function as seen from a root function: In is the call instruction
// in the root (the direct call, or the call of the helper that leads to it), Args the target's
// arguments expressed as values of the root (nil where the helper computes the argument itself
// instead of passing one of its own parameters through).
type effCall struct {
	In   ssa.CallInstruction
	Args []ssa.Value
}

// effectiveCalls lists the calls of target made by root directly or through same-package helpers
// it calls statically (up to depth levels): the view a rule gets when a block of the root was
// extracted into a helper.
func effectiveCalls(root *ssa.Function, target Ref, depth int) []effCall {
	var out []effCall
	var visit func(fn *ssa.Function, at ssa.CallInstruction, subst map[*ssa.Parameter]ssa.Value, d int)
	visit = func(fn *ssa.Function, at ssa.CallInstruction, subst map[*ssa.Parameter]ssa.Value, d int) {
		var calls []ssa.CallInstruction
		eachInstr(fn, func(in ssa.Instruction) {
			if ci, ok := in.(ssa.CallInstruction); ok {
				calls = append(calls, ci)
			}
		})
		sort.SliceStable(calls, func(i, j int) bool { return calls[i].Pos() < calls[j].Pos() })
		mapArg := func(v ssa.Value) ssa.Value {
			if subst == nil {
				return v
			}
			if p, ok := stripValue(v).(*ssa.Parameter); ok {
				return subst[p]
			}
			return nil
		}
		for _, ci := range calls {
			site := at
			if site == nil {
				site = ci
			}
			if matchFunc(calleeObj(ci), target) {
				var args []ssa.Value
				for _, a := range callArgs(ci) {
					args = append(args, mapArg(a))
				}
				out = append(out, effCall{In: site, Args: args})
				continue
			}
			h := ci.Common().StaticCallee()
			if d >= depth || h == nil || h.Blocks == nil || h.Pkg != root.Pkg || h == fn || h == root {
				continue
			}
			if _, isGo := ci.(*ssa.Go); isGo {
				continue
			}
			if len(callsInTransitive(h, target, depth-d)) == 0 {
				continue
			}
			sub := map[*ssa.Parameter]ssa.Value{}
			args := callArgs(ci)
			for k, p := range h.Params {
				if k < len(args) {
					sub[p] = mapArg(args[k])
				}
			}
			visit(h, site, sub, d+1)
		}
	}
	visit(root, nil, nil, 0)
	return out
}

func callsInTransitive(fn *ssa.Function, target Ref, depth int) []ssa.CallInstruction {
	out := callsIn(fn, target)
	if depth <= 0 {
		return out
	}
	eachInstr(fn, func(in ssa.Instruction) {
		if ci, ok := in.(ssa.CallInstruction); ok {
			if h := ci.Common().StaticCallee(); h != nil && h.Blocks != nil && h.Pkg == fn.Pkg && h != fn {
				out = append(out, callsInTransitive(h, target, depth-1)...)
			}
		}
	})
	return out
}
