package main

import (
	"go/constant"
	"go/token"
	"go/types"
	"strings"
)

// orderOracle resolves time.Time / netip.Addr style order methods over opaque symbols using a
// chosen total pre-order: rel[a+"|"+b] in {-1,0,1}. Unknown pairs => undecided.
type orderRel map[string]int

func (r orderRel) get(a, b string) (int, bool) {
	if v, ok := r[a+"|"+b]; ok {
		return v, true
	}
	if v, ok := r[b+"|"+a]; ok {
		return -v, true
	}
	if a == b {
		return 0, true
	}
	return 0, false
}

func orderOracle(rel orderRel, extra func(callee *types.Func, args []AVal) (AVal, bool)) func(*types.Func, []AVal) (AVal, bool) {
	return func(o *types.Func, args []AVal) (AVal, bool) {
		if o.Pkg() != nil && (o.Pkg().Path() == "time" || o.Pkg().Path() == "net/netip") && len(args) == 2 {
			switch o.Name() {
			case "After", "Before", "Equal", "Compare", "Less":
				r, ok := rel.get(args[0].String(), args[1].String())
				if !ok {
					return AVal{}, false
				}
				switch o.Name() {
				case "After":
					return aBool(r > 0), true
				case "Before", "Less":
					return aBool(r < 0), true
				case "Equal":
					return aBool(r == 0), true
				case "Compare":
					return aInt(int64(r)), true
				}
			}
		}
		if extra != nil {
			return extra(o, args)
		}
		return AVal{}, false
	}
}

// symAccessor: oracle fallback that turns zero-argument accessor calls into symbols "recv.Name()".
func symAccessor(o *types.Func, args []AVal) (AVal, bool) {
	if len(args) == 1 {
		return aSym(args[0].String() + "." + o.Name() + "()"), true
	}
	return AVal{}, false
}

// emptyCollections: `len(sym) > 0` style comparisons are resolved as if every opaque collection
// were empty (used to walk past loops that are irrelevant for the table being extracted).
func emptyCollections(op token.Token, a, b AVal) (bool, bool) {
	if strings.HasPrefix(a.Sym, "len(") && b.isConst() {
		return constant.Compare(constant.MakeInt64(0), op, b.K), true
	}
	if strings.HasPrefix(b.Sym, "len(") && a.isConst() {
		return constant.Compare(a.K, op, constant.MakeInt64(0)), true
	}
	return false, false
}

func constantInt64(v constant.Value) (int64, bool) {
	if v == nil || v.Kind() != constant.Int {
		return 0, false
	}
	return constant.Int64Val(v)
}
