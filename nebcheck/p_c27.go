package main

import (
	"fmt"
	"go/token"
	"go/types"
	"strings"

	"golang.org/x/tools/go/ssa"
)

const unixPkg = "golang.org/x/sys/unix"

func init() {
	register(&Property{
		ID: "C27", Title: "Received offload superdatagrams split back exactly",
		Patterns:    []string{"./udp"},
		Technique:   "CFG guard reachability with linear-inequality entailment (which sizes reach the split loop / the whole delivery; unsafe view, cast, read and advance bounds in the cmsg walker), induction-variable shape of the split loop (start 0, step segSize, continue while off < len, piece = payload[off:min(off+segSize,len)]), path counting of callback invocations, provenance of the split size and payload at the call site",
		LevelText:   "Structural necessary conditions on all paths of deliverSegments, parseRecvCmsg and their call site in ListenOut: the split loop is entered only with segSize >= 1 and a non-empty payload, everything else delivers the datagram whole exactly once and only when the size is <= 0 or >= len(payload); the loop has the tiling shape (off from 0 in steps of segSize while off < len(payload), one callback per iteration on payload[off:min(off+segSize,len(payload))], no other exit, nothing delivered before or after); every delivered slice has cap == len; the ancillary view is exactly (Control, Controllen) behind a non-nil and non-negative test, the Cmsghdr cast is behind off+sizeof(Cmsghdr) <= len, the payload read behind its own bound and selected by level SOL_UDP / type UDP_GRO at off+CmsgLen(0), and the walker advances by at least one byte and by no more than what remains; the size handed to deliverSegments is 0 or parseRecvCmsg of the same message slot whose buffer is delivered, and the control length of every slot is re-armed before each recvmmsg.",
		LevelNote:   "Not decided: integer wrap-around (inequalities are entailed over ideal integers); that the kernel wrote a well-formed cmsg; behaviour of the EncReader callback; the non-linux / android / e2e_testing listeners. Axiom used for the advance rule: unix.CmsgSpace(n) >= unix.CmsgLen(0)+n (x/sys/unix rounds both parts up). cap==len is necessary relative to the EncReader contract (a reader may append to what it is given).",
		Explanation: "K1 with entailment (g11LinGuard) on deliverSegments and parseRecvCmsg, loop-shape recognition + K5 path counts (0/1/many) for the tiling, K16 for the unsafe.Slice and *Cmsghdr cast (sizeof from types.Sizes), K11 at the ListenOut call site, for-all re-arm of Controllen between two recvmmsg calls",
		Run:         runC27,
		Configs:     []BuildConfig{{Name: "linux-386", GOARCH: "386"}},
		Canaries: func(c *Ctx) []Canary {
			return []Canary{
				{Name: "zero-size-enters-loop", File: "udp/udp_linux.go", Old: "if segSize <= 0 || segSize >= len(payload) { //avoid bogus values", New: "if segSize < 0 || segSize >= len(payload) { //avoid bogus values", Rule: "C27.split-guard"},
				{Name: "valid-size-delivered-whole", File: "udp/udp_linux.go", Old: "if segSize <= 0 || segSize >= len(payload) { //avoid bogus values", New: "if segSize <= 1 || segSize >= len(payload) { //avoid bogus values", Rule: "C27.whole"},
				{Name: "empty-datagram-dropped", File: "udp/udp_linux.go", Old: "if segSize <= 0 || segSize >= len(payload) { //avoid bogus values", New: "if segSize <= 0 { //avoid bogus values", Rule: "C27.split-guard"},
				{Name: "last-byte-lost", File: "udp/udp_linux.go", Old: "for off := 0; off < len(payload); off += segSize {", New: "for off := 0; off < len(payload)-1; off += segSize {", Rule: "C27.tile"},
				{Name: "pieces-overlap", File: "udp/udp_linux.go", Old: "for off := 0; off < len(payload); off += segSize {", New: "for off := 0; off < len(payload); off += segSize - 1 {", Rule: "C27.tile"},
				{Name: "tail-clamp-inverted", File: "udp/udp_linux.go", Old: "\t\tif end > len(payload) {\n\t\t\tend = len(payload)\n\t\t}\n\t\tr(from, payload[off:end:end])", New: "\t\tif end < len(payload) {\n\t\t\tend = len(payload)\n\t\t}\n\t\tr(from, payload[off:end:end])", Rule: "C27.tile"},
				{Name: "piece-cap-reaches-next-segment", File: "udp/udp_linux.go", Old: "r(from, payload[off:end:end])", New: "r(from, payload[off:end])", Rule: "C27.cap"},
				{Name: "cast-guard-one-short", File: "udp/udp_linux.go", Old: "for off+unix.SizeofCmsghdr <= len(ctrl) {", New: "for off+unix.SizeofCmsghdr-1 <= len(ctrl) {", Rule: "C27.cmsg-cast"},
				{Name: "view-longer-than-kernel-wrote", File: "udp/udp_linux.go", Old: "ctrl := unsafe.Slice(hdr.Control, controllen)", New: "ctrl := unsafe.Slice(hdr.Control, controllen+unix.SizeofCmsghdr)", Rule: "C27.cmsg-view"},
				{Name: "nil-control-not-tested", File: "udp/udp_linux.go", Old: "if controllen < unix.SizeofCmsghdr || hdr.Control == nil {", New: "if controllen < unix.SizeofCmsghdr {", Rule: "C27.cmsg-view"},
				{Name: "zero-cmsg-len-spins", File: "udp/udp_linux.go", Old: "if clen < unix.SizeofCmsghdr || clen > len(ctrl)-off {", New: "if clen > len(ctrl)-off {", Rule: "C27.cmsg-advance"},
				{Name: "cmsg-len-not-bounded-by-rest", File: "udp/udp_linux.go", Old: "if clen < unix.SizeofCmsghdr || clen > len(ctrl)-off {", New: "if clen < unix.SizeofCmsghdr {", Rule: "C27.cmsg-advance"},
				{Name: "payload-read-unguarded", File: "udp/udp_linux.go", Old: "\t\t\tif dataOff+udpGROCmsgPayload <= len(ctrl) {\n\t\t\t\tgso = int(int32(binary.NativeEndian.Uint32(ctrl[dataOff : dataOff+udpGROCmsgPayload])))\n\t\t\t}", New: "\t\t\tgso = int(int32(binary.NativeEndian.Uint32(ctrl[dataOff : dataOff+udpGROCmsgPayload])))", Rule: "C27.cmsg-read"},
				{Name: "any-udp-cmsg-taken-as-gro", File: "udp/udp_linux.go", Old: "if ch.Level == unix.SOL_UDP && ch.Type == unix.UDP_GRO {", New: "if ch.Level == unix.SOL_UDP {", Rule: "C27.cmsg-read"},
				{Name: "size-of-previous-slot", File: "udp/udp_linux.go", Old: "segSize = parseRecvCmsg(&msgs[i].Hdr)", New: "segSize = parseRecvCmsg(&msgs[0].Hdr)", Rule: "C27.caller"},
				{Name: "controllen-not-rearmed", File: "udp/udp_linux.go", Old: "\t\tif cmsgSpace > 0 {\n\t\t\tfor i := range msgs {\n\t\t\t\tsetMsgControllen(&msgs[i].Hdr, cmsgSpace)\n\t\t\t}\n\t\t}\n\n\t\tn, err := u.recvmmsg(msgs)", New: "\t\tn, err := u.recvmmsg(msgs)", Rule: "C27.caller"},
			}
		},
	})
}

func runC27(c *Ctx) {
	c.Rule("C27.split-guard", "K1: the split loop of deliverSegments is reachable only if tests entailing segSize >= 1 and a non-empty payload (len >= 1 or segSize <= len) passed", 2)
	c.Rule("C27.whole", "K1/K5: outside the loop the callback gets the whole payload, exactly once per path, and only behind tests entailing segSize <= 0, segSize >= len(payload) or an empty payload", 3)
	c.Rule("C27.tile", "loop shape: off starts at 0, steps by segSize, the loop continues exactly while off < len(payload) and has no other exit, the piece is payload[off:min(off+segSize,len(payload))], one callback per iteration, none before or after the loop", 5)
	c.Rule("C27.cap", "every slice handed to the callback is a full slice expression with max == high (cap == len): an append by the reader cannot reach the next segment", 2)
	c.Rule("C27.args", "the callback receives deliverSegments' own `from`", 2)
	c.Rule("C27.cmsg-view", "K16: unsafe.Slice(ptr,n) in the cmsg walker has ptr = hdr.Control and n = hdr.Controllen of the same header, behind Control != nil and n >= 0; no other unsafe construct", 3)
	c.Rule("C27.cmsg-cast", "K16: every unsafe cast &b[i] -> *T is behind a test entailing i + sizeof(T) <= len(b) (sizeof from types.Sizes of the build configuration)", 1)
	c.Rule("C27.cmsg-read", "K1/K11: every b[lo:hi] in the walker is behind hi <= len(b); the size is read at off+CmsgLen(0), 4 bytes, native endian, only for level SOL_UDP and type UDP_GRO", 4)
	c.Rule("C27.cmsg-advance", "K1: the offset advances by CmsgSpace(claimed-CmsgLen(0)) only behind tests entailing claimed >= 1 (progress) and off+claimed <= len (no overshoot)", 3)
	c.Rule("C27.caller", "K11: ListenOut delivers buffers[i][:msgs[i].Len] with size 0 or parseRecvCmsg(&msgs[i].Hdr) of the same slot and the same prepareRawMessages result, and re-arms every slot's control length between two recvmmsg calls", 3)
	c27Deliver(c)
	c27Cmsg(c)
	c27Caller(c)
}

func c27IsInt(t types.Type) bool { return types.Identical(t, types.Typ[types.Int]) }

// ---------------------------------------------------------------------------------------

func c27Deliver(c *Ctx) {
	fn := c.Func(Ref{"udp", "", "deliverSegments"})
	if fn == nil {
		return
	}
	pr := g11ParamOfType(fn, g11IsNamed("udp", "EncReader"))
	pFrom := g11ParamOfType(fn, g11IsNamed("net/netip", "AddrPort"))
	pPay := g11ParamOfType(fn, g11IsByteSlice)
	pSeg := g11ParamOfType(fn, c27IsInt)
	if pr == nil || pFrom == nil || pPay == nil || pSeg == nil {
		c.Unknown("C27.tile", "deliverSegments:signature", "expected one EncReader, one netip.AddrPort, one []byte and one int parameter")
		return
	}
	env := g11NewEnv(nil)
	seg := env.lin(pSeg)
	ln := g11Atom("len(" + env.key(pPay) + ")")
	one, zero := g11Const(1), g11Const(0)
	isR := func(in ssa.Instruction) bool {
		ci, ok := in.(ssa.CallInstruction)
		return ok && ci.Common().Value == pr
	}
	// the callback must only be called here (not stored / passed on): otherwise counting is moot
	for _, ref := range *pr.Referrers() {
		if _, isDbg := ref.(*ssa.DebugRef); !isDbg && !isR(ref) {
			c.Unknown("C27.tile", "deliverSegments:callback-escapes", "the callback is used other than by calling it ("+c.instrPos(ref)+"): unrecognised shape")
			return
		}
	}
	loops := naturalLoops(fn)
	var whole, piece []ssa.Instruction
	eachInstr(fn, func(in ssa.Instruction) {
		if isR(in) {
			if inAnyLoop(loops, in.Block()) {
				piece = append(piece, in)
			} else {
				whole = append(whole, in)
			}
		}
	})
	argOf := func(in ssa.Instruction, i int) ssa.Value { return in.(ssa.CallInstruction).Common().Args[i] }
	sinksOf := func(ins []ssa.Instruction, d string) []Sink {
		var s []Sink
		for _, in := range ins {
			s = append(s, Sink{Instr: in, Desc: d})
		}
		return s
	}
	// effective [low, high, max) of the slice handed to the callback
	bounds := func(v ssa.Value) (lo, hi g11Lin, max *g11Lin, ok bool) {
		if v == ssa.Value(pPay) {
			return zero, ln, nil, true
		}
		s, isS := v.(*ssa.Slice)
		if !isS || s.X != ssa.Value(pPay) {
			return lo, hi, nil, false
		}
		lo, hi = zero, ln
		if s.Low != nil {
			lo = env.lin(s.Low)
		}
		if s.High != nil {
			hi = env.lin(s.High)
		}
		if s.Max != nil {
			m := env.lin(s.Max)
			max = &m
		}
		return lo, hi, max, true
	}
	for i, in := range append(append([]ssa.Instruction{}, whole...), piece...) {
		cons := fmt.Sprintf("deliverSegments:callback#%d", i)
		c.Check(argOf(in, 0) == ssa.Value(pFrom), "C27.args", cons+":from", c.instrPos(in), "own from", "the callback is given an address other than deliverSegments' from parameter")
		_, hi, max, ok := bounds(argOf(in, 1))
		if !ok {
			c.Unknown("C27.cap", cons, "the delivered value is not a slice of the payload parameter: "+exprString(argOf(in, 1)))
			continue
		}
		c.Check(max != nil && max.equal(hi), "C27.cap", cons, c.instrPos(in), "max == high", "the delivered slice keeps spare capacity beyond its length (not payload[lo:hi:hi]): an append by the reader would overwrite the following segment of the same receive buffer")
	}

	// ---- whole delivery
	for i, in := range whole {
		lo, hi, _, ok := bounds(argOf(in, 1))
		cons := fmt.Sprintf("deliverSegments:whole#%d:extent", i)
		if !ok {
			c.Unknown("C27.whole", cons, "not a slice of the payload")
			continue
		}
		c.Check(lo.equal(zero) && hi.equal(ln), "C27.whole", cons, c.instrPos(in), "payload[0:len(payload)]", "outside the split loop the callback does not receive the whole datagram: ["+lo.String()+" : "+hi.String()+"]")
	}
	if len(whole) > 0 {
		c.requireGuards("C27.whole", fn, sinksOf(whole, "whole delivery"), "whole-delivery",
			c.g11LinGuard("size missing or nonsensical (segSize <= 0, segSize >= len(payload), or empty payload)", env, g11LEq(seg, zero), g11GEq(seg, ln), g11LEq(ln, zero)))
	}
	// exactly once on the paths that do not enter a loop
	{
		blocked := map[Edge]bool{}
		for _, l := range loops {
			for _, p := range l.Header.Preds {
				if !l.Body[p] {
					for k, s := range p.Succs {
						if s == l.Header {
							blocked[Edge{p, k}] = true
						}
					}
				}
			}
		}
		cf := g11Counts(fn.Blocks[0], blocked, isR)
		n := 0
		for i, r := range g11Returns(fn) {
			if _, reach := cf.in[r.Block()]; !reach {
				continue
			}
			n++
			m := cf.before(r)
			c.Check(m == g11One, "C27.whole", fmt.Sprintf("deliverSegments:unsplit-path@return#%d", i), c.instrPos(r), "one callback", "on a path that does not split, the callback runs "+g11MaskString(m)+" times: the datagram is lost or duplicated")
		}
		if n == 0 && len(piece) > 0 {
			c.Bad("C27.whole", "deliverSegments:unsplit-path", c.P.Pos(fn.Pos()), "every path enters the split loop: a missing or nonsensical size no longer delivers the datagram whole")
		}
	}

	// ---- split loop
	if len(piece) != 1 {
		c.Unknown("C27.tile", "deliverSegments:loop", fmt.Sprintf("expected one callback call inside one loop, found %d: unrecognised split shape", len(piece)))
		return
	}
	call := piece[0]
	c.requireGuards("C27.split-guard", fn, sinksOf(piece, "split delivery"), "split-loop",
		c.g11LinGuard("segSize >= 1", env, g11GEq(seg, one)),
		c.g11LinGuard("payload non-empty (len(payload) >= 1 or segSize <= len(payload))", env, g11GEq(ln, one), g11LEq(seg, ln)))
	L := innermostLoop(loops, call.Block())
	for _, l := range loops {
		if l != L && l.Body[call.Block()] {
			c.Unknown("C27.tile", "deliverSegments:loop", "nested loops around the callback: unrecognised split shape")
			return
		}
	}
	lo, hi, _, ok := bounds(argOf(call, 1))
	if !ok {
		c.Unknown("C27.tile", "deliverSegments:piece", "the piece is not a slice of the payload")
		return
	}
	// off: the header phi the lower bound is made of
	var off *ssa.Phi
	if s, isS := argOf(call, 1).(*ssa.Slice); isS && s.Low != nil {
		if p, isP := s.Low.(*ssa.Phi); isP && p.Block() == L.Header {
			off = p
		}
	}
	if off == nil {
		c.Unknown("C27.tile", "deliverSegments:piece", "the lower bound of the piece is not the loop's induction variable: "+lo.String())
		return
	}
	offL := env.lin(off)
	okInit, okStep := true, true
	for k, p := range L.Header.Preds {
		e := env.lin(off.Edges[k])
		if L.Body[p] {
			okStep = okStep && e.sub(offL).equal(seg)
		} else {
			okInit = okInit && e.equal(zero)
		}
	}
	c.Check(okInit && okStep, "C27.tile", "deliverSegments:start-and-step", c.instrPos(off), "off = 0; off += segSize", "the split offset does not start at 0 / does not advance by exactly segSize: pieces overlap or bytes are skipped")
	// the only exit is "off >= len(payload)", tested before the callback
	exits := g11ExitEdges(L)
	okExit := false
	why := fmt.Sprintf("%d exits", len(exits))
	if len(exits) == 1 {
		eb := exits[0].From
		if ifi, isIf := eb.Instrs[len(eb.Instrs)-1].(*ssa.If); isIf {
			t, f := env.outcomes(ifi.Cond)
			stay, leave := t, f
			if exits[0].Succ == 0 {
				stay, leave = f, t
			}
			lt, _ := g11Cmp(token.LSS, offL, ln)
			ge, _ := g11Cmp(token.GEQ, offL, ln)
			okExit = g11ImpliesAny(stay, []g11Cons{lt}) && g11ImpliesAny(leave, []g11Cons{ge}) && eb.Dominates(call.Block()) && eb != call.Block()
			why = "the continuation test is not exactly off < len(payload) before the callback"
		}
	}
	c.Check(okExit, "C27.tile", "deliverSegments:continue-while-off<len", c.instrPos(call), "single exit on off >= len(payload)", "the split loop does not run exactly while off < len(payload) ("+why+"): the tail is dropped, an empty extra piece is delivered, or the loop is left early")
	// piece = payload[off : min(off+segSize, len)]
	okPiece, whyP := lo.equal(offL), "lower bound is not off"
	if okPiece {
		okPiece, whyP = c27IsMin(env, argOf(call, 1).(*ssa.Slice).High, offL.add(seg), ln)
	}
	_ = hi
	c.Check(okPiece, "C27.tile", "deliverSegments:piece-bounds", c.instrPos(call), "payload[off:min(off+segSize,len(payload))]", "the piece is not payload[off:min(off+segSize,len(payload))]: "+whyP)
	m := g11PerIteration(L, isR)
	c.Check(m == g11One, "C27.tile", "deliverSegments:once-per-iteration", c.instrPos(call), "one callback per iteration", "the callback runs "+g11MaskString(m)+" times per iteration of the split loop")
	// nothing before the loop, nothing after it
	pre := g11Counts(fn.Blocks[0], g11BackEdges(L), isR)
	okAround := pre.in[L.Header] == g11Zero
	if len(exits) == 1 {
		post := g11Counts(exits[0].From.Succs[exits[0].Succ], nil, isR)
		for _, r := range g11Returns(fn) {
			if _, reach := post.in[r.Block()]; reach && post.before(r) != g11Zero {
				okAround = false
			}
		}
	}
	c.Check(okAround, "C27.tile", "deliverSegments:nothing-before-or-after", c.instrPos(call), "only the loop delivers on the split path", "on the split path the callback also runs before or after the loop: bytes are delivered twice")
}

// c27IsMin: v == min(a, b), as a two-way merge decided by a comparison of a and b, or builtin min.
func c27IsMin(env *g11Env, v ssa.Value, a, b g11Lin) (bool, string) {
	if v == nil {
		return false, "no upper bound"
	}
	if call, ok := v.(*ssa.Call); ok && builtinName(call) == "min" && len(call.Call.Args) == 2 {
		x, y := env.lin(call.Call.Args[0]), env.lin(call.Call.Args[1])
		if (x.equal(a) && y.equal(b)) || (x.equal(b) && y.equal(a)) {
			return true, ""
		}
		return false, "min of other operands"
	}
	phi, ok := v.(*ssa.Phi)
	if !ok || len(phi.Edges) != 2 {
		return false, "upper bound " + env.lin(v).String() + " is not a min"
	}
	ifi, side, ok := g11BranchOf(phi)
	if !ok {
		return false, "upper bound is not a two-way choice"
	}
	t, f := env.outcomes(ifi.Cond)
	seenA, seenB := false, false
	for k, e := range phi.Edges {
		facts := t
		if side[k] == 1 {
			facts = f
		}
		el := env.lin(e)
		switch {
		case el.equal(a): // chosen when a <= b
			if !g11ImpliesAny(facts, []g11Cons{g11LEq(a, b)}) {
				return false, "off+segSize is chosen without off+segSize <= len(payload)"
			}
			seenA = true
		case el.equal(b):
			if !g11ImpliesAny(facts, []g11Cons{g11LEq(b, a)}) {
				return false, "len(payload) is chosen without len(payload) <= off+segSize"
			}
			seenB = true
		default:
			return false, "upper bound can be " + el.String()
		}
	}
	if !seenA || !seenB {
		return false, "upper bound never clamps"
	}
	return true, ""
}

// ---------------------------------------------------------------------------------------

func c27UnixPure(o *types.Func) bool {
	return o.Pkg() != nil && o.Pkg().Path() == unixPkg && (o.Name() == "CmsgLen" || o.Name() == "CmsgSpace")
}

func c27Cmsg(c *Ctx) {
	fn := c.Func(Ref{"udp", "", "parseRecvCmsg"})
	fControl := c.Field("udp", "msghdr", "Control")
	fCL := c.Field("udp", "msghdr", "Controllen")
	if fn == nil || fControl == nil || fCL == nil {
		return
	}
	udpPath := PkgPath("udp")
	scope := reachableFuncs([]*ssa.Function{fn}, func(g *ssa.Function) bool { return pkgPathOf(g) == udpPath })
	env := g11NewEnv(c27UnixPure)
	cl0 := g11Atom("call:" + unixPkg + ".CmsgLen(" + g11Const(0).String() + ")")
	sizes := c.P.All[udpPath].TypesSizes
	fieldBase := func(v ssa.Value, f *types.Var) ssa.Value { // v = *(&base.f)
		u, ok := v.(*ssa.UnOp)
		if !ok || u.Op != token.MUL {
			return nil
		}
		fa, ok := u.X.(*ssa.FieldAddr)
		if !ok || fieldOfAddr(fa) != f {
			return nil
		}
		return fa.X
	}
	nView, nCast, nSlice := 0, 0, 0
	var casts []*ssa.IndexAddr
	for _, g := range scope {
		c.Funcs[g.String()] = true
		eachInstr(g, func(in ssa.Instruction) {
			switch x := in.(type) {
			case *ssa.Call:
				b, isB := x.Call.Value.(*ssa.Builtin)
				// go/ssa names the unsafe builtins Add, Slice, SliceData, String, StringData (the
				// universe builtins are lower-case)
				if !isB || b.Name() == "" || b.Name()[0] < 'A' || b.Name()[0] > 'Z' {
					return
				}
				cons := fmt.Sprintf("unsafe.%s#%d", b.Name(), nView)
				nView++
				if b.Name() != "Slice" {
					c.Unknown("C27.cmsg-view", cons, "unsafe construct other than unsafe.Slice in the cmsg walker: not analysed")
					return
				}
				ptr, n := x.Call.Args[0], x.Call.Args[1]
				base := fieldBase(ptr, fControl)
				nv := n
				for {
					if cv, ok := nv.(*ssa.Convert); ok {
						nv = cv.X
						continue
					}
					break
				}
				c.Check(base != nil && fieldBase(nv, fCL) == base, "C27.cmsg-view", cons+":extent", c.instrPos(x), "(hdr.Control, hdr.Controllen) of one header", "the ancillary view is not exactly the kernel-reported (Control, Controllen) pair of one header: ptr="+exprString(ptr)+" len="+exprString(n))
				if base == nil {
					return
				}
				sink := []Sink{{Instr: x, Desc: "unsafe.Slice"}}
				c.requireGuards("C27.cmsg-view", g, sink, cons,
					gValNotNil("Control != nil", func(v ssa.Value) bool { return fieldBase(v, fControl) == base }),
					c.g11LinGuard("length >= 0", env, g11GEq(env.lin(n), g11Const(0))))
			case *ssa.Convert:
				// unsafe.Pointer -> *T
				pt, isP := x.Type().Underlying().(*types.Pointer)
				if !isP || !c27IsUnsafePointer(x.X.Type()) {
					return
				}
				cons := fmt.Sprintf("cast->*%s#%d", types.TypeString(pt.Elem(), func(p *types.Package) string { return p.Name() }), nCast)
				nCast++
				src, isC := x.X.(*ssa.Convert)
				var ia *ssa.IndexAddr
				if isC {
					ia, _ = src.X.(*ssa.IndexAddr)
				}
				if ia == nil || !g11IsByteSlice(ia.X.Type()) {
					c.Unknown("C27.cmsg-cast", cons, "cast from unsafe.Pointer whose source is not &b[i] of a byte slice: unrecognised shape")
					return
				}
				casts = append(casts, ia)
				sz := sizes.Sizeof(pt.Elem())
				lenB := g11Atom("len(" + env.key(ia.X) + ")")
				c.requireGuards("C27.cmsg-cast", g, []Sink{{Instr: x, Desc: "cast"}}, cons,
					c.g11LinGuard(fmt.Sprintf("index + %d (sizeof) <= len", sz), env, g11LEq(env.lin(ia.Index).add(g11Const(sz)), lenB)))
			case *ssa.Slice:
				if !g11IsByteSlice(x.X.Type()) || x.High == nil {
					return
				}
				cons := fmt.Sprintf("byte-slice#%d", nSlice)
				nSlice++
				lenB := g11Atom("len(" + env.key(x.X) + ")")
				c.requireGuards("C27.cmsg-read", g, []Sink{{Instr: x, Desc: "slice"}}, cons,
					c.g11LinGuard("high <= len", env, g11LEq(env.lin(x.High), lenB)))
			}
		})
	}
	// ---- the size: 4 bytes at off+CmsgLen(0), native endian, SOL_UDP/UDP_GRO only
	var reads []*ssa.Call
	eachInstr(fn, func(in ssa.Instruction) {
		if call, ok := in.(*ssa.Call); ok {
			if o := calleeObj(call); o != nil && o.Pkg() != nil && o.Pkg().Path() == "encoding/binary" && strings.HasPrefix(o.Name(), "Uint") {
				reads = append(reads, call)
			}
		}
	})
	fLevel, fType := c.Field(unixPkg, "Cmsghdr", "Level"), c.Field(unixPkg, "Cmsghdr", "Type")
	kLevel, kType := c.ConstVal(unixPkg, "SOL_UDP"), c.ConstVal(unixPkg, "UDP_GRO")
	if len(reads) != 1 || len(casts) != 1 || fLevel == nil || fType == nil || kLevel == nil || kType == nil {
		c.Unknown("C27.cmsg-read", "parseRecvCmsg:size-read", fmt.Sprintf("expected one binary read and one header cast, found %d and %d", len(reads), len(casts)))
	} else {
		rd := reads[0]
		args := callArgs(rd)
		sl, _ := args[len(args)-1].(*ssa.Slice)
		okAt := false
		if sl != nil && sl.Low != nil && sl.High != nil && sl.X == casts[0].X {
			off := env.lin(casts[0].Index)
			okAt = env.lin(sl.Low).equal(off.add(cl0)) && env.lin(sl.High).sub(env.lin(sl.Low)).equal(g11Const(4)) && calleeObj(rd).Name() == "Uint32"
		}
		// binary.NativeEndian: receiver derives from the NativeEndian variable
		okNE := derivesFrom(args[0], sliceLocal, func(v ssa.Value) bool {
			gl, ok := v.(*ssa.Global)
			return ok && gl.Name() == "NativeEndian" && gl.Pkg.Pkg.Path() == "encoding/binary"
		})
		c.Check(okAt && okNE, "C27.cmsg-read", "parseRecvCmsg:size-read:at", c.instrPos(rd), "NativeEndian.Uint32(ctrl[off+CmsgLen(0):+4])", "the coalescing size is not read as a native-endian 32-bit value at off+CmsgLen(0) of the header just cast")
		kInt := func(v ssa.Value, k int64) bool { i, ok := constInt(v); return ok && i == k }
		lv, _ := constantInt64(kLevel)
		tv, _ := constantInt64(kType)
		c.requireGuards("C27.cmsg-read", fn, []Sink{{Instr: rd, Desc: "size read"}}, "size-read",
			gCmp("cmsg level == SOL_UDP", isFieldLoad(fLevel), func(v ssa.Value) bool { return kInt(v, lv) }, mustEqual),
			gCmp("cmsg type == UDP_GRO", isFieldLoad(fType), func(v ssa.Value) bool { return kInt(v, tv) }, mustEqual))
	}
	// ---- advance
	nAdv := 0
	for _, l := range naturalLoops(fn) {
		for _, ia := range casts {
			off, isPhi := ia.Index.(*ssa.Phi)
			if !isPhi || off.Block() != l.Header || ia.Parent() != fn {
				continue
			}
			lenB := g11Atom("len(" + env.key(ia.X) + ")")
			for k, p := range l.Header.Preds {
				if !l.Body[p] {
					c.Check(env.lin(off.Edges[k]).equal(g11Const(0)), "C27.cmsg-advance", "parseRecvCmsg:offset-starts-at-0", c.instrPos(off), "0", "the walk does not start at offset 0 of the ancillary data")
					continue
				}
				add, isAdd := off.Edges[k].(*ssa.BinOp)
				cons := fmt.Sprintf("advance#%d", nAdv)
				nAdv++
				if !isAdd || add.Op != token.ADD {
					c.Unknown("C27.cmsg-advance", cons, "offset update is not off + step")
					continue
				}
				step := add.Y
				if add.Y == ssa.Value(off) {
					step = add.X
				} else if add.X != ssa.Value(off) {
					c.Unknown("C27.cmsg-advance", cons, "offset update is not off + step")
					continue
				}
				// lower bound of the step: CmsgSpace(n) >= CmsgLen(0) + n
				claimed := env.lin(step)
				if call, ok := step.(*ssa.Call); ok && matchFunc(calleeObj(call), Ref{unixPkg, "", "CmsgSpace"}) {
					claimed = cl0.add(env.lin(call.Call.Args[0]))
				}
				c.requireGuards("C27.cmsg-advance", fn, []Sink{{Instr: add, Desc: "offset advance"}}, cons,
					c.g11LinGuard("step >= 1 (progress)", env, g11GEq(claimed, g11Const(1))),
					c.g11LinGuard("off + claimed length <= len (no overshoot / wrap)", env, g11LEq(env.lin(off).add(claimed), lenB)))
			}
		}
	}
	if nAdv == 0 {
		c.Unknown("C27.cmsg-advance", "parseRecvCmsg:loop", "no loop whose induction variable indexes the header cast: unrecognised walker shape")
	}
}

func c27IsUnsafePointer(t types.Type) bool {
	b, ok := t.Underlying().(*types.Basic)
	return ok && b.Kind() == types.UnsafePointer
}

// ---------------------------------------------------------------------------------------

func c27Caller(c *Ctx) {
	fn := c.Func(Ref{"udp", "StdConn", "ListenOut"})
	fHdr := c.Field("udp", "rawMessage", "Hdr")
	fLen := c.Field("udp", "rawMessage", "Len")
	if fn == nil || fHdr == nil || fLen == nil {
		return
	}
	pr := g11ParamOfType(fn, g11IsNamed("udp", "EncReader"))
	calls := callsIn(fn, Ref{"udp", "", "deliverSegments"})
	if len(calls) == 0 || pr == nil {
		c.Unknown("C27.caller", "ListenOut:deliverSegments", "call site not found")
		return
	}
	// slot(v): v = &msgs[i].<f>  ->  (msgs, i)
	slot := func(addr ssa.Value, f *types.Var) (ssa.Value, ssa.Value) {
		fa, ok := addr.(*ssa.FieldAddr)
		if !ok || fieldOfAddr(fa) != f {
			return nil, nil
		}
		ia, ok := fa.X.(*ssa.IndexAddr)
		if !ok {
			return nil, nil
		}
		return ia.X, ia.Index
	}
	prep := Ref{"udp", "", "prepareRawMessages"}
	fromPrep := func(v ssa.Value, idx int) *ssa.Call {
		call, i := callOf(v)
		if call != nil && i == idx && matchFunc(calleeObj(call), prep) {
			return call
		}
		return nil
	}
	for n, ci := range calls {
		a := callArgs(ci)
		cons := fmt.Sprintf("ListenOut:deliverSegments#%d", n)
		// payload = buffers[i][:msgs[i].Len]
		var bufs, bi, msgs, mi ssa.Value
		if s, ok := a[2].(*ssa.Slice); ok && s.Low == nil && s.High != nil && s.Max == nil {
			if ld, ok := s.X.(*ssa.UnOp); ok && ld.Op == token.MUL {
				if ia, ok := ld.X.(*ssa.IndexAddr); ok {
					bufs, bi = ia.X, ia.Index
				}
			}
			if ld, ok := stripValue(s.High).(*ssa.UnOp); ok && ld.Op == token.MUL {
				msgs, mi = slot(ld.X, fLen)
			}
		}
		okPay := bufs != nil && msgs != nil && bi == mi && fromPrep(bufs, 1) != nil && fromPrep(bufs, 1) == fromPrep(msgs, 0)
		c.Check(okPay && a[0] == ssa.Value(pr), "C27.caller", cons+":payload", c.instrPos(ci), "buffers[i][:msgs[i].Len] of one prepareRawMessages result, own reader", "the delivered payload is not the receive buffer of slot i cut to the length the kernel reported for slot i (or the reader is not ListenOut's)")
		// size = 0 | parseRecvCmsg(&msgs[i].Hdr)
		okSize, whySize := true, ""
		var walk func(v ssa.Value, d int)
		walk = func(v ssa.Value, d int) {
			if phi, ok := v.(*ssa.Phi); ok && d < 6 {
				for _, e := range phi.Edges {
					walk(e, d+1)
				}
				return
			}
			if k, ok := constInt(v); ok {
				if k != 0 {
					okSize, whySize = false, fmt.Sprintf("constant size %d", k)
				}
				return
			}
			call, _ := callOf(v)
			if call == nil || !matchFunc(calleeObj(call), Ref{"udp", "", "parseRecvCmsg"}) {
				okSize, whySize = false, "size from "+exprString(v)
				return
			}
			m2, i2 := slot(callArgs(call)[0], fHdr)
			if m2 == nil || m2 != msgs || i2 != mi {
				okSize, whySize = false, "size parsed from another slot's header: "+exprString(callArgs(call)[0])
			}
		}
		walk(a[3], 0)
		c.Check(okSize, "C27.caller", cons+":size", c.instrPos(ci), "0 or parseRecvCmsg(&msgs[i].Hdr) of the same slot", "the split size does not belong to the delivered datagram: "+whySize)
	}
	// ---- control length re-armed between two receives
	rx := callsIn(fn, Ref{"udp", "StdConn", "recvmmsg"})
	if len(rx) != 1 {
		c.Unknown("C27.caller", "ListenOut:rearm", fmt.Sprintf("%d recvmmsg calls", len(rx)))
		return
	}
	msgs := callArgs(rx[0])[1]
	setRef := Ref{"udp", "", "setMsgControllen"}
	var space ssa.Value
	isSet := func(in ssa.Instruction) bool {
		ci, ok := in.(ssa.CallInstruction)
		if !ok || !matchFunc(calleeObj(ci), setRef) {
			return false
		}
		m, _ := slot(callArgs(ci)[0], fHdr)
		return m == msgs
	}
	// a loop over every slot that re-arms the slot of the current index once per iteration
	cutBlocks := map[*ssa.BasicBlock]bool{}
	lenv := g11NewEnv(nil)
	for _, l := range naturalLoops(fn) {
		var idx ssa.Value
		n := 0
		for b := range l.Body {
			for _, in := range b.Instrs {
				if isSet(in) {
					a := callArgs(in.(ssa.CallInstruction))
					_, idx = slot(a[0], fHdr)
					space = a[1]
					n++
				}
			}
		}
		if n != 1 || idx == nil {
			continue
		}
		// the loop visits every index 0..len(msgs)-1 and re-arms the visited slot once
		if m := g11PerIteration(l, isSet); m == g11One && g11LoopCoversAll(lenv, l, idx, g11Atom("len("+lenv.key(msgs)+")")) {
			cutBlocks[l.Header] = true
		}
	}
	cut := func(in ssa.Instruction) bool { return cutBlocks[in.Block()] }
	// no ancillary space configured: nothing to re-arm
	noSpace := map[Edge]bool{}
	if space != nil {
		env := g11NewEnv(nil)
		noSpace, _ = passEdges(fn, c.g11LinGuard("cmsgSpace <= 0", env, g11LEq(env.lin(space), g11Const(0))))
	}
	av, _ := c.avoidsCutEdges(fn, rx[0], rx[0], cut, noSpace)
	okSpace := false
	if pc := fromPrep(msgs, 0); pc != nil && space != nil {
		okSpace = pc.Call.Args[2] == space // the very size the control buffers were allocated with
	}
	c.Check(!av && len(cutBlocks) > 0 && okSpace, "C27.caller", "ListenOut:rearm-controllen", c.instrPos(rx[0]), "every slot re-armed to the allocated control size before the next recvmmsg (unless no ancillary space is used)", "a second recvmmsg can be issued without every slot's Controllen being set back to the buffer size: the kernel then truncates the UDP_GRO cmsg and the superdatagram is delivered unsplit")
}
