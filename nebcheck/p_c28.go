package main

import (
	"fmt"
	"go/token"
	"go/types"

	"golang.org/x/tools/go/ssa"
)

var hostMapLock = lockKey("HostMap.RWMutex")

func hostMapDiscipline(rule string) *LockDiscipline {
	return &LockDiscipline{
		Rule: rule, Owner: "HostMap", OwnerPkg: "", Key: hostMapLock,
		Fields: []string{"Hosts", "moreHosts", "Indexes", "RemoteIndexes", "Relays"},
		Prefix: "unlocked",
		Exempt: map[string]string{"nebula.newHostMap": "constructor"},
	}
}

func init() {
	register(&Property{
		ID: "C28", Title: "Hostmap indexes stay consistent",
		Patterns:  []string{"."},
		Technique: "who-may-write tables for the five hostmap maps, lock-held dataflow for the unlocked* contract, CFG guards (membership before promotion, cap enforcement, owner-checked remote-index delete), must-pass-through cleanup in deletion, provenance of the prepended list, relay-index pairing",
		LevelText: "Structural necessary conditions on all paths: only the tabled functions write Hosts/moreHosts/Indexes/RemoteIndexes/Relays, always under the hostmap write lock (readers under at least the read lock); a promotion mutates lists only after the tunnel was found in Indexes; when adding, the list that gets the new tunnel prepended has had any copy of it removed, the primary slot is the list head, and exceeding the per-address cap retires the tail; deletion always passes the per-address removal loop, the owner-checked RemoteIndexes delete, the Indexes delete and the owned relay-index cleanup; every relay index written is also recorded in the owning tunnel's relay state.",
		LevelNote: "Not decided: list contents over arbitrary histories (needs a model checker); slices/bart internals. Lock classes are per type (HostMap has one live instance).",
		Explanation: "K2 writer tables, K3 lock discipline with requires-lock inference from the unlocked* naming contract, K1/K11 rules on unlockedMakePrimary / unlockedInnerAddHostInfo / unlockedSetHostsForAddr / unlockedDeleteHostInfo, pairing rule on AddRelay",
		Run:       runC28,
		Canaries: func(c *Ctx) []Canary {
			return []Canary{
				{Name: "stale-copy-kept-when-single-holder", File: "hostmap.go", Old: "\tif !ok {\n\t\tlist = []*HostInfo{existing}\n\t}\n\tlist = removeHostInfo(list, hostinfo)\n", New: "\tif ok {\n\t\tlist = removeHostInfo(list, hostinfo)\n\t} else {\n\t\tlist = []*HostInfo{existing}\n\t}\n", Rule: "C28.add"},
				{Name: "promotion-without-membership-test", File: "hostmap.go", Old: "\tif hm.Indexes[hostinfo.localIndexId] != hostinfo {\n\t\treturn false\n\t}\n", New: "", Rule: "C28.promote"},
				{Name: "delete-returns-before-relay-cleanup", File: "hostmap.go", Old: "\tif final {\n\t\t// I have lost connectivity to my peers.", New: "\tif !final {\n\t\treturn final\n\t}\n\tif final {\n\t\t// I have lost connectivity to my peers.", Rule: "C28.delete"},
				{Name: "make-primary-under-read-lock", File: "hostmap.go", Old: "func (hm *HostMap) MakePrimary(hostinfo *HostInfo) {\n\thm.Lock()\n\tdefer hm.Unlock()", New: "func (hm *HostMap) MakePrimary(hostinfo *HostInfo) {\n\thm.RLock()\n\tdefer hm.RUnlock()", Rule: "C28.locks"},
				{Name: "hosts-written-from-connection-manager", File: "connection_manager.go", Old: "func (cm *connectionManager) getInactivityTimeout() time.Duration {", New: "func (cm *connectionManager) forget(h *HostInfo) { delete(cm.hostMap.Hosts, h.vpnAddrs[0]) }\n\nfunc (cm *connectionManager) getInactivityTimeout() time.Duration {", Rule: "C28.writers"},
				{Name: "cap-off-by-one", File: "hostmap.go", Old: "if len(list) > MaxHostInfosPerVpnIp {", New: "if len(list) > MaxHostInfosPerVpnIp+1 {", Rule: "C28.add"},
				{Name: "unconditional-remote-index-delete", File: "hostmap.go", Old: "\tif ok && hostinfo2 == hostinfo {\n\t\tdelete(hm.RemoteIndexes, hostinfo.remoteIndexId)", New: "\tif ok && hostinfo2 != nil {\n\t\tdelete(hm.RemoteIndexes, hostinfo.remoteIndexId)", Rule: "C28.delete"},
			}
		},
	})
}

func runC28(c *Ctx) {
	c.Rule("C28.writers", "K2: Hosts/moreHosts/Indexes/RemoteIndexes/Relays are written only by the tabled hostmap functions", 5)
	c.Rule("C28.locks", "K3: every unlocked* HostMap method and every direct access to the five maps holds the hostmap lock (write mode for mutation)", 20)
	c.Rule("C28.promote", "K1: unlockedMakePrimary mutates lists only after Indexes[localIndexId] == hostinfo", 1)
	c.Rule("C28.add", "K11/K1: the list a new tunnel is prepended to had that tunnel removed on every path; Hosts[addr] is the list head; the cap test retires the tail", 4)
	c.Rule("C28.delete", "must-pass: unlockedDeleteHostInfo always runs the per-address loop, the owner-checked RemoteIndexes delete, the Indexes delete and the relay index cleanup", 5)
	c.Rule("C28.relay-pairing", "every hm.Relays[i] = h is paired with h.relayState.InsertRelay(_, i, _) in the same function", 1)

	funcs := c.moduleFuncs()
	tables := map[string]map[string]bool{
		"Hosts":         {"(*nebula.HostMap).unlockedSetHostsForAddr": true, "(*nebula.HostMap).unlockedInnerAddHostInfo": true, "(*nebula.HostMap).unlockedDeleteHostInfo": true, "nebula.newHostMap": true},
		"moreHosts":     {"(*nebula.HostMap).unlockedSetHostsForAddr": true, "(*nebula.HostMap).unlockedDeleteHostInfo": true, "nebula.newHostMap": true},
		"Indexes":       {"(*nebula.HostMap).unlockedAddHostInfo": true, "(*nebula.HostMap).unlockedDeleteHostInfo": true, "nebula.newHostMap": true},
		"RemoteIndexes": {"(*nebula.HostMap).unlockedAddHostInfo": true, "(*nebula.HostMap).unlockedDeleteHostInfo": true, "nebula.newHostMap": true},
		"Relays":        {"(*nebula.relayManager).AddRelay": true, "nebula.AddRelay": true, "(*nebula.HostMap).unlockedDeleteHostInfo": true, "nebula.newHostMap": true},
	}
	cg := fix4BuildCallGraph(funcs)
	innerRef := Ref{"", "HostMap", "unlockedInnerAddHostInfo"}
	inner := c.funcQuiet(innerRef)
	if inner == nil {
		// unlockedInnerAddHostInfo's only tabled caller is unlockedAddHostInfo (C09.addhost): when the function is gone its body
		// can only have moved there (or into a private helper of it), and the C28.add rules below are then decided on that body.
		tables["Hosts"]["(*nebula.HostMap).unlockedAddHostInfo"] = true
		c.Note("C28: unlockedInnerAddHostInfo is absent; the per-address insertion rules are anchored on unlockedAddHostInfo and its private helpers")
	}
	for fname, allow := range tables {
		f := c.Field("", "HostMap", fname)
		if f == nil {
			continue
		}
		// a private helper (unexported, same package, never a function value) whose every caller is a tabled writer of this
		// very map - or such a helper again - is a part of the tabled function
		var roots []*ssa.Function
		for _, fn := range funcs {
			if fn.Parent() == nil && allow[fnName(fn)] {
				roots = append(roots, fn)
			}
		}
		fam := fix4Family(c, funcs, cg, roots...)
		bad, viaHelper := 0, 0
		ws := fieldWriters(funcs, f)
		for _, w := range ws {
			if c.isTestHelperFile(w.Instr) || w.Kind == "addr-escape" {
				continue
			}
			n := fnName(topFunc(w.Fn))
			if allow[n] {
				continue
			}
			if fam[topFunc(w.Fn)] {
				viaHelper++
				c.Note("C28.writers: HostMap.%s is written by %s, a private helper called only from tabled writers of that map", fname, n)
				continue
			}
			bad++
			c.Bad("C28.writers", "HostMap."+fname+"<-"+n, c.instrPos(w.Instr), fmt.Sprintf("%s outside the functions that keep the hostmap indexes consistent", w.Kind))
		}
		if bad == 0 {
			c.OK("C28.writers", "HostMap."+fname, fmt.Sprintf("%d write sites, all tabled (%d in private helpers of tabled writers)", len(ws), viaHelper))
		}
	}
	hostMapDiscipline("C28.locks").run(c)

	fIdx := c.Field("", "HostMap", "Indexes")
	fHosts := c.Field("", "HostMap", "Hosts")
	// ---- promote
	if fn := c.Func(Ref{"", "HostMap", "unlockedMakePrimary"}); fn != nil {
		hi := fn.Params[1]
		sinks := callSinks(fn, "list mutation", callTo(Ref{"", "HostMap", "unlockedSetHostsForAddr"}))
		g := gCmp("Indexes[hostinfo.localIndexId] == hostinfo", func(v ssa.Value) bool {
			lk, ok := stripValue(v).(*ssa.Lookup)
			return ok && loadsField(lk.X, fIdx)
		}, func(v ssa.Value) bool { return v == hi }, mustEqual)
		c.requireGuards("C28.promote", fn, sinks, "list-mutation", g)
	}
	// ---- add
	// anchored on the construct: the prepend, the retire call and the cap test are looked for in unlockedInnerAddHostInfo and
	// its private helpers, or - when that function was inlined away - in unlockedAddHostInfo and its private helpers
	addRoot := inner
	if addRoot != nil {
		c.Funcs[addRoot.String()] = true
	} else {
		addRoot = c.Func(Ref{"", "HostMap", "unlockedAddHostInfo"})
	}
	if addRoot != nil {
		addFam := fix4FamilyList(funcs, fix4ReachFamily(fix4Family(c, funcs, cg, addRoot), addRoot))
		maxC := int64(5)
		if v := c.ConstVal("", "MaxHostInfosPerVpnIp"); v != nil {
			maxC, _ = constantInt64(v)
		}
		capTest := gCmp("len(list) > MaxHostInfosPerVpnIp", isLenOf(anyValue), func(v ssa.Value) bool { k, ok := constInt(v); return ok && k == maxC }, func(op token.Token) (bool, bool) {
			switch op {
			case token.GTR:
				return true, true
			case token.LEQ:
				return true, false
			}
			return false, false
		})
		hiType := c.NamedType("", "HostInfo")
		isHostInfoSlice := func(t types.Type) bool {
			sl, ok := t.Underlying().(*types.Slice)
			if !ok || hiType == nil {
				return false
			}
			pt, ok := sl.Elem().(*types.Pointer)
			return ok && types.Identical(pt.Elem(), hiType)
		}
		nPrepend, nDels, nSets, nTests := 0, 0, 0, 0
		var firstSet ssa.Instruction
		for _, fn := range addFam {
			// the prepend: append([]*HostInfo{hostinfo}, list...)
			eachInstr(fn, func(in ssa.Instruction) {
				call, ok := in.(*ssa.Call)
				if !ok || builtinName(call) != "append" || len(call.Call.Args) != 2 {
					return
				}
				if fn != inner && !isHostInfoSlice(call.Type()) {
					return
				}
				nPrepend++
				// the tunnel(s) put in front: the elements of the literal; in unlockedInnerAddHostInfo also its hostinfo parameter
				elems := fix4PrependElems(call)
				if fn == inner {
					elems = append(elems, fn.Params[2])
				}
				if len(elems) == 0 {
					c.Unknown("C28.add", "prepend-list-has-no-copy", "the element prepended at "+c.instrPos(call)+" is not a slice literal: unrecognised shape")
					return
				}
				removed := func(v ssa.Value) bool {
					rc, _ := callOf(v)
					if rc == nil || !matchFunc(calleeObj(rc), Ref{"", "", "removeHostInfo"}) {
						return false
					}
					for _, e := range elems {
						if rc.Call.Args[1] == e {
							return true
						}
					}
					return false
				}
				tail := call.Call.Args[1]
				okAll, culprit := fix4AllEdges(tail, removed)
				if _, isParam := culprit.(*ssa.Parameter); !okAll && isParam && fn != addRoot {
					c.Unknown("C28.add", "prepend-list-has-no-copy", "the list prepended to at "+c.instrPos(call)+" is a parameter of the private helper "+fnName(fn)+": what the callers removed from it is not followed")
					return
				}
				why := ""
				if culprit != nil {
					why = "edge value " + exprString(culprit)
				}
				c.Check(okAll, "C28.add", "prepend-list-has-no-copy", c.instrPos(call), "the old list had the new tunnel removed on every path", "the list the new tunnel is prepended to may still contain it ("+why+"): re-adding a tunnel duplicates it in its address list")
			})
			if dels := callSinks(fn, "retire tail", callTo(Ref{"", "HostMap", "unlockedDeleteHostInfo"})); len(dels) > 0 {
				nDels += len(dels)
				c.requireGuards("C28.add", fn, dels, "retire-tail", capTest)
			}
			// and conversely the cap test is there once the list was stored
			if sets := callsIn(fn, Ref{"", "HostMap", "unlockedSetHostsForAddr"}); len(sets) > 0 {
				nSets += len(sets)
				if firstSet == nil {
					firstSet = sets[0]
				}
			}
			tests, _ := splitEdges(fn, capTest)
			nTests += len(tests)
		}
		if nPrepend == 0 {
			c.Bad("C28.add", "prepend-list-has-no-copy", c.P.Pos(addRoot.Pos()), "prepend not found")
		}
		if nDels == 0 {
			c.requireGuards("C28.add", addRoot, nil, "retire-tail", capTest)
		}
		if nSets == 1 {
			c.Check(nTests > 0, "C28.add", "cap-test-present", c.instrPos(firstSet), "growth is followed by the cap test", "the per-address cap is no longer enforced after growing the list")
		}
	}
	if fn := c.Func(Ref{"", "HostMap", "unlockedSetHostsForAddr"}); fn != nil {
		list := fn.Params[2]
		ok, n := true, 0
		eachInstr(fn, func(in ssa.Instruction) {
			mu, isM := in.(*ssa.MapUpdate)
			if !isM || !loadsField(mu.Map, fHosts) {
				return
			}
			n++
			u, isU := stripValue(mu.Value).(*ssa.UnOp)
			if !isU {
				ok = false
				return
			}
			ia, isI := u.X.(*ssa.IndexAddr)
			k, isK := int64(-1), false
			if isI {
				k, isK = constInt(ia.Index)
			}
			ok = ok && isI && ia.X == list && isK && k == 0
		})
		c.Check(ok && n == 1, "C28.add", "Hosts[addr]=list[0]", c.P.Pos(fn.Pos()), "primary slot is the list head", "Hosts[addr] is not set to the head of the address list")
	}
	// ---- delete
	if fn := c.Func(Ref{"", "HostMap", "unlockedDeleteHostInfo"}); fn != nil {
		hi := ssa.Value(fn.Params[1])
		fRI := c.Field("", "HostMap", "RemoteIndexes")
		fRel := c.Field("", "HostMap", "Relays")
		isDelOf := func(f *typesVar) func(ssa.Instruction) bool {
			return func(in ssa.Instruction) bool {
				ci, ok := in.(ssa.CallInstruction)
				return ok && builtinName(ci) == "delete" && loadsField(ci.Common().Args[0], f)
			}
		}
		delFam := fix4Family(c, funcs, cg, fn)
		reach := fix4FamilyList(funcs, fix4ReachFamily(delFam, fn))
		notOwnerEdges := func(f *ssa.Function, h ssa.Value) map[Edge]bool {
			// the Indexes delete may be skipped only through the "this tunnel no longer owns the index" side of an ownership test
			// (Indexes[id] == hostinfo), the same idiom the RemoteIndexes delete uses
			e, _ := passEdges(f, gCmp("Indexes[id] != hostinfo", func(v ssa.Value) bool {
				return derivesFrom(v, sliceLocal, func(x ssa.Value) bool { lk, ok := x.(*ssa.Lookup); return ok && loadsField(lk.X, fIdx) })
			}, func(v ssa.Value) bool { return h != nil && v == h }, mustDiffer))
			return e
		}
		fVpn := c.Field("", "HostInfo", "vpnAddrs")
		plain := func(p func(ssa.Instruction) bool) func(*ssa.Function, ssa.Value) func(ssa.Instruction) bool {
			return func(*ssa.Function, ssa.Value) func(ssa.Instruction) bool { return p }
		}
		must := []fix4Cut{
			{Name: "Indexes-delete", Direct: plain(isDelOf(fIdx)), Skip: notOwnerEdges},
			{Name: "relay-index-cleanup (CopyRelayForIdxs)", Direct: plain(func(in ssa.Instruction) bool {
				ci, ok := in.(ssa.CallInstruction)
				return ok && matchFunc(calleeObj(ci), Ref{"", "RelayState", "CopyRelayForIdxs"})
			})},
			{Name: "RemoteIndexes-lookup", Direct: plain(func(in ssa.Instruction) bool {
				lk, ok := in.(*ssa.Lookup)
				return ok && loadsField(lk.X, fRI)
			})},
			// per-address loop over hostinfo.vpnAddrs is entered on every path
			{Name: "per-address-loop", Direct: func(f *ssa.Function, h ssa.Value) func(ssa.Instruction) bool {
				var hdr *ssa.BasicBlock
				if h != nil {
					if loops := fix4VpnLoops(f, h, fVpn); len(loops) == 1 {
						hdr = loops[0].Header
					}
				}
				return func(in ssa.Instruction) bool { return hdr != nil && in.Block() == hdr }
			}},
		}
		// looseLoop: a private helper reached from unlockedDeleteHostInfo ranges over a slice of addresses that is not visibly
		// <its tunnel parameter>.vpnAddrs (e.g. the slice itself was passed): the loop may be there in a form that is not followed
		looseLoop := func() bool {
			bind := fix4BindParam(delFam, cg, fn, hi)
			for _, g := range reach {
				if g == fn || fVpn == nil {
					continue
				}
				all := findRangeLoops(g, func(v ssa.Value) bool {
					_, isParam := stripValue(v).(*ssa.Parameter)
					return types.Identical(v.Type(), fVpn.Type()) && (isParam || loadsField(v, fVpn))
				})
				known := 0
				if b := bind[g]; b != nil {
					known = len(fix4VpnLoops(g, b, fVpn))
				}
				if len(all) > known {
					return true
				}
			}
			return false
		}
		// each of these is passed by every return of unlockedDeleteHostInfo: directly, or inside a private helper that is handed
		// the tunnel and itself passes it on every path
		for _, m := range must {
			mp := &fix4MustPass{c: c, fam: delFam, root: fn}
			ok, r, path := mp.check(fn, hi, m, 0)
			switch {
			case ok:
				c.OK("C28.delete", "must-pass:"+m.Name, "on every path")
			case mp.Unfollowed || (m.Name == "per-address-loop" && looseLoop()):
				c.Unknown("C28.delete", "must-pass:"+m.Name, "a private helper of unlockedDeleteHostInfo seems to hold this step but is not handed the tunnel as an argument (or loops over an address slice that is not visibly the tunnel's vpnAddrs): the step could not be mapped back")
			case m.Name == "per-address-loop":
				c.Bad("C28.delete", "must-pass:"+m.Name, c.P.Pos(fn.Pos()), "deletion can return without visiting each of the tunnel's addresses", path...)
			default:
				pos := c.P.Pos(fn.Pos())
				if r != nil {
					pos = c.instrPos(r)
				}
				c.Bad("C28.delete", "must-pass:"+m.Name, pos, "a path through unlockedDeleteHostInfo returns without "+m.Name+": a removed tunnel stays reachable", path...)
			}
		}
		// relay cleanup loop deletes from Relays
		hasRelDel := false
		for _, g := range reach {
			hasRelDel = hasRelDel || anyInstr(g, isDelOf(fRel))
		}
		c.Check(hasRelDel, "C28.delete", "relay-index-delete", c.P.Pos(fn.Pos()), "delete(hm.Relays, idx) present", "owned relay indexes are no longer removed from hm.Relays")
		// owner-checked RemoteIndexes delete
		ownerRI := func(h ssa.Value) Guard {
			return gCmp("RemoteIndexes[id] == hostinfo", func(v ssa.Value) bool {
				return derivesFrom(v, sliceLocal, func(x ssa.Value) bool { lk, ok := x.(*ssa.Lookup); return ok && loadsField(lk.X, fRI) })
			}, func(v ssa.Value) bool { return v == h }, mustEqual)
		}
		bind := fix4BindParam(delFam, cg, fn, hi)
		nRI := 0
		for _, g := range reach {
			var delRI []Sink
			eachInstr(g, func(in ssa.Instruction) {
				if isDelOf(fRI)(in) {
					delRI = append(delRI, Sink{Instr: in, Desc: "delete(RemoteIndexes)"})
				}
			})
			if len(delRI) == 0 {
				continue
			}
			nRI += len(delRI)
			if g == fn {
				c.requireGuards("C28.delete", fn, delRI, "RemoteIndexes-delete", ownerRI(hi))
				continue
			}
			h := bind[g]
			if h == nil {
				c.Unknown("C28.delete", fnName(g)+":RemoteIndexes-delete", "the delete sits in a private helper that is not handed the removed tunnel at every call: ownership test not followed")
				continue
			}
			for i, s := range delRI {
				ok, _, path := c.mustPass(g, s, ownerRI(h))
				if !ok {
					// the test may sit at the call sites instead
					ok = true
					for _, site := range cg.callers[g] {
						ch := bind[site.Fn]
						if ch == nil {
							ok = false
							break
						}
						if ok2, _, _ := c.mustPass(site.Fn, Sink{Instr: site.In}, ownerRI(ch)); !ok2 {
							ok = false
						}
					}
				}
				if ok {
					c.OK("C28.delete", fmt.Sprintf("%s:RemoteIndexes-delete#%d<-RemoteIndexes[id] == hostinfo", fnName(g), i), "every path passes the ownership test (in the helper or at each of its call sites)")
				} else {
					c.Bad("C28.delete", fmt.Sprintf("%s:RemoteIndexes-delete#%d<-RemoteIndexes[id] == hostinfo", fnName(g), i), c.instrPos(s.Instr), "RemoteIndexes-delete is reachable without passing the test \"RemoteIndexes[id] == hostinfo\"", path...)
				}
			}
		}
		if nRI == 0 {
			c.requireGuards("C28.delete", fn, nil, "RemoteIndexes-delete", ownerRI(hi))
		}
	}
	// ---- relay pairing
	fRel := c.Field("", "HostMap", "Relays")
	for _, fn := range funcs {
		if c.isTestFile(fn.Pos()) {
			continue
		}
		eachInstr(fn, func(in ssa.Instruction) {
			mu, ok := in.(*ssa.MapUpdate)
			if !ok || !loadsField(mu.Map, fRel) {
				return
			}
			paired := false
			for _, ci := range callsIn(fn, Ref{"", "RelayState", "InsertRelay"}) {
				a := callArgs(ci)
				if exprString(a[2]) == exprString(mu.Key) && derivesFrom(a[0], sliceLocal, func(x ssa.Value) bool { return x == stripValue(mu.Value) }) {
					paired = true
				}
			}
			c.Check(paired, "C28.relay-pairing", fnName(fn)+":Relays[idx]=h", c.instrPos(mu), "paired with h.relayState.InsertRelay(_, idx, _)", "a relay index is registered in hm.Relays without being recorded in the owning tunnel's relay state: it would never be cleaned up when the tunnel goes away")
		})
	}
}

// allEdges: v (through phis) satisfies pred on every incoming edge.
func allEdges(v ssa.Value, pred func(ssa.Value) bool) (bool, string) {
	seen := map[ssa.Value]bool{}
	var walk func(v ssa.Value) (bool, string)
	walk = func(v ssa.Value) (bool, string) {
		if seen[v] {
			return true, ""
		}
		seen[v] = true
		if pred(v) {
			return true, ""
		}
		if phi, ok := v.(*ssa.Phi); ok {
			for _, e := range phi.Edges {
				if ok, why := walk(e); !ok {
					return false, why
				}
			}
			return true, ""
		}
		return false, "edge value " + exprString(v)
	}
	return walk(v)
}

func anyInstr(fn *ssa.Function, pred func(ssa.Instruction) bool) bool {
	found := false
	eachInstr(fn, func(in ssa.Instruction) {
		if pred(in) {
			found = true
		}
	})
	return found
}
