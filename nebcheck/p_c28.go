package main

import (
	"fmt"
	"go/token"

	"golang.org/x/tools/go/ssa"
)

var hostMapLock = lockKey("HostMap.RWMutex")

func hostMapDiscipline(rule string) *LockDiscipline {
	return &LockDiscipline{
		Rule: rule, Owner: "HostMap", OwnerPkg: "", Key: hostMapLock,
		Fields: []string{"Hosts", "moreHosts", "Indexes", "RemoteIndexes", "Relays"},
		Prefix: "unlocked",
		Exempt: map[string]string{"nebula.newHostMap": "constructor"},
	}
}

func init() {
	register(&Property{
		ID: "C28", Title: "Hostmap indexes stay consistent",
		Patterns:  []string{"."},
		Technique: "who-may-write tables for the five hostmap maps, lock-held dataflow for the unlocked* contract, CFG guards (membership before promotion, cap enforcement, owner-checked remote-index delete), must-pass-through cleanup in deletion, provenance of the prepended list, relay-index pairing",
		LevelText: "Structural necessary conditions on all paths: only the tabled functions write Hosts/moreHosts/Indexes/RemoteIndexes/Relays, always under the hostmap write lock (readers under at least the read lock); a promotion mutates lists only after the tunnel was found in Indexes; when adding, the list that gets the new tunnel prepended has had any copy of it removed, the primary slot is the list head, and exceeding the per-address cap retires the tail; deletion always passes the per-address removal loop, the owner-checked RemoteIndexes delete, the Indexes delete and the owned relay-index cleanup; every relay index written is also recorded in the owning tunnel's relay state.",
		LevelNote: "Not decided: list contents over arbitrary histories (needs a model checker); slices/bart internals. Lock classes are per type (HostMap has one live instance).",
		Explanation: "K2 writer tables, K3 lock discipline with requires-lock inference from the unlocked* naming contract, K1/K11 rules on unlockedMakePrimary / unlockedInnerAddHostInfo / unlockedSetHostsForAddr / unlockedDeleteHostInfo, pairing rule on AddRelay",
		Run:       runC28,
		Canaries: func(c *Ctx) []Canary {
			return []Canary{
				{Name: "stale-copy-kept-when-single-holder", File: "hostmap.go", Old: "\tif !ok {\n\t\tlist = []*HostInfo{existing}\n\t}\n\tlist = removeHostInfo(list, hostinfo)\n", New: "\tif ok {\n\t\tlist = removeHostInfo(list, hostinfo)\n\t} else {\n\t\tlist = []*HostInfo{existing}\n\t}\n", Rule: "C28.add"},
				{Name: "promotion-without-membership-test", File: "hostmap.go", Old: "\tif hm.Indexes[hostinfo.localIndexId] != hostinfo {\n\t\treturn false\n\t}\n", New: "", Rule: "C28.promote"},
				{Name: "delete-returns-before-relay-cleanup", File: "hostmap.go", Old: "\tif final {\n\t\t// I have lost connectivity to my peers.", New: "\tif !final {\n\t\treturn final\n\t}\n\tif final {\n\t\t// I have lost connectivity to my peers.", Rule: "C28.delete"},
				{Name: "make-primary-under-read-lock", File: "hostmap.go", Old: "func (hm *HostMap) MakePrimary(hostinfo *HostInfo) {\n\thm.Lock()\n\tdefer hm.Unlock()", New: "func (hm *HostMap) MakePrimary(hostinfo *HostInfo) {\n\thm.RLock()\n\tdefer hm.RUnlock()", Rule: "C28.locks"},
				{Name: "hosts-written-from-connection-manager", File: "connection_manager.go", Old: "func (cm *connectionManager) getInactivityTimeout() time.Duration {", New: "func (cm *connectionManager) forget(h *HostInfo) { delete(cm.hostMap.Hosts, h.vpnAddrs[0]) }\n\nfunc (cm *connectionManager) getInactivityTimeout() time.Duration {", Rule: "C28.writers"},
				{Name: "cap-off-by-one", File: "hostmap.go", Old: "if len(list) > MaxHostInfosPerVpnIp {", New: "if len(list) > MaxHostInfosPerVpnIp+1 {", Rule: "C28.add"},
				{Name: "unconditional-remote-index-delete", File: "hostmap.go", Old: "\tif ok && hostinfo2 == hostinfo {\n\t\tdelete(hm.RemoteIndexes, hostinfo.remoteIndexId)", New: "\tif ok && hostinfo2 != nil {\n\t\tdelete(hm.RemoteIndexes, hostinfo.remoteIndexId)", Rule: "C28.delete"},
			}
		},
	})
}

func runC28(c *Ctx) {
	c.Rule("C28.writers", "K2: Hosts/moreHosts/Indexes/RemoteIndexes/Relays are written only by the tabled hostmap functions", 5)
	c.Rule("C28.locks", "K3: every unlocked* HostMap method and every direct access to the five maps holds the hostmap lock (write mode for mutation)", 20)
	c.Rule("C28.promote", "K1: unlockedMakePrimary mutates lists only after Indexes[localIndexId] == hostinfo", 1)
	c.Rule("C28.add", "K11/K1: the list a new tunnel is prepended to had that tunnel removed on every path; Hosts[addr] is the list head; the cap test retires the tail", 4)
	c.Rule("C28.delete", "must-pass: unlockedDeleteHostInfo always runs the per-address loop, the owner-checked RemoteIndexes delete, the Indexes delete and the relay index cleanup", 5)
	c.Rule("C28.relay-pairing", "every hm.Relays[i] = h is paired with h.relayState.InsertRelay(_, i, _) in the same function", 1)

	funcs := c.moduleFuncs()
	tables := map[string]map[string]bool{
		"Hosts":         {"(*nebula.HostMap).unlockedSetHostsForAddr": true, "(*nebula.HostMap).unlockedInnerAddHostInfo": true, "(*nebula.HostMap).unlockedDeleteHostInfo": true, "nebula.newHostMap": true},
		"moreHosts":     {"(*nebula.HostMap).unlockedSetHostsForAddr": true, "(*nebula.HostMap).unlockedDeleteHostInfo": true, "nebula.newHostMap": true},
		"Indexes":       {"(*nebula.HostMap).unlockedAddHostInfo": true, "(*nebula.HostMap).unlockedDeleteHostInfo": true, "nebula.newHostMap": true},
		"RemoteIndexes": {"(*nebula.HostMap).unlockedAddHostInfo": true, "(*nebula.HostMap).unlockedDeleteHostInfo": true, "nebula.newHostMap": true},
		"Relays":        {"(*nebula.relayManager).AddRelay": true, "nebula.AddRelay": true, "(*nebula.HostMap).unlockedDeleteHostInfo": true, "nebula.newHostMap": true},
	}
	for fname, allow := range tables {
		f := c.Field("", "HostMap", fname)
		if f == nil {
			continue
		}
		bad := 0
		ws := fieldWriters(funcs, f)
		for _, w := range ws {
			if c.isTestHelperFile(w.Instr) || w.Kind == "addr-escape" {
				continue
			}
			n := fnName(topFunc(w.Fn))
			if !allow[n] {
				bad++
				c.Bad("C28.writers", "HostMap."+fname+"<-"+n, c.instrPos(w.Instr), fmt.Sprintf("%s outside the functions that keep the hostmap indexes consistent", w.Kind))
			}
		}
		if bad == 0 {
			c.OK("C28.writers", "HostMap."+fname, fmt.Sprintf("%d write sites, all tabled", len(ws)))
		}
	}
	hostMapDiscipline("C28.locks").run(c)

	fIdx := c.Field("", "HostMap", "Indexes")
	fHosts := c.Field("", "HostMap", "Hosts")
	// ---- promote
	if fn := c.Func(Ref{"", "HostMap", "unlockedMakePrimary"}); fn != nil {
		hi := fn.Params[1]
		sinks := callSinks(fn, "list mutation", callTo(Ref{"", "HostMap", "unlockedSetHostsForAddr"}))
		g := gCmp("Indexes[hostinfo.localIndexId] == hostinfo", func(v ssa.Value) bool {
			lk, ok := stripValue(v).(*ssa.Lookup)
			return ok && loadsField(lk.X, fIdx)
		}, func(v ssa.Value) bool { return v == hi }, mustEqual)
		c.requireGuards("C28.promote", fn, sinks, "list-mutation", g)
	}
	// ---- add
	if fn := c.Func(Ref{"", "HostMap", "unlockedInnerAddHostInfo"}); fn != nil {
		hi := fn.Params[2]
		removed := func(v ssa.Value) bool {
			call, _ := callOf(v)
			return call != nil && matchFunc(calleeObj(call), Ref{"", "", "removeHostInfo"}) && call.Call.Args[1] == hi
		}
		// the prepend: append([]*HostInfo{hostinfo}, list...)
		n := 0
		eachInstr(fn, func(in ssa.Instruction) {
			call, ok := in.(*ssa.Call)
			if !ok || builtinName(call) != "append" {
				return
			}
			n++
			tail := call.Call.Args[1]
			okAll, why := allEdges(tail, removed)
			c.Check(okAll, "C28.add", "prepend-list-has-no-copy", c.instrPos(call), "the old list had the new tunnel removed on every path", "the list the new tunnel is prepended to may still contain it ("+why+"): re-adding a tunnel duplicates it in its address list")
		})
		if n == 0 {
			c.Bad("C28.add", "prepend-list-has-no-copy", c.P.Pos(fn.Pos()), "prepend not found")
		}
		maxC := int64(5)
		if v := c.ConstVal("", "MaxHostInfosPerVpnIp"); v != nil {
			maxC, _ = constantInt64(v)
		}
		dels := callSinks(fn, "retire tail", callTo(Ref{"", "HostMap", "unlockedDeleteHostInfo"}))
		capTest := gCmp("len(list) > MaxHostInfosPerVpnIp", isLenOf(anyValue), func(v ssa.Value) bool { k, ok := constInt(v); return ok && k == maxC }, func(op token.Token) (bool, bool) {
			switch op {
			case token.GTR:
				return true, true
			case token.LEQ:
				return true, false
			}
			return false, false
		})
		c.requireGuards("C28.add", fn, dels, "retire-tail", capTest)
		// and conversely the cap test dominates every return after the list was stored
		sets := callsIn(fn, Ref{"", "HostMap", "unlockedSetHostsForAddr"})
		if len(sets) == 1 {
			tests, _ := splitEdges(fn, capTest)
			okDom := len(tests) > 0
			c.Check(okDom, "C28.add", "cap-test-present", c.instrPos(sets[0]), "growth is followed by the cap test", "the per-address cap is no longer enforced after growing the list")
		}
	}
	if fn := c.Func(Ref{"", "HostMap", "unlockedSetHostsForAddr"}); fn != nil {
		list := fn.Params[2]
		ok, n := true, 0
		eachInstr(fn, func(in ssa.Instruction) {
			mu, isM := in.(*ssa.MapUpdate)
			if !isM || !loadsField(mu.Map, fHosts) {
				return
			}
			n++
			u, isU := stripValue(mu.Value).(*ssa.UnOp)
			if !isU {
				ok = false
				return
			}
			ia, isI := u.X.(*ssa.IndexAddr)
			k, isK := int64(-1), false
			if isI {
				k, isK = constInt(ia.Index)
			}
			ok = ok && isI && ia.X == list && isK && k == 0
		})
		c.Check(ok && n == 1, "C28.add", "Hosts[addr]=list[0]", c.P.Pos(fn.Pos()), "primary slot is the list head", "Hosts[addr] is not set to the head of the address list")
	}
	// ---- delete
	if fn := c.Func(Ref{"", "HostMap", "unlockedDeleteHostInfo"}); fn != nil {
		hi := fn.Params[1]
		fRI := c.Field("", "HostMap", "RemoteIndexes")
		fRel := c.Field("", "HostMap", "Relays")
		isDelOf := func(f *typesVar) func(ssa.Instruction) bool {
			return func(in ssa.Instruction) bool {
				ci, ok := in.(ssa.CallInstruction)
				return ok && builtinName(ci) == "delete" && loadsField(ci.Common().Args[0], f)
			}
		}
		rets := []*ssa.Return{}
		for _, b := range fn.Blocks {
			if r, ok := b.Instrs[len(b.Instrs)-1].(*ssa.Return); ok {
				rets = append(rets, r)
			}
		}
		must := []struct {
			name string
			cut  func(ssa.Instruction) bool
		}{
			{"Indexes-delete", isDelOf(fIdx)},
			{"relay-index-cleanup (CopyRelayForIdxs)", func(in ssa.Instruction) bool {
				ci, ok := in.(ssa.CallInstruction)
				return ok && matchFunc(calleeObj(ci), Ref{"", "RelayState", "CopyRelayForIdxs"})
			}},
			{"RemoteIndexes-lookup", func(in ssa.Instruction) bool {
				lk, ok := in.(*ssa.Lookup)
				return ok && loadsField(lk.X, fRI)
			}},
		}
		// the Indexes delete may be skipped only through the "this tunnel no longer owns the index" side of an ownership test
		// (Indexes[id] == hostinfo), the same idiom the RemoteIndexes delete uses
		notOwner, _ := passEdges(fn, gCmp("Indexes[id] != hostinfo", func(v ssa.Value) bool {
			return derivesFrom(v, sliceLocal, func(x ssa.Value) bool { lk, ok := x.(*ssa.Lookup); return ok && loadsField(lk.X, fIdx) })
		}, func(v ssa.Value) bool { return v == hi }, mustDiffer))
		for _, m := range must {
			bad := false
			for _, r := range rets {
				var av bool
				var path []string
				if m.name == "Indexes-delete" && len(notOwner) > 0 {
					av, path = c.avoidsCutEdges(fn, fn.Blocks[0].Instrs[0], r, m.cut, notOwner)
				} else {
					av, path = c.avoidsCut(fn, nil, r, m.cut)
				}
				if av {
					bad = true
					c.Bad("C28.delete", "must-pass:"+m.name, c.instrPos(r), "a path through unlockedDeleteHostInfo returns without "+m.name+": a removed tunnel stays reachable", path...)
					break
				}
			}
			if !bad {
				c.OK("C28.delete", "must-pass:"+m.name, "on every path")
			}
		}
		// relay cleanup loop deletes from Relays
		c.Check(len(callSinks(fn, "", CallSpec{})) >= 0 && anyInstr(fn, isDelOf(fRel)), "C28.delete", "relay-index-delete", c.P.Pos(fn.Pos()), "delete(hm.Relays, idx) present", "owned relay indexes are no longer removed from hm.Relays")
		// per-address loop over hostinfo.vpnAddrs is entered on every path
		fVpn := c.Field("", "HostInfo", "vpnAddrs")
		loops := findRangeLoops(fn, func(v ssa.Value) bool {
			return loadsField(v, fVpn) && derivesFrom(v, sliceLocal, func(x ssa.Value) bool { return x == hi })
		})
		okLoop := len(loops) == 1
		if okLoop {
			for _, r := range rets {
				if av, _ := c.avoidsCut(fn, nil, r, func(in ssa.Instruction) bool { return in.Block() == loops[0].Header }); av {
					okLoop = false
				}
			}
		}
		c.Check(okLoop, "C28.delete", "must-pass:per-address-loop", c.P.Pos(fn.Pos()), "every return passes the loop over hostinfo.vpnAddrs", "deletion can return without visiting each of the tunnel's addresses")
		// owner-checked RemoteIndexes delete
		var delRI []Sink
		eachInstr(fn, func(in ssa.Instruction) {
			if isDelOf(fRI)(in) {
				delRI = append(delRI, Sink{Instr: in, Desc: "delete(RemoteIndexes)"})
			}
		})
		c.requireGuards("C28.delete", fn, delRI, "RemoteIndexes-delete", gCmp("RemoteIndexes[id] == hostinfo", func(v ssa.Value) bool {
			return derivesFrom(v, sliceLocal, func(x ssa.Value) bool { lk, ok := x.(*ssa.Lookup); return ok && loadsField(lk.X, fRI) })
		}, func(v ssa.Value) bool { return v == hi }, mustEqual))
	}
	// ---- relay pairing
	fRel := c.Field("", "HostMap", "Relays")
	for _, fn := range funcs {
		if c.isTestFile(fn.Pos()) {
			continue
		}
		eachInstr(fn, func(in ssa.Instruction) {
			mu, ok := in.(*ssa.MapUpdate)
			if !ok || !loadsField(mu.Map, fRel) {
				return
			}
			paired := false
			for _, ci := range callsIn(fn, Ref{"", "RelayState", "InsertRelay"}) {
				a := callArgs(ci)
				if exprString(a[2]) == exprString(mu.Key) && derivesFrom(a[0], sliceLocal, func(x ssa.Value) bool { return x == stripValue(mu.Value) }) {
					paired = true
				}
			}
			c.Check(paired, "C28.relay-pairing", fnName(fn)+":Relays[idx]=h", c.instrPos(mu), "paired with h.relayState.InsertRelay(_, idx, _)", "a relay index is registered in hm.Relays without being recorded in the owning tunnel's relay state: it would never be cleaned up when the tunnel goes away")
		})
	}
}

// allEdges: v (through phis) satisfies pred on every incoming edge.
func allEdges(v ssa.Value, pred func(ssa.Value) bool) (bool, string) {
	seen := map[ssa.Value]bool{}
	var walk func(v ssa.Value) (bool, string)
	walk = func(v ssa.Value) (bool, string) {
		if seen[v] {
			return true, ""
		}
		seen[v] = true
		if pred(v) {
			return true, ""
		}
		if phi, ok := v.(*ssa.Phi); ok {
			for _, e := range phi.Edges {
				if ok, why := walk(e); !ok {
					return false, why
				}
			}
			return true, ""
		}
		return false, "edge value " + exprString(v)
	}
	return walk(v)
}

func anyInstr(fn *ssa.Function, pred func(ssa.Instruction) bool) bool {
	found := false
	eachInstr(fn, func(in ssa.Instruction) {
		if pred(in) {
			found = true
		}
	})
	return found
}
