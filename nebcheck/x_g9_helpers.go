package main

import (
	"fmt"
	"go/constant"
	"go/token"
	"go/types"
	"math/big"
	"strconv"
	"strings"

	"golang.org/x/tools/go/ssa"
)

// ---------------------------------------------------------------------------------------
// Interval classes for the K8 abstract evaluator (abseval.go): a symbol stands for *every* value
// of an integer interval; a comparison against a constant (or another class) is decided only when
// it has the same outcome for all members, otherwise it is left undetermined (=> UNDECIDED, or a
// retry on the interval's boundary points to look for a concrete counterexample).

type g9Iv struct{ Lo, Hi *big.Int } // nil bound = unbounded on that side

func g9Pt(v int64) g9Iv          { return g9Iv{big.NewInt(v), big.NewInt(v)} }
func g9PtU(v uint64) g9Iv        { b := new(big.Int).SetUint64(v); return g9Iv{b, b} }
func g9Range(lo, hi uint64) g9Iv { return g9Iv{new(big.Int).SetUint64(lo), new(big.Int).SetUint64(hi)} }
func g9AtLeast(lo int64) g9Iv    { return g9Iv{big.NewInt(lo), nil} }
func g9Below(hi int64) g9Iv      { return g9Iv{nil, big.NewInt(hi)} }

func (iv g9Iv) String() string {
	s := func(b *big.Int, inf string) string {
		if b == nil {
			return inf
		}
		return b.String()
	}
	if iv.Lo != nil && iv.Hi != nil && iv.Lo.Cmp(iv.Hi) == 0 {
		return iv.Lo.String()
	}
	return "[" + s(iv.Lo, "-inf") + ".." + s(iv.Hi, "+inf") + "]"
}

// points returns the boundary points of the interval (an unbounded side is replaced by a large
// representative); used only to search for a concrete counterexample.
func (iv g9Iv) points() []g9Iv {
	lo, hi := iv.Lo, iv.Hi
	if lo == nil {
		lo = big.NewInt(-(1 << 30))
	}
	if hi == nil {
		hi = big.NewInt(1 << 30)
	}
	if lo.Cmp(hi) == 0 {
		return []g9Iv{{lo, lo}}
	}
	return []g9Iv{{lo, lo}, {hi, hi}}
}

// lt: every a < every b ?  (decided, value)
func g9Less(a, b g9Iv, strict bool) (bool, bool) {
	// always true: a.Hi < b.Lo (or <=)
	if a.Hi != nil && b.Lo != nil {
		c := a.Hi.Cmp(b.Lo)
		if c < 0 || (!strict && c == 0) {
			return true, true
		}
	}
	// always false: a.Lo >= b.Hi (strict) / a.Lo > b.Hi (non-strict)
	if a.Lo != nil && b.Hi != nil {
		c := a.Lo.Cmp(b.Hi)
		if c > 0 || (strict && c == 0) {
			return true, false
		}
	}
	return false, false
}

// g9CmpIv decides `a op b` for all members of the two classes.
func g9CmpIv(op token.Token, a, b g9Iv) (decided, val bool) {
	switch op {
	case token.LSS:
		return g9Less(a, b, true)
	case token.LEQ:
		return g9Less(a, b, false)
	case token.GTR:
		return g9Less(b, a, true)
	case token.GEQ:
		return g9Less(b, a, false)
	case token.EQL, token.NEQ:
		eq, dec := false, false
		if a.Lo != nil && a.Hi != nil && b.Lo != nil && b.Hi != nil && a.Lo.Cmp(a.Hi) == 0 && b.Lo.Cmp(b.Hi) == 0 && a.Lo.Cmp(b.Lo) == 0 {
			eq, dec = true, true
		} else if d1, v1 := g9Less(a, b, true); d1 && v1 {
			dec = true
		} else if d2, v2 := g9Less(b, a, true); d2 && v2 {
			dec = true
		}
		if !dec {
			return false, false
		}
		return true, eq == (op == token.EQL)
	}
	return false, false
}

// g9SymCmp builds an AbsEnv.SymCmp over a table symbol -> class. nonNil lists the symbols known
// to be non-nil (a comparison of any other symbol with nil stays undetermined). lenOther is the
// class of len(x) for buffers x not in the table (nil: undetermined).
func g9SymCmp(ivs map[string]g9Iv, nonNil map[string]bool, lenOther *g9Iv) func(token.Token, AVal, AVal) (bool, bool) {
	ivOf := func(v AVal) (g9Iv, bool) {
		if v.K != nil {
			if v.K.Kind() != constant.Int {
				return g9Iv{}, false
			}
			b, ok := new(big.Int).SetString(v.K.ExactString(), 10)
			return g9Iv{b, b}, ok
		}
		if iv, ok := ivs[v.Sym]; ok {
			return iv, true
		}
		if lenOther != nil && strings.HasPrefix(v.Sym, "len([") {
			return *lenOther, true
		}
		return g9Iv{}, false
	}
	return func(op token.Token, a, b AVal) (bool, bool) {
		if a.Nil || b.Nil {
			s := a
			if a.Nil {
				s = b
			}
			if nonNil[s.Sym] && (op == token.EQL || op == token.NEQ) {
				return op == token.NEQ, true
			}
			return false, false
		}
		ia, oka := ivOf(a)
		ib, okb := ivOf(b)
		if !oka || !okb {
			return false, false
		}
		dec, val := g9CmpIv(op, ia, ib)
		return val, dec
	}
}

// g9SubEval evaluates an in-package helper under the caller's abstract environment (parameters
// bound by position): this is what keeps the K8 tables stable under "extract a helper".
func g9SubEval(fn *ssa.Function, env *AbsEnv, args []AVal) (AVal, string) {
	sub := *env
	sub.Params = map[string]AVal{}
	for i, p := range fn.Params {
		if i < len(args) {
			sub.Params[p.Name()] = args[i]
		}
	}
	res, err := absEval(fn, &sub)
	if err != "" {
		return AVal{}, fnName(fn) + ": " + err
	}
	if len(res) == 1 {
		return res[0], ""
	}
	return AVal{Tup: res}, ""
}

// g9Opaque is the result of a call the tables do not interpret (logging, copying helpers): an
// opaque symbol that keeps the callee name and the arguments, so provenance stays visible.
func g9Opaque(o *types.Func, args []AVal) AVal {
	s := o.Name() + "(" + fmt.Sprint(args) + ")"
	if tup, ok := o.Type().(*types.Signature); ok && tup.Results().Len() > 1 {
		r := AVal{}
		for i := 0; i < tup.Results().Len(); i++ {
			r.Tup = append(r.Tup, aSym(fmt.Sprintf("%s#%d", s, i)))
		}
		return r
	}
	return aSym(s)
}

func g9ConstInt(a AVal) (int64, bool) {
	if a.K == nil || a.K.Kind() != constant.Int {
		return 0, false
	}
	return constant.Int64Val(a.K)
}

// ---------------------------------------------------------------------------------------
// proto3 subset reader (K7): messages with scalar / message-typed singular fields and `reserved`
// numbers. Anything else inside a message the rules use is reported as unsupported.

type g9ProtoField struct {
	Name, Type, Label string
	Num               int64
}

type g9ProtoMsg struct {
	Name        string
	Fields      []g9ProtoField
	Reserved    map[int64]bool
	Unsupported []string
}

func (m *g9ProtoMsg) byNum(n int64) *g9ProtoField {
	for i := range m.Fields {
		if m.Fields[i].Num == n {
			return &m.Fields[i]
		}
	}
	return nil
}

func (m *g9ProtoMsg) byName(n string) *g9ProtoField {
	for i := range m.Fields {
		if m.Fields[i].Name == n {
			return &m.Fields[i]
		}
	}
	return nil
}

func g9ProtoTokens(src string) []string {
	var toks []string
	i := 0
	for i < len(src) {
		ch := src[i]
		switch {
		case ch == '/' && i+1 < len(src) && src[i+1] == '/':
			for i < len(src) && src[i] != '\n' {
				i++
			}
		case ch == '/' && i+1 < len(src) && src[i+1] == '*':
			j := strings.Index(src[i+2:], "*/")
			if j < 0 {
				return toks
			}
			i += j + 4
		case ch == ' ' || ch == '\t' || ch == '\n' || ch == '\r':
			i++
		case ch == '"' || ch == '\'':
			j := i + 1
			for j < len(src) && src[j] != ch {
				if src[j] == '\\' {
					j++
				}
				j++
			}
			toks = append(toks, src[i:min(j+1, len(src))])
			i = j + 1
		case strings.ContainsRune("{}[]()<>=;,", rune(ch)):
			toks = append(toks, string(ch))
			i++
		default:
			j := i
			for j < len(src) && !strings.ContainsRune(" \t\r\n{}[]()<>=;,\"'", rune(src[j])) {
				j++
			}
			toks = append(toks, src[i:j])
			i = j
		}
	}
	return toks
}

// g9ParseProto returns the top-level messages by name and the declared syntax.
func g9ParseProto(src string) (map[string]*g9ProtoMsg, string, error) {
	toks := g9ProtoTokens(src)
	msgs := map[string]*g9ProtoMsg{}
	syntax := ""
	p := 0
	skipStmt := func() { // to the matching ';' or past a balanced {...}
		depth := 0
		for p < len(toks) {
			t := toks[p]
			p++
			switch t {
			case "{":
				depth++
			case "}":
				depth--
				if depth == 0 {
					return
				}
			case ";":
				if depth == 0 {
					return
				}
			}
		}
	}
	for p < len(toks) {
		switch toks[p] {
		case "syntax":
			if p+3 < len(toks) {
				syntax = strings.Trim(toks[p+2], "\"'")
			}
			skipStmt()
		case "message":
			if p+2 >= len(toks) || toks[p+2] != "{" {
				return nil, syntax, fmt.Errorf("malformed message at token %d", p)
			}
			m := &g9ProtoMsg{Name: toks[p+1], Reserved: map[int64]bool{}}
			msgs[m.Name] = m
			p += 3
			for p < len(toks) && toks[p] != "}" {
				switch toks[p] {
				case "message", "enum", "oneof", "map", "extensions", "group", "extend":
					m.Unsupported = append(m.Unsupported, toks[p])
					skipStmt()
				case "option":
					skipStmt()
				case ";":
					p++
				case "reserved":
					p++
					for p < len(toks) && toks[p] != ";" {
						if n, err := strconv.ParseInt(toks[p], 10, 64); err == nil {
							if p+2 < len(toks) && toks[p+1] == "to" {
								hi, err2 := strconv.ParseInt(toks[p+2], 10, 64)
								if err2 != nil || hi-n > 1024 {
									m.Unsupported = append(m.Unsupported, "reserved range")
								} else {
									for k := n; k <= hi; k++ {
										m.Reserved[k] = true
									}
								}
								p += 2
							} else {
								m.Reserved[n] = true
							}
						}
						p++
					}
					p++
				default:
					f := g9ProtoField{}
					if toks[p] == "repeated" || toks[p] == "optional" || toks[p] == "required" {
						f.Label = toks[p]
						p++
					}
					if p+3 >= len(toks) || toks[p+2] != "=" {
						return nil, syntax, fmt.Errorf("malformed field in message %s near %q", m.Name, toks[p])
					}
					f.Type, f.Name = toks[p], toks[p+1]
					n, err := strconv.ParseInt(toks[p+3], 0, 64)
					if err != nil {
						return nil, syntax, fmt.Errorf("field %s.%s: bad number %q", m.Name, f.Name, toks[p+3])
					}
					f.Num = n
					m.Fields = append(m.Fields, f)
					p += 4
					for p < len(toks) && toks[p] != ";" { // [options]
						p++
					}
					p++
				}
			}
			p++ // '}'
		default:
			skipStmt()
		}
	}
	return msgs, syntax, nil
}

// g9Wire: protobuf scalar type -> wire type, the protowire appender/consumer suffix that carries it
// unchanged, and the Go type the value has in a hand-written struct. ok=false: a type whose
// encoding is not the identity on the Go value (zigzag, floats) or that the rules do not model.
func g9Wire(ptype string, msgs map[string]*g9ProtoMsg) (wt int64, codec string, goType string, ok bool) {
	switch ptype {
	case "uint32":
		return 0, "Varint", "uint32", true
	case "uint64":
		return 0, "Varint", "uint64", true
	case "bytes":
		return 2, "Bytes", "[]byte", true
	case "string":
		return 2, "String", "string", true
	case "fixed32":
		return 5, "Fixed32", "uint32", true
	case "fixed64":
		return 1, "Fixed64", "uint64", true
	}
	if _, isMsg := msgs[ptype]; isMsg {
		return 2, "Bytes", "message", true
	}
	return 0, "", "", false
}

// ---------------------------------------------------------------------------------------
// small SSA helpers

// g9Narrowing: integer conversion that can lose information (smaller width or sign change).
func g9Narrowing(cv *ssa.Convert) bool {
	src, ok1 := cv.X.Type().Underlying().(*types.Basic)
	dst, ok2 := cv.Type().Underlying().(*types.Basic)
	if !ok1 || !ok2 || src.Info()&types.IsInteger == 0 || dst.Info()&types.IsInteger == 0 {
		return false
	}
	ws, _ := intWidth(src)
	wd, _ := intWidth(dst)
	su, du := src.Info()&types.IsUnsigned != 0, dst.Info()&types.IsUnsigned != 0
	if su == du {
		return wd < ws
	}
	if su && !du {
		return wd <= ws
	}
	return true // signed -> unsigned
}

// g9PkgFuncs: fn and its static callees inside the same package (with closures).
func g9PkgFuncs(fn *ssa.Function) []*ssa.Function {
	return reachableFuncs([]*ssa.Function{fn}, func(f *ssa.Function) bool { return f.Pkg != nil && f.Pkg == fn.Pkg })
}

// g9NamedParam returns the parameters of fn whose type is (a pointer to) the named type.
func g9ParamsOfType(fn *ssa.Function, match func(types.Type) bool) []*ssa.Parameter {
	var out []*ssa.Parameter
	for _, p := range fn.Params {
		if match(p.Type()) {
			out = append(out, p)
		}
	}
	return out
}

func g9IsByteSlice(t types.Type) bool {
	s, ok := t.Underlying().(*types.Slice)
	if !ok {
		return false
	}
	b, ok := s.Elem().Underlying().(*types.Basic)
	return ok && b.Kind() == types.Uint8
}
