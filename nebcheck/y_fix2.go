package main

// Rules added after seed round 5 (C24: one's-complement carry; C33: clamp / round-up order of the timer wheel). They are
// attached to the property's Run and Canaries the way z_extra.go does; this file's init() runs before z_extra.go's, the
// wrappers compose.

import (
	"fmt"
	"go/constant"
	"go/token"
	"go/types"
	"sort"
	"strings"

	"golang.org/x/tools/go/ssa"
)

func init() {
	extend := func(id string, canaries []Canary, extra func(c *Ctx)) {
		p := registry[id]
		if p == nil {
			panic("y_fix2: property " + id + " not registered")
		}
		orig, origCan := p.Run, p.Canaries
		p.Run = func(c *Ctx) { orig(c); extra(c) }
		p.Canaries = func(c *Ctx) []Canary {
			var out []Canary
			if origCan != nil {
				out = origCan(c)
			}
			return append(out, canaries...)
		}
	}
	g := "overlay/tio/virtio/segment_linux.go"
	extend("C24", []Canary{
		{Name: "tcp-checksum-summed-in-32-bits", File: g, Old: "\t\twide := uint64(baseTcpHdrSum) + uint64(paySum) + uint64(baseProtoSum)\n\t\twide += uint64(segSeq) + uint64(segFlags) + uint64(tcpLen)\n\t\twide = (wide & 0xffffffff) + (wide >> 32)\n\t\twide = (wide & 0xffffffff) + (wide >> 32)\n\t\tbinary.BigEndian.PutUint16(seg[csumStart+tcpChecksumOff:csumStart+tcpChecksumOff+2], foldComplement(uint32(wide)))\n", New: "\t\ttcpSum := baseTcpHdrSum + paySum + baseProtoSum\n\t\ttcpSum += segSeq + uint32(segFlags) + uint32(tcpLen)\n\t\tbinary.BigEndian.PutUint16(seg[csumStart+tcpChecksumOff:csumStart+tcpChecksumOff+2], foldComplement(tcpSum))\n", Rule: "C24.carry"},
		{Name: "tcp-wide-sum-truncated-unfolded", File: g, Old: "\t\twide = (wide & 0xffffffff) + (wide >> 32)\n\t\twide = (wide & 0xffffffff) + (wide >> 32)\n", New: "", Rule: "C24.carry"},
		{Name: "base-sum-subtracts-sequence-whole", File: g, Old: "\tsum += uint32(^uint16(seq >> 16))\n\tsum += uint32(^uint16(seq))\n", New: "\tsum += ^seq\n", Rule: "C24.carry"},
		{Name: "udp-pseudo-seed-truncated-unfolded", File: g, Old: "\t\tpseudo = (pseudo & 0xffff) + (pseudo >> 16)\n\t\tpseudo = (pseudo & 0xffff) + (pseudo >> 16)\n", New: "", Rule: "C24.carry"},
	}, fix2C24Carry)
	f := "timeout.go"
	extend("C33", []Canary{
		{Name: "tick-count-clamped-after-rounding", File: f, Old: "\tif timeout < tw.tickDuration {\n\t\t// Can't track anything below the set resolution\n\t\ttimeout = tw.tickDuration\n\t} else if timeout > tw.wheelDuration {\n\t\t// We aren't handling timeouts greater than the wheels duration\n\t\ttimeout = tw.wheelDuration\n\t}\n\n\t// Find the next highest, rounding up\n\ttick := int(((timeout - 1) / tw.tickDuration) + 1)\n", New: "\ttick := int(((timeout - 1) / tw.tickDuration) + 1)\n\tif tick < 1 {\n\t\ttick = 1\n\t} else if maxTick := int(tw.wheelDuration / tw.tickDuration); tick > maxTick {\n\t\ttick = maxTick\n\t}\n", Rule: "C33.round-after-clamp"},
		{Name: "extra-floor-cap-on-tick-count", File: f, Old: "\ttick := int(((timeout - 1) / tw.tickDuration) + 1)\n", New: "\ttick := int(((timeout - 1) / tw.tickDuration) + 1)\n\tif whole := int(tw.wheelDuration / tw.tickDuration); tick > whole {\n\t\ttick = whole\n\t}\n", Rule: "C33.round-after-clamp"},
		{Name: "tick-count-min-with-wheel-slots", File: f, Old: "\ttick := int(((timeout - 1) / tw.tickDuration) + 1)\n", New: "\ttick := min(int(((timeout-1)/tw.tickDuration)+1), tw.wheelLen-2)\n", Rule: "C33.round-after-clamp"},
	}, fix2C33RoundAfterClamp)
}

// ---------------------------------------------------------------------------------------
// shared: integer widths

// fix2IntWidth: bit width of an integer type on the analysed platform (linux/amd64: int, uint, uintptr = 64); 0 = not an integer.
func fix2IntWidth(t types.Type) (int, bool) {
	b, ok := t.Underlying().(*types.Basic)
	if !ok || b.Info()&types.IsInteger == 0 {
		return 0, false
	}
	uns := b.Info()&types.IsUnsigned != 0
	switch b.Kind() {
	case types.Int8, types.Uint8:
		return 8, uns
	case types.Int16, types.Uint16:
		return 16, uns
	case types.Int32, types.Uint32:
		return 32, uns
	}
	return 64, uns
}

func fix2ConstU(v ssa.Value) (uint64, bool) {
	k, ok := v.(*ssa.Const)
	if !ok || k.Value == nil || k.Value.Kind() != constant.Int {
		return 0, false
	}
	return constant.Uint64Val(k.Value)
}

func fix2BitLen(u uint64) int {
	n := 0
	for ; u != 0; u >>= 1 {
		n++
	}
	return n
}

// fix2KnownWidth: an upper bound on the significant bits of an unsigned value that is evident from its shape (constant, narrow
// unsigned type, mask, right shift, widening conversion of those); -1 = not evident.
func fix2KnownWidth(v ssa.Value, d int) int {
	if d > 8 {
		return -1
	}
	if u, ok := fix2ConstU(v); ok {
		return fix2BitLen(u)
	}
	w, uns := fix2IntWidth(v.Type())
	if w == 0 {
		return -1
	}
	byType := -1
	if uns {
		byType = w
	}
	best := func(a, b int) int {
		switch {
		case a < 0:
			return b
		case b < 0:
			return a
		case a < b:
			return a
		}
		return b
	}
	switch x := v.(type) {
	case *ssa.ChangeType:
		return best(byType, fix2KnownWidth(x.X, d+1))
	case *ssa.Convert:
		sw, suns := fix2IntWidth(x.X.Type())
		if sw != 0 && suns { // zero extension or truncation of an unsigned value
			return best(byType, fix2KnownWidth(x.X, d+1))
		}
	case *ssa.BinOp:
		switch x.Op {
		case token.AND:
			r := byType
			for _, o := range []ssa.Value{x.X, x.Y} {
				if u, ok := fix2ConstU(o); ok {
					r = best(r, fix2BitLen(u))
				} else if ow, ouns := fix2IntWidth(o.Type()); ow != 0 && ouns {
					r = best(r, fix2KnownWidth(o, d+1))
				}
			}
			return r
		case token.SHR:
			if k, ok := fix2ConstU(x.Y); ok && uns {
				if in := best(byType, fix2KnownWidth(x.X, d+1)); in >= 0 {
					if int(k) >= in {
						return 0
					}
					return in - int(k)
				}
			}
		}
	}
	return byType
}

// ---------------------------------------------------------------------------------------
// C24: the Internet checksum is a one's-complement sum: every carry out of the accumulator has to come back in at the bottom.
// A sum of a few 16-bit words cannot carry out of 32 bits, so a uint32 accumulator is enough for those; a full 32-bit quantity
// (the TCP sequence number read with Uint32, possibly plus the segment offset) can. It may enter the accumulator only as two
// 16-bit halves, or in an addition wider than 32 bits whose result is folded end-around before it is cut down.
// (Seed C24: the 64-bit accumulator of SegmentTCP became a uint32; for sequence numbers near 2^32 the carry out of bit 31 was
// dropped and the checksum was off by one.)

const (
	fix2Narrow = 0 // at most 16 significant bits, or a buffer length / index / constant
	fix2Opaque = 1 // origin not recognised
	fix2Raw    = 2 // a full 32-bit (or wider) quantity: read with Uint32/Uint64, assembled by shifts, a complement in a wide type, or arithmetic on one
)

type fix2Csum struct {
	c       *Ctx
	pkg     string
	scope   []*ssa.Function
	in      map[*ssa.Function]bool
	outside map[*ssa.Function]bool        // parameters not determined by the call sites seen (entry points, exported, called from elsewhere, used as a value)
	sites   map[*ssa.Function][]*ssa.Call // call sites inside the package
	fa      map[ssa.Value]bool            // derived from a partial checksum
	memo    map[ssa.Value]int
	prev    map[ssa.Value]int
	busy    map[ssa.Value]bool
}

func fix2IsChecksum(ci ssa.CallInstruction) bool {
	return matchFunc(calleeObj(ci), Ref{"overlay/checksum", "", "Checksum"})
}

// fix2WideRead: encoding/binary's Uint32 / Uint64 (bigEndian, littleEndian or through the ByteOrder interface).
func fix2WideRead(ci ssa.CallInstruction) bool {
	o := calleeObj(ci)
	if o == nil || o.Pkg() == nil || o.Pkg().Path() != "encoding/binary" || o.Type().(*types.Signature).Recv() == nil {
		return false
	}
	return o.Name() == "Uint32" || o.Name() == "Uint64"
}

// fix2FieldPut: encoding/binary's PutUintNN / AppendUintNN; returns the byte width.
func fix2FieldPut(ci ssa.CallInstruction) int {
	o := calleeObj(ci)
	if o == nil || o.Pkg() == nil || o.Pkg().Path() != "encoding/binary" || o.Type().(*types.Signature).Recv() == nil {
		return 0
	}
	if strings.HasPrefix(o.Name(), "PutUint") || strings.HasPrefix(o.Name(), "AppendUint") {
		return widthOfBinaryFn(o.Name())
	}
	return 0
}

func fix2C24Carry(c *Ctx) {
	c.Rule("C24.carry", "one's-complement carry: in SegmentTCP / SegmentUDP and the package functions they call, every addition of at most 32 bits that takes part in a checksum (it adds to a value derived from checksum.Checksum, is an addend of such an addition, or seeds Checksum) has only operands of at most 16 significant bits (16-bit words, masked or shifted halves, lengths, constants, sums of those) unless its result is itself stored whole as a header field (modular by construction) or its carry is tested; and every cut of such a sum from more than 16 bits down to k >= 16 bits takes two end-around passes (x & (2^k-1)) + (x >> k) first", 28)
	s := &fix2Csum{c: c, pkg: PkgPath(c24Virtio), in: map[*ssa.Function]bool{}, outside: map[*ssa.Function]bool{}, sites: map[*ssa.Function][]*ssa.Call{}, fa: map[ssa.Value]bool{}}
	var work []*ssa.Function
	for _, n := range []string{"SegmentTCP", "SegmentUDP"} {
		fn := c.Func(Ref{c24Virtio, "", n})
		if fn == nil || fn.Blocks == nil {
			continue
		}
		s.outside[fn] = true
		if !s.in[fn] {
			s.in[fn] = true
			work = append(work, fn)
		}
	}
	if len(work) == 0 {
		return
	}
	for len(work) > 0 {
		fn := work[0]
		work = work[1:]
		s.scope = append(s.scope, fn)
		for _, a := range fn.AnonFuncs {
			if !s.in[a] {
				s.in[a], s.outside[a] = true, true
				work = append(work, a)
			}
		}
		eachInstr(fn, func(in ssa.Instruction) {
			ci, ok := in.(ssa.CallInstruction)
			if !ok {
				return
			}
			if cal := ci.Common().StaticCallee(); cal != nil && cal.Blocks != nil && pkgPathOf(cal) == s.pkg && !s.in[cal] {
				s.in[cal] = true
				work = append(work, cal)
			}
		})
	}
	sort.Slice(s.scope, func(i, j int) bool { return s.scope[i].String() < s.scope[j].String() })
	// call sites of the functions in scope, over the whole package; any other use makes the parameters opaque
	for _, f := range c.moduleFuncs() {
		if pkgPathOf(f) != s.pkg {
			continue
		}
		eachInstr(f, func(in ssa.Instruction) {
			var ops []*ssa.Value
			for _, op := range in.Operands(ops) {
				if g, ok := (*op).(*ssa.Function); ok && s.in[g] {
					call, isCall := in.(*ssa.Call)
					if isCall && call.Call.Value == ssa.Value(g) && !call.Call.IsInvoke() && op == &call.Call.Value {
						if !s.in[f] {
							s.outside[g] = true
						}
						s.sites[g] = append(s.sites[g], call)
					} else {
						s.outside[g] = true // go / defer / function value
					}
				}
			}
		})
	}
	for _, f := range s.scope {
		if o := fnObj(f); o == nil || o.Exported() {
			s.outside[f] = true
		}
		c.Funcs[f.String()] = true
	}
	s.flow()

	// ---- the additions that take part in a checksum
	acc := map[*ssa.BinOp]bool{} // adds onto a partial sum
	part := map[*ssa.BinOp]bool{}
	seen := map[ssa.Value]bool{}
	var addend func(v ssa.Value)
	addend = func(v ssa.Value) {
		if seen[v] {
			return
		}
		seen[v] = true
		switch x := v.(type) {
		case *ssa.ChangeType:
			addend(x.X)
		case *ssa.Convert:
			if w, _ := fix2IntWidth(x.Type()); w > 16 || w == 0 {
				addend(x.X)
			} else if sw, _ := fix2IntWidth(x.X.Type()); sw <= w {
				addend(x.X)
			}
			// a cut to 16 bits or less makes a 16-bit word: what is inside is not an addend
		case *ssa.Phi:
			for _, e := range x.Edges {
				addend(e)
			}
		case *ssa.BinOp:
			if x.Op == token.ADD && s.in[x.Parent()] {
				part[x] = true
				addend(x.X)
				addend(x.Y)
			}
		case *ssa.Parameter:
			if f := x.Parent(); s.in[f] && !s.outside[f] {
				for i, p := range f.Params {
					if p == x {
						for _, site := range s.sites[f] {
							if i < len(site.Call.Args) {
								addend(site.Call.Args[i])
							}
						}
					}
				}
			}
		case *ssa.Call:
			for _, r := range s.results(x, 0) {
				addend(r)
			}
		case *ssa.Extract:
			if call, ok := x.Tuple.(*ssa.Call); ok {
				for _, r := range s.results(call, x.Index) {
					addend(r)
				}
			}
		}
	}
	for _, f := range s.scope {
		eachInstr(f, func(in ssa.Instruction) {
			switch x := in.(type) {
			case *ssa.BinOp:
				if w, _ := fix2IntWidth(x.Type()); x.Op == token.ADD && w != 0 && (s.fa[x.X] || s.fa[x.Y]) {
					acc[x] = true
					addend(x)
				}
			case *ssa.Call:
				if fix2IsChecksum(x) && len(x.Call.Args) == 2 {
					addend(x.Call.Args[1])
				}
			}
		})
	}
	if len(part) == 0 {
		c.Unknown("C24.carry", "segmenters:accumulation", "no addition onto a value derived from overlay/checksum.Checksum found in SegmentTCP / SegmentUDP or the package functions they call: the checksum arithmetic has a shape this rule does not read")
		return
	}

	// ---- operands, to a fixed point over phis and call sites
	var adds []*ssa.BinOp
	for a := range part {
		if w, _ := fix2IntWidth(a.Type()); w <= 32 {
			adds = append(adds, a)
		}
	}
	sort.Slice(adds, func(i, j int) bool {
		if adds[i].Parent() != adds[j].Parent() {
			return adds[i].Parent().String() < adds[j].Parent().String()
		}
		if adds[i].Pos() != adds[j].Pos() {
			return adds[i].Pos() < adds[j].Pos()
		}
		return adds[i].Name() < adds[j].Name()
	})
	s.prev = map[ssa.Value]int{}
	for iter := 0; iter < 8; iter++ {
		s.memo, s.busy = map[ssa.Value]int{}, map[ssa.Value]bool{}
		for _, a := range adds {
			s.raw(a.X)
			s.raw(a.Y)
		}
		same := len(s.memo) == len(s.prev)
		for k, v := range s.memo {
			if s.prev[k] != v {
				same = false
			}
		}
		s.prev = s.memo
		if same {
			break
		}
	}
	carryAware := map[*ssa.BinOp]bool{}
	for _, a := range adds {
		carryAware[a] = fix2CarryTested(a)
	}
	nth := map[*ssa.Function]int{}
	for _, a := range adds {
		f := a.Parent()
		nth[f]++
		cons := fmt.Sprintf("%s:add#%d", fnName(f), nth[f])
		w, _ := fix2IntWidth(a.Type())
		rx, ry := s.raw(a.X), s.raw(a.Y)
		r := rx
		if ry > r {
			r = ry
		}
		bump := func(v, o ssa.Value) bool { // r + 1 after a carry test of r
			b, ok := v.(*ssa.BinOp)
			u, isC := fix2ConstU(o)
			return ok && isC && u <= 1 && carryAware[b]
		}
		switch {
		case fix2StoredWhole(a, w):
			c.OK("C24.carry", cons, fmt.Sprintf("the %d-bit sum is itself stored as a header field: modular by construction, and the same value is what the checksum covers", w))
		case carryAware[a] || bump(a.X, a.Y) || bump(a.Y, a.X):
			c.OK("C24.carry", cons, "the carry out of the addition is tested (sum compared with its own operand)")
		case w <= 16 && acc[a]:
			c.Bad("C24.carry", cons, c.instrPos(a), fmt.Sprintf("a partial checksum is accumulated in %d bits: the carry out of the top bit is dropped instead of being added back, the checksum written is too small by one whenever it occurs", w))
		case r == fix2Raw:
			which := a.X
			if ry == fix2Raw {
				which = a.Y
			}
			c.Bad("C24.carry", cons, c.instrPos(a), fmt.Sprintf("a full-width quantity (%s) is added into a checksum in %d-bit arithmetic: when the sum reaches 2^%d the carry is dropped (2^32 = 1 mod 0xffff, so the checksum written is off by one, e.g. for TCP sequence numbers close to 2^32); add it as two 16-bit halves, or in 64 bits and fold end-around", exprString(which), w, w))
		case r == fix2Opaque:
			c.Unknown("C24.carry", cons, "an operand of a checksum addition has an origin the rule does not read (neither a 16-bit word, a length, a constant nor a Uint32 read): "+c.instrPos(a))
		case fix2OnCycle(a):
			c.Unknown("C24.carry", cons, "a checksum addition of 16-bit words that feeds itself through a loop: the number of addends is not bounded by the shape: "+c.instrPos(a))
		default:
			c.OK("C24.carry", cons, "both operands are 16-bit words, folded or masked halves, lengths, constants, or sums of a fixed number of those")
		}
	}
	// ---- cuts of a sum
	for _, f := range s.scope {
		n := 0
		eachInstr(f, func(in ssa.Instruction) {
			cv, ok := in.(*ssa.Convert)
			if !ok || !s.fa[cv.X] {
				return
			}
			sw, _ := fix2IntWidth(cv.X.Type())
			dw, _ := fix2IntWidth(cv.Type())
			if sw == 0 || dw == 0 || dw >= sw || sw <= 16 || dw < 16 {
				return
			}
			n++
			cons := fmt.Sprintf("%s:cut#%d", fnName(f), n)
			if kw := fix2KnownWidth(cv.X, 0); kw >= 0 && kw <= dw {
				c.OK("C24.carry", cons, fmt.Sprintf("at most %d bits by its shape", kw))
				return
			}
			passes := 0
			for v := cv.X; ; passes++ {
				y := fix2FoldPass(v, dw)
				if y == nil {
					break
				}
				v = y
			}
			_, isPhi := cv.X.(*ssa.Phi)
			switch {
			case passes >= 2:
				c.OK("C24.carry", cons, fmt.Sprintf("two end-around passes at %d bits before the cut", dw))
			case passes == 1 || isPhi:
				c.Unknown("C24.carry", cons, fmt.Sprintf("a checksum sum is cut to %d bits after a fold the rule cannot bound (one end-around pass can itself carry; a fold loop is not read): %s", dw, c.instrPos(cv)))
			default:
				c.Bad("C24.carry", cons, c.instrPos(cv), fmt.Sprintf("a checksum sum of %d bits is cut to %d bits without folding the upper part back in ((x & mask) + (x >> %d), twice): the carries above bit %d are dropped and the checksum written is wrong whenever there are any", sw, dw, dw, dw-1))
			}
		})
	}
}

// results: the values a call to a function in scope can return at a tuple index.
func (s *fix2Csum) results(call *ssa.Call, idx int) []ssa.Value {
	cal := call.Call.StaticCallee()
	if cal == nil || !s.in[cal] {
		return nil
	}
	var out []ssa.Value
	eachInstr(cal, func(in ssa.Instruction) {
		if ret, ok := in.(*ssa.Return); ok && idx < len(ret.Results) {
			out = append(out, ret.Results[idx])
		}
	})
	return out
}

// flow: everything computed from a result of checksum.Checksum (a partial one's-complement sum), across the calls in scope.
func (s *fix2Csum) flow() {
	var work []ssa.Value
	add := func(v ssa.Value) {
		if v != nil && !s.fa[v] {
			if w, _ := fix2IntWidth(v.Type()); w != 0 {
				s.fa[v] = true
				work = append(work, v)
			}
		}
	}
	for _, f := range s.scope {
		eachInstr(f, func(in ssa.Instruction) {
			if call, ok := in.(*ssa.Call); ok && fix2IsChecksum(call) {
				add(call)
			}
		})
	}
	for len(work) > 0 {
		v := work[0]
		work = work[1:]
		refs := v.Referrers()
		if refs == nil {
			continue
		}
		for _, r := range *refs {
			if !s.in[r.Parent()] {
				continue
			}
			switch x := r.(type) {
			case *ssa.BinOp:
				add(x)
			case *ssa.Convert:
				add(x)
			case *ssa.ChangeType:
				add(x)
			case *ssa.Phi:
				add(x)
			case *ssa.UnOp:
				if x.Op == token.XOR || x.Op == token.SUB {
					add(x)
				}
			case *ssa.Store:
				if al, ok := x.Addr.(*ssa.Alloc); ok && x.Val == v && al.Referrers() != nil {
					for _, rr := range *al.Referrers() {
						if ld, ok := rr.(*ssa.UnOp); ok && ld.Op == token.MUL {
							add(ld)
						}
					}
				}
			case *ssa.Return:
				f := x.Parent()
				for i, res := range x.Results {
					if res != v {
						continue
					}
					for _, site := range s.sites[f] {
						if len(x.Results) == 1 {
							add(site)
						} else if site.Referrers() != nil {
							for _, rr := range *site.Referrers() {
								if ex, ok := rr.(*ssa.Extract); ok && ex.Index == i {
									add(ex)
								}
							}
						}
					}
				}
			case *ssa.Call:
				if cal := x.Call.StaticCallee(); cal != nil && s.in[cal] && len(cal.Params) == len(x.Call.Args) {
					for i, a := range x.Call.Args {
						if a == v {
							add(cal.Params[i])
						}
					}
				}
			}
		}
	}
}

func fix2Max(a, b int) int {
	if a > b {
		return a
	}
	return b
}

// raw: how wide the value can be (fix2Narrow / fix2Opaque / fix2Raw).
func (s *fix2Csum) raw(v ssa.Value) int {
	if r, ok := s.memo[v]; ok {
		return r
	}
	if s.busy[v] {
		return s.prev[v]
	}
	s.busy[v] = true
	r := s.raw1(v)
	delete(s.busy, v)
	s.memo[v] = r
	return r
}

func (s *fix2Csum) raw1(v ssa.Value) int {
	if _, ok := v.(*ssa.Const); ok {
		return fix2Narrow
	}
	w, uns := fix2IntWidth(v.Type())
	if w == 0 {
		return fix2Opaque
	}
	if w <= 16 && uns {
		return fix2Narrow
	}
	joinRes := func(rs []ssa.Value) int {
		if len(rs) == 0 {
			return fix2Opaque
		}
		r := fix2Narrow
		for _, x := range rs {
			r = fix2Max(r, s.raw(x))
		}
		return r
	}
	switch x := v.(type) {
	case *ssa.Parameter:
		f := x.Parent()
		if !s.in[f] || s.outside[f] || len(s.sites[f]) == 0 {
			return fix2Opaque
		}
		r := fix2Narrow
		for i, p := range f.Params {
			if p != x {
				continue
			}
			for _, site := range s.sites[f] {
				if i >= len(site.Call.Args) {
					return fix2Opaque
				}
				r = fix2Max(r, s.raw(site.Call.Args[i]))
			}
		}
		return r
	case *ssa.Phi:
		r := fix2Narrow
		for _, e := range x.Edges {
			r = fix2Max(r, s.raw(e))
		}
		return r
	case *ssa.ChangeType:
		return s.raw(x.X)
	case *ssa.Convert:
		if sw, _ := fix2IntWidth(x.X.Type()); sw == 0 {
			return fix2Opaque
		}
		return s.raw(x.X)
	case *ssa.UnOp:
		switch x.Op {
		case token.XOR, token.SUB:
			if uns {
				return fix2Raw // the complement / negation of anything fills the upper bits of a wide type
			}
			return fix2Max(s.raw(x.X), fix2Opaque)
		case token.MUL:
			al, ok := x.X.(*ssa.Alloc)
			if !ok || al.Referrers() == nil {
				return fix2Opaque
			}
			r := fix2Narrow
			for _, rr := range *al.Referrers() {
				switch y := rr.(type) {
				case *ssa.Store:
					if y.Addr != ssa.Value(al) {
						return fix2Opaque
					}
					r = fix2Max(r, s.raw(y.Val))
				case *ssa.UnOp:
				case *ssa.DebugRef:
				default:
					return fix2Opaque
				}
			}
			return r
		}
	case *ssa.BinOp:
		switch x.Op {
		case token.AND:
			if kw := fix2KnownWidth(x, 0); kw >= 0 && kw <= 16 {
				return fix2Narrow
			}
			if _, ok := fix2ConstU(x.Y); ok {
				return s.raw(x.X)
			}
			if _, ok := fix2ConstU(x.X); ok {
				return s.raw(x.Y)
			}
			return fix2Max(s.raw(x.X), s.raw(x.Y))
		case token.AND_NOT:
			return s.raw(x.X)
		case token.SHR:
			if kw := fix2KnownWidth(x, 0); kw >= 0 && kw <= 16 {
				return fix2Narrow
			}
			return s.raw(x.X)
		case token.SHL:
			k, isC := fix2ConstU(x.Y)
			if !isC {
				return fix2Max(s.raw(x.X), fix2Opaque)
			}
			if kw := fix2KnownWidth(x.X, 0); kw >= 0 && kw < w {
				if kw+int(k) <= 16 {
					return fix2Narrow
				}
				return fix2Raw // assembled above bit 15
			}
			if k >= 16 {
				return fix2Raw
			}
			return s.raw(x.X)
		case token.SUB:
			r := fix2Max(s.raw(x.X), s.raw(x.Y))
			if uns && w <= 32 {
				return fix2Max(r, fix2Opaque) // may wrap below zero into a wide value
			}
			return r
		case token.ADD, token.MUL, token.OR, token.XOR, token.QUO, token.REM:
			return fix2Max(s.raw(x.X), s.raw(x.Y))
		}
	case *ssa.Call:
		switch builtinName(x) {
		case "len", "cap":
			return fix2Narrow
		case "min", "max":
			return joinRes(x.Call.Args)
		}
		if fix2WideRead(x) {
			return fix2Raw
		}
		return joinRes(s.results(x, 0))
	case *ssa.Extract:
		if call, ok := x.Tuple.(*ssa.Call); ok {
			return joinRes(s.results(call, x.Index))
		}
	}
	return fix2Opaque
}

// fix2StoredWhole: the sum is itself a header field: it reaches, through phis and same-width conversions only, the value operand
// of PutUintNN / AppendUintNN of its own width (or, for a byte, a store into a byte buffer).
func fix2StoredWhole(a *ssa.BinOp, w int) bool {
	seen := map[ssa.Value]bool{}
	var walk func(v ssa.Value) bool
	walk = func(v ssa.Value) bool {
		if seen[v] || v.Referrers() == nil {
			return false
		}
		seen[v] = true
		for _, r := range *v.Referrers() {
			switch x := r.(type) {
			case *ssa.Phi:
				if walk(x) {
					return true
				}
			case *ssa.ChangeType:
				if walk(x) {
					return true
				}
			case *ssa.Convert:
				if cw, _ := fix2IntWidth(x.Type()); cw == w && walk(x) {
					return true
				}
			case *ssa.Call:
				if bw := fix2FieldPut(x); bw*8 == w {
					as := callArgs(x)
					if len(as) > 0 && as[len(as)-1] == v {
						return true
					}
				}
			case *ssa.Store:
				if _, ok := x.Addr.(*ssa.IndexAddr); ok && x.Val == v && w == 8 {
					return true
				}
			}
		}
		return false
	}
	return walk(a)
}

// fix2CarryTested: the sum is compared (<, >, <=, >=) with one of its own operands: the end-around carry idiom.
func fix2CarryTested(a *ssa.BinOp) bool {
	if a.Referrers() == nil {
		return false
	}
	for _, r := range *a.Referrers() {
		b, ok := r.(*ssa.BinOp)
		if !ok {
			continue
		}
		switch b.Op {
		case token.LSS, token.GTR, token.LEQ, token.GEQ:
			other := b.X
			if other == ssa.Value(a) {
				other = b.Y
			}
			if other == a.X || other == a.Y {
				return true
			}
		}
	}
	return false
}

// fix2OnCycle: the sum reaches itself through arithmetic and phis (an accumulation loop).
func fix2OnCycle(a *ssa.BinOp) bool {
	seen := map[ssa.Value]bool{}
	var walk func(v ssa.Value) bool
	walk = func(v ssa.Value) bool {
		if v.Referrers() == nil {
			return false
		}
		for _, r := range *v.Referrers() {
			var nv ssa.Value
			switch x := r.(type) {
			case *ssa.Phi:
				nv = x
			case *ssa.BinOp:
				nv = x
			case *ssa.Convert:
				nv = x
			case *ssa.ChangeType:
				nv = x
			}
			if nv == nil {
				continue
			}
			if nv == ssa.Value(a) {
				return true
			}
			if !seen[nv] {
				seen[nv] = true
				if walk(nv) {
					return true
				}
			}
		}
		return false
	}
	return walk(a)
}

// fix2FoldPass: v == (y & (2^k - 1)) + (y >> k); returns y.
func fix2FoldPass(v ssa.Value, k int) ssa.Value {
	b, ok := v.(*ssa.BinOp)
	if !ok || b.Op != token.ADD {
		return nil
	}
	try := func(lo, hi ssa.Value) ssa.Value {
		l, ok1 := lo.(*ssa.BinOp)
		h, ok2 := hi.(*ssa.BinOp)
		if !ok1 || !ok2 || l.Op != token.AND || h.Op != token.SHR {
			return nil
		}
		y, m := l.X, l.Y
		if _, isC := fix2ConstU(y); isC {
			y, m = m, y
		}
		mask, isC := fix2ConstU(m)
		sh, isS := fix2ConstU(h.Y)
		if !isC || !isS || int(sh) != k || k >= 64 || mask != uint64(1)<<uint(k)-1 || h.X != y {
			return nil
		}
		return y
	}
	if y := try(b.X, b.Y); y != nil {
		return y
	}
	return try(b.Y, b.X)
}

// ---------------------------------------------------------------------------------------
// C33: an item may not come back before its timeout: findWheel has to count ceil(min(timeout, span) / tick) ticks. Clamping the
// duration to the span and then rounding up gives that; rounding first and then cutting the tick COUNT down to span/tick (rounded
// down) loses the top partial tick of a wheel whose span is not a whole number of ticks.
// (Seed C33: findWheel rounded first and clamped the count to [1, wheelDuration/tickDuration].)

type fix2Wheel struct {
	fn      *ssa.Function
	fTick   *types.Var
	fSpan   *types.Var
	quo     map[ssa.Value]bool // the rounding divisions: by the tick, of something computed from a parameter
	derived map[ssa.Value]bool
}

func fix2LoadOf(v ssa.Value, f *types.Var) bool {
	for {
		switch x := v.(type) {
		case *ssa.Convert:
			v = x.X
			continue
		case *ssa.ChangeType:
			v = x.X
			continue
		case *ssa.UnOp:
			if fa, ok := x.X.(*ssa.FieldAddr); ok && x.Op == token.MUL {
				if g := fieldOfAddr(fa); g != nil && g.Origin() == f {
					return true
				}
			}
		case *ssa.Field:
			if g := fieldOfVal(x); g != nil && g.Origin() == f {
				return true
			}
		}
		return false
	}
}

func fix2Strip(v ssa.Value) ssa.Value {
	for {
		switch x := v.(type) {
		case *ssa.Convert:
			if w, _ := fix2IntWidth(x.Type()); w != 0 {
				if sw, _ := fix2IntWidth(x.X.Type()); sw != 0 {
					v = x.X
					continue
				}
			}
		case *ssa.ChangeType:
			v = x.X
			continue
		}
		return v
	}
}

// fix2WheelLin: v as a*span + b*tick + k + (one other term), through +, - and integer conversions.
type fix2WLin struct {
	span, tick, k int64
	rest          []ssa.Value // other terms with coefficient +1
	ok            bool
}

func (w *fix2Wheel) lin(v ssa.Value, sign int64, out *fix2WLin, d int) {
	v = fix2Strip(v)
	if d > 12 {
		out.ok = false
		return
	}
	switch {
	case fix2LoadOf(v, w.fSpan):
		out.span += sign
		return
	case fix2LoadOf(v, w.fTick):
		out.tick += sign
		return
	}
	if k, ok := v.(*ssa.Const); ok && k.Value != nil && k.Value.Kind() == constant.Int {
		if i, exact := constant.Int64Val(k.Value); exact {
			out.k += sign * i
			return
		}
	}
	if b, ok := v.(*ssa.BinOp); ok {
		switch b.Op {
		case token.ADD:
			w.lin(b.X, sign, out, d+1)
			w.lin(b.Y, sign, out, d+1)
			return
		case token.SUB:
			w.lin(b.X, sign, out, d+1)
			w.lin(b.Y, -sign, out, d+1)
			return
		}
	}
	if sign != 1 {
		out.ok = false
	}
	out.rest = append(out.rest, v)
}

// ceilSpan: v == ceil(span / tick) as quo(span-1, tick)+1 or quo(span+tick-1, tick).
func (w *fix2Wheel) ceilSpan(v ssa.Value) bool {
	o := fix2WLin{ok: true}
	w.lin(v, 1, &o, 0)
	if !o.ok || o.span != 0 || o.tick != 0 || len(o.rest) != 1 {
		return false
	}
	q, ok := o.rest[0].(*ssa.BinOp)
	if !ok || q.Op != token.QUO || !fix2LoadOf(q.Y, w.fTick) {
		return false
	}
	n := fix2WLin{ok: true}
	w.lin(q.X, 1, &n, 0)
	if !n.ok || len(n.rest) != 0 || n.span != 1 || n.k != -1 {
		return false
	}
	return (n.tick == 0 && o.k == 1) || (n.tick == 1 && o.k == 0)
}

// usesParam: v is computed from a (non-receiver) parameter.
func (w *fix2Wheel) usesParam(v ssa.Value, seen map[ssa.Value]bool) bool {
	if seen[v] {
		return false
	}
	seen[v] = true
	if p, ok := v.(*ssa.Parameter); ok {
		return len(w.fn.Params) > 0 && p != w.fn.Params[0]
	}
	in, ok := v.(ssa.Instruction)
	if !ok {
		return false
	}
	switch v.(type) {
	case *ssa.BinOp, *ssa.Convert, *ssa.ChangeType, *ssa.Phi, *ssa.Call:
	default:
		return false
	}
	var ops []*ssa.Value
	for _, op := range in.Operands(ops) {
		if *op != nil && w.usesParam(*op, seen) {
			return true
		}
	}
	return false
}

// isDerived: the value is the rounded tick count, moved by additions / subtractions / the reduction modulo the wheel.
func (w *fix2Wheel) isDerived(v ssa.Value) bool {
	if r, ok := w.derived[v]; ok {
		return r
	}
	w.derived[v] = false
	r := false
	switch x := v.(type) {
	case *ssa.BinOp:
		switch {
		case w.quo[v]:
			r = true
		case x.Op == token.ADD || x.Op == token.SUB:
			r = w.isDerived(x.X) || (x.Op == token.ADD && w.isDerived(x.Y))
		case x.Op == token.REM:
			r = w.isDerived(x.X)
		}
	case *ssa.Convert:
		r = w.isDerived(x.X)
	case *ssa.ChangeType:
		r = w.isDerived(x.X)
	case *ssa.Phi:
		for _, e := range x.Edges {
			r = r || w.isDerived(e)
		}
	case *ssa.Call:
		if n := builtinName(x); n == "min" || n == "max" {
			for _, a := range x.Call.Args {
				r = r || w.isDerived(a)
			}
		}
	}
	w.derived[v] = r
	return r
}

// fix2EdgeCond: the comparison that holds on the phi edge from pred: pred (or the chain of single-predecessor blocks above it
// that do nothing but jump) is one successor of a block ending in `if X op Y`. Returned normalised: X op Y holds.
func fix2EdgeCond(phi *ssa.Phi, k int) (x, y ssa.Value, op token.Token, ok bool) {
	b := phi.Block()
	p := b.Preds[k]
	var from *ssa.BasicBlock
	succ := -1
	if _, isIf := p.Instrs[len(p.Instrs)-1].(*ssa.If); isIf {
		// the edge comes straight from the test
		n := 0
		for i, su := range p.Succs {
			if su == b {
				succ = i
				n++
			}
		}
		if n != 1 {
			return nil, nil, 0, false
		}
		from = p
	} else {
		if len(p.Preds) != 1 {
			return nil, nil, 0, false
		}
		q := p.Preds[0]
		if _, isIf := q.Instrs[len(q.Instrs)-1].(*ssa.If); !isIf {
			return nil, nil, 0, false
		}
		n := 0
		for i, su := range q.Succs {
			if su == p {
				succ = i
				n++
			}
		}
		if n != 1 {
			return nil, nil, 0, false
		}
		from = q
	}
	cd := normCond(from.Instrs[len(from.Instrs)-1].(*ssa.If).Cond)
	if cd.Kind != CondCmp {
		return nil, nil, 0, false
	}
	bo := cd.Base.(*ssa.BinOp)
	op = bo.Op
	holds := succ == 0
	if cd.Neg {
		holds = !holds
	}
	if !holds {
		op = negOp(op)
	}
	return bo.X, bo.Y, op, true
}

func fix2C33RoundAfterClamp(c *Ctx) {
	c.Rule("C33.round-after-clamp", "findWheel rounds up to ticks what is already clamped to the span: the dividend of the division by tickDuration is the timeout clamped by wheelDuration (a merge / min / max over the timeout, tickDuration and wheelDuration), and the quotient is afterwards only moved by additions and the reduction by the wheel length: it is never lowered by a clamp (a merge chosen when the count is the larger side, or min) unless the bound is ceil(wheelDuration / tickDuration); every result derives from the quotient", 2)
	fn := c33First(c, "C33.round-after-clamp", c33TW("findWheel"))
	fTick, fSpan := c.Field("", "TimerWheel", "tickDuration"), c.Field("", "TimerWheel", "wheelDuration")
	if fn == nil || fTick == nil || fSpan == nil {
		return
	}
	name := "findWheel"
	w := &fix2Wheel{fn: fn, fTick: fTick, fSpan: fSpan, quo: map[ssa.Value]bool{}, derived: map[ssa.Value]bool{}}
	var quos []*ssa.BinOp
	eachInstr(fn, func(in ssa.Instruction) {
		if b, ok := in.(*ssa.BinOp); ok && b.Op == token.QUO && fix2LoadOf(b.Y, fTick) && w.usesParam(b.X, map[ssa.Value]bool{}) {
			w.quo[b] = true
			quos = append(quos, b)
		}
	})
	if len(quos) == 0 {
		c.Unknown("C33.round-after-clamp", name+":rounding", "no division of a value computed from the timeout by tickDuration in findWheel: the rounding has a shape (a helper, a loop, another unit) this rule does not read")
		return
	}

	// ---- what happens to the count after the division
	type clamp struct {
		at    ssa.Instruction
		lower bool // the count is replaced when it is the larger side
		ceil  bool // by ceil(span/tick)
		note  string
		unk   string
	}
	var clamps []clamp
	eachInstr(fn, func(in ssa.Instruction) {
		switch x := in.(type) {
		case *ssa.Phi:
			if !w.isDerived(x) {
				return
			}
			for k, e := range x.Edges {
				if w.isDerived(e) {
					continue
				}
				// a replacement value on this edge
				cl := clamp{at: x, note: exprString(e)}
				a, b, op, ok := fix2EdgeCond(x, k)
				switch {
				case !ok:
					cl.unk = "the test that selects the replacement " + exprString(e) + " is not a single comparison"
				default:
					da, db := w.isDerived(a), w.isDerived(b)
					if db && !da {
						a, b, op, da, db = b, a, swapOp(op), db, da
					}
					switch {
					case !da || db:
						cl.unk = "the replacement " + exprString(e) + " is selected by a test that does not compare the tick count with a bound"
					case op == token.GTR || op == token.GEQ:
						cl.lower = true
						cl.ceil = w.ceilSpan(e)
						if !cl.ceil && !fix2SameExpr(b, e, 0) {
							cl.unk = "above the bound " + exprString(b) + " the tick count becomes " + exprString(e) + ", which is not that bound"
						}
					case op == token.LSS || op == token.LEQ:
						// raised: the item can only come back later, never early
					default:
						cl.unk = "the replacement " + exprString(e) + " is selected by an equality test"
					}
				}
				clamps = append(clamps, cl)
			}
		case *ssa.Call:
			n := builtinName(x)
			if n != "min" && n != "max" || !w.isDerived(x) {
				return
			}
			for _, a := range x.Call.Args {
				if w.isDerived(a) {
					continue
				}
				cl := clamp{at: x, note: exprString(a)}
				if n == "min" {
					cl.lower, cl.ceil = true, w.ceilSpan(a)
				}
				clamps = append(clamps, cl)
			}
		}
	})
	ceilAfter := false
	bad, unk := "", ""
	for _, cl := range clamps {
		switch {
		case cl.unk != "":
			unk = cl.unk + " (" + c.instrPos(cl.at) + ")"
		case cl.lower && cl.ceil:
			ceilAfter = true
		case cl.lower:
			bad = fmt.Sprintf("the tick count is clamped after rounding (cut down to %s at %s): on a wheel whose span is not a whole number of ticks the top partial tick is lost and the item fires early (tick 3s, span 10s: a 10s timeout gets 3 ticks and can come back after 9.5s)", cl.note, c.instrPos(cl.at))
		}
	}
	// every result is the moved quotient
	eachInstr(fn, func(in ssa.Instruction) {
		if ret, ok := in.(*ssa.Return); ok {
			for _, r := range ret.Results {
				if !w.isDerived(r) && unk == "" {
					unk = "a result of findWheel (" + exprString(r) + ") is not computed from the rounded tick count (" + c.instrPos(ret) + ")"
				}
			}
		}
	})
	pos := c.instrPos(quos[0])
	switch {
	case bad != "":
		c.Bad("C33.round-after-clamp", name+":count-not-lowered", pos, bad)
	case unk != "":
		c.Unknown("C33.round-after-clamp", name+":count-not-lowered", unk)
	default:
		c.OK("C33.round-after-clamp", name+":count-not-lowered", fmt.Sprintf("%d clamp(s) after the division, none lowers the count below ceil(span/tick)", len(clamps)))
	}

	// ---- what is rounded: the clamped duration
	for qi, q := range quos {
		cons := name + ":dividend-clamped"
		if qi > 0 {
			cons = fmt.Sprintf("%s#%d", cons, qi+1)
		}
		o := fix2WLin{ok: true}
		w.lin(q.X, 1, &o, 0)
		if !o.ok || len(o.rest) != 1 || o.span != 0 {
			c.Unknown("C33.round-after-clamp", cons, "the dividend "+exprString(q.X)+" is not (one duration) + constants / ticks")
			continue
		}
		hasParam, hasSpan, other := false, false, ""
		seen := map[ssa.Value]bool{}
		var leaves func(v ssa.Value)
		leaves = func(v ssa.Value) {
			v = fix2Strip(v)
			if seen[v] {
				return
			}
			seen[v] = true
			switch x := v.(type) {
			case *ssa.Phi:
				for _, e := range x.Edges {
					leaves(e)
				}
				return
			case *ssa.Call:
				if n := builtinName(x); n == "min" || n == "max" {
					for _, a := range x.Call.Args {
						leaves(a)
					}
					return
				}
			case *ssa.Parameter:
				if x != fn.Params[0] {
					hasParam = true
					return
				}
			}
			switch {
			case fix2LoadOf(v, fSpan):
				hasSpan = true
			case fix2LoadOf(v, fTick):
			default:
				other = exprString(v)
			}
		}
		core := fix2Strip(o.rest[0])
		leaves(core)
		_, direct := core.(*ssa.Parameter)
		switch {
		case other != "":
			c.Unknown("C33.round-after-clamp", cons, "the rounded duration can be "+other+", which is neither the timeout, tickDuration nor wheelDuration")
		case hasParam && hasSpan && !direct:
			c.OK("C33.round-after-clamp", cons, "the rounded duration is a merge of the timeout with wheelDuration (clamped before the division)")
		case ceilAfter && bad == "":
			c.OK("C33.round-after-clamp", cons, "the timeout is rounded unclamped, the count is then bounded by ceil(wheelDuration / tickDuration)")
		case hasParam:
			c.Bad("C33.round-after-clamp", cons, c.instrPos(q), "the timeout is rounded up to ticks before it is clamped to the wheel's span, and the tick count is not bounded by ceil(wheelDuration / tickDuration) afterwards: a timeout in (or beyond) the top partial tick of the wheel gets the wrong number of ticks (too few: it fires early; unbounded: it lands outside the wheel)")
		default:
			c.Unknown("C33.round-after-clamp", cons, "the rounded duration does not come from the timeout")
		}
	}
}

// fix2SameExpr: the two values are the same expression (the same SSA value, or the same operators over the same constants,
// parameters and field loads of the same base), integer conversions aside.
func fix2SameExpr(a, b ssa.Value, d int) bool {
	a, b = fix2Strip(a), fix2Strip(b)
	if a == b {
		return true
	}
	if d > 10 {
		return false
	}
	switch x := a.(type) {
	case *ssa.Const:
		y, ok := b.(*ssa.Const)
		return ok && x.Value != nil && y.Value != nil && constant.Compare(x.Value, token.EQL, y.Value)
	case *ssa.BinOp:
		y, ok := b.(*ssa.BinOp)
		return ok && x.Op == y.Op && fix2SameExpr(x.X, y.X, d+1) && fix2SameExpr(x.Y, y.Y, d+1)
	case *ssa.UnOp:
		y, ok := b.(*ssa.UnOp)
		if !ok || x.Op != y.Op || x.Op != token.MUL {
			return false
		}
		fa, ok1 := x.X.(*ssa.FieldAddr)
		fb, ok2 := y.X.(*ssa.FieldAddr)
		return ok1 && ok2 && fa.Field == fb.Field && fa.X == fb.X
	}
	return false
}
