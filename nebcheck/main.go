// nebcheck: repository-specific static analysis of slackhq/nebula (see /verif/DESIGN.md).
//
//	nebcheck -p C13 [-tier quick|thorough] [-replay file]
//	nebcheck -manifest      regenerate /verif/MANIFEST.json from the property registry
//	nebcheck -list
package main

import (
	"encoding/json"
	"flag"
	"fmt"
	"os"
	"runtime/debug"
	"sort"
	"strconv"
)

// Property is one registered property check.
type Property struct {
	ID          string
	Title       string
	Patterns    []string // package patterns the quick tier loads
	Technique   string
	LevelText   string // what assurance the check gives
	LevelNote   string // what is assumed / not decided
	Explanation string
	Run         func(c *Ctx)            // default configuration
	Thorough    func(c *Ctx)            // extra work in the thorough tier (same program)
	Configs     []BuildConfig           // extra build configurations for the thorough tier
	RunConfig   func(c *Ctx)            // rules evaluated under each extra configuration (default: Run)
	Canaries    func(c *Ctx) []Canary   // mutants applied through the loader overlay (thorough)
}

var registry = map[string]*Property{}

func register(p *Property) { registry[p.ID] = p }

func main() {
	prop := flag.String("p", "", "property id")
	tier := flag.String("tier", os.Getenv("VERIF_TIER"), "quick|thorough")
	replay := flag.String("replay", "", "replay file: re-evaluate the property and print the verdict of the obligation named in it")
	manifest := flag.Bool("manifest", false, "write MANIFEST.json")
	list := flag.Bool("list", false, "list properties")
	flag.Parse()
	// go/packages looks "go" up in this process's PATH: make it the 1.26.8 toolchain.
	os.Setenv("PATH", goRoot1268+"/bin:"+os.Getenv("PATH"))
	if *manifest {
		writeManifest()
		return
	}
	if *list {
		var ids []string
		for id := range registry {
			ids = append(ids, id)
		}
		sort.Strings(ids)
		for _, id := range ids {
			fmt.Println(id, registry[id].Title)
		}
		return
	}
	if *tier == "" {
		*tier = "quick"
	}
	if *tier != "quick" && *tier != "thorough" {
		fmt.Fprintln(os.Stderr, "bad tier")
		os.Exit(2)
	}
	seed, _ := strconv.Atoi(os.Getenv("VERIF_SEED"))
	p := registry[*prop]
	if p == nil {
		fmt.Fprintf(os.Stderr, "unknown property %q\n", *prop)
		os.Exit(2)
	}
	os.Exit(runProperty(p, *tier, seed, *replay))
}

func runProperty(p *Property, tier string, seed int, replay string) (code int) {
	c := NewCtx(p.ID, tier, seed)
	defer func() {
		if r := recover(); r != nil {
			fmt.Printf("UNDECIDED property=%s analysis panic: %v\n%s\n", p.ID, r, debug.Stack())
			c.Unknown("engine", "panic", fmt.Sprint(r))
			c.quiet = true
			c.Finish("other", p.Explanation)
			code = 2
		}
	}()
	prog, err := Load(defaultConfig, p.Patterns, nil)
	if err != nil {
		fmt.Printf("UNDECIDED property=%s load failed: %v\n", p.ID, err)
		c.Unknown("engine", "load", err.Error())
		c.P = prog
		c.quiet = true
		c.Finish("other", p.Explanation)
		return 2
	}
	c.P = prog
	c.Configs = append(c.Configs, "default")
	c.Assume = append(c.Assume, p.LevelNote)
	c.maybeDump()
	p.Run(c)
	if tier == "thorough" {
		if p.Thorough != nil {
			p.Thorough(c)
		}
		if p.Canaries != nil && os.Getenv("NEBCHECK_SKIP_CANARIES") == "" {
			runCanaries(c, p)
		}
		for _, bc := range p.Configs {
			c.P = nil
			prog = nil
			debug.FreeOSMemory()
			pr, err := Load(bc, p.Patterns, nil)
			if err != nil {
				c.P = pr
				if c.P == nil {
					c.P = &Program{Config: bc}
				}
				c.Unknown("engine", "load:"+bc.Name, err.Error())
				continue
			}
			c.P = pr
			c.Configs = append(c.Configs, bc.Name)
			if p.RunConfig != nil {
				p.RunConfig(c)
			} else {
				p.Run(c)
			}
		}
	}
	code = c.Finish("other", p.Explanation)
	if replay != "" {
		code = doReplay(c, replay)
	}
	return code
}

func doReplay(c *Ctx, path string) int {
	b, err := os.ReadFile(path)
	if err != nil {
		fmt.Println("replay:", err)
		return 2
	}
	var w struct {
		Property   string     `json:"property"`
		Obligation Obligation `json:"obligation"`
	}
	if err := json.Unmarshal(b, &w); err != nil {
		fmt.Println("replay:", err)
		return 2
	}
	for _, o := range c.Obs {
		if o.Key() == w.Obligation.Key() && (w.Obligation.Config == "" || o.Config == w.Obligation.Config) {
			fmt.Printf("REPLAY property=%s obligation=%s verdict=%s at %s: %s\n", c.Prop, o.Key(), o.Verdict, o.Pos, o.Detail)
			if o.Verdict == Violated && !o.Known {
				return 1
			}
			return 0
		}
	}
	fmt.Printf("REPLAY property=%s obligation=%s no longer present in the current tree (not violated)\n", c.Prop, w.Obligation.Key())
	return 0
}
