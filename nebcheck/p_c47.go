package main

import (
	"fmt"
	"go/ast"
	"go/constant"
	"go/token"
	"go/types"
	"sort"
	"strings"

	"golang.org/x/tools/go/ssa"
)

func init() {
	register(&Property{
		ID: "C47", Title: "The packet header encoding is exact",
		Patterns:  []string{"./header", "."},
		Technique: "layout table agreement Encode vs Parse (byte ranges, endianness), bit provenance of the version/type byte, dominating length guard, accepted-subtype table vs constants, dispatch exhaustiveness",
		LevelText: "Structural necessary conditions decided on every path of header.Encode/(*H).Parse/IsValidSubType and the receive dispatcher: writer and reader tables agree field by field, byte 0 nibbles round-trip bit by bit, every read is dominated by the length test, and the accepted (type,subtype) set equals the documented table and is fully dispatched.",
		LevelNote: "Trusts encoding/binary's BigEndian contract and go/types constant evaluation. Does not decide anything about payload bytes after the header.",
		Explanation: "K7 layout agreement + K9 bit provenance + K1 length guard + K8 enumeration of IsValidSubType over all (type,subtype) in 0..15 x 0..255 + K15 dispatch coverage in readOutsidePackets",
		Run:       runC47,
		Canaries: func(c *Ctx) []Canary {
			return []Canary{
				{Name: "parse-reads-reserved-at-3:5", File: "header/header.go", Old: "h.Reserved = binary.BigEndian.Uint16(b[2:4])", New: "h.Reserved = binary.BigEndian.Uint16(b[3:5])", Rule: "C47.layout"},
				{Name: "remote-index-little-endian", File: "header/header.go", Old: "h.RemoteIndex = binary.BigEndian.Uint32(b[4:8])", New: "h.RemoteIndex = binary.LittleEndian.Uint32(b[4:8])", Rule: "C47.layout"},
				{Name: "type-mask-3-bits", File: "header/header.go", Old: "h.Type = MessageType(b[0] & 0x0f)", New: "h.Type = MessageType(b[0] & 0x07)", Rule: "C47.byte0"},
				{Name: "length-guard-off-by-one", File: "header/header.go", Old: "if len(b) < Len {", New: "if len(b) < Len-1 {", Rule: "C47.parse-bounds"},
				{Name: "accept-XX-subtype", File: "header/header.go", Old: "return s == HandshakeIXPSK0\n", New: "return s == HandshakeIXPSK0 || s == HandshakeXXPSK0\n", Rule: "C47.subtype-table"},
			}
		},
	})
}

type byteRange struct {
	lo, hi int
	endian string
	what   string
}

func (r byteRange) String() string { return fmt.Sprintf("[%d:%d]%s", r.lo, r.hi, r.endian) }

// sliceConstBounds: v = Slice(X, lo, hi) with constant bounds (missing low = 0).
func sliceConstBounds(v ssa.Value) (base ssa.Value, lo, hi int, ok bool) {
	s, isS := v.(*ssa.Slice)
	if !isS {
		return nil, 0, 0, false
	}
	l := int64(0)
	if s.Low != nil {
		x, k := constInt(s.Low)
		if !k {
			return nil, 0, 0, false
		}
		l = x
	}
	if s.High == nil {
		return nil, 0, 0, false
	}
	h, k := constInt(s.High)
	if !k {
		return nil, 0, 0, false
	}
	return s.X, int(l), int(h), true
}

func endianOf(o *types.Func) (string, string) {
	if o == nil || o.Pkg() == nil || o.Pkg().Path() != "encoding/binary" {
		return "", ""
	}
	sig := o.Type().(*types.Signature)
	if sig.Recv() == nil {
		return "", ""
	}
	n := recvNamed(sig.Recv().Type())
	if n == nil {
		return "", ""
	}
	switch n.Obj().Name() {
	case "bigEndian":
		return "BE", o.Name()
	case "littleEndian":
		return "LE", o.Name()
	}
	return "", ""
}

func widthOfBinaryFn(name string) int {
	switch {
	case strings.HasSuffix(name, "16"):
		return 2
	case strings.HasSuffix(name, "32"):
		return 4
	case strings.HasSuffix(name, "64"):
		return 8
	}
	return 0
}

func runC47(c *Ctx) {
	c.Rule("C47.layout", "K7: field <-> byte range <-> endianness written by header.Encode equals the one read by (*H).Parse; ranges disjoint and cover [0,Len)", 5)
	c.Rule("C47.byte0", "K9: bits of byte 0: version = high nibble, type = low nibble, round-trip for values < 16", 2)
	c.Rule("C47.parse-bounds", "K1: every read of the input in Parse is dominated by the len(b) >= Len test and uses constant offsets < Len", 1)
	c.Rule("C47.subtype-table", "K8/K7: set accepted by IsValidSubType == keys of subTypeMap, every declared MessageType appears", 1)
	c.Rule("C47.dispatch", "K15: the receive dispatcher has a non-default arm for every MessageType that IsValidSubType accepts", 1)

	enc := c.Func(Ref{"header", "", "Encode"})
	henc := c.Func(Ref{"header", "H", "Encode"})
	parse := c.Func(Ref{"header", "H", "Parse"})
	valid := c.Func(Ref{"header", "", "IsValidSubType"})
	lenC := c.ConstVal("header", "Len")
	if enc == nil || henc == nil || parse == nil || valid == nil || lenC == nil {
		return
	}
	hdrLen, _ := constant.Int64Val(lenC)

	// ---- writer table: param name -> range
	writes := map[string]byteRange{}
	var byte0Store *ssa.Store
	eachInstr(enc, func(in ssa.Instruction) {
		switch x := in.(type) {
		case *ssa.Store:
			ia, ok := x.Addr.(*ssa.IndexAddr)
			if !ok {
				return
			}
			idx, ok := constInt(ia.Index)
			if !ok {
				c.Bad("C47.layout", "Encode:nonconst-index", c.instrPos(x), "header byte written at a non-constant offset")
				return
			}
			var src []string
			backSlice(x.Val, sliceLocal, func(v ssa.Value) {
				if p, ok := v.(*ssa.Parameter); ok {
					src = append(src, p.Name())
				}
			})
			sort.Strings(src)
			if idx == 0 {
				byte0Store = x
			}
			for _, s := range src {
				r := byteRange{int(idx), int(idx) + 1, "", "byte"}
				if old, dup := writes[s]; dup && old != r {
					c.Bad("C47.layout", "Encode:param-"+s, c.instrPos(x), "parameter written to two places")
				}
				writes[s] = r
			}
			if len(src) == 0 {
				writes[fmt.Sprintf("const@%d", idx)] = byteRange{int(idx), int(idx) + 1, "", "const"}
			}
		case *ssa.Call:
			e, name := endianOf(calleeObj(x))
			if e == "" || !strings.HasPrefix(name, "PutUint") {
				return
			}
			args := callArgs(x)
			_, lo, hi, ok := sliceConstBounds(args[1])
			if !ok {
				c.Bad("C47.layout", "Encode:"+name, c.instrPos(x), "destination is not a constant sub-slice")
				return
			}
			if hi-lo != widthOfBinaryFn(name) {
				c.Bad("C47.layout", "Encode:"+name, c.instrPos(x), fmt.Sprintf("slice %d:%d does not have the width of %s", lo, hi, name))
			}
			key := ""
			if p, ok := stripValue(args[2]).(*ssa.Parameter); ok {
				key = p.Name()
			} else if k, ok := constInt(args[2]); ok && k == 0 {
				key = "zero"
			} else {
				key = "expr:" + args[2].String()
			}
			writes[key] = byteRange{lo, hi, e, name}
		}
	})
	// ---- map Encode params -> H fields through (*H).Encode
	paramField := map[string]string{}
	for _, call := range callsIn(henc, Ref{"header", "", "Encode"}) {
		args := call.Common().Args
		for i, a := range args {
			if i >= len(enc.Params) {
				break
			}
			a = stripValue(a)
			if u, ok := a.(*ssa.UnOp); ok && u.Op == token.MUL {
				if fa, ok := u.X.(*ssa.FieldAddr); ok {
					paramField[enc.Params[i].Name()] = fieldOfAddr(fa).Name()
				}
			}
		}
	}
	// ---- reader table: field -> range
	reads := map[string]byteRange{}
	var verVal, typVal ssa.Value
	eachInstr(parse, func(in ssa.Instruction) {
		st, ok := in.(*ssa.Store)
		if !ok {
			return
		}
		fa, ok := st.Addr.(*ssa.FieldAddr)
		if !ok {
			return
		}
		fname := fieldOfAddr(fa).Name()
		// call to binary.*.UintN(slice)
		if call, _ := callOf(st.Val); call != nil {
			if e, name := endianOf(calleeObj(call)); e != "" && strings.HasPrefix(name, "Uint") {
				_, lo, hi, ok := sliceConstBounds(callArgs(call)[1])
				if !ok {
					c.Bad("C47.layout", "Parse:"+fname, c.instrPos(st), "source is not a constant sub-slice")
					return
				}
				if hi-lo != widthOfBinaryFn(name) {
					c.Bad("C47.layout", "Parse:"+fname, c.instrPos(st), fmt.Sprintf("slice %d:%d does not have the width of %s", lo, hi, name))
				}
				reads[fname] = byteRange{lo, hi, e, "Put" + name}
				return
			}
		}
		// byte expression
		idxs := map[int64]bool{}
		backSlice(st.Val, sliceLocal, func(v ssa.Value) {
			if ia, ok := v.(*ssa.IndexAddr); ok {
				if k, ok := constInt(ia.Index); ok {
					idxs[k] = true
				} else {
					idxs[-1] = true
				}
			}
		})
		if len(idxs) == 1 {
			for k := range idxs {
				reads[fname] = byteRange{int(k), int(k) + 1, "", "byte"}
				if k == 0 && fname == "Version" {
					verVal = st.Val
				}
				if k == 0 && fname == "Type" {
					typVal = st.Val
				}
			}
		} else {
			c.Bad("C47.layout", "Parse:"+fname, c.instrPos(st), fmt.Sprintf("field is not read from one constant byte (%v)", idxs))
		}
	})
	c.Note("Encode writes %v; (*H).Encode maps %v; Parse reads %v", writes, paramField, reads)
	// ---- agreement
	hType := c.NamedType("header", "H")
	if hType != nil {
		st := hType.Underlying().(*types.Struct)
		for i := 0; i < st.NumFields(); i++ {
			f := st.Field(i).Name()
			r, okR := reads[f]
			if !okR {
				c.Bad("C47.layout", "H."+f, c.P.Pos(parse.Pos()), "field is not assigned by Parse")
				continue
			}
			// which param feeds this field
			var w byteRange
			found := false
			for p, fld := range paramField {
				if fld == f {
					w, found = writes[p]
				}
			}
			if !found && f == "Reserved" {
				w, found = writes["zero"]
			}
			if !found {
				c.Bad("C47.layout", "H."+f, c.P.Pos(enc.Pos()), "no write of this field found in Encode (via (*H).Encode argument mapping)")
				continue
			}
			same := w.lo == r.lo && w.hi == r.hi && w.endian == r.endian
			c.Check(same, "C47.layout", "H."+f, c.P.Pos(parse.Pos()), fmt.Sprintf("written %v, read %v", w, r),
				fmt.Sprintf("writer and reader disagree: Encode writes %v (%s), Parse reads %v (%s)", w, w.what, r, r.what))
		}
	}
	// coverage/disjointness of the writer ranges
	cover := make([]int, hdrLen)
	for _, w := range writes {
		for i := w.lo; i < w.hi && i < int(hdrLen); i++ {
			cover[i]++
		}
		if w.hi > int(hdrLen) {
			c.Bad("C47.layout", "Encode:range", c.P.Pos(enc.Pos()), fmt.Sprintf("write %v beyond Len", w))
		}
	}
	okCover := true
	for i, n := range cover {
		// byte 0 is shared by two parameters
		if n == 0 || (n > 1 && i != 0) {
			okCover = false
		}
	}
	c.Check(okCover, "C47.layout", "Encode:cover", c.P.Pos(enc.Pos()), "writer ranges tile [0,Len)", fmt.Sprintf("writer ranges do not tile [0,Len): per-byte write counts %v", cover))

	// ---- byte 0 bit provenance
	if byte0Store != nil && verVal != nil && typVal != nil {
		pv, pt := "", ""
		for p, f := range paramField {
			if f == "Version" {
				pv = p
			}
			if f == "Type" {
				pt = p
			}
		}
		wbits := bitProv(byte0Store.Val, func(v ssa.Value) (BitVec, bool) {
			if p, ok := v.(*ssa.Parameter); ok {
				w, _ := intWidth(p.Type())
				return bvSrc(p.Name(), w), true
			}
			return nil, false
		})
		leafB0 := func(v ssa.Value) (BitVec, bool) {
			if u, ok := v.(*ssa.UnOp); ok && u.Op == token.MUL {
				if ia, ok := u.X.(*ssa.IndexAddr); ok {
					if k, ok := constInt(ia.Index); ok && k == 0 {
						return bvSrc("b0", 8), true
					}
				}
			}
			return nil, false
		}
		ver := bitProv(verVal, leafB0).substitute("b0", wbits)
		typ := bitProv(typVal, leafB0).substitute("b0", wbits)
		okV, okT := len(ver) == 8, len(typ) == 8
		for i := 0; i < 8 && okV && okT; i++ {
			if i < 4 {
				okV = okV && ver[i] == Bit{Kind: 2, Src: pv, K: i}
				okT = okT && typ[i] == Bit{Kind: 2, Src: pt, K: i}
			} else {
				okV = okV && ver[i].Kind == 0
				okT = okT && typ[i].Kind == 0
			}
		}
		c.Check(okV, "C47.byte0", "Version", c.instrPos(byte0Store), fmt.Sprintf("decode(encode) bits = %v", ver), fmt.Sprintf("version nibble does not round-trip: decoded bits %v (expected %s[0..3],0,0,0,0)", ver, pv))
		c.Check(okT, "C47.byte0", "Type", c.instrPos(byte0Store), fmt.Sprintf("decode(encode) bits = %v", typ), fmt.Sprintf("type nibble does not round-trip: decoded bits %v (expected %s[0..3],0,0,0,0)", typ, pt))
	} else {
		c.Unknown("C47.byte0", "byte0", "byte 0 store / Version / Type expressions not found in the expected shape")
	}

	// ---- Parse bounds
	{
		bparam := parse.Params[1]
		maxIdx := int64(-1)
		var sinks []Sink
		eachInstr(parse, func(in ssa.Instruction) {
			switch x := in.(type) {
			case *ssa.IndexAddr:
				if x.X == bparam {
					k, ok := constInt(x.Index)
					if !ok {
						c.Bad("C47.parse-bounds", "Parse:nonconst", c.instrPos(x), "non-constant index into the input")
						return
					}
					if k > maxIdx {
						maxIdx = k
					}
					sinks = append(sinks, Sink{Instr: x, Desc: "b[i]"})
				}
			case *ssa.Slice:
				if x.X == bparam {
					_, _, hi, ok := sliceConstBounds(x)
					if !ok {
						c.Bad("C47.parse-bounds", "Parse:nonconst", c.instrPos(x), "non-constant slice of the input")
						return
					}
					if int64(hi-1) > maxIdx {
						maxIdx = int64(hi - 1)
					}
					sinks = append(sinks, Sink{Instr: x, Desc: "b[lo:hi]"})
				}
			}
		})
		g := gCmp("len(b) >= Len", isLenOf(func(v ssa.Value) bool { return v == bparam }), func(v ssa.Value) bool {
			k, ok := constInt(v)
			return ok && k > maxIdx
		}, func(op token.Token) (bool, bool) {
			switch op {
			case token.LSS:
				return true, false
			case token.GEQ:
				return true, true
			}
			return false, false
		})
		c.requireGuards("C47.parse-bounds", parse, sinks, "read-of-input", g)
		c.Check(maxIdx < hdrLen, "C47.parse-bounds", "Parse:max-offset", c.P.Pos(parse.Pos()), fmt.Sprintf("max offset %d < Len %d", maxIdx, hdrLen), fmt.Sprintf("Parse reads offset %d, beyond the %d-byte header", maxIdx, hdrLen))
	}

	// ---- subtype table
	accepted := map[[2]int64]bool{}
	undecided := ""
	for t := int64(0); t < 16; t++ {
		for s := int64(0); s < 256; s++ {
			res, err := absEval(valid, &AbsEnv{Params: map[string]AVal{"t": aInt(t), "s": aInt(s)}})
			if err != "" {
				undecided = err
				break
			}
			if len(res) == 1 && res[0].isConst() && constant.BoolVal(res[0].K) {
				accepted[[2]int64{t, s}] = true
			}
		}
	}
	if undecided != "" {
		c.Unknown("C47.subtype-table", "IsValidSubType", "predicate left the loop-free fragment: "+undecided)
	} else {
		table := c.subTypeMapKeys()
		if table != nil {
			var diff []string
			for k := range accepted {
				if !table[k] {
					diff = append(diff, fmt.Sprintf("accepted but not in subTypeMap: type %d subtype %d", k[0], k[1]))
				}
			}
			for k := range table {
				if !accepted[k] {
					diff = append(diff, fmt.Sprintf("in subTypeMap but refused: type %d subtype %d", k[0], k[1]))
				}
			}
			sort.Strings(diff)
			c.Check(len(diff) == 0, "C47.subtype-table", "IsValidSubType~subTypeMap", c.P.Pos(valid.Pos()),
				fmt.Sprintf("%d accepted (type,subtype) pairs, identical to the documented table", len(accepted)), strings.Join(diff, "; "))
		}
		// every declared MessageType constant is accepted with at least one subtype
		tp := c.P.TypesPkg("header")
		mt := c.NamedType("header", "MessageType")
		if tp != nil && mt != nil {
			for _, n := range tp.Scope().Names() {
				k, ok := tp.Scope().Lookup(n).(*types.Const)
				if !ok || !types.Identical(k.Type(), mt) {
					continue
				}
				tv, _ := constant.Int64Val(k.Val())
				has := false
				for a := range accepted {
					if a[0] == tv {
						has = true
					}
				}
				c.Check(has, "C47.subtype-table", "type:"+n, c.P.Pos(k.Pos()), "has an accepted subtype", "declared message type has no accepted subtype")
			}
		}
	}
	c.acceptedTypes = map[int64]bool{}
	for a := range accepted {
		c.acceptedTypes[a[0]] = true
	}
	c47Dispatch(c)
}

// subTypeMapKeys reads the composite literal of header.subTypeMap (AST + constant values).
func (c *Ctx) subTypeMapKeys() map[[2]int64]bool {
	pk := c.P.All[PkgPath("header")]
	if pk == nil {
		return nil
	}
	lits := map[string]*ast.CompositeLit{}
	for _, f := range pk.Syntax {
		for _, d := range f.Decls {
			gd, ok := d.(*ast.GenDecl)
			if !ok || gd.Tok != token.VAR {
				continue
			}
			for _, sp := range gd.Specs {
				vs := sp.(*ast.ValueSpec)
				for i, n := range vs.Names {
					if i < len(vs.Values) {
						if cl, ok := vs.Values[i].(*ast.CompositeLit); ok {
							lits[n.Name] = cl
						}
					}
				}
			}
		}
	}
	top := lits["subTypeMap"]
	if top == nil {
		c.Unknown("anchor", "header.subTypeMap", "map literal not found")
		return nil
	}
	cv := func(e ast.Expr) (int64, bool) {
		tv, ok := pk.TypesInfo.Types[e]
		if !ok || tv.Value == nil {
			return 0, false
		}
		return constant.Int64Val(constant.ToInt(tv.Value))
	}
	out := map[[2]int64]bool{}
	for _, el := range top.Elts {
		kv, ok := el.(*ast.KeyValueExpr)
		if !ok {
			continue
		}
		t, ok := cv(kv.Key)
		if !ok {
			c.Unknown("C47.subtype-table", "subTypeMap", "non-constant key")
			return nil
		}
		var inner *ast.CompositeLit
		switch v := kv.Value.(type) {
		case *ast.CompositeLit:
			inner = v
		case *ast.UnaryExpr:
			if id, ok := v.X.(*ast.Ident); ok {
				inner = lits[id.Name]
			}
		}
		if inner == nil {
			c.Unknown("C47.subtype-table", "subTypeMap", "unrecognised value shape")
			return nil
		}
		for _, e2 := range inner.Elts {
			kv2, ok := e2.(*ast.KeyValueExpr)
			if !ok {
				continue
			}
			s, ok := cv(kv2.Key)
			if !ok {
				c.Unknown("C47.subtype-table", "subTypeMap", "non-constant subtype key")
				return nil
			}
			out[[2]int64{t, s}] = true
		}
	}
	return out
}

// c47Dispatch: readOutsidePackets' switch over h.Type has an arm for every accepted type.
func c47Dispatch(c *Ctx) {
	if c.P.SSAPkgs[nebulaMod] == nil {
		c.Unknown("C47.dispatch", "readOutsidePackets", "root package not loaded")
		return
	}
	fn := c.Func(Ref{"", "Interface", "readOutsidePackets"})
	hType := c.Field("header", "H", "Type")
	if fn == nil || hType == nil {
		return
	}
	// SSA lowers the switch to a chain of `h.Type == K` tests
	handled := map[int64]bool{}
	eachInstr(fn, func(in ssa.Instruction) {
		bo, ok := in.(*ssa.BinOp)
		if !ok || bo.Op != token.EQL {
			return
		}
		var k int64
		var okk bool
		if loadsField(bo.X, hType) {
			k, okk = constInt(bo.Y)
		} else if loadsField(bo.Y, hType) {
			k, okk = constInt(bo.X)
		}
		if okk {
			handled[k] = true
		}
	})
	for t := range c.acceptedTypes {
		c.Check(handled[t], "C47.dispatch", fmt.Sprintf("type=%d", t), c.P.Pos(fn.Pos()), "has a dispatch arm", "message type accepted by IsValidSubType has no arm in readOutsidePackets' dispatch")
	}
}
