package main

import (
	"fmt"

	"golang.org/x/tools/go/ssa"
)

func init() {
	register(&Property{
		ID: "C09", Title: "Tunnels are bound to the certified overlay address",
		Patterns:  []string{"."},
		Technique: "who-may-write HostInfo.vpnAddrs with provenance from the verified certificate, CFG guard reachability (for-all self-address refusal, correct-host test) before tunnel installation, must-pass-through of the address assignment and network table build, host-route prefix construction",
		LevelText: "Structural necessary conditions on all paths: a tunnel is installed (Complete / CheckAndComplete) only after every certificate address was tested against the node's own addresses (for all addresses, not a prefix of them), on the initiator only if the intended address equals one of the certificate's addresses, with HostInfo.vpnAddrs assigned from the verified certificate's networks and the per-peer network table built from that certificate; HostInfo.vpnAddrs has no other writers; hostmap insertion and the DNS record iterate exactly HostInfo.vpnAddrs; certificate networks enter the lookup tables as host routes.",
		LevelNote: "Not decided: multi-node histories, that lighthouse/relay paths pick the right peer, bart lookup correctness.",
		Explanation: "K2 writers of HostInfo.vpnAddrs, K11 provenance to Certificate.Networks(), K1 for-all guards in continueHandshake/validatePeerCert, K1 flag or slices.Contains form of the correct-host test, must-pass-through for vpnAddrs assignment and buildNetworks, K11 host prefix",
		Run:       runC09,
		Canaries: func(c *Ctx) []Canary {
			return []Canary{
				{Name: "self-check-stops-at-first-common-address", File: "handshake_manager.go", Old: "\t\tif f.myVpnNetworksTable.Contains(network.Addr()) {\n\t\t\tanyVpnAddrsInCommon = true\n\t\t}\n\t}\n\n\tif !correctHostResponded {", New: "\t\tif f.myVpnNetworksTable.Contains(network.Addr()) {\n\t\t\tanyVpnAddrsInCommon = true\n\t\t\tbreak\n\t\t}\n\t}\n\n\tif !correctHostResponded {", Rule: "C09.install"},
				{Name: "initiator-keeps-intended-addrs", File: "handshake_manager.go", Old: "\thostinfo.vpnAddrs = vpnAddrs\n\thostinfo.buildNetworks(f.myVpnNetworksTable, remoteCert.Certificate)\n\n\thm.Complete(hostinfo, f)", New: "\thostinfo.buildNetworks(f.myVpnNetworksTable, remoteCert.Certificate)\n\n\thm.Complete(hostinfo, f)", Rule: "C09.install"},
				{Name: "responder-self-check-removed", File: "handshake_manager.go", Old: "\t\t\t\t\"issuer\", remoteCert.Certificate.Issuer(),\n\t\t\t)\n\t\t\treturn nil, false, false\n\t\t}\n\t\tvpnAddrs[i] = network.Addr()", New: "\t\t\t\t\"issuer\", remoteCert.Certificate.Issuer(),\n\t\t\t)\n\t\t}\n\t\tvpnAddrs[i] = network.Addr()", Rule: "C09.validate"},
				{Name: "whole-network-as-peer-prefix", File: "hostmap.go", Old: "nprefix := netip.PrefixFrom(network.Addr(), network.Addr().BitLen())", New: "nprefix := netip.PrefixFrom(network.Addr(), network.Bits())", Rule: "C09.host-prefix"},
				{Name: "wrong-host-accepted", File: "handshake_manager.go", Old: "\tif !correctHostResponded {\n\t\tf.l.Info(\"Incorrect host responded to handshake\",", New: "\tif !correctHostResponded && !anyVpnAddrsInCommon {\n\t\tf.l.Info(\"Incorrect host responded to handshake\",", Rule: "C09.install"},
			}
		},
	})
}

func runC09(c *Ctx) {
	c.Rule("C09.writers", "K2: HostInfo.vpnAddrs is written only in StartHandshake (intended address), beginHandshake and continueHandshake", 1)
	c.Rule("C09.install", "K1: continueHandshake reaches Complete only if every certificate address is not one of my own (for-all), the intended address is one of the certificate's, vpnAddrs was assigned from the certificate's networks and buildNetworks ran on that certificate; beginHandshake reaches CheckAndComplete only after validatePeerCert ok", 6)
	c.Rule("C09.validate", "K1: validatePeerCert returns ok only with >=1 network and every address not my own; the addresses it returns are the certificate's", 3)
	c.Rule("C09.addhost", "K11: unlockedAddHostInfo inserts under exactly hostinfo.vpnAddrs and registers the DNS name with them", 2)
	c.Rule("C09.host-prefix", "K11: certificate networks are inserted as host routes PrefixFrom(addr, addr.BitLen()) in buildNetworks", 1)

	funcs := c.moduleFuncs()
	fVpn := c.Field("", "HostInfo", "vpnAddrs")
	if fVpn == nil {
		return
	}
	allow := map[string]bool{"(*nebula.HandshakeManager).StartHandshake": true, "(*nebula.HandshakeManager).beginHandshake": true, "(*nebula.HandshakeManager).continueHandshake": true}
	bad := 0
	ws := fieldWriters(funcs, fVpn)
	for _, w := range ws {
		if c.isTestHelperFile(w.Instr) || w.Kind == "addr-escape" {
			continue
		}
		n := fnName(topFunc(w.Fn))
		if !allow[n] {
			bad++
			c.Bad("C09.writers", "HostInfo.vpnAddrs<-"+n, c.instrPos(w.Instr), "a tunnel's peer addresses are written outside the handshake functions")
		}
	}
	if bad == 0 {
		c.OK("C09.writers", "HostInfo.vpnAddrs", fmt.Sprintf("%d write sites, all tabled", len(ws)))
	}
	netsRef := certM("Networks")
	fromNetworks := func(v ssa.Value) bool { return derivesFrom(v, sliceThrough, isCallTo(netsRef)) }
	fMyAddrs := c.Field("", "Interface", "myVpnAddrsTable")
	selfTest := func(elemOK func(ssa.Value) bool) Guard {
		return gBool("address is not one of my own (myVpnAddrsTable.Contains == false)", false, -1, CallSpec{
			Refs: bartContainsRefs,
			Args: map[int]func(ssa.Value) bool{0: fromFieldLoad(fMyAddrs), 1: elemOK}})
	}
	// ---- continueHandshake
	if fn := c.Func(Ref{"", "HandshakeManager", "continueHandshake"}); fn != nil {
		sinks := callSinks(fn, "hm.Complete", callTo(Ref{"", "HandshakeManager", "Complete"}))
		// the slice assigned to hostinfo.vpnAddrs in this function (not inside closures)
		var assigned ssa.Value
		var assignInstr ssa.Instruction
		eachInstr(fn, func(in ssa.Instruction) {
			if st, ok := in.(*ssa.Store); ok {
				if fa, ok := st.Addr.(*ssa.FieldAddr); ok && fieldOfAddr(fa) == fVpn {
					assigned, assignInstr = st.Val, st
				}
			}
		})
		if assigned == nil {
			c.Bad("C09.install", "continueHandshake:vpnAddrs-assigned", c.P.Pos(fn.Pos()), "the completed tunnel keeps the intended address list instead of the certificate's addresses")
		} else {
			// every element stored into the slice derives from Certificate.Networks()
			okEl, nEl := true, 0
			base := stripValue(assigned)
			eachInstr(fn, func(in ssa.Instruction) {
				if st, ok := in.(*ssa.Store); ok {
					if ia, ok := st.Addr.(*ssa.IndexAddr); ok && sameVar(ia.X, base) {
						nEl++
						okEl = okEl && fromNetworks(st.Val)
					}
				}
			})
			c.Check(okEl && nEl > 0, "C09.install", "continueHandshake:vpnAddrs<-cert.Networks()", c.instrPos(assignInstr), "tunnel addresses are the verified certificate's", "the addresses recorded for the tunnel are not taken from the verified certificate's networks")
			for i, s := range sinks {
				if bad, path := c.avoidsCut(fn, nil, s.Instr, func(in ssa.Instruction) bool { return in == assignInstr }); bad {
					c.Bad("C09.install", fmt.Sprintf("continueHandshake:Complete#%d<-vpnAddrs-assigned", i), c.instrPos(s.Instr), "Complete is reachable without assigning the certificate's addresses to the tunnel", path...)
				} else {
					c.OK("C09.install", fmt.Sprintf("continueHandshake:Complete#%d<-vpnAddrs-assigned", i), "assignment precedes installation")
				}
			}
		}
		isBuild := func(in ssa.Instruction) bool {
			ci, ok := in.(ssa.CallInstruction)
			if !ok || !matchFunc(calleeObj(ci), Ref{"", "HostInfo", "buildNetworks"}) {
				return false
			}
			return derivesFrom(callArgs(ci)[2], sliceLocal, func(x ssa.Value) bool { return loadsField(x, c.Field("handshake", "Result", "RemoteCert")) })
		}
		for i, s := range sinks {
			if bad, path := c.avoidsCut(fn, nil, s.Instr, isBuild); bad {
				c.Bad("C09.install", fmt.Sprintf("continueHandshake:Complete#%d<-buildNetworks", i), c.instrPos(s.Instr), "Complete is reachable without building the peer's network table from the verified certificate", path...)
			} else {
				c.OK("C09.install", fmt.Sprintf("continueHandshake:Complete#%d<-buildNetworks", i), "network table built from the verified certificate")
			}
		}
		// for-all self test over the certificate's addresses
		coll := func(v ssa.Value) bool { return fromNetworks(v) || (assigned != nil && sameVar(v, assigned)) }
		c09ForAllSelf(c, "C09.install", "continueHandshake:no-own-address", fn, coll, sinks, selfTest)
		// correct host responded
		fIntended := func(v ssa.Value) bool { // hostinfo.vpnAddrs[0]
			return derivesFrom(v, sliceLocal, func(x ssa.Value) bool { return loadsField(x, fVpn) })
		}
		var flag *ssa.Phi
		gFlag := Guard{Name: "correct host responded (flag)", Match: func(cd Cond, _ *ssa.If) (bool, bool) {
			if cd.Kind != CondBool {
				return false, false
			}
			phi, ok := cd.Base.(*ssa.Phi)
			if !ok || phi.Comment != "correctHostResponded" {
				// comment is only a hint; identify by its true-edges being guarded by the equality
				if !ok {
					return false, false
				}
			}
			if !c09FlagSetByEquality(c, fn, phi, fIntended, fromNetworks) {
				return false, false
			}
			flag = phi
			return true, !cd.Neg
		}}
		gContains := gBool("slices.Contains(certAddrs, intended)", true, -1, CallSpec{Refs: []Ref{{"slices", "", "Contains"}}, Args: map[int]func(ssa.Value) bool{0: coll, 1: fIntended}})
		c.requireGuards("C09.install", fn, sinks, "Complete", gAny("the intended address is one of the certificate's addresses", gFlag, gContains))
		_ = flag
	}
	// ---- validatePeerCert
	if fn := c.Func(Ref{"", "HandshakeManager", "validatePeerCert"}); fn != nil {
		okRet := boolReturns(fn, 2, true)
		coll := func(v ssa.Value) bool { return fromNetworks(v) }
		c09ForAllSelf(c, "C09.validate", "validatePeerCert:no-own-address", fn, coll, okRet, selfTest)
		c.requireGuards("C09.validate", fn, okRet, "ok-return", gCmp("len(networks) != 0", isLenOf(fromNetworks), isIntConst(0), func(op tokenT) (bool, bool) {
			switch op {
			case tokEQL, tokLEQ:
				return true, false
			case tokNEQ, tokGTR:
				return true, true
			}
			return false, false
		}))
		okAddrs := len(okRet) > 0
		for _, s := range okRet {
			base := stripValue(retResult(s.Instr.(*ssa.Return), 0))
			n := 0
			eachInstr(fn, func(in ssa.Instruction) {
				if st, ok := in.(*ssa.Store); ok {
					if ia, ok := st.Addr.(*ssa.IndexAddr); ok && sameVar(ia.X, base) {
						n++
						okAddrs = okAddrs && fromNetworks(st.Val)
					}
				}
			})
			okAddrs = okAddrs && n > 0
		}
		c.Check(okAddrs, "C09.validate", "validatePeerCert:addrs<-cert.Networks()", c.P.Pos(fn.Pos()), "returned addresses are the certificate's", "validatePeerCert returns addresses that are not the certificate's networks")
	}
	// ---- beginHandshake
	if fn := c.Func(Ref{"", "HandshakeManager", "beginHandshake"}); fn != nil {
		sinks := callSinks(fn, "CheckAndComplete", callTo(Ref{"", "HandshakeManager", "CheckAndComplete"}))
		c.requireGuards("C09.install", fn, sinks, "CheckAndComplete", gBool("validatePeerCert ok", true, 2, callTo(Ref{"", "HandshakeManager", "validatePeerCert"})))
		hi := c.NamedType("", "HostInfo")
		if hi != nil {
			v := fieldsWrittenBy(fn, hi)["vpnAddrs"]
			call, idx := callOf(v)
			c.Check(v != nil && call != nil && idx == 0 && matchFunc(calleeObj(call), Ref{"", "HandshakeManager", "validatePeerCert"}), "C09.install", "beginHandshake:vpnAddrs<-validatePeerCert", c.P.Pos(fn.Pos()), "responder records the validated certificate addresses", "the responder's tunnel addresses are not the ones validatePeerCert returned")
		}
		for i, s := range sinks {
			isBuild := func(in ssa.Instruction) bool {
				ci, ok := in.(ssa.CallInstruction)
				return ok && matchFunc(calleeObj(ci), Ref{"", "HostInfo", "buildNetworks"})
			}
			if bad, path := c.avoidsCut(fn, nil, s.Instr, isBuild); bad {
				c.Bad("C09.install", fmt.Sprintf("beginHandshake:CheckAndComplete#%d<-buildNetworks", i), c.instrPos(s.Instr), "tunnel installed without building the peer's network table", path...)
			} else {
				c.OK("C09.install", fmt.Sprintf("beginHandshake:CheckAndComplete#%d<-buildNetworks", i), "built")
			}
		}
	}
	// ---- unlockedAddHostInfo
	if fn := c.Func(Ref{"", "HostMap", "unlockedAddHostInfo"}); fn != nil {
		hostinfo := fn.Params[1]
		isVpn := func(v ssa.Value) bool {
			return loadsField(v, fVpn) && derivesFrom(v, sliceLocal, func(x ssa.Value) bool { return x == hostinfo })
		}
		loops := findRangeLoops(fn, isVpn)
		var body map[*ssa.BasicBlock]*ssa.BasicBlock
		if len(loops) == 1 {
			body = reachable(loops[0].Body, map[Edge]bool{{loops[0].Header, loops[0].DoneIx}: true})
			delete(body, loops[0].Header)
		}
		inLoop := func(in ssa.Instruction) bool {
			_, ok := body[in.Block()]
			return ok
		}
		elemOfVpn := func(v ssa.Value) bool { return v != nil && derivesFrom(v, sliceLocal, isVpn) }
		// keyKind (used when unlockedInnerAddHostInfo is gone): 2 = the element the single loop is at (hostinfo.vpnAddrs[i], i the
		// loop's own index); 0 = not an address of the tunnel, or a fixed element (vpnAddrs[const]) which does not iterate;
		// 1 = an address of the tunnel picked in a way that is not followed
		keyKind := func(v ssa.Value) int {
			if !elemOfVpn(v) {
				return 0
			}
			if u, ok := stripValue(v).(*ssa.UnOp); ok {
				if ia, ok := u.X.(*ssa.IndexAddr); ok && isVpn(ia.X) {
					if _, isC := constInt(ia.Index); isC {
						return 0
					}
					if in, ok := ia.Index.(ssa.Instruction); ok && len(loops) == 1 && in.Block() == loops[0].Header {
						return 2
					}
				}
			}
			return 1
		}
		n := 0
		innerRef := Ref{"", "HostMap", "unlockedInnerAddHostInfo"}
		if c.funcQuiet(innerRef) != nil {
			for _, ci := range callsIn(fn, innerRef) {
				n++
				a := callArgs(ci)
				c.Check(elemOfVpn(a[1]) && a[2] == hostinfo, "C09.addhost", "inner-add-args", c.instrPos(ci), "inserted under each of hostinfo.vpnAddrs", "hostmap insertion uses an address that is not one of the tunnel's certified addresses")
			}
			c.Check(n == 1 && len(loops) == 1, "C09.addhost", "loop-over-vpnAddrs", c.P.Pos(fn.Pos()), "one insertion per certified address", "hostmap insertion does not iterate hostinfo.vpnAddrs")
		} else {
			// unlockedInnerAddHostInfo was inlined (or split differently): the rule is anchored on the insertions themselves. Every
			// write of hm.Hosts and every unlockedSetHostsForAddr call made by unlockedAddHostInfo, directly or through its private
			// helpers, must be keyed by an element of hostinfo.vpnAddrs inside the one loop over them.
			fHosts := c.Field("", "HostMap", "Hosts")
			cg := fix4BuildCallGraph(funcs)
			fam := fix4ReachFamily(fix4Family(c, funcs, cg, fn), fn)
			undecided := false
			type ins struct {
				in       ssa.Instruction
				key, val ssa.Value // val nil for unlockedSetHostsForAddr (the list is C28.add's business)
			}
			const badKey = "hostmap insertion uses an address that is not one of the tunnel's certified addresses"
			for _, g := range fix4FamilyList(funcs, fam) {
				var sites []ins
				for _, gg := range funcsWithAnon(g) {
					eachInstr(gg, func(in ssa.Instruction) {
						if mu, ok := in.(*ssa.MapUpdate); ok && loadsField(mu.Map, fHosts) {
							sites = append(sites, ins{in, mu.Key, mu.Value})
						} else if ci, ok := in.(ssa.CallInstruction); ok && matchFunc(calleeObj(ci), Ref{"", "HostMap", "unlockedSetHostsForAddr"}) {
							sites = append(sites, ins{in, callArgs(ci)[1], nil})
						} else {
							return
						}
						if gg != g {
							undecided = true // inside a closure: when it runs is not followed
						}
					})
				}
				for _, st := range sites {
					if st.in.Parent() != g {
						continue
					}
					if g == fn {
						n++
						if keyKind(st.key) == 1 {
							c.Unknown("C09.addhost", "inner-add-args", "the key of the insertion at "+c.instrPos(st.in)+" is an address of the tunnel but not visibly the element the loop is at")
							continue
						}
						c.Check(keyKind(st.key) == 2 && (st.val == nil || stripValue(st.val) == ssa.Value(hostinfo)) && inLoop(st.in), "C09.addhost", "inner-add-args", c.instrPos(st.in), "inserted under each of hostinfo.vpnAddrs", badKey)
						continue
					}
					// in a private helper: key and value must be parameters that the callers, all in unlockedAddHostInfo, fill
					kp, kOK := stripValue(st.key).(*ssa.Parameter)
					var vp *ssa.Parameter
					vOK := true
					if st.val != nil {
						vp, vOK = stripValue(st.val).(*ssa.Parameter)
					}
					if !kOK || !vOK || len(cg.callers[g]) == 0 {
						undecided = true
						continue
					}
					for _, site := range cg.callers[g] {
						if site.Fn != fn {
							undecided = true
							continue
						}
						args := callArgs(site.In)
						ki, vi := -1, -1
						for i, p := range g.Params {
							if p == kp {
								ki = i
							}
							if vp != nil && p == vp {
								vi = i
							}
						}
						if ki < 0 || ki >= len(args) || (vp != nil && (vi < 0 || vi >= len(args))) {
							undecided = true
							continue
						}
						n++
						if keyKind(args[ki]) == 1 {
							c.Unknown("C09.addhost", "inner-add-args", "the key of the insertion at "+c.instrPos(site.In)+" is an address of the tunnel but not visibly the element the loop is at")
							continue
						}
						c.Check(keyKind(args[ki]) == 2 && (vp == nil || stripValue(args[vi]) == ssa.Value(hostinfo)) && inLoop(site.In), "C09.addhost", "inner-add-args", c.instrPos(site.In), "inserted under each of hostinfo.vpnAddrs", badKey)
					}
				}
			}
			if undecided {
				c.Unknown("C09.addhost", "loop-over-vpnAddrs", "unlockedInnerAddHostInfo is gone and an insertion into hm.Hosts sits in a helper whose key could not be mapped back to unlockedAddHostInfo")
			} else {
				c.Check(n >= 1 && len(loops) == 1, "C09.addhost", "loop-over-vpnAddrs", c.P.Pos(fn.Pos()), "one insertion per certified address", "hostmap insertion does not iterate hostinfo.vpnAddrs")
			}
		}
		for _, ci := range callsIn(fn, Ref{"", "dnsServer", "Add"}) {
			a := callArgs(ci)
			c.Check(isVpn(a[2]), "C09.addhost", "dns-add-args", c.instrPos(ci), "DNS record lists hostinfo.vpnAddrs", "DNS record registered with addresses other than the tunnel's certified ones")
		}
	}
	// ---- host prefix
	if fn := c.Func(Ref{"", "HostInfo", "buildNetworks"}); fn != nil {
		n, ok := 0, true
		eachInstr(fn, func(in ssa.Instruction) {
			call, isC := in.(*ssa.Call)
			if !isC || !matchFunc(calleeObj(call), Ref{"net/netip", "", "PrefixFrom"}) {
				return
			}
			n++
			bits, _ := callOf(call.Call.Args[1])
			okB := bits != nil && matchFunc(calleeObj(bits), Ref{"net/netip", "Addr", "BitLen"}) && exprString(callArgs(bits)[0]) == exprString(call.Call.Args[0])
			ok = ok && okB && fromNetworks(call.Call.Args[0])
		})
		c.Check(ok && n > 0, "C09.host-prefix", "buildNetworks", c.P.Pos(fn.Pos()), "PrefixFrom(addr, addr.BitLen())", "a certificate network is inserted with its network mask instead of as a host route: the peer could source any address of the overlay network")
	}
}

// c09ForAllSelf: some loop over the certificate's addresses applies the self test to every
// element before any sink.
func c09ForAllSelf(c *Ctx, rule, cons string, fn *ssa.Function, coll func(ssa.Value) bool, sinks []Sink, selfTest func(func(ssa.Value) bool) Guard) {
	loops := findRangeLoops(fn, coll)
	if len(loops) == 0 {
		c.Bad(rule, cons, c.P.Pos(fn.Pos()), "no loop over the certificate's addresses found: the own-address refusal is gone")
		return
	}
	elem := func(v ssa.Value) bool { return derivesFrom(v, sliceThrough, coll) }
	g := selfTest(elem)
	edges, n := passEdges(fn, g)
	if n == 0 {
		c.Bad(rule, cons, c.P.Pos(fn.Pos()), "own-address test (myVpnAddrsTable.Contains on a certificate address) not found")
		return
	}
	// pick the loop(s) containing the test
	var lastDetail string
	var lastPath []string
	var lastPos string
	for _, li := range loops {
		body := reachable(li.Body, map[Edge]bool{{li.Header, li.DoneIx}: true})
		has := false
		for e := range edges {
			if _, ok := body[e.From]; ok {
				has = true
			}
		}
		if !has {
			continue
		}
		sub := NewCtx(c.Prop, c.Tier, c.Seed)
		sub.P = c.P
		sub.forAllGuard(rule, cons, fn, li, sinks, g)
		if len(sub.Obs) == 1 && sub.Obs[0].Verdict == Discharged {
			c.OK(rule, cons, sub.Obs[0].Detail)
			return
		}
		if len(sub.Obs) == 1 {
			lastDetail, lastPath, lastPos = sub.Obs[0].Detail, sub.Obs[0].Path, sub.Obs[0].Pos
		}
	}
	if lastDetail == "" {
		lastDetail = "the own-address test is not inside a loop over the certificate's addresses"
		lastPos = c.P.Pos(fn.Pos())
	}
	c.Bad(rule, cons, lastPos, lastDetail, lastPath...)
}

// c09FlagSetByEquality: every `true` edge of the boolean phi is behind intended == certAddr.
func c09FlagSetByEquality(c *Ctx, fn *ssa.Function, phi *ssa.Phi, intended, certAddr func(ssa.Value) bool) bool {
	eq := gCmp("intended == certAddr", intended, certAddr, mustEqual)
	n := 0
	seen := map[*ssa.Phi]bool{}
	var check func(p *ssa.Phi) bool
	check = func(p *ssa.Phi) bool {
		if seen[p] {
			return true
		}
		seen[p] = true
		for k, e := range p.Edges {
			if bv, ok := boolConst(e); ok {
				if !bv {
					continue
				}
				n++
				pred := p.Block().Preds[k]
				ok2, _, _ := c.mustPass(fn, Sink{Instr: pred.Instrs[len(pred.Instrs)-1]}, eq)
				if !ok2 {
					return false
				}
				continue
			}
			if q, ok := e.(*ssa.Phi); ok {
				if !check(q) {
					return false
				}
				continue
			}
			return false
		}
		return true
	}
	return check(phi) && n > 0
}
