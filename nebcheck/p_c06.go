package main

import (
	"fmt"
	"go/token"

	"golang.org/x/tools/go/ssa"
)

func init() {
	register(&Property{
		ID: "C06", Title: "Completed handshakes agree on keys and indexes",
		Patterns:  []string{".", "./handshake", "./noiseutil"},
		Technique: "provenance of the cipher-state split per completion path (role-consistent swap), writer/reader agreement of the payload index fields per role, dominating non-zero index tests, sibling agreement of nonce endianness per cipher",
		LevelText: "Structural necessary conditions: the key assignment on the read-completion path and on the write-completion path are each other's swap (so one side's sending key is the other's receiving key); the payload field the initiator writes its local index to is the field the responder reads as remote index and vice versa, and the responder echoes the initiator's index; a zero remote index is refused and generated local indexes are never zero; both sides report hs.MessageIndex(); the header of every handshake reply carries the stored remote index; encrypt and decrypt of each cipher wrapper build the nonce with the same byte order.",
		LevelNote: "Not decided: actual key equality (Noise/crypto), that both peers run the same code version.",
		Explanation: "K11 tuple-index provenance through one level of callee summary (buildResponse), K7 field agreement extracted from the Initiator branch of marshalOutgoing/processPayload, K1 zero-index guards, K7 endianness siblings",
		Run:       runC06,
		Canaries: func(c *Ctx) []Canary {
			return []Canary{
				{Name: "read-path-keys-swapped", File: "handshake/machine.go", Old: "return nil, m.completed(eKey, dKey), nil", New: "return nil, m.completed(dKey, eKey), nil", Rule: "C06.key-roles"},
				{Name: "responder-writes-initiator-field", File: "handshake/machine.go", Old: "\t\t\tp.ResponderIndex = m.result.LocalIndex\n\t\t\tp.InitiatorIndex = m.result.RemoteIndex", New: "\t\t\tp.InitiatorIndex = m.result.LocalIndex\n\t\t\tp.ResponderIndex = m.result.RemoteIndex", Rule: "C06.index-fields"},
				{Name: "zero-remote-index-accepted", File: "handshake/machine.go", Old: "\t\tif remoteIndex == 0 {\n\t\t\tm.failed = true\n\t\t\treturn ErrInvalidRemoteIndex\n\t\t}\n", New: "", Rule: "C06.nonzero"},
				{Name: "aesgcm-decrypt-little-endian", File: "noiseutil/aesgcm.go", Old: "\tbinary.BigEndian.PutUint64(nb[4:], n)\n\treturn s.c.Open(out, nb, ciphertext, ad)", New: "\tbinary.LittleEndian.PutUint64(nb[4:], n)\n\treturn s.c.Open(out, nb, ciphertext, ad)", Rule: "C06.nonce-order"},
			}
		},
	})
}

func runC06(c *Ctx) {
	c.Rule("C06.key-roles", "K11: completed(EKey,DKey) receives (ReadMessage#1, ReadMessage#2) on the read path and (WriteMessage#2, WriteMessage#1) on the write path; completed stores them unswapped", 3)
	c.Rule("C06.index-fields", "K7: index field written per role in marshalOutgoing = field read by the opposite role in processPayload; responder echoes the initiator index; reply header carries Result.RemoteIndex", 4)
	c.Rule("C06.nonzero", "K1: Result.RemoteIndex is stored only when non-zero; generateIndex returns only a non-zero index", 2)
	c.Rule("C06.message-index", "K11: Result.MessageIndex = hs.MessageIndex() at completion", 1)
	c.Rule("C06.nonce-order", "K7: EncryptDanger and DecryptDanger of each cipher wrapper use the same binary byte order for the nonce, at the same offset", 2)

	noisePkg := "github.com/flynn/noise"
	pp := c.Func(Ref{"handshake", "Machine", "ProcessPacket"})
	br := c.Func(Ref{"handshake", "Machine", "buildResponse"})
	comp := c.Func(Ref{"handshake", "Machine", "completed"})
	if pp == nil || br == nil || comp == nil {
		return
	}
	// which tuple element of Read/WriteMessage does v come from (through buildResponse's returns)
	var origin func(v ssa.Value) (string, int)
	origin = func(v ssa.Value) (string, int) {
		ex, ok := stripValue(v).(*ssa.Extract)
		if !ok {
			return "", -1
		}
		call, ok := ex.Tuple.(*ssa.Call)
		if !ok {
			return "", -1
		}
		o := calleeObj(call)
		switch {
		case matchFunc(o, Ref{noisePkg, "HandshakeState", "ReadMessage"}):
			return "read", ex.Index
		case matchFunc(o, Ref{noisePkg, "HandshakeState", "WriteMessage"}):
			return "write", ex.Index
		case matchFunc(o, Ref{"handshake", "Machine", "buildResponse"}):
			// all success returns of buildResponse must agree
			kind, idx := "", -1
			for _, s := range successReturns(br, errResultIndex(br)) {
				k, i := origin(retResult(s.Instr.(*ssa.Return), ex.Index))
				if kind != "" && (k != kind || i != idx) {
					return "", -1
				}
				kind, idx = k, i
			}
			return kind, idx
		}
		return "", -1
	}
	nRead, nWrite := 0, 0
	for i, ec := range effectiveCalls(pp, Ref{"handshake", "Machine", "completed"}, 2) {
		ci, a := ec.In, ec.Args
		if len(a) < 3 || a[1] == nil || a[2] == nil {
			c.Unknown("C06.key-roles", fmt.Sprintf("ProcessPacket:completed#%d", i), "the keys handed to completed() are computed inside a helper: unrecognised shape")
			continue
		}
		k1, i1 := origin(a[1])
		k2, i2 := origin(a[2])
		cons := fmt.Sprintf("ProcessPacket:completed#%d", i)
		switch {
		case k1 == "read" && k2 == "read":
			nRead++
			c.Check(i1 == 1 && i2 == 2, "C06.key-roles", cons+":read-path", c.instrPos(ci), "EKey=ReadMessage#1, DKey=ReadMessage#2", fmt.Sprintf("read-completion path assigns EKey=ReadMessage#%d DKey=ReadMessage#%d: the two sides' keys no longer pair up", i1, i2))
		case k1 == "write" && k2 == "write":
			nWrite++
			c.Check(i1 == 2 && i2 == 1, "C06.key-roles", cons+":write-path", c.instrPos(ci), "EKey=WriteMessage#2, DKey=WriteMessage#1", fmt.Sprintf("write-completion path assigns EKey=WriteMessage#%d DKey=WriteMessage#%d: it must be the swap of the read path", i1, i2))
		default:
			c.Bad("C06.key-roles", cons, c.instrPos(ci), "cipher states handed to completed() do not come from one Noise read/write split")
		}
	}
	if nRead == 0 || nWrite == 0 {
		c.Unknown("C06.key-roles", "ProcessPacket:paths", fmt.Sprintf("%d read-completion and %d write-completion sites found", nRead, nWrite))
	}
	res := c.NamedType("handshake", "Result")
	if res != nil {
		w := fieldsWrittenBy(comp, res)
		ok := w["EKey"] == ssa.Value(comp.Params[1]) && w["DKey"] == ssa.Value(comp.Params[2])
		c.Check(ok, "C06.key-roles", "completed:stores", c.P.Pos(comp.Pos()), "EKey<-eKey, DKey<-dKey", "completed() stores its key parameters swapped")
		mi := w["MessageIndex"]
		c.Check(mi != nil && derivesFrom(mi, sliceLocal, isCallTo(Ref{noisePkg, "HandshakeState", "MessageIndex"})), "C06.message-index", "completed:MessageIndex", c.P.Pos(comp.Pos()), "hs.MessageIndex()", "Result.MessageIndex is not the Noise message count")
	}
	c06IndexFields(c)
	// reply header carries Result.RemoteIndex
	ri := c.Field("handshake", "Result", "RemoteIndex")
	for _, ci := range callsIn(br, Ref{"header", "", "Encode"}) {
		a := ci.Common().Args
		c.Check(len(a) == 6 && loadsField(a[4], ri), "C06.index-fields", "buildResponse:header-remote-index", c.instrPos(ci), "header.RemoteIndex = Result.RemoteIndex", "the handshake reply header does not carry the stored remote index")
	}
	// non-zero
	if fn := c.Func(Ref{"handshake", "Machine", "processPayload"}); fn != nil && ri != nil {
		var sinks []Sink
		var stored ssa.Value
		eachInstr(fn, func(in ssa.Instruction) {
			if st, ok := in.(*ssa.Store); ok {
				if fa, ok := st.Addr.(*ssa.FieldAddr); ok && fieldOfAddr(fa) == ri {
					sinks = append(sinks, Sink{Instr: st, Desc: "Result.RemoteIndex = x"})
					stored = st.Val
				}
			}
		})
		c.requireGuards("C06.nonzero", fn, sinks, "store-RemoteIndex", gCmp("remoteIndex != 0", func(v ssa.Value) bool { return v == stored }, isIntConst(0), mustDiffer))
	}
	if c.P.SSAPkgs[nebulaMod] != nil {
		if fn := c.Func(Ref{"", "", "generateIndex"}); fn != nil {
			var sinks []Sink
			for _, s := range successReturns(fn, errResultIndex(fn)) {
				sinks = append(sinks, s)
			}
			ok := len(sinks) > 0
			for _, s := range sinks {
				rv := retResult(s.Instr.(*ssa.Return), 0)
				g := gCmp("index != 0", func(v ssa.Value) bool { return v == rv }, isIntConst(0), mustDiffer)
				if pass, _, path := c.mustPass(fn, s, g); !pass {
					ok = false
					c.Bad("C06.nonzero", "generateIndex:return", c.instrPos(s.Instr), "generateIndex can return a zero local index", path...)
				}
			}
			if ok {
				c.OK("C06.nonzero", "generateIndex:return", "returned index tested non-zero")
			}
		}
	}
	c06NonceOrder(c)
}

// c06IndexFields extracts, per role, which Payload field carries which Result index.
func c06IndexFields(c *Ctx) {
	mo := c.Func(Ref{"handshake", "Machine", "marshalOutgoing"})
	ppay := c.Func(Ref{"handshake", "Machine", "processPayload"})
	fInit := c.Field("handshake", "Result", "Initiator")
	fLocal := c.Field("handshake", "Result", "LocalIndex")
	fRemote := c.Field("handshake", "Result", "RemoteIndex")
	pay := c.NamedType("handshake", "Payload")
	if mo == nil || ppay == nil || fInit == nil || fLocal == nil || fRemote == nil || pay == nil {
		return
	}
	isInit := gValBool("Initiator", true, func(v ssa.Value) bool { return loadsField(v, fInit) })
	// writer side
	wInit, wResp := splitEdges(mo, isInit)
	writes := func(starts []*ssa.BasicBlock, other []*ssa.BasicBlock, src *typesVar) []string {
		var out []string
		if len(starts) == 0 {
			return nil
		}
		region := reachable(starts[0], nil)
		var otherRegion map[*ssa.BasicBlock]*ssa.BasicBlock
		if len(other) > 0 {
			otherRegion = reachable(other[0], nil)
		}
		for b := range region {
			if _, both := otherRegion[b]; both {
				continue // join point: not role specific
			}
			for _, in := range b.Instrs {
				if st, ok := in.(*ssa.Store); ok {
					if fa, ok := st.Addr.(*ssa.FieldAddr); ok {
						if n := recvNamed(fa.X.Type()); n != nil && n.Obj() == pay.Obj() && loadsField(st.Val, src) {
							out = append(out, fieldOfAddr(fa).Name())
						}
					}
				}
			}
		}
		return out
	}
	wI := writes(wInit, wResp, fLocal)
	wR := writes(wResp, wInit, fLocal)
	echo := writes(wResp, wInit, fRemote)
	// reader side: phi feeding Result.RemoteIndex with one edge per role
	rI, rR := "", ""
	rInitT, rRespT := splitEdges(ppay, isInit)
	if len(rInitT) == 1 && len(rRespT) == 1 {
		regI, regR := reachable(rInitT[0], nil), reachable(rRespT[0], nil)
		eachInstr(ppay, func(in ssa.Instruction) {
			phi, ok := in.(*ssa.Phi)
			if !ok {
				return
			}
			for k, e := range phi.Edges {
				fname := payloadFieldOf(e, pay)
				if fname == "" {
					continue
				}
				pred := phi.Block().Preds[k]
				_, inI := regI[pred]
				_, inR := regR[pred]
				if pred == rInitT[0] || (inI && !inR) {
					rI = fname
				} else if pred == rRespT[0] || (inR && !inI) {
					rR = fname
				}
			}
		})
	}
	c.Note("index fields: initiator writes %v, responder writes %v and echoes %v; initiator reads %q, responder reads %q", wI, wR, echo, rI, rR)
	one := func(xs []string) string {
		if len(xs) == 1 {
			return xs[0]
		}
		return ""
	}
	pos := c.P.Pos(mo.Pos())
	c.Check(one(wI) != "" && one(wI) == rR, "C06.index-fields", "initiator-local->responder-remote", pos, fmt.Sprintf("field %s", one(wI)), fmt.Sprintf("initiator writes its local index to %v but the responder reads its remote index from %q", wI, rR))
	c.Check(one(wR) != "" && one(wR) == rI, "C06.index-fields", "responder-local->initiator-remote", pos, fmt.Sprintf("field %s", one(wR)), fmt.Sprintf("responder writes its local index to %v but the initiator reads its remote index from %q", wR, rI))
	c.Check(one(echo) != "" && one(echo) == one(wI), "C06.index-fields", "responder-echoes-initiator-index", pos, fmt.Sprintf("echo in %s", one(echo)), fmt.Sprintf("responder echoes the initiator's index in %v, the initiator wrote it in %v", echo, wI))
}

func payloadFieldOf(v ssa.Value, pay *typesNamed) string {
	v = stripValue(v)
	switch x := v.(type) {
	case *ssa.Field:
		if n := recvNamed(x.X.Type()); n != nil && n.Obj() == pay.Obj() {
			return fieldOfVal(x).Name()
		}
	case *ssa.UnOp:
		if fa, ok := x.X.(*ssa.FieldAddr); ok && x.Op == token.MUL {
			if n := recvNamed(fa.X.Type()); n != nil && n.Obj() == pay.Obj() {
				return fieldOfAddr(fa).Name()
			}
		}
	}
	return ""
}

func c06NonceOrder(c *Ctx) {
	if c.P.SSAPkgs[PkgPath("noiseutil")] == nil {
		c.Unknown("C06.nonce-order", "noiseutil", "package not loaded")
		return
	}
	type key struct{ recv string }
	order := map[string]map[string]string{}
	for _, fn := range c.moduleFuncs() {
		if pkgPathOf(fn) != PkgPath("noiseutil") || fn.Signature.Recv() == nil || (fn.Name() != "EncryptDanger" && fn.Name() != "DecryptDanger") {
			continue
		}
		rn := recvNamed(fn.Signature.Recv().Type())
		if rn == nil {
			continue
		}
		desc := ""
		eachInstr(fn, func(in ssa.Instruction) {
			if call, ok := in.(*ssa.Call); ok {
				if e, name := endianOf(calleeObj(call)); e != "" {
					off := ""
					if s, isS := callArgs(call)[1].(*ssa.Slice); isS && s.Low != nil {
						off = exprString(s.Low)
					}
					desc += e + ":" + name + "@" + off + ";"
				}
			}
		})
		if order[rn.Obj().Name()] == nil {
			order[rn.Obj().Name()] = map[string]string{}
		}
		order[rn.Obj().Name()][fn.Name()] = desc
	}
	for recv, m := range order {
		e, d := m["EncryptDanger"], m["DecryptDanger"]
		if e == "" || d == "" {
			continue
		}
		c.Check(e == d, "C06.nonce-order", recv, "noiseutil", "encrypt and decrypt build the nonce identically ("+e+")", fmt.Sprintf("%s builds the nonce as %q when encrypting but %q when decrypting: its own peer cannot decrypt", recv, e, d))
	}
}
