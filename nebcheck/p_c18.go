package main

import (
	"fmt"
	"go/token"
	"go/types"
	"sort"
	"strings"

	"golang.org/x/tools/go/ssa"
)

var conntrackLock = lockKey("FirewallConntrack.Mutex")

func init() {
	register(&Property{
		ID: "C18", Title: "Tracked flows are per-tuple and expire when idle",
		Patterns:    []string{"."},
		Technique:   "CFG guard reachability on Drop / inConns / addConn / evict (verdict, honour-only-when-tracked, honour-only-when-not-idle, arm-or-remove), who-may-write/call tables for the flow table and the routine cache, provenance of every map key, protocol->timeout table agreement under decided protocol branches, lock-held dataflow for the conntrack mutex, cache reset in the ticker",
		LevelText:   "Structural necessary conditions on all paths: Drop accepts only across the success edge of inConns or of the rule match; flows enter the table only through addConn, called only from Drop after the rule match of the same packet and direction; inConns answers true only after finding the packet in the routine cache or in the flow table, and (flow table) only after testing that the flow's Expires instant is still ahead; every key used on the flow table, the cache and the timer wheel is the function's unmodified packet parameter and the key type is the whole firewall.Packet; a new flow always gets a wheel timer, evict removes a flow unless it is still within its timeout in which case it re-arms the timer, inConns purges and evicts before it looks up; the Expires refresh and the wheel timeout use the timeout field of the packet's protocol (TCP/UDP/default) at every site; every access to the flow table and the wheel holds the conntrack mutex; the routine cache is replaced when its tick moved and the ticker is started.",
		LevelNote:   "Not decided: the numeric accuracy of the timer wheel (slot rounding, C33) and hence the exact instant an unvisited flow leaves the table; how long the routine-local cache (firewall.conntrack.routine_cache_timeout) keeps honouring a flow after it expired or was forgotten (bounded by one tick by C18.cache-reset, not by the protocol timeout); behaviour over concrete histories; orientation of the packet tuple (C20).",
		Explanation: "K1 on Drop/inConns/addConn/evict, K2 tables for Conns/ConntrackCache/addConn, K11 key provenance, K7 timeout table under decided protocol class, K3 conntrack mutex, K1 on ConntrackCacheTicker.Get",
		Run:         runC18,
		Canaries: func(c *Ctx) []Canary {
			return []Canary{
				{Name: "new-flow-without-timer", File: "firewall.go", Old: "\t\tconntrack.TimerWheel.Advance(time.Now())\n\t\tconntrack.TimerWheel.Add(fp, timeout)\n", New: "\t\tconntrack.TimerWheel.Advance(time.Now())\n", Rule: "C18.timer"},
				{Name: "evict-outside-mutex", File: "firewall.go", Old: "\tconntrack := f.Conntrack\n\tconntrack.Lock()\n\n\t// Purge every time we test\n\tep, has := conntrack.TimerWheel.Purge()\n\tif has {\n\t\tf.evict(ep)\n\t}\n", New: "\tconntrack := f.Conntrack\n\n\t// Purge every time we test\n\tep, has := conntrack.TimerWheel.Purge()\n\tif has {\n\t\tf.evict(ep)\n\t}\n\tconntrack.Lock()\n", Rule: "C18.locks"},
				{Name: "evict-rearms-expired-flows", File: "firewall.go", Old: "\tif newT > 0 {\n\t\tconntrack.TimerWheel.Advance(time.Now())", New: "\tif newT < 0 {\n\t\tconntrack.TimerWheel.Advance(time.Now())", Rule: "C18.expiry"},
				{Name: "evict-forgets-to-rearm", File: "firewall.go", Old: "\t\tconntrack.TimerWheel.Advance(time.Now())\n\t\tconntrack.TimerWheel.Add(p, newT)\n\t\treturn", New: "\t\tconntrack.TimerWheel.Advance(time.Now())\n\t\treturn", Rule: "C18.timer"},
				{Name: "udp-refreshed-with-tcp-timeout", File: "firewall.go", Old: "\tcase firewall.ProtoUDP:\n\t\tc.Expires = time.Now().Add(f.UDPTimeout)", New: "\tcase firewall.ProtoUDP:\n\t\tc.Expires = time.Now().Add(f.TCPTimeout)", Rule: "C18.timeouts"},
				{Name: "wheel-timer-always-default", File: "firewall.go", Old: "\t\tconntrack.TimerWheel.Add(fp, timeout)", New: "\t\tconntrack.TimerWheel.Add(fp, f.DefaultTimeout)", Rule: "C18.timeouts"},
				{Name: "lookup-ignores-remote-port", File: "firewall.go", Old: "\tc, ok := conntrack.Conns[fp]\n\n\tif !ok {", New: "\tkey := fp\n\tkey.RemotePort = 0\n\tc, ok := conntrack.Conns[key]\n\n\tif !ok {", Rule: "C18.key"},
				{Name: "track-before-rule-match", File: "firewall.go", Old: "\t// We now know which firewall table to check against\n\tif !table.match(fp, incoming, h.ConnectionState.peerCert, caPool) {\n\t\tf.metrics(incoming).droppedNoRule.Inc(1)", New: "\tf.addConn(fp, incoming)\n\t// We now know which firewall table to check against\n\tif !table.match(fp, incoming, h.ConnectionState.peerCert, caPool) {\n\t\tf.metrics(incoming).droppedNoRule.Inc(1)", Rule: "C18.track-allowed"},
				{Name: "lookup-before-purge", File: "firewall.go", Old: "\tep, has := conntrack.TimerWheel.Purge()\n\tif has {\n\t\tf.evict(ep)\n\t}\n\n\tc, ok := conntrack.Conns[fp]\n", New: "\tc, ok := conntrack.Conns[fp]\n\n\tep, has := conntrack.TimerWheel.Purge()\n\tif has {\n\t\tf.evict(ep)\n\t}\n", Rule: "C18.purge"},
				{Name: "flow-inserted-from-stats", File: "firewall.go", Old: "\tconntrackCount := len(conntrack.Conns)\n", New: "\tconntrackCount := len(conntrack.Conns)\n\tconntrack.Conns[firewall.Packet{}] = &conn{}\n", Rule: "C18.track-allowed"},
				{Name: "cache-never-reset", File: "firewall/cache.go", Old: "\t\t\tc.cache = make(ConntrackCache, ll)\n", New: "", Rule: "C18.cache-reset"},
				{Name: "fragments-accepted-without-verdict", File: "firewall.go", Old: "\tif f.inConns(fp, h, caPool, localCache) {\n\t\treturn nil\n\t}", New: "\tif f.inConns(fp, h, caPool, localCache) || fp.Fragment {\n\t\treturn nil\n\t}", Rule: "C18.verdict"},
				{Name: "idle-flow-honoured", File: "firewall.go", Old: "\tif !c.Expires.After(time.Now()) {\n", New: "\tif false && !c.Expires.After(time.Now()) {\n", Rule: "C18.expiry"},
				{Name: "untracked-icmp-honoured", File: "firewall.go", Old: "\tif !ok {\n\t\tconntrack.Unlock()\n\t\treturn false\n\t}\n\n\tif !c.Expires.After(time.Now()) {", New: "\tif !ok {\n\t\tconntrack.Unlock()\n\t\treturn fp.Protocol == firewall.ProtoICMP\n\t}\n\n\tif !c.Expires.After(time.Now()) {", Rule: "C18.honour"},
			}
		},
	})
}

// c18Anchors resolves what C18 and C19 share.
type c18Anchors struct {
	drop, inConns, addConn, evict *ssa.Function
	fConns, fWheel, fExpires      *types.Var
	packet, cache                 *types.Named
	match, wheelAdd, wheelPurge   Ref
	ok                            bool
}

func c18Resolve(c *Ctx) *c18Anchors {
	a := &c18Anchors{
		drop: c.Func(Ref{"", "Firewall", "Drop"}), inConns: c.Func(Ref{"", "Firewall", "inConns"}),
		addConn: c.Func(Ref{"", "Firewall", "addConn"}), evict: c.Func(Ref{"", "Firewall", "evict"}),
		fConns: c.Field("", "FirewallConntrack", "Conns"), fWheel: c.Field("", "FirewallConntrack", "TimerWheel"),
		fExpires: c.Field("", "conn", "Expires"),
		packet:   c.NamedType("firewall", "Packet"), cache: c.NamedType("firewall", "ConntrackCache"),
		match: Ref{"", "FirewallTable", "match"}, wheelAdd: Ref{"", "TimerWheel", "Add"}, wheelPurge: Ref{"", "TimerWheel", "Purge"},
	}
	if c.Func(a.match) == nil {
		return a
	}
	// TimerWheel is generic: its methods have no SSA body of their own, resolve them as objects
	if tw := c.NamedType("", "TimerWheel"); tw == nil || !g2HasMethod(c, tw, "Add") || !g2HasMethod(c, tw, "Purge") {
		return a
	}
	a.ok = a.drop != nil && a.inConns != nil && a.addConn != nil && a.evict != nil && a.fConns != nil && a.fWheel != nil && a.fExpires != nil && a.packet != nil && a.cache != nil
	return a
}

// paramOfType returns the single parameter of fn (receiver excluded) of type t; nil when there is
// none or more than one.
func (a *c18Anchors) paramOfType(c *Ctx, fn *ssa.Function, t types.Type, what string) *ssa.Parameter {
	var out *ssa.Parameter
	n := 0
	for i, p := range fn.Params {
		if i == 0 && fn.Signature.Recv() != nil {
			continue
		}
		if types.Identical(p.Type(), t) {
			out = p
			n++
		}
	}
	if n != 1 {
		c.Unknown("anchor", fnName(fn)+":"+what, fmt.Sprintf("%d parameters of type %s: cannot tell which one is the %s", n, t, what))
		return nil
	}
	return out
}

func (a *c18Anchors) isConns(v ssa.Value) bool { return loadsField(v, a.fConns) }
func (a *c18Anchors) isCache(v ssa.Value) bool { return types.Identical(v.Type(), a.cache) }
func (a *c18Anchors) isWheel(v ssa.Value) bool { return loadsField(v, a.fWheel) }

// wheelCall: in is a call of the given TimerWheel method on the conntrack wheel.
func (a *c18Anchors) wheelCall(in ssa.Instruction, r Ref) (ssa.CallInstruction, bool) {
	ci, ok := in.(ssa.CallInstruction)
	if !ok || !matchFunc(calleeObj(ci), r) || !a.isWheel(callArgs(ci)[0]) {
		return nil, false
	}
	return ci, true
}

func runC18(c *Ctx) {
	c.Rule("C18.verdict", "K1: Drop returns nil only across the success edge of inConns(fp) or of table.match(fp, incoming)", 1)
	c.Rule("C18.track-allowed", "K1/K2: addConn is called only from Drop, for Drop's own packet and direction, after table.match of the same packet and direction succeeded; the flow table is inserted into only by addConn and deleted from only by inConns/evict; the routine cache is inserted into only by inConns", 5)
	c.Rule("C18.honour", "K1: inConns returns true, and records the flow in the routine cache, only after finding the packet in the cache or in the flow table", 2)
	c.Rule("C18.key", "K11: flow table and routine cache are keyed by the whole firewall.Packet; every lookup/insert/delete key and every wheel item is the function's unmodified packet parameter; Drop hands its own packet to inConns, match and addConn", 16)
	c.Rule("C18.timer", "K1: addConn arms a wheel timer whenever it inserts a key that was not present; every return of evict has removed the flow or re-armed its timer (or the flow was not tracked)", 2)
	c.Rule("C18.purge", "K1: inConns calls Purge and evicts the purged flow before it looks the packet up", 3)
	c.Rule("C18.expiry", "K1: inConns honours a flow from the flow table only after testing that its Expires instant is still ahead; evict keeps a flow only on that same test", 2)
	c.Rule("C18.timeouts", "K7: under each protocol class (TCP, UDP, every other) the Expires refresh in inConns, the Expires of a new flow and its wheel timeout all derive from that protocol's timeout field and nothing else", 9)
	c.Rule("C18.locks", "K3: every access to FirewallConntrack.Conns / TimerWheel, every call of a wheel method and every call of evict holds the conntrack mutex", 11)
	c.Rule("C18.cache-reset", "K1: ConntrackCacheTicker.Get hands out the old cache only if the tick did not move or the cache is empty, otherwise a fresh map; the tick is advanced by the goroutine the constructor starts", 3)

	a := c18Resolve(c)
	if !a.ok {
		return
	}
	boolT := types.Typ[types.Bool]
	dropFP, dropIn := a.paramOfType(c, a.drop, a.packet, "packet"), a.paramOfType(c, a.drop, boolT, "direction")
	inFP := a.paramOfType(c, a.inConns, a.packet, "packet")
	addFP := a.paramOfType(c, a.addConn, a.packet, "packet")
	evFP := a.paramOfType(c, a.evict, a.packet, "packet")
	if dropFP == nil || dropIn == nil || inFP == nil || addFP == nil || evFP == nil {
		return
	}
	isDropFP := func(v ssa.Value) bool { return g2ParamValue(v, dropFP) == 1 }
	isDropIn := func(v ssa.Value) bool { return stripValue(v) == ssa.Value(dropIn) }
	inConnsRef, addConnRef := Ref{"", "Firewall", "inConns"}, Ref{"", "Firewall", "addConn"}

	// ---- verdict
	tracked := gBool("inConns(fp) == true", true, -1, callTo(inConnsRef).withArg(1, isDropFP))
	allowed := gBool("table.match(fp, incoming) == true", true, -1, callTo(a.match).withArg(1, isDropFP).withArg(2, isDropIn))
	c.g2RequireFrom("C18.verdict", "Drop:accept<-tracked-or-allowed", a.drop, nil, successReturns(a.drop, errResultIndex(a.drop)), g2Lift(a.drop, "flow tracked or rule matched", tracked, allowed),
		"a packet is accepted although it neither belongs to a tracked flow nor matched a rule")

	// ---- track-allowed
	c.g2RequireFrom("C18.track-allowed", "Drop:addConn<-allowed", a.drop, nil, callSinks(a.drop, "addConn", callTo(addConnRef)), g2Lift(a.drop, "table.match(fp, incoming) == true", allowed),
		"a flow is recorded for a packet no rule allowed: the reverse direction and later packets of that tuple are then honoured")
	for i, ci := range callsIn(a.drop, addConnRef) {
		args := callArgs(ci)
		c.Check(isDropFP(args[1]) && isDropIn(args[2]), "C18.track-allowed", fmt.Sprintf("Drop:addConn#%d:args", i), c.instrPos(ci), "tracks Drop's own packet and direction",
			"the flow recorded is not the packet/direction the rule match allowed: args ("+exprString(args[1])+", "+exprString(args[2])+")")
	}
	funcs := c.moduleFuncs()
	nCallers := 0
	for _, s := range callersOf(funcs, addConnRef) {
		if c.isTestHelperFile(s.Instr) {
			continue
		}
		nCallers++
		n := fnName(topFunc(s.Fn))
		// Drop: the only place where a rule verdict for the packet exists
		c.Check(n == "(*nebula.Firewall).Drop", "C18.track-allowed", "addConn<-"+n, c.instrPos(s.Instr), "only the verdict function tracks flows", "a flow is tracked from outside Drop: no rule allowed that packet")
	}
	if nCallers == 0 {
		c.Unknown("C18.track-allowed", "addConn<-", "no caller of addConn found")
	}
	connsTable := map[string]string{ // function -> the only kind of write it may perform
		"(*nebula.Firewall).addConn": "map-update", // records a flow the rules just allowed
		"(*nebula.Firewall).inConns": "map-delete", // forgets a flow (revalidation / expiry)
		"(*nebula.Firewall).evict":   "map-delete", // expiry
		"nebula.NewFirewall":         "store",      // constructor: the empty table
	}
	bad := 0
	ws := fieldWriters(funcs, a.fConns)
	for _, w := range ws {
		if c.isTestHelperFile(w.Instr) || w.Kind == "addr-escape" {
			continue
		}
		n := fnName(topFunc(w.Fn))
		if connsTable[n] != w.Kind {
			bad++
			c.Bad("C18.track-allowed", "Conns<-"+n+":"+w.Kind, c.instrPos(w.Instr), w.Kind+" on the flow table outside the tabled functions: flows appear or disappear without a rule verdict / expiry")
		}
	}
	if bad == 0 {
		c.Check(len(ws) >= 4, "C18.track-allowed", "Conns:writers", c.P.Pos(a.addConn.Pos()), fmt.Sprintf("%d write sites, all tabled", len(ws)), "flow table writers not found")
	}
	nCacheW := 0
	for _, fn := range funcs {
		for _, op := range g2MapOps(fn, a.isCache) {
			if op.Kind == "lookup" || c.isTestHelperFile(op.In) {
				continue
			}
			nCacheW++
			n := fnName(topFunc(fn))
			// inConns: records a flow it has just found (and validated) in the flow table
			c.Check(n == "(*nebula.Firewall).inConns" && op.Kind == "update", "C18.track-allowed", "ConntrackCache<-"+n+":"+op.Kind, c.instrPos(op.In), "only inConns fills the routine cache", "the routine cache is written outside inConns: a flow would be honoured without ever having been tracked")
		}
	}
	if nCacheW == 0 {
		c.Unknown("C18.track-allowed", "ConntrackCache<-", "no insert into the routine cache found")
	}

	// ---- honour
	connsHit := g2FoundGuard("packet found in the flow table", a.isConns)
	cacheHit := g2FoundGuard("packet found in the routine cache", a.isCache)
	c.g2RequireRet("C18.honour", "inConns:return-true<-found", a.inConns, nil, 0, true, g2Lift(a.inConns, "packet found in the routine cache or the flow table", connsHit, cacheHit),
		"inConns reports a flow as tracked that is in neither the routine cache nor the flow table")
	var cacheIns []Sink
	for _, op := range g2MapOps(a.inConns, a.isCache) {
		if op.Kind == "update" {
			cacheIns = append(cacheIns, Sink{Instr: op.In, Desc: "localCache[fp] = {}"})
		}
	}
	c.g2RequireFrom("C18.honour", "inConns:cache-insert<-found", a.inConns, nil, cacheIns, g2Lift(a.inConns, "packet found in the flow table", connsHit),
		"a packet is put into the routine cache without having been found in the flow table")

	// ---- key
	c18Keys(c, a, map[*ssa.Function]*ssa.Parameter{a.inConns: inFP, a.addConn: addFP, a.evict: evFP})
	for _, r := range []Ref{inConnsRef, a.match, addConnRef} {
		for i, ci := range callsIn(a.drop, r) {
			c.Check(isDropFP(callArgs(ci)[1]), "C18.key", fmt.Sprintf("Drop:%s#%d:packet", r.Name, i), c.instrPos(ci), "Drop's own packet", "Drop passes a packet other than its own (unmodified) parameter: the flow looked up / matched / tracked is not the one being judged")
		}
	}

	// ---- timer
	c18Timer(c, a, addFP, evFP)
	// ---- purge
	c18Purge(c, a)
	// ---- expiry
	isExp := func(v ssa.Value) bool {
		return derivesFrom(v, sliceLocal, func(x ssa.Value) bool { return loadsField(x, a.fExpires) })
	}
	fromLookup := func(v ssa.Value) bool {
		return derivesFrom(v, sliceLocal, func(x ssa.Value) bool { lk, ok := x.(*ssa.Lookup); return ok && a.isConns(lk.X) })
	}
	notIdleName := "conn.Expires is later than now"
	// the same test made by a helper that is handed the flow found in the table, or its Expires
	notIdle := gAny(notIdleName, g2LaterGuard(notIdleName, isExp), g2SummaryGuard(notIdleName, func(call *ssa.Call, callee *ssa.Function) (Guard, bool) {
		instants, flow := map[*ssa.Parameter]bool{}, false
		for i, arg := range call.Call.Args {
			if i >= len(callee.Params) {
				break
			}
			switch {
			case types.Identical(arg.Type(), a.fExpires.Type()) && isExp(arg):
				instants[callee.Params[i]] = true
			case fromLookup(arg):
				flow = true
			}
		}
		if !flow && len(instants) == 0 {
			return Guard{}, false
		}
		return g2LaterGuard(notIdleName, func(v ssa.Value) bool {
			return derivesFrom(v, sliceLocal, func(x ssa.Value) bool {
				if p, ok := x.(*ssa.Parameter); ok && instants[p] {
					return true
				}
				return flow && loadsField(x, a.fExpires)
			})
		}), true
	}))
	{
		var starts []*ssa.BasicBlock
		for _, op := range g2MapOps(a.inConns, a.isConns) {
			if op.Kind == "lookup" {
				starts = append(starts, op.In.Block())
			}
		}
		cons := "inConns:honour<-not-idle"
		if _, n := passEdges(a.inConns, notIdle); n == 0 && c18UsesExpiresInTest(a.inConns, a.fExpires) {
			c.Unknown("C18.expiry", cons, "inConns branches on a value derived from conn.Expires in a form the rule does not recognise (After/Before/Sub/Compare/Until/Since against zero)")
		} else {
			c.g2RequireRet("C18.expiry", cons, a.inConns, starts, 0, true, notIdle,
				"a flow found in the table is honoured (and its Expires pushed forward) without comparing its Expires instant with the clock; only an unrelated new flow advances the wheel, so on a quiet node a flow idle for longer than its protocol timeout is still honoured")
		}
	}
	{
		found := g2FoundGuard("flow still tracked", a.isConns)
		excused := g2Union(g2FailEdges(a.evict, found), func() map[Edge]bool { e, _ := passEdges(a.evict, notIdle); return e }())
		isDel := func(in ssa.Instruction) bool {
			for _, op := range g2MapOps(a.evict, a.isConns) {
				if op.In == in && op.Kind == "delete" {
					return true
				}
			}
			return false
		}
		ok := true
		for _, r := range g2Returns(a.evict) {
			if held, path := c.g2MustPassInstr(a.evict, nil, r, isDel, excused); !held {
				ok = false
				c.Bad("C18.expiry", "evict:keeps-only-unexpired", c.instrPos(r), "evict can return without deleting a flow whose Expires instant has passed (no test `Expires later than now` on this path): the flow stays honoured after its timeout", path...)
				break
			}
		}
		if ok {
			c.OK("C18.expiry", "evict:keeps-only-unexpired", "every return deleted the flow, or it was not tracked, or its Expires is still ahead")
		}
	}
	// ---- timeouts
	c18Timeouts(c, a, inFP, addFP)
	// ---- locks
	(&LockDiscipline{
		Rule: "C18.locks", Owner: "FirewallConntrack", OwnerPkg: "", Key: conntrackLock,
		Fields: []string{"Conns", "TimerWheel"},
		// evict: "Caller must own the connMutex lock!" (contract comment); it deletes, so write mode
		Extra: map[string]int{"(*nebula.Firewall).evict": lkW},
		// NewFirewall: builds the table before the firewall is published
		Exempt: map[string]string{"nebula.NewFirewall": "constructor"},
	}).run(c)
	c.g2CallsUnderLock("C18.locks", conntrackLock, func(ci ssa.CallInstruction) (string, bool) {
		o := calleeObj(ci)
		if o == nil || len(callArgs(ci)) == 0 || !a.isWheel(callArgs(ci)[0]) {
			return "", false
		}
		return "TimerWheel." + o.Name(), true
	}, map[string]int{"(*nebula.Firewall).evict": lkW})
	// ---- cache reset
	c18CacheReset(c)
}

// c18UsesExpiresInTest: some If of fn depends (through calls) on a load of conn.Expires.
func c18UsesExpiresInTest(fn *ssa.Function, fExp *types.Var) bool {
	found := false
	for _, b := range fn.Blocks {
		if ifi, ok := b.Instrs[len(b.Instrs)-1].(*ssa.If); ok {
			if derivesFrom(ifi.Cond, sliceThrough, func(x ssa.Value) bool { return loadsField(x, fExp) }) {
				found = true
			}
		}
	}
	return found
}

// c18Keys: type-level and value-level "per tuple".
func c18Keys(c *Ctx, a *c18Anchors, fps map[*ssa.Function]*ssa.Parameter) {
	mk, _ := a.fConns.Type().Underlying().(*types.Map)
	c.Check(mk != nil && types.Identical(mk.Key(), a.packet), "C18.key", "type:FirewallConntrack.Conns", c.P.Pos(a.fConns.Pos()), "map[firewall.Packet]", "the flow table is no longer keyed by the whole firewall.Packet")
	ck, _ := a.cache.Underlying().(*types.Map)
	c.Check(ck != nil && types.Identical(ck.Key(), a.packet), "C18.key", "type:firewall.ConntrackCache", c.P.Pos(a.cache.Obj().Pos()), "map[firewall.Packet]", "the routine cache is no longer keyed by the whole firewall.Packet")
	tuple := true
	for _, f := range []string{"LocalAddr", "RemoteAddr", "LocalPort", "RemotePort", "Protocol"} {
		tuple = c.Field("firewall", "Packet", f) != nil && tuple
	}
	c.Check(tuple && types.Comparable(a.packet), "C18.key", "type:firewall.Packet", c.P.Pos(a.packet.Obj().Pos()), "addresses, ports and protocol are fields of the comparable key", "firewall.Packet lost a tuple component")
	var fns []*ssa.Function
	for fn := range fps {
		fns = append(fns, fn)
	}
	sort.Slice(fns, func(i, j int) bool { return fns[i].Name() < fns[j].Name() })
	for _, fn := range fns {
		p := fps[fn]
		check := func(cons string, in ssa.Instruction, key ssa.Value) {
			switch g2ParamValue(key, p) {
			case 1:
				c.OK("C18.key", cons, "key is the packet parameter")
			case -1:
				c.Unknown("C18.key", cons, "the packet parameter's local copy escapes: cannot tell whether the key is still the whole tuple")
			default:
				c.Bad("C18.key", cons, c.instrPos(in), "the key "+exprString(key)+" is not the function's unmodified packet parameter: flows with different tuples share an entry, or the entry found is not this packet's flow")
			}
		}
		seen := map[string]int{}
		for _, set := range []struct {
			name string
			is   func(ssa.Value) bool
		}{{"Conns", a.isConns}, {"cache", a.isCache}} {
			for _, op := range g2MapOps(fn, set.is) {
				k := set.name + "." + op.Kind
				check(fmt.Sprintf("%s:%s#%d", fn.Name(), k, seen[k]), op.In, op.Key)
				seen[k]++
			}
		}
		n := 0
		eachInstr(fn, func(in ssa.Instruction) {
			if ci, ok := a.wheelCall(in, a.wheelAdd); ok {
				check(fmt.Sprintf("%s:TimerWheel.Add#%d:item", fn.Name(), n), in, callArgs(ci)[1])
				n++
			}
		})
	}
}

func c18Timer(c *Ctx, a *c18Anchors, addFP, evFP *ssa.Parameter) {
	arms := func(fn *ssa.Function, p *ssa.Parameter) func(ssa.Instruction) bool {
		return func(in ssa.Instruction) bool {
			ci, ok := a.wheelCall(in, a.wheelAdd)
			return ok && g2ParamValue(callArgs(ci)[1], p) == 1
		}
	}
	// addConn
	found := g2FoundGuard("key already tracked", a.isConns)
	excused, _ := passEdges(a.addConn, found)
	n := 0
	for _, op := range g2MapOps(a.addConn, a.isConns) {
		if op.Kind != "update" {
			continue
		}
		cons := fmt.Sprintf("addConn:insert#%d:armed", n)
		n++
		before, path := c.g2MustPassInstr(a.addConn, nil, op.In, arms(a.addConn, addFP), excused)
		if before {
			c.OK("C18.timer", cons, "a timer was armed before the insert, or the key was already tracked")
			continue
		}
		// not armed before the insert: it must be armed on every way out after it
		after := true
		for _, r := range g2Returns(a.addConn) {
			if held, p2 := c.g2MustPassInstr(a.addConn, op.In, r, arms(a.addConn, addFP), excused); !held {
				after = false
				path = append(path, p2...)
			}
		}
		c.Check(after, "C18.timer", cons, c.instrPos(op.In), "a timer is armed after the insert on every path", "a flow can be inserted under a new key without a wheel timer (TimerWheel.Add(fp, ...)): nothing ever evicts it, it is honoured for ever; path "+strings.Join(path, "->"))
	}
	if n == 0 {
		c.Unknown("C18.timer", "addConn:insert", "insert into the flow table not found in addConn")
	}
	// evict
	notFound := g2FailEdges(a.evict, g2FoundGuard("flow still tracked", a.isConns))
	done := func(in ssa.Instruction) bool {
		if arms(a.evict, evFP)(in) {
			return true
		}
		for _, op := range g2MapOps(a.evict, a.isConns) {
			if op.In == in && op.Kind == "delete" {
				return true
			}
		}
		return false
	}
	rets := g2Returns(a.evict)
	okAll := len(rets) > 0
	for _, r := range rets {
		if held, path := c.g2MustPassInstr(a.evict, nil, r, done, notFound); !held {
			okAll = false
			c.Bad("C18.timer", "evict:removed-or-rearmed", c.instrPos(r), "evict can return with the flow still in the table and no timer re-armed for it: it is never looked at again and is honoured for ever", path...)
			break
		}
	}
	if okAll {
		c.OK("C18.timer", "evict:removed-or-rearmed", fmt.Sprintf("%d return(s): flow removed, timer re-armed, or flow not tracked", len(rets)))
	}
}

func c18Purge(c *Ctx, a *c18Anchors) {
	fn := a.inConns
	isPurge := func(in ssa.Instruction) bool { _, ok := a.wheelCall(in, a.wheelPurge); return ok }
	evictRef := Ref{"", "Firewall", "evict"}
	var lookups []g2MapOp
	for _, op := range g2MapOps(fn, a.isConns) {
		if op.Kind == "lookup" {
			lookups = append(lookups, op)
		}
	}
	if len(lookups) == 0 {
		c.Unknown("C18.purge", "inConns:lookup", "flow table lookup not found in inConns")
		return
	}
	for i, lk := range lookups {
		held, path := c.g2MustPassInstr(fn, nil, lk.In, isPurge, nil)
		if held {
			c.OK("C18.purge", fmt.Sprintf("inConns:lookup#%d<-Purge", i), "Purge precedes the lookup on every path")
		} else {
			c.Bad("C18.purge", fmt.Sprintf("inConns:lookup#%d<-Purge", i), c.instrPos(lk.In), "the flow table is consulted before expired flows were purged (inConns is the only caller of Purge): an expired flow is honoured once more, and refreshed", path...)
		}
	}
	// the purged item is evicted before the lookup
	has := gBool("Purge returned an expired flow", true, 1, CallSpec{Refs: []Ref{a.wheelPurge}, Args: map[int]func(ssa.Value) bool{0: a.isWheel}})
	arm, _ := splitEdges(fn, has)
	if len(arm) == 0 {
		c.Bad("C18.purge", "inConns:purged->evict", c.P.Pos(fn.Pos()), "the result of Purge is not tested: purged flows are dropped from the wheel but stay in the table")
	} else {
		isEvictOfPurged := func(in ssa.Instruction) bool {
			ci, ok := in.(ssa.CallInstruction)
			if !ok || !matchFunc(calleeObj(ci), evictRef) {
				return false
			}
			ex, isEx := stripValue(callArgs(ci)[1]).(*ssa.Extract)
			if !isEx || ex.Index != 0 {
				return false
			}
			call, isCall := ex.Tuple.(*ssa.Call)
			return isCall && isPurge(call)
		}
		ok := true
		for _, st := range arm {
			for _, lk := range lookups {
				if _, avoids := c.g2PathAvoiding(fn, st, lk.In, isEvictOfPurged); avoids {
					ok = false
				}
			}
		}
		c.Check(ok, "C18.purge", "inConns:purged->evict", c.instrPos(lookups[0].In), "evict(purged) precedes the lookup", "a purged flow is not handed to evict before the lookup: it has left the wheel but stays in the table, honoured for ever")
	}
	callers := 0
	for _, s := range callersOf(c.moduleFuncs(), evictRef) {
		if !c.isTestHelperFile(s.Instr) {
			callers++
		}
	}
	c.Check(callers >= 1, "C18.purge", "evict:called", c.P.Pos(a.evict.Pos()), fmt.Sprintf("%d call site(s)", callers), "evict has no caller: nothing expires")
}

// c18Timeouts: K7, protocol -> timeout field at each site, with the protocol branches decided.
func c18Timeouts(c *Ctx, a *c18Anchors, inFP, addFP *ssa.Parameter) {
	fProto := c.Field("firewall", "Packet", "Protocol")
	tcp, _ := constantInt64(c.ConstVal("firewall", "ProtoTCP"))
	udp, _ := constantInt64(c.ConstVal("firewall", "ProtoUDP"))
	fields := map[*types.Var]string{}
	for _, n := range []string{"TCPTimeout", "UDPTimeout", "DefaultTimeout"} {
		if f := c.Field("", "Firewall", n); f != nil {
			fields[f] = n
		}
	}
	if fProto == nil || len(fields) != 3 || tcp == 0 || udp == 0 {
		return
	}
	expect := func(cl g2Sel) string {
		switch {
		case cl.Const && cl.Val == tcp:
			return "TCPTimeout"
		case cl.Const && cl.Val == udp:
			return "UDPTimeout"
		}
		return "DefaultTimeout" // every other protocol, named in the code or not
	}
	className := func(cl g2Sel) string {
		switch {
		case cl.Const && cl.Val == tcp:
			return "TCP"
		case cl.Const && cl.Val == udp:
			return "UDP"
		case cl.Const:
			return fmt.Sprintf("proto-%d", cl.Val)
		}
		return "other"
	}
	src := func(v ssa.Value) (string, bool) {
		if u, ok := v.(*ssa.UnOp); ok && u.Op == token.MUL {
			if fa, ok := u.X.(*ssa.FieldAddr); ok {
				if n, ok := fields[fieldOfAddr(fa)]; ok {
					return n, true
				}
			}
		}
		return "", false
	}
	// bind: inside a helper that receives the packet or its protocol, the selector is that
	// parameter (or the Protocol field of that packet parameter)
	bind := func(call *ssa.Call, callee *ssa.Function, isSel func(ssa.Value) bool) func(ssa.Value) bool {
		selParams, pktParams := map[*ssa.Parameter]bool{}, map[*ssa.Parameter]bool{}
		for i, arg := range call.Call.Args {
			if i >= len(callee.Params) {
				break
			}
			if isSel(arg) {
				selParams[callee.Params[i]] = true
			} else if types.Identical(arg.Type(), a.packet) {
				pktParams[callee.Params[i]] = true
			}
		}
		if len(selParams)+len(pktParams) == 0 {
			return nil
		}
		return func(x ssa.Value) bool {
			if p, ok := stripValue(x).(*ssa.Parameter); ok && selParams[p] {
				return true
			}
			for p := range pktParams {
				if g2FieldOfParam(x, fProto, p) {
					return true
				}
			}
			return false
		}
	}
	timeoutOf := func(fn *ssa.Function, isSel func(ssa.Value) bool, cl g2Sel, v ssa.Value, depth int) map[string]bool {
		return g2SourcesUnder(fn, isSel, cl, v, src, bind, depth)
	}
	type site struct {
		fn   *ssa.Function
		p    *ssa.Parameter
		name string
		vals func() []ssa.Value // the duration values at this kind of site, with their instruction
		at   map[ssa.Value]ssa.Instruction
	}
	// `time.Now().Add(d)`: returns d
	nowPlus := func(v ssa.Value) (ssa.Value, bool) {
		call, _ := callOf(v)
		if call == nil || !matchFunc(calleeObj(call), Ref{"time", "Time", "Add"}) {
			return nil, false
		}
		recv, _ := callOf(callArgs(call)[0])
		if recv == nil || !matchFunc(calleeObj(recv), Ref{"time", "", "Now"}) {
			return nil, false
		}
		return callArgs(call)[1], true
	}
	expiresStores := func(fn *ssa.Function, name string, p *ssa.Parameter) site {
		s := site{fn: fn, p: p, name: name, at: map[ssa.Value]ssa.Instruction{}}
		s.vals = func() []ssa.Value {
			var out []ssa.Value
			eachInstr(fn, func(in ssa.Instruction) {
				st, ok := in.(*ssa.Store)
				if !ok {
					return
				}
				if fa, ok := st.Addr.(*ssa.FieldAddr); !ok || fieldOfAddr(fa) != a.fExpires {
					return
				}
				d, ok := nowPlus(st.Val)
				if !ok {
					c.Unknown("C18.timeouts", fn.Name()+":"+name+":shape", "Expires is set to "+exprString(st.Val)+", not time.Now().Add(<timeout>): cannot relate it to a protocol timeout")
					return
				}
				out = append(out, d)
				s.at[d] = in
			})
			return out
		}
		return s
	}
	wheelArg := site{fn: a.addConn, p: addFP, name: "wheel-timeout", at: map[ssa.Value]ssa.Instruction{}}
	wheelArg.vals = func() []ssa.Value {
		var out []ssa.Value
		eachInstr(a.addConn, func(in ssa.Instruction) {
			if ci, ok := a.wheelCall(in, a.wheelAdd); ok {
				d := callArgs(ci)[2]
				out = append(out, d)
				wheelArg.at[d] = in
			}
		})
		return out
	}
	for _, s := range []site{expiresStores(a.inConns, "refresh", inFP), expiresStores(a.addConn, "new-flow-expires", addFP), wheelArg} {
		s := s
		isSel := func(v ssa.Value) bool { return g2FieldOfParam(v, fProto, s.p) }
		classes := []g2Sel{{Const: true, Val: tcp}, {Const: true, Val: udp}}
		for _, k := range g2SelConsts(s.fn, isSel) {
			if k != tcp && k != udp {
				classes = append(classes, g2Sel{Const: true, Val: k})
			}
		}
		classes = append(classes, g2Sel{})
		vals := s.vals()
		for _, cl := range classes {
			cl.Is = isSel
			live, _ := g2Live(s.fn, cl)
			want := expect(cl)
			cons := fmt.Sprintf("%s:%s[%s]", s.fn.Name(), s.name, className(cl))
			n, okAll := 0, true
			for _, d := range vals {
				in := s.at[d]
				if !live[in.Block()] {
					continue
				}
				n++
				got := timeoutOf(s.fn, isSel, cl, d, 0)
				switch {
				case g2OnlySource(got, want):
				case g2HasOpaque(got) && !got["TCPTimeout"] && !got["UDPTimeout"] && !got["DefaultTimeout"]:
					okAll = false
					c.Unknown("C18.timeouts", cons, "the duration derives from "+g2SetString(got)+": not a form the rule can relate to the configured timeouts")
				default:
					okAll = false
					c.Bad("C18.timeouts", cons, c.instrPos(in), fmt.Sprintf("for a %s packet the duration derives from %s, the configured timeout of that protocol is Firewall.%s: the flow outlives (or undercuts) its protocol's timeout", className(cl), g2SetString(got), want))
				}
			}
			if n > 0 && okAll {
				c.OK("C18.timeouts", cons, fmt.Sprintf("%d site(s) derive from Firewall.%s only", n, want))
			}
		}
	}
}

func c18CacheReset(c *Ctx) {
	fn := c.Func(Ref{"firewall", "ConntrackCacheTicker", "Get"})
	fTick, fV, fCache := c.Field("firewall", "ConntrackCacheTicker", "cacheTick"), c.Field("firewall", "ConntrackCacheTicker", "cacheV"), c.Field("firewall", "ConntrackCacheTicker", "cache")
	if fn == nil || fTick == nil || fV == nil || fCache == nil {
		return
	}
	isTickLoad := func(v ssa.Value) bool {
		call, _ := callOf(v)
		return call != nil && calleeObj(call) != nil && calleeObj(call).Name() == "Load" && isFieldAddrOf(callArgs(call)[0], fTick)
	}
	same := gCmp("tick did not move", isTickLoad, isFieldLoad(fV), mustEqual)
	empty := gCmp("cache is empty", isLenOf(isFieldLoad(fCache)), isIntConst(0), func(op token.Token) (bool, bool) {
		switch op {
		case token.GTR, token.NEQ:
			return true, false
		case token.LEQ, token.EQL:
			return true, true
		}
		return false, false
	})
	e1, n1 := passEdges(fn, same)
	e2, _ := passEdges(fn, empty)
	if n1 == 0 {
		c.Bad("C18.cache-reset", "Get:fresh-map-when-tick-moved", c.P.Pos(fn.Pos()), "Get no longer compares the ticker with the version the cache was filled under")
	} else {
		fresh := func(in ssa.Instruction) bool {
			st, ok := in.(*ssa.Store)
			if !ok || !isFieldAddrOf(st.Addr, fCache) {
				return false
			}
			_, mk := st.Val.(*ssa.MakeMap)
			return mk
		}
		ok := true
		for _, r := range g2Returns(fn) {
			if isNilConst(r.Results[0]) {
				continue // cache disabled (nil ticker)
			}
			if held, path := c.g2MustPassInstr(fn, nil, r, fresh, g2Union(e1, e2)); !held {
				ok = false
				c.Bad("C18.cache-reset", "Get:fresh-map-when-tick-moved", c.instrPos(r), "the routine cache survives a tick: a flow in it is honoured without being looked up (never expires, never revalidated)", path...)
				break
			}
		}
		if ok {
			c.OK("C18.cache-reset", "Get:fresh-map-when-tick-moved", "old cache handed out only when the tick did not move or the cache is empty")
		}
	}
	// the tick moves: tick() adds to cacheTick, and the constructor starts tick() as a goroutine
	tick := c.Func(Ref{"firewall", "ConntrackCacheTicker", "tick"})
	ctor := c.Func(Ref{"firewall", "", "NewConntrackCacheTicker"})
	if tick == nil || ctor == nil {
		return
	}
	adds := false
	for _, w := range fieldWriters([]*ssa.Function{tick}, fTick) {
		if w.Kind == "atomic" {
			adds = true
		}
	}
	c.Check(adds, "C18.cache-reset", "tick:advances-cacheTick", c.P.Pos(tick.Pos()), "cacheTick.Add in the ticker loop", "the ticker no longer advances cacheTick: the routine cache is never reset")
	started := false
	eachInstr(ctor, func(in ssa.Instruction) {
		if g, ok := in.(*ssa.Go); ok && matchFunc(calleeObj(g), Ref{"firewall", "ConntrackCacheTicker", "tick"}) {
			started = true
		}
	})
	c.Check(started, "C18.cache-reset", "NewConntrackCacheTicker:starts-tick", c.P.Pos(ctor.Pos()), "go c.tick(...)", "the constructor no longer starts the ticker goroutine: the routine cache is never reset")
}
