package main

import (
	"fmt"
	"go/token"
	"go/types"
	"sort"
	"strings"

	"golang.org/x/tools/go/ssa"
)

// LockDiscipline checks a guarded-by table for one mutex class: every access to the listed
// fields of Owner and every call to a function that requires the lock happens with the lock held
// (write mode for mutations). Functions whose name starts with Prefix on Owner are "requires the
// lock on entry" (the code's own naming contract), plus Extra.
type LockDiscipline struct {
	Rule     string
	Owner    string // type name in the root package (or pkg.Type)
	OwnerPkg string
	Key      lockKey
	Fields   []string
	Prefix   string         // e.g. "unlocked"
	Extra    map[string]int // function name (fnName) -> required mode on entry
	// Exempt: fnName -> reason (constructors, single-threaded setup)
	Exempt map[string]string
	// ReadOK: fields whose plain reads without the lock are tolerated (reason documented by caller)
	ReadOK map[string]string
}

type lockAccess struct {
	In    ssa.Instruction
	Write bool
	What  string
}

func (ld *LockDiscipline) run(c *Ctx) {
	owner := c.NamedType(ld.OwnerPkg, ld.Owner)
	if owner == nil {
		return
	}
	fields := map[*types.Var]bool{}
	for _, f := range ld.Fields {
		if v := c.Field(ld.OwnerPkg, ld.Owner, f); v != nil {
			fields[v] = true
		}
	}
	funcs := c.moduleFuncs()
	// functions requiring the lock on entry
	requires := map[*ssa.Function]bool{}
	for _, fn := range funcs {
		if fn.Signature.Recv() != nil {
			if n := recvNamed(fn.Signature.Recv().Type()); n != nil && n.Obj() == owner.Obj() && ld.Prefix != "" && strings.HasPrefix(fn.Name(), ld.Prefix) {
				requires[fn] = true
			}
		}
		if _, ok := ld.Extra[fnName(fn)]; ok {
			requires[fn] = true
		}
	}
	// direct accesses per function
	access := map[*ssa.Function][]lockAccess{}
	for _, fn := range funcs {
		if c.isTestFile(fn.Pos()) || strings.HasSuffix(c.fileOf(topFunc(fn).Pos()), "_tester.go") {
			continue
		}
		eachInstr(fn, func(in ssa.Instruction) {
			fa, ok := in.(*ssa.FieldAddr)
			if !ok || !fields[fieldOfAddr(fa)] {
				return
			}
			if root, _ := addrRoot(fa); isFreshAllocDeep(root) {
				return // constructor on a fresh allocation
			}
			name := ld.Owner + "." + fieldOfAddr(fa).Name()
			for _, w := range classifyAddrUses(fn, fa, fa, 0) {
				if w.Kind == "addr-escape" {
					continue
				}
				access[fn] = append(access[fn], lockAccess{w.Instr, true, w.Kind + " " + name})
			}
			// reads: loads of the field followed by Lookup/Range/len/Index
			if refs := fa.Referrers(); refs != nil {
				for _, r := range *refs {
					if u, ok := r.(*ssa.UnOp); ok && u.Op == token.MUL {
						if rr := u.Referrers(); rr != nil {
							for _, q := range *rr {
								switch q.(type) {
								case *ssa.Lookup, *ssa.Range, *ssa.Index, *ssa.IndexAddr:
									access[fn] = append(access[fn], lockAccess{q, false, "read " + name})
								case *ssa.Call:
									if bn := builtinName(q.(*ssa.Call)); bn == "len" {
										access[fn] = append(access[fn], lockAccess{q, false, "len " + name})
									}
								}
							}
						}
					}
				}
			}
		})
	}
	// which requiring functions mutate (need W)
	mutates := map[*ssa.Function]bool{}
	changed := true
	for changed {
		changed = false
		for fn := range requires {
			if mutates[fn] {
				continue
			}
			m := false
			for _, a := range access[fn] {
				if a.Write {
					m = true
				}
			}
			eachInstr(fn, func(in ssa.Instruction) {
				if ci, ok := in.(ssa.CallInstruction); ok {
					if cal := ci.Common().StaticCallee(); cal != nil && requires[cal] && mutates[cal] {
						m = true
					}
				}
			})
			if m {
				mutates[fn] = true
				changed = true
			}
		}
	}
	need := func(fn *ssa.Function) int {
		if m, ok := ld.Extra[fnName(fn)]; ok {
			return m
		}
		if mutates[fn] {
			return lkW
		}
		return lkR
	}
	nObl := 0
	var fnames []*ssa.Function
	for _, fn := range funcs {
		fnames = append(fnames, fn)
	}
	sort.Slice(fnames, func(i, j int) bool { return fnames[i].String() < fnames[j].String() })
	for _, fn := range fnames {
		if c.isTestFile(fn.Pos()) || strings.HasSuffix(c.fileOf(topFunc(fn).Pos()), "_tester.go") {
			continue
		}
		name := fnName(fn)
		if _, ex := ld.Exempt[fnName(topFunc(fn))]; ex {
			continue
		}
		var calls []ssa.Instruction
		eachInstr(fn, func(in ssa.Instruction) {
			if ci, ok := in.(ssa.CallInstruction); ok {
				if cal := ci.Common().StaticCallee(); cal != nil && requires[cal] {
					calls = append(calls, in)
				}
			}
		})
		if len(calls) == 0 && len(access[fn]) == 0 {
			continue
		}
		entry := lockState{}
		if requires[fn] {
			entry[ld.Key] = need(fn)
		} else if fn.Parent() != nil && requires[topFunc(fn)] {
			entry[ld.Key] = need(topFunc(fn))
		}
		lf := lockFlow(fn, entry, nil)
		seen := map[string]int{}
		for _, in := range calls {
			cal := in.(ssa.CallInstruction).Common().StaticCallee()
			m, live := lf.mustAt(in, ld.Key)
			if !live {
				continue
			}
			if lf.Defer[ld.Key] && m == lkNone {
				// deferred unlock implies the lock was taken earlier on this path; mustAt handles it
			}
			k := cal.Name()
			seen[k]++
			cons := fmt.Sprintf("%s:call:%s#%d", name, k, seen[k])
			nObl++
			c.Check(m >= need(cal), ld.Rule, cons, c.instrPos(in), modeName(m), fmt.Sprintf("%s requires %s %s but is called here with the lock %s", cal.Name(), ld.Owner, modeName(need(cal)), modeName(m)))
		}
		for _, a := range access[fn] {
			m, live := lf.mustAt(a.In, ld.Key)
			if !live {
				continue
			}
			want := lkR
			if a.Write {
				want = lkW
			}
			if !a.Write {
				fname := a.What[strings.LastIndexByte(a.What, '.')+1:]
				if _, ok := ld.ReadOK[fname]; ok {
					continue
				}
			}
			seen[a.What]++
			cons := fmt.Sprintf("%s:%s#%d", name, a.What, seen[a.What])
			nObl++
			c.Check(m >= want, ld.Rule, cons, c.instrPos(a.In), modeName(m), fmt.Sprintf("%s with %s %s (needs %s)", a.What, ld.Owner, modeName(m), modeName(want)))
		}
	}
	c.Note("%s: %d functions require %s on entry (%d mutating), %d lock obligations", ld.Rule, len(requires), ld.Key, len(mutates), nObl)
}
