package main

import (
	"fmt"
	"go/constant"
	"go/token"
	"go/types"
	"sort"
	"strings"

	"golang.org/x/tools/go/ssa"
)

// ---------------------------------------------------------------------------------------
// g11Lin: integer expressions in linear normal form K + Σ coeff·atom, used to decide whether the
// outcome of a comparison *implies* a required inequality (K1 guards on bounds). Atoms are SSA
// values named canonically (parameters and phis by identity, `len(x)`, loads of a field of the
// same base, conversions, tabled pure calls), so `off+16 <= len(b)`, `len(b)-off >= 16`,
// `!(off+16 > len(b))` and a stronger constant all discharge the same obligation. Arithmetic is
// over ideal integers (no wrap-around): stated in the properties' LevelNote.

type g11Lin struct {
	K int64
	T map[string]int64
}

func g11Const(k int64) g11Lin { return g11Lin{K: k} }

func g11Atom(key string) g11Lin { return g11Lin{T: map[string]int64{key: 1}} }

func (a g11Lin) scale(m int64) g11Lin {
	r := g11Lin{K: a.K * m, T: map[string]int64{}}
	for k, v := range a.T {
		if v*m != 0 {
			r.T[k] = v * m
		}
	}
	return r
}

func (a g11Lin) add(b g11Lin) g11Lin {
	r := g11Lin{K: a.K + b.K, T: map[string]int64{}}
	for k, v := range a.T {
		r.T[k] = v
	}
	for k, v := range b.T {
		r.T[k] += v
		if r.T[k] == 0 {
			delete(r.T, k)
		}
	}
	return r
}

func (a g11Lin) sub(b g11Lin) g11Lin { return a.add(b.scale(-1)) }

// constDiff: a - b when it is a constant.
func (a g11Lin) constDiff(b g11Lin) (int64, bool) {
	d := a.sub(b)
	if len(d.T) != 0 {
		return 0, false
	}
	return d.K, true
}

func (a g11Lin) equal(b g11Lin) bool { d, ok := a.constDiff(b); return ok && d == 0 }

func (a g11Lin) isConst() (int64, bool) { return a.K, len(a.T) == 0 }

func (a g11Lin) String() string {
	var ks []string
	for k := range a.T {
		ks = append(ks, k)
	}
	sort.Strings(ks)
	var sb strings.Builder
	for _, k := range ks {
		fmt.Fprintf(&sb, "%+d*%s ", a.T[k], k)
	}
	fmt.Fprintf(&sb, "%+d", a.K)
	return sb.String()
}

// g11Env names atoms. subst maps the parameters of an inlined boolean helper to the caller's
// argument values (one level); pure lists calls whose result depends on their arguments only.
type g11Env struct {
	subst  map[ssa.Value]ssa.Value
	pure   func(*types.Func) bool
	stable map[*ssa.Function]map[*types.Var]bool
}

func g11NewEnv(pure func(*types.Func) bool) *g11Env {
	return &g11Env{pure: pure, stable: map[*ssa.Function]map[*types.Var]bool{}}
}

func (e *g11Env) with(subst map[ssa.Value]ssa.Value) *g11Env {
	return &g11Env{subst: subst, pure: e.pure, stable: e.stable}
}

func (e *g11Env) top() *g11Env { return &g11Env{pure: e.pure, stable: e.stable} }

// fieldStable: no instruction of fn or of the module functions it calls statically stores into
// field f (two loads of base.f in fn then denote the same value); a dynamic call in fn makes
// every field unstable.
func (e *g11Env) fieldStable(fn *ssa.Function, f *types.Var) bool {
	m := e.stable[fn]
	if m == nil {
		m = map[*types.Var]bool{}
		e.stable[fn] = m
	}
	if v, ok := m[f]; ok {
		return v
	}
	ok := true
	for _, g := range reachableFuncs([]*ssa.Function{fn}, func(g *ssa.Function) bool { return strings.HasPrefix(pkgPathOf(g), nebulaMod) }) {
		eachInstr(g, func(in ssa.Instruction) {
			switch x := in.(type) {
			case *ssa.Store:
				if fa, isFA := x.Addr.(*ssa.FieldAddr); isFA && fieldOfAddr(fa) == f {
					ok = false
				}
				// whole-struct store through a pointer (not the entry spill of a by-value parameter)
				if st, isS := x.Val.Type().Underlying().(*types.Struct); isS {
					if _, isP := x.Val.(*ssa.Parameter); !isP {
						for i := 0; i < st.NumFields(); i++ {
							if st.Field(i) == f {
								ok = false
							}
						}
					}
				}
			case ssa.CallInstruction:
				cc := x.Common()
				if _, isB := cc.Value.(*ssa.Builtin); !isB && cc.StaticCallee() == nil {
					ok = false
				}
			}
		})
	}
	m[f] = ok
	return ok
}

func (e *g11Env) key(v ssa.Value) string {
	if r, ok := e.subst[v]; ok {
		return e.top().key(r)
	}
	switch x := v.(type) {
	case *ssa.Const:
		if x.Value == nil {
			return "nil"
		}
		return "k:" + x.Value.ExactString()
	case *ssa.ChangeType:
		return e.key(x.X)
	case *ssa.Convert:
		return "conv<" + x.Type().String() + ">(" + e.key(x.X) + ")"
	case *ssa.FieldAddr:
		return "&" + e.key(x.X) + "." + fieldOfAddr(x).Name()
	case *ssa.Field:
		return e.key(x.X) + "." + fieldOfVal(x).Name()
	case *ssa.UnOp:
		if x.Op == token.MUL {
			if fa, ok := x.X.(*ssa.FieldAddr); ok && x.Parent() != nil && e.fieldStable(x.Parent(), fieldOfAddr(fa)) {
				return "ld(" + e.key(fa.X) + "." + fieldOfAddr(fa).Name() + ")"
			}
		}
	case *ssa.Call:
		switch builtinName(x) {
		case "len":
			return "len(" + e.key(x.Call.Args[0]) + ")"
		case "cap":
			return "cap(" + e.key(x.Call.Args[0]) + ")"
		}
		if o := calleeObj(x); o != nil && e.pure != nil && e.pure(o) {
			var as []string
			for _, a := range x.Call.Args {
				as = append(as, e.lin(a).String())
			}
			return "call:" + o.FullName() + "(" + strings.Join(as, ",") + ")"
		}
	}
	return fmt.Sprintf("%s@%p", v.Name(), v)
}

func (e *g11Env) lin(v ssa.Value) g11Lin {
	if r, ok := e.subst[v]; ok {
		return e.top().lin(r)
	}
	switch x := v.(type) {
	case *ssa.Const:
		if x.Value != nil && x.Value.Kind() == constant.Int {
			if i, ok := constant.Int64Val(x.Value); ok {
				return g11Const(i)
			}
		}
	case *ssa.ChangeType:
		return e.lin(x.X)
	case *ssa.BinOp:
		switch x.Op {
		case token.ADD:
			return e.lin(x.X).add(e.lin(x.Y))
		case token.SUB:
			return e.lin(x.X).sub(e.lin(x.Y))
		case token.MUL:
			a, b := e.lin(x.X), e.lin(x.Y)
			if k, ok := a.isConst(); ok {
				return b.scale(k)
			}
			if k, ok := b.isConst(); ok {
				return a.scale(k)
			}
		}
	}
	return g11Atom(e.key(v))
}

// g11Cons is one constraint over a linear form: D <= 0, D == 0 or D != 0.
type g11Cons struct {
	D   g11Lin
	Rel int // 0: <= 0   1: == 0   2: != 0
}

const (
	g11LE0 = 0
	g11EQ0 = 1
	g11NE0 = 2
)

func (c g11Cons) String() string { return c.D.String() + []string{" <= 0", " == 0", " != 0"}[c.Rel] }

// g11Cmp: the constraint "l op r".
func g11Cmp(op token.Token, l, r g11Lin) (g11Cons, bool) {
	d := l.sub(r)
	switch op {
	case token.LSS:
		return g11Cons{d.add(g11Const(1)), g11LE0}, true
	case token.LEQ:
		return g11Cons{d, g11LE0}, true
	case token.GTR:
		return g11Cons{d.scale(-1).add(g11Const(1)), g11LE0}, true
	case token.GEQ:
		return g11Cons{d.scale(-1), g11LE0}, true
	case token.EQL:
		return g11Cons{d, g11EQ0}, true
	case token.NEQ:
		return g11Cons{d, g11NE0}, true
	}
	return g11Cons{}, false
}

func g11LEq(a, b g11Lin) g11Cons { c, _ := g11Cmp(token.LEQ, a, b); return c }
func g11GEq(a, b g11Lin) g11Cons { c, _ := g11Cmp(token.GEQ, a, b); return c }
func g11Eq(a, b g11Lin) g11Cons  { c, _ := g11Cmp(token.EQL, a, b); return c }

// g11Implies: fact f entails goal g (sufficient syntactic test; false = "not shown").
func g11Implies(f, g g11Cons) bool {
	if f.Rel == g11NE0 {
		// x != 0 for a quantity known non-negative (a length) means x >= 1
		if len(f.D.T) == 1 && f.D.K == 0 {
			for k, co := range f.D.T {
				if (strings.HasPrefix(k, "len(") || strings.HasPrefix(k, "cap(")) && (co == 1 || co == -1) {
					return g11Implies(g11Cons{g11Atom(k).scale(-1).add(g11Const(1)), g11LE0}, g)
				}
			}
		}
		return g.Rel == g11NE0 && (f.D.equal(g.D) || f.D.equal(g.D.scale(-1)))
	}
	switch g.Rel {
	case g11LE0:
		if d, ok := g.D.constDiff(f.D); ok && d <= 0 {
			return true // g.D = f.D + d, f.D <= 0 (or == 0)
		}
		if f.Rel == g11EQ0 {
			if d, ok := g.D.constDiff(f.D.scale(-1)); ok && d <= 0 {
				return true
			}
		}
	case g11EQ0:
		return f.Rel == g11EQ0 && (f.D.equal(g.D) || f.D.equal(g.D.scale(-1)))
	}
	return false
}

func g11ImpliesAny(fs []g11Cons, goals []g11Cons) bool {
	for _, f := range fs {
		for _, g := range goals {
			if g11Implies(f, g) {
				return true
			}
		}
	}
	return false
}

// outcomes: the constraints known when boolean v is true / false (comparisons only).
func (e *g11Env) outcomes(v ssa.Value) (t, f []g11Cons) {
	cd := normCond(v)
	if cd.Kind != CondCmp {
		return nil, nil
	}
	bo := cd.Base.(*ssa.BinOp)
	pos, ok := g11Cmp(bo.Op, e.lin(bo.X), e.lin(bo.Y))
	if !ok {
		return nil, nil
	}
	neg, _ := g11Cmp(negOp(bo.Op), e.lin(bo.X), e.lin(bo.Y))
	if cd.Neg {
		pos, neg = neg, pos
	}
	return []g11Cons{pos}, []g11Cons{neg}
}

// g11Summ lifts a guard through one level of boolean helper: a test `if helper(args)` counts as the
// guard when "helper returns r only if the guard's test passed" holds on the helper's own CFG (its
// branches, or the returned comparison itself), with the helper's parameters replaced by the
// call's arguments. mk builds the guard for a given parameter substitution (nil at top level);
// guards built by mk must not dereference the *ssa.If they are given.
func (c *Ctx) g11Summ(name string, mk func(subst map[ssa.Value]ssa.Value) Guard) Guard {
	top := mk(nil)
	return Guard{Name: name, Match: func(cd Cond, ifi *ssa.If) (bool, bool) {
		if is, p := top.Match(cd, ifi); is {
			return true, p
		}
		if cd.Kind != CondBool {
			return false, false
		}
		call, idx := callOf(cd.Base)
		if call == nil || idx != -1 {
			return false, false
		}
		for _, want := range []bool{true, false} {
			if c.g11HelperEntails(call, want, mk) {
				return true, want == !cd.Neg // condition true <=> result == !Neg
			}
		}
		return false, false
	}}
}

// g11HelperEntails: whenever the module function called by call returns `want`, the guard's test
// has passed.
func (c *Ctx) g11HelperEntails(call *ssa.Call, want bool, mk func(subst map[ssa.Value]ssa.Value) Guard) bool {
	callee := call.Call.StaticCallee()
	if callee == nil || callee.Blocks == nil || !strings.HasPrefix(pkgPathOf(callee), nebulaMod) {
		return false
	}
	res := callee.Signature.Results()
	if res.Len() != 1 || !types.Identical(res.At(0).Type().Underlying(), types.Typ[types.Bool]) {
		return false
	}
	subst := map[ssa.Value]ssa.Value{}
	for i, p := range callee.Params {
		if i < len(call.Call.Args) {
			subst[p] = call.Call.Args[i]
		}
	}
	n, bad, _ := c.g11RetGuarded(callee, 0, want, mk(subst))
	return n > 0 && bad == nil
}

// g11RetGuarded: every way fn can return `want` as result #idx lies behind guard g: either every
// path to that return edge crosses a pass edge of g, or the returned value is itself g's test
// with the passing polarity. Returns the number of such return edges and the first unguarded one.
func (c *Ctx) g11RetGuarded(fn *ssa.Function, idx int, want bool, g Guard) (n int, bad *ssa.Return, path []string) {
	for _, b := range fn.Blocks {
		ret, ok := b.Instrs[len(b.Instrs)-1].(*ssa.Return)
		if !ok || idx >= len(ret.Results) {
			continue
		}
		v := retResult(ret, idx)
		type edge struct {
			val ssa.Value
			via *ssa.BasicBlock
		}
		edges := []edge{{v, nil}}
		if phi, isPhi := v.(*ssa.Phi); isPhi && phi.Block() == b {
			edges = nil
			for k, ev := range phi.Edges {
				edges = append(edges, edge{ev, b.Preds[k]})
			}
		}
		for _, ed := range edges {
			bv, isC := boolConst(ed.val)
			if isC && bv != want {
				continue
			}
			n++
			if !isC {
				if is, p := g.Match(normCond(ed.val), nil); is && p == want {
					continue // the returned value is itself the test
				}
			}
			if ok, _, pth := c.mustPass(fn, Sink{Instr: ret, ViaPred: ed.via}, g); !ok && bad == nil {
				bad, path = ret, pth
			}
		}
	}
	return
}

// g11RequireRet emits one obligation per guard: fn returns `want` only behind the guard.
func (c *Ctx) g11RequireRet(rule string, fn *ssa.Function, want bool, what string, guards ...Guard) {
	for _, g := range guards {
		n, bad, path := c.g11RetGuarded(fn, 0, want, g)
		cons := fmt.Sprintf("%s:returns-%v<-%s", fnName(fn), want, g.Name)
		switch {
		case n == 0:
			c.Unknown(rule, cons, fmt.Sprintf("no return of %v found: unrecognised shape", want))
		case bad != nil:
			c.Bad(rule, cons, c.instrPos(bad), fmt.Sprintf("%s can return %v without the test %q having passed: %s", fnName(fn), want, g.Name, what), path...)
		default:
			c.OK(rule, cons, fmt.Sprintf("%d return edge(s) guarded", n))
		}
	}
}

// g11Res resolves a helper parameter to the caller's argument.
func g11Res(subst map[ssa.Value]ssa.Value, v ssa.Value) ssa.Value {
	if r, ok := subst[v]; ok {
		return r
	}
	return v
}

// g11LinGuard: a K1 guard satisfied by any test whose passing outcome entails one of the goals
// (goals are stated over the caller's values), also through one boolean helper.
func (c *Ctx) g11LinGuard(name string, e *g11Env, goals ...g11Cons) Guard {
	return c.g11Summ(name, func(subst map[ssa.Value]ssa.Value) Guard {
		e2 := e
		if subst != nil {
			e2 = e.with(subst)
		}
		return Guard{Name: name, Match: func(cd Cond, _ *ssa.If) (bool, bool) {
			if cd.Kind != CondCmp {
				return false, false
			}
			bo := cd.Base.(*ssa.BinOp)
			pos, ok := g11Cmp(bo.Op, e2.lin(bo.X), e2.lin(bo.Y))
			if !ok {
				return false, false
			}
			neg, _ := g11Cmp(negOp(bo.Op), e2.lin(bo.X), e2.lin(bo.Y))
			if cd.Neg {
				pos, neg = neg, pos
			}
			if g11ImpliesAny([]g11Cons{pos}, goals) {
				return true, true
			}
			if g11ImpliesAny([]g11Cons{neg}, goals) {
				return true, false
			}
			return false, false
		}}
	})
}

// ---------------------------------------------------------------------------------------
// K5 path counting: how many times an event happens on the paths through a region, abstracted to
// {0, 1, many}. Masks: bit0 = some path with 0 events, bit1 = exactly 1, bit2 = 2 or more.

const (
	g11Zero = 1
	g11One  = 2
	g11Many = 4
)

func g11MaskString(m uint8) string {
	var s []string
	if m&g11Zero != 0 {
		s = append(s, "0")
	}
	if m&g11One != 0 {
		s = append(s, "1")
	}
	if m&g11Many != 0 {
		s = append(s, ">=2")
	}
	if len(s) == 0 {
		return "unreachable"
	}
	return "{" + strings.Join(s, ",") + "}"
}

func g11Shift(m uint8, n int) uint8 {
	for ; n > 0; n-- {
		r := uint8(0)
		if m&g11Zero != 0 {
			r |= g11One
		}
		if m&(g11One|g11Many) != 0 {
			r |= g11Many
		}
		m = r
	}
	return m
}

// g11Conv: counts of a path segment with mask m followed by a segment with mask ev.
func g11Conv(m, ev uint8) uint8 {
	r := uint8(0)
	for a := 0; a < 3; a++ {
		if m&(1<<a) == 0 {
			continue
		}
		for b := 0; b < 3; b++ {
			if ev&(1<<b) == 0 {
				continue
			}
			n := a + b
			if n > 2 {
				n = 2
			}
			r |= 1 << n
		}
	}
	return r
}

// g11CountFlow propagates event counts from the start of block `start` over the CFG without
// crossing blocked edges. An instruction contributes the mask evm returns for it (0 or g11Zero =
// nothing, g11One = one event, a callee summary = whatever the callee may do).
type g11CountFlow struct {
	in  map[*ssa.BasicBlock]uint8
	evm func(ssa.Instruction) uint8
}

func g11Counts(start *ssa.BasicBlock, blocked map[Edge]bool, event func(ssa.Instruction) bool) *g11CountFlow {
	return g11CountsM(start, blocked, func(in ssa.Instruction) uint8 {
		if event(in) {
			return g11One
		}
		return 0
	})
}

func g11CountsM(start *ssa.BasicBlock, blocked map[Edge]bool, evm func(ssa.Instruction) uint8) *g11CountFlow {
	cf := &g11CountFlow{in: map[*ssa.BasicBlock]uint8{start: g11Zero}, evm: evm}
	work := []*ssa.BasicBlock{start}
	for len(work) > 0 {
		b := work[0]
		work = work[1:]
		out := cf.in[b]
		for _, in := range b.Instrs {
			if ev := evm(in); ev != 0 {
				out = g11Conv(out, ev)
			}
		}
		for i, s := range b.Succs {
			if blocked[Edge{b, i}] {
				continue
			}
			if n := cf.in[s] | out; n != cf.in[s] {
				cf.in[s] = n
				work = append(work, s)
			}
		}
	}
	return cf
}

// before: mask of event counts on paths from the start up to (excluding) instruction at.
func (cf *g11CountFlow) before(at ssa.Instruction) uint8 {
	m := cf.in[at.Block()]
	for _, in := range at.Block().Instrs {
		if in == at {
			break
		}
		if ev := cf.evm(in); ev != 0 {
			m = g11Conv(m, ev)
		}
	}
	return m
}

// atEnd: mask at the end of block b.
func (cf *g11CountFlow) atEnd(b *ssa.BasicBlock) uint8 {
	return cf.before(b.Instrs[len(b.Instrs)-1])
}

func g11Returns(fn *ssa.Function) []*ssa.Return {
	var out []*ssa.Return
	for _, b := range fn.Blocks {
		if r, ok := b.Instrs[len(b.Instrs)-1].(*ssa.Return); ok {
			out = append(out, r)
		}
	}
	sort.SliceStable(out, func(i, j int) bool { return out[i].Pos() < out[j].Pos() })
	return out
}

// g11ExactlyOnce: on every entry->return path of fn the events sum to exactly one. One obligation
// per function (the offending returns are listed in the detail).
func (c *Ctx) g11ExactlyOnce(rule string, fn *ssa.Function, what string, evm func(ssa.Instruction) uint8, badWhy string) {
	cf := g11CountsM(fn.Blocks[0], nil, evm)
	cons := fnName(fn) + ":" + what
	n := 0
	for _, r := range g11Returns(fn) {
		if _, reach := cf.in[r.Block()]; !reach {
			continue
		}
		n++
		if m := cf.before(r); m != g11One {
			c.Bad(rule, cons, c.instrPos(r), fmt.Sprintf("%s happens %s times on the paths to this return: %s", what, g11MaskString(m), badWhy))
			return
		}
	}
	if n == 0 {
		c.Unknown(rule, cons, "function has no reachable return")
		return
	}
	c.OK(rule, cons, fmt.Sprintf("exactly once on every path (%d returns)", n))
}

// g11BackEdges: edges into the header of loop l from inside the loop.
func g11BackEdges(l *natLoop) map[Edge]bool {
	out := map[Edge]bool{}
	for b := range l.Body {
		for i, s := range b.Succs {
			if s == l.Header {
				out[Edge{b, i}] = true
			}
		}
	}
	return out
}

// g11ExitEdges: edges leaving loop l.
func g11ExitEdges(l *natLoop) []Edge {
	var out []Edge
	for b := range l.Body {
		for i, s := range b.Succs {
			if !l.Body[s] {
				out = append(out, Edge{b, i})
			}
		}
	}
	sort.Slice(out, func(i, j int) bool {
		if out[i].From.Index != out[j].From.Index {
			return out[i].From.Index < out[j].From.Index
		}
		return out[i].Succ < out[j].Succ
	})
	return out
}

// g11PerIteration: mask of event counts over one iteration of loop l (header -> back edge).
func g11PerIteration(l *natLoop, event func(ssa.Instruction) bool) uint8 {
	return g11PerIterationM(l, func(in ssa.Instruction) uint8 {
		if event(in) {
			return g11One
		}
		return 0
	})
}

func g11PerIterationM(l *natLoop, evm func(ssa.Instruction) uint8) uint8 {
	event := func(in ssa.Instruction) bool { return evm(in)&^g11Zero != 0 }
	back := g11BackEdges(l)
	blocked := map[Edge]bool{}
	for e := range back {
		blocked[e] = true
	}
	for _, e := range g11ExitEdges(l) {
		blocked[e] = true
	}
	cf := g11CountsM(l.Header, blocked, evm)
	m := uint8(0)
	for e := range back {
		if _, ok := cf.in[e.From]; ok {
			m |= cf.atEnd(e.From)
		}
	}
	// an inner loop containing the event makes the count unbounded
	for b := range l.Body {
		for _, in := range b.Instrs {
			if event(in) {
				for _, il := range naturalLoops(b.Parent()) {
					if il.Header != l.Header && il.Body[b] && l.Body[il.Header] {
						m |= g11Many
					}
				}
			}
		}
	}
	return m
}

// ---------------------------------------------------------------------------------------
// small matchers

// g11ParamOfType: the unique parameter of fn whose type satisfies pred; nil if none or several.
func g11ParamOfType(fn *ssa.Function, pred func(types.Type) bool) *ssa.Parameter {
	var out *ssa.Parameter
	for _, p := range fn.Params {
		if pred(p.Type()) {
			if out != nil {
				return nil
			}
			out = p
		}
	}
	return out
}

func g11IsByteSlice(t types.Type) bool {
	s, ok := t.Underlying().(*types.Slice)
	if !ok {
		return false
	}
	b, ok := s.Elem().Underlying().(*types.Basic)
	return ok && b.Kind() == types.Uint8
}

func g11IsNamed(pkgPath, name string) func(types.Type) bool {
	return func(t types.Type) bool {
		n := recvNamed(t)
		return n != nil && n.Obj().Name() == name && n.Obj().Pkg() != nil && n.Obj().Pkg().Path() == PkgPath(pkgPath)
	}
}

// g11BranchOf: for a two-way merge phi, tells for each incoming edge whether it is taken when the
// deciding If (terminator of the phi block's immediate dominator) is true (0) or false (1).
// ok=false when the phi is not such a diamond.
func g11BranchOf(phi *ssa.Phi) (ifi *ssa.If, side []int, ok bool) {
	b := phi.Block()
	d := b.Idom()
	if d == nil || len(d.Instrs) == 0 {
		return nil, nil, false
	}
	ifi, isIf := d.Instrs[len(d.Instrs)-1].(*ssa.If)
	if !isIf {
		return nil, nil, false
	}
	for _, p := range b.Preds {
		s := -1
		if p == d {
			for k, su := range d.Succs {
				if su == b {
					if s != -1 {
						return nil, nil, false
					}
					s = k
				}
			}
		} else {
			for k, su := range d.Succs {
				if su != b && su.Dominates(p) && len(su.Preds) == 1 {
					if s != -1 {
						return nil, nil, false
					}
					s = k
				}
			}
		}
		if s == -1 {
			return nil, nil, false
		}
		side = append(side, s)
	}
	return ifi, side, true
}

// g11LoopCoversAll: natural loop l visits idx = 0, 1, ..., n-1 exactly: idx is a header phi (or
// that phi plus a constant, as `range` lowers it) whose first value is 0 and which steps by 1, and
// the loop's only exit is taken exactly when idx >= n (for/range forms alike).
func g11LoopCoversAll(e *g11Env, l *natLoop, idx ssa.Value, n g11Lin) bool {
	il := e.lin(idx)
	var phi *ssa.Phi
	for _, in := range l.Header.Instrs {
		p, ok := in.(*ssa.Phi)
		if !ok {
			break
		}
		if d, ok := il.constDiff(e.lin(p)); ok {
			// first visited index 0, step 1
			good := true
			for k, pr := range l.Header.Preds {
				ev := e.lin(p.Edges[k])
				if l.Body[pr] {
					good = good && ev.sub(e.lin(p)).equal(g11Const(1))
				} else {
					good = good && ev.add(g11Const(d)).equal(g11Const(0))
				}
			}
			if good {
				phi = p
			}
		}
	}
	if phi == nil {
		return false
	}
	exits := g11ExitEdges(l)
	if len(exits) != 1 {
		return false
	}
	ifi, ok := exits[0].From.Instrs[len(exits[0].From.Instrs)-1].(*ssa.If)
	if !ok {
		return false
	}
	t, f := e.outcomes(ifi.Cond)
	stay, leave := t, f
	if exits[0].Succ == 0 {
		stay, leave = f, t
	}
	// the exit test may be on the next index (range: idx = phi+1 tested before use) or on idx itself
	lt, _ := g11Cmp(token.LSS, il, n)
	ge, _ := g11Cmp(token.GEQ, il, n)
	return g11ImpliesAny(stay, []g11Cons{lt}) && g11ImpliesAny(leave, []g11Cons{ge})
}
