package main

import (
	"fmt"
	"go/token"
	"go/types"
	"sort"
	"strings"

	"golang.org/x/tools/go/ssa"
)

func init() {
	register(&Property{
		ID: "C48", Title: "Calculated remotes splice mask and overlay bits exactly",
		Patterns:    []string{"."},
		Technique:   "bit provenance of the spliced words in ApplyV4 / ApplyV6 (the configured mask word is set to all-ones and to all-zeros; every result bit must then be the same-position bit of the mask address, resp. of the overlay address), agreement of the byte ranges and byte order with the decoders that turn the produced V4AddrPort / V6AddrPort back into addresses, provenance of the net.CIDRMask arguments and of the port, CFG guards in newCalculatedRemote (same family, port range) and in addCalculatedRemotes (range lookup hit, family dispatch), argument provenance along the configuration path",
		LevelText:   "On all paths and for all inputs of the bitwise expressions: each bit of the produced address equals the same bit of the configured mask address where the prefix mask is 1 and the same bit of the peer's overlay address where it is 0 (IPv4 word, IPv6 high and low words, each over the byte range and byte order the decoder uses for that field); the prefix mask is net.CIDRMask(bits of the configured mask prefix, address width of that prefix); the produced port is the configured port; a calculated remote is constructed only if mask and range have the same address width and 0 <= port <= 65535, from the mask prefix and port of its own configuration entry and the range that is also the table key; addCalculatedRemotes applies a remote only after the range table lookup of the overlay address hit, ApplyV4 only for IPv4 overlay addresses and ApplyV6 only for non-IPv4 ones, always to that overlay address, and stores the results for that overlay address through unlockedSetV4 / unlockedSetV6 with the lighthouse filter.",
		LevelNote:   "Not decided: the net.CIDRMask contract (ones leading 1-bits), netip As4/As16/BitLen/Masked, encoding/binary; the table's containment lookup (gaissmai/bart); what the filter passed to unlockedSetV4/V6 admits (C36); IPv4-mapped configuration prefixes (they are kept as IPv6 ranges and never match).",
		Explanation: "K9 with the mask as a two-valued parameter, K7 against protoV4AddrPortToNetAddrPort / protoV6AddrPortToNetAddrPort, K11 argument provenance, K1 guards",
		Run:         runC48,
		Canaries: func(c *Ctx) []Canary {
			return []Canary{
				{Name: "v4-mask-and-overlay-swapped", File: "calculated_remote.go", Old: "return &V4AddrPort{(maskAddr & mask) | (intAddr & ^mask), c.port}", New: "return &V4AddrPort{(maskAddr & ^mask) | (intAddr & mask), c.port}", Rule: "C48.splice"},
				{Name: "v4-overlay-read-little-endian", File: "calculated_remote.go", Old: "\tb = addr.As4()\n\tintAddr := binary.BigEndian.Uint32(b[:])", New: "\tb = addr.As4()\n\tintAddr := binary.LittleEndian.Uint32(b[:])", Rule: "C48.splice"},
				{Name: "v6-low-word-uses-high-mask", File: "calculated_remote.go", Old: "\tmaskb = binary.BigEndian.Uint64(mask[8:])\n", New: "\tmaskb = binary.BigEndian.Uint64(mask[:8])\n", Rule: "C48.splice"},
				{Name: "v6-high-word-xor", File: "calculated_remote.go", Old: "\tap.Hi = (maskAddrb & maskb) | (calcAddrb & ^maskb)", New: "\tap.Hi = (maskAddrb & maskb) ^ (calcAddrb | ^maskb)", Rule: "C48.splice"},
				{Name: "v6-port-dropped", File: "calculated_remote.go", Old: "\tap := V6AddrPort{Port: c.port}\n", New: "\tap := V6AddrPort{}\n", Rule: "C48.port"},
				{Name: "v6-mask-built-for-32-bits", File: "calculated_remote.go", Old: "func (c *calculatedRemote) ApplyV6(addr netip.Addr) *V6AddrPort {\n\tmask := net.CIDRMask(c.mask.Bits(), c.mask.Addr().BitLen())", New: "func (c *calculatedRemote) ApplyV6(addr netip.Addr) *V6AddrPort {\n\tmask := net.CIDRMask(c.mask.Bits()+96, 128)", Rule: "C48.mask"},
				{Name: "family-guard-dropped", File: "calculated_remote.go", Old: "\tif maskCidr.Addr().BitLen() != cidr.Addr().BitLen() {\n\t\treturn nil, fmt.Errorf(\"invalid mask: %s for cidr: %s\", maskCidr, cidr)\n\t}\n", New: "", Rule: "C48.construct"},
				{Name: "port-upper-bound-32-bit", File: "calculated_remote.go", Old: "if port < 0 || port > math.MaxUint16 {", New: "if port < 0 || port > math.MaxUint32 {", Rule: "C48.construct"},
				{Name: "mask-taken-from-range", File: "calculated_remote.go", Old: "\tmasked := maskCidr.Masked()\n", New: "\tmasked := cidr.Masked()\n", Rule: "C48.mask"},
				{Name: "lookup-miss-ignored", File: "lighthouse.go", Old: "\tcalculatedRemotes, ok := tree.Lookup(vpnAddr)\n\tif !ok {\n\t\treturn false\n\t}\n", New: "\tcalculatedRemotes, _ := tree.Lookup(vpnAddr)\n", Rule: "C48.apply"},
				{Name: "v4-remote-applied-to-v6-peer", File: "lighthouse.go", Old: "\t\tif vpnAddr.Is4() {\n\t\t\tc := cr.ApplyV4(vpnAddr)", New: "\t\tif !vpnAddr.Is4() {\n\t\t\tc := cr.ApplyV4(vpnAddr)", Rule: "C48.apply"},
				{Name: "calculated-stored-without-filter", File: "lighthouse.go", Old: "am.unlockedSetV4(lh.myVpnNetworks[0].Addr(), vpnAddr, calculatedV4, lh.unlockedShouldAddV4)", New: "am.unlockedSetV4(lh.myVpnNetworks[0].Addr(), vpnAddr, calculatedV4, func(netip.Addr, *V4AddrPort) bool { return true })", Rule: "C48.apply"},
				{Name: "entry-mask-from-port-key", File: "calculated_remote.go", Old: "\trawValue := rawMap[\"mask\"]\n", New: "\trawValue := rawMap[\"port\"]\n", Rule: "C48.config"},
			}
		},
	})
}

var (
	c48ApplyV4 = Ref{"", "calculatedRemote", "ApplyV4"}
	c48ApplyV6 = Ref{"", "calculatedRemote", "ApplyV6"}
	c48New     = Ref{"", "", "newCalculatedRemote"}
)

func runC48(c *Ctx) {
	c.Rule("C48.splice", "K9/K7: every result word is, bit for bit, the mask address where the prefix mask is 1 and the overlay address where it is 0, over the byte range and byte order the decoder of that field uses", 3)
	c.Rule("C48.mask", "K11: the prefix mask is net.CIDRMask(Bits() of the configured mask prefix, BitLen() of its address)", 2)
	c.Rule("C48.port", "K11: the produced Port is the configured port", 2)
	c.Rule("C48.construct", "K1/K11: newCalculatedRemote succeeds only for mask and range of one family and 0 <= port <= 65535, and stores the mask prefix and the port it was given", 5)
	c.Rule("C48.apply", "K1/K11: addCalculatedRemotes applies remotes only after the range lookup hit, by family, to the overlay address, and stores the results for it with the lighthouse filter", 8)
	c.Rule("C48.config", "K11/K1: each range is inserted with the remotes built for that same range; each remote is built from its entry's `mask` and `port`; a refused entry refuses the configuration", 7)

	maskFields, portFields := c48Constructor(c)
	if maskFields == nil {
		return
	}
	dec4 := c48Decoder(c, Ref{"", "", "protoV4AddrPortToNetAddrPort"})
	dec6 := c48Decoder(c, Ref{"", "", "protoV6AddrPortToNetAddrPort"})
	c48Apply(c, c48ApplyV4, "V4AddrPort", []string{"Addr"}, 4, dec4, maskFields, portFields)
	c48Apply(c, c48ApplyV6, "V6AddrPort", []string{"Hi", "Lo"}, 16, dec6, maskFields, portFields)
	c48Dispatch(c)
	c48Config(c)
}

// ---------------------------------------------------------------------------------------
// constructor: guards and which field holds what

func c48Constructor(c *Ctx) (maskFields, portFields map[*types.Var]bool) {
	fn := c.Func(c48New)
	cr := c.NamedType("", "calculatedRemote")
	if fn == nil || cr == nil || len(fn.Params) != 3 {
		return nil, nil
	}
	pRange, pMask, pPort := fn.Params[0], fn.Params[1], fn.Params[2]
	from := func(p *ssa.Parameter) func(ssa.Value) bool {
		return func(v ssa.Value) bool {
			return derivesFrom(v, sliceThrough, func(x ssa.Value) bool { return x == ssa.Value(p) })
		}
	}
	sinks := successReturns(fn, 1)
	// same family: width (or Is4/Is6) of the mask address against the range address
	fam := func(name string) Guard {
		r := Ref{"net/netip", "Addr", name}
		side := func(p *ssa.Parameter) func(ssa.Value) bool {
			return func(v ssa.Value) bool {
				call, _ := callOf(v)
				return call != nil && matchFunc(calleeObj(call), r) && from(p)(callArgs(call)[0])
			}
		}
		return gCmp("mask."+name+"() == range."+name+"()", side(pMask), side(pRange), mustEqual)
	}
	c.requireGuards("C48.construct", fn, sinks, "success", gAny("mask and range have the same address family", fam("BitLen"), fam("Is4"), fam("Is6")))
	// port range
	bound := func(name string, okFor func(op token.Token, k int64) (bool, bool)) Guard {
		// directly, or in a one-level helper (`if !validPort(port) {...}`) whose summary is decided
		return c.g6ViaHelper(name, func(v ssa.Value) bool { return g6IsParamValue(v, pPort) }, func(isVal func(ssa.Value) bool) Guard {
			return Guard{Name: name, Match: func(cd Cond, _ *ssa.If) (bool, bool) {
				if cd.Kind != CondCmp {
					return false, false
				}
				bo := cd.Base.(*ssa.BinOp)
				op := bo.Op
				var k int64
				var ok bool
				switch {
				case isVal(bo.X):
					k, ok = constInt(bo.Y)
				case isVal(bo.Y):
					k, ok = constInt(bo.X)
					op = swapOp(op)
				}
				if !ok {
					return false, false
				}
				if cd.Neg {
					op = negOp(op)
				}
				return okFor(op, k)
			}}
		})
	}
	if b, ok := pPort.Type().Underlying().(*types.Basic); ok && b.Kind() == types.Uint16 {
		c.OK("C48.construct", "newCalculatedRemote:port-range", "the port parameter is a uint16")
	} else {
		c.requireGuards("C48.construct", fn, sinks, "success",
			bound("port >= 0", func(op token.Token, k int64) (bool, bool) {
				switch {
				case op == token.GEQ && k == 0, op == token.GTR && k == -1:
					return true, true
				case op == token.LSS && k == 0, op == token.LEQ && k == -1:
					return true, false
				}
				return false, false
			}),
			bound("port <= 65535", func(op token.Token, k int64) (bool, bool) {
				switch {
				case op == token.LEQ && k == 65535, op == token.LSS && k == 65536:
					return true, true
				case op == token.GTR && k == 65535, op == token.GEQ && k == 65536:
					return true, false
				}
				return false, false
			}))
	}
	// fields: what each one is filled from
	maskFields, portFields = map[*types.Var]bool{}, map[*types.Var]bool{}
	for name, v := range fieldsWrittenBy(fn, cr) {
		f := c.Field("", "calculatedRemote", name)
		if f == nil {
			continue
		}
		switch {
		case from(pRange)(v): // keeping the range as well (for display) is harmless; it is not "the mask"
		case from(pMask)(v):
			maskFields[f] = true
		case from(pPort)(v):
			portFields[f] = true
		}
	}
	c.Check(len(maskFields) > 0, "C48.construct", "newCalculatedRemote:mask-prefix-stored", c.P.Pos(fn.Pos()), fmt.Sprintf("%d field(s) hold the mask prefix (ApplyV4/ApplyV6 must read one of them)", len(maskFields)),
		"the remote does not keep the configured mask prefix: the spliced bits cannot come from it")
	c.Check(len(portFields) > 0, "C48.construct", "newCalculatedRemote:port-stored", c.P.Pos(fn.Pos()), "the port parameter is stored", "the remote does not keep the configured port")
	if len(maskFields) == 0 || len(portFields) == 0 {
		return nil, nil
	}
	return
}

// ---------------------------------------------------------------------------------------
// decoders: field -> byte range and byte order

type c48Range struct {
	lo, hi int
	endian string
}

func (r c48Range) String() string { return fmt.Sprintf("[%d:%d]%s", r.lo, r.hi, r.endian) }

func c48Decoder(c *Ctx, ref Ref) map[string]c48Range {
	fn := c.Func(ref)
	out := map[string]c48Range{}
	if fn == nil {
		return out
	}
	eachInstr(fn, func(in ssa.Instruction) {
		call, ok := in.(*ssa.Call)
		if !ok {
			return
		}
		e, name := endianOf(calleeObj(call))
		if e == "" || !strings.HasPrefix(name, "PutUint") {
			return
		}
		a := callArgs(call)
		sl, ok := stripValue(a[1]).(*ssa.Slice)
		if !ok {
			return
		}
		lo, hi := c48Bounds(sl, widthOfBinaryFn(name))
		u, ok := stripValue(a[2]).(*ssa.UnOp)
		if !ok {
			return
		}
		if fa, ok := u.X.(*ssa.FieldAddr); ok && hi > lo {
			out[fieldOfAddr(fa).Name()] = c48Range{lo, hi, e}
		}
	})
	return out
}

// c48Bounds: constant bounds of a slice expression feeding a fixed-width read/write of `width`
// bytes: a missing high bound is where the access ends.
func c48Bounds(sl *ssa.Slice, width int) (int, int) {
	lo := int64(0)
	if sl.Low != nil {
		k, ok := constInt(sl.Low)
		if !ok {
			return 0, 0
		}
		lo = k
	}
	if sl.High == nil {
		return int(lo), int(lo) + width
	}
	hi, ok := constInt(sl.High)
	if !ok {
		return 0, 0
	}
	return int(lo), int(hi)
}

// ---------------------------------------------------------------------------------------
// ApplyV4 / ApplyV6

type c48Leaf struct {
	role string // mask | maskAddr | overlay
	rng  c48Range
	call *ssa.Call
}

// reaching store into a local array cell before `at` (same block, else the only store).
func c48ReachingStore(fn *ssa.Function, al *ssa.Alloc, at ssa.Instruction) ssa.Value {
	var last ssa.Value
	for _, in := range at.Block().Instrs {
		if in == at {
			break
		}
		if st, ok := in.(*ssa.Store); ok && st.Addr == ssa.Value(al) {
			last = st.Val
		}
	}
	if last != nil {
		return last
	}
	if vals := storesInto(al); len(vals) == 1 {
		return vals[0]
	}
	return nil
}

func c48Apply(c *Ctx, ref Ref, outType string, words []string, total int, dec map[string]c48Range, maskFields, portFields map[*types.Var]bool) {
	fn := c.Func(ref)
	outT := c.NamedType("", outType)
	if fn == nil || outT == nil || len(fn.Params) != 2 {
		return
	}
	recv, addr := fn.Params[0], fn.Params[1]
	recvField := func(v ssa.Value, set map[*types.Var]bool) bool {
		u, ok := stripValue(v).(*ssa.UnOp)
		if !ok || u.Op != token.MUL {
			return false
		}
		fa, ok := u.X.(*ssa.FieldAddr)
		return ok && set[fieldOfAddr(fa)] && g6IsParamValue(fa.X, recv)
	}
	isCall := func(v ssa.Value, r Ref) (*ssa.Call, bool) {
		call, _ := callOf(v)
		if call != nil && matchFunc(calleeObj(call), r) {
			return call, true
		}
		return nil, false
	}
	maskAddrOf := func(v ssa.Value) bool { // (mask prefix).Addr()
		call, ok := isCall(v, Ref{"net/netip", "Prefix", "Addr"})
		return ok && recvField(callArgs(call)[0], maskFields)
	}
	asBytes := Ref{"net/netip", "Addr", "As4"}
	if total == 16 {
		asBytes = Ref{"net/netip", "Addr", "As16"}
	}
	// ---- the prefix mask
	var cidrMasks []*ssa.Call
	for _, ci := range callsIn(fn, Ref{"net", "", "CIDRMask"}) {
		cidrMasks = append(cidrMasks, ci.(*ssa.Call))
	}
	if len(cidrMasks) == 0 {
		c.Unknown("C48.mask", ref.Name+":CIDRMask", "no net.CIDRMask call: the prefix mask is built differently (unrecognised shape)")
	}
	for i, cm := range cidrMasks {
		a := callArgs(cm)
		ones, okOnes := isCall(a[0], Ref{"net/netip", "Prefix", "Bits"})
		okOnes = okOnes && recvField(callArgs(ones)[0], maskFields)
		okBits := false
		if bl, ok := isCall(a[1], Ref{"net/netip", "Addr", "BitLen"}); ok {
			okBits = maskAddrOf(callArgs(bl)[0])
		} else if k, ok := constInt(a[1]); ok {
			okBits = int(k) == total*8
		}
		c.Check(okOnes && okBits, "C48.mask", fmt.Sprintf("%s:CIDRMask#%d", ref.Name, i), c.instrPos(cm), "CIDRMask(mask.Bits(), mask.Addr().BitLen())",
			fmt.Sprintf("the prefix mask is not net.CIDRMask(<configured mask prefix>.Bits(), %d): the boundary between configured and overlay bits is wrong", total*8))
	}
	// ---- leaves of the spliced words
	classify := func(call *ssa.Call) (c48Leaf, bool) {
		e, name := endianOf(calleeObj(call))
		if e == "" || !strings.HasPrefix(name, "Uint") {
			return c48Leaf{}, false
		}
		w := widthOfBinaryFn(name)
		// the bytes read: x[lo:hi], or a byte slice value taken from its start
		src := stripValue(callArgs(call)[1])
		lo, hi := 0, w
		if sl, ok := src.(*ssa.Slice); ok {
			lo, hi = c48Bounds(sl, w)
			src = stripValue(sl.X)
		}
		lf := c48Leaf{rng: c48Range{lo, hi, e}, call: call}
		switch base := src.(type) {
		case *ssa.Alloc:
			src := c48ReachingStore(fn, base, call)
			if src == nil {
				return c48Leaf{}, false
			}
			as, ok := isCall(src, asBytes)
			if !ok {
				return c48Leaf{}, false
			}
			switch from := callArgs(as)[0]; {
			case g6IsParamValue(from, addr):
				lf.role = "overlay"
			case maskAddrOf(from):
				lf.role = "maskAddr"
			default:
				return c48Leaf{}, false
			}
		case *ssa.Call:
			found := false
			for _, cm := range cidrMasks {
				if base == cm {
					found = true
				}
			}
			if !found {
				return c48Leaf{}, false
			}
			lf.role = "mask"
		default:
			return c48Leaf{}, false
		}
		return lf, true
	}
	var ret *ssa.Alloc
	for _, r := range g6Returns(fn) {
		if al, ok := stripValue(retResult(r, 0)).(*ssa.Alloc); ok {
			ret = al
		}
	}
	reachesResult := func(al ssa.Value) bool {
		if ret == nil {
			return false
		}
		if al == ssa.Value(ret) {
			return true
		}
		for _, v := range storesInto(ret) {
			if g6LoadOfCell(v, al) {
				return true
			}
		}
		return false
	}
	for _, word := range words {
		f := c.Field("", outType, word)
		if f == nil {
			continue
		}
		cons := ref.Name + ":" + word
		want, okDec := dec[word]
		if !okDec {
			c.Unknown("C48.splice", cons, "the decoder does not write "+outType+"."+word+" with a fixed-width big/little-endian store: cannot tell which bytes the word stands for")
			continue
		}
		var val ssa.Value
		n := 0
		for _, st := range g6StoresToField(fn, f) {
			if root, _ := addrRoot(st.Addr); reachesResult(root) {
				val = st.Val
				n++
			}
		}
		if n != 1 {
			c.Unknown("C48.splice", cons, fmt.Sprintf("expected one store to the result's %s, found %d", word, n))
			continue
		}
		w, _ := intWidth(val.Type())
		var problems []string
		roles := map[string]int{}
		eval := func(maskWord uint64) BitVec {
			return bitProv(val, func(x ssa.Value) (BitVec, bool) {
				call, ok := x.(*ssa.Call)
				if !ok {
					return nil, false
				}
				lf, ok := classify(call)
				if !ok {
					return bvUnknown(w), true
				}
				if maskWord == 0 {
					roles[lf.role]++
					if lf.rng != want {
						problems = append(problems, fmt.Sprintf("the %s word is read from bytes %v, but %s.%s stands for bytes %v of the address", lf.role, lf.rng, outType, word, want))
					}
				}
				if lf.role == "mask" {
					return bvConst(maskWord, w), true
				}
				return bvSrc(lf.role, w), true
			})
		}
		check := func(got BitVec, src, when string) {
			for i, b := range got {
				if b.Kind != 2 || b.Src != src || b.K != i {
					problems = append(problems, fmt.Sprintf("where the prefix mask is %s, result bit %d is %v instead of %s[%d]", when, i, b, src, i))
					return
				}
			}
		}
		check(eval(0), "overlay", "0")
		check(eval(^uint64(0)), "maskAddr", "1")
		for _, role := range []string{"mask", "maskAddr", "overlay"} {
			if roles[role] == 0 {
				problems = append(problems, "the "+role+" word does not take part in the result")
			}
		}
		sort.Strings(problems)
		if len(problems) > 3 {
			problems = problems[:3]
		}
		c.Check(len(problems) == 0, "C48.splice", cons, c.instrPos(val.(ssa.Instruction)), fmt.Sprintf("%d bits: mask ? maskAddr : overlay, bytes %v", w, want), strings.Join(problems, "; "))
	}
	// ---- port
	fPort := c.Field("", outType, "Port")
	if fPort != nil {
		n, ok := 0, true
		for _, st := range g6StoresToField(fn, fPort) {
			if root, _ := addrRoot(st.Addr); reachesResult(root) {
				n++
				ok = ok && recvField(st.Val, portFields)
			}
		}
		c.Check(ok && n > 0, "C48.port", ref.Name+":Port", c.P.Pos(fn.Pos()), "the configured port", "the produced "+outType+".Port is not the configured port of the calculated remote")
	}
}

// ---------------------------------------------------------------------------------------
// addCalculatedRemotes

func c48Dispatch(c *Ctx) {
	fn := c.Func(Ref{"", "LightHouse", "addCalculatedRemotes"})
	if fn == nil || len(fn.Params) != 2 {
		return
	}
	vpn := fn.Params[1]
	isVpn := func(v ssa.Value) bool { return g6IsParamValue(v, vpn) }
	lookup := callTo(Ref{"github.com/gaissmai/bart", "Table", "Lookup"}).
		withArg(0, isCallTo(Ref{"", "LightHouse", "getCalculatedRemotes"})).withArg(1, isVpn)
	hit := gBool("the range table contains the overlay address", true, 1, lookup)
	is4 := callTo(Ref{"net/netip", "Addr", "Is4"}).withArg(0, isVpn)
	is6 := callTo(Ref{"net/netip", "Addr", "Is6"}).withArg(0, isVpn)
	fromLookup := func(v ssa.Value) bool {
		return derivesFrom(v, sliceLocal, func(x ssa.Value) bool { return matchCallValue(x, lookup, 0) })
	}
	for _, ap := range []struct {
		ref Ref
		fam Guard
	}{
		{c48ApplyV4, gBool("the overlay address is IPv4", true, -1, is4)},
		{c48ApplyV6, gAny("the overlay address is not IPv4", gBool("Is6", true, -1, is6), gBool("!Is4", false, -1, is4))},
	} {
		sinks := callSinks(fn, ap.ref.Name, callTo(ap.ref))
		c.requireGuards("C48.apply", fn, sinks, ap.ref.Name, hit, ap.fam)
		okArgs := len(sinks) > 0
		for _, s := range sinks {
			a := callArgs(s.Instr.(ssa.CallInstruction))
			okArgs = okArgs && fromLookup(a[0]) && isVpn(a[1])
		}
		c.Check(okArgs, "C48.apply", "addCalculatedRemotes:"+ap.ref.Name+":operands", c.P.Pos(fn.Pos()), "the remotes found for the overlay address, applied to that address", ap.ref.Name+" is not applied to the overlay address with the remotes the range lookup returned for it")
	}
	// results are stored for that overlay address, through the filter
	for _, st := range []struct{ set, apply, filter Ref }{
		{Ref{"", "RemoteList", "unlockedSetV4"}, c48ApplyV4, Ref{"", "LightHouse", "unlockedShouldAddV4"}},
		{Ref{"", "RemoteList", "unlockedSetV6"}, c48ApplyV6, Ref{"", "LightHouse", "unlockedShouldAddV6"}},
	} {
		calls := callsIn(fn, st.set)
		ok := len(calls) > 0
		for _, ci := range calls {
			a := callArgs(ci)
			// (list, owner, vpnIp, to, check)
			list, _ := callOf(a[0])
			okList := list != nil && matchFunc(calleeObj(list), Ref{"", "LightHouse", "unlockedGetRemoteList"}) && derivesFrom(callArgs(list)[1], sliceLocal, isVpn)
			okTo := derivesFrom(a[3], SliceOpts{Transparent: func(x *ssa.Call) bool { return builtinName(x) == "append" }}, isCallTo(st.apply))
			okFilter := false
			if f := g6FuncArg(a[4]); f != nil {
				okFilter = matchFunc(boundTarget(f), st.filter) || matchFunc(fnObj(f), st.filter)
			}
			ok = ok && okList && isVpn(a[2]) && okTo && okFilter
		}
		c.Check(ok, "C48.apply", "addCalculatedRemotes:"+st.set.Name, c.P.Pos(fn.Pos()), "stored in the overlay address's list, for that address, with the lighthouse filter", "the calculated remotes are not stored as (list of the overlay address, that address, results of "+st.apply.Name+", "+st.filter.Name+")")
	}
}

// ---------------------------------------------------------------------------------------
// configuration path

func c48Config(c *Ctx) {
	listRef := Ref{"", "", "newCalculatedRemotesListFromConfig"}
	entryRef := Ref{"", "", "newCalculatedRemotesEntryFromConfig"}
	if fn := c.Func(Ref{"", "", "NewCalculatedRemotesFromConfig"}); fn != nil {
		ins := callsIn(fn, c38Insert)
		ok := len(ins) > 0
		for _, ci := range ins {
			a := callArgs(ci)
			l, idx := callOf(a[2])
			ok = ok && l != nil && idx == 0 && matchFunc(calleeObj(l), listRef) && callArgs(l)[0] == a[1]
		}
		c.Check(ok, "C48.config", "NewCalculatedRemotesFromConfig:range->remotes", c.P.Pos(fn.Pos()), "Insert(range, remotes built for that range)", "a range is not inserted with the remotes that were family-checked against that same range")
		loops := findRangeLoops(fn, func(v ssa.Value) bool { _, isMap := v.Type().Underlying().(*types.Map); return isMap })
		if len(loops) == 1 {
			c.forAllGuard("C48.config", "NewCalculatedRemotesFromConfig:refused-entry-refuses", fn, loops[0], successReturns(fn, 1), gErrNil("the range's remotes were accepted", callTo(listRef)))
		} else {
			c.Unknown("C48.config", "NewCalculatedRemotesFromConfig:refused-entry-refuses", "loop over the configured ranges not found")
		}
	}
	if fn := c.Func(listRef); fn != nil && len(fn.Params) == 2 {
		calls := callsIn(fn, entryRef)
		ok := len(calls) > 0
		for _, ci := range calls {
			ok = ok && g6IsParamValue(callArgs(ci)[0], fn.Params[0])
		}
		c.Check(ok, "C48.config", "newCalculatedRemotesListFromConfig:range-passed", c.P.Pos(fn.Pos()), "each entry is checked against the list's range", "entries are not built against the range the list belongs to")
		loops := findRangeLoops(fn, anyValue)
		if len(loops) == 1 {
			c.forAllGuard("C48.config", "newCalculatedRemotesListFromConfig:refused-entry-refuses", fn, loops[0], successReturns(fn, 1), gErrNil("the entry was accepted", callTo(entryRef)))
		} else {
			c.Unknown("C48.config", "newCalculatedRemotesListFromConfig:refused-entry-refuses", "loop over the entries not found")
		}
	}
	if fn := c.Func(entryRef); fn != nil && len(fn.Params) == 2 {
		key := func(name string) func(ssa.Value) bool {
			return func(v ssa.Value) bool {
				return derivesFrom(v, sliceThrough, func(x ssa.Value) bool {
					lk, ok := x.(*ssa.Lookup)
					if !ok {
						return false
					}
					s, isS := constString(lk.Index)
					return isS && s == name
				})
			}
		}
		calls := callsIn(fn, c48New)
		okRange, okMask, okPort := len(calls) > 0, len(calls) > 0, len(calls) > 0
		for _, ci := range calls {
			a := callArgs(ci)
			okRange = okRange && g6IsParamValue(a[0], fn.Params[0])
			okMask = okMask && derivesFrom(a[1], sliceLocal, isCallTo(c38ParsePfx)) && key("mask")(a[1]) && !key("port")(a[1])
			okPort = okPort && key("port")(a[2]) && !key("mask")(a[2])
		}
		c.Check(okRange, "C48.config", "newCalculatedRemotesEntryFromConfig:range", c.P.Pos(fn.Pos()), "the range parameter", "the remote is family-checked against something other than its range")
		c.Check(okMask, "C48.config", "newCalculatedRemotesEntryFromConfig:mask", c.P.Pos(fn.Pos()), "ParsePrefix(entry[\"mask\"])", "the mask prefix is not parsed from the entry's `mask` value")
		c.Check(okPort, "C48.config", "newCalculatedRemotesEntryFromConfig:port", c.P.Pos(fn.Pos()), "entry[\"port\"]", "the port is not taken from the entry's `port` value")
	}
}
