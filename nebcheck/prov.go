package main

import (
	"go/token"
	"go/types"

	"golang.org/x/tools/go/ssa"
)

// ---------------------------------------------------------------------------------------
// K11 provenance: backward def-use slice inside one function.

type SliceOpts struct {
	// ThroughCalls: follow the arguments of every call met (the call's result "derives from" its
	// arguments). When false only calls accepted by Transparent are followed.
	ThroughCalls bool
	Transparent  func(*ssa.Call) bool
	// StopAt: do not look behind values for which StopAt returns true (they are still visited).
	StopAt func(ssa.Value) bool
	// FollowAllocStores: for a load from a local Alloc (or a field/element of one), follow the
	// values stored into it anywhere in the function. Default on.
	NoAllocStores bool
}

// backSlice visits every value v may derive from (including v).
func backSlice(v ssa.Value, o SliceOpts, visit func(ssa.Value)) {
	seen := map[ssa.Value]bool{}
	var walk func(v ssa.Value)
	walk = func(v ssa.Value) {
		if v == nil || seen[v] {
			return
		}
		seen[v] = true
		visit(v)
		if o.StopAt != nil && o.StopAt(v) {
			return
		}
		switch x := v.(type) {
		case *ssa.Phi:
			for _, e := range x.Edges {
				walk(e)
			}
		case *ssa.UnOp:
			walk(x.X)
			if x.Op == token.MUL && !o.NoAllocStores {
				// load: follow stores into the same local storage
				for _, st := range storesInto(x.X) {
					walk(st)
				}
			}
		case *ssa.BinOp:
			walk(x.X)
			walk(x.Y)
		case *ssa.ChangeType:
			walk(x.X)
		case *ssa.Convert:
			walk(x.X)
		case *ssa.MultiConvert:
			walk(x.X)
		case *ssa.ChangeInterface:
			walk(x.X)
		case *ssa.MakeInterface:
			walk(x.X)
		case *ssa.SliceToArrayPointer:
			walk(x.X)
		case *ssa.Slice:
			walk(x.X)
		case *ssa.FieldAddr:
			walk(x.X)
		case *ssa.Field:
			walk(x.X)
		case *ssa.IndexAddr:
			walk(x.X)
		case *ssa.Index:
			walk(x.X)
		case *ssa.Lookup:
			walk(x.X)
		case *ssa.Extract:
			walk(x.Tuple)
		case *ssa.TypeAssert:
			walk(x.X)
		case *ssa.Range:
			walk(x.X)
		case *ssa.Next:
			walk(x.Iter)
		case *ssa.MakeClosure:
			for _, b := range x.Bindings {
				walk(b)
			}
		case *ssa.Call:
			if o.ThroughCalls || (o.Transparent != nil && o.Transparent(x)) {
				for _, a := range callArgs(x) {
					walk(a)
				}
			}
		case *ssa.Alloc:
			if !o.NoAllocStores {
				for _, st := range storesInto(x) {
					walk(st)
				}
				// out-parameter idiom: a call that receives the local's address may fill it from
				// its other arguments (n.UnmarshalBinary(val), s.ReadASN1(&val, tag))
				if refs := x.Referrers(); refs != nil && (o.ThroughCalls || o.Transparent != nil) {
					for _, r := range *refs {
						if ci, ok := r.(*ssa.Call); ok && (o.ThroughCalls || o.Transparent(ci)) {
							for _, a := range callArgs(ci) {
								if a != x {
									walk(a)
								}
							}
						}
					}
				}
			}
		}
	}
	walk(v)
}

// storesInto returns the values stored into the local storage addressed by addr (an Alloc, or a
// FieldAddr/IndexAddr chain rooted at an Alloc). Stores through the same field path of the same
// Alloc are matched; for other bases nothing is returned.
func storesInto(addr ssa.Value) []ssa.Value {
	root, path := addrRoot(addr)
	al, ok := root.(*ssa.Alloc)
	if !ok {
		return nil
	}
	var out []ssa.Value
	var scan func(v ssa.Value, p []int)
	scan = func(v ssa.Value, p []int) {
		refs := v.Referrers()
		if refs == nil {
			return
		}
		for _, r := range *refs {
			switch x := r.(type) {
			case *ssa.Store:
				if x.Addr == v && pathCompatible(p, path) {
					out = append(out, x.Val)
				}
			case *ssa.FieldAddr:
				if x.X == v {
					scan(x, append(append([]int{}, p...), x.Field))
				}
			case *ssa.IndexAddr:
				if x.X == v {
					scan(x, append(append([]int{}, p...), -1))
				}
			}
		}
	}
	scan(al, nil)
	return out
}

func addrRoot(addr ssa.Value) (ssa.Value, []int) {
	var path []int
	for {
		switch x := addr.(type) {
		case *ssa.FieldAddr:
			path = append([]int{x.Field}, path...)
			addr = x.X
		case *ssa.IndexAddr:
			path = append([]int{-1}, path...)
			addr = x.X
		default:
			return addr, path
		}
	}
}

// pathCompatible: a store at path p affects a load at path q if one is a prefix of the other.
func pathCompatible(p, q []int) bool {
	n := len(p)
	if len(q) < n {
		n = len(q)
	}
	for i := 0; i < n; i++ {
		if p[i] != q[i] {
			return false
		}
	}
	return true
}

// derivesFrom reports whether v's backward slice contains a value satisfying pred.
func derivesFrom(v ssa.Value, o SliceOpts, pred func(ssa.Value) bool) bool {
	found := false
	backSlice(v, o, func(x ssa.Value) {
		if !found && pred(x) {
			found = true
		}
	})
	return found
}

var sliceThrough = SliceOpts{ThroughCalls: true}
var sliceLocal = SliceOpts{}

// ---------------------------------------------------------------------------------------
// K2 writers of a field

type WriteSite struct {
	Fn    *ssa.Function
	Instr ssa.Instruction
	Kind  string // store | elem-store | map-update | map-delete | atomic | addr-escape | clear
}

var atomicWriteMethods = map[string]bool{"Store": true, "Add": true, "Swap": true, "CompareAndSwap": true, "And": true, "Or": true}

// fieldWriters finds every write to field f (and, when deep, to elements of the slice/map/array
// it holds, and through atomic method calls) in the given functions.
func fieldWriters(funcs []*ssa.Function, f *types.Var) []WriteSite {
	var out []WriteSite
	for _, fn := range funcs {
		eachInstr(fn, func(in ssa.Instruction) {
			fa, ok := in.(*ssa.FieldAddr)
			if !ok || fieldOfAddr(fa) != f {
				return
			}
			out = append(out, classifyAddrUses(fn, fa, fa, 0)...)
		})
	}
	return out
}

func classifyAddrUses(fn *ssa.Function, addr ssa.Value, fa *ssa.FieldAddr, depth int) []WriteSite {
	var out []WriteSite
	refs := addr.Referrers()
	if refs == nil || depth > 4 {
		return nil
	}
	for _, r := range *refs {
		switch x := r.(type) {
		case *ssa.Store:
			if x.Addr == addr {
				k := "store"
				if depth > 0 {
					k = "elem-store"
				}
				out = append(out, WriteSite{fn, x, k})
			}
			// x.Val == addr : address stored somewhere -> escape
			if x.Val == addr {
				out = append(out, WriteSite{fn, x, "addr-escape"})
			}
		case *ssa.UnOp:
			if x.Op == token.MUL {
				// loaded value: look for map updates / deletes / element stores through it
				out = append(out, classifyLoadedUses(fn, x, depth)...)
			}
		case *ssa.FieldAddr:
			out = append(out, classifyAddrUses(fn, x, fa, depth+1)...)
		case *ssa.IndexAddr:
			out = append(out, classifyAddrUses(fn, x, fa, depth+1)...)
		case ssa.CallInstruction:
			cc := x.Common()
			// method call with the field address as receiver
			if len(cc.Args) > 0 && cc.Args[0] == addr && !cc.IsInvoke() {
				if o := calleeObj(x); o != nil {
					if o.Pkg() != nil && o.Pkg().Path() == "sync/atomic" && atomicWriteMethods[o.Name()] {
						out = append(out, WriteSite{fn, x, "atomic"})
						continue
					}
					if o.Pkg() != nil && (o.Pkg().Path() == "sync/atomic" || o.Pkg().Path() == "sync") {
						continue // Load, Lock, Unlock ...
					}
				}
			}
			// address passed to some other function
			out = append(out, WriteSite{fn, x, "addr-escape"})
		}
	}
	return out
}

func classifyLoadedUses(fn *ssa.Function, v ssa.Value, depth int) []WriteSite {
	var out []WriteSite
	refs := v.Referrers()
	if refs == nil {
		return nil
	}
	for _, r := range *refs {
		switch x := r.(type) {
		case *ssa.MapUpdate:
			if x.Map == v {
				out = append(out, WriteSite{fn, x, "map-update"})
			}
		case *ssa.IndexAddr:
			if x.X == v {
				// element address of the slice held in the field
				if rr := x.Referrers(); rr != nil {
					for _, q := range *rr {
						if st, ok := q.(*ssa.Store); ok && st.Addr == x {
							out = append(out, WriteSite{fn, st, "elem-store"})
						}
					}
				}
			}
		case ssa.CallInstruction:
			switch builtinName(x) {
			case "delete":
				if x.Common().Args[0] == v {
					out = append(out, WriteSite{fn, x, "map-delete"})
				}
			case "clear":
				if x.Common().Args[0] == v {
					out = append(out, WriteSite{fn, x, "clear"})
				}
			}
		}
	}
	return out
}

// ---------------------------------------------------------------------------------------
// who-may-call

type CallSite struct {
	Fn    *ssa.Function
	Instr ssa.Instruction // CallInstruction, or the instruction referencing the function value
	Kind  string          // call | go | defer | funcvalue
}

// callersOf finds every reference to any function matching refs in funcs: calls, go/defer, and
// uses as a function value (method values, closures bound).
func callersOf(funcs []*ssa.Function, refs ...Ref) []CallSite {
	var out []CallSite
	for _, fn := range funcs {
		eachInstr(fn, func(in ssa.Instruction) {
			if ci, ok := in.(ssa.CallInstruction); ok {
				if matchAny(calleeObj(ci), refs) {
					k := "call"
					switch in.(type) {
					case *ssa.Go:
						k = "go"
					case *ssa.Defer:
						k = "defer"
					}
					out = append(out, CallSite{fn, in, k})
					return
				}
			}
			// function value references among operands
			var ops []*ssa.Value
			ops = in.Operands(ops)
			for _, op := range ops {
				if op == nil || *op == nil {
					continue
				}
				if f, ok := (*op).(*ssa.Function); ok {
					tgt := f
					if ci, isCall := in.(ssa.CallInstruction); isCall && ci.Common().Value == f {
						continue // direct call handled above
					}
					if matchAny(fnObj(tgt), refs) {
						out = append(out, CallSite{fn, in, "funcvalue"})
					} else if f.Synthetic != "" {
						// bound method wrapper "bound method wrapper for func (T).M"
						if o := boundTarget(f); o != nil && matchAny(o, refs) {
							out = append(out, CallSite{fn, in, "funcvalue"})
						}
					}
				}
			}
		})
	}
	return out
}

// boundTarget resolves a synthetic bound-method wrapper / thunk to the method it wraps.
func boundTarget(f *ssa.Function) *types.Func {
	if f.Synthetic == "" {
		return nil
	}
	if o, ok := f.Object().(*types.Func); ok {
		return o.Origin()
	}
	// wrappers have a single call to the target
	var tgt *types.Func
	eachInstr(f, func(in ssa.Instruction) {
		if ci, ok := in.(ssa.CallInstruction); ok && tgt == nil {
			tgt = calleeObj(ci)
		}
	})
	return tgt
}
