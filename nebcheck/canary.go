package main

import (
	"os"
	"path/filepath"
	"runtime/debug"
	"strings"
)

// Canary is a small behaviour-breaking edit applied in memory (loader overlay) to the current
// text of one file; the named rule must report it. Used only in the thorough tier, as the
// checker's self test ("does the rule still fire on this tree?"). Never changes the verdict.
type Canary struct {
	Name string
	File string // repo relative
	Old  string // must occur exactly once in the current file
	New  string
	Rule string // rule id (prefix) expected among the new violations
}

func runCanaries(c *Ctx, p *Property) {
	base := map[string]bool{}
	for _, o := range c.Obs {
		if o.Verdict == Violated {
			base[o.Key()] = true
		}
	}
	saved := c.P
	for _, cn := range p.Canaries(c) {
		res := CanaryResult{Name: cn.Name, Rule: cn.Rule}
		abs := filepath.Join(repoDir(), cn.File)
		src, err := os.ReadFile(abs)
		if err != nil || strings.Count(string(src), cn.Old) != 1 {
			res.Outcome = "skipped"
			res.Reported = "anchor text not present exactly once in the current file"
			c.Canary = append(c.Canary, res)
			continue
		}
		mut := strings.Replace(string(src), cn.Old, cn.New, 1)
		prog, err := Load(defaultConfig, p.Patterns, map[string][]byte{abs: []byte(mut)})
		if err != nil {
			res.Outcome = "skipped"
			res.Reported = "mutant does not type-check: " + firstLine(err.Error())
			c.Canary = append(c.Canary, res)
			continue
		}
		sub := NewCtx(p.ID, c.Tier, c.Seed)
		sub.P = prog
		func() {
			defer func() {
				if r := recover(); r != nil {
					sub.Unknown("engine", "panic", "canary run panicked")
				}
			}()
			p.Run(sub)
		}()
		res.Outcome = "MISSED"
		for _, o := range sub.Obs {
			if o.Verdict == Violated && !base[o.Key()] && strings.HasPrefix(o.Rule, cn.Rule) {
				res.Outcome = "caught"
				res.Reported = o.Key()
				break
			}
		}
		if res.Outcome == "MISSED" {
			for _, o := range sub.Obs {
				if (o.Verdict == Violated || o.Verdict == Undecided) && !base[o.Key()] {
					res.Reported += " [other: " + string(o.Verdict) + " " + o.Key() + "]"
				}
			}
		}
		c.Canary = append(c.Canary, res)
		prog = nil
		sub = nil
		debug.FreeOSMemory()
	}
	c.P = saved
}

func firstLine(s string) string {
	if i := strings.IndexByte(s, '\n'); i >= 0 {
		s = s[:i]
	}
	if len(s) > 200 {
		s = s[:200]
	}
	return s
}
