package main

import (
	"fmt"
	"go/token"
	"go/types"
	"os"
	"sort"
	"strings"

	"golang.org/x/tools/go/packages"
	"golang.org/x/tools/go/ssa"
	"golang.org/x/tools/go/ssa/ssautil"
)

const (
	goRoot1268 = "/opt/veriftools/go1.26.8"
	nebulaMod  = "github.com/slackhq/nebula"
)

// BuildConfig is one build configuration of /repo that a rule can be evaluated under.
type BuildConfig struct {
	Name   string
	Tags   []string
	GOOS   string
	GOARCH string
	GOEXP  string
	Tests  bool
}

var defaultConfig = BuildConfig{Name: "default"}

// Program is a loaded, type-checked and SSA-lowered view of /repo's working tree.
type Program struct {
	Config   BuildConfig
	RepoDir  string
	Fset     *token.FileSet
	Pkgs     []*packages.Package          // roots (nebula module packages)
	All      map[string]*packages.Package // every package by path (incl. deps)
	SSA      *ssa.Program
	SSAPkgs  map[string]*ssa.Package
	Files    int
	LoadErrs []string
}

func repoDir() string {
	if d := os.Getenv("NEBCHECK_REPO"); d != "" {
		return d
	}
	return "/repo"
}

func loaderEnv(bc BuildConfig) []string {
	env := []string{}
	for _, kv := range os.Environ() {
		k := kv
		if i := strings.IndexByte(kv, '='); i >= 0 {
			k = kv[:i]
		}
		switch k {
		case "GOWORK", "GOFLAGS", "GOPROXY", "GOSUMDB", "GOTOOLCHAIN", "PATH", "GOOS", "GOARCH", "GOEXPERIMENT", "GOROOT", "CGO_ENABLED":
			continue
		}
		env = append(env, kv)
	}
	env = append(env,
		"GOWORK=off",
		"GOFLAGS=-mod=mod",
		"GOPROXY=off",
		"GOSUMDB=off",
		"GOTOOLCHAIN=local",
		"CGO_ENABLED=0",
		"PATH="+goRoot1268+"/bin:"+os.Getenv("PATH"),
	)
	if bc.GOOS != "" {
		env = append(env, "GOOS="+bc.GOOS)
	}
	if bc.GOARCH != "" {
		env = append(env, "GOARCH="+bc.GOARCH)
	}
	if bc.GOEXP != "" {
		env = append(env, "GOEXPERIMENT="+bc.GOEXP)
	}
	return env
}

// Load loads the given package patterns (relative to the repo, e.g. "./cert/...") from the
// current working tree of /repo. overlay maps absolute file names to replacement contents
// (used by the canary harness only).
func Load(bc BuildConfig, patterns []string, overlay map[string][]byte) (*Program, error) {
	fset := token.NewFileSet()
	cfg := &packages.Config{
		Mode:    packages.LoadAllSyntax,
		Dir:     repoDir(),
		Fset:    fset,
		Env:     loaderEnv(bc),
		Tests:   bc.Tests,
		Overlay: overlay,
	}
	if len(bc.Tags) > 0 {
		cfg.BuildFlags = []string{"-tags=" + strings.Join(bc.Tags, ",")}
	}
	pkgs, err := packages.Load(cfg, patterns...)
	if err != nil {
		return nil, fmt.Errorf("packages.Load: %v", err)
	}
	if len(pkgs) == 0 {
		return nil, fmt.Errorf("packages.Load: zero packages for %v", patterns)
	}
	p := &Program{Config: bc, RepoDir: repoDir(), Fset: fset, All: map[string]*packages.Package{}, SSAPkgs: map[string]*ssa.Package{}}
	packages.Visit(pkgs, nil, func(pk *packages.Package) {
		p.All[pk.PkgPath] = pk
		for _, e := range pk.Errors {
			// only errors inside the module (or the two dependencies we read) matter
			if strings.HasPrefix(pk.PkgPath, nebulaMod) || strings.HasPrefix(pk.PkgPath, "github.com/flynn/noise") {
				p.LoadErrs = append(p.LoadErrs, pk.PkgPath+": "+e.Error())
			}
		}
	})
	for _, pk := range pkgs {
		if strings.HasPrefix(pk.PkgPath, nebulaMod) {
			p.Pkgs = append(p.Pkgs, pk)
			p.Files += len(pk.Syntax)
		}
	}
	sort.Slice(p.Pkgs, func(i, j int) bool { return p.Pkgs[i].PkgPath < p.Pkgs[j].PkgPath })
	if len(p.Pkgs) == 0 {
		return nil, fmt.Errorf("no nebula packages among %d loaded", len(pkgs))
	}
	if len(p.LoadErrs) > 0 {
		return p, fmt.Errorf("type-check errors: %s", strings.Join(p.LoadErrs, "; "))
	}
	prog, _ := ssautil.AllPackages(pkgs, ssa.InstantiateGenerics)
	prog.Build()
	p.SSA = prog
	for _, sp := range prog.AllPackages() {
		p.SSAPkgs[sp.Pkg.Path()] = sp
	}
	return p, nil
}

var nebulaDirs = map[string]bool{"cert": true, "cert_test": true, "cmd": true, "config": true, "cpupick": true, "e2e": true,
	"firewall": true, "handshake": true, "header": true, "iputil": true, "logging": true, "noiseutil": true, "overlay": true,
	"pkclient": true, "routing": true, "service": true, "sshd": true, "test": true, "udp": true, "util": true, "wfp": true, "wintun": true}

// PkgPath expands a short name ("", "cert", "handshake") into a full package path.
func PkgPath(short string) string {
	if short == "" || short == "N" {
		return nebulaMod
	}
	first := short
	if i := strings.IndexByte(short, '/'); i >= 0 {
		first = short[:i]
	}
	if nebulaDirs[first] {
		return nebulaMod + "/" + short
	}
	return short // standard library or third party: verbatim
}

func (p *Program) TypesPkg(short string) *types.Package {
	if pk := p.All[PkgPath(short)]; pk != nil {
		return pk.Types
	}
	return nil
}

func (p *Program) Pos(pos token.Pos) string {
	if !pos.IsValid() {
		return "?"
	}
	ps := p.Fset.Position(pos)
	f := ps.Filename
	if strings.HasPrefix(f, p.RepoDir+"/") {
		f = f[len(p.RepoDir)+1:]
	} else if i := strings.Index(f, "/pkg/mod/"); i >= 0 {
		f = f[i+len("/pkg/mod/"):]
	}
	return fmt.Sprintf("%s:%d", f, ps.Line)
}
