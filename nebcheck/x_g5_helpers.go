package main

import (
	"fmt"
	"go/token"
	"go/types"
	"strings"

	"golang.org/x/tools/go/ssa"
)

// Generic helpers added for C35/C36 (every identifier carries the g5 prefix).

// ---------------------------------------------------------------------------------------
// types / parameters

func g5IsNamed(t types.Type, pkgPath, name string) bool {
	n, ok := types.Unalias(t).(*types.Named)
	return ok && n.Obj().Name() == name && n.Obj().Pkg() != nil && n.Obj().Pkg().Path() == pkgPath
}

func g5IsAddrSlice(t types.Type) bool {
	s, ok := types.Unalias(t).Underlying().(*types.Slice)
	return ok && g5IsNamed(s.Elem(), "net/netip", "Addr")
}

func g5IsPtrToNamed(t types.Type, pkgPath, name string) bool {
	p, ok := types.Unalias(t).(*types.Pointer)
	return ok && g5IsNamed(p.Elem(), pkgPath, name)
}

// g5ParamIndex returns the index (in fn.Params, receiver included) of the unique parameter whose
// type satisfies match; -1 when there is none or more than one.
func g5ParamIndex(fn *ssa.Function, match func(types.Type) bool) int {
	idx := -1
	for i, p := range fn.Params {
		if match(p.Type()) {
			if idx >= 0 {
				return -1
			}
			idx = i
		}
	}
	return idx
}

func g5Param(c *Ctx, rule string, fn *ssa.Function, what string, match func(types.Type) bool) *ssa.Parameter {
	if fn == nil {
		return nil
	}
	i := g5ParamIndex(fn, match)
	if i < 0 {
		c.Unknown(rule, fnName(fn)+":param:"+what, "the function no longer has exactly one "+what+" parameter: unrecognised shape")
		return nil
	}
	return fn.Params[i]
}

// g5From: v derives (inside the function, not through calls) from the given value.
func g5From(root ssa.Value) func(ssa.Value) bool {
	return func(v ssa.Value) bool {
		return root != nil && derivesFrom(v, sliceLocal, func(x ssa.Value) bool { return x == root })
	}
}

// g5FromThrough: v derives from root, following call arguments too.
func g5FromThrough(root ssa.Value) func(ssa.Value) bool {
	return func(v ssa.Value) bool {
		return root != nil && derivesFrom(v, sliceThrough, func(x ssa.Value) bool { return x == root })
	}
}

func g5IsBool(t types.Type) bool {
	b, ok := t.Underlying().(*types.Basic)
	return ok && b.Kind() == types.Bool
}

// ---------------------------------------------------------------------------------------
// guards established one call level down

// g5ReturnsOnlyIf: every return of fn whose result #idx may equal want is reached only after g
// held inside fn - or returns the guard's own condition with the matching polarity.
func g5ReturnsOnlyIf(c *Ctx, fn *ssa.Function, idx int, want bool, g Guard) bool {
	n, ok := 0, true
	for _, b := range fn.Blocks {
		if len(b.Instrs) == 0 {
			continue
		}
		ret, isR := b.Instrs[len(b.Instrs)-1].(*ssa.Return)
		if !isR || idx >= len(ret.Results) {
			continue
		}
		var check func(v ssa.Value, via *ssa.BasicBlock, depth int) bool
		check = func(v ssa.Value, via *ssa.BasicBlock, depth int) bool {
			if bv, isC := boolConst(v); isC {
				if bv != want {
					return true
				}
				n++
				pass, _, _ := c.mustPass(fn, Sink{Instr: ret, ViaPred: via}, g)
				return pass
			}
			if phi, isP := v.(*ssa.Phi); isP && phi.Block() == b && depth == 0 {
				for k, e := range phi.Edges {
					if !check(e, b.Preds[k], 1) {
						return false
					}
				}
				return true
			}
			n++
			// a computed boolean: is it the guard's own condition (v == want only if the guard passes)?
			if is, passTrue := g.Match(normCond(v), nil); is && passTrue == want {
				return true
			}
			pass, _, _ := c.mustPass(fn, Sink{Instr: ret, ViaPred: via}, g)
			return pass
		}
		if !check(retResult(ret, idx), nil, 0) {
			ok = false
		}
	}
	return ok && n > 0
}

// g5Lift makes a guard that is also recognised when it was extracted into a helper: an If on the
// boolean result of a static call to a module function F counts as the guard when every return of
// F that may yield true (resp. false) does so only after the guard - rebuilt for F by mk, with the
// subject mapped to F's parameters whose arguments derive from the subject here - held inside F.
// mk receives the predicate "x is the subject root" (nil subject: the guard has no subject).
func g5Lift(c *Ctx, name string, subj func(ssa.Value) bool, mk func(root func(ssa.Value) bool) Guard) Guard {
	if subj == nil {
		subj = func(ssa.Value) bool { return false }
	}
	direct := mk(subj)
	memo := map[*ssa.Call]int{} // 1 not the guard, 2 passes when the result is true, 3 when false
	return Guard{Name: name, Match: func(cd Cond, ifi *ssa.If) (bool, bool) {
		if is, p := direct.Match(cd, ifi); is {
			return true, p
		}
		if cd.Kind != CondBool {
			return false, false
		}
		call, idx := callOf(cd.Base)
		if call == nil {
			return false, false
		}
		st, seen := memo[call]
		if !seen {
			st = 1
			memo[call] = st // recursion guard
			callee := call.Call.StaticCallee()
			if callee != nil && callee.Blocks != nil && strings.HasPrefix(pkgPathOf(callee), nebulaMod) {
				ri := idx
				if ri < 0 {
					ri = 0
				}
				res := callee.Signature.Results()
				if ri < res.Len() && g5IsBool(res.At(ri).Type()) {
					args := call.Call.Args
					root := func(v ssa.Value) bool {
						p, isP := v.(*ssa.Parameter)
						if !isP {
							return false
						}
						for i, q := range callee.Params {
							if q == p && i < len(args) && derivesFrom(args[i], sliceLocal, subj) {
								return true
							}
						}
						return false
					}
					g := mk(root)
					if g5ReturnsOnlyIf(c, callee, ri, true, g) {
						st = 2
					} else if g5ReturnsOnlyIf(c, callee, ri, false, g) {
						st = 3
					}
				}
			}
			memo[call] = st
		}
		switch st {
		case 2:
			return true, !cd.Neg
		case 3:
			return true, cd.Neg
		}
		return false, false
	}}
}

// g5Flagged accepts g also in its materialised form: an If on a boolean variable (phi) all of
// whose `true` assignments lie behind g (`ok := false; for .. { if g { ok = true } }; if !ok { return }`).
func g5Flagged(c *Ctx, g Guard) Guard {
	return Guard{Name: g.Name, Match: func(cd Cond, ifi *ssa.If) (bool, bool) {
		if is, p := g.Match(cd, ifi); is {
			return true, p
		}
		phi, ok := cd.Base.(*ssa.Phi)
		if cd.Kind != CondBool || !ok {
			return false, false
		}
		fn := phi.Block().Parent()
		seen := map[*ssa.Phi]bool{}
		nTrue := 0
		var walk func(p *ssa.Phi) bool
		walk = func(p *ssa.Phi) bool {
			if seen[p] {
				return true
			}
			seen[p] = true
			for k, e := range p.Edges {
				if bv, isC := boolConst(e); isC {
					if !bv {
						continue
					}
					nTrue++
					pred := p.Block().Preds[k]
					if pass, n, _ := c.mustPass(fn, Sink{Instr: pred.Instrs[len(pred.Instrs)-1]}, g); !pass || n == 0 {
						return false
					}
					continue
				}
				q, isP := e.(*ssa.Phi)
				if !isP || !walk(q) {
					return false
				}
			}
			return true
		}
		if !walk(phi) || nTrue == 0 {
			return false, false
		}
		return true, !cd.Neg
	}}
}

// ---------------------------------------------------------------------------------------
// method values, related values

// g5MethodValue: v is (a conversion of) the method value x.M (bound method closure) or a plain
// function; returns the function object.
func g5MethodValue(v ssa.Value) *types.Func {
	switch x := stripValue(v).(type) {
	case *ssa.MakeClosure:
		if f, ok := x.Fn.(*ssa.Function); ok {
			if f.Synthetic != "" {
				return boundTarget(f)
			}
			return fnObj(f)
		}
	case *ssa.Function:
		if x.Synthetic != "" {
			return boundTarget(x)
		}
		return fnObj(x)
	}
	return nil
}

// g5IsElem: x is one element read out of a collection (range element / indexed load / map iteration).
func g5IsElem(x ssa.Value) bool {
	switch y := x.(type) {
	case *ssa.UnOp:
		if y.Op == token.MUL {
			_, ok := y.X.(*ssa.IndexAddr)
			return ok
		}
	case *ssa.Index, *ssa.Lookup:
		return true
	case *ssa.Extract:
		_, ok := y.Tuple.(*ssa.Next)
		return ok
	}
	return false
}

// g5Related: a and b denote the same datum: one lies in the other's backward slice, or both
// slices meet in one element read out of a collection.
func g5Related(a, b ssa.Value) bool {
	if a == nil || b == nil {
		return false
	}
	if g5FromThrough(b)(a) || g5FromThrough(a)(b) {
		return true
	}
	src := map[ssa.Value]bool{}
	backSlice(a, sliceThrough, func(x ssa.Value) {
		if g5IsElem(x) {
			src[x] = true
		}
	})
	return derivesFrom(b, sliceThrough, func(x ssa.Value) bool { return src[x] })
}

// g5AppendedElems: for `append(base, e1, e2...)` (variadic slice literal lowered to an array
// alloc) the element values; nil when the second argument is an existing slice (`append(a, s...)`).
func g5AppendedElems(call *ssa.Call) []ssa.Value {
	if builtinName(call) != "append" || len(call.Call.Args) != 2 {
		return nil
	}
	sl, ok := call.Call.Args[1].(*ssa.Slice)
	if !ok {
		return nil
	}
	al, ok := sl.X.(*ssa.Alloc)
	if !ok {
		return nil
	}
	return storesInto(al)
}

// ---------------------------------------------------------------------------------------
// length bounds

// g5IsMinFunc: fn is `func(a, b int) int` returning the smaller argument.
func g5IsMinFunc(fn *ssa.Function) bool {
	if fn == nil || len(fn.Params) != 2 || len(fn.Blocks) != 3 {
		return false
	}
	a, b := fn.Params[0], fn.Params[1]
	ifi, ok := fn.Blocks[0].Instrs[len(fn.Blocks[0].Instrs)-1].(*ssa.If)
	if !ok {
		return false
	}
	bo, ok := ifi.Cond.(*ssa.BinOp)
	if !ok {
		return false
	}
	op := bo.Op
	switch {
	case bo.X == a && bo.Y == b:
	case bo.X == b && bo.Y == a:
		op = swapOp(op)
	default:
		return false
	}
	retOf := func(blk *ssa.BasicBlock) ssa.Value {
		if r, ok := blk.Instrs[len(blk.Instrs)-1].(*ssa.Return); ok && len(r.Results) == 1 && len(blk.Instrs) == 1 {
			return r.Results[0]
		}
		return nil
	}
	t, f := retOf(fn.Blocks[0].Succs[0]), retOf(fn.Blocks[0].Succs[1])
	switch op {
	case token.LSS, token.LEQ: // a < b ? a : b
		return t == a && f == b
	case token.GTR, token.GEQ: // a > b ? b : a
		return t == b && f == a
	}
	return false
}

// g5IntAtMost: v <= k by construction: a constant, or min(..) with one operand <= k.
func g5IntAtMost(v ssa.Value, k int64) bool {
	if kv, ok := constInt(v); ok {
		return kv <= k
	}
	call, ok := stripValue(v).(*ssa.Call)
	if !ok {
		return false
	}
	isMin := builtinName(call) == "min"
	if !isMin {
		if cal := call.Call.StaticCallee(); cal != nil && strings.HasPrefix(pkgPathOf(cal), nebulaMod) && g5IsMinFunc(cal) {
			isMin = true
		}
	}
	if !isMin {
		return false
	}
	for _, a := range call.Call.Args {
		if g5IntAtMost(a, k) {
			return true
		}
	}
	return false
}

// g5LoopBound: the natural loop lp runs its body at most k times because its header tests
// `idx < B` with idx an induction variable (phi starting at a constant, stepping by one, or that
// phi plus one) and B <= k by construction (constant, min(..), or len of a slice cut to <= k).
// recognised=false: the header has no such comparison (unrecognised loop shape).
func g5LoopBound(lp *natLoop, k int64) (bounded, recognised bool) {
	h := lp.Header
	ifi, ok := h.Instrs[len(h.Instrs)-1].(*ssa.If)
	if !ok {
		return false, false
	}
	bo, ok := ifi.Cond.(*ssa.BinOp)
	if !ok {
		return false, false
	}
	idx, bound := bo.X, bo.Y
	switch bo.Op {
	case token.LSS:
	case token.GTR:
		idx, bound = bo.Y, bo.X
	default:
		return false, false
	}
	isInd := func(v ssa.Value) bool {
		if a, ok := v.(*ssa.BinOp); ok && a.Op == token.ADD {
			if one, isK := constInt(a.Y); isK && one == 1 {
				v = a.X
			}
		}
		phi, ok := v.(*ssa.Phi)
		if !ok || phi.Block() != h {
			return false
		}
		for _, e := range phi.Edges {
			if _, isK := constInt(e); isK {
				continue
			}
			a, ok := e.(*ssa.BinOp)
			if !ok || a.Op != token.ADD || a.X != ssa.Value(phi) {
				return false
			}
			if one, isK := constInt(a.Y); !isK || one != 1 {
				return false
			}
		}
		return true
	}
	if !isInd(idx) {
		return false, false
	}
	if g5IntAtMost(bound, k) {
		return true, true
	}
	if call, ok := bound.(*ssa.Call); ok && builtinName(call) == "len" {
		return g5LenAtMost(call.Call.Args[0], k), true
	}
	return false, true
}

// g5LenAtMost: len(v) <= k because v is a slice expression x[lo:hi] with hi <= k.
func g5LenAtMost(v ssa.Value, k int64) bool {
	s, ok := stripValue(v).(*ssa.Slice)
	return ok && s.High != nil && g5IntAtMost(s.High, k)
}

// g5CallSites: the static call sites of target in funcs.
func g5CallSites(funcs []*ssa.Function, target *ssa.Function) []ssa.CallInstruction {
	var out []ssa.CallInstruction
	for _, f := range funcs {
		eachInstr(f, func(in ssa.Instruction) {
			if ci, ok := in.(ssa.CallInstruction); ok && ci.Common().StaticCallee() == target {
				out = append(out, ci)
			}
		})
	}
	return out
}

// ---------------------------------------------------------------------------------------
// effect sinks of a handler

type g5Sink struct {
	In   ssa.Instruction
	Name string
}

// g5EffectSinks lists, in instruction order, the instructions of fn (closures it creates count at
// their creation point) that have an effect: calls to the named functions, calls the effect
// summary classifies as effectful, channel sends.
func g5EffectSinks(es *EffectSummary, fn *ssa.Function, named []Ref) []g5Sink {
	var out []g5Sink
	for _, b := range fn.Blocks {
		for _, in := range b.Instrs {
			switch x := in.(type) {
			case *ssa.Send:
				out = append(out, g5Sink{in, "chan-send"})
			case *ssa.Select:
				for _, st := range x.States {
					if st.Dir == types.SendOnly {
						out = append(out, g5Sink{in, "chan-send"})
						break
					}
				}
			case *ssa.MakeClosure:
				if f, ok := x.Fn.(*ssa.Function); ok && f.Synthetic == "" {
					if len(callsInDeep(f, named...)) > 0 || es.Effect(f) != "" {
						out = append(out, g5Sink{in, "closure:" + f.Name()})
					}
				}
			case ssa.CallInstruction:
				o := calleeObj(x)
				if o == nil {
					continue
				}
				if matchAny(o, named) || es.EffectOfCall(x) != "" {
					out = append(out, g5Sink{in, o.Name()})
				}
			}
		}
	}
	return out
}

// g5RequireEach emits one obligation per sink, keyed handler:callee#ordinal.
func g5RequireEach(c *Ctx, rule string, fn *ssa.Function, sinks []g5Sink, g Guard, why string) {
	ord := map[string]int{}
	for _, s := range sinks {
		ord[s.Name]++
		cons := fmt.Sprintf("%s:%s#%d<-%s", fnName(fn), s.Name, ord[s.Name], g.Name)
		ok, n, path := c.mustPass(fn, Sink{Instr: s.In}, g)
		if ok {
			c.OK(rule, cons, fmt.Sprintf("every path passes one of %d test(s)", n))
		} else {
			c.Bad(rule, cons, c.instrPos(s.In), fmt.Sprintf("%s is reachable without the test %q (%d matching tests in the function): %s", s.Name, g.Name, n, why), path...)
		}
	}
}

// g5Callers checks a who-may-call table: every reference to ref from non-test code lies in a
// function named in allow (value = reason).
func g5Callers(c *Ctx, rule string, funcs []*ssa.Function, ref Ref, allow map[string]string, why string) int {
	n := 0
	seen := map[string]bool{}
	for _, s := range callersOf(funcs, ref) {
		if c.isTestHelperFile(s.Instr) {
			continue
		}
		n++
		caller := fnName(topFunc(s.Fn))
		cons := ref.Name + "<-" + caller
		if seen[cons] {
			continue
		}
		seen[cons] = true
		reason, ok := allow[caller]
		c.Check(ok, rule, cons, c.instrPos(s.Instr), "tabled: "+reason, why)
	}
	return n
}

// g5Writers checks a who-may-write table for one field.
func g5Writers(c *Ctx, rule string, funcs []*ssa.Function, owner string, f *types.Var, allow map[string]string, why string) {
	if f == nil {
		return
	}
	bad, n := 0, 0
	for _, w := range fieldWriters(funcs, f) {
		if c.isTestHelperFile(w.Instr) || w.Kind == "addr-escape" {
			continue
		}
		n++
		caller := fnName(topFunc(w.Fn))
		if _, ok := allow[caller]; !ok {
			bad++
			c.Bad(rule, owner+"."+f.Name()+"<-"+caller, c.instrPos(w.Instr), w.Kind+": "+why)
		}
	}
	if bad == 0 {
		c.OK(rule, owner+"."+f.Name(), fmt.Sprintf("%d write sites, all tabled", n))
	}
}

// g5StableParamField: predicate for "a load of field f of the (struct-valued) parameter p", valid
// only when p is never reassigned in its function (its spill slot has the single entry store).
func g5StableParamField(p *ssa.Parameter, f *types.Var) (func(ssa.Value) bool, bool) {
	if p == nil || f == nil {
		return nil, false
	}
	var slot *ssa.Alloc
	stores := 0
	if refs := p.Referrers(); refs != nil {
		for _, r := range *refs {
			if st, ok := r.(*ssa.Store); ok && st.Val == ssa.Value(p) {
				if al, ok := st.Addr.(*ssa.Alloc); ok {
					slot = al
				}
			}
		}
	}
	if slot != nil {
		if refs := slot.Referrers(); refs != nil {
			for _, r := range *refs {
				if st, ok := r.(*ssa.Store); ok && st.Addr == ssa.Value(slot) {
					stores++
				}
			}
		}
	}
	stable := slot == nil || stores == 1
	return func(v ssa.Value) bool {
		switch x := stripValue(v).(type) {
		case *ssa.Field:
			return x.X == ssa.Value(p) && fieldOfVal(x) == f
		case *ssa.UnOp:
			if fa, ok := x.X.(*ssa.FieldAddr); ok && x.Op == token.MUL {
				return slot != nil && fa.X == ssa.Value(slot) && fieldOfAddr(fa) == f
			}
		}
		return false
	}, stable
}
