package main

import (
	"fmt"
	"go/constant"
	"go/token"
	"go/types"

	"golang.org/x/tools/go/ssa"
)

// K8: path-sensitive constant propagation of a loop-free, effect-free predicate function over a
// finite abstract domain. Values are either constants (go/constant) or opaque symbols with a
// canonical name ("t", "c.details.notAfter"); calls are resolved by an oracle over those names
// (e.g. the order relation chosen for two time values). No concrete time, address or counter is
// ever formed; the interpreter only follows the branches the abstract input determines.

type AVal struct {
	K   constant.Value // non-nil: a constant
	Sym string         // else: opaque symbol
	Nil bool
	Tup []AVal
}

func (a AVal) String() string {
	if a.K != nil {
		return a.K.String()
	}
	if a.Nil {
		return "nil"
	}
	if a.Tup != nil {
		return fmt.Sprint(a.Tup)
	}
	return a.Sym
}

func aBool(b bool) AVal   { return AVal{K: constant.MakeBool(b)} }
func aInt(i int64) AVal   { return AVal{K: constant.MakeInt64(i)} }
func aSym(s string) AVal  { return AVal{Sym: s} }
func (a AVal) isConst() bool { return a.K != nil }

type AbsEnv struct {
	Params map[string]AVal // by parameter name; missing => symbol named after the parameter
	// Oracle resolves a call; ok=false => undecided.
	Oracle func(callee *types.Func, args []AVal) (AVal, bool)
	// Load resolves a symbolic load (field path / global); ok=false => opaque symbol of that name.
	Load func(name string) (AVal, bool)
	// SymCmp resolves a comparison between two opaque symbols; ok=false => undecided
	SymCmp func(op token.Token, a, b AVal) (bool, bool)
	MaxSteps int
	// Effects, when non-nil, receives "addr=value" for every store to non-local memory instead
	// of the evaluation being abandoned (the predicate is then "effect-recording", not pure).
	Effects *[]string
	// OpaqueCalls: calls the oracle does not resolve yield opaque symbols (logging etc.).
	OpaqueCalls bool
}

type absState struct {
	env   *AbsEnv
	vals  map[ssa.Value]AVal
	mem   map[ssa.Value]AVal // local allocs
	steps int
}

// absEval runs fn under env; returns the result tuple, or an error string when the function leaves
// the supported fragment (loop, store to non-local memory, unresolved call or branch).
func absEval(fn *ssa.Function, env *AbsEnv) ([]AVal, string) {
	st := &absState{env: env, vals: map[ssa.Value]AVal{}, mem: map[ssa.Value]AVal{}}
	if env.MaxSteps == 0 {
		env.MaxSteps = 4000
	}
	for _, p := range fn.Params {
		if v, ok := env.Params[p.Name()]; ok {
			st.vals[p] = v
		} else {
			st.vals[p] = aSym(p.Name())
		}
	}
	var prev *ssa.BasicBlock
	b := fn.Blocks[0]
	visits := map[*ssa.BasicBlock]int{}
	for {
		visits[b]++
		if visits[b] > 64 {
			return nil, "loop"
		}
		for _, in := range b.Instrs {
			st.steps++
			if st.steps > env.MaxSteps {
				return nil, "step limit"
			}
			switch x := in.(type) {
			case *ssa.Phi:
				idx := -1
				for i, p := range b.Preds {
					if p == prev {
						idx = i
					}
				}
				if idx < 0 {
					return nil, "phi without predecessor"
				}
				v, err := st.get(x.Edges[idx])
				if err != "" {
					return nil, err
				}
				st.vals[x] = v
			case *ssa.If:
				cv, err := st.get(x.Cond)
				if err != "" {
					return nil, err
				}
				if !cv.isConst() || cv.K.Kind() != constant.Bool {
					return nil, "branch on undetermined value " + cv.String() + " at " + x.Cond.String()
				}
				prev = b
				if constant.BoolVal(cv.K) {
					b = b.Succs[0]
				} else {
					b = b.Succs[1]
				}
				goto next
			case *ssa.Jump:
				prev = b
				b = b.Succs[0]
				goto next
			case *ssa.Return:
				var out []AVal
				for _, r := range x.Results {
					v, err := st.get(r)
					if err != "" {
						return nil, err
					}
					out = append(out, v)
				}
				return out, ""
			case *ssa.Store:
				root, _ := addrRoot(x.Addr)
				if _, ok := root.(*ssa.Alloc); !ok {
					if env.Effects == nil {
						return nil, "store to non-local memory"
					}
					av, err := st.get(x.Addr)
					if err != "" {
						return nil, err
					}
					vv, err := st.get(x.Val)
					if err != "" {
						return nil, err
					}
					*env.Effects = append(*env.Effects, trimAmp(av.String())+"="+vv.String())
					continue
				}
				v, err := st.get(x.Val)
				if err != "" {
					return nil, err
				}
				st.mem[x.Addr] = v
			case *ssa.DebugRef:
			case *ssa.Panic:
				return nil, "panic"
			case ssa.Value:
				v, err := st.eval(x)
				if err != "" {
					return nil, err
				}
				st.vals[x] = v
			default:
				return nil, fmt.Sprintf("unsupported instruction %T", in)
			}
		}
		return nil, "fell off block"
	next:
	}
}

func (st *absState) get(v ssa.Value) (AVal, string) {
	if a, ok := st.vals[v]; ok {
		return a, ""
	}
	switch x := v.(type) {
	case *ssa.Const:
		if x.Value == nil {
			return AVal{Nil: true}, ""
		}
		return AVal{K: x.Value}, ""
	case *ssa.Global:
		return aSym("&" + x.Name()), ""
	case *ssa.Function:
		return aSym("func:" + x.Name()), ""
	}
	return AVal{}, "value not available: " + v.String()
}

func (st *absState) load(name string) AVal {
	if st.env.Load != nil {
		if v, ok := st.env.Load(name); ok {
			return v
		}
	}
	return aSym(name)
}

func (st *absState) eval(v ssa.Value) (AVal, string) {
	switch x := v.(type) {
	case *ssa.Alloc:
		return aSym(fmt.Sprintf("&local%p", x)), ""
	case *ssa.FieldAddr:
		b, err := st.get(x.X)
		if err != "" {
			return AVal{}, err
		}
		f := fieldOfAddr(x)
		return aSym("&" + trimAmp(b.String()) + "." + f.Name()), ""
	case *ssa.Field:
		b, err := st.get(x.X)
		if err != "" {
			return AVal{}, err
		}
		return st.load(b.String() + "." + fieldOfVal(x).Name()), ""
	case *ssa.UnOp:
		a, err := st.get(x.X)
		if err != "" {
			return AVal{}, err
		}
		switch x.Op {
		case token.MUL:
			if m, ok := st.mem[x.X]; ok {
				return m, ""
			}
			if a.Sym != "" && a.Sym[0] == '&' {
				return st.load(a.Sym[1:]), ""
			}
			return st.load("*" + a.String()), ""
		case token.NOT:
			if a.isConst() {
				return aBool(!constant.BoolVal(a.K)), ""
			}
			return AVal{}, "! of undetermined value"
		case token.SUB, token.XOR:
			if a.isConst() {
				return AVal{K: constant.UnaryOp(x.Op, a.K, 0)}, ""
			}
			return aSym(x.Op.String() + a.String()), ""
		}
	case *ssa.BinOp:
		a, err := st.get(x.X)
		if err != "" {
			return AVal{}, err
		}
		b, err := st.get(x.Y)
		if err != "" {
			return AVal{}, err
		}
		switch x.Op {
		case token.EQL, token.NEQ, token.LSS, token.LEQ, token.GTR, token.GEQ:
			if a.isConst() && b.isConst() {
				return aBool(constant.Compare(a.K, x.Op, b.K)), ""
			}
			if a.Nil || b.Nil {
				if a.Nil && b.Nil {
					return aBool(x.Op == token.EQL), ""
				}
			}
			if st.env.SymCmp != nil {
				if r, ok := st.env.SymCmp(x.Op, a, b); ok {
					return aBool(r), ""
				}
			}
			return AVal{}, fmt.Sprintf("comparison of undetermined values %s %s %s", a, x.Op, b)
		default:
			if a.isConst() && b.isConst() {
				if x.Op == token.SHL || x.Op == token.SHR {
					s, _ := constant.Uint64Val(b.K)
					return AVal{K: constant.Shift(a.K, x.Op, uint(s))}, ""
				}
				op := x.Op
				if op == token.QUO && a.K.Kind() == constant.Int {
					op = token.QUO_ASSIGN
				}
				return AVal{K: constant.BinaryOp(a.K, op, b.K)}, ""
			}
			return aSym("(" + a.String() + x.Op.String() + b.String() + ")"), ""
		}
	case *ssa.Convert:
		return st.get(x.X)
	case *ssa.ChangeType:
		return st.get(x.X)
	case *ssa.ChangeInterface:
		return st.get(x.X)
	case *ssa.MakeInterface:
		return st.get(x.X)
	case *ssa.Extract:
		t, err := st.get(x.Tuple)
		if err != "" {
			return AVal{}, err
		}
		if t.Tup == nil || x.Index >= len(t.Tup) {
			return aSym(fmt.Sprintf("%s#%d", t, x.Index)), ""
		}
		return t.Tup[x.Index], ""
	case *ssa.Call:
		var args []AVal
		for _, a := range callArgs(x) {
			av, err := st.get(a)
			if err != "" {
				return AVal{}, err
			}
			args = append(args, av)
		}
		if bn := builtinName(x); bn != "" {
			return aSym(bn + "(" + fmt.Sprint(args) + ")"), ""
		}
		o := calleeObj(x)
		if o == nil {
			if st.env.OpaqueCalls {
				return aSym("dyn()"), ""
			}
			return AVal{}, "dynamic call"
		}
		if st.env.Oracle != nil {
			if r, ok := st.env.Oracle(o, args); ok {
				return r, ""
			}
		}
		if o.Pkg() != nil {
			switch o.Pkg().Path() + "." + o.Name() {
			case "fmt.Errorf", "errors.New":
				return aSym("error!"), "" // a fresh non-nil error
			}
		}
		if st.env.OpaqueCalls {
			if tup, ok := x.Type().(*types.Tuple); ok && tup.Len() > 1 {
				r := AVal{}
				for i := 0; i < tup.Len(); i++ {
					r.Tup = append(r.Tup, aSym(fmt.Sprintf("%s()#%d", o.Name(), i)))
				}
				return r, ""
			}
			return aSym(o.Name() + "()"), ""
		}
		return AVal{}, "unresolved call to " + o.FullName()
	case *ssa.IndexAddr:
		b, err := st.get(x.X)
		if err != "" {
			return AVal{}, err
		}
		i, err := st.get(x.Index)
		if err != "" {
			return AVal{}, err
		}
		return aSym("&" + trimAmp(b.String()) + "[" + i.String() + "]"), ""
	case *ssa.Lookup, *ssa.Index, *ssa.Slice, *ssa.TypeAssert, *ssa.MakeMap, *ssa.MakeSlice, *ssa.MakeClosure, *ssa.MakeChan:
		return aSym(v.Name()), ""
	}
	return AVal{}, fmt.Sprintf("unsupported value %T", v)
}

func trimAmp(s string) string {
	if len(s) > 0 && s[0] == '&' {
		return s[1:]
	}
	return s
}
