package main

import (
	"fmt"
	"go/constant"
	"go/token"
	"go/types"
	"sort"
	"strings"

	"golang.org/x/tools/go/ssa"
)

// Generic helpers added with C37/C38/C48 (prefix g6 so they cannot collide).

// g6AbsEval is absEval for closures: pre supplies the abstract value of free variables (and may
// override parameters). Same fragment, same answers ("" error = evaluated).
func g6AbsEval(fn *ssa.Function, env *AbsEnv, pre map[ssa.Value]AVal) ([]AVal, string) {
	st := &absState{env: env, vals: map[ssa.Value]AVal{}, mem: map[ssa.Value]AVal{}}
	if env.MaxSteps == 0 {
		env.MaxSteps = 4000
	}
	for _, p := range fn.Params {
		if v, ok := env.Params[p.Name()]; ok {
			st.vals[p] = v
		} else {
			st.vals[p] = aSym(p.Name())
		}
	}
	for _, fv := range fn.FreeVars {
		st.vals[fv] = aSym("&free:" + fv.Name())
	}
	for k, v := range pre {
		st.vals[k] = v
	}
	var prev *ssa.BasicBlock
	b := fn.Blocks[0]
	visits := map[*ssa.BasicBlock]int{}
	for {
		visits[b]++
		if visits[b] > 64 {
			return nil, "loop"
		}
		var next *ssa.BasicBlock
		for _, in := range b.Instrs {
			st.steps++
			if st.steps > env.MaxSteps {
				return nil, "step limit"
			}
			switch x := in.(type) {
			case *ssa.Phi:
				idx := -1
				for i, p := range b.Preds {
					if p == prev {
						idx = i
					}
				}
				if idx < 0 {
					return nil, "phi without predecessor"
				}
				v, err := st.get(x.Edges[idx])
				if err != "" {
					return nil, err
				}
				st.vals[x] = v
			case *ssa.If:
				cv, err := st.get(x.Cond)
				if err != "" {
					return nil, err
				}
				if !cv.isConst() || cv.K.Kind() != constant.Bool {
					return nil, "branch on undetermined value " + cv.String() + " at " + x.Cond.String()
				}
				if constant.BoolVal(cv.K) {
					next = b.Succs[0]
				} else {
					next = b.Succs[1]
				}
			case *ssa.Jump:
				next = b.Succs[0]
			case *ssa.Return:
				var out []AVal
				for _, r := range x.Results {
					v, err := st.get(r)
					if err != "" {
						return nil, err
					}
					out = append(out, v)
				}
				return out, ""
			case *ssa.Store:
				root, _ := addrRoot(x.Addr)
				if _, ok := root.(*ssa.Alloc); !ok {
					return nil, "store to non-local memory"
				}
				v, err := st.get(x.Val)
				if err != "" {
					return nil, err
				}
				st.mem[x.Addr] = v
			case *ssa.DebugRef:
			case *ssa.Panic:
				return nil, "panic"
			case ssa.Value:
				v, err := st.eval(x)
				if err != "" {
					return nil, err
				}
				st.vals[x] = v
			default:
				return nil, "unsupported instruction"
			}
			if next != nil {
				break
			}
		}
		if next == nil {
			return nil, "fell off block"
		}
		prev, b = b, next
	}
}

// g6Returns lists the return instructions of fn in source order.
func g6Returns(fn *ssa.Function) []*ssa.Return {
	var out []*ssa.Return
	for _, b := range fn.Blocks {
		if len(b.Instrs) == 0 {
			continue
		}
		if r, ok := b.Instrs[len(b.Instrs)-1].(*ssa.Return); ok {
			out = append(out, r)
		}
	}
	sort.SliceStable(out, func(i, j int) bool { return out[i].Pos() < out[j].Pos() })
	return out
}

// g6RefOf names a declared function/method as a Ref (nil-safe: ok=false for closures/synthetics).
func g6RefOf(fn *ssa.Function) (Ref, bool) {
	o := fnObj(fn)
	if o == nil || o.Pkg() == nil {
		return Ref{}, false
	}
	r := Ref{Pkg: o.Pkg().Path(), Name: o.Name()}
	if sig := o.Type().(*types.Signature); sig.Recv() != nil {
		n := recvNamed(sig.Recv().Type())
		if n == nil {
			return Ref{}, false
		}
		r.Recv = n.Obj().Name()
	}
	if r.Pkg == nebulaMod {
		r.Pkg = ""
	} else if len(r.Pkg) > len(nebulaMod) && r.Pkg[:len(nebulaMod)+1] == nebulaMod+"/" {
		r.Pkg = r.Pkg[len(nebulaMod)+1:]
	}
	return r, true
}

// g6RecvIs: fn is a method declared on the named type n (pointer or value receiver).
func g6RecvIs(fn *ssa.Function, n *types.Named) bool {
	if fn == nil || n == nil || fn.Signature.Recv() == nil {
		return false
	}
	r := recvNamed(fn.Signature.Recv().Type())
	return r != nil && r.Obj() == n.Obj()
}

// g6FieldReadSites: instructions in fn that read field f (loads of &x.f, or any other use of the
// address except a plain store into it; value-struct Field extractions).
func g6FieldReadSites(fn *ssa.Function, f *types.Var) []ssa.Instruction {
	var out []ssa.Instruction
	eachInstr(fn, func(in ssa.Instruction) {
		switch x := in.(type) {
		case *ssa.FieldAddr:
			if fieldOfAddr(x) != f || x.Referrers() == nil {
				return
			}
			for _, r := range *x.Referrers() {
				if st, ok := r.(*ssa.Store); ok && st.Addr == x {
					continue
				}
				if _, ok := r.(*ssa.DebugRef); ok {
					continue
				}
				out = append(out, r)
			}
		case *ssa.Field:
			if fieldOfVal(x) == f {
				out = append(out, x)
			}
		}
	})
	return out
}

// g6FieldAddrOfSite: the &x.f an instruction returned by g6FieldReadSites / a store works on.
func g6FieldAddrOfSite(in ssa.Instruction, f *types.Var) *ssa.FieldAddr {
	var ops []*ssa.Value
	for _, op := range in.Operands(ops) {
		if op == nil || *op == nil {
			continue
		}
		if fa, ok := (*op).(*ssa.FieldAddr); ok && fieldOfAddr(fa) == f {
			return fa
		}
	}
	return nil
}

// g6StoresToField: plain stores `x.f = v` in fn.
func g6StoresToField(fn *ssa.Function, f *types.Var) []*ssa.Store {
	var out []*ssa.Store
	eachInstr(fn, func(in ssa.Instruction) {
		if st, ok := in.(*ssa.Store); ok {
			if fa, ok := st.Addr.(*ssa.FieldAddr); ok && fieldOfAddr(fa) == f {
				out = append(out, st)
			}
		}
	})
	return out
}

// g6AppendChain walks an accumulated slice value back through phis and append(acc, ...) calls
// and returns the append calls met and the terminal values the accumulation starts from.
func g6AppendChain(v ssa.Value) (appends []*ssa.Call, bases []ssa.Value) {
	seen := map[ssa.Value]bool{}
	var walk func(v ssa.Value)
	walk = func(v ssa.Value) {
		if v == nil || seen[v] {
			return
		}
		seen[v] = true
		switch x := v.(type) {
		case *ssa.Phi:
			for _, e := range x.Edges {
				walk(e)
			}
			return
		case *ssa.Call:
			if builtinName(x) == "append" {
				appends = append(appends, x)
				walk(x.Call.Args[0])
				return
			}
		}
		bases = append(bases, v)
	}
	walk(v)
	sort.SliceStable(appends, func(i, j int) bool { return appends[i].Pos() < appends[j].Pos() })
	return
}

// g6AppendedValues: the element values a call append(acc, e1, e2...) adds (through the varargs
// array go/ssa materialises), or the spread slice itself for append(acc, s...).
func g6AppendedValues(call *ssa.Call) []ssa.Value {
	if len(call.Call.Args) < 2 {
		return nil
	}
	tail := call.Call.Args[1]
	if sl, ok := tail.(*ssa.Slice); ok {
		if al, ok := sl.X.(*ssa.Alloc); ok && al.Referrers() != nil {
			var out []ssa.Value
			for _, r := range *al.Referrers() {
				if ia, ok := r.(*ssa.IndexAddr); ok && ia.Referrers() != nil {
					for _, q := range *ia.Referrers() {
						if st, ok := q.(*ssa.Store); ok && st.Addr == ia {
							out = append(out, st.Val)
						}
					}
				}
			}
			if len(out) > 0 {
				return out
			}
		}
	}
	return []ssa.Value{tail}
}

// g6ZeroLen: v is syntactically an empty slice: x[:0], make(T, 0, ...), nil.
func g6ZeroLen(v ssa.Value) bool {
	switch x := v.(type) {
	case *ssa.Slice:
		if x.High == nil {
			return false
		}
		h, ok := constInt(x.High)
		if !ok || h != 0 {
			return false
		}
		if x.Low != nil {
			l, ok := constInt(x.Low)
			return ok && l == 0
		}
		return true
	case *ssa.MakeSlice:
		l, ok := constInt(x.Len)
		return ok && l == 0
	case *ssa.Const:
		return x.Value == nil
	}
	return false
}

// g6FieldVarsIn: every struct field (as object) appearing in v's backward slice.
func g6FieldVarsIn(v ssa.Value, o SliceOpts) map[*types.Var]bool {
	out := map[*types.Var]bool{}
	backSlice(v, o, func(x ssa.Value) {
		switch f := x.(type) {
		case *ssa.FieldAddr:
			out[fieldOfAddr(f)] = true
		case *ssa.Field:
			out[fieldOfVal(f)] = true
		}
	})
	return out
}

// g6CoveredBy: every entry->return path of fn that executes `site` also executes an instruction
// satisfying mark (before or after the site). Returns false with the position class that escapes.
func (c *Ctx) g6CoveredBy(fn *ssa.Function, site ssa.Instruction, mark func(ssa.Instruction) bool) bool {
	if before, _ := c.avoidsCut(fn, nil, site, mark); !before {
		return true
	}
	for _, r := range g6Returns(fn) {
		if after, _ := c.avoidsCut(fn, site, r, mark); after {
			return false
		}
	}
	return true
}

// g6IsCallTo: in is a call (not go/defer) to one of refs.
func g6IsCallTo(refs ...Ref) func(ssa.Instruction) bool {
	return func(in ssa.Instruction) bool {
		ci, ok := in.(*ssa.Call)
		return ok && matchAny(calleeObj(ci), refs)
	}
}

// g6FuncArg resolves a function-typed call argument to the function it denotes (closure,
// declared function, bound method), or nil.
func g6FuncArg(v ssa.Value) *ssa.Function {
	switch x := stripValue(v).(type) {
	case *ssa.MakeClosure:
		f, _ := x.Fn.(*ssa.Function)
		return f
	case *ssa.Function:
		return x
	}
	return nil
}

// g6LoadOfCell: v is a load of local cell al (or al itself).
func g6LoadOfCell(v ssa.Value, al ssa.Value) bool {
	v = stripValue(v)
	if v == al {
		return true
	}
	u, ok := v.(*ssa.UnOp)
	return ok && u.Op == token.MUL && u.X == al
}

// g6IsParamValue: v is parameter p, or a load of the local cell p was spilled into (captured /
// address-taken parameters are moved to a `new T (p)` cell by go/ssa).
func g6IsParamValue(v ssa.Value, p *ssa.Parameter) bool {
	v = stripValue(v)
	if v == ssa.Value(p) {
		return true
	}
	u, ok := v.(*ssa.UnOp)
	if !ok || u.Op != token.MUL {
		return false
	}
	al, ok := u.X.(*ssa.Alloc)
	if !ok {
		return false
	}
	vals := storesInto(al)
	if len(vals) != 1 {
		return false
	}
	return vals[0] == ssa.Value(p)
}

// g6Avoids reports whether some path from just after `from` (function entry when nil) reaches
// `to` without executing an instruction satisfying cut and without crossing one of edges.
func (c *Ctx) g6Avoids(fn *ssa.Function, from, to ssa.Instruction, cut func(ssa.Instruction) bool, edges map[Edge]bool) (bool, []string) {
	prev := map[*ssa.BasicBlock]*ssa.BasicBlock{}
	seen := map[*ssa.BasicBlock]bool{}
	type item struct {
		b     *ssa.BasicBlock
		start int
	}
	var queue []item
	if from == nil {
		queue = append(queue, item{fn.Blocks[0], 0})
		seen[fn.Blocks[0]] = true
		prev[fn.Blocks[0]] = nil
	} else {
		b := from.Block()
		for i, in := range b.Instrs {
			if in == from {
				queue = append(queue, item{b, i + 1})
			}
		}
		prev[b] = nil
	}
	for len(queue) > 0 {
		it := queue[0]
		queue = queue[1:]
		stopped := false
		for i := it.start; i < len(it.b.Instrs); i++ {
			in := it.b.Instrs[i]
			if in == to {
				return true, c.blockPath(prev, it.b)
			}
			if cut(in) {
				stopped = true
				break
			}
		}
		if stopped {
			continue
		}
		for i, s := range it.b.Succs {
			if edges[Edge{it.b, i}] || seen[s] {
				continue
			}
			seen[s] = true
			if _, ok := prev[s]; !ok {
				prev[s] = it.b
			}
			queue = append(queue, item{s, 0})
		}
	}
	return false, nil
}

// ---------------------------------------------------------------------------------------
// g6Run: abstract runner for folds (a loop that updates a small state per element, followed by a
// decision on the final state). It is absEval's fragment plus (1) string-addressed local memory,
// so that stores through a pointer phi (`rules = &rules4 | &rules6`) and later loads of the same
// field alias correctly, (2) zero-initialised struct allocations, (3) start / stop control so the
// prelude, one loop iteration and the exit can be evaluated separately from a given abstract
// state, (4) a log of the calls met. Values stay constants or opaque symbols; nothing concrete is
// formed. The caller explores the (finite) abstract state space to a fixpoint.

type g6CallRec struct {
	Callee *types.Func
	Args   []AVal
}

type g6Run struct {
	fn      *ssa.Function
	st      *absState
	mem     map[string]AVal
	pre     map[ssa.Value]AVal // overrides: value instructions listed here are not evaluated
	Calls   []g6CallRec
	Escaped string // a call into the nebula module that the oracle did not model
	Prev    *ssa.BasicBlock
	user    *AbsEnv
}

func g6NewRun(fn *ssa.Function, env *AbsEnv, pre map[ssa.Value]AVal) *g6Run {
	r := &g6Run{fn: fn, mem: map[string]AVal{}, pre: map[ssa.Value]AVal{}, user: env}
	r.bind(map[ssa.Value]AVal{})
	for _, p := range fn.Params {
		if v, ok := env.Params[p.Name()]; ok {
			r.st.vals[p] = v
		} else {
			r.st.vals[p] = aSym(p.Name())
		}
	}
	for _, fv := range fn.FreeVars {
		r.st.vals[fv] = aSym("&free:" + fv.Name())
	}
	for k, v := range pre {
		r.set(k, v)
	}
	return r
}

// bind builds the evaluator state of r around the user's environment: calls are logged, calls
// into the nebula module the user oracle does not model are flagged, loads go to r's memory first.
func (r *g6Run) bind(vals map[ssa.Value]AVal) {
	e := *r.user
	if e.MaxSteps == 0 {
		e.MaxSteps = 20000
	}
	e.OpaqueCalls = true
	e.Oracle = func(o *types.Func, args []AVal) (AVal, bool) {
		r.Calls = append(r.Calls, g6CallRec{o, args})
		if r.user.Oracle != nil {
			if v, ok := r.user.Oracle(o, args); ok {
				return v, true
			}
		}
		if o.Pkg() != nil && strings.HasPrefix(o.Pkg().Path(), nebulaMod) && r.Escaped == "" {
			r.Escaped = "call to " + o.FullName() + " is not modelled"
		}
		return AVal{}, false
	}
	e.Load = func(name string) (AVal, bool) {
		if v, ok := r.mem[name]; ok {
			return v, true
		}
		if r.user.Load != nil {
			return r.user.Load(name)
		}
		return AVal{}, false
	}
	r.st = &absState{env: &e, vals: vals, mem: map[ssa.Value]AVal{}}
}

// clone copies the abstract state (values and memory); the call log starts empty. env, when
// non-nil, replaces the user environment (a different abstract input for the next segment).
func (r *g6Run) clone(env *AbsEnv) *g6Run {
	n := &g6Run{fn: r.fn, mem: map[string]AVal{}, pre: map[ssa.Value]AVal{}, Prev: r.Prev, user: r.user}
	if env != nil {
		n.user = env
	}
	for k, v := range r.mem {
		n.mem[k] = v
	}
	for k, v := range r.pre {
		n.pre[k] = v
	}
	vals := map[ssa.Value]AVal{}
	for k, v := range r.st.vals {
		vals[k] = v
	}
	n.bind(vals)
	return n
}

func (r *g6Run) set(v ssa.Value, a AVal)        { r.pre[v] = a; r.st.vals[v] = a }
func (r *g6Run) val(v ssa.Value) (AVal, string) { return r.st.get(v) }

func g6ZeroOf(t types.Type) (AVal, bool) {
	switch u := t.Underlying().(type) {
	case *types.Basic:
		switch {
		case u.Info()&types.IsBoolean != 0:
			return aBool(false), true
		case u.Info()&types.IsInteger != 0:
			return aInt(0), true
		case u.Info()&types.IsString != 0:
			return AVal{K: constant.MakeString("")}, true
		}
	case *types.Pointer, *types.Slice, *types.Map, *types.Interface, *types.Signature, *types.Chan:
		return AVal{Nil: true}, true
	}
	return AVal{}, false
}

// run evaluates from block start (entered from `from`, which selects phi edges) until a Return
// (ret != nil), until stop(b) holds for a block about to be entered (stopped = b), or until the
// fragment is left (err != "").
func (r *g6Run) run(start, from *ssa.BasicBlock, stop func(*ssa.BasicBlock) bool) (ret []AVal, stopped *ssa.BasicBlock, err string) {
	st := r.st
	prev, b := from, start
	visits := map[*ssa.BasicBlock]int{}
	first := true
	for {
		if !first && stop != nil && stop(b) {
			r.Prev = prev
			return nil, b, ""
		}
		first = false
		visits[b]++
		if visits[b] > 64 {
			return nil, nil, "loop"
		}
		var next *ssa.BasicBlock
		for _, in := range b.Instrs {
			st.steps++
			if st.steps > st.env.MaxSteps {
				return nil, nil, "step limit"
			}
			if v, isV := in.(ssa.Value); isV {
				if _, over := r.pre[v]; over {
					continue
				}
			}
			switch x := in.(type) {
			case *ssa.Phi:
				idx := -1
				for i, p := range b.Preds {
					if p == prev {
						idx = i
					}
				}
				if idx < 0 {
					return nil, nil, "phi without predecessor"
				}
				v, e := st.get(x.Edges[idx])
				if e != "" {
					return nil, nil, e
				}
				st.vals[x] = v
			case *ssa.If:
				cv, e := st.get(x.Cond)
				if e != "" {
					return nil, nil, e
				}
				if !cv.isConst() || cv.K.Kind() != constant.Bool {
					return nil, nil, "branch on undetermined value " + cv.String() + " at " + x.Cond.String()
				}
				if constant.BoolVal(cv.K) {
					next = b.Succs[0]
				} else {
					next = b.Succs[1]
				}
			case *ssa.Jump:
				next = b.Succs[0]
			case *ssa.Return:
				var out []AVal
				for i := range x.Results {
					v, e := st.get(retResult(x, i))
					if e != "" {
						return nil, nil, e
					}
					out = append(out, v)
				}
				r.Prev = prev
				return out, nil, ""
			case *ssa.Store:
				av, e := st.get(x.Addr)
				if e != "" {
					return nil, nil, e
				}
				v, e := st.get(x.Val)
				if e != "" {
					return nil, nil, e
				}
				if av.Sym == "" || av.Sym[0] != '&' {
					return nil, nil, "store through undetermined address " + av.String()
				}
				dst := av.Sym[1:]
				if s, ok := x.Val.Type().Underlying().(*types.Struct); ok && v.Sym != "" {
					// struct copy: field by field (unknown source fields become symbols)
					for i := 0; i < s.NumFields(); i++ {
						f := s.Field(i).Name()
						if fv, ok := r.mem[v.Sym+"."+f]; ok {
							r.mem[dst+"."+f] = fv
						} else {
							r.mem[dst+"."+f] = aSym(v.Sym + "." + f)
						}
					}
				}
				r.mem[dst] = v
			case *ssa.UnOp:
				if s, ok := x.Type().Underlying().(*types.Struct); ok && x.Op == token.MUL {
					// struct load: snapshot the fields under the register's own name
					av, e := st.get(x.X)
					if e != "" {
						return nil, nil, e
					}
					if av.Sym != "" && av.Sym[0] == '&' {
						src, snap := av.Sym[1:], "val:"+x.Name()
						for i := 0; i < s.NumFields(); i++ {
							f := s.Field(i).Name()
							if fv, ok := r.mem[src+"."+f]; ok {
								r.mem[snap+"."+f] = fv
							} else {
								r.mem[snap+"."+f] = aSym(src + "." + f)
							}
						}
						st.vals[x] = aSym(snap)
						break
					}
				}
				v, e := st.eval(x)
				if e != "" {
					return nil, nil, e
				}
				st.vals[x] = v
			case *ssa.MapUpdate, *ssa.DebugRef, *ssa.Defer, *ssa.RunDefers, *ssa.Go:
			case *ssa.Panic:
				return nil, nil, "panic"
			case *ssa.Alloc:
				v, e := st.eval(x)
				if e != "" {
					return nil, nil, e
				}
				st.vals[x] = v
				base := v.Sym[1:]
				elem := x.Type().Underlying().(*types.Pointer).Elem()
				if s, ok := elem.Underlying().(*types.Struct); ok {
					for i := 0; i < s.NumFields(); i++ {
						if z, ok := g6ZeroOf(s.Field(i).Type()); ok {
							r.mem[base+"."+s.Field(i).Name()] = z
						}
					}
				} else if z, ok := g6ZeroOf(elem); ok {
					r.mem[base] = z
				}
			case *ssa.Range:
				st.vals[x] = aSym("range:" + x.Name())
			case *ssa.Next:
				st.vals[x] = aSym("next:" + x.Name())
			case ssa.Value:
				v, e := st.eval(x)
				if e != "" {
					return nil, nil, e
				}
				st.vals[x] = v
			default:
				return nil, nil, "unsupported instruction"
			}
			if next != nil {
				break
			}
		}
		if next == nil {
			return nil, nil, "fell off block"
		}
		prev, b = b, next
	}
}

// memKey renders the memory (restricted by keep) canonically, for state hashing.
func (r *g6Run) memKey(keep func(string) bool) string {
	var ks []string
	for k := range r.mem {
		if keep == nil || keep(k) {
			ks = append(ks, k)
		}
	}
	sort.Strings(ks)
	s := ""
	for _, k := range ks {
		s += k + "=" + r.mem[k].String() + ";"
	}
	return s
}

// g6LocalName: the symbolic name absState gives the cell of a local allocation.
func (r *g6Run) localName(al *ssa.Alloc) string {
	v, _ := r.st.get(al)
	if v.Sym != "" && v.Sym[0] == '&' {
		return v.Sym[1:]
	}
	return ""
}

// ---------------------------------------------------------------------------------------
// fold exploration

// g6Fold describes `prelude; for elem := range coll { body }; exit` with exactly one loop.
type g6Fold struct {
	Fn     *ssa.Function
	Header *ssa.BasicBlock
	Body   *ssa.BasicBlock
	Done   *ssa.BasicBlock
	Next   *ssa.Next // map / string iteration: the tuple producer in the header (nil for index loops)
}

// g6FindFold recognises a function whose only loop is a range loop.
func g6FindFold(fn *ssa.Function) (*g6Fold, string) {
	loops := naturalLoops(fn)
	if len(loops) != 1 {
		return nil, fmt.Sprintf("expected exactly one loop, found %d", len(loops))
	}
	h := loops[0].Header
	ifi, ok := h.Instrs[len(h.Instrs)-1].(*ssa.If)
	if !ok || len(h.Succs) != 2 {
		return nil, "loop header does not end in a two-way branch"
	}
	_ = ifi
	f := &g6Fold{Fn: fn, Header: h}
	switch {
	case loops[0].Body[h.Succs[0]] && !loops[0].Body[h.Succs[1]]:
		f.Body, f.Done = h.Succs[0], h.Succs[1]
	case loops[0].Body[h.Succs[1]] && !loops[0].Body[h.Succs[0]]:
		f.Body, f.Done = h.Succs[1], h.Succs[0]
	default:
		return nil, "loop header does not separate body and exit"
	}
	for _, in := range h.Instrs {
		if nx, ok := in.(*ssa.Next); ok {
			f.Next = nx
		}
	}
	return f, ""
}

// enterHeader evaluates the header for one more visit: state phis get the given values, other
// phis become opaque, the iteration tuple is `elem`, the remaining header values are evaluated.
func (r *g6Run) enterHeader(f *g6Fold, phis map[*ssa.Phi]AVal, elem AVal) string {
	for _, in := range f.Header.Instrs {
		switch x := in.(type) {
		case *ssa.Phi:
			if v, ok := phis[x]; ok {
				r.st.vals[x] = v
			} else {
				r.st.vals[x] = aSym("phi:" + x.Name())
			}
		case *ssa.Next:
			r.st.vals[x] = elem
		case *ssa.If, *ssa.DebugRef:
		case ssa.Value:
			v, e := r.st.eval(x)
			if e != "" {
				return e
			}
			r.st.vals[x] = v
		}
	}
	return ""
}

// statePhis: the loop-carried booleans (the fold's state held in registers).
func (f *g6Fold) statePhis() []*ssa.Phi {
	var out []*ssa.Phi
	for _, in := range f.Header.Instrs {
		if p, ok := in.(*ssa.Phi); ok {
			if b, ok := p.Type().Underlying().(*types.Basic); ok && b.Info()&types.IsBoolean != 0 {
				out = append(out, p)
			}
		}
	}
	return out
}

func (r *g6Run) phisVia(f *g6Fold, pred *ssa.BasicBlock) (map[*ssa.Phi]AVal, string) {
	out := map[*ssa.Phi]AVal{}
	idx := -1
	for i, p := range f.Header.Preds {
		if p == pred {
			idx = i
		}
	}
	if idx < 0 {
		return nil, "loop header entered from an unknown predecessor"
	}
	for _, p := range f.statePhis() {
		v, e := r.st.get(p.Edges[idx])
		if e != "" {
			return nil, e
		}
		if !v.isConst() {
			return nil, "loop-carried boolean " + p.Name() + " is not determined by the abstract input"
		}
		out[p] = v
	}
	return out, ""
}

// g6FoldSpec drives the exploration: nIn abstract element classes; Env(i) the environment for an
// element of class i (i == -1: prelude and exit); Elem(i) the iteration tuple; the reference
// summary is a string state advanced by Step; OnIter / OnExit compare one evaluated segment with
// the reference and return complaints ("tag: text").
type g6FoldSpec struct {
	NIn    int
	Env    func(i int) *AbsEnv
	Pre    func(fn *ssa.Function) map[ssa.Value]AVal
	Elem   func(i int) AVal
	Init   string
	Step   func(spec string, i int) string
	OnIter func(i int, r *g6Run, ret []AVal, before, after string) []string
	OnExit func(r *g6Run, ret []AVal, spec string) []string
}

// g6ExploreFold computes the reachable (abstract implementation state, reference summary) pairs
// to a fixpoint and checks every transition and every exit. Returns the number of pairs, the
// complaints, and a non-empty error when the function leaves the supported fragment.
func g6ExploreFold(f *g6Fold, sp *g6FoldSpec) (int, []string, string) {
	type node struct {
		r    *g6Run
		phis map[*ssa.Phi]AVal
		spec string
	}
	key := func(n node) string {
		s := n.r.memKey(nil)
		var ps []string
		for p, v := range n.phis {
			ps = append(ps, p.Name()+"="+v.String())
		}
		sort.Strings(ps)
		return s + "|" + strings.Join(ps, ",") + "|" + n.spec
	}
	r0 := g6NewRun(f.Fn, sp.Env(-1), sp.Pre(f.Fn))
	ret, stopped, err := r0.run(f.Fn.Blocks[0], nil, func(b *ssa.BasicBlock) bool { return b == f.Header })
	if err != "" {
		return 0, nil, "prelude: " + err
	}
	if stopped == nil || ret != nil {
		return 0, nil, "prelude returns before the loop for a well-formed input"
	}
	if r0.Escaped != "" {
		return 0, nil, "prelude: " + r0.Escaped
	}
	ph0, err := r0.phisVia(f, r0.Prev)
	if err != "" {
		return 0, nil, err
	}
	start := node{r0, ph0, sp.Init}
	seen := map[string]bool{key(start): true}
	queue := []node{start}
	var complaints []string
	for len(queue) > 0 {
		n := queue[0]
		queue = queue[1:]
		if len(seen) > 4096 {
			return len(seen), complaints, "abstract state space does not converge"
		}
		// exit
		rx := n.r.clone(sp.Env(-1))
		if e := rx.enterHeader(f, n.phis, sp.Elem(-1)); e != "" {
			return len(seen), complaints, "header: " + e
		}
		xret, _, e := rx.run(f.Done, f.Header, nil)
		if e != "" {
			return len(seen), complaints, "exit: " + e
		}
		if rx.Escaped != "" {
			return len(seen), complaints, "exit: " + rx.Escaped
		}
		complaints = append(complaints, sp.OnExit(rx, xret, n.spec)...)
		// one more element of each class
		for i := 0; i < sp.NIn; i++ {
			ri := n.r.clone(sp.Env(i))
			if e := ri.enterHeader(f, n.phis, sp.Elem(i)); e != "" {
				return len(seen), complaints, "header: " + e
			}
			iret, istop, e := ri.run(f.Body, f.Header, func(b *ssa.BasicBlock) bool { return b == f.Header })
			if e != "" {
				return len(seen), complaints, "body: " + e
			}
			if ri.Escaped != "" {
				return len(seen), complaints, "body: " + ri.Escaped
			}
			after := sp.Step(n.spec, i)
			complaints = append(complaints, sp.OnIter(i, ri, iret, n.spec, after)...)
			if istop == nil {
				continue // the iteration returned (refusal): no successor state
			}
			ph, e := ri.phisVia(f, ri.Prev)
			if e != "" {
				return len(seen), complaints, e
			}
			ri.Calls = nil
			nn := node{ri, ph, after}
			if k := key(nn); !seen[k] {
				seen[k] = true
				queue = append(queue, nn)
			}
		}
	}
	return len(seen), complaints, ""
}

// g6Stores lists every store instruction of fn.
func g6Stores(fn *ssa.Function) []*ssa.Store {
	var out []*ssa.Store
	eachInstr(fn, func(in ssa.Instruction) {
		if st, ok := in.(*ssa.Store); ok {
			out = append(out, st)
		}
	})
	return out
}

// g6ViaHelper widens a guard on a value to one level of helper: mk(isVal) builds the guard for a
// function in which isVal recognises the guarded value. The widened guard also matches a branch on
// `H(.., v, ..)` (bool result) or on `H(.., v, ..) != nil` (error result) of a nebula function H,
// when every return of H that can yield the passing outcome has itself passed mk(<H's parameter
// in v's position>) - the K1 "guard established in a callee" summary. The summary is decided on
// H's own CFG, so a helper that forgets the test on one path is not accepted.
func (c *Ctx) g6ViaHelper(name string, isVal func(ssa.Value) bool, mk func(isVal func(ssa.Value) bool) Guard) Guard {
	direct := mk(isVal)
	type key struct {
		fn   *ssa.Function
		j    int
		want int // 1 true, 0 false, 2 nil error
		idx  int
	}
	memo := map[key]bool{}
	summary := func(h *ssa.Function, j, want, idx int) bool {
		k := key{h, j, want, idx}
		if v, ok := memo[k]; ok {
			return v
		}
		memo[k] = false
		g := mk(func(v ssa.Value) bool { return g6IsParamValue(v, h.Params[j]) })
		var sinks []Sink
		if want == 2 {
			sinks = successReturns(h, idx)
		} else {
			sinks = boolReturns(h, idx, want == 1)
		}
		ok := len(sinks) > 0
		for _, s := range sinks {
			// `return a && test(v)`: the value returned on this edge is the test itself
			if r, isRet := s.Instr.(*ssa.Return); isRet && want != 2 {
				v := retResult(r, idx)
				if phi, isPhi := v.(*ssa.Phi); isPhi && s.ViaPred != nil {
					for e, p := range phi.Block().Preds {
						if p == s.ViaPred {
							v = phi.Edges[e]
						}
					}
				}
				if is, passTrue := g.Match(normCond(v), nil); is && passTrue == (want == 1) {
					continue
				}
			}
			pass, n, _ := c.mustPass(h, s, g)
			ok = ok && pass && n > 0
		}
		memo[k] = ok
		return ok
	}
	return Guard{Name: name, Match: func(cd Cond, ifi *ssa.If) (bool, bool) {
		if is, p := direct.Match(cd, ifi); is {
			return is, p
		}
		if cd.Kind != CondBool && cd.Kind != CondNotNil {
			return false, false
		}
		call, idx := callOf(cd.Base)
		if call == nil {
			return false, false
		}
		h := call.Call.StaticCallee()
		if h == nil || h.Blocks == nil || !strings.HasPrefix(pkgPathOf(h), nebulaMod) {
			return false, false
		}
		if idx < 0 {
			idx = 0
		}
		for j, a := range call.Call.Args {
			if j >= len(h.Params) || !isVal(a) {
				continue
			}
			if cd.Kind == CondNotNil {
				if isErrorType(cd.Base.Type()) && summary(h, j, 2, idx) {
					return true, cd.Neg // passing outcome: the error is nil
				}
				continue
			}
			for _, w := range []bool{true, false} {
				wi := 0
				if w {
					wi = 1
				}
				if summary(h, j, wi, idx) {
					return true, w != cd.Neg
				}
			}
		}
		return false, false
	}}
}
