package main

import (
	"fmt"
	"go/token"
	"go/types"
	"sort"
	"strings"

	"golang.org/x/tools/go/ssa"
)

const c24Virtio = "overlay/tio/virtio"

func init() {
	register(&Property{
		ID: "C24", Title: "Superpacket segmentation yields valid original segments",
		Patterns:    []string{"./overlay/tio/..."},
		Technique:   "loop-shape recognition of the segment loops (index phi, piece = pkt[i*G : H+min(i*G+G, P)], count = segCount(P, G)), K5 path counts of the callback, must-pass-through of the header stamp and of every per-segment header field with its byte range, endianness and value as a linear form, per-phi-edge K1 guards for the TCP flag masks, K11 dependence of each checksum on the fields it covers, K8 evaluation of segCount, K1/K7 at the dispatch and decode sites",
		LevelText:   "Structural necessary conditions on every path of virtio.SegmentTCP / SegmentUDP / segCount and their callers tio.SegmentSuperpacket and (*Offload).decodeRead: the callback runs exactly once per loop iteration and nowhere else, on pkt[i*G : H + min(i*G+G, P)] (header length H, segment size G, payload length P = len(pkt)-H), for i = 0 .. segCount(P,G)-1 with segCount = (P+G-1)/G floored at 1, only behind G != 0, and the loop stops at the first callback error, which is returned; every segment but the first gets the header stamped at i*G from a snapshot of pkt[:H] taken before the loop, before any field of the segment is patched; on every path to the callback the per-segment fields are written big-endian at their wire offsets with the tabled values (IPv4: total length H+payload, ID = original ID + i, header checksum; IPv6: payload length H-40+payload; TCP: sequence = original + i*G, flags, checksum; UDP: length 8+payload, checksum with the field zeroed first and 0 sent as 0xffff); the TCP flags byte keeps CWR only behind i == 0 and FIN/PSH only behind i == last, clears them otherwise and clears nothing else; each checksum written depends on every per-segment field it covers and on the segment's own payload bytes; the dispatcher hands TCP superpackets to SegmentTCP and UDP ones to SegmentUDP with (Bytes, HdrLen, CsumStart, Size) of the same packet, and a superpacket is queued only after CheckValid and CorrectHdrLen succeeded, with the corrected header's fields.",
		LevelNote:   "Not decided: the one's-complement arithmetic itself (that base sums plus the per-segment terms equal the checksum of the patched header: baseIPv4HdrSum / baseTCPHdrSum / basePseudoSum / foldComplement and overlay/checksum, incl. its assembly); integer wrap and the uint16/uint32 truncations (linear forms are over ideal integers; ID and sequence wrap is modular by construction); that the pieces tile [0,P) follows from the decided shape by the arithmetic lemma `for G >= 1, P >= 0: [i*G, min(i*G+G, P)) for i < max(1, ceil(P/G)) partition [0,P) in order` (used as an axiom); bounds of the reads before the loop (validated upstream by CorrectHdrLen: not re-derived here); CheckValid's table of accepted (GSO type, IP version) pairs; the non-linux segmenters.",
		Explanation: "wide linear forms (integer conversions stripped, products canonical) relate slice bounds and stored values; g13LoopCoversX for the index; avoidsCutEdges with the family predicate (pkt[0]>>4 == 4) as excused edges for the must-writes; flag versions enumerated through phis with per-edge guards; g13HeapRun for segCount",
		Run:         runC24,
		Canaries: func(c *Ctx) []Canary {
			g := "overlay/tio/virtio/segment_linux.go"
			return []Canary{
				{Name: "tcp-last-piece-not-clamped", File: g, Old: "\t\tif segEnd > payLen {\n\t\t\tsegEnd = payLen\n\t\t}\n\t\tsegPayLen := segEnd - segStart\n\t\tsegLen := headerLen + segPayLen\n\t\theaderOff := i * gsoSize\n\n\t\t// Stamp", New: "\t\tsegPayLen := segEnd - segStart\n\t\tsegLen := headerLen + segPayLen\n\t\theaderOff := i * gsoSize\n\n\t\t// Stamp", Rule: "C24.tile"},
				{Name: "segcount-rounds-down", File: g, Old: "n := (payLen + gsoSize - 1) / gsoSize", New: "n := payLen / gsoSize", Rule: "C24.tile"},
				{Name: "udp-continues-after-callback-error", File: g, Old: "\t\tif err := yield(seg); err != nil {\n\t\t\treturn err\n\t\t}\n\t}\n\n\treturn nil\n}\n\n// FinishChecksum", New: "\t\t_ = yield(seg)\n\t}\n\n\treturn nil\n}\n\n// FinishChecksum", Rule: "C24.tile"},
				{Name: "tcp-stamp-from-live-buffer", File: g, Old: "copy(pkt[headerOff:headerOff+headerLen], savedHdr[:headerLen])\n\t\t}\n\t\tseg := pkt[headerOff : headerOff+segLen]\n\n\t\tsegSeq", New: "copy(pkt[headerOff:headerOff+headerLen], pkt[:headerLen])\n\t\t}\n\t\tseg := pkt[headerOff : headerOff+segLen]\n\n\t\tsegSeq", Rule: "C24.stamp"},
				{Name: "udp-second-segment-not-stamped", File: g, Old: "\t\tif i > 0 {\n\t\t\tcopy(pkt[headerOff:headerOff+headerLen], savedHdr[:headerLen])\n\t\t}\n\t\tseg := pkt[headerOff : headerOff+segLen]\n\n\t\ttotalLen", New: "\t\tif i > 1 {\n\t\t\tcopy(pkt[headerOff:headerOff+headerLen], savedHdr[:headerLen])\n\t\t}\n\t\tseg := pkt[headerOff : headerOff+segLen]\n\n\t\ttotalLen", Rule: "C24.stamp"},
				{Name: "tcp-sequence-by-index", File: g, Old: "segSeq := origSeq + uint32(segStart)", New: "segSeq := origSeq + uint32(i)", Rule: "C24.fields"},
				{Name: "tcp-ipv6-payload-length-stale", File: g, Old: "\t\t} else {\n\t\t\tbinary.BigEndian.PutUint16(seg[ipv6PayloadLenOff:ipv6PayloadLenOff+2], uint16(headerLen-ipv6FixedLen+segPayLen))\n\t\t}\n\n\t\tbinary.BigEndian.PutUint32(", New: "\t\t}\n\n\t\tbinary.BigEndian.PutUint32(", Rule: "C24.fields"},
				{Name: "tcp-ip-id-not-incremented", File: g, Old: "\t\ttotalLen := segLen\n\n\t\tif isV4 {\n\t\t\tsegID := origIPID + uint16(i)", New: "\t\ttotalLen := segLen\n\n\t\tif isV4 {\n\t\t\tsegID := origIPID", Rule: "C24.fields"},
				{Name: "tcp-checksum-with-superpacket-flags", File: g, Old: "wide += uint64(segSeq) + uint64(segFlags) + uint64(tcpLen)", New: "wide += uint64(segSeq) + uint64(origFlags) + uint64(tcpLen)", Rule: "C24.fields"},
				{Name: "udp-checksum-field-not-zeroed", File: g, Old: "\t\tseg[csumStart+udpChecksumOff], seg[csumStart+udpChecksumOff+1] = 0, 0\n", New: "", Rule: "C24.fields"},
				{Name: "udp-length-is-total-length", File: g, Old: "udpLen := udpHeaderLen + segPayLen", New: "udpLen := segLen", Rule: "C24.fields"},
				{Name: "fin-on-every-segment", File: g, Old: "\t\tif i != numSeg-1 {\n\t\t\tsegFlags &^= tcpFinPshMask\n\t\t}\n", New: "", Rule: "C24.flags"},
				{Name: "cwr-cleared-on-first-only", File: g, Old: "\t\tif i != 0 {\n\t\t\tsegFlags &^= tcpCwrFlag", New: "\t\tif i == 0 {\n\t\t\tsegFlags &^= tcpCwrFlag", Rule: "C24.flags"},
				{Name: "udp-superpacket-to-tcp-segmenter", File: "overlay/tio/tun_linux_offload.go", Old: "\tcase GSOProtoUDP:\n\t\treturn virtio.SegmentUDP(", New: "\tcase GSOProtoUDP:\n\t\treturn virtio.SegmentTCP(", Rule: "C24.dispatch"},
				{Name: "kernel-header-length-trusted", File: "overlay/tio/tio_gso_linux.go", Old: "\tif err := virtio.CorrectHdrLen(body, &hdr); err != nil {\n\t\treturn err\n\t}\n", New: "", Rule: "C24.dispatch"},
			}
		},
	})
}

// ---------------------------------------------------------------------------------------
// wide linear forms: integer conversions are transparent, products of two variables canonical

type c24W struct {
	e     *g11Env
	subst map[ssa.Value]ssa.Value // parameters of an inlined patch helper -> the caller's arguments
}

func c24IsInt(t types.Type) bool {
	b, ok := t.Underlying().(*types.Basic)
	return ok && b.Info()&types.IsInteger != 0
}

func (w c24W) lin(v ssa.Value) g11Lin {
	if r, ok := w.subst[v]; ok {
		return c24W{e: w.e}.lin(r)
	}
	switch x := v.(type) {
	case *ssa.Convert:
		if c24IsInt(x.Type()) && c24IsInt(x.X.Type()) {
			return w.lin(x.X)
		}
	case *ssa.ChangeType:
		return w.lin(x.X)
	case *ssa.BinOp:
		switch x.Op {
		case token.ADD:
			return w.lin(x.X).add(w.lin(x.Y))
		case token.SUB:
			return w.lin(x.X).sub(w.lin(x.Y))
		case token.MUL:
			a, b := w.lin(x.X), w.lin(x.Y)
			if k, ok := a.isConst(); ok {
				return b.scale(k)
			}
			if k, ok := b.isConst(); ok {
				return a.scale(k)
			}
			return c24Mul(a, b)
		}
	}
	return w.e.lin(v)
}

func c24Mul(a, b g11Lin) g11Lin {
	ops := []string{a.String(), b.String()}
	sort.Strings(ops)
	return g11Atom("mul(" + ops[0] + "," + ops[1] + ")")
}

func (w c24W) outcomes(v ssa.Value) (t, f []g11Cons) {
	cd := normCond(v)
	if cd.Kind != CondCmp {
		return nil, nil
	}
	bo := cd.Base.(*ssa.BinOp)
	pos, ok := g11Cmp(bo.Op, w.lin(bo.X), w.lin(bo.Y))
	if !ok {
		return nil, nil
	}
	neg, _ := g11Cmp(negOp(bo.Op), w.lin(bo.X), w.lin(bo.Y))
	if cd.Neg {
		pos, neg = neg, pos
	}
	return []g11Cons{pos}, []g11Cons{neg}
}

// isMin: v == min(a, b), as a two-way merge decided by a comparison of a and b, or builtin min.
func (w c24W) isMin(v ssa.Value, a, b g11Lin) (bool, string) {
	if call, ok := v.(*ssa.Call); ok && builtinName(call) == "min" && len(call.Call.Args) == 2 {
		x, y := w.lin(call.Call.Args[0]), w.lin(call.Call.Args[1])
		if (x.equal(a) && y.equal(b)) || (x.equal(b) && y.equal(a)) {
			return true, ""
		}
		return false, "min of other operands"
	}
	phi, ok := v.(*ssa.Phi)
	if !ok || len(phi.Edges) != 2 {
		return false, "not a two-way choice"
	}
	ifi, side, ok := g11BranchOf(phi)
	if !ok {
		return false, "not a two-way choice decided by one test"
	}
	t, f := w.outcomes(ifi.Cond)
	seenA, seenB := false, false
	for k, e := range phi.Edges {
		facts := t
		if side[k] == 1 {
			facts = f
		}
		el := w.lin(e)
		switch {
		case el.equal(a):
			if !g11ImpliesAny(facts, []g11Cons{g11LEq(a, b)}) {
				return false, "the full piece end is chosen without full end <= payload length"
			}
			seenA = true
		case el.equal(b):
			if !g11ImpliesAny(facts, []g11Cons{g11LEq(b, a)}) {
				return false, "the payload length is chosen without payload length <= full end"
			}
			seenB = true
		default:
			return false, "the end can be " + el.String()
		}
	}
	if !seenA || !seenB {
		return false, "the end never clamps"
	}
	return true, ""
}

// ---------------------------------------------------------------------------------------

func runC24(c *Ctx) {
	c.Rule("C24.tile", "segment loops: callback once per iteration and nowhere else, on pkt[i*G : H+E], E = min(i*G+G, P), P = len(pkt)-H; i = 0 .. segCount(P,G)-1; other exit only on the callback's error, which is returned; loop only behind G != 0; segCount = (P+G-1)/G floored at 1", 16)
	c.Rule("C24.stamp", "the header of every segment but the first is copied to pkt[i*G : i*G+H] from a snapshot of pkt[:H] taken before the loop (not from the live buffer), on every path to the callback except behind i == 0, and before any per-segment field is written; nothing else writes into pkt inside the loop", 10)
	c.Rule("C24.fields", "on every path to the callback each per-segment field is written big-endian at its wire offset in the segment with the tabled value (v4 total length / ID / checksum, v6 payload length, TCP sequence / flags / checksum, UDP length / checksum incl. zeroing before the sum and 0 -> 0xffff); every checksum depends on the per-segment values it covers; no untabled write into the segment", 28)
	c.Rule("C24.flags", "TCP flags byte: versions of the stored value enumerated through its phis: CWR kept only behind i == 0 and cleared only behind i != 0; FIN|PSH kept only behind i == last and cleared only behind i != last; no other bit cleared; the origin is the superpacket's own flags byte", 4)
	c.Rule("C24.dispatch", "SegmentSuperpacket calls SegmentTCP only behind Proto == TCP and SegmentUDP only behind Proto == UDP, with (Bytes, GSO.HdrLen, GSO.CsumStart, GSO.Size, fn) of its own packet; decodeRead queues a superpacket only behind CheckValid and CorrectHdrLen returning nil, with Size/HdrLen/CsumStart of the header CorrectHdrLen corrected", 7)
	c24Segment(c, "SegmentTCP", true)
	c24Segment(c, "SegmentUDP", false)
	c24SegCount(c)
	c24Dispatch(c)
}

// c24Write is one write into the segment: byte range relative to the segment start and the value.
type c24Write struct {
	in     ssa.Instruction
	lo     g11Lin
	width  int64
	val    ssa.Value
	endian string // BE / LE / "" (single byte)
	w      c24W   // evaluates val (the helper's parameters mapped to the call's arguments)
}

func (wr c24Write) lin() g11Lin { return wr.w.lin(wr.val) }

// resolved: the stored value, a helper's parameter replaced by the caller's argument.
func (wr c24Write) resolved() ssa.Value {
	if r, ok := wr.w.subst[wr.val]; ok {
		return r
	}
	return wr.val
}

type c24Seg struct {
	c        *Ctx
	name     string
	fn       *ssa.Function
	w        c24W
	pkt      *ssa.Parameter
	yieldP   *ssa.Parameter
	H, CS, G g11Lin
	P        g11Lin
	L        *natLoop
	i        *ssa.Phi
	N        *ssa.Call
	yield    *ssa.Call
	seg      *ssa.Slice
	lo       g11Lin // i*G
	E        ssa.Value
	SP       g11Lin // payload bytes of this segment: E - i*G
	v4, v6   map[Edge]bool
	writes   []c24Write
	inlined  map[*ssa.Function]bool // patch helpers whose writes were collected
}

func (s *c24Seg) first() ssa.Instruction { return s.L.Header.Instrs[0] }

// root of nested slices of pkt / seg, with the effective low offset and length when known
func (s *c24Seg) pktRange(v ssa.Value) (root ssa.Value, lo g11Lin, hi *g11Lin) {
	lo = g11Const(0)
	sl, ok := v.(*ssa.Slice)
	if !ok {
		return v, lo, nil
	}
	root, base, _ := s.pktRange(sl.X)
	lo = base
	if sl.Low != nil {
		lo = base.add(s.w.lin(sl.Low))
	}
	if sl.High != nil {
		h := base.add(s.w.lin(sl.High))
		hi = &h
	}
	return root, lo, hi
}

func c24Segment(c *Ctx, name string, tcp bool) {
	fn := c.Func(Ref{c24Virtio, "", name})
	if fn == nil {
		return
	}
	s := &c24Seg{c: c, name: name, fn: fn, w: c24W{e: g11NewEnv(nil)}}
	bad := func(why string) { c.Unknown("C24.tile", name+":shape", why) }
	var u16 []*ssa.Parameter
	for _, p := range fn.Params {
		switch t := p.Type().Underlying().(type) {
		case *types.Slice:
			if g11IsByteSlice(p.Type()) && s.pkt == nil {
				s.pkt = p
			}
		case *types.Signature:
			s.yieldP = p
		case *types.Basic:
			if t.Kind() == types.Uint16 {
				u16 = append(u16, p)
			}
		}
	}
	if s.pkt == nil || s.yieldP == nil || len(u16) != 3 {
		bad("expected (pkt []byte, hdrLen, csumStart, gsoSize uint16, yield func)")
		return
	}
	s.H, s.CS, s.G = s.w.lin(u16[0]), s.w.lin(u16[1]), s.w.lin(u16[2])
	s.P = g11Atom("len(" + s.w.e.key(s.pkt) + ")").sub(s.H)
	loops := naturalLoops(fn)
	var yields []*ssa.Call
	for _, r := range *s.yieldP.Referrers() {
		if call, ok := r.(*ssa.Call); ok && call.Call.Value == ssa.Value(s.yieldP) {
			yields = append(yields, call)
		} else if _, isDbg := r.(*ssa.DebugRef); !isDbg {
			bad("the callback is used other than by calling it: " + c.instrPos(r))
			return
		}
	}
	if len(yields) != 1 || innermostLoop(loops, yields[0].Block()) == nil {
		// zero calls, several calls, or a call outside a loop: the once-per-segment shape is gone
		c.Bad("C24.tile", name+":callback-once-per-iteration", c.P.Pos(fn.Pos()), fmt.Sprintf("expected exactly one call of the callback, inside the segment loop; found %d: a segment is delivered twice, never, or outside the tiling", len(yields)))
		return
	}
	s.yield = yields[0]
	s.L = innermostLoop(loops, s.yield.Block())
	for _, l := range loops {
		if l != s.L && l.Body[s.yield.Block()] {
			bad("nested loops around the callback")
			return
		}
	}
	counts := callsIn(fn, Ref{c24Virtio, "", "segCount"})
	if len(counts) != 1 {
		bad(fmt.Sprintf("expected one segCount call, found %d", len(counts)))
		return
	}
	s.N = counts[0].(*ssa.Call)
	s.seg, _ = s.yield.Call.Args[0].(*ssa.Slice)
	if s.seg == nil || s.seg.X != ssa.Value(s.pkt) || s.seg.Low == nil || s.seg.High == nil {
		bad("the callback's argument is not pkt[lo:hi]")
		return
	}
	c24Tile(s)
	if s.i == nil || s.E == nil {
		return
	}
	c24Stamp(s)
	c24Fields(s, tcp)
	if tcp {
		c24Flags(s)
	}
}

// ---------------------------------------------------------------------------------------

func c24Tile(s *c24Seg) {
	c, fn, w, name := s.c, s.fn, s.w, s.name
	env := w.e
	// ---- index: i = 0 .. N-1, leaving early only on the callback's error
	errExit := func(e Edge) bool {
		t := e.From.Succs[e.Succ]
		if len(t.Instrs) == 0 {
			return false
		}
		ret, ok := t.Instrs[len(t.Instrs)-1].(*ssa.Return)
		return ok && len(ret.Results) == 1 && ret.Results[0] == ssa.Value(s.yield)
	}
	why := "no loop variable"
	for _, p := range g13HeaderPhis(s.L) {
		if ok, wn := g13LoopCoversX(env, s.L, p, g11Const(0), env.lin(s.N), errExit); ok {
			s.i = p
		} else {
			why = wn
		}
	}
	c.Check(s.i != nil, "C24.tile", name+":index-covers-count", c.instrPos(s.yield), "i = 0 .. segCount-1", "the segment loop does not run i = 0, 1, .. segCount(..)-1 (apart from stopping at a callback error): "+why+"; segments are skipped, repeated, or produced past the payload")
	if s.i == nil {
		return
	}
	// the early exit is taken exactly on err != nil
	nErr := 0
	for _, e := range g11ExitEdges(s.L) {
		if !errExit(e) {
			continue
		}
		nErr++
		ok, _, path := c.g13EdgeBehind(fn, s.yield.Block(), e.From, e.From.Succs[e.Succ], gValNotNil("callback error != nil", func(v ssa.Value) bool { return v == ssa.Value(s.yield) }))
		if ok {
			c.OK("C24.tile", name+":stops-on-callback-error", "leaves the loop only with the callback's non-nil error")
		} else {
			c.Bad("C24.tile", name+":stops-on-callback-error", c.instrPos(s.yield), "the loop is left early without the callback having failed: the remaining segments are never produced", path...)
		}
	}
	if nErr == 0 {
		c.Bad("C24.tile", name+":stops-on-callback-error", c.instrPos(s.yield), "a callback error does not end the segmentation with that error: the caller is told the superpacket was delivered")
	}
	na := callArgs(s.N)
	c.Check(len(na) == 2 && w.lin(na[0]).equal(s.P) && w.lin(na[1]).equal(s.G), "C24.tile", name+":count-arguments", c.instrPos(s.N), "segCount(len(pkt)-H, G)", "the segment count is not computed from (payload length len(pkt)-hdrLen, gso size): the loop produces too few or too many pieces")
	// ---- piece
	iL := w.lin(s.i)
	s.lo = w.lin(s.seg.Low)
	c.Check(s.lo.equal(c24Mul(iL, s.G)), "C24.tile", name+":piece-start", c.instrPos(s.seg), "pkt[i*G:", "the segment does not start at i*gsoSize ("+s.lo.String()+"): the header sits in the wrong place relative to the payload chunk it precedes")
	rest := w.lin(s.seg.High).sub(s.H) // must be the clamped payload end E
	eachInstr(fn, func(in ssa.Instruction) {
		v, ok := in.(ssa.Value)
		if !ok || !s.L.Body[in.Block()] {
			return
		}
		switch in.(type) {
		case *ssa.Phi, *ssa.Call:
			if w.lin(v).equal(rest) && c24IsInt(v.Type()) {
				s.E = v
			}
		}
	})
	if s.E == nil {
		if d, isC := rest.constDiff(s.lo.add(s.G)); isC {
			c.Bad("C24.tile", name+":piece-end", c.instrPos(s.seg), fmt.Sprintf("the segment ends at hdrLen + i*G + G%+d without being clamped to the payload length: the last segment runs past the packet or carries bytes twice", d))
		} else {
			c.Unknown("C24.tile", name+":piece-end", "segment end - hdrLen is not a clamped payload end: "+rest.String())
		}
		return
	}
	ok, whyM := w.isMin(s.E, s.lo.add(s.G), s.P)
	c.Check(ok, "C24.tile", name+":piece-end", c.instrPos(s.seg), "H + min(i*G+G, P)", "the segment does not end at hdrLen + min(i*G+G, payload length): "+whyM+"; payload bytes are lost, delivered twice, or a segment exceeds the segment size")
	s.SP = w.lin(s.E).sub(s.lo)
	// ---- once per iteration, nothing before or after
	isY := func(in ssa.Instruction) bool { return in == ssa.Instruction(s.yield) }
	m := g11PerIteration(s.L, isY)
	c.Check(m == g11One, "C24.tile", name+":callback-once-per-iteration", c.instrPos(s.yield), "one callback per iteration", "the callback runs "+g11MaskString(m)+" times per iteration of the segment loop")
	// ---- G != 0 before the loop
	var goals []g11Cons
	for _, p := range fn.Params {
		if w.lin(p).equal(s.G) {
			goals = append(goals, g11Cons{env.lin(p), g11NE0}, g11GEq(env.lin(p), g11Const(1)))
			for _, r := range *p.Referrers() {
				if cv, ok := r.(*ssa.Convert); ok {
					goals = append(goals, g11Cons{env.lin(cv), g11NE0}, g11GEq(env.lin(cv), g11Const(1)))
				}
			}
		}
	}
	c.requireGuards("C24.tile", fn, []Sink{{Instr: s.first(), Desc: "segment loop"}}, "segment-loop", c.g11LinGuard("gso size != 0", env, goals...))
}

func c24SegCount(c *Ctx) {
	fn := c.Func(Ref{c24Virtio, "", "segCount"})
	if fn == nil || len(fn.Params) != 2 {
		return
	}
	p, g := g11Atom("P"), g11Atom("G")
	q := g11Atom("quo(" + p.add(g).add(g11Const(-1)).String() + "," + g.String() + ")")
	for _, zero := range []bool{false, true} {
		zero := zero
		cons := fmt.Sprintf("segCount[quotient-zero=%v]", zero)
		cfg := &g13HeapCfg{Params: map[string]g13Val{fn.Params[0].Name(): g13I(p), fn.Params[1].Name(): g13I(g)},
			Cmp: func(op token.Token, a, b string) (bool, bool) {
				// the only comparison: the quotient against a small constant
				x, y := 5, 5
				if strings.Contains(a, "quo(") {
					if k, ok := c33ConstOf(b); ok {
						y = int(k)
						if zero {
							x = 0
						}
						return c33Rank(op, x, y), true
					}
				}
				if strings.Contains(b, "quo(") {
					if k, ok := c33ConstOf(a); ok {
						x = int(k)
						if zero {
							y = 0
						}
						return c33Rank(op, x, y), true
					}
				}
				return false, false
			}}
		r, err := g13HeapRun(fn, cfg)
		switch {
		case err != "":
			c.Unknown("C24.tile", cons, "outside the evaluated fragment: "+err)
		case len(r.Ret) != 1 || r.Ret[0].L == nil:
			c.Unknown("C24.tile", cons, "unexpected result")
		case zero:
			c.Check(r.Ret[0].L.equal(g11Const(1)), "C24.tile", cons, c.P.Pos(fn.Pos()), "1", "a header-only superpacket yields "+r.Ret[0].L.String()+" segments instead of one: it is dropped")
		default:
			c.Check(r.Ret[0].L.equal(q), "C24.tile", cons, c.P.Pos(fn.Pos()), "(P+G-1)/G", "segCount returns "+r.Ret[0].L.String()+" instead of (payLen+gsoSize-1)/gsoSize: the tail piece is lost or an empty extra segment is produced")
		}
	}
}

// ---------------------------------------------------------------------------------------

func c24Stamp(s *c24Seg) {
	c, fn, w, name := s.c, s.fn, s.w, s.name
	// every copy(dst, src) in the function
	type cp struct {
		call  *ssa.Call
		dRoot ssa.Value
		dLo   g11Lin
		dHi   *g11Lin
		sRoot ssa.Value
		sLo   g11Lin
		sHi   *g11Lin
	}
	var copies []cp
	eachInstr(fn, func(in ssa.Instruction) {
		if call, ok := in.(*ssa.Call); ok && builtinName(call) == "copy" {
			k := cp{call: call}
			k.dRoot, k.dLo, k.dHi = s.pktRange(call.Call.Args[0])
			k.sRoot, k.sLo, k.sHi = s.pktRange(call.Call.Args[1])
			copies = append(copies, k)
		}
	})
	isLen := func(lo g11Lin, hi *g11Lin, from, n g11Lin) bool {
		return hi != nil && lo.equal(from) && hi.sub(lo).equal(n)
	}
	// the snapshot: copy(local[:H], pkt[:H]) dominating the loop, the local written by nothing else
	var snap *ssa.Alloc
	for _, k := range copies {
		al, isAl := k.dRoot.(*ssa.Alloc)
		if isAl && !s.L.Body[k.call.Block()] && k.sRoot == ssa.Value(s.pkt) && isLen(k.dLo, k.dHi, g11Const(0), s.H) && isLen(k.sLo, k.sHi, g11Const(0), s.H) && k.call.Block().Dominates(s.L.Header) {
			snap = al
		}
	}
	c.Check(snap != nil, "C24.stamp", name+":snapshot", c.P.Pos(fn.Pos()), "copy(saved[:H], pkt[:H]) before the loop", "no snapshot of the original header pkt[:hdrLen] is taken into a local before the segment loop: later segments are stamped from bytes that earlier stamps and patches have already overwritten")
	if snap == nil {
		return
	}
	nOther := 0
	for _, k := range copies {
		if k.dRoot == ssa.Value(snap) {
			nOther++
		}
	}
	for _, r := range *snap.Referrers() {
		if ia, ok := r.(*ssa.IndexAddr); ok {
			for _, rr := range *ia.Referrers() {
				if st, ok := rr.(*ssa.Store); ok && st.Addr == ssa.Value(ia) {
					nOther++
				}
			}
		}
	}
	c.Check(nOther == 1, "C24.stamp", name+":snapshot-immutable", c.instrPos(snap), "written once", fmt.Sprintf("the header snapshot is written %d times: segments are stamped from a header that is no longer the original", nOther))
	// stamps: copies into pkt inside the loop
	var stamps []ssa.Instruction
	n := 0
	for _, k := range copies {
		if !s.L.Body[k.call.Block()] || k.dRoot != ssa.Value(s.pkt) {
			continue
		}
		cons := fmt.Sprintf("%s:stamp#%d", name, n)
		n++
		okDst := isLen(k.dLo, k.dHi, s.lo, s.H)
		okSrc := k.sRoot == ssa.Value(snap) && isLen(k.sLo, k.sHi, g11Const(0), s.H)
		switch {
		case !okSrc:
			c.Bad("C24.stamp", cons, c.instrPos(k.call), "the segment header is not copied from saved[:hdrLen], the snapshot taken before the loop: when gsoSize < hdrLen (or after the first segment was patched) the source has already been overwritten")
		case !okDst:
			c.Bad("C24.stamp", cons, c.instrPos(k.call), "the header is not stamped at pkt[i*G : i*G+hdrLen], immediately before this segment's payload")
		default:
			c.OK("C24.stamp", cons, "pkt[i*G:i*G+H] <- saved[:H]")
			stamps = append(stamps, k.call)
		}
	}
	isStamp := func(in ssa.Instruction) bool {
		for _, x := range stamps {
			if x == in {
				return true
			}
		}
		return false
	}
	// on every path to the callback except behind i <= 0
	first, _ := passEdges(fn, c.g11LinGuard("i <= 0", w.e, g11LEq(w.e.lin(s.i), g11Const(0))))
	av, path := c.avoidsCutEdges(fn, s.first(), s.yield, isStamp, first)
	if av {
		c.Bad("C24.stamp", name+":stamped-unless-first", c.instrPos(s.yield), "a segment other than the first reaches the callback without the header having been stamped in front of its payload: it starts with payload bytes of the previous segment", path...)
	} else {
		c.OK("C24.stamp", name+":stamped-unless-first", "every path with i > 0 stamps")
	}
	// before any field of the segment is patched
	okOrder := true
	for _, st := range stamps {
		from := reachable(st.Block(), g11BackEdges(s.L))
		for _, wr := range s.collectWrites() {
			wb := wr.in.Block()
			if wb == st.Block() {
				if instrIndex(wr.in) < instrIndex(st) {
					okOrder = false
				}
			} else if _, after := from[wb]; !after {
				// the write is not after the stamp: is it before it on some path?
				if _, before := reachable(wb, g11BackEdges(s.L))[st.Block()]; before {
					okOrder = false
				}
			}
		}
	}
	c.Check(okOrder, "C24.stamp", name+":stamp-before-patches", c.instrPos(s.yield), "stamp first", "a per-segment field is written before the header is stamped over it: the patch is lost and the segment carries the first segment's value")
}

// collectWrites: every write into the yielded segment (or into pkt) inside the loop, as byte ranges
// relative to the segment start.
func (s *c24Seg) collectWrites() []c24Write {
	if s.writes != nil {
		return s.writes
	}
	// range of v relative to the segment start; inside a helper the slice parameter stands for the
	// caller's argument
	var scan func(fn *ssa.Function, w c24W, at ssa.Instruction, depth int)
	scan = func(fn *ssa.Function, w c24W, at ssa.Instruction, depth int) {
		var rng func(v ssa.Value) (ssa.Value, g11Lin)
		rng = func(v ssa.Value) (ssa.Value, g11Lin) {
			if r, ok := w.subst[v]; ok {
				root, lo, _ := s.pktRange(r)
				return root, lo
			}
			if sl, ok := v.(*ssa.Slice); ok {
				root, lo := rng(sl.X)
				if sl.Low != nil {
					lo = lo.add(w.lin(sl.Low))
				}
				return root, lo
			}
			return v, g11Const(0)
		}
		rel := func(v ssa.Value) (g11Lin, bool) {
			root, lo := rng(v)
			return lo.sub(s.lo), root == ssa.Value(s.pkt)
		}
		eachInstr(fn, func(in ssa.Instruction) {
			if depth == 0 && !s.L.Body[in.Block()] {
				return
			}
			pos := in
			if at != nil {
				pos = at
			}
			switch x := in.(type) {
			case *ssa.Call:
				o := calleeObj(x)
				if en, nm := endianOf(o); en != "" && strings.HasPrefix(nm, "Put") {
					a := callArgs(x)
					if lo, ok := rel(a[1]); ok && (at == nil || c24Unconditional(fn, in)) {
						s.writes = append(s.writes, c24Write{pos, lo, int64(widthOfBinaryFn(nm)), a[2], en, w})
					}
					return
				}
				// one level of patch helper: a module function given (a slice of) the segment
				callee := x.Call.StaticCallee()
				if depth > 0 || callee == nil || callee.Blocks == nil || !strings.HasPrefix(pkgPathOf(callee), nebulaMod) || len(callee.Params) != len(x.Call.Args) {
					return
				}
				takes := false
				sub := map[ssa.Value]ssa.Value{}
				for i, a := range x.Call.Args {
					sub[callee.Params[i]] = a
					if _, ok := rel(a); ok && g11IsByteSlice(a.Type()) {
						takes = true
					}
				}
				if takes {
					s.inlined[callee] = true
					scan(callee, c24W{e: s.w.e, subst: sub}, in, 1)
				}
			case *ssa.Store:
				if ia, ok := x.Addr.(*ssa.IndexAddr); ok {
					if lo, ok := rel(ia.X); ok && (at == nil || c24Unconditional(fn, in)) {
						s.writes = append(s.writes, c24Write{pos, lo.add(w.lin(ia.Index)), 1, x.Val, "", w})
					}
				}
			}
		})
	}
	s.inlined = map[*ssa.Function]bool{}
	scan(s.fn, s.w, nil, 0)
	sort.SliceStable(s.writes, func(i, j int) bool { return s.writes[i].in.Pos() < s.writes[j].in.Pos() })
	return s.writes
}

// ---------------------------------------------------------------------------------------

type c24Field struct {
	name   string
	lo     g11Lin
	width  int64
	family string                           // "v4", "v6", "" (both)
	value  func(wr c24Write) (bool, string) // the value is the tabled one
	broken string
}

func c24Fields(s *c24Seg, tcp bool) {
	c, fn, w, name := s.c, s.fn, s.w, s.name
	// ---- the family predicate: pkt[0]>>4 == 4
	isV4 := Guard{Name: "IPv4", Match: func(cd Cond, _ *ssa.If) (bool, bool) {
		if cd.Kind != CondCmp {
			return false, false
		}
		bo := cd.Base.(*ssa.BinOp)
		if bo.Op != token.EQL && bo.Op != token.NEQ {
			return false, false
		}
		for _, p := range [][2]ssa.Value{{bo.X, bo.Y}, {bo.Y, bo.X}} {
			k, isC := constInt(p[1])
			sh, isSh := p[0].(*ssa.BinOp)
			if !isC || k != 4 || !isSh || sh.Op != token.SHR {
				continue
			}
			if n, ok := constInt(sh.Y); !ok || n != 4 {
				continue
			}
			if ld, ok := sh.X.(*ssa.UnOp); ok && ld.Op == token.MUL {
				if ia, ok := ld.X.(*ssa.IndexAddr); ok && ia.X == ssa.Value(s.pkt) {
					if z, ok := constInt(ia.Index); ok && z == 0 {
						return true, (bo.Op == token.EQL) != cd.Neg
					}
				}
			}
		}
		return false, false
	}}
	s.v4, _ = passEdges(fn, isV4)
	s.v6 = map[Edge]bool{}
	for e := range s.v4 {
		s.v6[Edge{e.From, 1 - e.Succ}] = true
	}
	if len(s.v4) == 0 {
		c.Unknown("C24.fields", name+":family", "no test of pkt[0]>>4 == 4 found")
		return
	}
	// reads of the original header before the loop: BigEndian.UintN(pkt[lo:lo+n])
	origRead := func(v ssa.Value, lo g11Lin, width int64) bool {
		ok, seen := true, 0
		var walk func(v ssa.Value, d int)
		walk = func(v ssa.Value, d int) {
			if phi, isPhi := v.(*ssa.Phi); isPhi && d < 4 && !s.L.Body[phi.Block()] {
				for _, e := range phi.Edges {
					if k, isC := constInt(e); isC && k == 0 {
						continue // the other family's zero value
					}
					walk(e, d+1)
				}
				return
			}
			call, _ := v.(*ssa.Call)
			en, nm := "", ""
			if call != nil {
				en, nm = endianOf(calleeObj(call))
			}
			if call == nil || en != "BE" || !strings.HasPrefix(nm, "Uint") || int64(widthOfBinaryFn(nm)) != width || s.L.Body[call.Block()] {
				ok = false
				return
			}
			root, l, h := s.pktRange(callArgs(call)[1])
			if root != ssa.Value(s.pkt) || h == nil || !l.equal(lo) || !h.sub(l).equal(g11Const(width)) {
				ok = false
				return
			}
			seen++
		}
		walk(v, 0)
		return ok && seen > 0
	}
	// value = (an original read at lo/width) + delta
	origPlus := func(lo g11Lin, width int64, delta g11Lin, what string) func(c24Write) (bool, string) {
		return func(wr c24Write) (bool, string) {
			d := wr.lin().sub(delta)
			if len(d.T) != 1 || d.K != 0 {
				return false, "the value is not " + what + ": " + wr.lin().String()
			}
			var base ssa.Value
			eachInstr(fn, func(in ssa.Instruction) {
				if v, ok := in.(ssa.Value); ok && c24IsInt(v.Type()) && w.lin(v).equal(d) {
					if _, isConv := v.(*ssa.Convert); !isConv {
						base = v
					}
				}
			})
			if base == nil || !origRead(base, lo, width) {
				return false, "the value is not " + what + " (the base is not the superpacket's own field)"
			}
			return true, ""
		}
	}
	linIs := func(want g11Lin, what string) func(c24Write) (bool, string) {
		return func(wr c24Write) (bool, string) {
			if wr.lin().equal(want) {
				return true, ""
			}
			return false, "the value is " + wr.lin().String() + ", not " + what
		}
	}
	// checksum written: folded value that depends on every listed per-segment value
	dependsOn := func(what string, needs ...func(ssa.Value) bool) func(c24Write) (bool, string) {
		return func(wr c24Write) (bool, string) {
			for k, need := range needs {
				found := false
				seen := map[ssa.Value]bool{}
				var walk func(v ssa.Value)
				walk = func(v ssa.Value) {
					if v == nil || seen[v] || found {
						return
					}
					seen[v] = true
					if need(v) {
						found = true
						return
					}
					if r, ok := wr.w.subst[v]; ok {
						walk(r)
						return
					}
					if in, ok := v.(ssa.Instruction); ok {
						var ops []*ssa.Value
						for _, op := range in.Operands(ops) {
							if op != nil {
								walk(*op)
							}
						}
					}
				}
				walk(wr.val)
				if !found {
					return false, fmt.Sprintf("the %s does not depend on ingredient #%d of what it covers", what, k+1)
				}
			}
			return true, ""
		}
	}
	isLin := func(want g11Lin) func(ssa.Value) bool {
		return func(v ssa.Value) bool { return c24IsInt(v.Type()) && w.lin(v).equal(want) }
	}
	isCallTo := func(r Ref) func(ssa.Value) bool {
		return func(v ssa.Value) bool { call, _ := callOf(v); return call != nil && matchFunc(calleeObj(call), r) }
	}
	iL := w.lin(s.i)
	totalLen := s.H.add(s.SP)
	// the payload checksum: Checksum over pkt[H+i*G : H+E], or over a slice of the segment from CS on
	payloadSum := func(v ssa.Value) bool {
		call, _ := v.(*ssa.Call)
		if call == nil || !matchFunc(calleeObj(call), Ref{"overlay/checksum", "", "Checksum"}) || !s.L.Body[call.Block()] {
			return false
		}
		root, lo, hi := s.pktRange(call.Call.Args[0])
		if root != ssa.Value(s.pkt) {
			return false
		}
		end := s.H.add(w.lin(s.E))
		if hi != nil && lo.equal(s.H.add(s.lo)) && hi.equal(end) {
			return true
		}
		// seg[CS:] = pkt[i*G+CS : H+E]
		return lo.equal(s.lo.add(s.CS)) && (hi == nil || hi.equal(end))
	}
	fields := []c24Field{
		{"ipv4-total-length", g11Const(2), 2, "v4", linIs(totalLen, "hdrLen + this segment's payload length"), "the IPv4 total length of a segment is not its own length: the receiver truncates or rejects it"},
		{"ipv4-id", g11Const(4), 2, "v4", origPlus(g11Const(4), 2, iL, "the superpacket's IP ID + i"), "IPv4 IDs of the segments do not increment from the superpacket's ID"},
		{"ipv4-checksum", g11Const(10), 2, "v4", dependsOn("IPv4 header checksum", isCallTo(Ref{c24Virtio, "", "foldComplement"}), isCallTo(Ref{c24Virtio, "", "baseIPv4HdrSum"}), isLin(totalLen), func(v ssa.Value) bool { return c24IsInt(v.Type()) && g13LinOnlyAtomPlus(w.lin(v), iL) }), "the IPv4 header checksum is not recomputed from the segment's own total length and ID"},
		{"ipv6-payload-length", g11Const(4), 2, "v6", linIs(s.H.add(g11Const(-40)).add(s.SP), "hdrLen - 40 + this segment's payload length"), "the IPv6 payload length of a segment is not its own"},
	}
	if tcp {
		// TCP length for the pseudo header: (a header length that is not hdrLen) + this segment's payload
		tcpLen := func(v ssa.Value) bool {
			if !c24IsInt(v.Type()) {
				return false
			}
			l := w.lin(v).sub(s.SP)
			return len(l.T) > 0 && g13NoAtomOf(l, s.SP) && !l.equal(s.H)
		}
		fields = append(fields,
			c24Field{"tcp-sequence", s.CS.add(g11Const(4)), 4, "", origPlus(s.CS.add(g11Const(4)), 4, s.lo, "the superpacket's sequence number + i*G"), "TCP sequence numbers do not advance by the payload bytes of the preceding segments"},
			c24Field{"tcp-flags", s.CS.add(g11Const(13)), 1, "", func(c24Write) (bool, string) { return true, "" }, ""},
			c24Field{"tcp-checksum", s.CS.add(g11Const(16)), 2, "", dependsOn("TCP checksum", isCallTo(Ref{c24Virtio, "", "foldComplement"}), isCallTo(Ref{c24Virtio, "", "baseTCPHdrSum"}), isCallTo(Ref{c24Virtio, "", "basePseudoSum"}), payloadSum, isLin(w.lin(s.flagsWriteVal()).add(g11Const(0))), func(v ssa.Value) bool { return s.isSeqVal(v) }, tcpLen), "the TCP checksum is not recomputed from this segment's sequence number, flags, length and payload bytes"},
		)
	} else {
		udpLen := g11Const(8).add(s.SP)
		fields = append(fields,
			c24Field{"udp-length", s.CS.add(g11Const(4)), 2, "", linIs(udpLen, "8 + this segment's payload length"), "the UDP length of a segment is not its own"},
			c24Field{"udp-checksum", s.CS.add(g11Const(6)), 2, "", dependsOn("UDP checksum", payloadSum, isCallTo(Ref{c24Virtio, "", "basePseudoSum"}), isLin(udpLen)), "the UDP checksum is not recomputed over this segment's header and payload with its own length in the pseudo header"},
		)
	}
	writes := s.collectWrites()
	used := map[ssa.Instruction]bool{}
	// the family arm an instruction sits in: unreachable within the iteration once that family's
	// edges are removed
	armOf := func(in ssa.Instruction) string {
		for fam, edges := range map[string]map[Edge]bool{"v4": s.v4, "v6": s.v6} {
			blocked := g11BackEdges(s.L)
			for e := range edges {
				blocked[e] = true
			}
			if _, r := reachable(s.L.Header, blocked)[in.Block()]; !r {
				return fam
			}
		}
		return ""
	}
	for _, f := range fields {
		var good []ssa.Instruction
		n := 0
		for _, wr := range writes {
			if !wr.lo.equal(f.lo) || wr.width != f.width {
				continue
			}
			if arm := armOf(wr.in); f.family != "" && arm != "" && arm != f.family {
				continue // the other family's field at the same offset
			}
			used[wr.in] = true
			cons := fmt.Sprintf("%s:%s#%d", name, f.name, n)
			n++
			if wr.width > 1 && wr.endian != "BE" {
				c.Bad("C24.fields", cons, c.instrPos(wr.in), "the field is not written in network byte order")
				continue
			}
			if ok, why := f.value(wr); !ok {
				c.Bad("C24.fields", cons, c.instrPos(wr.in), f.broken+": "+why)
				continue
			}
			c.OK("C24.fields", cons, "tabled offset, big-endian, tabled value")
			good = append(good, wr.in)
		}
		isGood := func(in ssa.Instruction) bool {
			for _, g := range good {
				if g == in {
					return true
				}
			}
			return false
		}
		excused := map[Edge]bool{}
		switch f.family {
		case "v4":
			excused = s.v6
		case "v6":
			excused = s.v4
		}
		cons := fmt.Sprintf("%s:%s:every-segment", name, f.name)
		if av, path := c.avoidsCutEdges(fn, s.first(), s.yield, isGood, excused); av {
			if op := s.opaqueCall(); op != nil && n == len(good) {
				c.Unknown("C24.fields", cons, "no write of "+f.name+" on some path, but the segment is handed to "+fnName(op.Common().StaticCallee())+", which is not modelled and may write it")
			} else if n == len(good) { // only report "missing" when no write of the field was already reported wrong
				c.Bad("C24.fields", cons, c.instrPos(s.yield), "a segment reaches the callback without its "+f.name+" written: it carries the superpacket's (or the previous stamp's) value", path...)
			}
		} else {
			c.OK("C24.fields", cons, "written on every path to the callback")
		}
	}
	// UDP: the checksum field is zeroed before the sum over the segment, and 0 is sent as 0xffff
	if !tcp {
		var sum *ssa.Call
		eachInstr(fn, func(in ssa.Instruction) {
			if v, ok := in.(ssa.Value); ok && payloadSum(v) {
				sum = v.(*ssa.Call)
			}
		})
		zeroed := 0
		for _, wr := range writes {
			if k, isC := constInt(wr.resolved()); isC && k == 0 && wr.width == 1 && sum != nil && g13Dominates(wr.in, sum) {
				if wr.lo.equal(s.CS.add(g11Const(6))) || wr.lo.equal(s.CS.add(g11Const(7))) {
					zeroed++
					used[wr.in] = true
				}
			}
		}
		root, lo, _ := ssa.Value(nil), g11Lin{}, (*g11Lin)(nil)
		if sum != nil {
			root, lo, _ = s.pktRange(sum.Call.Args[0])
		}
		coversField := sum != nil && root == ssa.Value(s.pkt) && lo.equal(s.lo.add(s.CS))
		c.Check(sum != nil && (!coversField || zeroed == 2), "C24.fields", name+":udp-checksum:zeroed-before-sum", c.instrPos(s.yield), "both bytes zeroed before the sum", "the UDP checksum is summed over the segment with the superpacket's old checksum still in the field: every segment's checksum is wrong")
		// 0 -> 0xffff
		okFF := false
		for _, wr := range writes {
			if wr.lo.equal(s.CS.add(g11Const(6))) && wr.width == 2 {
				if phi, ok := wr.resolved().(*ssa.Phi); ok {
					for k, e := range phi.Edges {
						if v, isC := constInt(e); isC && v == 0xffff {
							other := phi.Edges[1-k]
							okE, _, _ := c.g13EdgeBehind(fn, s.L.Header, phi.Block().Preds[k], phi.Block(), gCmp("checksum == 0", func(x ssa.Value) bool { return x == other }, isIntConst(0), mustEqual))
							okFF = okFF || (len(phi.Edges) == 2 && okE)
						}
					}
				}
			}
		}
		c.Check(okFF, "C24.fields", name+":udp-checksum:zero-sent-as-ffff", c.instrPos(s.yield), "0 -> 0xffff", "a computed UDP checksum of 0 is written as 0, which the receiver reads as `no checksum` (RFC 768 requires 0xffff)")
	}
	nOdd := 0
	for _, wr := range writes {
		if !used[wr.in] {
			c.Unknown("C24.fields", fmt.Sprintf("%s:untabled-write#%d", name, nOdd), "a write into the segment at an offset that is not tabled as a per-segment field: "+c.instrPos(wr.in))
			nOdd++
		}
	}
}

// opaqueCall: a call inside the loop that hands (a slice of) pkt to a module function the rules do
// not model (an extracted patch helper): a write not found may be in there.
func (s *c24Seg) opaqueCall() ssa.CallInstruction {
	known := []Ref{{"overlay/checksum", "", "Checksum"}, {c24Virtio, "", "foldComplement"}, {c24Virtio, "", "basePseudoSum"}, {c24Virtio, "", "baseTCPHdrSum"}, {c24Virtio, "", "baseIPv4HdrSum"}}
	var out ssa.CallInstruction
	eachInstr(s.fn, func(in ssa.Instruction) {
		ci, ok := in.(ssa.CallInstruction)
		if !ok || !s.L.Body[in.Block()] {
			return
		}
		callee := ci.Common().StaticCallee()
		if callee == nil || !strings.HasPrefix(pkgPathOf(callee), nebulaMod) || matchAny(fnObj(callee), known) || s.inlined[callee] {
			return
		}
		for _, a := range ci.Common().Args {
			if root, _, _ := s.pktRange(a); root == ssa.Value(s.pkt) {
				out = ci
			}
		}
	})
	return out
}

// flagsWriteVal: the value stored at seg[CS+13] (nil-safe: a constant when absent).
func (s *c24Seg) flagsWriteVal() ssa.Value {
	for _, wr := range s.collectWrites() {
		if wr.width == 1 && wr.lo.equal(s.CS.add(g11Const(13))) {
			return wr.resolved()
		}
	}
	return ssa.NewConst(nil, types.Typ[types.UntypedNil])
}

// isSeqVal: v is the value written as the segment's sequence number.
func (s *c24Seg) isSeqVal(v ssa.Value) bool {
	for _, wr := range s.collectWrites() {
		if wr.width == 4 && wr.lo.equal(s.CS.add(g11Const(4))) && c24IsInt(v.Type()) && s.w.lin(v).equal(wr.lin()) {
			return true
		}
	}
	return false
}

// g13LinOnlyAtomPlus: d = (one atom) + i-form: the ID value origID + i.
func g13LinOnlyAtomPlus(d, i g11Lin) bool {
	r := d.sub(i)
	return len(r.T) == 1 && r.K == 0 && len(d.T) == len(i.T)+1
}

// g13NoAtomOf: d shares no atom with x.
func g13NoAtomOf(d, x g11Lin) bool {
	for k := range d.T {
		if _, ok := x.T[k]; ok {
			return false
		}
	}
	return true
}

// ---------------------------------------------------------------------------------------

func c24Flags(s *c24Seg) {
	c, fn, w, name := s.c, s.fn, s.w, s.name
	var st *c24Write
	for _, wr := range s.collectWrites() {
		wr := wr
		if wr.width == 1 && wr.lo.equal(s.CS.add(g11Const(13))) {
			st = &wr
		}
	}
	if st == nil {
		c.Unknown("C24.flags", name+":flags", "no store to the flags byte seg[csumStart+13]")
		return
	}
	type ver struct {
		mask  int64
		edges [][2]*ssa.BasicBlock
	}
	var vers []ver
	okOrigin := true
	var walk func(v ssa.Value, mask int64, edges [][2]*ssa.BasicBlock, d int)
	walk = func(v ssa.Value, mask int64, edges [][2]*ssa.BasicBlock, d int) {
		if d > 8 {
			okOrigin = false
			return
		}
		switch x := v.(type) {
		case *ssa.Phi:
			if s.L.Body[x.Block()] && x.Block() != s.L.Header {
				for k, e := range x.Edges {
					walk(e, mask, append(append([][2]*ssa.BasicBlock{}, edges...), [2]*ssa.BasicBlock{x.Block().Preds[k], x.Block()}), d+1)
				}
				return
			}
		case *ssa.BinOp:
			if k, isC := constInt(x.Y); isC {
				switch x.Op {
				case token.AND_NOT:
					walk(x.X, mask|(k&0xff), edges, d+1)
					return
				case token.AND:
					walk(x.X, mask|(^k&0xff), edges, d+1)
					return
				}
			}
		case *ssa.UnOp:
			if ia, ok := x.X.(*ssa.IndexAddr); ok && x.Op == token.MUL && ia.X == ssa.Value(s.pkt) && w.lin(ia.Index).equal(s.CS.add(g11Const(13))) && !s.L.Body[x.Block()] {
				vers = append(vers, ver{mask, edges})
				return
			}
		}
		okOrigin = false
	}
	walk(st.resolved(), 0, nil, 0)
	c.Check(okOrigin && len(vers) > 0, "C24.flags", name+":flags:origin", c.instrPos(st.in), "the superpacket's own flags byte, with constant bits cleared", "the flags byte of a segment is not derived from the superpacket's flags byte pkt[csumStart+13] by clearing constant bits only")
	if !okOrigin || len(vers) == 0 {
		return
	}
	iL, nL := w.e.lin(s.i), w.e.lin(s.N)
	type rule struct {
		what        string
		mask        int64
		keep, clear Guard
	}
	rules := []rule{
		{"CWR", 0x80, c.g11LinGuard("i == 0", w.e, g11Eq(iL, g11Const(0)), g11LEq(iL, g11Const(0))), c.g11LinGuard("i != 0", w.e, g11Cons{iL, g11NE0}, g11GEq(iL, g11Const(1)))},
		{"FIN|PSH", 0x09, c.g11LinGuard("i == last", w.e, g11Eq(iL, nL.add(g11Const(-1))), g11GEq(iL, nL.add(g11Const(-1)))), c.g11LinGuard("i != last", w.e, g11Cons{iL.sub(nL).add(g11Const(1)), g11NE0}, g11LEq(iL, nL.add(g11Const(-2))))},
	}
	behind := func(v ver, g Guard) bool {
		for _, e := range v.edges {
			if ok, _, _ := c.g13EdgeBehind(fn, s.L.Header, e[0], e[1], g); ok {
				return true
			}
		}
		return false
	}
	other := int64(0)
	for _, v := range vers {
		other |= v.mask &^ 0x89
	}
	c.Check(other == 0, "C24.flags", name+":flags:only-cwr-fin-psh", c.instrPos(st.in), "no other bit touched", fmt.Sprintf("flag bits %#x other than CWR/FIN/PSH are cleared on some segments: ACK/SYN/RST/URG/ECE of the superpacket do not reach them", other))
	for _, r := range rules {
		okR, why := true, ""
		for _, v := range vers {
			switch v.mask & r.mask {
			case 0:
				if !behind(v, r.keep) {
					okR, why = false, "kept on a segment without the test "+r.keep.Name
				}
			case r.mask:
				if !behind(v, r.clear) {
					okR, why = false, "cleared on a segment without the test "+r.clear.Name
				}
			default:
				okR, why = false, "only part of the mask is cleared"
			}
		}
		c.Check(okR, "C24.flags", name+":flags:"+r.what, c.instrPos(st.in), "kept exactly on the tabled segment", r.what+" is "+why+": the flag appears on a segment where it changes the meaning of the stream (a FIN before the last bytes, a repeated CWR) or is lost")
	}
}

// ---------------------------------------------------------------------------------------

func c24Dispatch(c *Ctx) {
	fn := c.Func(Ref{"overlay/tio", "", "SegmentSuperpacket"})
	fProto := c.Field("overlay/tio", "GSOInfo", "Proto")
	fGSO := c.Field("overlay/tio", "Packet", "GSO")
	fBytes := c.Field("overlay/tio", "Packet", "Bytes")
	if fn == nil || fProto == nil || fGSO == nil || fBytes == nil || len(fn.Params) != 2 {
		return
	}
	pkt, cb := fn.Params[0], fn.Params[1]
	// field path of a value loaded from the packet parameter (by value: Field ops, or FieldAddr on its spill)
	var path func(v ssa.Value) (string, bool)
	path = func(v ssa.Value) (string, bool) {
		switch x := v.(type) {
		case *ssa.Parameter:
			return "", x == pkt
		case *ssa.Alloc: // a local copy (the parameter's spill, or `g := pkt.GSO`): written once, as a whole
			var stored ssa.Value
			n := 0
			for _, r := range *x.Referrers() {
				if st, ok := r.(*ssa.Store); ok && st.Addr == ssa.Value(x) {
					stored = st.Val
					n++
				}
			}
			if n == 1 && !c24PartlyWritten(x) {
				return path(stored)
			}
		case *ssa.Field:
			p, ok := path(x.X)
			return p + "." + fieldOfVal(x).Name(), ok
		case *ssa.FieldAddr:
			p, ok := path(x.X)
			return p + "." + fieldOfAddr(x).Name(), ok
		case *ssa.UnOp:
			if x.Op == token.MUL {
				return path(x.X)
			}
		}
		return "", false
	}
	want := []string{".Bytes", ".GSO.HdrLen", ".GSO.CsumStart", ".GSO.Size"}
	for _, d := range []struct{ callee, konst string }{{"SegmentTCP", "GSOProtoTCP"}, {"SegmentUDP", "GSOProtoUDP"}} {
		kv := c.ConstVal("overlay/tio", d.konst)
		calls := callsIn(fn, Ref{c24Virtio, "", d.callee})
		if kv == nil {
			continue
		}
		k, _ := constantInt64(kv)
		if len(calls) == 0 {
			c.Unknown("C24.dispatch", "SegmentSuperpacket:"+d.callee, "no call found")
			continue
		}
		for n, ci := range calls {
			cons := fmt.Sprintf("SegmentSuperpacket:%s#%d", d.callee, n)
			a := callArgs(ci)
			okA := len(a) == 5 && a[4] == ssa.Value(cb)
			for j, wnt := range want {
				if okA {
					p, ok := path(a[j])
					okA = ok && p == wnt
				}
			}
			c.Check(okA, "C24.dispatch", cons+":arguments", c.instrPos(ci), "(Bytes, HdrLen, CsumStart, Size, fn)", "the segmenter is not given (pkt.Bytes, pkt.GSO.HdrLen, pkt.GSO.CsumStart, pkt.GSO.Size, fn) of the packet being segmented: headers are stamped at the wrong length or checksums start at the wrong offset")
			g := gCmp("Proto == "+d.konst, func(v ssa.Value) bool { p, ok := path(v); return ok && p == ".GSO.Proto" }, isIntConst(k), mustEqual)
			c.requireGuards("C24.dispatch", fn, []Sink{{Instr: ci, Desc: d.callee}}, cons, g)
		}
	}
	// ---- decodeRead
	dr := c.Func(Ref{"overlay/tio", "Offload", "decodeRead"})
	if dr == nil {
		return
	}
	// the GSOInfo written for a queued superpacket: stores of HdrLen / CsumStart / Size fields
	src := map[string]string{"HdrLen": "HdrLen", "CsumStart": "CsumStart", "Size": "GSOSize"}
	var hdrAlloc ssa.Value
	for _, ci := range callsIn(dr, Ref{c24Virtio, "", "CorrectHdrLen"}) {
		hdrAlloc = callArgs(ci)[1]
	}
	n, okSrc := 0, hdrAlloc != nil
	var sinks []Sink
	eachInstr(dr, func(in ssa.Instruction) {
		st, ok := in.(*ssa.Store)
		if !ok {
			return
		}
		fa, ok := st.Addr.(*ssa.FieldAddr)
		if !ok {
			return
		}
		if nt := recvNamed(fa.X.Type()); nt == nil || nt.Obj().Name() != "GSOInfo" {
			return
		}
		from, tabled := src[fieldOfAddr(fa).Name()]
		if !tabled {
			return
		}
		n++
		sinks = append(sinks, Sink{Instr: st, Desc: "GSOInfo." + fieldOfAddr(fa).Name()})
		ld, isLd := st.Val.(*ssa.UnOp)
		var f2 *ssa.FieldAddr
		if isLd {
			f2, _ = ld.X.(*ssa.FieldAddr)
		}
		okSrc = okSrc && f2 != nil && f2.X == hdrAlloc && fieldOfAddr(f2).Name() == from
	})
	if n == 0 {
		c.Unknown("C24.dispatch", "decodeRead:gso-info", "no GSOInfo{HdrLen, CsumStart, Size} construction found")
		return
	}
	c.Check(okSrc && n == 3, "C24.dispatch", "decodeRead:gso-info", c.P.Pos(dr.Pos()), "Size/HdrLen/CsumStart of the corrected header", "the GSO metadata queued with a superpacket is not (GSOSize, HdrLen, CsumStart) of the header CorrectHdrLen was given: the segmenter works with the kernel's untrusted header length")
	c.requireGuards("C24.dispatch", dr, sinks, "queue-superpacket",
		gErrNil("CheckValid err == nil", callTo(Ref{c24Virtio, "", "CheckValid"})),
		gErrNil("CorrectHdrLen err == nil", callTo(Ref{c24Virtio, "", "CorrectHdrLen"})))
}

// c24Unconditional: every path from the entry of fn to a return executes in (the helper performs
// the write whenever it is called).
func c24Unconditional(fn *ssa.Function, in ssa.Instruction) bool {
	for _, r := range g11Returns(fn) {
		if !g13Dominates(in, r) {
			return false
		}
	}
	return len(g11Returns(fn)) > 0
}

// c24PartlyWritten: some field or element of the local is stored separately.
func c24PartlyWritten(al *ssa.Alloc) bool {
	for _, r := range *al.Referrers() {
		switch x := r.(type) {
		case *ssa.FieldAddr:
			for _, rr := range *x.Referrers() {
				if st, ok := rr.(*ssa.Store); ok && st.Addr == ssa.Value(x) {
					return true
				}
			}
		case *ssa.IndexAddr:
			return true
		}
	}
	return false
}
