package main

import (
	"fmt"
	"go/token"
	"go/types"
	"sort"
	"strings"

	"golang.org/x/tools/go/ssa"
)

func init() {
	register(&Property{
		ID: "C19", Title: "Tracked flows are revalidated after a rule reload",
		Patterns:    []string{"."},
		Technique:   "CFG guard reachability on inConns (honour only when the flow's rule-set stamp is current or the flow re-matched; forget on a failed re-match) and on reloadFirewall (install only on change, carry the flow table over only when the version did not wrap, version = old+1 stored before the install), provenance of the re-match direction / table / packet and of the stamps, who-may-write tables for the version and direction fields",
		LevelText:   "Structural necessary conditions on all paths: inConns honours (and caches) a flow found in the table only across the edge where the flow's stamp is not older than the firewall's rule-set version, or across the success edge of table.match for the same packet in the direction recorded in the flow, on the table (InRules/OutRules) that direction selects; inConns refuses a flow that is in the table only after deleting it (a failed re-match forgets the flow); flows are stamped with the version of the firewall that allowed them and the direction Drop judged, and nothing else writes those fields; reloadFirewall installs a new firewall only if the firewall section or the certificate's unsafe networks changed, numbers it old+1 before installing it, carries the old flow table over exactly when the new number is not zero (wrap), and is the only writer of Firewall.rulesVersion / Interface.firewall besides the constructors.",
		LevelNote:   "Not decided: behaviour over concrete reload/traffic histories; the routine-local cache may honour a flow for up to one cache tick after a reload without revalidation (documented experimental cache, bounded by C18.cache-reset); at the version wrap (every 65536th effective reload) the flow table is dropped, so established flows whose return direction no rule allows are cut even if the rules did not change - the code's documented 'be safe' choice, necessary for the first sentence of the property and in tension with its second; data race on Interface.firewall (C34).",
		Explanation: "K1 on inConns and reloadFirewall, K11 for the re-match arguments and the stamps (table under decided direction), K13 wrap handler, K2 writer tables",
		Run:         runC19,
		Canaries: func(c *Ctx) []Canary {
			return []Canary{
				{Name: "stale-flows-skip-revalidation", File: "firewall.go", Old: "\tif c.rulesVersion != f.rulesVersion {\n\t\t// This conntrack entry was for an older rule set, validate", New: "\tif c.rulesVersion > f.rulesVersion {\n\t\t// This conntrack entry was for an older rule set, validate", Rule: "C19.revalidate"},
				{Name: "revalidation-result-ignored", File: "firewall.go", Old: "\t\t\tdelete(conntrack.Conns, fp)\n\t\t\tconntrack.Unlock()\n\t\t\treturn false\n\t\t}\n\n\t\tif f.l.Enabled(context.Background(), slog.LevelDebug) {\n\t\t\th.logger(f.l).Debug(\"keeping", New: "\t\t}\n\n\t\tif f.l.Enabled(context.Background(), slog.LevelDebug) {\n\t\t\th.logger(f.l).Debug(\"keeping", Rule: "C19.revalidate"},
				{Name: "revalidate-opposite-direction", File: "firewall.go", Old: "\t\tif !table.match(fp, c.incoming, h.ConnectionState.peerCert, caPool) {", New: "\t\tif !table.match(fp, !c.incoming, h.ConnectionState.peerCert, caPool) {", Rule: "C19.direction"},
				{Name: "revalidate-always-on-inbound-table", File: "firewall.go", Old: "\t\ttable := f.OutRules\n\t\tif c.incoming {\n\t\t\ttable = f.InRules\n\t\t}", New: "\t\ttable := f.InRules\n\t\tif c.incoming {\n\t\t\ttable = f.InRules\n\t\t}", Rule: "C19.direction"},
				{Name: "failed-flow-not-forgotten", File: "firewall.go", Old: "\t\t\tdelete(conntrack.Conns, fp)\n\t\t\tconntrack.Unlock()\n\t\t\treturn false\n\t\t}\n\n\t\tif f.l.Enabled", New: "\t\t\tconntrack.Unlock()\n\t\t\treturn false\n\t\t}\n\n\t\tif f.l.Enabled", Rule: "C19.forget"},
				{Name: "flow-table-kept-across-wrap", File: "interface.go", Old: "\t} else {\n\t\tfw.Conntrack = conntrack\n\t}\n\n\tf.firewall = fw", New: "\t}\n\tfw.Conntrack = conntrack\n\n\tf.firewall = fw", Rule: "C19.reload"},
				{Name: "version-not-incremented", File: "interface.go", Old: "\tfw.rulesVersion = oldFw.rulesVersion + 1\n", New: "\tfw.rulesVersion = oldFw.rulesVersion\n", Rule: "C19.reload"},
				{Name: "every-reload-starts-empty", File: "interface.go", Old: "\t} else {\n\t\tfw.Conntrack = conntrack\n\t}\n\n\tf.firewall = fw", New: "\t}\n\n\tf.firewall = fw", Rule: "C19.reload"},
				{Name: "reload-without-change-bumps-version", File: "interface.go", Old: "\t\tf.l.Debug(\"No firewall config change detected\")\n\t\treturn\n\t}", New: "\t\tf.l.Debug(\"No firewall config change detected\")\n\t}", Rule: "C19.reload"},
				{Name: "wrap-tested-before-numbering", File: "interface.go", Old: "\tfw.rulesVersion = oldFw.rulesVersion + 1\n\t// If rulesVersion is back to zero, we have wrapped all the way around. Be\n\t// safe and just reset conntrack in this case.\n\tif fw.rulesVersion == 0 {", New: "\twrapped := fw.rulesVersion == 0\n\tfw.rulesVersion = oldFw.rulesVersion + 1\n\t// If rulesVersion is back to zero, we have wrapped all the way around. Be\n\t// safe and just reset conntrack in this case.\n\tif wrapped {", Rule: "C19.reload"},
				{Name: "direction-not-recorded", File: "firewall.go", Old: "\tc.incoming = incoming\n\tc.rulesVersion = f.rulesVersion\n", New: "\tc.rulesVersion = f.rulesVersion\n", Rule: "C19.stamp"},
				{Name: "stamp-ahead-of-firewall", File: "firewall.go", Old: "\tc.incoming = incoming\n\tc.rulesVersion = f.rulesVersion\n", New: "\tc.incoming = incoming\n\tc.rulesVersion = f.rulesVersion + 1\n", Rule: "C19.stamp"},
				{Name: "stale-flow-cached-before-revalidation", File: "firewall.go", Old: "\tif c.rulesVersion != f.rulesVersion {\n\t\t// This conntrack entry was for an older rule set, validate", New: "\tif localCache != nil {\n\t\tlocalCache[fp] = struct{}{}\n\t}\n\tif c.rulesVersion != f.rulesVersion {\n\t\t// This conntrack entry was for an older rule set, validate", Rule: "C19.revalidate"},
				{Name: "drop-judges-by-the-other-table", File: "firewall.go", Old: "\ttable := f.OutRules\n\tif incoming {\n\t\ttable = f.InRules\n\t}", New: "\ttable := f.InRules\n\tif incoming {\n\t\ttable = f.OutRules\n\t}", Rule: "C19.direction"},
				{Name: "version-reset-in-destroy", File: "firewall.go", Old: "\t//TODO: clean references if/when needed\n", New: "\tf.rulesVersion = 0\n", Rule: "C19.writers"},
			}
		},
	})
}

func runC19(c *Ctx) {
	c.Rule("C19.revalidate", "K1: inConns returns true for, and caches, a flow found in the table only across `flow stamp not older than f.rulesVersion` or across the success edge of table.match(fp, flow.incoming)", 2)
	c.Rule("C19.direction", "K11: the re-match judges the function's own packet, in the direction recorded in the flow, on InRules when that direction is incoming and OutRules otherwise; Drop selects the table from its direction the same way", 7)
	c.Rule("C19.forget", "K1: inConns answers false for a packet it found in the flow table only after deleting that flow (a flow that failed its re-match is forgotten)", 1)
	c.Rule("C19.stamp", "K11: conn.rulesVersion is only ever set to the rulesVersion of the firewall executing (addConn, inConns); addConn records Drop's direction in the flow it inserts", 4)
	c.Rule("C19.reload", "K1/K13: reloadFirewall installs a firewall only if the firewall section or the unsafe networks changed; the installed firewall was numbered old+1 before the install; the old flow table is carried over only when the new number is not zero, and always then", 5)
	c.Rule("C19.writers", "K2: Firewall.rulesVersion, Interface.firewall, Firewall.Conntrack, conn.rulesVersion and conn.incoming are written only by the tabled functions", 5)

	a := c18Resolve(c)
	fConnVer, fConnIn := c.Field("", "conn", "rulesVersion"), c.Field("", "conn", "incoming")
	fFwVer, fFwCt := c.Field("", "Firewall", "rulesVersion"), c.Field("", "Firewall", "Conntrack")
	fIn, fOut := c.Field("", "Firewall", "InRules"), c.Field("", "Firewall", "OutRules")
	fIfFw := c.Field("", "Interface", "firewall")
	reload := c.Func(Ref{"", "Interface", "reloadFirewall"})
	if !a.ok || fConnVer == nil || fConnIn == nil || fFwVer == nil || fFwCt == nil || fIn == nil || fOut == nil || fIfFw == nil || reload == nil {
		return
	}
	boolT := types.Typ[types.Bool]
	inFP := a.paramOfType(c, a.inConns, a.packet, "packet")
	addFP, addIn := a.paramOfType(c, a.addConn, a.packet, "packet"), a.paramOfType(c, a.addConn, boolT, "direction")
	dropFP, dropIn := a.paramOfType(c, a.drop, a.packet, "packet"), a.paramOfType(c, a.drop, boolT, "direction")
	if inFP == nil || addFP == nil || addIn == nil || dropFP == nil || dropIn == nil {
		return
	}
	connT := c.NamedType("", "conn")
	if connT == nil {
		return
	}
	fromLookup := func(v ssa.Value) bool {
		return derivesFrom(v, sliceLocal, func(x ssa.Value) bool { lk, ok := x.(*ssa.Lookup); return ok && a.isConns(lk.X) })
	}
	recvOf := func(fn *ssa.Function) func(ssa.Value) bool {
		return func(v ssa.Value) bool { return v == ssa.Value(fn.Params[0]) }
	}
	isInFP := func(v ssa.Value) bool { return g2ParamValue(v, inFP) == 1 }
	// a frame names, inside one function, the flow found in the table, the packet and the firewall;
	// the root frame is inConns, a child frame is a helper inConns hands the flow to
	root := c19Frame{fn: a.inConns, isConn: fromLookup, isFP: isInFP, isRecv: recvOf(a.inConns)}
	bind := func(fr c19Frame, call ssa.CallInstruction) (c19Frame, bool) {
		callee := call.Common().StaticCallee()
		if callee == nil || callee.Blocks == nil || !strings.HasPrefix(pkgPathOf(callee), nebulaMod) {
			return c19Frame{}, false
		}
		conn, fp, recv := map[*ssa.Parameter]bool{}, []*ssa.Parameter{}, map[*ssa.Parameter]bool{}
		for i, arg := range call.Common().Args {
			if i >= len(callee.Params) {
				break
			}
			p := callee.Params[i]
			switch {
			case types.Identical(arg.Type(), types.NewPointer(connT)) && fr.isConn(arg):
				conn[p] = true
			case fr.isFP(arg):
				fp = append(fp, p)
			case fr.isRecv(arg):
				recv[p] = true
			}
		}
		if len(conn) == 0 {
			return c19Frame{}, false
		}
		isP := func(m map[*ssa.Parameter]bool) func(ssa.Value) bool {
			return func(v ssa.Value) bool { p, ok := stripValue(v).(*ssa.Parameter); return ok && m[p] }
		}
		return c19Frame{fn: callee, isConn: isP(conn), isRecv: isP(recv), isFP: func(v ssa.Value) bool {
			for _, p := range fp {
				if g2ParamValue(v, p) == 1 {
					return true
				}
			}
			return false
		}}, true
	}
	flowDirIn := func(fr c19Frame) func(ssa.Value) bool {
		return func(v ssa.Value) bool { return g2LoadOn(v, fConnIn, fr.isConn) }
	}

	// ---- revalidate
	// any comparison of the two numbers decides; the passing side is the one that implies
	// `flow stamp >= firewall version` (numbers only grow between two wraps, and a wrap starts
	// from an empty table): skipping the re-match for an older stamp is what must not happen
	current := func(fr c19Frame) Guard {
		return gCmp("flow stamp is not older than f.rulesVersion",
			func(v ssa.Value) bool { return g2LoadOn(v, fConnVer, fr.isConn) },
			func(v ssa.Value) bool { return g2LoadOn(v, fFwVer, fr.isRecv) },
			func(op token.Token) (bool, bool) {
				switch op {
				case token.EQL, token.GEQ, token.GTR:
					return true, true
				case token.NEQ, token.LSS, token.LEQ:
					return true, false
				}
				return false, false
			})
	}
	rematch := func(fr c19Frame) Guard {
		return gBool("table.match(fp, flow.incoming) == true", true, -1, callTo(a.match).withArg(1, fr.isFP).withArg(2, flowDirIn(fr)))
	}
	// inHelper: the same test made by a helper that is handed the flow (one level)
	inHelper := func(name string, of func(c19Frame) []Guard) Guard {
		return g2SummaryGuard(name, func(call *ssa.Call, callee *ssa.Function) (Guard, bool) {
			sub, ok := bind(root, call)
			if !ok {
				return Guard{}, false
			}
			return g2Lift(callee, name, of(sub)...), true
		})
	}
	validName := "flow stamp current, or flow re-matched against the current rules"
	both := func(fr c19Frame) []Guard { return []Guard{current(fr), rematch(fr)} }
	valid := g2Lift(a.inConns, validName, append(both(root), inHelper(validName, both))...)
	var starts []*ssa.BasicBlock
	for _, op := range g2MapOps(a.inConns, a.isConns) {
		if op.Kind == "lookup" {
			starts = append(starts, op.In.Block())
		}
	}
	c.g2RequireRet("C19.revalidate", "inConns:honour<-current-or-rematched", a.inConns, starts, 0, true, valid,
		"a flow created under an older rule set is honoured without being re-matched against the current rules")
	var cacheIns []Sink
	for _, op := range g2MapOps(a.inConns, a.isCache) {
		if op.Kind == "update" {
			cacheIns = append(cacheIns, Sink{Instr: op.In, Desc: "localCache[fp] = {}"})
		}
	}
	c.g2RequireFrom("C19.revalidate", "inConns:cache-insert<-current-or-rematched", a.inConns, starts, cacheIns, valid,
		"a flow created under an older rule set is put into the routine cache (honoured without any check for a tick) without being re-matched")

	// ---- direction
	src := func(v ssa.Value) (string, bool) {
		for f, n := range map[*types.Var]string{fIn: "InRules", fOut: "OutRules"} {
			if g2LoadOn(v, f, func(ssa.Value) bool { return true }) {
				return n, true
			}
		}
		return "", false
	}
	bindDir := func(call *ssa.Call, callee *ssa.Function, isSel func(ssa.Value) bool) func(ssa.Value) bool {
		ps := map[*ssa.Parameter]bool{}
		for i, arg := range call.Call.Args {
			if i < len(callee.Params) && isSel(arg) {
				ps[callee.Params[i]] = true
			}
		}
		if len(ps) == 0 {
			return nil
		}
		return func(x ssa.Value) bool { p, ok := stripValue(x).(*ssa.Parameter); return ok && ps[p] }
	}
	tableUnder := func(fn *ssa.Function, site string, call ssa.CallInstruction, isDir func(ssa.Value) bool) {
		for _, d := range []struct {
			val  int64
			name string
			want string
		}{{1, "incoming", "InRules"}, {0, "outgoing", "OutRules"}} {
			got := g2SourcesUnder(fn, isDir, g2Sel{Const: true, Val: d.val}, callArgs(call)[0], src, bindDir, 0)
			cons := fmt.Sprintf("%s:table[%s]", site, d.name)
			switch {
			case g2OnlySource(got, d.want):
				c.OK("C19.direction", cons, "Firewall."+d.want)
			case g2HasOpaque(got) && !got["InRules"] && !got["OutRules"]:
				c.Unknown("C19.direction", cons, "the table derives from "+g2SetString(got)+": not a form the rule can relate to InRules/OutRules")
			default:
				c.Bad("C19.direction", cons, c.instrPos(call), fmt.Sprintf("for an %s flow the rules consulted are %s, not Firewall.%s: the flow is judged by the rules of the wrong direction", d.name, g2SetString(got), d.want))
			}
		}
	}
	type matchSite struct {
		fr   c19Frame
		call ssa.CallInstruction
	}
	var rm []matchSite
	for _, ci := range callsIn(a.inConns, a.match) {
		rm = append(rm, matchSite{root, ci})
	}
	eachInstr(a.inConns, func(in ssa.Instruction) {
		if ci, ok := in.(*ssa.Call); ok {
			if sub, ok := bind(root, ci); ok {
				for _, mc := range callsIn(sub.fn, a.match) {
					rm = append(rm, matchSite{sub, mc})
				}
			}
		}
	})
	if len(rm) == 0 {
		c.Unknown("C19.direction", "inConns:match", "no re-match call found in inConns (or in a helper it hands the flow to)")
	}
	for i, m := range rm {
		site := fmt.Sprintf("inConns:match#%d", i)
		args := callArgs(m.call)
		c.Check(m.fr.isFP(args[1]), "C19.direction", site+":packet", c.instrPos(m.call), "the packet being judged", "the re-match judges "+exprString(args[1])+", not the function's unmodified packet parameter")
		c.Check(flowDirIn(m.fr)(args[2]), "C19.direction", site+":direction", c.instrPos(m.call), "flow.incoming of the flow found in the table", "the re-match direction is "+exprString(args[2])+", not the `incoming` recorded in the flow looked up: a flow is revalidated against the rules of a direction it was not allowed in")
		tableUnder(m.fr.fn, site, m.call, flowDirIn(m.fr))
	}
	isDropIn := func(v ssa.Value) bool { return stripValue(v) == ssa.Value(dropIn) }
	for i, ci := range callsIn(a.drop, a.match) {
		site := fmt.Sprintf("Drop:match#%d", i)
		c.Check(isDropIn(callArgs(ci)[2]), "C19.direction", site+":direction", c.instrPos(ci), "Drop's direction", "Drop matches in a direction other than the one it was asked about (that direction is what addConn records)")
		tableUnder(a.drop, site, ci, isDropIn)
	}

	// ---- forget
	// inConns answering false for a flow that IS in the table means the flow was judged invalid:
	// it must be gone by then (Drop falls through to the rule match of the packet in hand only)
	hitArms, _ := splitEdges(a.inConns, g2FoundGuard("packet found in the flow table", a.isConns))
	refuse := boolReturns(a.inConns, 0, false)
	if len(hitArms) == 0 || len(refuse) == 0 {
		c.Unknown("C19.forget", "inConns:refused-flow->deleted", "table hit or `return false` not found in inConns")
	} else {
		isDel := func(in ssa.Instruction) bool {
			for _, op := range g2MapOps(a.inConns, a.isConns) {
				if op.In == in && op.Kind == "delete" && isInFP(op.Key) {
					return true
				}
			}
			return false
		}
		w := c.g2Explore(a.inConns, hitArms, nil, nil, isDel)
		verdict := 0
		var path []string
		var at ssa.Instruction
		for _, s := range refuse {
			if p, v := w.retVerdict(s, 0, false); v == 1 || (v == -1 && verdict == 0) {
				verdict, path, at = v, p, s.Instr
			}
		}
		switch verdict {
		case 1:
			c.Bad("C19.forget", "inConns:refused-flow->deleted", c.instrPos(at), "inConns refuses a flow that is in the table without deleting it: a flow whose original direction is no longer allowed stays tracked, and is honoured again without a new allowed packet once the rules are reverted", path...)
		case -1:
			c.Unknown("C19.forget", "inConns:refused-flow->deleted", "a return after a table hit carries a result the rule cannot follow (path "+strings.Join(path, "->")+"): cannot decide whether a refused flow is always deleted")
		default:
			c.OK("C19.forget", "inConns:refused-flow->deleted", fmt.Sprintf("delete(Conns, fp) precedes each of %d `return false` after a table hit", len(refuse)))
		}
	}

	// ---- stamp
	funcs := c.moduleFuncs()
	nStamp := 0
	for _, fn := range funcs {
		eachInstr(fn, func(in ssa.Instruction) {
			st, ok := in.(*ssa.Store)
			if !ok || !isFieldAddrOf(st.Addr, fConnVer) || c.isTestHelperFile(in) {
				return
			}
			okv := fn.Signature.Recv() != nil && g2LoadOn(st.Val, fFwVer, recvOf(fn))
			c.Check(okv, "C19.stamp", fmt.Sprintf("%s:conn.rulesVersion#%d", fn.Name(), g2Ord(in, func(x ssa.Instruction) bool {
				s2, ok := x.(*ssa.Store)
				return ok && isFieldAddrOf(s2.Addr, fConnVer)
			})), c.instrPos(in), "the executing firewall's rulesVersion", "a flow is stamped with "+exprString(st.Val)+" instead of the rulesVersion of the firewall that just allowed / revalidated it: it can pass for current under a later rule set")
			nStamp++
		})
	}
	if nStamp == 0 {
		c.Unknown("C19.stamp", "conn.rulesVersion", "no stamp site found")
	}
	{
		var ins []g2MapOp
		for _, op := range g2MapOps(a.addConn, a.isConns) {
			if op.Kind == "update" {
				ins = append(ins, op)
			}
		}
		if len(ins) == 0 {
			c.Unknown("C19.stamp", "addConn:records-direction", "insert not found")
		}
		for i, op := range ins {
			// the inserted flow's incoming field is set from the direction parameter before the insert
			var set, other []ssa.Instruction
			eachInstr(a.addConn, func(in ssa.Instruction) {
				st, ok := in.(*ssa.Store)
				if !ok || !isFieldAddrOf(st.Addr, fConnIn) || st.Addr.(*ssa.FieldAddr).X != op.Val {
					return
				}
				if stripValue(st.Val) == ssa.Value(addIn) {
					set = append(set, in)
				} else {
					other = append(other, in)
				}
			})
			cons := fmt.Sprintf("addConn:insert#%d:records-direction", i)
			switch {
			case len(other) > 0:
				c.Bad("C19.stamp", cons, c.instrPos(other[0]), "the flow's direction is recorded as "+exprString(other[0].(*ssa.Store).Val)+", not the direction Drop judged")
			case len(set) == 0:
				c.Bad("C19.stamp", cons, c.instrPos(op.In), "the inserted flow does not record the direction it was allowed in: revalidation after a reload judges it as an outgoing flow whatever it was")
			default:
				held, path := c.g2MustPassInstr(a.addConn, nil, op.In, func(in ssa.Instruction) bool { return in == set[0] || (len(set) > 1 && in == set[1]) }, nil)
				c.Check(held, "C19.stamp", cons, c.instrPos(op.In), "incoming recorded before the insert", "a path inserts the flow without recording its direction: "+strings.Join(path, "->"))
			}
		}
	}
	for i, ci := range callsIn(a.drop, Ref{"", "Firewall", "addConn"}) {
		c.Check(isDropIn(callArgs(ci)[2]), "C19.stamp", fmt.Sprintf("Drop:addConn#%d:direction", i), c.instrPos(ci), "Drop's direction", "the direction recorded for the flow is not the direction Drop matched it in")
	}

	// ---- reload
	c19Reload(c, reload, fIfFw, fFwVer, fFwCt)

	// ---- writers
	tables := []struct {
		f     *types.Var
		name  string
		allow map[string]string
	}{
		{fFwVer, "Firewall.rulesVersion", map[string]string{"(*nebula.Interface).reloadFirewall": "numbers the new rule set"}},
		{fIfFw, "Interface.firewall", map[string]string{"(*nebula.Interface).reloadFirewall": "installs the new rule set", "nebula.NewInterface": "constructor"}},
		{fFwCt, "Firewall.Conntrack", map[string]string{"(*nebula.Interface).reloadFirewall": "carries the flow table over", "nebula.NewFirewall": "constructor: empty table"}},
		{fConnVer, "conn.rulesVersion", map[string]string{"(*nebula.Firewall).addConn": "stamps a new flow", "(*nebula.Firewall).inConns": "re-stamps a revalidated flow"}},
		{fConnIn, "conn.incoming", map[string]string{"(*nebula.Firewall).addConn": "records the direction the flow was allowed in"}},
	}
	for _, t := range tables {
		bad, n := 0, 0
		for _, w := range fieldWriters(funcs, t.f) {
			if c.isTestHelperFile(w.Instr) || w.Kind == "addr-escape" {
				continue
			}
			n++
			who := fnName(topFunc(w.Fn))
			if _, ok := t.allow[who]; !ok {
				bad++
				c.Bad("C19.writers", t.name+"<-"+who, c.instrPos(w.Instr), w.Kind+" outside the functions that keep versions and flows in step")
			}
		}
		if bad == 0 {
			c.Check(n > 0, "C19.writers", t.name, c.P.Pos(t.f.Pos()), fmt.Sprintf("%d write site(s), all tabled", n), "no writer found")
		}
	}
}

func c19Reload(c *Ctx, fn *ssa.Function, fIfFw, fFwVer, fFwCt *types.Var) {
	isOldFw := func(v ssa.Value) bool {
		return g2LoadOn(v, fIfFw, func(b ssa.Value) bool { return b == ssa.Value(fn.Params[0]) })
	}
	var installs, verStores, carries []*ssa.Store
	eachInstr(fn, func(in ssa.Instruction) {
		st, ok := in.(*ssa.Store)
		if !ok {
			return
		}
		switch {
		case isFieldAddrOf(st.Addr, fIfFw):
			installs = append(installs, st)
		case isFieldAddrOf(st.Addr, fFwVer):
			verStores = append(verStores, st)
		case isFieldAddrOf(st.Addr, fFwCt):
			carries = append(carries, st)
		}
	})
	byPos := func(s []*ssa.Store) {
		sort.SliceStable(s, func(i, j int) bool { return s[i].Pos() < s[j].Pos() })
	}
	byPos(installs)
	byPos(verStores)
	byPos(carries)
	if len(installs) != 1 || len(verStores) != 1 {
		c.Unknown("C19.reload", "reloadFirewall:shape", fmt.Sprintf("%d installs of Interface.firewall and %d stores to Firewall.rulesVersion (one of each expected): unrecognised shape", len(installs), len(verStores)))
		return
	}
	install, ver := installs[0], verStores[0]
	newFw := install.Val
	baseOf := func(st *ssa.Store) ssa.Value { return st.Addr.(*ssa.FieldAddr).X }

	// (a) install only on change
	hasChanged := gBool(`config HasChanged("firewall")`, true, -1, callTo(Ref{"config", "C", "HasChanged"}).withArg(1, func(v ssa.Value) bool { s, ok := constString(v); return ok && s == "firewall" }))
	fUnsafe := c.Field("", "Firewall", "unsafeNetworks")
	unsafeDiffer := gBool("certificate unsafe networks differ from the firewall's", false, -1, CallSpec{Refs: []Ref{{"slices", "", "Equal"}}, Args: map[int]func(ssa.Value) bool{}})
	if fUnsafe != nil {
		inner := unsafeDiffer
		unsafeDiffer = Guard{Name: inner.Name, Match: func(cd Cond, ifi *ssa.If) (bool, bool) {
			is, pt := inner.Match(cd, ifi)
			if !is {
				return false, false
			}
			call, _ := callOf(cd.Base)
			for _, arg := range callArgs(call) {
				if g2LoadOn(arg, fUnsafe, isOldFw) {
					return true, pt
				}
			}
			return false, false
		}}
	}
	changed := g2Lift(fn, "firewall section or certificate unsafe networks changed", hasChanged, unsafeDiffer)
	sink := []Sink{{Instr: install, Desc: "f.firewall = fw"}}
	if path, hit, n := c.g2Bypass(fn, sink[0], changed); !hit {
		if n == 0 {
			c.Unknown("C19.reload", "reloadFirewall:install<-changed", "no change test found and the install is unreachable: unrecognised shape")
		} else {
			c.OK("C19.reload", "reloadFirewall:install<-changed", fmt.Sprintf("%d change test(s) guard the install", n))
		}
	} else if g2Materialised(fn, changed, hasChanged, unsafeDiffer) {
		c.Unknown("C19.reload", "reloadFirewall:install<-changed", "the change tests are combined into a value the rule cannot follow")
	} else {
		c.Bad("C19.reload", "reloadFirewall:install<-changed", c.instrPos(install), "a reload that changed neither the firewall section nor the certificate's unsafe networks installs a new firewall and consumes a rule-set number: repeated no-op reloads reach the wrap, which drops every tracked flow", path...)
	}

	// (b) numbered old+1, on the firewall that gets installed, before the install
	okNum := false
	if bo, ok := ver.Val.(*ssa.BinOp); ok && bo.Op == token.ADD {
		isOldVer := func(v ssa.Value) bool { return g2LoadOn(v, fFwVer, isOldFw) }
		okNum = (isOldVer(bo.X) && isIntConst(1)(bo.Y)) || (isOldVer(bo.Y) && isIntConst(1)(bo.X))
	}
	c.Check(okNum, "C19.reload", "reloadFirewall:version=old+1", c.instrPos(ver), "installed firewall's rulesVersion + 1", "the new rule set is numbered "+exprString(ver.Val)+", not the installed firewall's rulesVersion + 1: flows stamped under the old rules are not recognised as older and skip revalidation")
	held, path := c.g2MustPassInstr(fn, nil, install, func(in ssa.Instruction) bool { return in == ssa.Instruction(ver) }, nil)
	c.Check(baseOf(ver) == newFw && held, "C19.reload", "reloadFirewall:numbered-before-install", c.instrPos(install), "the firewall installed is the one that was numbered, before it is installed", "the firewall that gets installed is not (yet) numbered old+1 when it becomes visible: "+strings.Join(path, "->"))

	// (c) carry-over only when the new number did not wrap
	isNewVer := func(v ssa.Value) bool {
		if v == ver.Val {
			return true
		}
		if !g2LoadOn(v, fFwVer, func(b ssa.Value) bool { return b == newFw }) {
			return false
		}
		// a load of the new firewall's number counts only after it was assigned
		ld := stripValue(v).(ssa.Instruction)
		return ver.Block() == ld.Block() && instrIndex(ver) < instrIndex(ld) || ver.Block() != ld.Block() && ver.Block().Dominates(ld.Block())
	}
	isOldVer := func(v ssa.Value) bool { return g2LoadOn(v, fFwVer, isOldFw) }
	notWrapped := gAny("new rulesVersion != 0",
		gCmp("new rulesVersion != 0", isNewVer, isIntConst(0), mustDiffer),
		gCmp("old rulesVersion != 65535", isOldVer, isIntConst(65535), mustDiffer))
	isCarry := func(in ssa.Instruction) bool {
		for _, st := range carries {
			if in == ssa.Instruction(st) && baseOf(st) == newFw && g2LoadOn(st.Val, fFwCt, isOldFw) {
				return true
			}
		}
		return false
	}
	var carrySinks []Sink
	for _, st := range carries {
		if baseOf(st) == newFw {
			carrySinks = append(carrySinks, Sink{Instr: st, Desc: "fw.Conntrack = old flow table"})
		}
	}
	if len(carrySinks) > 0 {
		okC, n := true, 0
		var p []string
		for _, s := range carrySinks {
			pp, hit, nn := c.g2Bypass(fn, s, notWrapped)
			n = nn
			if hit {
				okC, p = false, pp
			}
		}
		switch {
		case okC && n > 0:
			c.OK("C19.reload", "reloadFirewall:carry-over<-not-wrapped", "the old flow table is reused only when the new number is not zero")
		case !okC:
			c.Bad("C19.reload", "reloadFirewall:carry-over<-not-wrapped", c.instrPos(carrySinks[0].Instr), "the old flow table is carried into a rule set whose number wrapped to zero (or the wrap is tested on the number before it was assigned): flows stamped 65536 reloads ago carry the same number as the new rules and skip revalidation", p...)
		default:
			c.Unknown("C19.reload", "reloadFirewall:carry-over<-not-wrapped", "unrecognised shape")
		}
	} else {
		c.OK("C19.reload", "reloadFirewall:carry-over<-not-wrapped", "no carry-over at all (see always-carried)")
	}
	// (d) and always then
	wrapEdges := g2FailEdges(fn, notWrapped)
	if _, n := passEdges(fn, notWrapped); n == 0 {
		wrapEdges = nil
	}
	held, path = c.g2MustPassInstr(fn, nil, install, isCarry, wrapEdges)
	c.Check(held, "C19.reload", "reloadFirewall:always-carried-unless-wrapped", c.instrPos(install), "every install that did not wrap reuses the installed firewall's flow table", "a reload installs a firewall with an empty (or foreign) flow table although the number did not wrap: every established flow whose return direction no rule allows is cut by a reload: "+strings.Join(path, "->"))
}

// c19Frame names, inside one function, the flow found in the table, the packet judged and the
// firewall executing.
type c19Frame struct {
	fn                   *ssa.Function
	isConn, isFP, isRecv func(ssa.Value) bool
}
