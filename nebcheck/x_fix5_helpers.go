package main

import (
	"go/ast"
	"strings"

	"golang.org/x/tools/go/ssa"
)

// Helpers added for following delegation (a block extracted into a same-package helper) in
// C30 / C31 / C32. All identifiers carry the fix5 prefix.

// fix5Helper: the same-module function with a body that a plain (not go / defer) static call
// instruction runs, else nil.
func fix5Helper(in ssa.Instruction) *ssa.Function {
	call, ok := in.(*ssa.Call)
	if !ok {
		return nil
	}
	return fix5Callee(call)
}

func fix5Callee(call *ssa.Call) *ssa.Function {
	if call == nil || call.Call.IsInvoke() {
		return nil
	}
	h := call.Call.StaticCallee()
	if h == nil || h.Blocks == nil || !strings.HasPrefix(pkgPathOf(h), nebulaMod) {
		return nil
	}
	return h
}

// fix5ParamIndex: v is (a conversion of / a single-assignment spill of) a parameter of h: its
// position in h.Params (receiver included), else -1.
func fix5ParamIndex(h *ssa.Function, v ssa.Value) int {
	for j := range h.Params {
		if g8IsParamIn(h, map[int]bool{j: true})(v) {
			return j
		}
	}
	return -1
}

// fix5PossibleInts: the set of integer constants the value v can take, following phis and the
// results of same-module helpers (their returned constants; a returned parameter is mapped back
// to the argument at the call site). -1 stands for "some value this walk cannot enumerate".
func fix5PossibleInts(v ssa.Value) map[int64]bool {
	out := map[int64]bool{}
	type key struct {
		v    ssa.Value
		site *ssa.Call
	}
	seen := map[key]bool{}
	// stack: the call sites entered, innermost last (to map a returned parameter back)
	var walk func(v ssa.Value, d int, stack []*ssa.Call)
	walk = func(v ssa.Value, d int, stack []*ssa.Call) {
		if d > 16 {
			out[-1] = true
			return
		}
		if k, ok := constInt(v); ok {
			out[k] = true
			return
		}
		sv := g8Resolve(v)
		if k, ok := constInt(sv); ok {
			out[k] = true
			return
		}
		var site *ssa.Call
		if n := len(stack); n > 0 {
			site = stack[n-1]
		}
		switch x := sv.(type) {
		case *ssa.Phi:
			if seen[key{x, site}] {
				return
			}
			seen[key{x, site}] = true
			for _, e := range x.Edges {
				walk(e, d+1, stack)
			}
			return
		case *ssa.Parameter:
			// a helper returning one of its parameters: the caller's argument
			if h := fix5Callee(site); h != nil && x.Parent() == h {
				if j := fix5ParamIndex(h, x); j >= 0 && j < len(site.Call.Args) {
					walk(site.Call.Args[j], d+1, stack[:len(stack)-1])
					return
				}
			}
		case *ssa.Call, *ssa.Extract:
			call, idx := callOf(sv)
			h := fix5Callee(call)
			if h == nil || len(stack) >= 3 {
				break
			}
			for _, c := range stack {
				if fix5Callee(c) == h {
					out[-1] = true // recursion
					return
				}
			}
			if idx < 0 {
				idx = 0
			}
			rets := g8Returns(h)
			if len(rets) == 0 {
				break
			}
			inner := append(append([]*ssa.Call{}, stack...), call)
			for _, r := range rets {
				if idx >= len(r.Results) {
					out[-1] = true
					return
				}
				walk(retResult(r, idx), d+1, inner)
			}
			return
		}
		out[-1] = true
	}
	walk(v, 0, nil)
	return out
}

// fix5Lift widens an instruction predicate used as a "this step was performed" cut: the lifted
// predicate also holds for a plain call of a same-module helper in which every path from the
// entry to every return executes an instruction satisfying the (lifted) predicate. The predicate
// must be structural (field objects, callee names), not tied to values of one function.
func fix5Lift(pred func(ssa.Instruction) bool, depth int) func(ssa.Instruction) bool {
	memo := map[*ssa.Function]int{} // 0 unknown, 1 yes, 2 no / in progress
	var lifted func(d int) func(ssa.Instruction) bool
	lifted = func(d int) func(ssa.Instruction) bool {
		return func(in ssa.Instruction) bool {
			if pred(in) {
				return true
			}
			if d <= 0 {
				return false
			}
			h := fix5Helper(in)
			if h == nil {
				return false
			}
			switch memo[h] {
			case 1:
				return true
			case 2:
				return false
			}
			memo[h] = 2
			if fix5MustPass(h, lifted(d-1)) {
				memo[h] = 1
				return true
			}
			return false
		}
	}
	return lifted(depth)
}

// fix5MustPass: every path from the entry of h to a return executes an instruction satisfying cut
// (and at least one path does). Paths ending in a panic never return and are not counted;
// functions with a recover block are refused.
func fix5MustPass(h *ssa.Function, cut func(ssa.Instruction) bool) bool {
	if h == nil || len(h.Blocks) == 0 || h.Recover != nil {
		return false
	}
	seen := map[*ssa.BasicBlock]bool{h.Blocks[0]: true}
	queue := []*ssa.BasicBlock{h.Blocks[0]}
	nret := 0
	for len(queue) > 0 {
		b := queue[0]
		queue = queue[1:]
		blocked := false
		for _, in := range b.Instrs {
			if cut(in) {
				blocked = true
				break
			}
			if _, isRet := in.(*ssa.Return); isRet {
				return false
			}
		}
		if blocked {
			nret++
			continue
		}
		for _, s := range b.Succs {
			if !seen[s] {
				seen[s] = true
				queue = append(queue, s)
			}
		}
	}
	return nret > 0
}

// fix5PartOfTabled: fn (not in a K2 allow-table) may be treated as a part of the tabled functions:
// it is an unexported, named function or method of the module, it is referenced only by plain
// static calls, and every caller is (the body or a closure of) a tabled function, or again such a
// part (up to depth levels). A function nobody calls is never accepted.
func fix5PartOfTabled(funcs []*ssa.Function, fn *ssa.Function, tabled func(name string) bool, depth int) bool {
	top := topFunc(fn)
	if top == nil {
		return false
	}
	o := fnObj(top)
	if o == nil || ast.IsExported(o.Name()) || !strings.HasPrefix(pkgPathOf(top), nebulaMod) {
		return false
	}
	n := 0
	for _, caller := range funcs {
		ok := true
		hit := false
		eachInstr(caller, func(in ssa.Instruction) {
			if ci, isCI := in.(ssa.CallInstruction); isCI && ci.Common().IsInvoke() && ci.Common().Method != nil && ci.Common().Method.Name() == o.Name() {
				hit, ok = true, false // possibly reached through an interface
			}
			var ops []*ssa.Value
			for _, op := range in.Operands(ops) {
				if op == nil || *op == nil {
					continue
				}
				f, isF := (*op).(*ssa.Function)
				if !isF {
					continue
				}
				ref := f == top
				if !ref && f.Synthetic != "" {
					if bt := boundTarget(f); bt != nil && bt == o {
						ref = true
					}
				}
				if !ref {
					continue
				}
				hit = true
				call, isCall := in.(*ssa.Call)
				if !isCall || call.Call.Value != ssa.Value(f) || f != top {
					ok = false // go / defer / function value / bound method
				}
			}
		})
		if !hit {
			continue
		}
		if !ok {
			return false
		}
		if topFunc(caller) == top {
			return false // recursion: not a plain extracted block
		}
		n++
		cn, ct := fnName(caller), fnName(topFunc(caller))
		if tabled(cn) || tabled(ct) {
			continue
		}
		if depth > 0 && fix5PartOfTabled(funcs, caller, tabled, depth-1) {
			continue
		}
		return false
	}
	return n > 0
}
