package main

import (
	"fmt"
	"go/token"
	"go/types"
	"os"
	"path/filepath"
	"sort"
	"strings"

	"golang.org/x/tools/go/ssa"
)

func init() {
	register(&Property{
		ID: "C22", Title: "Firewall configuration parses exactly",
		Patterns:    []string{"."},
		Technique:   "no-panic scan of the firewall configuration parsers (assertions, reflect, indexing of configuration lists/text), constant-argument and provenance check of the port parser, CFG guard reachability from entry to FirewallInterface.AddRule, table agreement (configuration keys -> rule fields -> AddRule arguments, protocol names -> protocol constants -> AddRule dispatch, direction flag -> table name)",
		LevelText:   "Structural necessary conditions on all paths of AddFirewallRulesFromConfig / convertRule / parsePort / parsePortValue / firewallPort.addRule: no construct of the parsers can panic on a configuration value; a port number is whatever strconv.ParseUint(text, 10, 16) returned with a nil error, both ends of a range go through it in order and start > end is refused; a rule reaches AddRule only if convertRule and parsePort succeeded, not both code and port were given, a selector is present, the protocol name is one of the known ones and cidr / local_cidr parse; every rule field is read from its own configuration key and handed to AddRule in its own position, protocol names map to the firewall package's constants and AddRule dispatches each of them, inbound/outbound select the matching table.",
		LevelNote:   "Not decided: that the rule tree built by (*Firewall).AddRule admits exactly the described packets (C16 covers verdict semantics); the YAML decoder; strconv.ParseUint's own contract (trusted: base 10, 16 bits => decimal text in 0..65535 or an error). Assumes YAML values have unnamed basic dynamic types (reflect Kind String => string).",
		Explanation: "K12 over the parser closure, K11 constants/provenance in parsePortValue and parsePort, K1 guard sets with sink fw.AddRule (guards accepted through one level of helper), K7 key/field/argument and protocol tables, K15 dispatch of the protocol constants",
		Run:         runC22,
		Canaries: func(c *Ctx) []Canary {
			// the groups loop exists in two shapes: before and after the null-entry repair (finding F5b)
			src, _ := os.ReadFile(filepath.Join(repoDir(), "firewall.go"))
			assertCanary := Canary{Name: "groups-unchecked-string-assert", File: "firewall.go", Old: "\t\t\t\tif s, ok := v.Index(i).Interface().(string); ok {\n\t\t\t\t\tr.Groups[i] = s\n\t\t\t\t} else {\n\t\t\t\t\tr.Groups[i] = fmt.Sprintf(\"%v\", v.Index(i).Interface())\n\t\t\t\t}\n", New: "\t\t\t\tr.Groups[i] = v.Index(i).Interface().(string)\n", Rule: "C22.no-panic"}
			var extra []Canary
			if strings.Contains(string(src), "if s, ok := e.(string); ok {") {
				assertCanary.Old, assertCanary.New = "\t\t\t\tif s, ok := e.(string); ok {\n\t\t\t\t\tr.Groups[i] = s\n\t\t\t\t} else {\n\t\t\t\t\tr.Groups[i] = fmt.Sprintf(\"%v\", e)\n\t\t\t\t}\n", "\t\t\t\tr.Groups[i] = e.(string)\n"
			}
			if strings.Contains(string(src), "if !ok || v == nil {") {
				extra = append(extra, Canary{Name: "null-selector-becomes-text", File: "firewall.go", Old: "if !ok || v == nil {", New: "if !ok {", Rule: "C22.null-text"})
			}
			return append(extra, []Canary{
				// F5 re-introductions
				assertCanary,
				{Name: "groups-typeof-nil", File: "firewall.go", Old: "if rg, ok := m[\"groups\"]; ok && rg != nil {", New: "if rg, ok := m[\"groups\"]; ok {", Rule: "C22.no-panic"},
				{Name: "group-empty-array-indexed", File: "firewall.go", Old: "\t\tif len(v) == 0 {\n\t\t\treturn r, errors.New(\"group should contain a single value, an empty array was provided\")\n\t\t}\n", New: "", Rule: "C22.no-panic"},
				{Name: "range-pieces-unchecked", File: "firewall.go", Old: "if len(sPorts) != 2 || sPorts[0] == \"\" || sPorts[1] == \"\" {", New: "if sPorts[0] == \"\" || sPorts[1] == \"\" {", Rule: "C22.no-panic"},
				// port parsing
				{Name: "port-base-0", File: "firewall.go", Old: "n, err := strconv.ParseUint(s, 10, 16)", New: "n, err := strconv.ParseUint(s, 0, 16)", Rule: "C22.port-value"},
				{Name: "port-32-bits-truncated", File: "firewall.go", Old: "n, err := strconv.ParseUint(s, 10, 16)", New: "n, err := strconv.ParseUint(s, 10, 32)", Rule: "C22.port-value"},
				{Name: "range-end-error-ignored", File: "firewall.go", Old: "\tendPort, err := parsePortValue(\"ending range \", sPorts[1])\n\tif err != nil {\n\t\treturn notAPort, notAPort, err\n\t}\n", New: "\tendPort, _ := parsePortValue(\"ending range \", sPorts[1])\n", Rule: "C22.port-range"},
				{Name: "range-end-is-start", File: "firewall.go", Old: "endPort, err := parsePortValue(\"ending range \", sPorts[1])", New: "endPort, err := parsePortValue(\"ending range \", sPorts[0])", Rule: "C22.port-range"},
				{Name: "inverted-range-accepted", File: "firewall.go", Old: "\tif startPort > endPort {\n\t\treturn fmt.Errorf(\"start port was lower than end port\")\n\t}\n\n\tfor i := startPort; i <= endPort; i++ {", New: "\tfor i := startPort; i <= endPort; i++ {", Rule: "C22.range-order"},
				// guards before AddRule
				{Name: "port-error-ignored", File: "firewall.go", Old: "\t\tif err != nil {\n\t\t\treturn fmt.Errorf(\"%s rule #%v; %s %s\", table, i, errPort, err)\n\t\t}\n", New: "\t\t_ = errPort\n", Rule: "C22.errors-checked"},
				{Name: "no-selector-accepted", File: "firewall.go", Old: "if r.Host == \"\" && len(r.Groups) == 0 && r.Cidr == \"\" && r.LocalCidr == \"\" && r.CAName == \"\" && r.CASha == \"\" {", New: "if r.Host == \"\" && len(r.Groups) == 0 && r.Cidr == \"\" && r.LocalCidr == \"\" && r.CAName == \"\" && r.CASha == \"\" && r.Proto == \"\" {", Rule: "C22.rule-guards"},
				{Name: "code-and-port-accepted", File: "firewall.go", Old: "if r.Code != \"\" && r.Port != \"\" {", New: "if r.Code != \"\" && r.Port == \"any\" {", Rule: "C22.rule-guards"},
				{Name: "unknown-proto-is-any", File: "firewall.go", Old: "\t\tdefault:\n\t\t\treturn fmt.Errorf(\"%s rule #%v; proto was not understood; `%s`\", table, i, r.Proto)\n\t\t}\n\t\tif err != nil {", New: "\t\tdefault:\n\t\t\tproto = firewall.ProtoAny\n\t\t\tstartPort, endPort, err = parsePort(sPort)\n\t\t}\n\t\tif err != nil {", Rule: "C22.rule-guards"},
				{Name: "cidr-any-prefix-skips-parse", File: "firewall.go", Old: "if r.Cidr != \"\" && r.Cidr != \"any\" {", New: "if r.Cidr != \"\" && !strings.HasPrefix(r.Cidr, \"any\") {", Rule: "C22.rule-guards"},
				// tables
				{Name: "udp-loaded-as-tcp", File: "firewall.go", Old: "\t\tcase \"udp\":\n\t\t\tproto = firewall.ProtoUDP", New: "\t\tcase \"udp\":\n\t\t\tproto = firewall.ProtoTCP", Rule: "C22.proto-table"},
				{Name: "cidr-args-swapped", File: "firewall.go", Old: "r.Groups, r.Host, r.Cidr, r.LocalCidr, r.CAName, r.CASha)", New: "r.Groups, r.Host, r.LocalCidr, r.Cidr, r.CAName, r.CASha)", Rule: "C22.args"},
				{Name: "ports-swapped", File: "firewall.go", Old: "err = fw.AddRule(inbound, proto, startPort, endPort,", New: "err = fw.AddRule(inbound, proto, endPort, startPort,", Rule: "C22.args"},
				{Name: "ca-name-read-from-ca-sha", File: "firewall.go", Old: "r.CAName = toString(\"ca_name\", m)", New: "r.CAName = toString(\"ca_sha\", m)", Rule: "C22.keys"},
				{Name: "tables-crossed", File: "firewall.go", Old: "\tif inbound {\n\t\ttable = \"firewall.inbound\"\n\t} else {\n\t\ttable = \"firewall.outbound\"\n\t}", New: "\tif !inbound {\n\t\ttable = \"firewall.inbound\"\n\t} else {\n\t\ttable = \"firewall.outbound\"\n\t}", Rule: "C22.direction"},
			}...)
		},
	})
}

func runC22(c *Ctx) {
	c.Rule("C22.no-panic", "K12: in AddFirewallRulesFromConfig and everything it calls in the package (convertRule, its closure, parsePort, parsePortValue, sanity): no single-result assertion outside a matching reflect-kind test, no method on reflect.TypeOf(x) without x != nil, reflect Len/Index only under a kind test and i < Len, no index into a configuration list / split text without a length test, no panic()", 6)
	c.Rule("C22.port-value", "K11: parsePortValue parses its text parameter with strconv.ParseUint(text, 10, 16) and a nil-error return yields exactly that call's value", 2)
	c.Rule("C22.port-range", "K1/K11: every nil-error return of parsePort yields the any/fragment constants or values of parsePortValue calls whose error was tested; in the range form the first result comes from the piece before '-' and the second from the piece after it", 3)
	c.Rule("C22.range-order", "K1: firewallPort.addRule returns nil only if start <= end was established (an inverted range is refused, not silently empty)", 1)
	c.Rule("C22.errors-checked", "K1: after convertRule and after each parsePort call, AddRule is unreachable without the call's error having been tested nil", 2)
	c.Rule("C22.rule-guards", "K1: AddRule is reached only if not both code and port are given, at least one selector is non-empty, the protocol name equals one of the known names, and cidr / local_cidr are empty, 'any' or parsed without error", 5)
	c.Rule("C22.proto-table", "K7/K15: protocol name -> constant handed to AddRule equals the firewall package's constant for that name, and (*Firewall).AddRule has an arm for each", 8)
	c.Rule("C22.args", "K11: AddRule receives (inbound, proto, parsePort#0, parsePort#1, Groups, Host, Cidr, LocalCidr, CAName, CASha) of the converted rule, in that order; parsePort is given the port (or code) text", 9)
	c.Rule("C22.keys", "K7: convertRule fills each rule field from its own configuration key", 9)
	c.Rule("C22.null-text", "K12: a configuration value formatted (fmt.Sprint*) into host / groups / ca_name / ca_sha is tested non-nil first: YAML null must not become the selector text \"<nil>\"", 2)
	c.Rule("C22.direction", "K7: inbound selects firewall.inbound, otherwise firewall.outbound, and the same flag is passed to AddRule", 2)

	fnAdd := c.Func(Ref{"", "", "AddFirewallRulesFromConfig"})
	fnConv := c.Func(Ref{"", "", "convertRule"})
	fnPort := c.Func(Ref{"", "", "parsePort"})
	fnPV := c.Func(Ref{"", "", "parsePortValue"})
	fnFwAdd := c.Func(Ref{"", "Firewall", "AddRule"})
	fnPortAdd := c.g4Method("", "firewallPort", "addRule")
	if fnAdd == nil || fnConv == nil || fnPort == nil || fnPV == nil || fnFwAdd == nil || fnPortAdd == nil {
		return
	}
	fld := map[string]*typesVar{}
	for _, n := range []string{"Port", "Code", "Proto", "Host", "Groups", "Cidr", "LocalCidr", "CAName", "CASha"} {
		if fld[n] = c.Field("", "rule", n); fld[n] == nil {
			return
		}
	}
	konst := func(name string) (int64, bool) {
		v := c.ConstVal("firewall", name)
		if v == nil {
			return 0, false
		}
		return constantInt64(v)
	}
	refConv, refPort, refPV := Ref{"", "", "convertRule"}, Ref{"", "", "parsePort"}, Ref{"", "", "parsePortValue"}
	var nm g4Namer

	// ---- K12
	c.g4NoPanic("C22.no-panic", g4Closure(fnAdd))

	// ---- parsePortValue
	textIdx := -1 // which parameter of parsePortValue is the port text: the one fed from parsePort's parameter
	pvCalls := callsIn(fnPort, refPV)
	for _, call := range pvCalls {
		for j, a := range call.Common().Args {
			if derivesFrom(a, sliceThrough, func(x ssa.Value) bool { return x == fnPort.Params[0] }) {
				if textIdx >= 0 && textIdx != j {
					textIdx = -2
				} else if textIdx != -2 {
					textIdx = j
				}
			}
		}
	}
	if textIdx < 0 {
		c.Unknown("C22.port-value", "parsePortValue:text-parameter", "cannot tell which parameter of parsePortValue carries the port text (parsePort does not pass pieces of its parameter to it in one position)")
	} else if pu := callsIn(fnPV, Ref{"strconv", "", "ParseUint"}); len(pu) != 1 {
		c.Unknown("C22.port-value", "parsePortValue:ParseUint", fmt.Sprintf("expected one strconv.ParseUint call, found %d: unrecognised port parser", len(pu)))
	} else {
		call := pu[0].(*ssa.Call)
		a := call.Call.Args
		base, _ := constInt(a[1])
		bits, _ := constInt(a[2])
		switch {
		case stripValue(a[0]) != ssa.Value(fnPV.Params[textIdx]):
			c.Bad("C22.port-value", "parsePortValue:ParseUint-args", c.instrPos(call), "the text handed to ParseUint is not the port text parameter itself")
		case base != 10:
			c.Bad("C22.port-value", "parsePortValue:ParseUint-args", c.instrPos(call), fmt.Sprintf("base %d: hexadecimal / octal / prefixed port text would be reinterpreted instead of rejected (base must be 10)", base))
		case bits != 16:
			c.Bad("C22.port-value", "parsePortValue:ParseUint-args", c.instrPos(call), fmt.Sprintf("bitSize %d: the accepted range is not 0..65535 (a wider value is truncated by the int32/port conversion, a narrower one refuses valid ports)", bits))
		default:
			c.OK("C22.port-value", "parsePortValue:ParseUint-args", "ParseUint(text, 10, 16)")
		}
		for i, s := range g4SuccessReturns(fnPV) {
			ret := s.Instr.(*ssa.Return)
			v := retResult(ret, 0)
			onlyThis := true
			c.g4EachLeaf(v, s, nil, func(l ssa.Value, _ Sink) {
				cl, idx := callOf(l)
				onlyThis = onlyThis && cl == call && idx == 0
			})
			if !onlyThis {
				c.Bad("C22.port-value", fmt.Sprintf("parsePortValue:success-value#%d", i), c.instrPos(ret), "a nil-error return yields something else than the value ParseUint produced")
				continue
			}
			c.g4KeptValue("C22.port-value", fmt.Sprintf("parsePortValue:success-value#%d", i), fnPV, v, s, 0)
		}
	}

	// ---- parsePort
	pAny, ok1 := konst("PortAny")
	pFrag, ok2 := konst("PortFragment")
	if ok1 && ok2 {
		// piece of the split text a value was parsed from: 0 before the separator, 1 after it
		piece := func(call *ssa.Call) int {
			if textIdx < 0 || textIdx >= len(call.Call.Args) {
				return -1
			}
			got := map[int]bool{}
			trims := SliceOpts{Transparent: func(cl *ssa.Call) bool { // strings.Trim*(piece, ...) is still that piece
				o := calleeObj(cl)
				return o != nil && o.Pkg() != nil && o.Pkg().Path() == "strings" && strings.HasPrefix(o.Name(), "Trim")
			}}
			backSlice(call.Call.Args[textIdx], trims, func(x ssa.Value) {
				switch y := x.(type) {
				case *ssa.IndexAddr:
					if src, _ := callOf(y.X); src != nil && calleeObj(src) != nil && calleeObj(src).Pkg().Path() == "strings" {
						if k, ok := constInt(y.Index); ok {
							got[int(k)] = true
						} else {
							got[-1] = true
						}
					}
				case *ssa.Extract:
					if src, _ := callOf(y); src != nil && matchFunc(calleeObj(src), Ref{"strings", "", "Cut"}) && y.Index < 2 {
						got[y.Index] = true
					}
				}
			})
			if len(got) != 1 {
				return -1
			}
			for k := range got {
				return k
			}
			return -1
		}
		rangeReturns := 0
		for i, s := range g4SuccessReturns(fnPort) {
			ret := s.Instr.(*ssa.Return)
			var from [2]map[*ssa.Call]bool
			for r := 0; r < 2; r++ {
				from[r] = map[*ssa.Call]bool{}
				cons := fmt.Sprintf("parsePort:success#%d:result%d", i, r)
				badConst := ""
				c.g4EachLeaf(retResult(ret, r), s, nil, func(l ssa.Value, _ Sink) {
					if k, ok := constInt(l); ok && k != pAny && k != pFrag {
						badConst = fmt.Sprintf("constant %d is neither PortAny nor PortFragment", k)
					}
					if cl, idx := callOf(l); cl != nil && idx == 0 && matchFunc(calleeObj(cl), refPV) {
						from[r][cl] = true
					}
				})
				if badConst != "" {
					c.Bad("C22.port-range", cons, c.instrPos(ret), "a nil-error return yields a port that was not parsed from the text: "+badConst)
					continue
				}
				c.g4KeptValue("C22.port-range", cons, fnPort, retResult(ret, r), s, 0)
			}
			all := map[*ssa.Call]bool{}
			for r := 0; r < 2; r++ {
				for cl := range from[r] {
					all[cl] = true
				}
			}
			if len(all) < 2 {
				continue // single value / constants
			}
			rangeReturns++
			cons := fmt.Sprintf("parsePort:success#%d:range-ends", i)
			verdict := ""
			for r := 0; r < 2; r++ {
				for cl := range from[r] {
					switch p := piece(cl); {
					case p < 0:
						verdict = "?"
					case p != r && verdict == "":
						verdict = fmt.Sprintf("result %d (%s of the range) is parsed from piece %d of the split text", r, []string{"start", "end"}[r], p)
					}
				}
				if len(from[r]) == 0 && verdict == "" {
					verdict = fmt.Sprintf("result %d of the range form is not parsed from the text", r)
				}
			}
			switch verdict {
			case "":
				c.OK("C22.port-range", cons, "start from the piece before the separator, end from the piece after it")
			case "?":
				c.Unknown("C22.port-range", cons, "cannot relate the parsed values to the pieces of the split text")
			default:
				c.Bad("C22.port-range", cons, c.instrPos(ret), verdict+": the range described by the text is not the range loaded")
			}
		}
		if rangeReturns == 0 {
			c.Unknown("C22.port-range", "parsePort:range-form", "no nil-error return fed by two parsePortValue calls: range form not recognised")
		}
	}

	// ---- start <= end in firewallPort.addRule
	if len(fnPortAdd.Params) >= 4 {
		start, end := fnPortAdd.Params[2], fnPortAdd.Params[3]
		g := gCmp("start <= end", g4Same(start), g4Same(end), func(op token.Token) (bool, bool) {
			switch op {
			case token.GTR:
				return true, false
			case token.LEQ:
				return true, true
			}
			return false, false
		})
		for i, s := range g4SuccessReturns(fnPortAdd) {
			c.g4Require("C22.range-order", fmt.Sprintf("firewallPort.addRule:success#%d", i), fnPortAdd, s, g, "a range whose start exceeds its end installs nothing and still loads")
		}
	}

	// ---- guards before AddRule
	sinks := callSinks(fnAdd, "FirewallInterface.AddRule", callTo(Ref{"", "FirewallInterface", "AddRule"}, Ref{"", "Firewall", "AddRule"}))
	if len(sinks) == 0 {
		c.Unknown("C22.rule-guards", "AddFirewallRulesFromConfig:AddRule", "no AddRule call found: cannot decide")
		return
	}
	for _, ci := range append(callsIn(fnAdd, refConv), callsIn(fnAdd, refPort)...) {
		call, ok := ci.(*ssa.Call)
		if !ok {
			continue
		}
		c.g4CheckedAfter("C22.errors-checked", nm.name(fnAdd, g4CallName(call)), fnAdd, call, sinks, "a rule whose conversion / port text was rejected would still be installed")
	}
	isF := func(n string) func(ssa.Value) bool { return isFieldLoad(fld[n]) }
	empty := func(n string) Guard { return g4StrFieldIs(n+" == \"\"", fld[n], "", true) }
	nonEmpty := func(n string) Guard { return g4StrFieldIs(n+" != \"\"", fld[n], "", false) }
	protoNames := []string{"any", "tcp", "udp", "icmp"} // the documented protocol names of the firewall section
	var protoEq []Guard
	for _, p := range protoNames {
		protoEq = append(protoEq, g4StrFieldIs("proto == "+p, fld["Proto"], p, true))
	}
	cidrOK := func(n string) Guard {
		return gAny(n+" empty, any, or parsed",
			empty(n), g4StrFieldIs(n+" == any", fld[n], "any", true),
			gErrNil(n+" parses", CallSpec{Refs: []Ref{{"net/netip", "", "ParsePrefix"}}, Args: map[int]func(ssa.Value) bool{0: isF(n)}}))
	}
	guards := []struct {
		id, why string
		g       Guard
	}{
		{"code-xor-port", "a rule giving both code and port loads with one of them silently ignored",
			gAny("code or port empty", empty("Code"), empty("Port"))},
		{"selector", "a rule without host, group(s), cidr, local_cidr, ca_name and ca_sha loads and matches every peer",
			gAny("a selector is present", nonEmpty("Host"), nonEmpty("Cidr"), nonEmpty("LocalCidr"), nonEmpty("CAName"), nonEmpty("CASha"),
				g4BoundN("len(groups) > 0", isLenOf(isF("Groups")), true, 1, true))},
		{"known-proto", "an unknown protocol name loads as some protocol", gAny("proto is a known name", protoEq...)},
		{"cidr", "an unparsable cidr loads (and is never looked at when host/group is any)", cidrOK("Cidr")},
		{"local_cidr", "an unparsable local_cidr loads", cidrOK("LocalCidr")},
	}
	for _, gd := range guards {
		for i, s := range sinks {
			c.g4Require("C22.rule-guards", fmt.Sprintf("AddFirewallRulesFromConfig:AddRule#%d<-%s", i, gd.id), fnAdd, s, c.g4Summ(gd.g), gd.why)
		}
	}

	// ---- protocol table
	expect := map[string]string{"any": "ProtoAny", "tcp": "ProtoTCP", "udp": "ProtoUDP", "icmp": "ProtoICMP"}
	sink := sinks[0].Instr.(ssa.CallInstruction)
	args := callArgs(sink) // fw, incoming, proto, start, end, groups, host, cidr, localCidr, caName, caSha
	if len(args) != 11 {
		c.Unknown("C22.args", "AddRule:arity", fmt.Sprintf("AddRule has %d arguments, the table below was written for 10", len(args)-1))
		return
	}
	seenName := map[string]bool{}
	phi, _ := args[2].(*ssa.Phi)
	for _, b := range fnAdd.Blocks {
		ifi, ok := b.Instrs[len(b.Instrs)-1].(*ssa.If)
		if !ok {
			continue
		}
		cd := normCond(ifi.Cond)
		if cd.Kind != CondCmp {
			continue
		}
		bo := cd.Base.(*ssa.BinOp)
		if bo.Op != token.EQL || cd.Neg || !isF("Proto")(bo.X) {
			continue
		}
		name, ok := constString(bo.Y)
		if !ok {
			continue
		}
		cons := "proto-name:" + name
		seenName[name] = true
		want, known := expect[name]
		if !known {
			c.Unknown("C22.proto-table", cons, "protocol name not in the checker's table of documented names: review the table")
			continue
		}
		wv, ok := konst(want)
		if !ok {
			continue
		}
		if phi == nil {
			c.Unknown("C22.proto-table", cons, "the protocol handed to AddRule is not a merge of per-arm constants: unrecognised shape")
			continue
		}
		arm := b.Succs[0]
		var got []string
		okAll, n := true, 0
		// the protocol values merged into AddRule's argument on paths through this arm (nested merges followed)
		var collect func(v ssa.Value, inArm bool, d int)
		collect = func(v ssa.Value, inArm bool, d int) {
			if q, isPhi := v.(*ssa.Phi); isPhi && d < 6 {
				for k, p := range q.Block().Preds {
					collect(q.Edges[k], inArm || arm == p || arm.Dominates(p), d+1)
				}
				return
			}
			if inArm {
				n++
				kv, isK := constInt(v)
				got = append(got, v.String())
				okAll = okAll && isK && kv == wv
			}
		}
		collect(phi, false, 0)
		if n == 0 {
			c.Unknown("C22.proto-table", cons, "the arm does not reach the AddRule call")
			continue
		}
		c.Check(okAll, "C22.proto-table", cons, c.instrPos(ifi), fmt.Sprintf("-> firewall.%s (%d)", want, wv), fmt.Sprintf("proto %q is loaded as %v, expected firewall.%s = %d", name, got, want, wv))
		// dispatched by (*Firewall).AddRule
		has := false
		eachInstr(fnFwAdd, func(in ssa.Instruction) {
			if x, ok := in.(*ssa.BinOp); ok && x.Op == token.EQL && len(fnFwAdd.Params) > 2 {
				for _, pr := range [][2]ssa.Value{{x.X, x.Y}, {x.Y, x.X}} {
					if kv, isK := constInt(pr[1]); isK && kv == wv && stripValue(pr[0]) == ssa.Value(fnFwAdd.Params[2]) {
						has = true
					}
				}
			}
		})
		c.Check(has, "C22.proto-table", "dispatch:"+want, c.P.Pos(fnFwAdd.Pos()), "(*Firewall).AddRule has an arm", "(*Firewall).AddRule has no arm for firewall."+want+": a rule the parser accepts is refused or misfiled when added")
	}
	for _, p := range protoNames {
		if !seenName[p] {
			c.Bad("C22.proto-table", "proto-name:"+p, c.P.Pos(fnAdd.Pos()), "no arm for the documented protocol name "+p)
		}
	}

	// ---- arguments of AddRule
	fromConv := func(v ssa.Value) bool { return derivesFrom(v, sliceLocal, isCallTo(refConv)) }
	c.Check(stripValue(args[1]) == ssa.Value(fnAdd.Params[1]), "C22.direction", "AddRule:incoming", c.instrPos(sink), "the inbound flag itself", "AddRule's direction argument is not the inbound parameter")
	for k, n := range []string{"Groups", "Host", "Cidr", "LocalCidr", "CAName", "CASha"} { // AddRule positions 4..9 (+1 for the receiver)
		pos := k + 5
		v := stripValue(args[pos])
		okF := loadsField(v, fld[n]) && fromConv(v)
		c.Check(okF, "C22.args", "AddRule:arg-"+n, c.instrPos(sink), "rule."+n+" of the converted rule", fmt.Sprintf("argument %d of AddRule (%s) is not the %s field of the rule returned by convertRule: the rule is installed under another selector", pos-1, strings.ToLower(n), n))
	}
	for r, pos := range []int{3, 4} {
		okP, n := true, 0
		c.g4EachLeaf(args[pos], sinks[0], nil, func(l ssa.Value, _ Sink) {
			if _, isC := l.(*ssa.Const); isC {
				return
			}
			n++
			cl, idx := callOf(l)
			okP = okP && cl != nil && matchFunc(calleeObj(cl), refPort) && idx == r
		})
		c.Check(okP && n > 0, "C22.args", fmt.Sprintf("AddRule:arg-port%d", r), c.instrPos(sink), fmt.Sprintf("result %d of parsePort (%d arm(s)) or a constant", r, n), fmt.Sprintf("argument %d of AddRule is not result %d of parsePort: start and end of the range are not the ones parsed", pos-1, r))
	}
	for _, ci := range callsIn(fnAdd, refPort) {
		a := ci.Common().Args[0]
		only := true
		n := 0
		backSlice(a, sliceLocal, func(x ssa.Value) {
			for fname, f := range fld {
				if loadsField(x, f) {
					if _, isLoad := stripValue(x).(*ssa.UnOp); !isLoad {
						continue
					}
					n++
					only = only && (fname == "Port" || fname == "Code")
				}
			}
		})
		c.Check(only && n > 0, "C22.args", nm.name(fnAdd, "parsePort-text"), c.instrPos(ci), "port / code text of the rule", "parsePort is not given the rule's port (or code) text")
	}

	// ---- configuration keys -> rule fields
	schema := map[string][]string{"Port": {"port"}, "Code": {"code"}, "Proto": {"proto"}, "Host": {"host"}, "Groups": {"group", "groups"},
		"Cidr": {"cidr"}, "LocalCidr": {"local_cidr"}, "CAName": {"ca_name"}, "CASha": {"ca_sha"}} // the documented keys of a firewall rule
	keys := map[string]bool{}
	for _, ks := range schema {
		for _, k := range ks {
			keys[k] = true
		}
	}
	var fnames []string
	for n := range schema {
		fnames = append(fnames, n)
	}
	sort.Strings(fnames)
	for _, n := range fnames {
		got := map[string]bool{}
		stores := 0
		for _, f := range funcsWithAnon(fnConv) {
			eachInstr(f, func(in ssa.Instruction) {
				st, ok := in.(*ssa.Store)
				if !ok {
					return
				}
				fa, ok := st.Addr.(*ssa.FieldAddr)
				if !ok || fieldOfAddr(fa) != fld[n] {
					return
				}
				stores++
				for k := range g4KeysIn(st.Val, keys) {
					got[k] = true
				}
			})
		}
		if stores == 0 {
			c.Unknown("C22.keys", "rule."+n, "convertRule does not assign this field: unrecognised shape")
			continue
		}
		c.Check(g4SetEq(got, schema[n]...), "C22.keys", "rule."+n, c.P.Pos(fnConv.Pos()), fmt.Sprintf("read from %v", schema[n]), fmt.Sprintf("rule.%s is filled from configuration key(s) %s, expected %v", n, setStr(got), schema[n]))
	}

	// ---- direction -> table name
	c22Direction(c, fnAdd)

	// ---- null never becomes selector text
	c22NullText(c, fnConv, fld)
}

// c22Direction: the key handed to config.C.Get is "firewall.inbound" on the inbound side of the test
// of the inbound parameter and "firewall.outbound" on the other.
func c22Direction(c *Ctx, fn *ssa.Function) {
	gets := callsIn(fn, Ref{"config", "C", "Get"})
	if len(gets) != 1 {
		c.Unknown("C22.direction", "table-name", fmt.Sprintf("expected one config Get call, found %d", len(gets)))
		return
	}
	key := callArgs(gets[0])[1]
	phi, ok := key.(*ssa.Phi)
	var split *ssa.BasicBlock
	neg := false
	for _, b := range fn.Blocks {
		if ifi, isIf := b.Instrs[len(b.Instrs)-1].(*ssa.If); isIf {
			cd := normCond(ifi.Cond)
			if cd.Kind == CondBool && stripValue(cd.Base) == ssa.Value(fn.Params[1]) {
				split, neg = b, cd.Neg
			}
		}
	}
	if !ok || split == nil {
		c.Unknown("C22.direction", "table-name", "the table name is not selected by a test of the inbound parameter: unrecognised shape")
		return
	}
	want := map[bool]string{true: "firewall.inbound", false: "firewall.outbound"}
	bad := ""
	n := 0
	for side := 0; side < 2; side++ {
		inbound := (side == 0) != neg
		arm := split.Succs[side]
		for k, p := range phi.Block().Preds {
			viaArm := p == arm || arm.Dominates(p) || (arm == phi.Block() && p == split)
			if !viaArm {
				continue
			}
			n++
			if s, isS := constString(phi.Edges[k]); !isS || s != want[inbound] {
				bad = fmt.Sprintf("with inbound=%v the rules are read from %s, expected %q", inbound, phi.Edges[k], want[inbound])
			}
		}
	}
	if n < 2 && bad == "" {
		c.Unknown("C22.direction", "table-name", "could not relate both sides of the inbound test to the table name")
		return
	}
	c.Check(bad == "", "C22.direction", "table-name", c.instrPos(gets[0]), "inbound -> firewall.inbound, otherwise firewall.outbound", bad+": inbound rules would be enforced on outbound traffic and vice versa")
}

// c22NullText: the free-text selector fields (host, group(s), ca_name, ca_sha) are not validated by
// any parser afterwards, so whatever text convertRule puts there is the selector. A configuration
// value that is YAML null must therefore not be formatted into them (fmt renders it as "<nil>", a
// non-empty text that then satisfies the at-least-one-selector test and is installed as a selector).
// Every fmt.Sprint* call whose text reaches one of these fields (one level into module helpers /
// closures) must be reached only where its interface-typed operands were tested non-nil.
func c22NullText(c *Ctx, fnConv *ssa.Function, fld map[string]*typesVar) {
	type site struct {
		fn   *ssa.Function
		call *ssa.Call
	}
	var sites []site
	seenSite := map[*ssa.Call]bool{}
	var walk func(fn *ssa.Function, v ssa.Value, depth int, seen map[ssa.Value]bool)
	walk = func(fn *ssa.Function, v ssa.Value, depth int, seen map[ssa.Value]bool) {
		if v == nil || seen[v] {
			return
		}
		seen[v] = true
		switch x := v.(type) {
		case *ssa.Phi:
			for _, e := range x.Edges {
				walk(fn, e, depth, seen)
			}
		case *ssa.Slice:
			walk(fn, x.X, depth, seen)
		case *ssa.Alloc: // slice literal backing array
			for _, sv := range storesInto(x) {
				walk(fn, sv, depth, seen)
			}
		case *ssa.Call:
			if o := calleeObj(x); o != nil && o.Pkg() != nil && o.Pkg().Path() == "fmt" && (o.Name() == "Sprintf" || o.Name() == "Sprint" || o.Name() == "Sprintln") {
				if !seenSite[x] {
					seenSite[x] = true
					sites = append(sites, site{fn, x})
				}
				return
			}
			if h := x.Call.StaticCallee(); g4InModule(h) && depth < 2 {
				for _, b := range h.Blocks {
					if ret, ok := b.Instrs[len(b.Instrs)-1].(*ssa.Return); ok && len(ret.Results) > 0 {
						walk(h, retResult(ret, 0), depth+1, map[ssa.Value]bool{})
					}
				}
			}
		}
	}
	free := map[*typesVar]bool{fld["Host"]: true, fld["Groups"]: true, fld["CAName"]: true, fld["CASha"]: true}
	for _, f := range funcsWithAnon(fnConv) {
		eachInstr(f, func(in ssa.Instruction) {
			st, ok := in.(*ssa.Store)
			if !ok {
				return
			}
			addr := st.Addr
			if ia, isIdx := addr.(*ssa.IndexAddr); isIdx { // r.Groups[i] = ...
				if ld, isLd := ia.X.(*ssa.UnOp); isLd {
					addr = ld.X
				}
			}
			if fa, isF := addr.(*ssa.FieldAddr); isF && free[fieldOfAddr(fa)] {
				walk(f, st.Val, 0, map[ssa.Value]bool{})
			}
		})
	}
	if len(sites) == 0 {
		c.Unknown("C22.null-text", "convertRule:formatted-selectors", "no fmt.Sprint* call feeds host / groups / ca_name / ca_sha: unrecognised shape")
		return
	}
	var nm g4Namer
	for _, s := range sites {
		cons := nm.name(s.fn, "Sprint")
		// operands: elements stored into the variadic backing array that are interface values as they are
		var ops []ssa.Value
		for _, a := range s.call.Call.Args {
			if sl, ok := a.(*ssa.Slice); ok {
				if al, ok := sl.X.(*ssa.Alloc); ok {
					for _, sv := range storesInto(al) {
						if _, boxed := sv.(*ssa.MakeInterface); !boxed && c22IsIface(sv) {
							ops = append(ops, sv)
						}
					}
				}
			}
		}
		okAll := true
		for _, op := range ops {
			x := op
			g := gValNotNil("configuration value != nil", func(y ssa.Value) bool { return stripValue(y) == stripValue(x) })
			if ok, _, path := c.g4MustPass(s.fn, nil, Sink{Instr: s.call}, g); !ok {
				okAll = false
				c.Bad("C22.null-text", cons, c.instrPos(s.call), "a configuration value that may be YAML null is formatted into a free-text selector (host / group(s) / ca_name / ca_sha): it becomes the text \"<nil>\", passes the at-least-one-selector test and is installed as a selector the configuration never named", path...)
				break
			}
		}
		if okAll {
			c.OK("C22.null-text", cons, fmt.Sprintf("%d interface operand(s), each tested non-nil on every path", len(ops)))
		}
	}
}

func c22IsIface(v ssa.Value) bool {
	_, ok := v.Type().Underlying().(*types.Interface)
	return ok
}
