package main

// Rules added after three more independent seeded regressions were run against the checks and not reported (DESIGN.md §7.1).
// Each closes the gap as a rule about the class of defect; the property files written earlier stay untouched, the rules are
// attached to the property's Run / Canaries the way z_extra.go does it.
//
//   C37.all-paths        every return of unlockedSort (and of Rebuild) has de-duplicated and sorted the relays and sorted the
//                        addresses: neither normalisation can be skipped by a test on the *other* list
//   C40.scan-complete    the scan of BalancePacket is left only by exhaustion or by the accept test hash <= bound; ok=false is
//                        returned only after exhaustion
//   C43.algorithm-exact  every decision of the decrypt path that depends on the stored algorithm name is taken on the name
//                        itself (a direct load of the field), never on a normalised / partial derivative of it

import (
	"fmt"
	"go/token"
	"go/types"
	"sort"
	"strings"

	"golang.org/x/tools/go/ssa"
)

func init() {
	extend := func(id string, canaries []Canary, extra func(c *Ctx)) {
		p := registry[id]
		if p == nil {
			panic("y_fix1: property " + id + " not registered")
		}
		orig, origCan := p.Run, p.Canaries
		p.Run = func(c *Ctx) { orig(c); extra(c) }
		p.Canaries = func(c *Ctx) []Canary {
			var out []Canary
			if origCan != nil {
				out = origCan(c)
			}
			return g10FilterCanaries(append(out, canaries...))
		}
	}
	relayBlock := "\tdedupedRelays := map[netip.Addr]struct{}{}\n\tfor _, relay := range r.relays {\n\t\tdedupedRelays[relay] = struct{}{}\n\t}\n\tr.relays = r.relays[:0]\n\tfor relay := range dedupedRelays {\n\t\tr.relays = append(r.relays, relay)\n\t}\n"
	extend("C37", []Canary{
		{Name: "fix1-short-address-list-returns-before-relays", File: "remote_list.go", Old: "\t// Use a map to deduplicate any relay addresses\n\tdedupedRelays := map[netip.Addr]struct{}{}\n", New: "\tif len(r.addrs) < 2 {\n\t\treturn\n\t}\n\t// Use a map to deduplicate any relay addresses\n\tdedupedRelays := map[netip.Addr]struct{}{}\n", Rule: "C37.all-paths"},
		{Name: "fix1-relay-dedupe-only-with-addresses", File: "remote_list.go", Old: relayBlock, New: "\tif len(r.addrs) > 0 {\n" + relayBlock + "\t}\n", Rule: "C37.all-paths"},
		{Name: "fix1-relay-sort-only-with-addresses", File: "remote_list.go", Old: "\tslices.SortFunc(r.relays, func(a, b netip.Addr) int {\n\t\treturn a.Compare(b)\n\t})\n", New: "\tif len(r.addrs) != 0 {\n\t\tslices.SortFunc(r.relays, func(a, b netip.Addr) int {\n\t\t\treturn a.Compare(b)\n\t\t})\n\t}\n", Rule: "C37.all-paths"},
		{Name: "fix1-address-sort-skipped-without-relays", File: "remote_list.go", Old: "\t// Now the addrs\n\tn := len(r.addrs)\n", New: "\tif len(r.relays) == 0 {\n\t\treturn\n\t}\n\n\t// Now the addrs\n\tn := len(r.addrs)\n", Rule: "C37.all-paths"},
	}, fix1C37AllPaths)
	extend("C40", []Canary{
		{Name: "fix1-scan-breaks-on-sentinel-bound", File: "routing/balance.go", Old: "\t\tif hash <= gateways[i].BucketUpperBound() {\n", New: "\t\tif gateways[i].BucketUpperBound() == BucketNotCalculated {\n\t\t\tbreak\n\t\t}\n\t\tif hash <= gateways[i].BucketUpperBound() {\n", Rule: "C40.scan-complete"},
		{Name: "fix1-not-ok-returned-inside-scan", File: "routing/balance.go", Old: "\t\tif hash <= gateways[i].BucketUpperBound() {\n", New: "\t\tif gateways[i].BucketUpperBound() < 0 {\n\t\t\treturn gateways[hash%len(gateways)].Addr(), false\n\t\t}\n\t\tif hash <= gateways[i].BucketUpperBound() {\n", Rule: "C40.scan-complete"},
		{Name: "fix1-scan-gives-up-after-a-miss", File: "routing/balance.go", Old: "\t\tif hash <= gateways[i].BucketUpperBound() {\n", New: "\t\tif i > 0 && hash > gateways[i].BucketUpperBound() {\n\t\t\tbreak\n\t\t}\n\t\tif hash <= gateways[i].BucketUpperBound() {\n", Rule: "C40.scan-complete"},
	}, fix1C40ScanComplete)
	algSwitch := "\tswitch ned.EncryptionMetadata.EncryptionAlgorithm {\n\tcase \"AES-256-GCM\":"
	extend("C43", []Canary{
		// the seed used strings.ToUpper; a canary edits one place of one file and cert/crypto.go does not import strings, so
		// the same normalisation is written out by hand
		{Name: "fix1-algorithm-case-folded-before-compare", File: "cert/crypto.go", Old: algSwitch, New: "\tswitch func(s string) string {\n\t\tb := []byte(s)\n\t\tfor i := range b {\n\t\t\tif b[i] >= 'a' && b[i] <= 'z' {\n\t\t\t\tb[i] -= 'a' - 'A'\n\t\t\t}\n\t\t}\n\t\treturn string(b)\n\t}(ned.EncryptionMetadata.EncryptionAlgorithm) {\n\tcase \"AES-256-GCM\":", Rule: "C43.algorithm-exact"},
		{Name: "fix1-algorithm-prefix-match", File: "cert/crypto.go", Old: algSwitch, New: "\tswitch alg := ned.EncryptionMetadata.EncryptionAlgorithm; {\n\tcase len(alg) >= 7 && alg[:7] == \"AES-256\":", Rule: "C43.algorithm-exact"},
		{Name: "fix1-algorithm-truncated-when-parsed", File: "cert/crypto.go", Old: "\t\t\tEncryptionAlgorithm: rned.EncryptionMetadata.EncryptionAlgorithm,\n\t\t\tArgon2Parameters:    *params,", New: "\t\t\tEncryptionAlgorithm: rned.EncryptionMetadata.EncryptionAlgorithm[:min(11, len(rned.EncryptionMetadata.EncryptionAlgorithm))],\n\t\t\tArgon2Parameters:    *params,", Rule: "C43.algorithm-exact"},
	}, fix1C43AlgorithmExact)
}

// =======================================================================================
// C37: relay and address normalisation on every return path
//
// Seed C37: the early return `if len(r.addrs) < 2 { return }` was hoisted above the relay de-duplication and sort, so a peer
// with fewer than two addresses kept its relays in collection order (map iteration order across owners) with duplicates.
// C37.relays only looked at the paths *from* the map iteration, C37.sort only at the address sort. The rule here is the
// must-pass-through form: every entry->return path of unlockedSort passes the relay de-duplication, then the relay sort, and
// the address sort; the only edges that may bypass a normalisation are those that establish "fewer than two elements" of the
// list being normalised. A normalisation may live in a helper method / function literal called (or deferred) on the same
// receiver: the helper is summarised by the same rule. Rebuild must pass a call that has all three properties.

type fix1NormKind int

const (
	fix1RelayDedupe fix1NormKind = iota
	fix1RelaySort
	fix1AddrSort
)

var fix1NormNames = map[fix1NormKind]string{
	fix1RelayDedupe: "de-duplication of r.relays (map round trip or slices.Compact)",
	fix1RelaySort:   "sort of r.relays",
	fix1AddrSort:    "sort of r.addrs",
}

type fix1NormRes struct {
	all, found bool
	pos        string
	path       []string
}

type fix1Norm struct {
	c               *Ctx
	rl              *types.Named
	fAddrs, fRelays *types.Var
	memo            map[*ssa.Function]map[fix1NormKind]*fix1NormRes
	busy            map[*ssa.Function]bool
	after           map[*ssa.Function]*fix1NormRes
}

// fix1ShortGuard: a test that establishes len(x.f) < 2 on its passing side.
func fix1ShortGuard(f *types.Var) Guard {
	return Guard{Name: "fewer than two " + f.Name(), Match: func(cd Cond, _ *ssa.If) (bool, bool) {
		if cd.Kind != CondCmp {
			return false, false
		}
		bo := cd.Base.(*ssa.BinOp)
		op := bo.Op
		isLen := isLenOf(isFieldLoad(f))
		var k int64
		var ok bool
		switch {
		case isLen(bo.X):
			k, ok = constInt(bo.Y)
		case isLen(bo.Y):
			k, ok = constInt(bo.X)
			op = swapOp(op)
		}
		if !ok {
			return false, false
		}
		if cd.Neg {
			op = negOp(op)
		}
		switch {
		case op == token.LSS && k <= 2, op == token.LEQ && k <= 1, op == token.EQL && (k == 0 || k == 1):
			return true, true
		case op == token.GEQ && k <= 2, op == token.GTR && k <= 1:
			return true, false
		}
		return false, false
	}}
}

func (n *fix1Norm) field(kind fix1NormKind) *types.Var {
	if kind == fix1AddrSort {
		return n.fAddrs
	}
	return n.fRelays
}

// direct: in performs the normalisation itself.
func (n *fix1Norm) direct(fn *ssa.Function, kind fix1NormKind, in ssa.Instruction) bool {
	switch kind {
	case fix1RelaySort, fix1AddrSort:
		ci, ok := in.(*ssa.Call)
		if !ok || !matchAny(calleeObj(ci), c37SortCalls) {
			return false
		}
		a := callArgs(ci)
		return len(a) >= 1 && loadsField(stripValue(a[0]), n.field(kind))
	case fix1RelayDedupe:
		if ci, ok := in.(*ssa.Call); ok && matchAny(calleeObj(ci), c37Compact) {
			a := callArgs(ci)
			return len(a) >= 1 && loadsField(stripValue(a[0]), n.fRelays)
		}
		rg, ok := in.(*ssa.Range)
		if !ok {
			return false
		}
		if _, isMap := rg.X.Type().Underlying().(*types.Map); !isMap {
			return false
		}
		// the map iterated was filled from the elements of r.relays
		filled := false
		eachInstr(fn, func(x ssa.Instruction) {
			if mu, ok := x.(*ssa.MapUpdate); ok && mu.Map == rg.X && derivesFrom(mu.Key, sliceLocal, func(y ssa.Value) bool {
				switch e := y.(type) {
				case *ssa.IndexAddr:
					return loadsField(e.X, n.fRelays)
				case *ssa.Index:
					return loadsField(e.X, n.fRelays)
				}
				return false
			}) {
				filled = true
			}
		})
		return filled
	}
	return false
}

// helperOf: in is a call / deferred call of a module function that works on the same list: a function literal of fn, or a
// RemoteList method invoked on fn's own receiver.
func (n *fix1Norm) helperOf(fn *ssa.Function, in ssa.Instruction) *ssa.Function {
	var cc *ssa.CallCommon
	switch x := in.(type) {
	case *ssa.Call:
		cc = &x.Call
	case *ssa.Defer:
		cc = &x.Call
	default:
		return nil
	}
	g := cc.StaticCallee()
	if g == nil || g.Blocks == nil || g == fn || !strings.HasPrefix(pkgPathOf(g), nebulaMod) {
		return nil
	}
	if g.Parent() == fn {
		return g
	}
	if !g6RecvIs(g, n.rl) || len(cc.Args) == 0 {
		return nil
	}
	if fn.Parent() != nil {
		return g // inside a function literal the receiver is a captured variable
	}
	if g6RecvIs(fn, n.rl) && len(fn.Params) > 0 && g6IsParamValue(cc.Args[0], fn.Params[0]) {
		return g
	}
	return nil
}

func (n *fix1Norm) event(fn *ssa.Function, kind fix1NormKind) func(ssa.Instruction) bool {
	return func(in ssa.Instruction) bool {
		if n.direct(fn, kind, in) {
			return true
		}
		if g := n.helperOf(fn, in); g != nil {
			return n.res(g, kind).all
		}
		return false
	}
}

// res: does every entry->return path of fn perform the normalisation (all), and is it present in fn at all (found)?
func (n *fix1Norm) res(fn *ssa.Function, kind fix1NormKind) *fix1NormRes {
	if m := n.memo[fn]; m != nil && m[kind] != nil {
		return m[kind]
	}
	if n.busy[fn] {
		return &fix1NormRes{}
	}
	n.busy[fn] = true
	defer func() { n.busy[fn] = false }()
	r := &fix1NormRes{}
	eachInstr(fn, func(in ssa.Instruction) {
		if n.direct(fn, kind, in) {
			r.found = true
		} else if g := n.helperOf(fn, in); g != nil && n.res(g, kind).found {
			r.found = true
		}
	})
	if r.found {
		r.all = true
		ev := n.event(fn, kind)
		skip, _ := passEdges(fn, fix1ShortGuard(n.field(kind)))
		for _, ret := range g6Returns(fn) {
			if av, path := n.c.g6Avoids(fn, nil, ret, ev, skip); av {
				r.all, r.pos, r.path = false, n.c.instrPos(ret), path
				break
			}
		}
	}
	if n.memo[fn] == nil {
		n.memo[fn] = map[fix1NormKind]*fix1NormRes{}
	}
	n.memo[fn][kind] = r
	n.c.Funcs[fn.String()] = true
	return r
}

// sortedAfter: whatever de-duplicates the relays in fn is followed by the relay sort on every path to a return (the map
// iteration leaves them in random order); slices.Compact needs the sort before it.
func (n *fix1Norm) sortedAfter(fn *ssa.Function) *fix1NormRes {
	if r := n.after[fn]; r != nil {
		return r
	}
	r := &fix1NormRes{all: true}
	n.after[fn] = r
	sorted := n.event(fn, fix1RelaySort)
	skip, _ := passEdges(fn, fix1ShortGuard(n.fRelays))
	eachInstr(fn, func(in ssa.Instruction) {
		if !r.all {
			return
		}
		g := n.helperOf(fn, in)
		switch {
		case n.direct(fn, fix1RelayDedupe, in):
			r.found = true
			if _, isCall := in.(*ssa.Call); isCall { // Compact: only adjacent duplicates go, so the list must be sorted already
				if av, path := n.c.g6Avoids(fn, nil, in, sorted, skip); av {
					r.all, r.pos, r.path = false, n.c.instrPos(in), path
				}
				return
			}
		case g != nil && n.res(g, fix1RelayDedupe).found:
			r.found = true
			if n.sortedAfter(g).all && n.res(g, fix1RelaySort).found {
				return // ordered inside the helper
			}
		default:
			return
		}
		for _, ret := range g6Returns(fn) {
			if av, path := n.c.g6Avoids(fn, in, ret, sorted, skip); av {
				r.all, r.pos, r.path = false, n.c.instrPos(ret), path
				return
			}
		}
	})
	return r
}

func fix1C37AllPaths(c *Ctx) {
	const rule = "C37.all-paths"
	c.Rule(rule, "K1 must-pass-through: every return of unlockedSort is preceded, on every path, by the relay de-duplication, then the relay sort, and by the address sort - in line or in a helper called on the same receiver; only a test establishing fewer than two elements of the list being normalised may bypass its normalisation (never a test on the other list); every return of Rebuild passes such a call", 5)
	rl := c.NamedType("", "RemoteList")
	fAddrs, fRelays := c.Field("", "RemoteList", "addrs"), c.Field("", "RemoteList", "relays")
	rebuild, sortFn := c.Func(c37Rebuild), c.Func(c37Sort)
	if rl == nil || fAddrs == nil || fRelays == nil || rebuild == nil || sortFn == nil {
		return
	}
	n := &fix1Norm{c: c, rl: rl, fAddrs: fAddrs, fRelays: fRelays, memo: map[*ssa.Function]map[fix1NormKind]*fix1NormRes{}, busy: map[*ssa.Function]bool{}, after: map[*ssa.Function]*fix1NormRes{}}
	why := map[fix1NormKind]string{
		fix1RelayDedupe: "unlockedSort can return without having de-duplicated the relays: a condition that says nothing about the relay list decides whether readers (CopyRelays) get duplicates",
		fix1RelaySort:   "unlockedSort can return without having sorted the relays: their order is then the collection order (map iteration over the owners), different from rebuild to rebuild",
		fix1AddrSort:    "unlockedSort can return with two or more addresses without having sorted them: a condition on something other than the address count skips the ordering",
	}
	cons := map[fix1NormKind]string{
		fix1RelayDedupe: "unlockedSort:relays-deduplicated-before-every-return",
		fix1RelaySort:   "unlockedSort:relays-sorted-before-every-return",
		fix1AddrSort:    "unlockedSort:addrs-sorted-before-every-return",
	}
	for _, kind := range []fix1NormKind{fix1RelayDedupe, fix1RelaySort, fix1AddrSort} {
		r := n.res(sortFn, kind)
		switch {
		case !r.found:
			c.Unknown(rule, cons[kind], "no "+fix1NormNames[kind]+" recognised in unlockedSort or in a helper it calls on its receiver: the normalisation changed shape")
		case !r.all:
			c.Bad(rule, cons[kind], r.pos, why[kind], r.path...)
		default:
			c.OK(rule, cons[kind], "every entry->return path passes the "+fix1NormNames[kind]+" (bypass only with fewer than two elements of that list)")
		}
	}
	if a := n.sortedAfter(sortFn); a.found {
		if a.all {
			c.OK(rule, "unlockedSort:relay-sort-follows-deduplication", "every path from the de-duplication to a return sorts the relays")
		} else {
			c.Bad(rule, "unlockedSort:relay-sort-follows-deduplication", a.pos, "the relays can be returned in the order the de-duplication left them (map iteration order) / compacted before they were sorted", a.path...)
		}
	}
	// Rebuild, through it
	var missing []string
	unknown := false
	var pos string
	var path []string
	for _, kind := range []fix1NormKind{fix1RelayDedupe, fix1RelaySort, fix1AddrSort} {
		r := n.res(rebuild, kind)
		if !r.found {
			unknown = true
		} else if !r.all {
			missing = append(missing, fix1NormNames[kind])
			if pos == "" {
				pos, path = r.pos, r.path
				if pos == "" {
					pos = c.P.Pos(rebuild.Pos())
				}
			}
		}
	}
	switch {
	case len(missing) > 0:
		c.Bad(rule, "Rebuild:lists-normalised-before-every-return", pos, "Rebuild can hand the lists to its readers without: "+strings.Join(missing, "; ")+" (no call on its receiver performs it on all of the callee's paths)", path...)
	case unknown:
		c.Unknown(rule, "Rebuild:lists-normalised-before-every-return", "Rebuild calls nothing on its receiver in which the relay / address normalisation was recognised")
	default:
		c.OK(rule, "Rebuild:lists-normalised-before-every-return", "every return passes a call that de-duplicates and sorts the relays and sorts the addresses on all of its own paths")
	}
}

// =======================================================================================
// C40: the bucket scan is complete
//
// Seed C40: the scan treated a bound equal to the BucketNotCalculated sentinel (-1) as "not calculated" and broke out to the
// hash%len fallback - but -1 is also the legitimate inclusive bound of a first gateway whose share rounds to zero, so every
// flow of such a route was balanced by hash%len instead of by weight. C40.scan only constrained the paths to the ok=true
// return. The rule here is on the loop's exits: the scan over the gateways is left only (a) by its exhaustion test (a test on
// the position in the list, independent of the hash and of any gateway's data) or (b) over the admitting side of the accept
// test `hash <= bound(gateways[i])`, which leads to ok=true returns only; and ok=false is returned only behind the exhaustion
// exit (or for an empty list).

func fix1C40ScanComplete(c *Ctx) {
	const rule = "C40.scan-complete"
	c.Rule(rule, "K1 on the loop CFG of BalancePacket: every edge leaving the scan over the gateways is the loop's exhaustion test or the admitting side of the comparison of the packet hash with that gateway's bucket bound; the admitting exit reaches ok=true returns only; every ok=false return is reached only through the exhaustion exit (or an empty-list test) - no other test on a bound (e.g. equality with the not-calculated sentinel, which is also a legitimate bound) ends the scan or decides the result while gateways are unscanned", 4)
	bal := c.Func(Ref{"routing", "", "BalancePacket"})
	gwT := c.NamedType("routing", "Gateway")
	fBound := c.Field("routing", "Gateway", "bucketUpperBound")
	if bal == nil || gwT == nil || fBound == nil {
		return
	}
	gws := c40GwParam(bal, gwT)
	nres := bal.Signature.Results().Len()
	if gws == nil || nres == 0 {
		c.Unknown(rule, "BalancePacket", "no []Gateway parameter / no result")
		return
	}
	okIdx := nres - 1
	if b, isB := bal.Signature.Results().At(okIdx).Type().Underlying().(*types.Basic); !isB || b.Kind() != types.Bool {
		c.Unknown(rule, "BalancePacket", "last result is not the bool `buckets were usable`")
		return
	}
	isColl := func(v ssa.Value) bool { return stripValue(v) == ssa.Value(gws) }
	hashRef := Ref{"routing", "", "hashPacket"}
	isElemAccess := func(v ssa.Value) bool {
		switch e := v.(type) {
		case *ssa.IndexAddr:
			return isColl(e.X)
		case *ssa.Index:
			return isColl(e.X)
		}
		return false
	}
	isHash := func(v ssa.Value) bool {
		return derivesFrom(v, sliceLocal, isCallTo(hashRef)) && !derivesFrom(v, sliceLocal, isElemAccess)
	}
	isBound := func(v ssa.Value) bool {
		recv, ok := c40FieldOfElem(c, v, fBound)
		if !ok {
			return false
		}
		_, okI := g12ElemIndex(recv, isColl)
		return okI
	}
	// accept test: returns (recognised, successor index taken when the hash is admitted)
	accept := func(ifi *ssa.If) (bool, int) {
		cd := normCond(ifi.Cond)
		switch cd.Kind {
		case CondCmp:
			bo := cd.Base.(*ssa.BinOp)
			op := bo.Op
			switch {
			case isHash(bo.X) && isBound(bo.Y):
			case isHash(bo.Y) && isBound(bo.X):
				op = swapOp(op)
			default:
				return false, 0
			}
			if cd.Neg {
				op = negOp(op)
			}
			switch op { // normalised to `hash op bound`
			case token.LEQ, token.LSS:
				return true, 0
			case token.GTR, token.GEQ:
				return true, 1
			}
			return false, 0
		case CondBool:
			// one-line predicate helper taking the hash and the element (its body is C40.scan's business)
			call, isCall := stripValue(cd.Base).(*ssa.Call)
			if !isCall {
				return false, 0
			}
			f := call.Call.StaticCallee()
			if f == nil || f.Blocks == nil || !strings.HasPrefix(pkgPathOf(f), nebulaMod) {
				return false, 0
			}
			hasHash, hasElem := false, false
			for _, a := range call.Call.Args {
				if isHash(a) {
					hasHash = true
				} else if _, ok := g12ElemIndex(a, isColl); ok {
					hasElem = true
				}
			}
			if !hasHash || !hasElem {
				return false, 0
			}
			if cd.Neg {
				return true, 1
			}
			return true, 0
		}
		return false, 0
	}
	lastIf := func(b *ssa.BasicBlock) *ssa.If {
		if len(b.Instrs) == 0 {
			return nil
		}
		ifi, _ := b.Instrs[len(b.Instrs)-1].(*ssa.If)
		return ifi
	}
	loops := naturalLoops(bal)
	var scan *natLoop
	nAccept := 0
	for _, b := range bal.Blocks {
		ifi := lastIf(b)
		if ifi == nil {
			continue
		}
		if ok, _ := accept(ifi); !ok {
			continue
		}
		nAccept++
		l := innermostLoop(loops, b)
		if l == nil {
			c.Unknown(rule, "BalancePacket:scan", "the comparison of the hash with a bucket bound is not inside a loop: unrecognised scan shape")
			return
		}
		if scan != nil && scan != l {
			c.Unknown(rule, "BalancePacket:scan", "hash/bound comparisons in more than one loop: unrecognised scan shape")
			return
		}
		scan = l
	}
	if scan == nil || nAccept == 0 {
		c.Unknown(rule, "BalancePacket:scan", "no loop comparing the packet hash with a gateway's bucket bound was recognised")
		return
	}
	// exhaustion test: depends on the length of the list and on nothing a gateway or the packet holds
	isLenOfList := isLenOf(isColl)
	exhaustion := func(ifi *ssa.If) bool {
		dependsOnLen, clean := false, true
		backSlice(ifi.Cond, sliceLocal, func(x ssa.Value) {
			if isLenOfList(x) {
				dependsOnLen = true
				return
			}
			switch e := x.(type) {
			case *ssa.Call:
				clean = false
			case *ssa.IndexAddr, *ssa.Index, *ssa.Lookup, *ssa.FieldAddr, *ssa.Field, *ssa.Parameter, *ssa.Global, *ssa.FreeVar:
				if p, isP := e.(*ssa.Parameter); isP && p == gws {
					return
				}
				clean = false
			}
		})
		return dependsOnLen && clean
	}
	notOK := boolReturns(bal, okIdx, false)
	blocked := map[Edge]bool{}
	var acceptTargets []*ssa.BasicBlock
	var body []*ssa.BasicBlock
	for b := range scan.Body {
		body = append(body, b)
	}
	sort.Slice(body, func(i, j int) bool { return body[i].Index < body[j].Index })
	nExit := 0
	for _, b := range body {
		for i, s := range b.Succs {
			if scan.Body[s] {
				continue
			}
			nExit++
			cons := fmt.Sprintf("BalancePacket:scan-exit#%d", nExit)
			ifi := lastIf(b)
			if ifi == nil {
				c.Unknown(rule, cons, "the scan is left by something other than a two-way branch: unrecognised shape")
				continue
			}
			if ok, passIx := accept(ifi); ok {
				if i == passIx {
					acceptTargets = append(acceptTargets, s)
					c.OK(rule, cons, "left over the admitting side of hash <= bound")
				} else {
					c.Bad(rule, cons, c.instrPos(ifi), "the scan over the gateways stops at the first gateway whose bucket does NOT admit the hash: later gateways, one of which holds the hash's bucket, are never compared")
				}
				continue
			}
			if exhaustion(ifi) {
				blocked[Edge{b, i}] = true
				c.OK(rule, cons, "exhaustion of the list")
				continue
			}
			c.Bad(rule, cons, c.instrPos(ifi), "the scan over the gateways can be left by a test other than `hash <= bound` ("+exprString(ifi.Cond)+") while later gateways are unscanned: the gateway whose bucket holds the hash is never reached and the flow is sent by the hash%len fallback / to another gateway, ignoring the weights (a bound equal to the not-calculated sentinel, for one, is also the legitimate inclusive bound of a first gateway whose share rounds to zero)")
		}
	}
	if nExit == 0 {
		c.Unknown(rule, "BalancePacket:scan-exit", "the scan loop has no exit edge: unrecognised shape")
		return
	}
	// the admitting exit only reaches ok=true
	if len(acceptTargets) > 0 {
		bad := ""
		var path []string
		for _, t := range acceptTargets {
			prev := reachable(t, nil)
			for _, s := range notOK {
				if _, r := prev[s.Instr.Block()]; r {
					bad, path = c.instrPos(s.Instr), c.blockPath(prev, s.Instr.Block())
				}
			}
		}
		if bad == "" {
			c.OK(rule, "BalancePacket:admitted-returns-ok", "from the admitting exit only ok=true returns are reachable")
		} else {
			c.Bad(rule, "BalancePacket:admitted-returns-ok", bad, "a gateway whose bucket admits the hash can still lead to an ok=false return", path...)
		}
	}
	// ok=false only after exhaustion (or for an empty list)
	empty, _ := passEdges(bal, g12LenGuard("gateway list empty", isColl, true))
	for e := range empty {
		blocked[e] = true
	}
	if len(notOK) == 0 {
		c.Unknown(rule, "BalancePacket:return(_,false)", "no ok=false return found: the fallback changed shape")
	}
	for i, s := range notOK {
		cons := fmt.Sprintf("BalancePacket:return(_,false)#%d:only-after-exhaustion", i)
		prev := reachable(bal.Blocks[0], blocked)
		if _, r := prev[s.Instr.Block()]; r {
			c.Bad(rule, cons, c.instrPos(s.Instr), "BalancePacket can report `buckets not usable` (ok=false, hash%len fallback) although not every gateway's bound was compared with the hash: the path does not go through the loop's exhaustion exit", c.blockPath(prev, s.Instr.Block())...)
		} else {
			c.OK(rule, cons, "reached only through the exhaustion exit of the scan")
		}
	}
}

// =======================================================================================
// C43: the stored algorithm name is matched exactly
//
// Seed C43: DecryptAndUnmarshalSigningPrivateKey switched on strings.ToUpper(EncryptionAlgorithm), so an encrypted key whose
// (unauthenticated) algorithm name had the case of a letter flipped still opened. The K8 table of C43.decrypt-path cannot
// evaluate ToUpper and answers UNDECIDED. The rule here is a provenance rule over the decrypt path (the function and what it
// reaches in package cert): a value is SAME when it is the stored name itself (a load of RawNebulaEncryptionMetadata /
// NebulaEncryptionMetadata.EncryptionAlgorithm, a copy, a conversion, an identity helper), DERIVED when it was produced from it
// by anything that normalises or takes a part (the string / byte / unicode / regexp libraries, slicing, indexing, ranging,
// concatenation, a module helper that returns such a value), OPAQUE when it went through something not understood. Every
// comparison, branch condition, map lookup and copy into the parsed metadata must see SAME; DERIVED is a violation, OPAQUE is
// undecided.

type fix1AlgStatus int

const (
	fix1AlgNone fix1AlgStatus = iota
	fix1AlgSame
	fix1AlgOpaque
	fix1AlgDerived
)

type fix1AlgVal struct {
	st  fix1AlgStatus
	via string
}

func fix1AlgMerge(a, b fix1AlgVal) fix1AlgVal {
	if b.st > a.st {
		return b
	}
	return a
}

// packages whose functions normalise a string / compare it loosely / take parts of it
var fix1AlgLoosePkgs = map[string]bool{"strings": true, "bytes": true, "unicode": true, "unicode/utf8": true, "regexp": true, "path": true, "path/filepath": true, "slices": true, "strconv": true}

// exact comparisons and identity copies in those packages
var fix1AlgExact = map[string]bool{"bytes.Equal": true, "bytes.Compare": true, "strings.Compare": true, "crypto/subtle.ConstantTimeCompare": true, "slices.Equal": true}
var fix1AlgIdentity = map[string]bool{"strings.Clone": true, "bytes.Clone": true, "slices.Clone": true}

// error construction / logging: the name ends up in a message, no decision is taken on it
var fix1AlgMessagePkgs = map[string]bool{"errors": true, "log": true, "github.com/sirupsen/logrus": true}

type fix1Alg struct {
	c      *Ctx
	rule   string
	fields map[*types.Var]bool
	pkg    string
	memo   map[string][]fix1AlgVal
	busy   map[string]bool
	nExact int
	nBad   int
}

type fix1AlgCtx struct {
	a      *fix1Alg
	fn     *ssa.Function
	params map[int]fix1AlgVal
	depth  int
	memo   map[ssa.Value]fix1AlgVal
	inprog map[ssa.Value]bool
}

func fix1QualName(o *types.Func) string {
	if o == nil {
		return "a function value"
	}
	p := ""
	if o.Pkg() != nil {
		p = o.Pkg().Path()
	}
	if sig, ok := o.Type().(*types.Signature); ok && sig.Recv() != nil {
		if n := recvNamed(sig.Recv().Type()); n != nil {
			return p + "." + n.Obj().Name() + "." + o.Name()
		}
	}
	return p + "." + o.Name()
}

func (a *fix1Alg) inScope(f *ssa.Function) bool {
	return f != nil && f.Blocks != nil && pkgPathOf(f) == a.pkg
}

func fix1AlgKey(fn *ssa.Function, params map[int]fix1AlgVal) string {
	var ks []int
	for k := range params {
		ks = append(ks, k)
	}
	sort.Ints(ks)
	s := fn.String()
	for _, k := range ks {
		s += fmt.Sprintf("|%d=%d", k, params[k].st)
	}
	return s
}

// run evaluates the decisions of fn (parameters carrying the given status) and returns the status of each result.
func (a *fix1Alg) run(fn *ssa.Function, params map[int]fix1AlgVal, depth int) []fix1AlgVal {
	key := fix1AlgKey(fn, params)
	if r, ok := a.memo[key]; ok {
		return r
	}
	nres := fn.Signature.Results().Len()
	if a.busy[key] || depth > 3 {
		out := make([]fix1AlgVal, nres)
		if depth > 3 {
			for i := range out {
				for _, p := range params {
					if p.st != fix1AlgNone {
						out[i] = fix1AlgVal{fix1AlgOpaque, "helpers nested deeper than analysed"}
					}
				}
			}
		}
		return out
	}
	a.busy[key] = true
	defer func() { a.busy[key] = false }()
	a.c.Funcs[fn.String()] = true
	x := &fix1AlgCtx{a: a, fn: fn, params: params, depth: depth, memo: map[ssa.Value]fix1AlgVal{}, inprog: map[ssa.Value]bool{}}
	out := make([]fix1AlgVal, nres)
	x.decisions()
	for _, ret := range g6Returns(fn) {
		for i := range ret.Results {
			if i < nres {
				out[i] = fix1AlgMerge(out[i], x.st(retResult(ret, i)))
			}
		}
	}
	a.memo[key] = out
	return out
}

// mix: status of a value that is one of several (phi edges, values stored into a local cell)
func (x *fix1AlgCtx) mix(vals []ssa.Value, self ssa.Value) fix1AlgVal {
	var out fix1AlgVal
	other := false
	for _, e := range vals {
		if e == self {
			continue
		}
		s := x.st(e)
		if s.st == fix1AlgNone {
			if _, isK := e.(*ssa.Const); !isK && !x.inprog[e] {
				other = true
			}
			continue
		}
		out = fix1AlgMerge(out, s)
	}
	if out.st == fix1AlgSame && other {
		return fix1AlgVal{fix1AlgOpaque, "merged with a value that is not the stored name"}
	}
	return out
}

func fix1Tainted(v fix1AlgVal) bool { return v.st != fix1AlgNone }

// derived: the result of an operation that cannot return its tainted operand unchanged in general
func fix1AlgDerive(in fix1AlgVal, via string) fix1AlgVal {
	switch in.st {
	case fix1AlgNone:
		return in
	case fix1AlgDerived:
		return in
	}
	return fix1AlgVal{fix1AlgDerived, via}
}

func (x *fix1AlgCtx) isAlgFieldAddr(v ssa.Value) bool {
	fa, ok := v.(*ssa.FieldAddr)
	return ok && x.a.fields[fieldOfAddr(fa)]
}

// mutatedCopy: a []byte / []rune conversion of the name whose elements are written afterwards
func fix1MutatedCopy(v ssa.Value) bool {
	refs := v.Referrers()
	if refs == nil {
		return false
	}
	for _, r := range *refs {
		if ia, ok := r.(*ssa.IndexAddr); ok && ia.X == v && ia.Referrers() != nil {
			for _, q := range *ia.Referrers() {
				if st, ok := q.(*ssa.Store); ok && st.Addr == ssa.Value(ia) {
					return true
				}
			}
		}
	}
	return false
}

func (x *fix1AlgCtx) st(v ssa.Value) fix1AlgVal {
	if v == nil {
		return fix1AlgVal{}
	}
	if r, ok := x.memo[v]; ok {
		return r
	}
	if x.inprog[v] {
		return fix1AlgVal{}
	}
	x.inprog[v] = true
	r := x.compute(v)
	delete(x.inprog, v)
	x.memo[v] = r
	return r
}

func (x *fix1AlgCtx) compute(v ssa.Value) fix1AlgVal {
	switch e := v.(type) {
	case *ssa.Const, *ssa.Global, *ssa.Function, *ssa.Builtin, *ssa.FreeVar, *ssa.MakeClosure:
		return fix1AlgVal{}
	case *ssa.Parameter:
		for i, p := range x.fn.Params {
			if p == e {
				return x.params[i]
			}
		}
		return fix1AlgVal{}
	case *ssa.Field:
		if x.a.fields[fieldOfVal(e)] {
			return fix1AlgVal{fix1AlgSame, ""}
		}
		return fix1AlgVal{}
	case *ssa.Alloc:
		return x.mix(storesInto(e), nil)
	case *ssa.UnOp:
		if e.Op == token.MUL {
			if x.isAlgFieldAddr(e.X) {
				return fix1AlgVal{fix1AlgSame, ""}
			}
			root, _ := addrRoot(e.X)
			if _, isAlloc := root.(*ssa.Alloc); isAlloc {
				return x.mix(storesInto(e.X), nil)
			}
			if ia, ok := e.X.(*ssa.IndexAddr); ok {
				return fix1AlgDerive(x.st(ia.X), "one element of the name")
			}
			return fix1AlgVal{}
		}
		return fix1AlgDerive(x.st(e.X), "an operation on the name")
	case *ssa.Phi:
		return x.mix(e.Edges, e)
	case *ssa.ChangeType:
		return x.st(e.X)
	case *ssa.ChangeInterface:
		return x.st(e.X)
	case *ssa.MakeInterface:
		return x.st(e.X)
	case *ssa.TypeAssert:
		return x.st(e.X)
	case *ssa.Convert:
		s := x.st(e.X)
		if fix1Tainted(s) {
			if _, isSlice := e.Type().Underlying().(*types.Slice); isSlice && fix1MutatedCopy(e) {
				return fix1AlgDerive(s, "a copy of the name whose bytes are rewritten")
			}
			if b, isB := e.Type().Underlying().(*types.Basic); isB && b.Info()&types.IsString == 0 {
				return fix1AlgDerive(s, "a conversion of the name to "+b.Name())
			}
		}
		return s
	case *ssa.Slice:
		s := x.st(e.X)
		if e.Low == nil && e.High == nil {
			return s
		}
		return fix1AlgDerive(s, "a slice (part) of the name")
	case *ssa.IndexAddr:
		return fix1AlgDerive(x.st(e.X), "one element of the name")
	case *ssa.Index:
		return fix1AlgDerive(x.st(e.X), "one element of the name")
	case *ssa.Lookup:
		if _, isMap := e.X.Type().Underlying().(*types.Map); isMap {
			return fix1AlgVal{} // membership / table lookup: judged at the lookup itself
		}
		return fix1AlgDerive(x.st(e.X), "one byte of the name")
	case *ssa.Range:
		return fix1AlgDerive(x.st(e.X), "an iteration over the characters of the name")
	case *ssa.Next:
		return x.st(e.Iter)
	case *ssa.Extract:
		if call, ok := e.Tuple.(*ssa.Call); ok {
			rs := x.call(call)
			if e.Index < len(rs) {
				return rs[e.Index]
			}
			return fix1AlgVal{}
		}
		if lk, ok := e.Tuple.(*ssa.Lookup); ok {
			return x.st(lk)
		}
		return x.st(e.Tuple)
	case *ssa.BinOp:
		switch e.Op {
		case token.EQL, token.NEQ, token.LSS, token.LEQ, token.GTR, token.GEQ:
			return fix1AlgVal{} // a decision: judged where it is made
		}
		return fix1AlgDerive(fix1AlgMerge(x.st(e.X), x.st(e.Y)), "a concatenation / arithmetic on the name")
	case *ssa.Call:
		rs := x.call(e)
		if len(rs) == 1 {
			return rs[0]
		}
		return fix1AlgVal{}
	}
	// anything else: tainted operands make it opaque
	if in, ok := v.(ssa.Instruction); ok {
		var ops []*ssa.Value
		worst := fix1AlgVal{}
		for _, op := range in.Operands(ops) {
			if op != nil && *op != nil {
				worst = fix1AlgMerge(worst, x.st(*op))
			}
		}
		if worst.st == fix1AlgSame {
			return fix1AlgVal{fix1AlgOpaque, fmt.Sprintf("%T", v)}
		}
		return worst
	}
	return fix1AlgVal{}
}

// call: status of each result of a call
func (x *fix1AlgCtx) call(call *ssa.Call) []fix1AlgVal {
	nres := 1
	if t, ok := call.Type().(*types.Tuple); ok {
		nres = t.Len()
	}
	out := make([]fix1AlgVal, nres)
	args := call.Call.Args
	var worst fix1AlgVal
	argSt := map[int]fix1AlgVal{}
	for i, a := range args {
		if s := x.st(a); fix1Tainted(s) {
			argSt[i] = s
			worst = fix1AlgMerge(worst, s)
		}
	}
	if b := builtinName(call); b != "" {
		switch b {
		case "len", "cap", "print", "println", "panic":
			return out
		}
		for i := range out {
			out[i] = fix1AlgDerive(worst, "the builtin "+b)
		}
		return out
	}
	if call.Call.IsInvoke() {
		if fix1Tainted(worst) && worst.st != fix1AlgDerived {
			worst = fix1AlgVal{fix1AlgOpaque, "an interface method (" + call.Call.Method.Name() + ")"}
		}
		for i := range out {
			out[i] = worst
		}
		return out
	}
	if g := call.Call.StaticCallee(); x.a.inScope(g) {
		rs := x.a.run(g, argSt, x.depth+1)
		for i := range out {
			if i < len(rs) {
				out[i] = rs[i]
			}
		}
		return out
	}
	if !fix1Tainted(worst) {
		return out
	}
	o := calleeObj(call)
	name := fix1QualName(o)
	pkg := ""
	if o != nil && o.Pkg() != nil {
		pkg = o.Pkg().Path()
	}
	var res fix1AlgVal
	switch {
	case fix1AlgIdentity[name]:
		res = worst
	case fix1AlgExact[name]:
		res = fix1AlgVal{} // judged at the call
	case fix1AlgMessagePkgs[pkg], pkg == "fmt" && (o.Name() == "Errorf" || strings.HasPrefix(o.Name(), "Fprint") || strings.HasPrefix(o.Name(), "Print")):
		res = fix1AlgVal{}
	case fix1AlgLoosePkgs[pkg] || strings.HasPrefix(pkg, "golang.org/x/text"):
		res = fix1AlgDerive(worst, "the result of "+name)
	case worst.st == fix1AlgDerived:
		res = worst
	default:
		res = fix1AlgVal{fix1AlgOpaque, name}
	}
	for i := range out {
		out[i] = res
	}
	return out
}

func (x *fix1AlgCtx) decisions() {
	a, c := x.a, x.a.c
	nCmp, nIf, nCall, nStore, nLookup := 0, 0, 0, 0, 0
	name := fnName(x.fn)
	report := func(cons string, in ssa.Instruction, s fix1AlgVal, what string) {
		switch s.st {
		case fix1AlgDerived:
			a.nBad++
			c.Bad(a.rule, cons, c.instrPos(in), what+" "+s.via+", not the stored EncryptionAlgorithm itself: the algorithm name of an encrypted key is unauthenticated metadata and must match exactly; with a normalised / partial match an altered key file (e.g. one letter of the name in the other case) still opens")
		case fix1AlgOpaque:
			c.Unknown(a.rule, cons, what+" a value obtained from the stored EncryptionAlgorithm through "+s.via+": cannot decide that the match is exact")
		}
	}
	isString := func(v ssa.Value) bool {
		b, ok := v.Type().Underlying().(*types.Basic)
		return ok && b.Info()&types.IsString != 0
	}
	eachInstr(x.fn, func(in ssa.Instruction) {
		switch e := in.(type) {
		case *ssa.BinOp:
			switch e.Op {
			case token.EQL, token.NEQ, token.LSS, token.LEQ, token.GTR, token.GEQ:
			default:
				return
			}
			sx, sy := x.st(e.X), x.st(e.Y)
			if !fix1Tainted(sx) && !fix1Tainted(sy) {
				return
			}
			nCmp++
			cons := fmt.Sprintf("%s:comparison#%d", name, nCmp)
			w := fix1AlgMerge(sx, sy)
			if w.st != fix1AlgSame {
				report(cons, in, w, "a comparison is made on")
				return
			}
			if (e.Op == token.EQL || e.Op == token.NEQ) && isString(e.X) && (fix1Tainted(sx) != fix1Tainted(sy)) {
				a.nExact++
				c.OK(a.rule, cons, "the stored name itself is compared with "+exprString(map[bool]ssa.Value{true: e.Y, false: e.X}[fix1Tainted(sx)]))
				return
			}
			c.Unknown(a.rule, cons, "the stored algorithm name is compared by "+e.Op.String()+" / with itself: not an exact match against a supported name")
		case *ssa.If:
			if bo, ok := e.Cond.(*ssa.BinOp); ok {
				switch bo.Op {
				case token.EQL, token.NEQ, token.LSS, token.LEQ, token.GTR, token.GEQ:
					return
				}
			}
			if s := x.st(e.Cond); fix1Tainted(s) {
				nIf++
				report(fmt.Sprintf("%s:branch#%d", name, nIf), in, s, "a branch is taken on")
			}
		case *ssa.Call:
			o := calleeObj(e)
			if o == nil || !fix1AlgExact[fix1QualName(o)] {
				return
			}
			nCall++
			var w fix1AlgVal
			for _, arg := range e.Call.Args {
				w = fix1AlgMerge(w, x.st(arg))
			}
			cons := fmt.Sprintf("%s:%s#%d", name, o.Name(), nCall)
			if w.st == fix1AlgSame {
				a.nExact++
				c.OK(a.rule, cons, "the stored name itself is compared by "+fix1QualName(o))
			} else {
				report(cons, in, w, "an exact comparison is applied to")
			}
		case *ssa.Lookup:
			if _, isMap := e.X.Type().Underlying().(*types.Map); !isMap {
				return
			}
			nLookup++
			s := x.st(e.Index)
			cons := fmt.Sprintf("%s:map-lookup#%d", name, nLookup)
			if s.st == fix1AlgSame {
				a.nExact++
				c.OK(a.rule, cons, "the stored name itself is the map key")
			} else {
				report(cons, in, s, "a table is indexed with")
			}
		case *ssa.Store:
			if !x.isAlgFieldAddr(e.Addr) {
				return
			}
			nStore++
			s := x.st(e.Val)
			cons := fmt.Sprintf("%s:EncryptionAlgorithm-store#%d", name, nStore)
			switch s.st {
			case fix1AlgSame:
				c.OK(a.rule, cons, "the parsed metadata carries the stored name unchanged")
			case fix1AlgNone:
				c.Unknown(a.rule, cons, "the decrypt path stores something that is not the stored name into EncryptionAlgorithm ("+exprString(e.Val)+"): what is compared later is not the key file's metadata")
			default:
				report(cons, in, s, "the parsed metadata is filled with")
			}
		}
	})
}

func fix1C43AlgorithmExact(c *Ctx) {
	const rule = "C43.algorithm-exact"
	c.Rule(rule, "K11 provenance over the decrypt path (DecryptAndUnmarshalSigningPrivateKey and what it reaches in package cert): every comparison, branch condition, map lookup and copy into the parsed metadata that depends on the stored EncryptionAlgorithm sees the field's value itself (direct load, copy, identity helper) - never the result of a normalising or partial operation (strings/bytes/unicode/regexp functions such as ToUpper, ToLower, TrimSpace, EqualFold, HasPrefix, Contains; slicing, indexing, ranging, concatenation; a helper returning such a value)", 2)
	dec := c.Func(Ref{"cert", "", "DecryptAndUnmarshalSigningPrivateKey"})
	fRaw := c.Field("cert", "RawNebulaEncryptionMetadata", "EncryptionAlgorithm")
	fInt := c.Field("cert", "NebulaEncryptionMetadata", "EncryptionAlgorithm")
	if dec == nil || fRaw == nil || fInt == nil {
		return
	}
	a := &fix1Alg{c: c, rule: rule, fields: map[*types.Var]bool{fRaw: true, fInt: true}, pkg: pkgPathOf(dec), memo: map[string][]fix1AlgVal{}, busy: map[string]bool{}}
	for _, f := range reachableFuncs([]*ssa.Function{dec}, a.inScope) {
		a.run(f, nil, 0)
	}
	if a.nExact == 0 && a.nBad == 0 {
		c.Unknown(rule, "DecryptAndUnmarshalSigningPrivateKey:algorithm-compared", "no comparison of the stored EncryptionAlgorithm itself with a supported name was found on the decrypt path")
	}
}
