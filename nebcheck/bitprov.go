package main

import (
	"fmt"
	"go/constant"
	"go/token"
	"go/types"

	"golang.org/x/tools/go/ssa"
)

// K9 bit provenance: each bit of an integer expression is 0, 1, "bit k of source S", or unknown.

type Bit struct {
	Kind int // 0 zero, 1 one, 2 source, 3 unknown
	Src  string
	K    int
}

func (b Bit) String() string {
	switch b.Kind {
	case 0:
		return "0"
	case 1:
		return "1"
	case 2:
		return fmt.Sprintf("%s[%d]", b.Src, b.K)
	}
	return "?"
}

type BitVec []Bit // index 0 = least significant

func bvConst(u uint64, w int) BitVec {
	v := make(BitVec, w)
	for i := 0; i < w; i++ {
		if u>>uint(i)&1 == 1 {
			v[i] = Bit{Kind: 1}
		}
	}
	return v
}

func bvSrc(name string, w int) BitVec {
	v := make(BitVec, w)
	for i := range v {
		v[i] = Bit{Kind: 2, Src: name, K: i}
	}
	return v
}

func bvUnknown(w int) BitVec {
	v := make(BitVec, w)
	for i := range v {
		v[i] = Bit{Kind: 3}
	}
	return v
}

func intWidth(t types.Type) (int, bool) {
	b, ok := t.Underlying().(*types.Basic)
	if !ok {
		return 0, false
	}
	switch b.Kind() {
	case types.Uint8, types.Int8:
		return 8, b.Kind() == types.Uint8
	case types.Uint16, types.Int16:
		return 16, b.Kind() == types.Uint16
	case types.Uint32, types.Int32:
		return 32, b.Kind() == types.Uint32
	case types.Uint64, types.Int64, types.Uint, types.Int, types.Uintptr:
		return 64, b.Kind() != types.Int64 && b.Kind() != types.Int
	case types.UntypedInt:
		return 64, true
	}
	return 0, false
}

func bitAnd(a, b Bit) Bit {
	if a.Kind == 0 || b.Kind == 0 {
		return Bit{}
	}
	if a.Kind == 1 {
		return b
	}
	if b.Kind == 1 {
		return a
	}
	if a == b {
		return a
	}
	return Bit{Kind: 3}
}

func bitOr(a, b Bit) Bit {
	if a.Kind == 1 || b.Kind == 1 {
		return Bit{Kind: 1}
	}
	if a.Kind == 0 {
		return b
	}
	if b.Kind == 0 {
		return a
	}
	if a == b {
		return a
	}
	return Bit{Kind: 3}
}

func bitXor(a, b Bit) Bit {
	if a.Kind == 0 {
		return b
	}
	if b.Kind == 0 {
		return a
	}
	if a.Kind == 1 && b.Kind == 1 {
		return Bit{}
	}
	if a == b && a.Kind == 2 {
		return Bit{}
	}
	return Bit{Kind: 3}
}

// bitProv evaluates v. leaf(v) may supply the vector of a leaf (parameter, load, call...).
func bitProv(v ssa.Value, leaf func(ssa.Value) (BitVec, bool)) BitVec {
	w, _ := intWidth(v.Type())
	if w == 0 {
		return nil
	}
	if bv, ok := leaf(v); ok {
		return fit(bv, w)
	}
	switch x := v.(type) {
	case *ssa.Const:
		if x.Value != nil && x.Value.Kind() == constant.Int {
			if u, ok := constant.Uint64Val(x.Value); ok {
				return bvConst(u, w)
			}
			if i, ok := constant.Int64Val(x.Value); ok {
				return bvConst(uint64(i), w)
			}
		}
	case *ssa.Convert:
		in := bitProv(x.X, leaf)
		if in == nil {
			return bvUnknown(w)
		}
		_, unsignedIn := intWidth(x.X.Type())
		if len(in) < w && !unsignedIn {
			// sign extension of a possibly negative value: unknown upper bits unless top bit is 0
			out := fit(in, w)
			if in[len(in)-1].Kind != 0 {
				for i := len(in); i < w; i++ {
					out[i] = Bit{Kind: 3}
				}
			}
			return out
		}
		return fit(in, w)
	case *ssa.ChangeType:
		return fit(bitProv(x.X, leaf), w)
	case *ssa.BinOp:
		a := bitProv(x.X, leaf)
		switch x.Op {
		case token.SHL, token.SHR:
			if a == nil {
				return bvUnknown(w)
			}
			s, ok := constUint(x.Y)
			if !ok {
				return bvUnknown(w)
			}
			out := make(BitVec, w)
			for i := 0; i < w; i++ {
				var j int
				if x.Op == token.SHL {
					j = i - int(s)
				} else {
					j = i + int(s)
				}
				if j >= 0 && j < len(a) {
					out[i] = a[j]
				}
			}
			return out
		case token.AND, token.OR, token.XOR, token.AND_NOT:
			b := bitProv(x.Y, leaf)
			if a == nil || b == nil {
				return bvUnknown(w)
			}
			a, b = fit(a, w), fit(b, w)
			out := make(BitVec, w)
			for i := 0; i < w; i++ {
				switch x.Op {
				case token.AND:
					out[i] = bitAnd(a[i], b[i])
				case token.OR:
					out[i] = bitOr(a[i], b[i])
				case token.XOR:
					out[i] = bitXor(a[i], b[i])
				case token.AND_NOT:
					nb := b[i]
					switch nb.Kind {
					case 0:
						nb = Bit{Kind: 1}
					case 1:
						nb = Bit{}
					default:
						nb = Bit{Kind: 3}
					}
					out[i] = bitAnd(a[i], nb)
				}
			}
			return out
		}
	case *ssa.UnOp:
		if x.Op == token.XOR {
			a := bitProv(x.X, leaf)
			out := make(BitVec, w)
			for i := range out {
				switch {
				case a != nil && a[i].Kind == 0:
					out[i] = Bit{Kind: 1}
				case a != nil && a[i].Kind == 1:
					out[i] = Bit{}
				default:
					out[i] = Bit{Kind: 3}
				}
			}
			return out
		}
	}
	return bvUnknown(w)
}

func fit(a BitVec, w int) BitVec {
	if a == nil {
		return bvUnknown(w)
	}
	out := make(BitVec, w)
	copy(out, a)
	return out
}

// substitute replaces source bits named src by the corresponding bits of with.
func (v BitVec) substitute(src string, with BitVec) BitVec {
	out := make(BitVec, len(v))
	for i, b := range v {
		if b.Kind == 2 && b.Src == src {
			if b.K < len(with) {
				out[i] = with[b.K]
			} else {
				out[i] = Bit{}
			}
		} else {
			out[i] = b
		}
	}
	return out
}
