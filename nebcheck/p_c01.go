package main

import (
	"fmt"
	"go/constant"
	"go/token"
	"go/types"
	"strings"

	"golang.org/x/tools/go/ssa"
)

func init() {
	register(&Property{
		ID: "C01", Title: "Certificate acceptance equals the documented trust rule",
		Patterns:  []string{"./cert"},
		Technique: "CFG guard reachability on CAPool.verify / VerifyCertificate / VerifyCachedCertificate / checkCAConstraints, finite predicate tables for the validity-window tests, provenance of cached fields, who-may-write the trust state",
		LevelText: "Structural necessary conditions decided on all paths: every acceptance path applies every term of the trust rule (blocklist on both signature forms, issuer lookup, curve equality, CA and leaf validity, signature, CA constraints) with the documented polarity, the cached path applies the same terms except the two that are immutable for an unchanged (certificate, signer fingerprint) pair, the validity-window predicates have exactly the documented truth table (valid on both boundary seconds), and only the pool's own mutators write the trust state.",
		LevelNote: "Not decided: that CheckSignature verifies (crypto), prefix containment arithmetic inside netip, string equality of groups. Trusts go/types, go/ssa and the rule tables.",
		Explanation: "K1 guard-set on 4 functions (success return as sink, per-term guards matched by resolved callee + argument provenance), for-all guards on the three constraint loops, K8 truth tables of Expired (v1, v2) and of the CA-window test over all 9 order combinations, K11 provenance of the cached fingerprints, K2 writer table for CAs/certBlocklist",
		Run:       runC01,
		Canaries: func(c *Ctx) []Canary {
			return []Canary{
				{Name: "drop-curve-check", File: "cert/ca_pool.go", Old: "if signer.Certificate.Curve() != c.Curve() {\n\t\treturn nil, ErrCurveMismatch\n\t}\n", New: "", Rule: "C01.verify"},
				{Name: "cached-skips-twin-blocklist", File: "cert/ca_pool.go", Old: "if c.fingerprint2 != \"\" && ncp.IsBlocklisted(c.fingerprint2) {\n\t\treturn ErrBlockListed\n\t}\n\n\t_, err", New: "_, err", Rule: "C01.cached"},
				{Name: "expired-at-exact-notAfter", File: "cert/cert_v2.go", Old: "return c.details.notBefore.After(t) || c.details.notAfter.Before(t)", New: "return c.details.notBefore.After(t) || !c.details.notAfter.After(t)", Rule: "C01.expired-table"},
				{Name: "groups-first-match-returns", File: "cert/ca_pool.go", Old: "if !slices.Contains(signerGroups, g) {\n\t\t\t\treturn fmt.Errorf(\"certificate contained a group not present on the signing ca: %s\", g)\n\t\t\t}", New: "if slices.Contains(signerGroups, g) {\n\t\t\t\tbreak\n\t\t\t}\n\t\t\treturn fmt.Errorf(\"certificate contained a group not present on the signing ca: %s\", g)", Rule: "C01.constraints"},
				{Name: "cached-trusts-fingerprint-only-when-empty", File: "cert/ca_pool.go", Old: "if len(signerFp) > 0 {\n\t\tif signerFp != signer.Fingerprint {", New: "if len(signerFp) >= 0 {\n\t\tif signerFp != signer.Fingerprint && signerFp != \"\" {", Rule: "C01.verify"},
				{Name: "unsafe-network-bits-reversed", File: "cert/ca_pool.go", Old: "caNetwork.Bits() <= certUnsafeNetwork.Bits()", New: "caNetwork.Bits() >= certUnsafeNetwork.Bits()", Rule: "C01.constraints"},
			}
		},
	})
}

var certIface = "Certificate"

func certM(name string) Ref { return Ref{"cert", certIface, name} }

func runC01(c *Ctx) {
	c.Rule("C01.verify", "K1: every success return of (*CAPool).verify passes: primary fingerprint not blocklisted, issuer found, curve equal, CA not expired, leaf not expired, and then either (cached signer fingerprint non-empty and equal) or (signature verifies and CA constraints hold)", 7)
	c.Rule("C01.full", "K1/K11: VerifyCertificate succeeds only after verify(c, now, Fingerprint(c), \"\") and the twin-fingerprint blocklist test; cached struct stores fp, fp2 and the signer's fingerprint", 5)
	c.Rule("C01.cached", "K1/K11: VerifyCachedCertificate applies the twin blocklist test and verify(cert, now, cached fp, cached signer fp), returning its verdict", 3)
	c.Rule("C01.constraints", "K1: checkCAConstraints returns nil only if both window tests pass and every group / network / unsafe network passes the containment test (for-all over the loop)", 7)
	c.Rule("C01.expired-table", "K8: Expired(t) == notBefore>t || notAfter<t for v1 and v2 (9 order combinations each); CA window test rejects iff notAfter>CA.notAfter || notBefore<CA.notBefore", 3)
	c.Rule("C01.trust-writers", "K2: CAPool.CAs and CAPool.certBlocklist are written only by the pool's constructor and mutators", 2)

	c01Verify(c)
	c01Full(c)
	c01Cached(c)
	c01Constraints(c)
	c01Tables(c)
	c01Writers(c)
}

func c01Verify(c *Ctx) {
	fn := c.Func(Ref{"cert", "CAPool", "verify"})
	fFp := c.Field("cert", "CachedCertificate", "Fingerprint")
	fCert := c.Field("cert", "CachedCertificate", "Certificate")
	if fn == nil || fFp == nil || fCert == nil {
		return
	}
	pC, pNow, pCertFp, pSignerFp := fn.Params[1], fn.Params[2], fn.Params[3], fn.Params[4]
	_ = pNow
	isSignerCA := func(v ssa.Value) bool { // value derives from GetCAForCert's result
		return derivesFrom(v, sliceLocal, isCallTo(Ref{"cert", "CAPool", "GetCAForCert"}))
	}
	isSignerCert := func(v ssa.Value) bool {
		return derivesFrom(v, sliceLocal, func(x ssa.Value) bool { return loadsField(x, fCert) }) && isSignerCA(v)
	}
	isLeaf := func(v ssa.Value) bool { return stripValue(v) == pC }
	sinks := successReturns(fn, 1)
	common := []Guard{
		gBool("primary fingerprint not blocklisted", false, -1, callTo(Ref{"cert", "CAPool", "IsBlocklisted"}).withArg(1, func(v ssa.Value) bool { return stripValue(v) == pCertFp })),
		gErrNil("issuer is a trusted CA (GetCAForCert)", callTo(Ref{"cert", "CAPool", "GetCAForCert"}).withArg(1, isLeaf)),
		gCmp("CA curve == certificate curve",
			func(v ssa.Value) bool {
				call, _ := callOf(v)
				return call != nil && matchFunc(calleeObj(call), certM("Curve")) && isSignerCert(callArgs(call)[0])
			},
			func(v ssa.Value) bool {
				call, _ := callOf(v)
				return call != nil && matchFunc(calleeObj(call), certM("Curve")) && isLeaf(callArgs(call)[0])
			}, mustEqual),
		gBool("CA not expired at now", false, -1, callTo(certM("Expired")).withArg(0, isSignerCert).withArg(1, func(v ssa.Value) bool { return v == pNow })),
		gBool("certificate not expired at now", false, -1, callTo(certM("Expired")).withArg(0, isLeaf).withArg(1, func(v ssa.Value) bool { return v == pNow })),
	}
	c.requireGuards("C01.verify", fn, sinks, "success-return", common...)
	alts := map[string][]Guard{
		"cached (same signer fingerprint)": {
			gCmp("len(signerFp) > 0", isLenOf(func(v ssa.Value) bool { return v == pSignerFp }), isIntConst(0), func(op token.Token) (bool, bool) {
				switch op {
				case token.GTR, token.NEQ:
					return true, true
				case token.LEQ, token.EQL:
					return true, false
				}
				return false, false
			}),
			gCmp("signerFp == signer.Fingerprint", func(v ssa.Value) bool { return v == pSignerFp }, func(v ssa.Value) bool { return loadsField(v, fFp) && isSignerCA(v) }, mustEqual),
		},
		"full (signature + CA constraints)": {
			gBool("signature verifies under the CA key", true, -1, callTo(certM("CheckSignature")).withArg(0, isLeaf).withArg(1, func(v ssa.Value) bool {
				call, _ := callOf(v)
				return call != nil && matchFunc(calleeObj(call), certM("PublicKey")) && isSignerCert(callArgs(call)[0])
			})),
			gErrNil("CA constraints hold", callTo(Ref{"cert", "", "CheckCAConstraints"}).withArg(0, isSignerCert).withArg(1, isLeaf)),
		},
	}
	c.requireAlt("C01.verify", fn, sinks, "success-return-mode", alts)
}

func c01Full(c *Ctx) {
	fn := c.Func(Ref{"cert", "CAPool", "VerifyCertificate"})
	if fn == nil {
		return
	}
	pC := fn.Params[2]
	pNow := fn.Params[1]
	sinks := successReturns(fn, 1)
	isFp2 := func(v ssa.Value) bool {
		call, i := callOf(v)
		return call != nil && i == 0 && matchFunc(calleeObj(call), Ref{"cert", "", "CalculateAlternateFingerprint"}) && stripValue(callArgs(call)[0]) == pC
	}
	isFp := func(v ssa.Value) bool {
		call, i := callOf(v)
		return call != nil && i == 0 && matchFunc(calleeObj(call), certM("Fingerprint")) && stripValue(callArgs(call)[0]) == pC
	}
	verifySpec := callTo(Ref{"cert", "CAPool", "verify"}).withArg(1, func(v ssa.Value) bool { return stripValue(v) == pC }).
		withArg(2, func(v ssa.Value) bool { return v == pNow }).withArg(3, isFp).
		withArg(4, func(v ssa.Value) bool { s, ok := constString(v); return ok && s == "" })
	c.requireGuards("C01.full", fn, sinks, "success-return",
		gErrNil("verify(c, now, Fingerprint(c), \"\") == nil [full mode]", verifySpec),
		gErrNil("primary fingerprint computed", callTo(certM("Fingerprint"))),
		gErrNil("alternate fingerprint computed", callTo(Ref{"cert", "", "CalculateAlternateFingerprint"})),
		gAny("twin fingerprint empty or not blocklisted",
			gBool("IsBlocklisted(fp2)==false", false, -1, callTo(Ref{"cert", "CAPool", "IsBlocklisted"}).withArg(1, isFp2)),
			gCmp("fp2 == \"\"", isFp2, func(v ssa.Value) bool { s, ok := constString(v); return ok && s == "" }, mustEqual)),
	)
	// stores into the cached struct
	want := map[string]func(ssa.Value) bool{
		"Fingerprint":  isFp,
		"fingerprint2": isFp2,
		"signerFingerprint": func(v ssa.Value) bool {
			f := c.Field("cert", "CachedCertificate", "Fingerprint")
			return loadsField(v, f) && derivesFrom(v, sliceLocal, isCallTo(Ref{"cert", "CAPool", "verify"}))
		},
		"Certificate": func(v ssa.Value) bool { return stripValue(v) == pC },
	}
	got := map[string]bool{}
	cc := c.NamedType("cert", "CachedCertificate")
	eachInstr(fn, func(in ssa.Instruction) {
		st, ok := in.(*ssa.Store)
		if !ok {
			return
		}
		fa, ok := st.Addr.(*ssa.FieldAddr)
		if !ok {
			return
		}
		if n := recvNamed(fa.X.Type()); n == nil || cc == nil || n.Obj() != cc.Obj() {
			return
		}
		name := fieldOfAddr(fa).Name()
		if p, ok := want[name]; ok {
			got[name] = true
			c.Check(p(st.Val), "C01.full", "cached."+name, c.instrPos(st), "stored from the expected source", "cached field "+name+" is not filled from the value the re-check relies on")
		}
	})
	for name := range want {
		if !got[name] {
			c.Bad("C01.full", "cached."+name, c.P.Pos(fn.Pos()), "cached field is never stored by VerifyCertificate")
		}
	}
}

func c01Cached(c *Ctx) {
	fn := c.Func(Ref{"cert", "CAPool", "VerifyCachedCertificate"})
	if fn == nil {
		return
	}
	pNow, pC := fn.Params[1], fn.Params[2]
	fld := func(name string) func(ssa.Value) bool {
		f := c.Field("cert", "CachedCertificate", name)
		return func(v ssa.Value) bool {
			return f != nil && loadsField(v, f) && derivesFrom(v, sliceLocal, func(x ssa.Value) bool { return x == pC })
		}
	}
	sinks := successReturns(fn, 0)
	verifySpec := callTo(Ref{"cert", "CAPool", "verify"}).withArg(1, fld("Certificate")).withArg(2, func(v ssa.Value) bool { return v == pNow }).
		withArg(3, fld("Fingerprint")).withArg(4, fld("signerFingerprint"))
	c.requireGuards("C01.cached", fn, sinks, "success-return",
		gAny("twin fingerprint empty or not blocklisted",
			gBool("IsBlocklisted(c.fingerprint2)==false", false, -1, callTo(Ref{"cert", "CAPool", "IsBlocklisted"}).withArg(1, fld("fingerprint2"))),
			gCmp("c.fingerprint2 == \"\"", fld("fingerprint2"), func(v ssa.Value) bool { s, ok := constString(v); return ok && s == "" }, mustEqual)),
	)
	// every nil-able return must return verify's own error
	calls := 0
	for _, ci := range callsIn(fn, Ref{"cert", "CAPool", "verify"}) {
		calls++
		c.Check(verifySpec.matches(ci), "C01.cached", "verify-args", c.instrPos(ci), "verify(c.Certificate, now, c.Fingerprint, c.signerFingerprint)", "the cached re-check does not pass the cached certificate / fingerprints to verify (arguments transposed or replaced)")
	}
	if calls == 0 {
		c.Bad("C01.cached", "verify-args", c.P.Pos(fn.Pos()), "VerifyCachedCertificate no longer calls verify")
	}
	for i, s := range sinks {
		ret := s.Instr.(*ssa.Return)
		call, idx := callOf(retResult(ret, 0))
		ok := call != nil && idx == 1 && verifySpec.matches(call)
		c.Check(ok, "C01.cached", fmt.Sprintf("return#%d", i), c.instrPos(ret), "returns verify's verdict", "a possibly-nil return that is not verify's error result")
	}
}

func c01Constraints(c *Ctx) {
	fn := c.Func(Ref{"cert", "", "checkCAConstraints"})
	wrap := c.Func(Ref{"cert", "", "CheckCAConstraints"})
	if fn == nil || wrap == nil {
		return
	}
	pSigner := fn.Params[0]
	par := map[string]*ssa.Parameter{}
	for _, p := range fn.Params {
		par[p.Name()] = p
	}
	for _, n := range []string{"notBefore", "notAfter", "groups", "networks", "unsafeNetworks"} {
		if par[n] == nil {
			c.Unknown("anchor", "checkCAConstraints."+n, "parameter not found")
			return
		}
	}
	sinks := successReturns(fn, 0)
	signerAcc := func(name string) func(ssa.Value) bool {
		return func(v ssa.Value) bool {
			call, _ := callOf(v)
			return call != nil && matchFunc(calleeObj(call), certM(name)) && stripValue(callArgs(call)[0]) == pSigner
		}
	}
	fromSigner := func(name string) func(ssa.Value) bool {
		return func(v ssa.Value) bool { return derivesFrom(v, sliceLocal, signerAcc(name)) }
	}
	fromParam := func(name string) func(ssa.Value) bool {
		return func(v ssa.Value) bool {
			return derivesFrom(v, sliceThrough, func(x ssa.Value) bool { return x == par[name] })
		}
	}
	isPar := func(n string) func(ssa.Value) bool { return func(v ssa.Value) bool { return v == par[n] } }
	c.requireGuards("C01.constraints", fn, sinks, "nil-return",
		// a.After(b) and b.Before(a) are the same test
		gAny("!notAfter.After(signer.NotAfter())",
			gBool("!notAfter.After(signer.NotAfter())", false, -1, callTo(Ref{"time", "Time", "After"}).withArg(0, isPar("notAfter")).withArg(1, signerAcc("NotAfter"))),
			gBool("!signer.NotAfter().Before(notAfter)", false, -1, callTo(Ref{"time", "Time", "Before"}).withArg(0, signerAcc("NotAfter")).withArg(1, isPar("notAfter")))),
		gAny("!notBefore.Before(signer.NotBefore())",
			gBool("!notBefore.Before(signer.NotBefore())", false, -1, callTo(Ref{"time", "Time", "Before"}).withArg(0, isPar("notBefore")).withArg(1, signerAcc("NotBefore"))),
			gBool("!signer.NotBefore().After(notBefore)", false, -1, callTo(Ref{"time", "Time", "After"}).withArg(0, signerAcc("NotBefore")).withArg(1, isPar("notBefore")))),
	)
	// groups: for-all
	for _, li := range findRangeLoops(fn, func(v ssa.Value) bool { return v == par["groups"] }) {
		c.forAllGuard("C01.constraints", "groups-subset", fn, li, sinks,
			gBool("slices.Contains(signerGroups, g)", true, -1, CallSpec{Refs: []Ref{{"slices", "", "Contains"}}, Args: map[int]func(ssa.Value) bool{0: fromSigner("Groups"), 1: fromParam("groups")}}))
	}
	// the loop must be entered whenever the signer has groups: the only bypass of the loop is len(signerGroups) == 0
	c01LoopEntered(c, fn, "groups", par["groups"], fromSigner("Groups"), sinks)
	for _, fam := range []struct{ param, acc string }{{"networks", "Networks"}, {"unsafeNetworks", "UnsafeNetworks"}} {
		loops := findRangeLoops(fn, func(v ssa.Value) bool { return v == par[fam.param] })
		if len(loops) != 1 {
			c.Bad("C01.constraints", fam.param+"-subset", c.P.Pos(fn.Pos()), fmt.Sprintf("expected one loop over %s, found %d", fam.param, len(loops)))
			continue
		}
		li := loops[0]
		contains := gBool("signerNet.Contains(certNet.Addr())", true, -1, callTo(Ref{"net/netip", "Prefix", "Contains"}).withArg(0, fromSigner(fam.acc)).withArg(1, fromParam(fam.param)))
		bits := gCmp("signerNet.Bits() <= certNet.Bits()",
			func(v ssa.Value) bool {
				call, _ := callOf(v)
				return call != nil && matchFunc(calleeObj(call), Ref{"net/netip", "Prefix", "Bits"}) && fromSigner(fam.acc)(callArgs(call)[0])
			},
			func(v ssa.Value) bool {
				call, _ := callOf(v)
				return call != nil && matchFunc(calleeObj(call), Ref{"net/netip", "Prefix", "Bits"}) && fromParam(fam.param)(callArgs(call)[0])
			},
			func(op token.Token) (bool, bool) {
				switch op {
				case token.LEQ:
					return true, true
				case token.GTR:
					return true, false
				}
				return false, false
			})
		// the `found` flag: a boolean phi tested after the inner loop
		var flagPhi *ssa.Phi
		flag := Guard{Name: "found", Match: func(cd Cond, _ *ssa.If) (bool, bool) {
			if cd.Kind != CondBool {
				return false, false
			}
			phi, ok := cd.Base.(*ssa.Phi)
			if !ok {
				return false, false
			}
			for _, e := range phi.Edges {
				if _, isC := boolConst(e); !isC {
					if e != phi {
						return false, false
					}
				}
			}
			// must belong to this loop: reachable from li.Body
			if _, ok := reachable(li.Body, map[Edge]bool{{li.Header, li.DoneIx}: true})[phi.Block()]; !ok {
				return false, false
			}
			flagPhi = phi
			return true, !cd.Neg
		}}
		// the inner exists-loop may live in a helper: `contained(signerList, certNet)` whose every true return is reached only
		// after an element of the list passed both containment tests (summary checked on the helper itself)
		helperCall := Guard{Name: "found", Match: func(cd Cond, _ *ssa.If) (bool, bool) {
			if cd.Kind != CondBool {
				return false, false
			}
			call, _ := callOf(cd.Base)
			if call == nil {
				return false, false
			}
			h := call.Call.StaticCallee()
			if h == nil || !c01ContainmentHelper(c, h) {
				return false, false
			}
			a := callArgs(call)
			okArgs := false
			for i := range a {
				for j := range a {
					if i != j && fromSigner(fam.acc)(a[i]) && fromParam(fam.param)(a[j]) {
						okArgs = true
					}
				}
			}
			if !okArgs {
				return false, false
			}
			return true, !cd.Neg
		}}
		if n, _ := passEdgesCount(fn, helperCall); n > 0 {
			c.forAllGuard("C01.constraints", fam.param+"-subset", fn, li, sinks, helperCall)
			c.OK("C01.constraints", fam.param+":found=true", "containment decided by a helper whose true returns pass Contains and Bits")
			c01LoopEntered(c, fn, fam.param, par[fam.param], fromSigner(fam.acc), sinks)
			continue
		}
		c.forAllGuard("C01.constraints", fam.param+"-subset", fn, li, sinks, flag)
		if flagPhi != nil {
			n := 0
			for k, e := range flagPhi.Edges {
				if bv, ok := boolConst(e); ok && bv {
					n++
					pred := flagPhi.Block().Preds[k]
					s := []Sink{{Instr: pred.Instrs[len(pred.Instrs)-1], Desc: "found = true"}}
					c.requireGuards("C01.constraints", fn, s, fam.param+":found=true", contains, bits)
				}
			}
			if n == 0 {
				c.Bad("C01.constraints", fam.param+":found=true", c.P.Pos(fn.Pos()), "flag is never set true")
			}
		}
		c01LoopEntered(c, fn, fam.param, par[fam.param], fromSigner(fam.acc), sinks)
	}
	// wrapper passes like-named accessors (no transposition)
	for _, ci := range callsIn(wrap, Ref{"cert", "", "checkCAConstraints"}) {
		args := ci.Common().Args
		wantAcc := []string{"", "NotBefore", "NotAfter", "Groups", "Networks", "UnsafeNetworks"}
		okAll := len(args) == 6 && stripValue(args[0]) == wrap.Params[0]
		for i := 1; i < 6 && okAll; i++ {
			call, _ := callOf(args[i])
			okAll = call != nil && matchFunc(calleeObj(call), certM(wantAcc[i])) && stripValue(callArgs(call)[0]) == wrap.Params[1]
		}
		c.Check(okAll, "C01.constraints", "CheckCAConstraints-args", c.instrPos(ci), "signer, sub.NotBefore(), sub.NotAfter(), sub.Groups(), sub.Networks(), sub.UnsafeNetworks()", "CheckCAConstraints passes the wrong accessor for one of the constraint arguments (transposed)")
	}
}

// c01LoopEntered: the range loop over param is skipped only when len(<signer list>) == 0.
func c01LoopEntered(c *Ctx, fn *ssa.Function, name string, param *ssa.Parameter, fromSigner func(ssa.Value) bool, sinks []Sink) {
	loops := findRangeLoops(fn, func(v ssa.Value) bool { return v == param })
	if len(loops) != 1 {
		c.Bad("C01.constraints", name+"-loop", c.P.Pos(fn.Pos()), fmt.Sprintf("expected exactly one loop over %s, found %d", name, len(loops)))
		return
	}
	li := loops[0]
	// edges allowed to bypass the loop: `len(signerList) > 0` being false
	bypass, n := passEdges(fn, gCmp("signer list empty", isLenOf(fromSigner), isIntConst(0), func(op token.Token) (bool, bool) {
		switch op {
		case token.GTR, token.NEQ:
			return true, false
		case token.EQL, token.LEQ:
			return true, true
		}
		return false, false
	}))
	// block: loop header entry. Sinks must be unreachable if we can use neither the loop header nor the bypass edges.
	blocked := map[Edge]bool{}
	for e := range bypass {
		blocked[e] = true
	}
	for _, p := range li.Header.Preds {
		for i, s := range p.Succs {
			if s == li.Header {
				blocked[Edge{p, i}] = true
			}
		}
	}
	prev := reachable(fn.Blocks[0], blocked)
	for _, s := range sinks {
		if _, ok := prev[s.Instr.Block()]; ok {
			c.Bad("C01.constraints", name+"-loop", c.instrPos(s.Instr), fmt.Sprintf("nil return reachable without iterating over %s although the signer's list may be non-empty (%d empty-list tests found)", name, n), c.blockPath(prev, s.Instr.Block())...)
			return
		}
	}
	c.OK("C01.constraints", name+"-loop", "loop skipped only when the signer's list is empty")
}

func c01Tables(c *Ctx) {
	for _, recv := range []string{"certificateV1", "certificateV2"} {
		fn := c.Func(Ref{"cert", recv, "Expired"})
		if fn == nil {
			continue
		}
		var diffs []string
		n := 0
		for nb := -1; nb <= 1; nb++ {
			for na := -1; na <= 1; na++ {
				rel := orderRel{"c.details.notBefore|t": nb, "c.details.notAfter|t": na}
				res, err := absEval(fn, &AbsEnv{Oracle: orderOracle(rel, nil)})
				if err != "" {
					c.Unknown("C01.expired-table", recv+".Expired", "left the supported fragment: "+err)
					diffs = nil
					n = -100
					break
				}
				n++
				got := constant.BoolVal(res[0].K)
				want := nb > 0 || na < 0
				if got != want {
					diffs = append(diffs, fmt.Sprintf("notBefore%st, notAfter%st: Expired=%v, documented %v", relStr(nb), relStr(na), got, want))
				}
			}
		}
		if n > 0 {
			c.Check(len(diffs) == 0, "C01.expired-table", recv+".Expired", c.P.Pos(fn.Pos()), fmt.Sprintf("%d order combinations match notBefore>t || notAfter<t", n), strings.Join(diffs, "; "))
		}
	}
	fn := c.Func(Ref{"cert", "", "checkCAConstraints"})
	if fn == nil {
		return
	}
	var diffs []string
	n := 0
	for na := -1; na <= 1; na++ {
		for nb := -1; nb <= 1; nb++ {
			rel := orderRel{"notAfter|signer.NotAfter()": na, "notBefore|signer.NotBefore()": nb}
			res, err := absEval(fn, &AbsEnv{Oracle: orderOracle(rel, symAccessor), SymCmp: emptyCollections})
			if err != "" {
				c.Unknown("C01.expired-table", "checkCAConstraints.window", "left the supported fragment: "+err)
				return
			}
			n++
			rejected := !res[0].Nil
			want := na > 0 || nb < 0
			if rejected != want {
				diffs = append(diffs, fmt.Sprintf("notAfter%sCA.notAfter, notBefore%sCA.notBefore: rejected=%v, documented %v", relStr(na), relStr(nb), rejected, want))
			}
		}
	}
	c.Check(len(diffs) == 0, "C01.expired-table", "checkCAConstraints.window", c.P.Pos(fn.Pos()), fmt.Sprintf("%d order combinations match", n), strings.Join(diffs, "; "))
}

func relStr(r int) string {
	switch {
	case r < 0:
		return "<"
	case r > 0:
		return ">"
	}
	return "="
}

func c01Writers(c *Ctx) {
	allowed := map[string]string{
		"cert.NewCAPool":                       "constructor",
		"(*cert.CAPool).AddCA":                 "adds a verified CA",
		"(*cert.CAPool).BlocklistFingerprint":  "blocklist mutator",
		"(*cert.CAPool).ResetCertBlocklist":    "blocklist mutator",
	}
	funcs := c.moduleFuncs()
	for _, fname := range []string{"CAs", "certBlocklist"} {
		f := c.Field("cert", "CAPool", fname)
		if f == nil {
			continue
		}
		ws := fieldWriters(funcs, f)
		bad := 0
		for _, w := range ws {
			if _, ok := allowed[fnName(topFunc(w.Fn))]; !ok {
				bad++
				c.Bad("C01.trust-writers", "CAPool."+fname+"<-"+fnName(topFunc(w.Fn)), c.instrPos(w.Instr), fmt.Sprintf("%s of the trust state outside the pool's mutators", w.Kind))
			}
		}
		if bad == 0 {
			c.OK("C01.trust-writers", "CAPool."+fname, fmt.Sprintf("%d write sites, all in %d allowed functions", len(ws), len(allowed)))
		}
	}
}

var _ = types.Typ


func passEdgesCount(fn *ssa.Function, g Guard) (int, map[Edge]bool) {
	e, n := passEdges(fn, g)
	return n, e
}

// c01ContainmentHelper: h(list []netip.Prefix, sub netip.Prefix) bool (parameters in either order) returns true only after some
// element a of list satisfied a.Contains(sub.Addr()) and a.Bits() <= sub.Bits().
func c01ContainmentHelper(c *Ctx, h *ssa.Function) bool {
	if h.Blocks == nil || len(h.Params) != 2 || h.Signature.Results().Len() != 1 {
		return false
	}
	var list, sub *ssa.Parameter
	for _, p := range h.Params {
		if _, ok := p.Type().Underlying().(*typesSlice); ok {
			list = p
		} else {
			sub = p
		}
	}
	if list == nil || sub == nil {
		return false
	}
	fromList := func(v ssa.Value) bool {
		return derivesFrom(v, sliceLocal, func(x ssa.Value) bool { return x == ssa.Value(list) })
	}
	fromSub := func(v ssa.Value) bool {
		return derivesFrom(v, sliceThrough, func(x ssa.Value) bool { return x == ssa.Value(sub) })
	}
	contains := gBool("a.Contains(sub.Addr())", true, -1, callTo(Ref{"net/netip", "Prefix", "Contains"}).withArg(0, fromList).withArg(1, fromSub))
	bitsOf := func(from func(ssa.Value) bool) func(ssa.Value) bool {
		return func(v ssa.Value) bool {
			call, _ := callOf(v)
			return call != nil && matchFunc(calleeObj(call), Ref{"net/netip", "Prefix", "Bits"}) && from(callArgs(call)[0])
		}
	}
	bits := gCmp("a.Bits() <= sub.Bits()", bitsOf(fromList), bitsOf(fromSub), func(op tokenT) (bool, bool) {
		switch op {
		case tokLEQ:
			return true, true
		case tokGTR:
			return true, false
		}
		return false, false
	})
	sinks := boolReturns(h, 0, true)
	if len(sinks) == 0 {
		return false
	}
	for _, s := range sinks {
		for _, g := range []Guard{contains, bits} {
			if ok, n, _ := c.mustPass(h, s, g); !ok || n == 0 {
				return false
			}
		}
	}
	c.Funcs[h.String()] = true
	return true
}
