package main

import (
	"fmt"
	"go/constant"
	"go/token"
	"sort"
	"strings"

	"golang.org/x/tools/go/ssa"
)

func init() {
	register(&Property{
		ID: "C33", Title: "Timer wheel fires each item once, on time",
		Patterns:    []string{"."},
		Technique:   "abstract evaluation of TimerWheel.Add / Purge / one Advance iteration / findWheel over a finite set of heap shapes with a symbolic store (K8 extended: pointers are names, integers linear forms over named atoms, each comparison decided by the abstract case), final store compared with the list-discipline table; loop shape of Advance (covers every elapsed tick up to one revolution); linear form of the slot offset and of the wheel size",
		LevelText:   "Structural necessary conditions decided for every heap shape of the head/tail list representation (cache empty / one / more; slot or expired list empty / one / more; cursor wrapping or not; tick count below, at and above one revolution; timeout below, at, between, at and above the limits): Add links exactly one item (fresh, or popped from the cache with the cache head advanced and the item's link cleared) at the tail of exactly the slot findWheel chose, with the caller's value, and touches nothing else; Purge returns false only on an empty expired list and otherwise unlinks exactly the head, returns its value, clears the tail when the list becomes empty, and pushes the item on the cache only with its link redirected to the old cache head; one Advance iteration moves the cursor by one modulo the wheel length and appends the whole list of that slot (and only that slot) to the end of the expired list, clearing the slot, or does nothing for an empty slot; Advance runs that iteration once per elapsed tick up to one revolution and moves lastTick by the uncapped tick count; findWheel clamps the timeout into [tick, span] and returns current + ceil(timeout/tick) + 1 reduced once by the wheel length exactly when it reaches it; the wheel has span/tick + 2 slots.",
		LevelNote:   "Not decided: the numeric timing bound itself (that current + ceil + 1 is inside the wheel for every reachable current, i.e. the arithmetic relation between span/tick + 2 slots, one subtraction and the clamp; integer overflow of durations; behaviour for tick <= 0 or span < tick, which NewTimerWheel does not refuse); that callers Advance before Add (C18 decides it for conntrack); concurrency (LockingTimerWheel is C34's). The shape cases assume the representation invariant (Head nil iff Tail nil, Tail.Next nil, cache disjoint from the lists); each rule also checks that the operation re-establishes it on what it touched. Helper functions are evaluated in place three levels deep; anything else outside the fragment (maps, channels, unresolved calls) is UNDECIDED.",
		Explanation: "g13HeapRun per abstract case, one obligation per case; the tables are the definition of a FIFO head/tail list with an item cache, not a transcription of the code; g13LoopCovers + c27IsMin for the Advance loop; the three instantiations share one generic body, the first (by name) is analysed",
		Run:         runC33,
		Canaries: func(c *Ctx) []Canary {
			f := "timeout.go"
			return []Canary{
				{Name: "popped-item-drags-cache-chain", File: f, Old: "\t\ttw.itemsCached--\n\t\tti.Next = nil\n", New: "\t\ttw.itemsCached--\n", Rule: "C33.add"},
				{Name: "append-does-not-move-tail", File: f, Old: "\t\ttw.wheel[i].Tail.Next = ti\n\t\ttw.wheel[i].Tail = ti\n", New: "\t\ttw.wheel[i].Tail.Next = ti\n", Rule: "C33.add"},
				{Name: "add-into-current-slot", File: f, Old: "\tif tw.wheel[i].Tail == nil {\n\t\ttw.wheel[i].Head = ti\n\t\ttw.wheel[i].Tail = ti\n", New: "\tif tw.wheel[i].Tail == nil {\n\t\ttw.wheel[tw.current].Head = ti\n\t\ttw.wheel[i].Tail = ti\n", Rule: "C33.add"},
				{Name: "purge-leaves-stale-tail", File: f, Old: "\tif tw.expired.Head == nil {\n\t\ttw.expired.Tail = nil\n\t}\n", New: "", Rule: "C33.purge"},
				{Name: "purge-caches-without-relinking", File: f, Old: "\t\tti.Next = tw.itemCache\n\t\ttw.itemCache = ti\n", New: "\t\ttw.itemCache = ti\n", Rule: "C33.purge"},
				{Name: "purge-unlinks-after-clearing", File: f, Old: "\tti := tw.expired.Head\n\ttw.expired.Head = ti.Next\n", New: "\tti := tw.expired.Head\n\tti.Next = nil\n\ttw.expired.Head = ti.Next\n", Rule: "C33.purge"},
				{Name: "advance-overwrites-pending-expired", File: f, Old: "\t\t\t\ttw.expired.Tail.Next = tw.wheel[tw.current].Head\n", New: "\t\t\t\ttw.expired.Head = tw.wheel[tw.current].Head\n", Rule: "C33.advance"},
				{Name: "advance-keeps-slot-tail", File: f, Old: "\t\t\ttw.wheel[tw.current].Head = nil\n\t\t\ttw.wheel[tw.current].Tail = nil\n", New: "\t\t\ttw.wheel[tw.current].Head = nil\n", Rule: "C33.advance"},
				{Name: "cursor-wraps-one-late", File: f, Old: "\t\tif tw.current >= tw.wheelLen {\n\t\t\ttw.current = 0", New: "\t\tif tw.current > tw.wheelLen {\n\t\t\ttw.current = 0", Rule: "C33.advance"},
				{Name: "last-tick-by-capped-count", File: f, Old: "\tadv := ticks\n\tif ticks > tw.wheelLen {\n\t\tticks = tw.wheelLen\n\t}\n", New: "\tif ticks > tw.wheelLen {\n\t\tticks = tw.wheelLen\n\t}\n\tadv := ticks\n", Rule: "C33.advance"},
				{Name: "advance-stops-one-tick-short", File: f, Old: "for i := 0; i < ticks; i++ {", New: "for i := 1; i < ticks; i++ {", Rule: "C33.advance"},
				{Name: "slot-without-partial-tick", File: f, Old: "tick += tw.current + 1", New: "tick += tw.current", Rule: "C33.slot"},
				{Name: "timeout-rounded-down", File: f, Old: "tick := int(((timeout - 1) / tw.tickDuration) + 1)", New: "tick := int(timeout / tw.tickDuration)", Rule: "C33.slot"},
				{Name: "long-timeout-not-capped", File: f, Old: "\t} else if timeout > tw.wheelDuration {\n\t\t// We aren't handling timeouts greater than the wheels duration\n\t\ttimeout = tw.wheelDuration\n\t}\n", New: "\t}\n", Rule: "C33.slot"},
				{Name: "slot-wrap-off-by-one", File: f, Old: "\tif tick >= tw.wheelLen {\n\t\ttick -= tw.wheelLen", New: "\tif tick > tw.wheelLen {\n\t\ttick -= tw.wheelLen", Rule: "C33.slot"},
				{Name: "wheel-one-slot-short", File: f, Old: "wLen := int((max / min) + 2)", New: "wLen := int((max / min) + 1)", Rule: "C33.slot"},
			}
		},
	})
}

func c33TW(n string) Ref { return Ref{"", "TimerWheel", n} }

// c33First: the first instantiation (by name) of a TimerWheel method / of a generic function.
func c33First(c *Ctx, rule string, r Ref) *ssa.Function {
	fs := c.g13Instances(r)
	if len(fs) == 0 {
		c.Unknown("anchor", r.String(), "no instantiation with a body in the current tree (renamed, removed, or no longer used)")
		return nil
	}
	return fs[0]
}

func runC33(c *Ctx) {
	c.Rule("C33.add", "Add, per heap shape (cache empty/one/more x slot empty/one/more): returns a fresh item or the cache head (then itemCache = its old Next); item.Item = v, item.Next = nil; slot.Tail = item; empty slot: slot.Head = item, else old tail.Next = item and Head untouched; only wheel[findWheel(timeout)] is read; nothing else written", 9)
	c.Rule("C33.purge", "Purge, per heap shape (expired empty/one/more x cache empty/non-empty x cache-full test): empty => (_, false) and no write; else (head.Item, true), expired.Head = old head.Next, expired.Tail = nil iff that is nil; the item is either left with Next = nil and the cache untouched, or pushed (itemCache = item, item.Next = old itemCache); nothing else written", 9)
	c.Rule("C33.advance", "one Advance iteration, per shape (cursor below / at the last slot x slot empty/one/more x expired empty/non-empty): current = current+1, or 0 exactly when current+1 reaches wheelLen; only wheel[new current] is read; empty slot => no list write; else the slot's list is appended whole to expired (Head and Tail, or old tail.Next and Tail) and the slot cleared; the loop runs for i = 0 .. min(elapsed ticks, wheelLen)-1; lastTick += tickDuration * elapsed ticks (uncapped), also from a nil lastTick", 16)
	c.Rule("C33.slot", "findWheel, per case (timeout below / at / between / at / above the limits x wrap before / at / after the wheel length): result = current + quo(clamped-1, tick) + 2, minus wheelLen exactly when it is >= wheelLen; NewTimerWheel sizes the wheel max/min + 2", 16)
	fItem := c.Field("", "TimeoutItem", "Next")
	fList := c.Field("", "TimeoutList", "Tail")
	if fItem == nil || fList == nil {
		return
	}
	c33Add(c)
	c33Purge(c)
	c33Advance(c)
	c33Slot(c)
}

// ---------------------------------------------------------------------------------------
// shapes

type c33Facts struct {
	why []string
}

func (f *c33Facts) want(ok bool, format string, a ...any) {
	if !ok {
		f.why = append(f.why, fmt.Sprintf(format, a...))
	}
}

// final value of a location, with unwritten fields of fresh objects read as nil
func c33Final(r *g13HeapRes, loc string) string {
	if v, ok := r.Heap[loc]; ok {
		return v.String()
	}
	root := loc
	if i := strings.IndexAny(loc, ".["); i >= 0 {
		root = loc[:i]
	}
	if r.Fresh[root] {
		return "nil"
	}
	return "<" + loc + ">"
}

func c33OnlyWrites(f *c33Facts, r *g13HeapRes, allowed ...string) {
	ok := map[string]bool{}
	for _, a := range allowed {
		ok[a] = true
	}
	for _, w := range r.Writes {
		root := w
		if i := strings.IndexAny(w, ".["); i >= 0 {
			root = w[:i]
		}
		if !ok[w] && !ok[root+".*"] && !r.Fresh[root] {
			f.want(false, "writes %s", w)
		}
	}
}

func c33WheelReads(f *c33Facts, r *g13HeapRes, idx string) {
	n := 0
	for _, rd := range r.Reads {
		if strings.HasPrefix(rd, "W[") {
			n++
			f.want(rd == "W["+idx+"]", "reads wheel slot %s instead of W[%s]", rd, idx)
		}
	}
	for _, w := range r.Writes {
		f.want(!strings.HasPrefix(w, "W["), "replaces the list pointer %s", w)
	}
}

func c33Verdict(c *Ctx, rule, cons string, fn *ssa.Function, r *g13HeapRes, err string, f *c33Facts, bad string) {
	switch {
	case err != "":
		c.Unknown(rule, cons, "outside the evaluated fragment: "+err)
	case len(f.why) > 0:
		sort.Strings(f.why)
		c.Bad(rule, cons, c.P.Pos(fn.Pos()), bad+" ["+strings.Join(f.why, "; ")+"]")
	default:
		c.OK(rule, cons, fmt.Sprintf("%d write(s), final store as tabled", len(r.Writes)))
	}
}

// slot list shapes: empty, one item (A), several (A .. B)
func c33ListShape(h map[string]g13Val, list, shape string) (tail string) {
	switch shape {
	case "empty":
		h[list+".Head"], h[list+".Tail"] = g13P("nil"), g13P("nil")
		return ""
	case "one":
		h[list+".Head"], h[list+".Tail"] = g13P(list+"a"), g13P(list+"a")
		h[list+"a.Next"] = g13P("nil")
		return list + "a"
	}
	h[list+".Head"], h[list+".Tail"] = g13P(list+"a"), g13P(list+"b")
	h[list+"a.Next"], h[list+"b.Next"] = g13P(list+"m"), g13P("nil")
	return list + "b"
}

var c33Shapes = []string{"empty", "one", "more"}

// ---------------------------------------------------------------------------------------

func c33Add(c *Ctx) {
	fn := c33First(c, "C33.add", c33TW("Add"))
	if fn == nil || len(fn.Params) != 3 {
		return
	}
	slot := g13I(g11Atom("slot"))
	for _, cache := range c33Shapes {
		for _, shape := range c33Shapes {
			cons := fmt.Sprintf("Add[cache=%s,slot=%s]", cache, shape)
			h := map[string]g13Val{"tw.wheel": g13P("W"), "W[" + slot.String() + "]": g13P("S"), "tw.expired": g13P("E"), "tw.itemsCached": g13I(g11Atom("n"))}
			tail := c33ListShape(h, "S", shape)
			cacheNext := "nil"
			switch cache {
			case "empty":
				h["tw.itemCache"] = g13P("nil")
			case "one":
				h["tw.itemCache"], h["C0.Next"] = g13P("C0"), g13P("nil")
			default:
				h["tw.itemCache"], h["C0.Next"], h["C1.Next"] = g13P("C0"), g13P("C1"), g13P("nil")
				cacheNext = "C1"
			}
			cfg := &g13HeapCfg{Heap: h,
				Params: map[string]g13Val{fn.Params[0].Name(): g13P("tw"), fn.Params[1].Name(): g13P("v"), fn.Params[2].Name(): g13I(g11Atom("d"))},
				Cmp:    func(token.Token, string, string) (bool, bool) { return false, false },
				Call: func(name string, args []g13Val) (g13Val, bool) {
					if name == "TimerWheel.findWheel" && len(args) == 2 && args[0].P == "tw" && args[1].String() == g13I(g11Atom("d")).String() {
						return slot, true
					}
					return g13Val{}, false
				}}
			r, err := g13HeapRun(fn, cfg)
			f := &c33Facts{}
			if err == "" {
				it := ""
				if len(r.Ret) == 1 {
					it = r.Ret[0].P
				}
				switch {
				case it == "C0" && cache != "empty":
					f.want(c33Final(r, "tw.itemCache") == cacheNext, "pops C0 but leaves itemCache = %s (want %s)", c33Final(r, "tw.itemCache"), cacheNext)
				case r.Fresh[it]:
					f.want(c33Final(r, "tw.itemCache") == h["tw.itemCache"].String(), "allocates but changes itemCache to %s", c33Final(r, "tw.itemCache"))
				default:
					f.want(false, "returns %q, neither a fresh item nor the cache head", it)
				}
				if len(f.why) == 0 {
					f.want(c33Final(r, it+".Item") == "v", "item.Item = %s, not the caller's value", c33Final(r, it+".Item"))
					f.want(c33Final(r, it+".Next") == "nil", "item.Next = %s after linking (the item drags other items into the slot)", c33Final(r, it+".Next"))
					f.want(c33Final(r, "S.Tail") == it, "slot.Tail = %s, not the new item", c33Final(r, "S.Tail"))
					if shape == "empty" {
						f.want(c33Final(r, "S.Head") == it, "empty slot: slot.Head = %s, not the new item", c33Final(r, "S.Head"))
					} else {
						f.want(c33Final(r, "S.Head") == "Sa", "slot.Head changed to %s: the items already in the slot are lost", c33Final(r, "S.Head"))
						f.want(c33Final(r, tail+".Next") == it, "old tail.Next = %s, not the new item", c33Final(r, tail+".Next"))
					}
					c33OnlyWrites(f, r, it+".*", "S.Head", "S.Tail", tail+".Next", "tw.itemCache", "tw.itemsCached")
					c33WheelReads(f, r, slot.String())
				}
			}
			c33Verdict(c, "C33.add", cons, fn, r, err, f, "Add does not link exactly the one item at the tail of the slot findWheel chose: an item is lost, shared between lists, or returned more than once")
		}
	}
}

// ---------------------------------------------------------------------------------------

func c33Purge(c *Ctx) {
	fn := c33First(c, "C33.purge", c33TW("Purge"))
	if fn == nil || len(fn.Params) != 1 {
		return
	}
	type cs struct {
		shape, cache string
		room         bool
	}
	cases := []cs{{"empty", "empty", true}}
	for _, sh := range []string{"one", "more"} {
		for _, ca := range []string{"empty", "one"} {
			for _, room := range []bool{true, false} {
				cases = append(cases, cs{sh, ca, room})
			}
		}
	}
	for _, k := range cases {
		cons := fmt.Sprintf("Purge[expired=%s,cache=%s,room=%v]", k.shape, k.cache, k.room)
		h := map[string]g13Val{"tw.expired": g13P("E"), "tw.wheel": g13P("W"), "tw.itemsCached": g13I(g11Atom("n")), "Ea.Item": g13P("item(Ea)")}
		c33ListShape(h, "E", k.shape)
		oldCache := "nil"
		if k.cache == "one" {
			oldCache = "C0"
			h["C0.Next"] = g13P("nil")
		}
		h["tw.itemCache"] = g13P(oldCache)
		room := k.room
		cfg := &g13HeapCfg{Heap: h, Params: map[string]g13Val{fn.Params[0].Name(): g13P("tw")},
			// the only integer comparison is the cache-size policy: both outcomes are evaluated
			Cmp: func(op token.Token, a, b string) (bool, bool) {
				if strings.Contains(a, "*n ") || strings.Contains(b, "*n ") {
					return room, true
				}
				return false, false
			}}
		r, err := g13HeapRun(fn, cfg)
		f := &c33Facts{}
		if err == "" {
			okRet := len(r.Ret) == 2 && r.Ret[1].B != nil
			f.want(okRet, "unexpected result shape")
			if okRet && k.shape == "empty" {
				f.want(!*r.Ret[1].B, "reports an item on an empty expired list")
				c33OnlyWrites(f, r)
			} else if okRet {
				next := h["Ea.Next"].String()
				f.want(*r.Ret[1].B, "reports no item although the expired list is not empty")
				f.want(r.Ret[0].String() == "item(Ea)", "returns %s, not the head item's value", r.Ret[0])
				f.want(c33Final(r, "E.Head") == next, "expired.Head = %s, want the old head's Next (%s)", c33Final(r, "E.Head"), next)
				if next == "nil" {
					f.want(c33Final(r, "E.Tail") == "nil", "list became empty but expired.Tail = %s: the next Advance appends behind an item that is no longer in the list", c33Final(r, "E.Tail"))
				} else {
					f.want(c33Final(r, "E.Tail") == h["E.Tail"].String(), "expired.Tail changed to %s although items remain", c33Final(r, "E.Tail"))
				}
				switch c33Final(r, "tw.itemCache") {
				case "Ea": // pushed
					f.want(c33Final(r, "Ea.Next") == oldCache, "item pushed on the cache with Next = %s, not the old cache head (%s): the cache chain runs into the expired list", c33Final(r, "Ea.Next"), oldCache)
				case oldCache: // not cached
					f.want(c33Final(r, "Ea.Next") == "nil" || !r.wrote("Ea.Next") && next == "nil", "item dropped with Next = %s", c33Final(r, "Ea.Next"))
				default:
					f.want(false, "itemCache = %s", c33Final(r, "tw.itemCache"))
				}
				c33OnlyWrites(f, r, "E.Head", "E.Tail", "Ea.*", "tw.itemCache", "tw.itemsCached")
			}
		}
		c33Verdict(c, "C33.purge", cons, fn, r, err, f, "Purge does not unlink exactly the head of the expired list: an item is returned twice, skipped, or the list / cache is left inconsistent")
	}
}

// ---------------------------------------------------------------------------------------

// c33Rank decides an integer comparison from abstract magnitudes.
func c33Rank(op token.Token, a, b int) bool {
	return constant.Compare(constant.MakeInt64(int64(a)), op, constant.MakeInt64(int64(b)))
}

func c33Advance(c *Ctx) {
	fn := c33First(c, "C33.advance", c33TW("Advance"))
	if fn == nil || len(fn.Params) != 2 {
		return
	}
	td, el := g11Atom("td"), g11Atom("el")
	quo := g11Atom("quo(" + el.String() + "," + td.String() + ")")
	ops := []string{quo.String(), td.String()}
	sort.Strings(ops)
	mult := g11Atom("mul(" + ops[0] + "," + ops[1] + ")")
	type cs struct {
		wrap          bool
		slot, expired string
		cap           int  // elapsed ticks vs wheelLen: -1 below, 0 at, 1 above
		nilTick       bool // lastTick still nil
	}
	var cases []cs
	for _, wrap := range []bool{false, true} {
		for _, sl := range c33Shapes {
			for _, ex := range []string{"empty", "more"} {
				cases = append(cases, cs{wrap, sl, ex, -1, false})
			}
		}
	}
	cases = append(cases, cs{false, "one", "more", 0, false}, cs{false, "one", "more", 1, false}, cs{false, "one", "empty", -1, true})
	for _, k := range cases {
		cons := fmt.Sprintf("Advance[wrap=%v,slot=%s,expired=%s,ticks%s,lastTick-nil=%v]", k.wrap, k.slot, k.expired, map[int]string{-1: "<len", 0: "=len", 1: ">len"}[k.cap], k.nilTick)
		newCur := g11Atom("cur").add(g11Const(1)).String()
		if k.wrap {
			newCur = g11Const(0).String()
		}
		h := map[string]g13Val{"tw.wheel": g13P("W"), "W[" + newCur + "]": g13P("S"), "tw.expired": g13P("E"), "tw.current": g13I(g11Atom("cur")),
			"tw.wheelLen": g13I(g11Atom("WL")), "tw.tickDuration": g13I(td), "tw.lastTick": g13P("LT"), "LT": g13P("lt0"), "tw.itemCache": g13P("nil")}
		base := "lt0"
		if k.nilTick {
			h["tw.lastTick"] = g13P("nil")
			base = "now"
		}
		stail := c33ListShape(h, "S", k.slot)
		etail := c33ListShape(h, "E", k.expired)
		// the slot a wrong cursor would reach: a distinct, empty list, so that the evaluation goes on
		// and the wrong index is reported as such
		for _, other := range []string{g11Atom("cur").add(g11Const(1)).String(), g11Const(0).String(), g11Atom("cur").String()} {
			if other != newCur {
				h["W["+other+"]"] = g13P("SX")
			}
		}
		c33ListShape(h, "SX", "empty")
		kk := k
		cfg := &g13HeapCfg{Heap: h, MaxVisits: 3,
			Params: map[string]g13Val{fn.Params[0].Name(): g13P("tw"), fn.Params[1].Name(): g13P("now")},
			Cmp: func(op token.Token, a, b string) (bool, bool) {
				mag := func(s string) (int, bool) {
					switch {
					case strings.Contains(s, "*cur "): // current+1 against the wheel length
						if kk.wrap {
							return 10, true
						}
						return 9, true
					case strings.Contains(s, "quo("): // elapsed ticks against the wheel length
						return 10 + kk.cap, true
					case s == g11Atom("WL").String():
						return 10, true
					}
					return 0, false
				}
				// the loop test i < ticks: one iteration is evaluated (the body does not depend on i)
				if k, isC := c33ConstOf(a); isC && (strings.Contains(b, "quo(") || b == g11Atom("WL").String()) {
					return c33Rank(op, int(k), 1), true
				}
				if k, isC := c33ConstOf(b); isC && (strings.Contains(a, "quo(") || a == g11Atom("WL").String()) {
					return c33Rank(op, 1, int(k)), true
				}
				x, ok1 := mag(a)
				y, ok2 := mag(b)
				if ok1 && ok2 {
					return c33Rank(op, x, y), true
				}
				return false, false
			},
			Call: func(name string, args []g13Val) (g13Val, bool) {
				switch name {
				case "Time.Sub":
					if len(args) == 2 && args[0].P == "now" && args[1].P == base {
						return g13I(el), true
					}
				case "Time.Add":
					if len(args) == 2 {
						return g13P("add(" + args[0].String() + "," + args[1].String() + ")"), true
					}
				}
				return g13Val{}, false
			}}
		r, err := g13HeapRun(fn, cfg)
		f := &c33Facts{}
		if err == "" {
			f.want(c33Final(r, "tw.current") == newCur, "current = %s after one tick, want %s", c33Final(r, "tw.current"), newCur)
			c33WheelReads(f, r, newCur)
			if k.slot == "empty" {
				c33OnlyWrites(f, r, "tw.current", "tw.lastTick")
			} else {
				if k.expired == "empty" {
					f.want(c33Final(r, "E.Head") == "Sa", "expired.Head = %s, want the slot's head", c33Final(r, "E.Head"))
				} else {
					f.want(c33Final(r, "E.Head") == "Ea", "expired.Head changed to %s: items already expired are lost", c33Final(r, "E.Head"))
					f.want(c33Final(r, etail+".Next") == "Sa", "old expired tail.Next = %s, want the slot's head", c33Final(r, etail+".Next"))
				}
				f.want(c33Final(r, "E.Tail") == stail, "expired.Tail = %s, want the slot's tail (%s)", c33Final(r, "E.Tail"), stail)
				f.want(c33Final(r, "S.Head") == "nil" && c33Final(r, "S.Tail") == "nil", "slot left with Head = %s, Tail = %s: its items are expired again one revolution later, or the next Add appends behind an expired item", c33Final(r, "S.Head"), c33Final(r, "S.Tail"))
				c33OnlyWrites(f, r, "tw.current", "tw.lastTick", "E.Head", "E.Tail", etail+".Next", "S.Head", "S.Tail")
			}
			lt := c33Final(r, "tw.lastTick")
			want := "add(" + base + "," + mult.String() + ")"
			f.want(r.Fresh[lt] && c33Final(r, lt) == want, "lastTick -> %s, want %s (the uncapped tick count: a capped count makes the wheel run ahead of the clock)", c33Final(r, lt), want)
		}
		c33Verdict(c, "C33.advance", cons, fn, r, err, f, "one tick of Advance does not move exactly the next slot's whole list to the end of the expired list")
	}
	// ---- the loop runs once per elapsed tick, up to one revolution
	env := g11NewEnv(nil)
	loops := naturalLoops(fn)
	var q ssa.Value
	eachInstr(fn, func(in ssa.Instruction) {
		if bo, ok := in.(*ssa.BinOp); ok && bo.Op == token.QUO {
			if call, _ := callOf(bo.X); call != nil && matchFunc(calleeObj(call), Ref{"time", "Time", "Sub"}) {
				for _, r := range *bo.Referrers() {
					if cv, ok := r.(*ssa.Convert); ok {
						q = cv
					}
				}
			}
		}
	})
	if len(loops) != 1 || q == nil {
		c.Unknown("C33.advance", "Advance:loop", fmt.Sprintf("expected one loop and int(now.Sub(..)/tick), found %d loop(s)", len(loops)))
		return
	}
	L := loops[0]
	wl := g11Atom("ld(" + env.key(fn.Params[0]) + ".wheelLen)")
	okLoop, why := false, "no induction variable"
	for _, p := range g13HeaderPhis(L) {
		for _, e := range g11ExitEdges(L) {
			ifi, isIf := e.From.Instrs[len(e.From.Instrs)-1].(*ssa.If)
			if !isIf {
				continue
			}
			if cd := normCond(ifi.Cond); cd.Kind == CondCmp {
				bo := cd.Base.(*ssa.BinOp)
				for _, bound := range []ssa.Value{bo.X, bo.Y} {
					isQ := env.lin(bound).equal(env.lin(q))
					isMin, _ := c27IsMin(env, bound, env.lin(q), wl)
					if !isQ && !isMin {
						continue
					}
					if ok, w := g13LoopCovers(env, L, p, g11Const(0), env.lin(bound)); ok {
						okLoop = true
					} else {
						why = w
					}
				}
			}
		}
	}
	c.Check(okLoop, "C33.advance", "Advance:one-iteration-per-tick", c.P.Pos(fn.Pos()), "i = 0 .. min(ticks, wheelLen)-1", "the slot loop does not run exactly once per elapsed tick (up to one revolution): "+why+"; slots are passed over without being expired, or expired early")
}

func c33ConstOf(s string) (int64, bool) {
	var k int64
	if strings.Contains(s, "*") {
		return 0, false
	}
	if _, err := fmt.Sscanf(s, "%d", &k); err != nil {
		return 0, false
	}
	return k, true
}

// ---------------------------------------------------------------------------------------

func c33Slot(c *Ctx) {
	fn := c33First(c, "C33.slot", c33TW("findWheel"))
	if fn != nil && len(fn.Params) == 2 {
		td, wd, d, cur, wl := g11Atom("td"), g11Atom("wd"), g11Atom("d"), g11Atom("cur"), g11Atom("WL")
		// abstract magnitudes: tick = 2, span = 6, timeout in {1,2,4,6,7}
		for _, dm := range []int{1, 2, 4, 6, 7} {
			for _, wrap := range []int{-1, 0, 1} {
				cons := fmt.Sprintf("findWheel[timeout=%s,tick%s]", map[int]string{1: "<tick", 2: "=tick", 4: "between", 6: "=span", 7: ">span"}[dm], map[int]string{-1: "<len", 0: "=len", 1: ">len"}[wrap])
				h := map[string]g13Val{"tw.tickDuration": g13I(td), "tw.wheelDuration": g13I(wd), "tw.current": g13I(cur), "tw.wheelLen": g13I(wl)}
				dm, wrap := dm, wrap
				cfg := &g13HeapCfg{Heap: h, Params: map[string]g13Val{fn.Params[0].Name(): g13P("tw"), fn.Params[1].Name(): g13I(d)},
					Cmp: func(op token.Token, a, b string) (bool, bool) {
						mag := func(s string) (int, bool) {
							switch s {
							case d.String():
								return dm, true
							case td.String():
								return 2, true
							case wd.String():
								return 6, true
							case wl.String():
								return 100, true
							}
							if strings.Contains(s, "quo(") { // the slot before reduction, against the wheel length
								return 100 + wrap, true
							}
							return 0, false
						}
						x, ok1 := mag(a)
						y, ok2 := mag(b)
						if ok1 && ok2 {
							return c33Rank(op, x, y), true
						}
						return false, false
					}}
				r, err := g13HeapRun(fn, cfg)
				f := &c33Facts{}
				if err == "" {
					c33OnlyWrites(f, r)
					var cl []g11Lin // admissible clamped timeouts
					switch {
					case dm < 2:
						cl = []g11Lin{td}
					case dm == 2:
						cl = []g11Lin{td, d}
					case dm < 6:
						cl = []g11Lin{d}
					case dm == 6:
						cl = []g11Lin{wd, d}
					default:
						cl = []g11Lin{wd}
					}
					ok := false
					got := "?"
					if len(r.Ret) == 1 && r.Ret[0].L != nil {
						got = r.Ret[0].L.String()
						for _, t := range cl {
							want := g11Atom("quo(" + t.add(g11Const(-1)).String() + "," + td.String() + ")").add(cur).add(g11Const(2))
							if wrap >= 0 {
								want = want.sub(wl)
							}
							ok = ok || r.Ret[0].L.equal(want)
						}
					}
					red := "not reduced"
					if wrap >= 0 {
						red = "reduced by the wheel length"
					}
					f.want(ok, "returns %s; want current + quo(clamped timeout - 1, tick) + 2, %s", got, red)
				}
				c33Verdict(c, "C33.slot", cons, fn, r, err, f, "findWheel does not choose the slot ceil(clamped timeout / tick) + 1 ticks ahead of the cursor: the item fires early (before its timeout) or late (more than two ticks after), or indexes outside the wheel")
			}
		}
	}
	// ---- wheel size
	nw := c33First(c, "C33.slot", Ref{"", "", "NewTimerWheel"})
	fLen := c.Field("", "TimerWheel", "wheelLen")
	if nw == nil || fLen == nil || len(nw.Params) != 2 {
		return
	}
	env := g11NewEnv(nil)
	var lin func(v ssa.Value) g11Lin
	lin = func(v ssa.Value) g11Lin { // linear form through integer conversions
		switch x := v.(type) {
		case *ssa.Convert:
			return lin(x.X)
		case *ssa.BinOp:
			switch x.Op {
			case token.ADD:
				return lin(x.X).add(lin(x.Y))
			case token.SUB:
				return lin(x.X).sub(lin(x.Y))
			case token.QUO:
				return g11Atom("quo(" + lin(x.X).String() + "," + lin(x.Y).String() + ")")
			}
		}
		return env.lin(v)
	}
	want := g11Atom("quo(" + env.lin(nw.Params[1]).String() + "," + env.lin(nw.Params[0]).String() + ")").add(g11Const(2))
	n := 0
	eachInstr(nw, func(in ssa.Instruction) {
		st, ok := in.(*ssa.Store)
		if !ok {
			return
		}
		if fa, ok := st.Addr.(*ssa.FieldAddr); ok && fieldOfAddr(fa) == fLen {
			d, isC := lin(st.Val).constDiff(want)
			cons := fmt.Sprintf("NewTimerWheel:wheelLen#%d", n)
			n++
			switch {
			case isC && d >= 0:
				c.OK("C33.slot", cons, fmt.Sprintf("max/min + %d slots", 2+d))
			case isC:
				c.Bad("C33.slot", cons, c.instrPos(st), fmt.Sprintf("the wheel has max/min + %d slots: with the cursor on the last slot a timeout at the cap lands %d slot(s) past the single reduction findWheel makes (index out of range, the item is never returned)", 2+d, -d))
			default:
				c.Unknown("C33.slot", cons, "wheel length is not max/min plus a constant: "+lin(st.Val).String())
			}
		}
	})
	if n == 0 {
		c.Unknown("C33.slot", "NewTimerWheel:wheelLen", "no store to wheelLen found")
	}
}
