package main

import (
	"fmt"
	"go/types"
	"sort"
	"strings"

	"golang.org/x/tools/go/ssa"
)

func init() {
	register(&Property{
		ID: "C49", Title: "Stopping a node at any point releases everything",
		Patterns:  []string{"./..."},
		Technique: "goroutine discipline over every go statement / WaitGroup.Go of the module (body resolved through closures, bound methods, function-typed fields and VTA for interface calls; every loop that contains a blocking operation must have a terminating exit: a context Done case, an error from a closable resource, a closed channel), channel-send discipline (every send is non-blocking or selects on Done), CFG ordering in Control.Stop / Start (cancel before Close, Close reached whenever the state was advanced), must-pass-through in Interface.Close (every writer, the device, the WaitGroup token), who-may-call on the WaitGroup, lock state at the slow teardown call",
		LevelText: "Structural necessary conditions of a prompt and complete stop, decided on all paths: every goroutine the module starts runs loops that can end (each blocking loop leaves on the service context, on the error of a resource Close releases, or on a closed channel); no channel send can block forever once the workers are gone (each send has a default or a Done case); Stop and the failed-Start path cancel the context before releasing the interface and release it on every path that changed the run state; Interface.Close, once past its once-only guard, closes every underlay writer and the overlay device and returns the construction token on every path; only the constructor / Close / run / wait touch the reader WaitGroup; the slow tunnel teardown runs without the state lock.",
		LevelNote: "Not decided: promptness in time, OS-level release of sockets and devices, goroutines blocked outside loops (a single receive), calls through function values that cannot be resolved in the launching function (treated as opaque), that closing a resource really makes its blocked reader return (the listed blocking calls are trusted to fail after Close).",
		Explanation: "K14 over all go sites and send sites, K1 order and must-pass rules on Control.Stop/Start and Interface.Close, K2 on the WaitGroup, K3 lock state at CloseAllTunnels",
		Run:       runC49,
		Canaries: func(c *Ctx) []Canary {
			return []Canary{
				{Name: "query-worker-without-done", File: "lighthouse.go", Old: "\t\t\tselect {\n\t\t\tcase <-lh.ctx.Done():\n\t\t\t\treturn\n\t\t\tcase addr := <-lh.queryChan:\n\t\t\t\tlh.innerQueryServer(addr, nb, out)\n\t\t\t}", New: "\t\t\tselect {\n\t\t\tcase addr := <-lh.queryChan:\n\t\t\t\tlh.innerQueryServer(addr, nb, out)\n\t\t\t}", Rule: "C49.goroutines"},
				{Name: "blocking-query-send", File: "lighthouse.go", Old: "\tselect {\n\tcase lh.queryChan <- vpnAddr:\n\tcase <-done:\n\t}\n", New: "\t_ = done\n\tlh.queryChan <- vpnAddr\n", Rule: "C49.sends"},
				{Name: "close-before-cancel", File: "control.go", Old: "\tc.cancel()\n\tc.CloseAllTunnels(false)\n\n\tc.stateLock.Lock()\n\tc.state = StateStopped\n\tif err := c.f.Close(); err != nil {\n\t\tc.l.Error(\"Close interface failed\", \"error\", err)\n\t}\n", New: "\tc.CloseAllTunnels(false)\n\n\tc.stateLock.Lock()\n\tc.state = StateStopped\n\tif err := c.f.Close(); err != nil {\n\t\tc.l.Error(\"Close interface failed\", \"error\", err)\n\t}\n\tc.cancel()\n", Rule: "C49.stop-order"},
				{Name: "never-started-stop-skips-close", File: "control.go", Old: "\t\tc.cancel()\n\t\tc.state = StateStopped\n\t\tif err := c.f.Close(); err != nil {\n\t\t\tc.l.Error(\"Close interface failed\", \"error\", err)\n\t\t}\n\t\tc.stateLock.Unlock()\n\t\treturn\n", New: "\t\tc.cancel()\n\t\tc.state = StateStopped\n\t\tc.stateLock.Unlock()\n\t\treturn\n", Rule: "C49.stop-order"},
				{Name: "close-returns-on-first-writer-error", File: "interface.go", Old: "\t\t\tf.l.Error(\"Error while closing udp socket\", \"error\", err, \"writer\", i)\n\t\t\terrs = append(errs, err)\n", New: "\t\t\tf.l.Error(\"Error while closing udp socket\", \"error\", err, \"writer\", i)\n\t\t\treturn err\n", Rule: "C49.close"},
				{Name: "teardown-under-state-lock", File: "control.go", Old: "\tc.state = StateStopping\n\tc.stateLock.Unlock()\n\n\t// Closing tunnels can be slow with a large hostmap, don't hold the lock for it\n\tc.cancel()\n\tc.CloseAllTunnels(false)\n\n\tc.stateLock.Lock()\n", New: "\tc.state = StateStopping\n\n\t// Closing tunnels can be slow with a large hostmap, don't hold the lock for it\n\tc.cancel()\n\tc.CloseAllTunnels(false)\n\n", Rule: "C49.stop-lock"},
				{Name: "listen-in-keeps-reading-after-error", File: "interface.go", Old: "\t\t\t\tf.onFatal(err)\n\t\t\t}\n\t\t\tbreak\n", New: "\t\t\t\tf.onFatal(err)\n\t\t\t}\n\t\t\tcontinue\n", Rule: "C49.goroutines"},
				{Name: "handshake-manager-ignores-done", File: "handshake_manager.go", Old: "\t\tcase <-ctx.Done():\n\t\t\treturn\n\t\tcase vpnIP := <-hm.trigger:", New: "\t\tcase <-ctx.Done():\n\t\t\tcontinue\n\t\tcase vpnIP := <-hm.trigger:", Rule: "C49.goroutines"},
			}
		},
	})
}

// c49Scope: module functions that belong to the running node (no commands, examples, e2e helpers, test-only files).
func c49Scope(c *Ctx) []*ssa.Function {
	var keep []*ssa.Function
	for _, f := range c.moduleFuncs() {
		p := pkgPathOf(f)
		if strings.Contains(p, "/cmd/") || strings.Contains(p, "/e2e") || strings.Contains(p, "/examples") || strings.HasSuffix(c.fileOf(topFunc(f).Pos()), "_tester.go") {
			continue
		}
		keep = append(keep, f)
	}
	return keep
}

var c49TerminatingExit = map[string]bool{
	"done":        true, // select case / test on the service context
	"error":       true, // the blocking call failed: the resource was closed under it
	"closed-chan": true, // range over / comma-ok receive from a channel the stopper closes
	"flag":        true, // atomic stop flag
}

func runC49(c *Ctx) {
	c.Rule("C49.goroutines", "K14: every loop containing a blocking operation, in every function that runs on a goroutine the module starts, can be left through a context Done case, the error of a closable resource, a closed channel or a stop flag", 15)
	c.Rule("C49.sends", "K14: every channel send is non-blocking (select default) or selects on a Done channel; plain blocking sends are tabled with the reason their receiver outlives them", 5)
	c.Rule("C49.stop-order", "K1: in Control.Stop and Control.Start every Interface.Close is preceded on all paths by the context cancel, and every return that changed the run state has released the interface", 4)
	c.Rule("C49.close", "must-pass: past its once-only guard Interface.Close closes every underlay writer (loop over writers without early exit), closes the overlay device and returns the WaitGroup token on every path", 3)
	c.Rule("C49.waitgroup", "K2: the reader WaitGroup is Add-ed only by the constructor, Done only by Close, Go only by run, Wait only by wait", 4)
	c.Rule("C49.stop-lock", "K3: Stop calls the slow CloseAllTunnels without holding the state lock", 1)

	funcs := c49Scope(c)

	// ---- goroutines
	nSites := 0
	seenLoop := map[string]int{}
	for _, gs := range c.goSites(funcs) {
		nSites++
		launcher := fnName(gs.Fn)
		if len(gs.Targets) == 0 {
			if strings.HasPrefix(gs.Via, "field:") {
				c.Unknown("C49.goroutines", "go:"+launcher+":"+gs.Via, "no function value stored into the field was found: the goroutine body cannot be resolved")
			} else {
				c.Note("go site in %s launches an unresolved function value (%s): body not analysed", launcher, gs.Via)
			}
			continue
		}
		for _, t := range gs.Targets {
			for _, f := range c.goBody(t, 3) {
				for _, lr := range blockingLoops(f) {
					key := fnName(f)
					cons := fmt.Sprintf("loop:%s#%d", key, lr.Header.Index)
					// one obligation per loop (a body shared by several go sites is the same loop)
					if _, dup := seenLoop[cons]; dup {
						continue
					}
					seenLoop[cons] = 1
					ord := 0
					for k := range seenLoop {
						if strings.HasPrefix(k, "loop:"+key+"#") {
							ord++
						}
					}
					ok := false
					for _, e := range lr.Exits {
						if c49TerminatingExit[e] {
							ok = true
						}
					}
					name := fmt.Sprintf("%s:blocking-loop#%d", key, ord)
					if ok {
						c.OK("C49.goroutines", name, fmt.Sprintf("blocking=%v exits=%v (goroutine started in %s)", uniqStrings(lr.Blocking), lr.Exits, launcher))
					} else {
						pos := "?"
						if len(lr.Header.Instrs) > 0 {
							pos = c.instrPos(lr.Header.Instrs[0])
						}
						c.Bad("C49.goroutines", name, pos, fmt.Sprintf("a loop that blocks on %v runs on the goroutine started in %s and has no terminating exit (exits found: %v): it survives Stop", uniqStrings(lr.Blocking), launcher, lr.Exits))
					}
				}
			}
		}
	}
	c.Note("%d go sites, %d blocking loops on goroutine bodies", nSites, len(seenLoop))

	// ---- sends
	tabled := map[string]string{
		// fnName -> reason
		"(*service.Service).tcpHandler": "userspace-netstack accept queue of the embedding service package: the listener goroutine that receives it lives as long as the gvisor stack, which Service.Close tears down; not part of the node's own stop path",
	}
	ns := map[string]int{}
	for _, s := range sendSites(funcs) {
		ns[fnName(s.Fn)]++
		cons := fmt.Sprintf("%s:send#%d", fnName(s.Fn), ns[fnName(s.Fn)])
		switch s.Guard {
		case "select-default", "select-done":
			c.OK("C49.sends", cons, s.Guard+" on "+chanName(s.Chan))
		default:
			if why, ok := tabled[fnName(topFunc(s.Fn))]; ok {
				c.OK("C49.sends", cons, "tabled: "+why)
				continue
			}
			c.Bad("C49.sends", cons, c.instrPos(s.Instr), fmt.Sprintf("channel send on %s can block forever (%s): once the receiving worker has returned on the cancelled context the sender never continues", chanName(s.Chan), s.Guard))
		}
	}

	// ---- Stop / Start ordering
	fCancel := c.Field("", "Control", "cancel")
	fState := c.Field("", "Control", "state")
	closeRef := Ref{"", "Interface", "Close"}
	isCancel := func(in ssa.Instruction) bool {
		ci, ok := in.(*ssa.Call)
		return ok && !ci.Call.IsInvoke() && ci.Call.StaticCallee() == nil && loadsField(ci.Call.Value, fCancel)
	}
	isClose := func(in ssa.Instruction) bool {
		ci, ok := in.(ssa.CallInstruction)
		if !ok {
			return false
		}
		if _, isDefer := in.(*ssa.Defer); isDefer {
			return false
		}
		return matchFunc(calleeObj(ci), closeRef)
	}
	isStateStore := func(in ssa.Instruction) bool {
		st, ok := in.(*ssa.Store)
		if !ok {
			return false
		}
		fa, ok := st.Addr.(*ssa.FieldAddr)
		return ok && fieldOfAddr(fa) == fState
	}
	for _, name := range []string{"Stop", "Start"} {
		fn := c.Func(Ref{"", "Control", name})
		if fn == nil || fCancel == nil || fState == nil {
			continue
		}
		n := 0
		eachInstr(fn, func(in ssa.Instruction) {
			if !isClose(in) {
				return
			}
			n++
			av, path := c.avoidsCut(fn, nil, in, isCancel)
			cons := fmt.Sprintf("Control.%s:cancel-before-close#%d", name, n)
			if av {
				c.Bad("C49.stop-order", cons, c.instrPos(in), "the interface is released on a path that has not cancelled the service context first: workers keep running against closed resources and a waiter can observe a live context", path...)
			} else {
				c.OK("C49.stop-order", cons, "cancel() precedes Close on every path")
			}
		})
		if n == 0 {
			c.Bad("C49.stop-order", "Control."+name+":close-called", c.P.Pos(fn.Pos()), "Control."+name+" never releases the interface")
		}
		if name == "Stop" {
			// every return reached after the run state was stored to Stopped must have passed Close
			for k, b := range fn.Blocks {
				ret, ok := b.Instrs[len(b.Instrs)-1].(*ssa.Return)
				if !ok {
					continue
				}
				bad := c49PathHitsAvoiding(fn, ret, func(in ssa.Instruction) bool {
					st, ok := in.(*ssa.Store)
					if !ok || !isStateStore(in) {
						return false
					}
					// a terminal state (Stopped): the constant value stored
					v, isK := constInt(st.Val)
					stopped, _ := constantInt64(c.ConstVal("", "StateStopped"))
					return isK && v == stopped
				}, isClose)
				cons := fmt.Sprintf("Control.Stop:return#%d:released", k)
				c.Check(!bad, "C49.stop-order", cons, c.instrPos(ret), "no path marks the node stopped without releasing the interface", "a path sets the state to stopped and returns without Interface.Close: sockets, the device and the reader goroutines stay")
			}
		}
		if name == "Start" {
			// the failure arm: a return with a non-nil error after activate must have released the interface
			act := callsIn(fn, Ref{"", "Interface", "activate"})
			for k, r := range errorReturns(fn, errResultIndex(fn)) {
				if len(act) != 1 {
					c.Unknown("C49.stop-order", "Control.Start:activate", "activate call not found")
					break
				}
				// only error returns that can follow activate()
				if reach, _ := c.avoidsCut(fn, act[0].(ssa.Instruction), r, func(ssa.Instruction) bool { return false }); !reach {
					continue
				}
				av, path := c.avoidsCut(fn, act[0].(ssa.Instruction), r, isClose)
				cons := fmt.Sprintf("Control.Start:failed-activate#%d:released", k)
				if av {
					c.Bad("C49.stop-order", cons, c.instrPos(r), "Start can fail after activating the interface without releasing it", path...)
				} else {
					c.OK("C49.stop-order", cons, "Close on every failing path after activate")
				}
			}
		}
	}

	// ---- Interface.Close
	if fn := c.Func(closeRef); fn != nil {
		fWriters := c.Field("", "Interface", "writers")
		fInside := c.Field("", "Interface", "inside")
		fWg := c.Field("", "Interface", "wg")
		fClosed := c.Field("", "Interface", "closed")
		// the once-only guard: closed.CompareAndSwap(false,true) must be true
		once := gBool("closed.CompareAndSwap(false, true)", true, -1, CallSpec{Refs: []Ref{{"sync/atomic", "Bool", "CompareAndSwap"}}, Args: map[int]func(ssa.Value) bool{0: func(v ssa.Value) bool { return isFieldAddrOf(v, fClosed) || fromFieldLoad(fClosed)(v) }}})
		pass, _ := splitEdges(fn, once)
		if len(pass) != 1 {
			c.Unknown("C49.close", "Interface.Close:once-guard", "the once-only CompareAndSwap guard was not found")
		} else {
			start := pass[0]
			isInsideClose := func(in ssa.Instruction) bool {
				ci, ok := in.(ssa.CallInstruction)
				return ok && ci.Common().IsInvoke() && ci.Common().Method.Name() == "Close" && fromFieldLoad(fInside)(ci.Common().Value)
			}
			isDone := func(in ssa.Instruction) bool {
				ci, ok := in.(ssa.CallInstruction)
				if !ok {
					return false
				}
				o := calleeObj(ci)
				a := callArgs(ci)
				return o != nil && o.Name() == "Done" && o.Pkg() != nil && o.Pkg().Path() == "sync" && len(a) > 0 && (isFieldAddrOf(a[0], fWg) || fromFieldLoad(fWg)(a[0]))
			}
			for _, chk := range []struct {
				name string
				cut  func(ssa.Instruction) bool
				why  string
			}{
				{"device-closed", isInsideClose, "the overlay device is not closed: its readers never return"},
				{"token-returned", isDone, "the construction token of the reader WaitGroup is not returned: Control.Wait blocks forever"},
			} {
				bad := ""
				var bpath []string
				for _, b := range fn.Blocks {
					ret, ok := b.Instrs[len(b.Instrs)-1].(*ssa.Return)
					if !ok {
						continue
					}
					if len(start.Instrs) == 0 {
						continue
					}
					if av, path := c49AvoidsFromBlock(c, fn, start, ret, chk.cut); av {
						bad, bpath = c.instrPos(ret), path
					}
				}
				if bad == "" {
					c.OK("C49.close", "Interface.Close:"+chk.name, "on every path past the once-only guard")
				} else {
					c.Bad("C49.close", "Interface.Close:"+chk.name, bad, "past the once-only guard a path returns although "+chk.why, bpath...)
				}
			}
			// every writer closed: a range loop over f.writers whose body calls Close on the element and which cannot be
			// left except through the loop header
			loops := findRangeLoops(fn, fromFieldLoad(fWriters))
			if len(loops) != 1 {
				c.Bad("C49.close", "Interface.Close:writers-closed", c.P.Pos(fn.Pos()), fmt.Sprintf("expected one loop over f.writers closing each underlay socket, found %d", len(loops)))
			} else {
				li := loops[0]
				hasClose := false
				body := reachable(li.Body, map[Edge]bool{{li.Header, li.DoneIx}: true})
				leaves := ""
				for b := range body {
					for _, in := range b.Instrs {
						if ci, ok := in.(ssa.CallInstruction); ok && ci.Common().IsInvoke() && ci.Common().Method.Name() == "Close" {
							hasClose = true
						}
					}
					if b != li.Header {
						if len(b.Succs) == 0 {
							leaves = c.instrPos(b.Instrs[len(b.Instrs)-1])
						}
					}
				}
				switch {
				case !hasClose:
					c.Bad("C49.close", "Interface.Close:writers-closed", c.P.Pos(fn.Pos()), "the loop over f.writers does not close them")
				case leaves != "":
					c.Bad("C49.close", "Interface.Close:writers-closed", leaves, "the loop over f.writers can return before every underlay socket was closed: the remaining readers never stop")
				default:
					c.OK("C49.close", "Interface.Close:writers-closed", "every writer is closed; the loop is left only when exhausted")
				}
			}
		}
		// ---- who touches the WaitGroup
		allowed := map[string]map[string]string{
			"Add":  {"nebula.NewInterface": "construction token"},
			"Done": {"(*nebula.Interface).Close": "returns the construction token"},
			"Go":   {"(*nebula.Interface).run": "reader goroutines"},
			"Wait": {"(*nebula.Interface).wait": "Control.Wait"},
		}
		counts := map[string]int{}
		for _, f := range funcs {
			eachInstr(f, func(in ssa.Instruction) {
				ci, ok := in.(ssa.CallInstruction)
				if !ok {
					return
				}
				o := calleeObj(ci)
				if o == nil || o.Pkg() == nil || o.Pkg().Path() != "sync" {
					return
				}
				a := callArgs(ci)
				if len(a) == 0 || !(isFieldAddrOf(a[0], fWg) || fromFieldLoad(fWg)(a[0])) {
					return
				}
				m := allowed[o.Name()]
				if m == nil {
					return
				}
				counts[o.Name()]++
				cons := fmt.Sprintf("Interface.wg.%s@%s", o.Name(), fnName(topFunc(f)))
				if why, ok := m[fnName(topFunc(f))]; ok {
					c.OK("C49.waitgroup", cons, why)
				} else {
					c.Bad("C49.waitgroup", cons, c.instrPos(in), fmt.Sprintf("the reader WaitGroup's %s is called outside its owner: the token accounting Control.Wait relies on no longer balances", o.Name()))
				}
			})
		}
		var ks []string
		for k, v := range counts {
			ks = append(ks, fmt.Sprintf("%s=%d", k, v))
		}
		sort.Strings(ks)
		c.Note("Interface.wg calls: %s", strings.Join(ks, " "))
	}

	// ---- Stop: slow teardown outside the state lock
	if fn := c.Func(Ref{"", "Control", "Stop"}); fn != nil {
		lf := lockFlow(fn, nil, nil)
		calls := callsIn(fn, Ref{"", "Control", "CloseAllTunnels"})
		if len(calls) == 0 {
			c.Unknown("C49.stop-lock", "Control.Stop:CloseAllTunnels", "call not found")
		}
		for k, ci := range calls {
			m, live := lf.mayAt(ci.(ssa.Instruction), lockKey("Control.stateLock"))
			if !live {
				continue
			}
			c.Check(m == lkNone, "C49.stop-lock", fmt.Sprintf("Control.Stop:CloseAllTunnels#%d", k), c.instrPos(ci.(ssa.Instruction)), "state lock not held", "CloseAllTunnels (sends a close to every peer, slow) runs with the state lock held: State(), RebindUDPServer and a second Stop block behind it")
		}
	}
	_ = types.Typ
}

// c49PathHitsAvoiding: is there a path entry -> to that executes an instruction satisfying hit and, after it, no instruction
// satisfying cut?
func c49PathHitsAvoiding(fn *ssa.Function, to ssa.Instruction, hit, cut func(ssa.Instruction) bool) bool {
	type st struct {
		b   *ssa.BasicBlock
		hit bool
	}
	seen := map[st]bool{}
	var walk func(b *ssa.BasicBlock, start int, h bool) bool
	walk = func(b *ssa.BasicBlock, start int, h bool) bool {
		for i := start; i < len(b.Instrs); i++ {
			in := b.Instrs[i]
			if in == to {
				return h
			}
			if cut(in) {
				h = false
			}
			if hit(in) {
				h = true
			}
		}
		for _, s := range b.Succs {
			k := st{s, h}
			if seen[k] {
				continue
			}
			seen[k] = true
			if walk(s, 0, h) {
				return true
			}
		}
		return false
	}
	return walk(fn.Blocks[0], 0, false)
}

// c49AvoidsFromBlock: some path from the start of block `from` reaches `to` without an instruction satisfying cut.
func c49AvoidsFromBlock(c *Ctx, fn *ssa.Function, from *ssa.BasicBlock, to ssa.Instruction, cut func(ssa.Instruction) bool) (bool, []string) {
	prev := map[*ssa.BasicBlock]*ssa.BasicBlock{from: nil}
	queue := []*ssa.BasicBlock{from}
	for len(queue) > 0 {
		b := queue[0]
		queue = queue[1:]
		blocked := false
		for _, in := range b.Instrs {
			if in == to {
				return true, c.blockPath(prev, b)
			}
			if cut(in) {
				blocked = true
				break
			}
		}
		if blocked {
			continue
		}
		for _, s := range b.Succs {
			if _, ok := prev[s]; !ok {
				prev[s] = b
				queue = append(queue, s)
			}
		}
	}
	return false, nil
}
