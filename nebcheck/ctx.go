package main

import (
	"encoding/json"
	"fmt"
	"os"
	"path/filepath"
	"sort"
	"strings"
	"time"
)

type Verdict string

const (
	Discharged Verdict = "discharged"
	Violated   Verdict = "violated"
	Undecided  Verdict = "undecided"
)

// Obligation is one rule instance evaluated on one construct of the tree.
// Key = Rule + "@" + Construct; never contains a line number.
type Obligation struct {
	Rule      string   `json:"rule"`
	Construct string   `json:"construct"`
	Verdict   Verdict  `json:"verdict"`
	Detail    string   `json:"detail,omitempty"`
	Pos       string   `json:"pos,omitempty"`
	Path      []string `json:"path,omitempty"`
	Config    string   `json:"config,omitempty"`
	Known     bool     `json:"known_finding,omitempty"`
}

func (o *Obligation) Key() string { return o.Rule + "@" + o.Construct }

type KnownFinding struct {
	Property  string `json:"property"`
	Rule      string `json:"rule"`
	Construct string `json:"construct"`
	What      string `json:"what"`
	Status    string `json:"status"` // known | fixed
	Commit    string `json:"commit,omitempty"`
}

// Ctx is the per-run context of one property check.
type Ctx struct {
	Prop    string
	Tier    string
	Seed    int
	P       *Program // current program (rules read it)
	Obs     []*Obligation
	obIndex map[string]*Obligation
	Notes   []string          // what was analysed (printed + evidence)
	Counts  map[string]int    // instance counters per rule
	Floors  map[string]int    // rule -> minimum instance count
	Rules   map[string]string // rule id -> description of rule applied
	Assume  []string
	Funcs   map[string]bool // functions visited
	Configs []string
	start   time.Time
	Canary  []CanaryResult
	quiet   bool
	acceptedTypes map[int64]bool
}

type CanaryResult struct {
	Name     string `json:"name"`
	Rule     string `json:"rule"`
	Outcome  string `json:"outcome"` // caught | MISSED | skipped
	Reported string `json:"reported,omitempty"`
}

func NewCtx(prop, tier string, seed int) *Ctx {
	return &Ctx{Prop: prop, Tier: tier, Seed: seed, obIndex: map[string]*Obligation{}, Counts: map[string]int{},
		Floors: map[string]int{}, Rules: map[string]string{}, Funcs: map[string]bool{}, start: time.Now()}
}

// Rule registers the description of a rule (shown in evidence) and optionally a floor.
func (c *Ctx) Rule(id, desc string, floor int) {
	c.Rules[id] = desc
	if floor > 0 {
		c.Floors[id] = floor
	}
}

func (c *Ctx) add(rule, construct string, v Verdict, pos, detail string, path []string) *Obligation {
	key := rule + "@" + construct
	if o, ok := c.obIndex[key+"#"+c.cfgName()]; ok {
		// same obligation reported twice in one config: keep the worst verdict
		if rank(v) > rank(o.Verdict) {
			o.Verdict, o.Pos, o.Detail, o.Path = v, pos, detail, path
		}
		return o
	}
	o := &Obligation{Rule: rule, Construct: construct, Verdict: v, Pos: pos, Detail: detail, Path: path, Config: c.cfgName()}
	c.obIndex[key+"#"+c.cfgName()] = o
	c.Obs = append(c.Obs, o)
	c.Counts[rule]++
	return o
}

func rank(v Verdict) int {
	switch v {
	case Violated:
		return 2
	case Undecided:
		return 1
	}
	return 0
}

func (c *Ctx) cfgName() string {
	if c.P == nil {
		return "default"
	}
	return c.P.Config.Name
}

func (c *Ctx) OK(rule, construct, detail string) { c.add(rule, construct, Discharged, "", detail, nil) }
func (c *Ctx) Bad(rule, construct, pos, detail string, path ...string) {
	c.add(rule, construct, Violated, pos, detail, path)
}
func (c *Ctx) Unknown(rule, construct, detail string) {
	c.add(rule, construct, Undecided, "", detail, nil)
}

// Check records discharged if ok, else violated.
func (c *Ctx) Check(ok bool, rule, construct, pos, okDetail, badDetail string) bool {
	if ok {
		c.OK(rule, construct, okDetail)
	} else {
		c.Bad(rule, construct, pos, badDetail)
	}
	return ok
}

func (c *Ctx) Note(format string, a ...any) { c.Notes = append(c.Notes, fmt.Sprintf(format, a...)) }

func verifDir() string {
	if d := os.Getenv("NEBCHECK_VERIF"); d != "" {
		return d
	}
	return "/verif"
}

func loadKnown() ([]KnownFinding, error) {
	b, err := os.ReadFile(filepath.Join(verifDir(), "known_findings.json"))
	if err != nil {
		if os.IsNotExist(err) {
			return nil, nil
		}
		return nil, err
	}
	var k []KnownFinding
	if err := json.Unmarshal(b, &k); err != nil {
		return nil, fmt.Errorf("known_findings.json: %v", err)
	}
	return k, nil
}

// Finish prints the report, writes evidence and replay files, and returns the exit code.
func (c *Ctx) Finish(level, explanation string) int {
	known, kerr := loadKnown()
	if kerr != nil {
		c.Unknown("engine", "known_findings", kerr.Error())
	}
	for rule, floor := range c.Floors {
		if c.Counts[rule] < floor {
			c.Unknown(rule, "floor", fmt.Sprintf("only %d instances found, %d confirmed by reading: the rule no longer sees what it is meant to check", c.Counts[rule], floor))
		}
	}
	sort.SliceStable(c.Obs, func(i, j int) bool {
		if c.Obs[i].Key() != c.Obs[j].Key() {
			return c.Obs[i].Key() < c.Obs[j].Key()
		}
		return c.Obs[i].Config < c.Obs[j].Config
	})
	nViol, nUndec, nDis, nKnown := 0, 0, 0, 0
	outDir := filepath.Join(verifDir(), "out", c.Prop)
	os.RemoveAll(outDir)
	var lines []string
	seenKnown := map[string]bool{}
	for _, o := range c.Obs {
		switch o.Verdict {
		case Discharged:
			nDis++
		case Undecided:
			nUndec++
			lines = append(lines, fmt.Sprintf("UNDECIDED property=%s rule=%s construct=%s: %s", c.Prop, o.Rule, o.Construct, o.Detail))
		case Violated:
			isKnown := false
			for _, k := range known {
				if k.Status == "known" && k.Property == c.Prop && k.Rule == o.Rule && k.Construct == o.Construct {
					isKnown = true
					o.Known = true
					if !seenKnown[o.Key()] {
						seenKnown[o.Key()] = true
						lines = append(lines, fmt.Sprintf("KNOWN-FINDING: property=%s %s [%s @ %s, %s]", c.Prop, k.What, o.Rule, o.Construct, o.Pos))
					}
				}
			}
			if isKnown {
				nKnown++
				continue
			}
			nViol++
			os.MkdirAll(outDir, 0o755)
			rp := filepath.Join(outDir, fmt.Sprintf("%d.json", nViol))
			b, _ := json.MarshalIndent(map[string]any{"property": c.Prop, "obligation": o, "tier": c.Tier}, "", " ")
			os.WriteFile(rp, b, 0o644)
			lines = append(lines, fmt.Sprintf("  rule=%s construct=%s at %s [%s]: %s", o.Rule, o.Construct, o.Pos, o.Config, o.Detail))
			if len(o.Path) > 0 {
				lines = append(lines, "    path: "+strings.Join(o.Path, " -> "))
			}
			lines = append(lines, fmt.Sprintf("VIOLATION property=%s replay=%s", c.Prop, rp))
		}
	}
	wall := time.Since(c.start).Seconds()
	if !c.quiet {
		fmt.Printf("nebcheck %s tier=%s configs=%v: %d obligations, %d discharged, %d violated, %d known-finding, %d undecided, %d functions visited (%.1fs)\n",
			c.Prop, c.Tier, c.Configs, len(c.Obs), nDis, nViol, nKnown, nUndec, len(c.Funcs), wall)
		var rids []string
		for r := range c.Rules {
			rids = append(rids, r)
		}
		sort.Strings(rids)
		for _, r := range rids {
			fmt.Printf("  rule %-28s instances=%-3d floor=%-3d %s\n", r, c.Counts[r], c.Floors[r], c.Rules[r])
		}
		for _, n := range c.Notes {
			fmt.Println("  note:", n)
		}
		for _, cr := range c.Canary {
			fmt.Printf("  canary %-40s %s %s\n", cr.Name, cr.Outcome, cr.Reported)
		}
		for _, l := range lines {
			fmt.Println(l)
		}
	}
	c.writeEvidence(level, explanation, nDis, nViol, nKnown, nUndec, wall)
	if nViol > 0 {
		return 1
	}
	if nUndec > 0 {
		return 2
	}
	return 0
}

func (c *Ctx) writeEvidence(level, explanation string, nDis, nViol, nKnown, nUndec int, wall float64) {
	type sample struct {
		Rule      string `json:"rule"`
		Construct string `json:"construct"`
		Verdict   string `json:"verdict"`
		Detail    string `json:"detail,omitempty"`
		Config    string `json:"config,omitempty"`
	}
	var samples []sample
	distinct := map[string]bool{}
	for _, o := range c.Obs {
		distinct[o.Key()] = true
		if len(samples) < 400 {
			samples = append(samples, sample{o.Rule, o.Construct, string(o.Verdict), o.Detail, o.Config})
		}
	}
	var funcs []string
	for f := range c.Funcs {
		funcs = append(funcs, f)
	}
	sort.Strings(funcs)
	pkgs := []string{}
	files := 0
	if c.P != nil {
		for _, pk := range c.P.Pkgs {
			pkgs = append(pkgs, pk.PkgPath)
		}
		files = c.P.Files
	}
	cov := map[string]any{
		"explanation":         explanation,
		"obligations":         len(c.Obs),
		"discharged":          nDis,
		"violated":            nViol,
		"known_findings":      nKnown,
		"undecided":           nUndec,
		"evaluations":         len(c.Obs),
		"distinct_nontrivial": len(distinct),
		"rule":                "one obligation per (rule, construct, build configuration); distinct = distinct rule@construct keys; every obligation is non-trivial (it names a construct resolved in the current tree)",
		"samples":             samples,
		"rules_applied":       c.Rules,
		"rule_instances":      c.Counts,
		"rule_floors":         c.Floors,
		"packages_analysed":   pkgs,
		"files_analysed":      files,
		"functions_visited":   funcs,
		"build_configs":       c.Configs,
		"notes":               c.Notes,
		"canaries":            c.Canary,
		"checker_cmd":         strings.Join(os.Args, " "),
		"trusted_base":        []string{"go/types", "golang.org/x/tools/go/ssa", "golang.org/x/tools/go/packages", "rule tables in /verif/nebcheck"},
		"exhaustive":          true,
	}
	ev := map[string]any{
		"property_id": c.Prop,
		"tier":        c.Tier,
		"seed":        c.Seed,
		"level":       level,
		"coverage":    cov,
		"assumptions": c.Assume,
		"wall_s":      wall,
		"violations":  nViol,
	}
	dir := filepath.Join(verifDir(), "evidence")
	os.MkdirAll(dir, 0o755)
	b, _ := json.MarshalIndent(ev, "", " ")
	if err := os.WriteFile(filepath.Join(dir, c.Prop+".json"), b, 0o644); err != nil {
		fmt.Fprintln(os.Stderr, "evidence:", err)
	}
}
