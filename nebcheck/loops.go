package main

import "golang.org/x/tools/go/ssa"

// natLoop is a natural loop: header and body blocks.
type natLoop struct {
	Header *ssa.BasicBlock
	Body   map[*ssa.BasicBlock]bool
}

// naturalLoops computes the natural loops of fn (one per back edge, merged per header).
func naturalLoops(fn *ssa.Function) []*natLoop {
	byHeader := map[*ssa.BasicBlock]*natLoop{}
	var order []*ssa.BasicBlock
	for _, b := range fn.Blocks {
		for _, s := range b.Succs {
			if s.Dominates(b) { // back edge b -> s
				l := byHeader[s]
				if l == nil {
					l = &natLoop{Header: s, Body: map[*ssa.BasicBlock]bool{s: true}}
					byHeader[s] = l
					order = append(order, s)
				}
				// nodes reaching b without passing s
				stack := []*ssa.BasicBlock{b}
				for len(stack) > 0 {
					n := stack[len(stack)-1]
					stack = stack[:len(stack)-1]
					if l.Body[n] {
						continue
					}
					l.Body[n] = true
					stack = append(stack, n.Preds...)
				}
			}
		}
	}
	var out []*natLoop
	for _, h := range order {
		out = append(out, byHeader[h])
	}
	return out
}

// innermostLoop returns the smallest natural loop containing b, or nil.
func innermostLoop(loops []*natLoop, b *ssa.BasicBlock) *natLoop {
	var best *natLoop
	for _, l := range loops {
		if l.Body[b] && (best == nil || len(l.Body) < len(best.Body)) {
			best = l
		}
	}
	return best
}

// inAnyLoop reports whether instruction's block lies in a loop.
func inAnyLoop(loops []*natLoop, b *ssa.BasicBlock) bool { return innermostLoop(loops, b) != nil }

// staticCallees returns the functions fn calls statically (incl. closures it creates).
func staticCallees(fn *ssa.Function) []*ssa.Function {
	var out []*ssa.Function
	seen := map[*ssa.Function]bool{}
	for _, f := range funcsWithAnon(fn) {
		eachInstr(f, func(in ssa.Instruction) {
			if ci, ok := in.(ssa.CallInstruction); ok {
				if callee := ci.Common().StaticCallee(); callee != nil && !seen[callee] {
					seen[callee] = true
					out = append(out, callee)
				}
			}
		})
	}
	return out
}

// reachableFuncs: closure over static callees, restricted by keep (e.g. same package).
func reachableFuncs(roots []*ssa.Function, keep func(*ssa.Function) bool) []*ssa.Function {
	seen := map[*ssa.Function]bool{}
	var out []*ssa.Function
	var walk func(f *ssa.Function)
	walk = func(f *ssa.Function) {
		if f == nil || seen[f] || f.Blocks == nil || !keep(f) {
			return
		}
		seen[f] = true
		out = append(out, f)
		for _, a := range f.AnonFuncs {
			walk(a)
		}
		for _, cal := range staticCallees(f) {
			walk(cal)
		}
	}
	for _, r := range roots {
		walk(r)
	}
	return out
}
