package main

import (
	"fmt"
	"go/token"
	"go/types"
	"sort"

	"golang.org/x/tools/go/ssa"
)

func init() {
	register(&Property{
		ID: "C46", Title: "CPU pinning choices are valid and stable",
		Patterns:    []string{"./cpupick"},
		Technique:   "abstract interpretation of slice contents (every element of a result list is an element of the candidate list; second instance: the head of the list holds no CPU of CPU 0's core), closed over callee summaries from Default down to the sysfs filters; per-iteration consumption count and forward list flow for completeness / duplicate freedom; rotation-pair recognition; order of the final concatenation; guard polarity of the NUMA eligibility test and modulo-index bounds; influence slices (data + control) for determinism; error-guard dominance and range grammar of parseCPUList",
		LevelText:   "Structural necessary conditions on every path of cpupick.Default / pickCandidates / arrange / perfCPUs* / parseCPUList: every CPU in a returned list is an element of the allowed set (the only constant ever added is 0, and only after a candidate equal to 0 was seen); in every loop over a candidate list each candidate is placed in exactly one list (or recorded as CPU 0) and the loop never stops early; every list that received candidates flows into each return it can reach unless that return is guarded by the list being empty; candidate lists are only ever sub-sliced as the two complementary halves of one rotation; the returned list ends with the tail list, the tail list ends with CPU 0, and nothing placed before the tail can be CPU 0 or share its core; a NUMA node holding exactly `routines` candidates is eligible, and both modulo indexes are taken modulo the length of the list they index, which is tested non-empty; nothing but the arguments, the allowed set and sysfs contents influences the result (no clock, random source, map iteration order, shared state); parseCPUList uses a parsed number only after its error was checked, reports the error, reads `a-b` with a before and b after the dash, rejects b < a and includes both ends.",
		LevelNote:   "Not decided: that the allowed set itself is duplicate free (util.AllowedCPUs), the mapping from sysfs files to nodes/cores (value level), the cpulist token grammar beyond the rules above (strconv.Atoi accepts a leading '+', which the kernel does not emit or accept; ranges wider than 8192 are refused), off-Linux stubs. Trusts go/types and go/ssa.",
		Explanation: "K11 element-provenance abstraction with callee summaries, K5 exactly-one consumption per iteration, forward flow of filled lists to returns, K7 rotation pair, K1 order of concatenation and zero-core guards, K8 `>=` eligibility, K16-style modulo-by-own-length, K14 determinism by influence slices, K12/K1 Atoi error dominance and range shape",
		Run:         runC46,
		Canaries: func(c *Ctx) []Canary {
			return []Canary{
				{Name: "cpu0-appended-when-only-its-sibling-is-allowed", File: "cpupick/cpupick.go", Old: "\tif hasZero {\n\t\tzeroTail = append(zeroTail, 0)\n", New: "\tif hasZero || len(zeroTail) > 0 {\n\t\tzeroTail = append(zeroTail, 0)\n", Rule: "C46.subset"},
				{Name: "pcore-filter-walks-the-mask-not-the-allowed-set", File: "cpupick/perf_linux.go", Old: "\tfor _, cpu := range allowed {\n\t\tif pcore[cpu] {", New: "\tfor _, cpu := range set {\n\t\tif pcore[cpu] {", Rule: "C46.subset"},
				{Name: "siblings-dropped", File: "cpupick/cpupick.go", Old: "\tout = append(out, siblings...)\n", New: "", Rule: "C46.complete"},
				{Name: "sibling-also-emitted-first", File: "cpupick/cpupick.go", Old: "\t\t\tsiblings = append(siblings, c)\n\t\t\tcontinue\n", New: "\t\t\tsiblings = append(siblings, c)\n", Rule: "C46.complete"},
				{Name: "rotation-loses-one", File: "cpupick/cpupick.go", Old: "rot = append(rot, preferred[off:]...)", New: "rot = append(rot, preferred[off+1:]...)", Rule: "C46.complete"},
				{Name: "truncate-to-routines", File: "cpupick/cpupick.go", Old: "\tout = append(out, zeroTail...)\n\treturn out\n", New: "\tout = append(out, zeroTail...)\n\treturn out[:min(routines, len(out))]\n", Rule: "C46.complete"},
				{Name: "tail-before-siblings", File: "cpupick/cpupick.go", Old: "\tout = append(out, siblings...)\n\tout = append(out, zeroTail...)\n", New: "\tout = append(out, zeroTail...)\n\tout = append(out, siblings...)\n", Rule: "C46.zero-last"},
				{Name: "zero-core-sibling-not-demoted", File: "cpupick/cpupick.go", Old: "\t\tcase topo.zeroCore >= 0 && topo.coreOf[c] == topo.zeroCore:\n\t\t\tzeroTail = append(zeroTail, c)\n", New: "", Rule: "C46.zero-last"},
				{Name: "cpu0-placed-in-tail-as-met", File: "cpupick/cpupick.go", Old: "\thasZero := false\n\tfor _, c := range cands {\n\t\tswitch {\n\t\tcase c == 0:\n\t\t\thasZero = true\n\t\tcase topo.zeroCore >= 0 && topo.coreOf[c] == topo.zeroCore:\n\t\t\tzeroTail = append(zeroTail, c)\n\t\tdefault:\n\t\t\tpreferred = append(preferred, c)\n\t\t}\n\t}\n\tif hasZero {\n\t\tzeroTail = append(zeroTail, 0)\n\t}\n", New: "\tfor _, c := range cands {\n\t\tswitch {\n\t\tcase c == 0:\n\t\t\tzeroTail = append(zeroTail, c)\n\t\tcase topo.zeroCore >= 0 && topo.coreOf[c] == topo.zeroCore:\n\t\t\tzeroTail = append(zeroTail, c)\n\t\tdefault:\n\t\t\tpreferred = append(preferred, c)\n\t\t}\n\t}\n", Rule: "C46.zero-last"},
				{Name: "exact-fit-node-not-eligible", File: "cpupick/cpupick.go", Old: "if len(byNode[n]) >= routines {", New: "if len(byNode[n]) > routines {", Rule: "C46.node-choice"},
				{Name: "node-index-modulo-wrong-list", File: "cpupick/cpupick.go", Old: "eligible[int(h%uint64(len(eligible)))]", New: "eligible[int(h%uint64(len(nodes)))]", Rule: "C46.node-choice"},
				{Name: "empty-preferred-not-guarded", File: "cpupick/cpupick.go", Old: "\tif len(preferred) == 0 {\n\t\treturn zeroTail // CPU 0's core is all we have\n\t}\n", New: "", Rule: "C46.node-choice"},
				{Name: "node-order-from-map", File: "cpupick/cpupick.go", Old: "\tfor _, n := range nodes {\n", New: "\tfor n := range byNode {\n", Rule: "C46.stable"},
				{Name: "cpulist-range-excludes-end", File: "cpupick/perf_linux.go", Old: "for v := a; v <= b; v++ {", New: "for v := a; v < b; v++ {", Rule: "C46.cpulist"},
				{Name: "cpulist-bad-entry-skipped", File: "cpupick/perf_linux.go", Old: "\t\ta, err := strconv.Atoi(lo)\n\t\tif err != nil {\n\t\t\treturn nil, fmt.Errorf(\"bad cpulist entry %q: %w\", part, err)\n\t\t}\n", New: "\t\ta, err := strconv.Atoi(lo)\n\t\tif err != nil {\n\t\t\tcontinue\n\t\t}\n", Rule: "C46.cpulist"},
				{Name: "cpulist-reversed-range-accepted", File: "cpupick/perf_linux.go", Old: "if b < a || b-a > 8192 {", New: "if b-a > 8192 {", Rule: "C46.cpulist"},
			}
		},
	})
}

func c46IsIntSlice(t types.Type) bool {
	s, ok := t.Underlying().(*types.Slice)
	if !ok {
		return false
	}
	b, ok := s.Elem().Underlying().(*types.Basic)
	return ok && b.Kind() == types.Int
}

// c46Varargs splits the variadic argument of append(a, ...): the element values of `append(a, x, y)`
// (go/ssa stores them into a fresh array and slices it) or the slice spread by `append(a, s...)`.
func c46Varargs(call *ssa.Call) (elems []ssa.Value, spread ssa.Value) {
	if builtinName(call) != "append" || len(call.Call.Args) != 2 {
		return nil, nil
	}
	v := call.Call.Args[1]
	if sl, ok := v.(*ssa.Slice); ok {
		if al, ok := sl.X.(*ssa.Alloc); ok {
			if _, isArr := al.Type().Underlying().(*types.Pointer).Elem().Underlying().(*types.Array); isArr && sl.Low == nil && sl.High == nil {
				for _, st := range g12StoresTo(al) {
					elems = append(elems, st.Val)
				}
				return elems, nil
			}
		}
	}
	return nil, v
}

// ---------------------------------------------------------------------------------------
// abstract interpretation of list contents: "every element of this []int satisfies P"

type c46Abs struct {
	c  *Ctx
	fn *ssa.Function
	// root: base-case lists whose elements satisfy P by assumption / by a callee summary
	root func(v ssa.Value) bool
	// okAppend: an element appended by `call` satisfies P for a reason local to the call (guards)
	okAppend func(call *ssa.Call, e ssa.Value) bool
	memo     map[ssa.Value]int8 // 1 in progress (assumed: greatest fixpoint over phis), 2 ok, 3 bad
	why      string
	at       ssa.Value
	depth    int
	log      []ssa.Value
	sticky   bool // keep the first explanation (a failing callee chain) over later generic ones
}

func (a *c46Abs) fail(v ssa.Value, why string) bool {
	if !a.sticky {
		a.why, a.at = why, v
	}
	return false
}

func (a *c46Abs) slice(v ssa.Value) bool {
	if ct, ok := v.(*ssa.ChangeType); ok {
		v = ct.X
	}
	if m := a.memo[v]; m != 0 {
		return m != 3
	}
	a.memo[v] = 1
	a.depth++
	ok := a.slice1(v)
	a.depth--
	if ok {
		a.memo[v] = 2
		a.log = append(a.log, v)
	} else {
		a.memo[v] = 3
	}
	if a.depth == 0 {
		if !ok {
			// positive answers inside a failed query may rest on the optimistic assumption made for
			// a value that turned out bad: forget them (they are recomputed when asked again)
			for _, x := range a.log {
				if a.memo[x] == 2 {
					delete(a.memo, x)
				}
			}
		}
		a.log = a.log[:0]
	}
	return ok
}

func (a *c46Abs) slice1(v ssa.Value) bool {
	if a.root != nil && a.root(v) {
		return true
	}
	switch x := v.(type) {
	case *ssa.Const:
		return x.Value == nil // nil slice
	case *ssa.MakeSlice:
		if k, ok := constInt(x.Len); ok && k == 0 {
			return true
		}
		return a.fail(v, "make with a non-zero length holds zero values that are not candidates")
	case *ssa.Slice:
		return a.slice(x.X)
	case *ssa.Phi:
		for _, e := range x.Edges {
			if !a.slice(e) {
				return false
			}
		}
		return true
	case *ssa.Call:
		if builtinName(x) == "append" {
			if !a.slice(x.Call.Args[0]) {
				return false
			}
			elems, spread := c46Varargs(x)
			if spread != nil {
				return a.slice(spread)
			}
			for _, e := range elems {
				if a.okAppend != nil && a.okAppend(x, e) {
					continue
				}
				if !a.elem(e) {
					return false
				}
			}
			return true
		}
		return a.fail(v, "list returned by a call without a subset summary")
	case *ssa.Extract:
		if lk, ok := x.Tuple.(*ssa.Lookup); ok && x.Index == 0 {
			return a.mapVals(lk.X)
		}
		return a.fail(v, "list returned by a call without a subset summary")
	case *ssa.Lookup:
		return a.mapVals(x.X)
	case *ssa.UnOp:
		if x.Op == token.MUL {
			if sts := g12StoresTo(x.X); len(sts) > 0 {
				for _, st := range sts {
					if !a.slice(st.Val) {
						return false
					}
				}
				return true
			}
		}
	}
	return a.fail(v, "list of unrecognised origin")
}

// mapVals: every list stored in the (function-local) map satisfies the invariant.
func (a *c46Abs) mapVals(m ssa.Value) bool {
	mm, ok := m.(*ssa.MakeMap)
	if !ok {
		return a.fail(m, "list read from a map that is not local to the function")
	}
	if refs := mm.Referrers(); refs != nil {
		for _, r := range *refs {
			if mu, ok := r.(*ssa.MapUpdate); ok && mu.Map == ssa.Value(mm) && !a.slice(mu.Value) {
				return false
			}
		}
	}
	return true
}

func (a *c46Abs) elem(v ssa.Value) bool {
	switch x := v.(type) {
	case *ssa.UnOp:
		if x.Op == token.MUL {
			if ia, ok := x.X.(*ssa.IndexAddr); ok {
				if _, isSl := ia.X.Type().Underlying().(*types.Slice); isSl {
					return a.slice(ia.X)
				}
			}
		}
	case *ssa.Phi:
		if m := a.memo[v]; m != 0 {
			return m != 3
		}
		a.memo[v] = 1
		for _, e := range x.Edges {
			if !a.elem(e) {
				a.memo[v] = 3
				return false
			}
		}
		a.memo[v] = 2
		return true
	}
	return a.fail(v, "appended value is not an element of a candidate list")
}

// ---------------------------------------------------------------------------------------

type c46State struct {
	c        *Ctx
	pkg      string
	sum      map[*ssa.Function]int8 // subset summaries: 1 in progress, 2 holds, 3 fails
	sumWhy   map[*ssa.Function]string
	zeroSite map[*ssa.Function][]*ssa.Call // appends of the constant 0 accepted under the flag guard
	abs      map[*ssa.Function]*c46Abs
}

// elemIsZero: guard "candidate == 0" (pass on the equal side).
func c46ElemIsZero(isElem func(ssa.Value) bool) Guard {
	return gCmp("candidate == 0", isElem, isIntConst(0), mustEqual)
}

// flagPhi: a bool that is true only after a candidate equal to 0 was seen.
func (s *c46State) flagPhi(a *c46Abs, v ssa.Value, seen map[ssa.Value]bool) bool {
	phi, ok := v.(*ssa.Phi)
	if !ok || seen[v] {
		return ok
	}
	seen[v] = true
	gz := c46ElemIsZero(a.elem)
	for k, e := range phi.Edges {
		if b, isC := boolConst(e); isC {
			if !b {
				continue
			}
			pred := phi.Block().Preds[k]
			if ok, n, _ := s.c.mustPass(a.fn, Sink{Instr: pred.Instrs[len(pred.Instrs)-1]}, gz); !ok || n == 0 {
				return false
			}
			continue
		}
		if !s.flagPhi(a, e, seen) {
			return false
		}
	}
	return true
}

func (s *c46State) flagGuard(a *c46Abs) Guard {
	return Guard{Name: "a candidate equal to 0 was seen", Match: func(cd Cond, _ *ssa.If) (bool, bool) {
		if cd.Kind != CondBool || !s.flagPhi(a, cd.Base, map[ssa.Value]bool{}) {
			return false, false
		}
		return true, !cd.Neg
	}}
}

// newAbs builds the subset analysis of fn: roots are fn's own []int parameters, the allowed set
// returned by util.AllowedCPUs, and results of package callees whose own summary holds and whose
// []int arguments satisfy the invariant here.
func (s *c46State) newAbs(fn *ssa.Function) *c46Abs {
	a := &c46Abs{c: s.c, fn: fn, memo: map[ssa.Value]int8{}}
	a.root = func(v ssa.Value) bool {
		if p, ok := v.(*ssa.Parameter); ok {
			return p.Parent() == fn && c46IsIntSlice(p.Type())
		}
		call, _ := callOf(v)
		if call == nil || !c46IsIntSlice(v.Type()) {
			return false
		}
		if matchFunc(calleeObj(call), Ref{"util", "", "AllowedCPUs"}) {
			return true // the allowed set itself
		}
		g := call.Call.StaticCallee()
		if g == nil || g.Blocks == nil || pkgPathOf(g) != s.pkg {
			return false
		}
		if !s.summary(g) {
			a.fail(v, "list returned by "+fnName(g)+", which does not keep to its arguments <- "+s.sumWhy[g])
			a.sticky = true
			return false
		}
		for _, arg := range call.Call.Args {
			if c46IsIntSlice(arg.Type()) && !a.slice(arg) {
				return false
			}
		}
		return true
	}
	a.okAppend = func(call *ssa.Call, e ssa.Value) bool {
		if !isIntConst(0)(e) {
			return false
		}
		if ok, n, _ := s.c.mustPass(fn, Sink{Instr: call}, s.flagGuard(a)); ok && n > 0 {
			dup := false
			for _, z := range s.zeroSite[fn] {
				dup = dup || z == call
			}
			if !dup {
				s.zeroSite[fn] = append(s.zeroSite[fn], call)
			}
			return true
		}
		return false
	}
	s.abs[fn] = a
	return a
}

// summary: every []int result of g is a sub-multiset of g's []int parameters (plus CPU 0 when seen).
func (s *c46State) summary(g *ssa.Function) bool {
	if m := s.sum[g]; m != 0 {
		return m == 2
	}
	s.sum[g] = 1
	s.c.Funcs[g.String()] = true
	a := s.newAbs(g)
	ok := true
	for _, r := range g12Returns(g) {
		for _, res := range r.Results {
			if c46IsIntSlice(res.Type()) && !a.slice(res) && ok {
				ok = false
				pos := s.c.instrPos(r)
				if in, isIn := a.at.(ssa.Instruction); isIn {
					pos = s.c.instrPos(in)
				}
				s.sumWhy[g] = fnName(g) + " at " + pos + ": " + a.why
			}
		}
	}
	if ok {
		s.sum[g] = 2
		s.c.OK("C46.subset", fnName(g)+":result", "every element of every returned list is an element of a []int argument / of the allowed set (or CPU 0 after it was seen)")
	} else {
		// reported by the anchored function that depends on it (a callee that never claimed to
		// preserve its arguments, like parseCPUList, is not itself at fault)
		s.sum[g] = 3
	}
	return ok
}

// claim: the anchored function must satisfy the subset summary.
func (s *c46State) claim(g *ssa.Function) {
	if !s.summary(g) {
		s.c.Bad("C46.subset", fnName(g)+":result", s.c.P.Pos(g.Pos()), "a list returned by "+fnName(g)+" can hold a value that is not one of the CPUs it was given ("+s.sumWhy[g]+"): a reader thread would be pinned to a CPU outside the allowed set")
	}
}

func runC46(c *Ctx) {
	c.Rule("C46.subset", "K11: every element of a list returned by Default, pickCandidates, arrange and the perf filters is an element of the list(s) passed in / of util.AllowedCPUs(); the constant 0 is added only after a candidate equal to 0 was seen", 4)
	c.Rule("C46.complete", "K5/K7: in each loop over a candidate list every iteration places the candidate exactly once and no iteration is skipped; every list that received candidates reaches each return it can reach (or is tested empty); candidate lists are sub-sliced only as the two halves of one rotation", 7)
	c.Rule("C46.zero-last", "K1: the returned list ends with the tail list, whose last element is CPU 0; nothing is appended to the tail after CPU 0; candidates placed ahead of the tail passed `!= 0` and `not on CPU 0's core`", 3)
	c.Rule("C46.node-choice", "K8/K16: a node is eligible when len(candidates of node) >= routines; modulo indexes are taken modulo the length of the very list they index, which was tested non-empty", 3)
	c.Rule("C46.stable", "K14: nothing but the arguments, the allowed set and sysfs contents influences Default / arrange / pickCandidates / splitmix64 and their callees: no clock, random source, map iteration order, shared or process state", 4)
	c.Rule("C46.cpulist", "K12/K1: parseCPUList uses the number from strconv.Atoi only after its error was checked, reports the error to its caller, reads a range as before-dash..after-dash inclusive with step 1 and refuses after < before", 5)

	pkg := PkgPath("cpupick")
	arrange := c.Func(Ref{"cpupick", "", "arrange"})
	pick := c.Func(Ref{"cpupick", "", "pickCandidates"})
	mix := c.Func(Ref{"cpupick", "", "splitmix64"})
	def := c.Func(Ref{"cpupick", "", "Default"})
	parse := c.Func(Ref{"cpupick", "", "parseCPUList"})
	fZeroCore := c.Field("cpupick", "topology", "zeroCore")
	fCoreOf := c.Field("cpupick", "topology", "coreOf")
	if arrange == nil || pick == nil || mix == nil || def == nil || parse == nil || fZeroCore == nil || fCoreOf == nil {
		return
	}
	// ---- determinism
	g12PureClosure(c, []*ssa.Function{def, arrange, pick, mix}, g12PureOpts{Rule: "C46.stable", GlobalWriter: g12GlobalWriter(c),
		Env: func(o *types.Func) string {
			switch {
			case matchFunc(o, Ref{"util", "", "AllowedCPUs"}):
				return "the allowed set is an input of the property"
			case matchFunc(o, Ref{"os", "", "ReadFile"}), matchFunc(o, Ref{"os", "", "ReadDir"}):
				return "sysfs contents are the topology the property is relative to (ReadDir sorts by name)"
			case o.Pkg() != nil && o.Pkg().Path() == "io/fs" && o.Name() == "Name":
				return "name of a sysfs directory entry"
			}
			return ""
		}})
	// ---- subset
	st := &c46State{c: c, pkg: pkg, sum: map[*ssa.Function]int8{}, sumWhy: map[*ssa.Function]string{}, zeroSite: map[*ssa.Function][]*ssa.Call{}, abs: map[*ssa.Function]*c46Abs{}}
	for _, f := range []*ssa.Function{def, arrange, pick} {
		st.claim(f)
	}
	if st.sum[arrange] == 2 {
		c46Arrange(c, st, arrange, fZeroCore, fCoreOf)
	}
	c46CPUList(c, parse)
}

// ---------------------------------------------------------------------------------------
// arrange: completeness, order, node choice

// c46Family: the SSA values that are successive states of one list variable (connected through
// phis and through append's first argument).
func c46Family(seed ssa.Value) map[ssa.Value]bool {
	fam := map[ssa.Value]bool{}
	var add func(v ssa.Value)
	add = func(v ssa.Value) {
		if v == nil || fam[v] || !c46IsIntSlice(v.Type()) {
			return
		}
		if _, isC := v.(*ssa.Const); isC {
			return
		}
		fam[v] = true
		switch x := v.(type) {
		case *ssa.Phi:
			for _, e := range x.Edges {
				add(e)
			}
		case *ssa.Call:
			if builtinName(x) == "append" {
				add(x.Call.Args[0])
			}
		}
		if refs := v.Referrers(); refs != nil {
			for _, r := range *refs {
				switch y := r.(type) {
				case *ssa.Phi:
					add(y)
				case *ssa.Call:
					if builtinName(y) == "append" && y.Call.Args[0] == v {
						add(y)
					}
				}
			}
		}
	}
	add(seed)
	return fam
}

// c46Forward: lists (and returns) the contents of list v may flow into.
func c46Forward(v ssa.Value) (vals map[ssa.Value]bool, rets map[*ssa.Return]bool) {
	vals, rets = map[ssa.Value]bool{}, map[*ssa.Return]bool{}
	var list, elem func(v ssa.Value)
	elem = func(e ssa.Value) {
		if vals[e] {
			return
		}
		vals[e] = true
		if refs := e.Referrers(); refs != nil {
			for _, r := range *refs {
				switch y := r.(type) {
				case *ssa.Phi:
					elem(y)
				case *ssa.Store:
					// stored into the varargs array of an append
					if ia, ok := y.Addr.(*ssa.IndexAddr); ok && y.Val == e {
						if arr := ia.X.Referrers(); arr != nil {
							for _, q := range *arr {
								if sl, ok := q.(*ssa.Slice); ok {
									list(sl)
								}
							}
						}
					}
				}
			}
		}
	}
	list = func(v ssa.Value) {
		if vals[v] {
			return
		}
		vals[v] = true
		refs := v.Referrers()
		if refs == nil {
			return
		}
		for _, r := range *refs {
			switch y := r.(type) {
			case *ssa.Phi:
				list(y)
			case *ssa.ChangeType:
				list(y)
			case *ssa.Slice:
				list(y)
			case *ssa.Call:
				if builtinName(y) == "append" {
					list(y)
				} else if g := y.Call.StaticCallee(); g != nil && g.Blocks != nil {
					// handed to a helper: may come back in any list it returns
					if c46IsIntSlice(y.Type()) {
						list(y)
					} else if er := y.Referrers(); er != nil {
						for _, q := range *er {
							if ex, ok := q.(*ssa.Extract); ok && c46IsIntSlice(ex.Type()) {
								list(ex)
							}
						}
					}
				}
			case *ssa.Return:
				rets[y] = true
			case *ssa.MapUpdate:
				if y.Value == v {
					if mr := y.Map.Referrers(); mr != nil {
						for _, q := range *mr {
							if lk, ok := q.(*ssa.Lookup); ok && lk.X == y.Map {
								if lk.CommaOk {
									if er := lk.Referrers(); er != nil {
										for _, ex := range *er {
											if e, ok := ex.(*ssa.Extract); ok && e.Index == 0 {
												list(e)
											}
										}
									}
								} else {
									list(lk)
								}
							}
						}
					}
				}
			case *ssa.IndexAddr:
				if er := y.Referrers(); er != nil {
					for _, q := range *er {
						if u, ok := q.(*ssa.UnOp); ok && u.Op == token.MUL {
							elem(u)
						}
					}
				}
			}
		}
	}
	list(v)
	return
}

// c46Complete: placement / flow / sub-slice rules on one list-building function; returns its fill
// sites. Applied to arrange and to every package function it hands a candidate list to and gets
// a list back from (extracted helpers).
func c46Complete(c *Ctx, st *c46State, fn *ssa.Function) []*ssa.Call {
	a := st.abs[fn]
	loops := naturalLoops(fn)
	name := fnName(fn)
	// ---- fill sites: appends that put a candidate (or the guarded constant 0) into a list
	var fills []*ssa.Call
	isZeroSite := map[*ssa.Call]bool{}
	for _, z := range st.zeroSite[fn] {
		isZeroSite[z] = true
	}
	eachInstr(fn, func(in ssa.Instruction) {
		call, ok := in.(*ssa.Call)
		if !ok {
			return
		}
		elems, _ := c46Varargs(call)
		for _, e := range elems {
			if a.elem(e) || isZeroSite[call] {
				fills = append(fills, call)
				return
			}
		}
	})
	// ---- (i) exactly one placement per iteration of every loop over a candidate list
	type candLoop struct {
		l    *natLoop
		elem map[ssa.Value]bool
	}
	byHeader := map[*ssa.BasicBlock]*candLoop{}
	var order []*ssa.BasicBlock
	eachInstr(fn, func(in ssa.Instruction) {
		ia, ok := in.(*ssa.IndexAddr)
		if !ok {
			return
		}
		if _, isSl := ia.X.Type().Underlying().(*types.Slice); !isSl || !c46IsIntSlice(ia.X.Type()) || !a.slice(ia.X) {
			return
		}
		ct, ok := g12CounterOf(ia.Index)
		if !ok {
			return
		}
		l := innermostLoop(loops, ct.Phi.Block())
		if l == nil || l.Header != ct.Phi.Block() {
			return
		}
		cl := byHeader[l.Header]
		if cl == nil {
			cl = &candLoop{l: l, elem: map[ssa.Value]bool{}}
			byHeader[l.Header] = cl
			order = append(order, l.Header)
			// whole list, in order: first 0, step 1, while idx < len(list)
			good := ct.FirstOK && ct.FirstK == 0 && ct.Step == 1 && ct.HasBound && ct.BoundOp == token.LSS &&
				isLenOf(func(v ssa.Value) bool { return v == ia.X })(ct.Bound)
			c.Check(good, "C46.complete", fmt.Sprintf("%s:loop#%d:whole-list", name, len(order)), c.instrPos(ia), "visits index 0..len-1 of the candidate list",
				"the loop over a candidate list does not visit every index 0..len-1: candidates at the skipped positions never reach the result")
		}
		if refs := ia.Referrers(); refs != nil {
			for _, r := range *refs {
				if u, ok := r.(*ssa.UnOp); ok && u.Op == token.MUL {
					cl.elem[u] = true
				}
			}
		}
	})
	for i, h := range order {
		cl := byHeader[h]
		cons := fmt.Sprintf("%s:loop#%d:one-placement", name, i+1)
		isE := func(v ssa.Value) bool { return cl.elem[v] }
		gz := c46ElemIsZero(isE)
		zeroEdges, _ := passEdges(fn, gz)
		countBlock := func(b *ssa.BasicBlock) int {
			n := 0
			for _, in := range b.Instrs {
				if call, ok := in.(*ssa.Call); ok {
					elems, _ := c46Varargs(call)
					for _, e := range elems {
						if cl.elem[e] {
							n++
						}
					}
				}
			}
			return n
		}
		minC, maxC, early, nested := 1<<30, -1, false, false
		var earlyAt *ssa.BasicBlock
		onPath := map[*ssa.BasicBlock]bool{}
		var dfs func(b *ssa.BasicBlock, n int)
		dfs = func(b *ssa.BasicBlock, n int) {
			if onPath[b] {
				nested = true
				return
			}
			onPath[b] = true
			defer delete(onPath, b)
			n += countBlock(b)
			for k, s := range b.Succs {
				m := n
				if zeroEdges[Edge{b, k}] && len(st.zeroSite[fn]) > 0 {
					m++ // recorded as "CPU 0 seen": placed later under the flag
				}
				switch {
				case s == h:
					if m < minC {
						minC = m
					}
					if m > maxC {
						maxC = m
					}
				case !cl.l.Body[s]:
					early, earlyAt = true, b
				default:
					dfs(s, m)
				}
			}
		}
		body := h.Succs[0]
		if !cl.l.Body[body] || len(h.Succs) != 2 {
			c.Unknown("C46.complete", cons, "unrecognised loop shape")
			continue
		}
		dfs(body, 0)
		switch {
		case nested:
			c.Unknown("C46.complete", cons, "inner loop in the body: placements per iteration not counted")
		case early:
			c.Bad("C46.complete", cons, c.instrPos(earlyAt.Instrs[len(earlyAt.Instrs)-1]), "the loop over a candidate list can be left before its last element: the remaining candidates never reach the result")
		case maxC < 0:
			c.Unknown("C46.complete", cons, "no iteration path found")
		case minC == 0 && maxC == 0:
			// a loop that only reads the candidates (e.g. filling a lookup set): not a placement loop
			c.OK("C46.complete", cons, "reads candidates without placing them")
		default:
			c.Check(minC == 1 && maxC == 1, "C46.complete", cons, c.instrPos(h.Instrs[0]), "every iteration path places the candidate exactly once",
				fmt.Sprintf("an iteration can place its candidate %d time(s) on one path and %d on another: a candidate is %s", minC, maxC,
					map[bool]string{true: "lost (the list no longer contains every candidate of the chosen node)", false: "emitted twice (two readers pinned to one CPU)"}[minC == 0]))
		}
	}
	// ---- (ii) every filled list reaches each return it can reach, or is tested empty
	rets := g12Returns(fn)
	for i, f := range fills {
		vals, reached := c46Forward(f)
		_, after := g12ReachFrom(f)
		emptyG := g12LenGuard("list is empty", func(v ssa.Value) bool { return vals[v] }, true)
		for j, r := range rets {
			if !after[r.Block()] && r.Block() != f.Block() {
				continue
			}
			cons := fmt.Sprintf("%s:fill#%d->return#%d", name, i+1, j+1)
			if reached[r] {
				c.OK("C46.complete", cons, "the filled list flows into this return")
				continue
			}
			if ok, n, _ := c.mustPass(fn, Sink{Instr: r}, emptyG); ok && n > 0 {
				c.OK("C46.complete", cons, "return guarded by the list being empty")
				continue
			}
			c.Bad("C46.complete", cons, c.instrPos(f), "candidates appended here never reach the list returned at "+c.instrPos(r)+" (and that return is not guarded by the list being empty): the result no longer contains every candidate")
		}
	}
	// ---- (iii) sub-slices of candidate lists: only the two halves of one rotation
	var subs []*ssa.Slice
	eachInstr(fn, func(in ssa.Instruction) {
		sl, ok := in.(*ssa.Slice)
		if !ok || !c46IsIntSlice(sl.X.Type()) || (sl.Low == nil && sl.High == nil) {
			return
		}
		if _, isSl := sl.X.Type().Underlying().(*types.Slice); isSl && a.slice(sl.X) {
			subs = append(subs, sl)
		}
	})
	used := map[*ssa.Slice]bool{}
	spreadInto := func(sl *ssa.Slice) *ssa.Call {
		if refs := sl.Referrers(); refs != nil && len(*refs) == 1 {
			if call, ok := (*refs)[0].(*ssa.Call); ok && builtinName(call) == "append" && call.Call.Args[1] == ssa.Value(sl) {
				return call
			}
		}
		return nil
	}
	np := 0
	for _, x := range subs {
		if used[x] || x.Low == nil || x.High != nil || x.Max != nil {
			continue
		}
		for _, y := range subs {
			if used[y] || y == x || y.X != x.X || y.Low != nil || y.Max != nil || y.High != x.Low {
				continue
			}
			cx, cy := spreadInto(x), spreadInto(y)
			if cx != nil && cy != nil && c46Family(cx)[cy] {
				used[x], used[y] = true, true
				np++
				c.OK("C46.complete", fmt.Sprintf("%s:rotation#%d", name, np), "list[k:] and list[:k] of the same list and the same k are both appended to one list")
				break
			}
		}
	}
	nb := 0
	for _, x := range subs {
		if !used[x] {
			nb++
			c.Bad("C46.complete", fmt.Sprintf("%s:sub-slice#%d", name, nb), c.instrPos(x), "a candidate list is cut ("+x.String()+") without the complementary part being kept: candidates are dropped from (or repeated in) the result")
		}
	}
	return fills
}

func c46Arrange(c *Ctx, st *c46State, fn *ssa.Function, fZeroCore, fCoreOf *types.Var) {
	// arrange and its list-to-list helpers
	done := map[*ssa.Function]bool{}
	var fills []*ssa.Call
	var visit func(f *ssa.Function)
	visit = func(f *ssa.Function) {
		if done[f] || st.abs[f] == nil || st.sum[f] != 2 {
			return
		}
		done[f] = true
		fl := c46Complete(c, st, f)
		if f == fn {
			fills = fl
		}
		eachInstr(f, func(in ssa.Instruction) {
			call, ok := in.(*ssa.Call)
			if !ok {
				return
			}
			g := call.Call.StaticCallee()
			if g == nil || g.Blocks == nil || pkgPathOf(g) != st.pkg {
				return
			}
			takes, gives := false, false
			for _, p := range g.Params {
				takes = takes || c46IsIntSlice(p.Type())
			}
			res := g.Signature.Results()
			for i := 0; i < res.Len(); i++ {
				gives = gives || c46IsIntSlice(res.At(i).Type())
			}
			if takes && gives {
				visit(g)
			}
		})
	}
	visit(fn)
	a := st.abs[fn]
	name := fnName(fn)
	rets := g12Returns(fn)
	// ---- zero-last
	zs := st.zeroSite[fn]
	if len(zs) == 0 {
		// the other idiom: the candidate itself is appended on the `candidate == 0` side
		gz := c46ElemIsZero(a.elem)
		for _, f := range fills {
			if ok, n, _ := c.mustPass(fn, Sink{Instr: f}, gz); ok && n > 0 {
				zs = append(zs, f)
			}
		}
	}
	if len(zs) != 1 {
		c.Unknown("C46.zero-last", name+":tail", fmt.Sprintf("%d sites append the constant CPU 0 (expected one)", len(zs)))
		return
	}
	z := zs[0]
	tail := c46Family(z)
	afterI, afterB := g12ReachFrom(z)
	var late ssa.Instruction
	chk := func(in ssa.Instruction) {
		if call, ok := in.(*ssa.Call); ok && builtinName(call) == "append" && tail[call.Call.Args[0]] && late == nil {
			late = in
		}
	}
	for _, in := range afterI {
		chk(in)
	}
	for b := range afterB {
		for _, in := range b.Instrs {
			chk(in)
		}
	}
	if late != nil {
		c.Bad("C46.zero-last", name+":zero-is-last-of-tail", c.instrPos(late), "something can be appended to the tail list after CPU 0: CPU 0 is no longer the very last entry")
	} else {
		c.OK("C46.zero-last", name+":zero-is-last-of-tail", "no append to the tail list is reachable after CPU 0 was appended")
	}
	// the flag test decides every return: its block dominates them
	var tailFinal func(v ssa.Value, seen map[ssa.Value]bool) bool
	tailFinal = func(v ssa.Value, seen map[ssa.Value]bool) bool {
		if v == ssa.Value(z) {
			return true
		}
		phi, ok := v.(*ssa.Phi)
		if !ok || seen[v] || !tail[v] {
			return false
		}
		seen[v] = true
		for _, e := range phi.Edges {
			if tailFinal(e, seen) {
				return true
			}
		}
		return false
	}
	notZero := gCmp("candidate != 0", a.elem, isIntConst(0), mustDiffer)
	isZC := isFieldLoad(fZeroCore)
	notZeroCore := gAny("candidate is not on CPU 0's core",
		gCmp("zeroCore < 0 (unknown)", isZC, isIntConst(0), func(op token.Token) (bool, bool) {
			switch op {
			case token.LSS:
				return true, true
			case token.GEQ:
				return true, false
			}
			return false, false
		}),
		gCmp("coreOf[candidate] != zeroCore", func(v ssa.Value) bool {
			lk, ok := stripValue(v).(*ssa.Lookup)
			return ok && loadsField(lk.X, fCoreOf) && a.elem(lk.Index)
		}, isZC, mustDiffer))
	for j, r := range rets {
		cons := fmt.Sprintf("%s:return#%d", name, j+1)
		res := r.Results[0]
		if tailFinal(res, map[ssa.Value]bool{}) {
			c.OK("C46.zero-last", cons+":ends-with-tail", "returns the finished tail list itself")
			continue
		}
		call, ok := res.(*ssa.Call)
		var spread ssa.Value
		if ok {
			_, spread = c46Varargs(call)
		}
		if hc, _ := callOf(res); hc != nil && builtinName(hc) == "" {
			c.Unknown("C46.zero-last", cons+":ends-with-tail", "the returned list is assembled by a call: order of the final concatenation not visible here")
			continue
		}
		if spread == nil || !tailFinal(spread, map[ssa.Value]bool{}) {
			c.Bad("C46.zero-last", cons+":ends-with-tail", c.instrPos(r), "the returned list is not `head + finished tail`: the last thing appended is not the tail list holding CPU 0's core (or the tail is taken before CPU 0 was added): CPU 0's core is not last")
			continue
		}
		c.OK("C46.zero-last", cons+":ends-with-tail", "the last append adds the finished tail list")
		// head: nothing in it is CPU 0 or on its core
		head := &c46Abs{c: c, fn: fn, memo: map[ssa.Value]int8{}}
		head.root = func(v ssa.Value) bool {
			// a list built by a package helper holds only elements of the lists it was given
			hc, _ := callOf(v)
			if hc == nil || !c46IsIntSlice(v.Type()) {
				return false
			}
			g := hc.Call.StaticCallee()
			if g == nil || g.Blocks == nil || pkgPathOf(g) != st.pkg || st.sum[g] != 2 {
				return false
			}
			for _, arg := range hc.Call.Args {
				if c46IsIntSlice(arg.Type()) && !head.slice(arg) {
					return false
				}
			}
			return true
		}
		head.okAppend = func(ap *ssa.Call, e ssa.Value) bool {
			if !a.elem(e) {
				return false
			}
			o1, n1, _ := c.mustPass(fn, Sink{Instr: ap}, notZero)
			o2, n2, _ := c.mustPass(fn, Sink{Instr: ap}, notZeroCore)
			return o1 && o2 && n1 > 0 && n2 > 0
		}
		if head.slice(call.Call.Args[0]) {
			c.OK("C46.zero-last", cons+":head-clean", "every candidate placed ahead of the tail passed `!= 0` and `not on CPU 0's core`")
		} else {
			pos := c.instrPos(r)
			if in, isIn := head.at.(ssa.Instruction); isIn {
				pos = c.instrPos(in)
			}
			if hc, _ := callOf(head.at); hc != nil && builtinName(hc) == "" {
				c.Unknown("C46.zero-last", cons+":head-clean", "the head of the list is built by a call whose placement guards are not visible here: "+head.why)
				continue
			}
			c.Bad("C46.zero-last", cons+":head-clean", pos, "a candidate can be placed ahead of the tail without having passed both `!= 0` and `coreOf[c] != zeroCore`: CPU 0 or its SMT sibling is not demoted to the end")
		}
	}
	var helpers []*ssa.Function
	for f := range done {
		if f != fn {
			helpers = append(helpers, f)
		}
	}
	sort.Slice(helpers, func(i, j int) bool { return helpers[i].String() < helpers[j].String() })
	c46NodeChoice(c, fn, a, helpers)
}

func c46NodeChoice(c *Ctx, fn *ssa.Function, a *c46Abs, helpers []*ssa.Function) {
	name := fnName(fn)
	// the one int parameter: the number of routines
	var routines *ssa.Parameter
	for _, p := range fn.Params {
		if b, ok := p.Type().Underlying().(*types.Basic); ok && b.Kind() == types.Int {
			if routines != nil {
				routines = nil
				break
			}
			routines = p
		}
	}
	isNodeLen := isLenOf(func(v ssa.Value) bool {
		lk, ok := stripValue(v).(*ssa.Lookup)
		if !ok {
			return false
		}
		_, local := lk.X.(*ssa.MakeMap)
		return local && a.slice(lk)
	})
	n := 0
	if routines != nil {
		for _, b := range fn.Blocks {
			ifi, ok := b.Instrs[len(b.Instrs)-1].(*ssa.If)
			if !ok {
				continue
			}
			cd := normCond(ifi.Cond)
			if cd.Kind != CondCmp {
				continue
			}
			bo := cd.Base.(*ssa.BinOp)
			op := bo.Op
			switch {
			case isNodeLen(bo.X) && stripValue(bo.Y) == ssa.Value(routines):
			case isNodeLen(bo.Y) && stripValue(bo.X) == ssa.Value(routines):
				op = swapOp(op)
			default:
				continue
			}
			if cd.Neg {
				op = negOp(op)
			}
			n++
			cons := fmt.Sprintf("%s:eligible#%d", name, n)
			// which side appends (the node becomes eligible)?
			hasAppend := func(blk *ssa.BasicBlock) bool {
				for _, in := range blk.Instrs {
					if call, ok := in.(*ssa.Call); ok && builtinName(call) == "append" {
						return true
					}
				}
				return false
			}
			t, f := hasAppend(b.Succs[0]), hasAppend(b.Succs[1])
			if t == f {
				c.Unknown("C46.node-choice", cons, "cannot tell which side of the size test records the node as eligible")
				continue
			}
			// equality (len == routines) must go to the eligible side
			eqTrue := op == token.GEQ || op == token.LEQ || op == token.EQL
			switch op {
			case token.GEQ, token.LSS:
				c.Check(eqTrue == t, "C46.node-choice", cons, c.instrPos(ifi), "a node with exactly `routines` candidates is eligible (len >= routines)", "the side taken when len == routines is not the eligible one")
			default:
				c.Bad("C46.node-choice", cons, c.instrPos(ifi), fmt.Sprintf("node eligibility is decided by `len %s routines`: a node holding exactly as many candidates as routines is big enough for every routine but is not chosen (the list then spans nodes although one node suffices)", op))
			}
		}
	}
	if n == 0 {
		c.Unknown("C46.node-choice", name+":eligible", "no comparison of a node's candidate count with the routine count was found")
	}
	// modulo indexes (in arrange and in the list helpers it calls)
	for _, fn := range append([]*ssa.Function{fn}, helpers...) {
		name := fnName(fn)
		m := 0
		eachInstr(fn, func(in ssa.Instruction) {
			bo, ok := in.(*ssa.BinOp)
			if !ok || bo.Op != token.REM {
				return
			}
			m++
			cons := fmt.Sprintf("%s:modulo#%d", name, m)
			lenCall, ok := stripValue(bo.Y).(*ssa.Call)
			if !ok || builtinName(lenCall) != "len" {
				c.Unknown("C46.node-choice", cons, "modulus is not the length of a list")
				return
			}
			list := lenCall.Call.Args[0]
			// every use as an index / slice bound is on that same list
			okUse, uses := true, 0
			var bad ssa.Instruction
			var follow func(v ssa.Value, d int)
			follow = func(v ssa.Value, d int) {
				refs := v.Referrers()
				if refs == nil || d > 4 {
					return
				}
				for _, r := range *refs {
					switch y := r.(type) {
					case *ssa.Convert:
						follow(y, d+1)
					case *ssa.IndexAddr:
						if y.Index == v {
							uses++
							if y.X != list {
								okUse, bad = false, y
							}
						}
					case *ssa.Slice:
						if y.Low == v || y.High == v {
							uses++
							if y.X != list {
								okUse, bad = false, y
							}
						}
					case *ssa.DebugRef:
					default:
						okUse = false
						if bad == nil {
							bad, _ = r.(ssa.Instruction)
						}
					}
				}
			}
			follow(bo, 0)
			if !okUse || uses == 0 {
				pos := c.instrPos(bo)
				if bad != nil {
					pos = c.instrPos(bad)
				}
				c.Bad("C46.node-choice", cons, pos, "a value reduced modulo len(one list) indexes a different list (or is used otherwise): the index can be out of range and Default panics instead of returning a pin list")
				return
			}
			nonEmpty := g12LenGuard("len(list) != 0", func(v ssa.Value) bool { return v == list }, false)
			if ok, k, path := c.mustPass(fn, Sink{Instr: bo}, nonEmpty); ok && k > 0 {
				c.OK("C46.node-choice", cons, "index = x % len(list) on that same list, after len(list) != 0")
			} else {
				c.Bad("C46.node-choice", cons, c.instrPos(bo), "the modulo by len(list) is reachable with an empty list (division by zero: Default panics when only CPU 0's core is allowed / no node is eligible)", path...)
			}
		})
	}
}

// ---------------------------------------------------------------------------------------
// parseCPUList

func c46CPUList(c *Ctx, parse *ssa.Function) {
	atoi := Ref{"strconv", "", "Atoi"}
	cut := Ref{"strings", "", "Cut"}
	nAtoi := 0
	for _, fn := range funcsWithAnon(parse) {
		calls := callsIn(fn, atoi)
		if len(calls) == 0 {
			continue
		}
		c.Funcs[fn.String()] = true
		// value of call k, error of call k
		valOf := func(call ssa.CallInstruction) func(ssa.Value) bool {
			return func(v ssa.Value) bool {
				ex, ok := stripValue(v).(*ssa.Extract)
				return ok && ex.Tuple == call.Value() && ex.Index == 0
			}
		}
		errNil := func(call ssa.CallInstruction) Guard {
			return Guard{Name: "Atoi error is nil", Match: func(cd Cond, _ *ssa.If) (bool, bool) {
				ex, ok := stripValue(cd.Base).(*ssa.Extract)
				if cd.Kind != CondNotNil || !ok || ex.Tuple != call.Value() || ex.Index != 1 {
					return false, false
				}
				return true, cd.Neg
			}}
		}
		// from the Cut call: which piece does this Atoi parse?
		piece := func(call ssa.CallInstruction) (cutCall *ssa.Call, idx int) {
			ex, ok := stripValue(call.Common().Args[0]).(*ssa.Extract)
			if !ok {
				return nil, -1
			}
			cc, ok := ex.Tuple.(*ssa.Call)
			if !ok || !matchFunc(calleeObj(cc), cut) {
				return nil, -1
			}
			return cc, ex.Index
		}
		for k, call := range calls {
			nAtoi++
			cons := fmt.Sprintf("%s:Atoi#%d", fnName(fn), k+1)
			g := errNil(call)
			// every direct use of the number is behind err == nil
			var vex *ssa.Extract
			if refs := call.Value().Referrers(); refs != nil {
				for _, r := range *refs {
					if ex, ok := r.(*ssa.Extract); ok && ex.Index == 0 {
						vex = ex
					}
				}
			}
			okUse, uses := true, 0
			var bypass []string
			var badUse ssa.Instruction
			if vex != nil && vex.Referrers() != nil {
				for _, r := range *vex.Referrers() {
					if _, isDbg := r.(*ssa.DebugRef); isDbg {
						continue
					}
					uses++
					sink := Sink{Instr: r}
					if phi, ok := r.(*ssa.Phi); ok {
						// used on the edge(s) carrying the value
						for i, e := range phi.Edges {
							if e == ssa.Value(vex) {
								pred := phi.Block().Preds[i]
								sink = Sink{Instr: pred.Instrs[len(pred.Instrs)-1]}
							}
						}
					}
					if ok, n, path := c.mustPass(fn, sink, g); !ok || n == 0 {
						okUse, bypass, badUse = false, path, r
					}
				}
			}
			if uses == 0 {
				c.Bad("C46.cpulist", cons+":value-used", c.instrPos(call), "the number parsed from the cpulist is discarded")
			} else if okUse {
				c.OK("C46.cpulist", cons+":checked-before-use", fmt.Sprintf("%d use(s), all behind err == nil", uses))
			} else {
				c.Bad("C46.cpulist", cons+":checked-before-use", c.instrPos(badUse), "the number returned by strconv.Atoi is used on a path where its error was not found nil: a malformed cpulist entry is read as CPU 0", bypass...)
			}
			// the error is reported: from the err != nil side every way out stores / returns a non-nil error
			_, fails := splitEdges(fn, g)
			if len(fails) == 0 {
				c.Bad("C46.cpulist", cons+":error-reported", c.instrPos(call), "the error of strconv.Atoi is never tested: malformed cpulist text is accepted")
				continue
			}
			isErrSink := func(in ssa.Instruction) bool {
				switch x := in.(type) {
				case *ssa.Store:
					if p, ok := x.Addr.Type().Underlying().(*types.Pointer); ok && isErrorType(p.Elem()) {
						return definitelyNonNil(x.Val, 0) || !isNilConst(x.Val) && derivesFrom(x.Val, sliceThrough, func(y ssa.Value) bool {
							ex, ok := y.(*ssa.Extract)
							return ok && ex.Tuple == call.Value() && ex.Index == 1
						})
					}
				case *ssa.Return:
					for _, r := range x.Results {
						if isErrorType(r.Type()) && !isNilConst(r) {
							return true
						}
					}
				}
				return false
			}
			silent := false
			var where *ssa.BasicBlock
			seen := map[*ssa.BasicBlock]bool{}
			work := append([]*ssa.BasicBlock{}, fails...)
			for len(work) > 0 && !silent {
				b := work[0]
				work = work[1:]
				if seen[b] {
					continue
				}
				seen[b] = true
				stopped := false
				for _, in := range b.Instrs {
					if isErrSink(in) {
						stopped = true
						break
					}
					if _, isRet := in.(*ssa.Return); isRet {
						silent, where = true, b
					}
					if _, isPanic := in.(*ssa.Panic); isPanic {
						stopped = true
					}
				}
				if !stopped && !silent {
					if len(b.Succs) == 0 {
						continue
					}
					work = append(work, b.Succs...)
				}
			}
			if silent {
				c.Bad("C46.cpulist", cons+":error-reported", c.instrPos(where.Instrs[len(where.Instrs)-1]), "after strconv.Atoi failed the function can carry on / return without reporting an error: text that is not a cpulist is accepted (entries silently skipped)")
			} else {
				c.OK("C46.cpulist", cons+":error-reported", "every way out of the err != nil side sets a non-nil error")
			}
		}
		// ---- range shape: append of a counter first..bound
		nr := 0
		eachInstr(fn, func(in ssa.Instruction) {
			call, ok := in.(*ssa.Call)
			if !ok {
				return
			}
			elems, _ := c46Varargs(call)
			for _, e := range elems {
				ct, ok := g12CounterOf(e)
				if !ok || ct.First == nil {
					continue
				}
				nr++
				cons := fmt.Sprintf("%s:range#%d", fnName(fn), nr)
				var lo, hi ssa.CallInstruction
				for _, k := range calls {
					if valOf(k)(ct.First) {
						lo = k
					}
					if ct.HasBound && valOf(k)(ct.Bound) {
						hi = k
					}
				}
				if lo == nil || hi == nil || !ct.HasBound {
					c.Unknown("C46.cpulist", cons, "range loop whose start / end are not the two parsed numbers")
					continue
				}
				cl, il := piece(lo)
				ch, ih := piece(hi)
				sep, _ := "", false
				if cl != nil {
					sep, _ = constString(cl.Call.Args[1])
				}
				shape := cl != nil && cl == ch && il == 0 && ih == 1 && sep == "-"
				c.Check(shape, "C46.cpulist", cons+":before-dash..after-dash", c.instrPos(call), "start = number before the '-', end = number after it", "the range does not run from the number before the '-' to the number after it (kernel cpulist: `first-last`)")
				c.Check(ct.Step == 1 && ct.BoundOp == token.LEQ, "C46.cpulist", cons+":inclusive", c.instrPos(call), "v = first; v <= last; v++", fmt.Sprintf("the range loop runs while v %s last with step %d: the kernel's `first-last` includes both ends, step 1 (the last CPU of every range is dropped / CPUs are skipped)", ct.BoundOp, ct.Step))
				ordered := gCmp("last >= first", valOf(hi), valOf(lo), func(op token.Token) (bool, bool) {
					switch op {
					case token.LSS:
						return true, false
					case token.GEQ:
						return true, true
					}
					return false, false
				})
				c.requireGuards("C46.cpulist", fn, []Sink{{Instr: call, Desc: "append of the range"}}, fmt.Sprintf("range#%d", nr), ordered)
			}
		})
		if nr == 0 {
			c.Unknown("C46.cpulist", fnName(fn)+":range", "no loop appending first..last was recognised")
		}
	}
	if nAtoi == 0 {
		c.Unknown("C46.cpulist", "parseCPUList:Atoi", "no strconv.Atoi call found in parseCPUList")
	}
}
