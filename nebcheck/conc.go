package main

import (
	"fmt"
	"go/token"
	"go/types"
	"sort"
	"strings"

	"golang.org/x/tools/go/callgraph/cha"
	"golang.org/x/tools/go/callgraph/vta"
	"golang.org/x/tools/go/ssa"
	"golang.org/x/tools/go/ssa/ssautil"
)

// ---------------------------------------------------------------------------------------
// K14 goroutine and channel discipline

// GoSite is one place a goroutine is launched: a `go` statement or a (*sync.WaitGroup).Go call.
type GoSite struct {
	Fn      *ssa.Function   // launching function
	Instr   ssa.Instruction // the Go / Call instruction
	Targets []*ssa.Function // resolved bodies (several when launched through a function-typed field)
	Via     string          // "static" | "closure" | "bound" | "field:<Type.field>" | "param" | "unresolved"
}

// funcValueTargets resolves a function-typed value to the functions it may denote: a function, a closure, a bound method, a
// phi/alloc of those, or a load of a function-typed struct field (every function value stored into that field anywhere in the
// module: the Control.*Start idiom).
func (c *Ctx) funcValueTargets(v ssa.Value, depth int) ([]*ssa.Function, string) {
	if depth > 6 {
		return nil, "unresolved"
	}
	switch x := v.(type) {
	case *ssa.Function:
		if x.Synthetic != "" {
			if t := c.wrapperTarget(x); t != nil {
				return []*ssa.Function{t}, "bound"
			}
		}
		return []*ssa.Function{x}, "static"
	case *ssa.MakeClosure:
		if f, ok := x.Fn.(*ssa.Function); ok {
			if f.Synthetic != "" {
				if t := c.wrapperTarget(f); t != nil {
					return []*ssa.Function{t}, "bound"
				}
			}
			return []*ssa.Function{f}, "closure"
		}
	case *ssa.ChangeType:
		return c.funcValueTargets(x.X, depth+1)
	case *ssa.Phi:
		var out []*ssa.Function
		for _, e := range x.Edges {
			if isNilConst(e) {
				continue
			}
			t, _ := c.funcValueTargets(e, depth+1)
			out = append(out, t...)
		}
		if len(out) > 0 {
			return out, "phi"
		}
	case *ssa.UnOp:
		if x.Op != token.MUL {
			break
		}
		if fa, ok := x.X.(*ssa.FieldAddr); ok {
			f := fieldOfAddr(fa)
			var out []*ssa.Function
			for _, fn := range c.moduleFuncs() {
				eachInstr(fn, func(in ssa.Instruction) {
					st, ok := in.(*ssa.Store)
					if !ok {
						return
					}
					a, ok := st.Addr.(*ssa.FieldAddr)
					if !ok || fieldOfAddr(a) != f || isNilConst(st.Val) {
						return
					}
					t, _ := c.funcValueTargets(st.Val, depth+1)
					out = append(out, t...)
				})
			}
			owner := "?"
			if n := recvNamed(fa.X.Type()); n != nil {
				owner = n.Obj().Name()
			}
			return out, "field:" + owner + "." + f.Name()
		}
		if al, ok := x.X.(*ssa.Alloc); ok {
			var out []*ssa.Function
			for _, sv := range storesInto(al) {
				if isNilConst(sv) {
					continue
				}
				t, _ := c.funcValueTargets(sv, depth+1)
				out = append(out, t...)
			}
			if len(out) > 0 {
				return out, "local"
			}
		}
	case *ssa.Extract:
		// a function value returned by a call (sshStart, err = configSSH(...)): the closures the callee returns
		if call, ok := x.Tuple.(*ssa.Call); ok {
			if cal := call.Call.StaticCallee(); cal != nil && cal.Blocks != nil {
				var out []*ssa.Function
				for _, b := range cal.Blocks {
					if r, ok := b.Instrs[len(b.Instrs)-1].(*ssa.Return); ok && x.Index < len(r.Results) {
						if isNilConst(r.Results[x.Index]) {
							continue
						}
						t, _ := c.funcValueTargets(retResult(r, x.Index), depth+1)
						out = append(out, t...)
					}
				}
				if len(out) > 0 {
					return out, "returned"
				}
			}
		}
	case *ssa.Parameter:
		return nil, "param"
	}
	return nil, "unresolved"
}

// wrapperTarget: the declared method behind a synthetic bound-method wrapper / thunk.
func (c *Ctx) wrapperTarget(f *ssa.Function) *ssa.Function {
	var tgt *ssa.Function
	eachInstr(f, func(in ssa.Instruction) {
		if ci, ok := in.(ssa.CallInstruction); ok && tgt == nil {
			if cal := ci.Common().StaticCallee(); cal != nil {
				tgt = cal
			} else if ci.Common().IsInvoke() {
				// interface method value: all module implementations
				tgt = nil
			}
		}
	})
	return tgt
}

func (c *Ctx) goSites(funcs []*ssa.Function) []GoSite {
	var out []GoSite
	for _, fn := range funcs {
		eachInstr(fn, func(in ssa.Instruction) {
			switch x := in.(type) {
			case *ssa.Go:
				gs := GoSite{Fn: fn, Instr: in}
				if x.Call.IsInvoke() {
					es := &EffectSummary{c: c, implMemo: map[*types.Func][]*ssa.Function{}}
					gs.Targets, gs.Via = es.implementations(x.Call.Method), "invoke:"+x.Call.Method.Name()
				} else {
					gs.Targets, gs.Via = c.funcValueTargets(x.Call.Value, 0)
				}
				out = append(out, gs)
			case *ssa.Call:
				if o := calleeObj(x); o != nil && o.Name() == "Go" && o.Pkg() != nil && o.Pkg().Path() == "sync" {
					gs := GoSite{Fn: fn, Instr: in}
					args := callArgs(x)
					gs.Targets, gs.Via = c.funcValueTargets(args[len(args)-1], 0)
					gs.Via = "wg.Go:" + gs.Via
					out = append(out, gs)
				}
			}
		})
	}
	sort.SliceStable(out, func(i, j int) bool {
		if out[i].Fn.String() != out[j].Fn.String() {
			return out[i].Fn.String() < out[j].Fn.String()
		}
		return out[i].Instr.Pos() < out[j].Instr.Pos()
	})
	return out
}

// isDoneChan: v is the result of a Done() call on a context.Context (or any value with a Done() <-chan struct{} method).
func isDoneChan(v ssa.Value) bool {
	call, _ := callOf(v)
	if call == nil {
		return false
	}
	o := calleeObj(call)
	return o != nil && o.Name() == "Done"
}

// blockingKind classifies an instruction that may block the goroutine: "" if it does not.
func blockingKind(in ssa.Instruction) string {
	switch x := in.(type) {
	case *ssa.Select:
		if x.Blocking {
			return "select"
		}
	case *ssa.UnOp:
		if x.Op == token.ARROW {
			return "recv"
		}
	case *ssa.Send:
		return "send"
	case *ssa.Next:
		if rg, ok := x.Iter.(*ssa.Range); ok {
			if _, isChan := rg.X.Type().Underlying().(*types.Chan); isChan {
				return "range-chan"
			}
		}
	case ssa.CallInstruction:
		if _, isGo := in.(*ssa.Go); isGo {
			return ""
		}
		if _, isDefer := in.(*ssa.Defer); isDefer {
			return ""
		}
		if o := calleeObj(x); o != nil {
			switch o.Name() {
			case "Read", "ReadFrom", "ReadFromUDP", "ReadFromUDPAddrPort", "Accept", "ListenOut", "Wait", "Serve", "ListenAndServe", "ActivateAndServe", "Recvmmsg", "ReadBatch", "Sleep", "NewChannel", "ReadMsgUDP", "ReadMsgUDPAddrPort", "Run", "EpollWait", "Poll", "RouteSubscribe", "Receive":
				return "call:" + o.Name()
			}
		}
	}
	return ""
}

// LoopReport describes one loop of a goroutine body that contains a blocking operation.
type LoopReport struct {
	Fn       *ssa.Function
	Header   *ssa.BasicBlock
	Blocking []string
	Exits    []string // accepted exits found: "done", "error", "closed-chan", "cond"
}

// loopExits classifies how a natural loop can be left.
func loopExits(fn *ssa.Function, l *natLoop) []string {
	kinds := map[string]bool{}
	canReturnAvoidingHeader := func(from *ssa.BasicBlock) bool {
		// from is outside the loop, or inside but leads to a return without passing the header again
		seen := map[*ssa.BasicBlock]bool{}
		stack := []*ssa.BasicBlock{from}
		for len(stack) > 0 {
			b := stack[len(stack)-1]
			stack = stack[:len(stack)-1]
			if seen[b] || b == l.Header {
				continue
			}
			seen[b] = true
			if !l.Body[b] {
				return true
			}
			if len(b.Succs) == 0 {
				return true // return / panic inside the loop body
			}
			stack = append(stack, b.Succs...)
		}
		return false
	}
	for b := range l.Body {
		if len(b.Instrs) == 0 {
			continue
		}
		last := b.Instrs[len(b.Instrs)-1]
		if _, ok := last.(*ssa.Return); ok {
			// how did we get here? classify by the dominating condition below (handled at the If)
			continue
		}
		ifi, ok := last.(*ssa.If)
		if !ok {
			continue
		}
		for k, s := range b.Succs {
			leaves := !l.Body[s] || canReturnAvoidingHeader(s)
			if !leaves {
				continue
			}
			// other successor stays?
			kinds[classifyExitCond(ifi, k == 0)] = true
		}
	}
	var out []string
	for k := range kinds {
		out = append(out, k)
	}
	sort.Strings(out)
	return out
}

// classifyExitCond names the kind of condition under which the loop is left. taken = the true edge leaves.
func classifyExitCond(ifi *ssa.If, taken bool) string {
	cd := normCond(ifi.Cond)
	// select dispatch: `index == k` on a Select whose state k receives from a Done() channel / any channel
	if cd.Kind == CondCmp {
		bo := cd.Base.(*ssa.BinOp)
		if ex, ok := bo.X.(*ssa.Extract); ok && ex.Index == 0 {
			if sel, ok := ex.Tuple.(*ssa.Select); ok {
				if k, ok := constInt(bo.Y); ok && int(k) < len(sel.States) {
					eq := (bo.Op == token.EQL) != cd.Neg
					if eq == taken {
						st := sel.States[k]
						if st.Dir == types.RecvOnly && isDoneChan(st.Chan) {
							return "done"
						}
						if st.Dir == types.RecvOnly {
							// a signal channel (chan struct{}) closed by the stopper: the u.done idiom
							if ch, ok := st.Chan.Type().Underlying().(*types.Chan); ok {
								if es, ok := ch.Elem().Underlying().(*types.Struct); ok && es.NumFields() == 0 {
									return "done"
								}
							}
							return "recv-case"
						}
						return "send-case"
					}
					return "select-other"
				}
			}
		}
	}
	if cd.Kind == CondNotNil {
		if isErrorType(cd.Base.Type()) {
			leavesWhenErr := !cd.Neg == taken
			if leavesWhenErr {
				// context.Err() != nil is a done test
				if call, _ := callOf(cd.Base); call != nil {
					if o := calleeObj(call); o != nil && o.Name() == "Err" {
						return "done"
					}
				}
				return "error"
			}
			return "no-error"
		}
	}
	if cd.Kind == CondBool {
		// v, ok := <-ch ; !ok leaves   /  range over channel
		if ex, ok := stripValue(cd.Base).(*ssa.Extract); ok {
			if u, ok := ex.Tuple.(*ssa.UnOp); ok && u.Op == token.ARROW && u.CommaOk && ex.Index == 1 {
				if cd.Neg == taken {
					return "closed-chan"
				}
			}
			if nx, ok := ex.Tuple.(*ssa.Next); ok && ex.Index == 0 {
				if rg, ok := nx.Iter.(*ssa.Range); ok {
					if _, isChan := rg.X.Type().Underlying().(*types.Chan); isChan {
						return "closed-chan"
					}
					return "cond"
				}
			}
			if sel, ok := ex.Tuple.(*ssa.Select); ok && ex.Index == 1 {
				_ = sel
				return "closed-chan"
			}
		}
		// atomic flag / closed.Load()
		if call, _ := callOf(cd.Base); call != nil {
			if o := calleeObj(call); o != nil && o.Name() == "Load" {
				return "flag"
			}
		}
	}
	return "cond"
}

// blockingLoops lists the loops of fn that contain a blocking operation, with their exits.
func blockingLoops(fn *ssa.Function) []LoopReport {
	var out []LoopReport
	for _, l := range naturalLoops(fn) {
		var blk []string
		for b := range l.Body {
			for _, in := range b.Instrs {
				if k := blockingKind(in); k != "" {
					blk = append(blk, k)
				}
			}
		}
		if len(blk) == 0 {
			continue
		}
		sort.Strings(blk)
		out = append(out, LoopReport{Fn: fn, Header: l.Header, Blocking: blk, Exits: loopExits(fn, l)})
	}
	sort.Slice(out, func(i, j int) bool { return out[i].Header.Index < out[j].Header.Index })
	return out
}

// SendSite is a channel send.
type SendSite struct {
	Fn     *ssa.Function
	Instr  ssa.Instruction
	Chan   ssa.Value
	Guard  string // "blocking" | "select-default" | "select-done" | "select-other"
}

func sendSites(funcs []*ssa.Function) []SendSite {
	var out []SendSite
	for _, fn := range funcs {
		eachInstr(fn, func(in ssa.Instruction) {
			switch x := in.(type) {
			case *ssa.Send:
				out = append(out, SendSite{fn, in, x.Chan, "blocking"})
			case *ssa.Select:
				hasSend, hasDone := false, false
				var ch ssa.Value
				for _, st := range x.States {
					if st.Dir == types.SendOnly {
						hasSend = true
						ch = st.Chan
					}
					if st.Dir == types.RecvOnly && isDoneChan(st.Chan) {
						hasDone = true
					}
				}
				if !hasSend {
					return
				}
				g := "select-other"
				switch {
				case !x.Blocking:
					g = "select-default"
				case hasDone:
					g = "select-done"
				case selectHasNilableDone(x):
					g = "select-done"
				}
				out = append(out, SendSite{fn, in, ch, g})
			}
		})
	}
	return out
}

// selectHasNilableDone: a receive state whose channel is a phi of a Done() channel and nil (the `var done <-chan struct{};
// if ctx != nil { done = ctx.Done() }` idiom: a nil channel never fires, a real one ends the wait).
func selectHasNilableDone(sel *ssa.Select) bool {
	for _, st := range sel.States {
		if st.Dir != types.RecvOnly {
			continue
		}
		if phi, ok := st.Chan.(*ssa.Phi); ok {
			done := false
			for _, e := range phi.Edges {
				if isDoneChan(e) {
					done = true
				} else if !isNilConst(e) {
					done = false
					break
				}
			}
			if done {
				return true
			}
		}
	}
	return false
}

func chanName(v ssa.Value) string {
	s := exprString(v)
	if len(s) > 60 {
		s = s[:60]
	}
	return s
}

// ---------------------------------------------------------------------------------------
// K17 lock order

type lockEdge struct{ From, To lockKey }

// LockOrder computes the acquisition-order graph between mutex classes over the given functions.
type LockOrder struct {
	c        *Ctx
	funcs    []*ssa.Function
	acquires map[*ssa.Function]map[lockKey]bool // transitive: classes fn may acquire (itself or through callees)
	direct   map[*ssa.Function]map[lockKey]bool
	callees  map[*ssa.Function][]*ssa.Function
	Edges    map[lockEdge]string // witness
	es       *EffectSummary
}

func meaningfulLock(k lockKey) bool {
	s := string(k)
	return s != "" && !strings.HasPrefix(s, "?") && !strings.HasPrefix(s, "local:") && !strings.HasPrefix(s, "param:")
}

func (c *Ctx) newLockOrder(funcs []*ssa.Function) *LockOrder {
	lo := &LockOrder{c: c, funcs: funcs, acquires: map[*ssa.Function]map[lockKey]bool{}, direct: map[*ssa.Function]map[lockKey]bool{}, callees: map[*ssa.Function][]*ssa.Function{}, Edges: map[lockEdge]string{}}
	lo.es = &EffectSummary{c: c, implMemo: map[*types.Func][]*ssa.Function{}, memo: map[*ssa.Function]string{}, inprog: map[*ssa.Function]bool{}}
	inSet := map[*ssa.Function]bool{}
	for _, f := range funcs {
		inSet[f] = true
	}
	for _, f := range funcs {
		d := map[lockKey]bool{}
		eachInstr(f, func(in ssa.Instruction) {
			ci, ok := in.(ssa.CallInstruction)
			if !ok {
				return
			}
			if _, isGo := in.(*ssa.Go); isGo {
				return // runs in another goroutine: does not nest under our locks
			}
			if k, op, ok := lockOpOf(ci); ok {
				if (op == "Lock" || op == "RLock") && meaningfulLock(k) {
					if _, isDefer := in.(*ssa.Defer); !isDefer {
						d[k] = true
					}
				}
				return
			}
			for _, cal := range lo.c.calleesVTA(ci) {
				if inSet[cal] {
					lo.callees[f] = append(lo.callees[f], cal)
				}
			}
		})
		// closures created here run (at the latest) when called: treat creation as a potential call only if invoked in f;
		// conservatively include anonymous functions that f calls directly (handled by callees) - nothing more.
		lo.direct[f] = d
	}
	// transitive closure
	for _, f := range funcs {
		a := map[lockKey]bool{}
		for k := range lo.direct[f] {
			a[k] = true
		}
		lo.acquires[f] = a
	}
	for changed := true; changed; {
		changed = false
		for _, f := range funcs {
			for _, cal := range lo.callees[f] {
				for k := range lo.acquires[cal] {
					if !lo.acquires[f][k] {
						lo.acquires[f][k] = true
						changed = true
					}
				}
			}
		}
	}
	// edges
	for _, f := range funcs {
		hasLock := len(lo.direct[f]) > 0
		if !hasLock {
			continue
		}
		lf := lockFlow(f, nil, nil)
		eachInstr(f, func(in ssa.Instruction) {
			ci, ok := in.(ssa.CallInstruction)
			if !ok {
				return
			}
			if _, isGo := in.(*ssa.Go); isGo {
				return
			}
			if _, isDefer := in.(*ssa.Defer); isDefer {
				return
			}
			b := in.Block()
			if !lf.live[b] {
				return
			}
			held := lf.may[b].clone()
			for _, o := range b.Instrs {
				if o == in {
					break
				}
				applyLockInstr(held, o, map[lockKey]bool{})
			}
			var targets map[lockKey]bool
			if k, op, ok := lockOpOf(ci); ok {
				if op != "Lock" && op != "RLock" {
					return
				}
				targets = map[lockKey]bool{k: true}
			} else {
				targets = map[lockKey]bool{}
				for _, cal := range lo.c.calleesVTA(ci) {
					for k := range lo.acquires[cal] {
						targets[k] = true
					}
				}
			}
			for h, mode := range held {
				if mode == lkNone || !meaningfulLock(h) {
					continue
				}
				for t := range targets {
					if !meaningfulLock(t) || t == h {
						continue
					}
					e := lockEdge{h, t}
					if _, ok := lo.Edges[e]; !ok {
						lo.Edges[e] = fmt.Sprintf("%s at %s", fnName(f), lo.c.instrPos(in))
					}
				}
			}
		})
	}
	return lo
}

// Cycles returns the elementary cycles (as class lists) of the lock-order graph, shortest first.
func (lo *LockOrder) Cycles() [][]lockKey {
	adj := map[lockKey][]lockKey{}
	for e := range lo.Edges {
		adj[e.From] = append(adj[e.From], e.To)
	}
	for k := range adj {
		sort.Slice(adj[k], func(i, j int) bool { return adj[k][i] < adj[k][j] })
	}
	var nodes []lockKey
	for k := range adj {
		nodes = append(nodes, k)
	}
	sort.Slice(nodes, func(i, j int) bool { return nodes[i] < nodes[j] })
	seenCycle := map[string]bool{}
	var out [][]lockKey
	for _, start := range nodes {
		// BFS for the shortest cycle through start using only nodes >= start (canonical)
		type item struct {
			n    lockKey
			path []lockKey
		}
		queue := []item{{start, []lockKey{start}}}
		visited := map[lockKey]bool{start: true}
		for len(queue) > 0 {
			it := queue[0]
			queue = queue[1:]
			for _, nx := range adj[it.n] {
				if nx == start {
					cyc := append([]lockKey{}, it.path...)
					key := canonCycle(cyc)
					if !seenCycle[key] {
						seenCycle[key] = true
						out = append(out, cyc)
					}
					continue
				}
				if nx < start || visited[nx] {
					continue
				}
				visited[nx] = true
				queue = append(queue, item{nx, append(append([]lockKey{}, it.path...), nx)})
			}
		}
	}
	return out
}

func canonCycle(c []lockKey) string {
	ss := make([]string, len(c))
	for i, k := range c {
		ss[i] = string(k)
	}
	sort.Strings(ss)
	return strings.Join(ss, "|")
}

// ---------------------------------------------------------------------------------------
// VTA call graph (lazily built per program): precise resolution of interface / function-value calls

type vtaGraph struct {
	bySite map[ssa.CallInstruction][]*ssa.Function
}

var vtaCache = map[*Program]*vtaGraph{}

func (c *Ctx) vta() *vtaGraph {
	if g, ok := vtaCache[c.P]; ok {
		return g
	}
	g := &vtaGraph{bySite: map[ssa.CallInstruction][]*ssa.Function{}}
	all := ssautil.AllFunctions(c.P.SSA)
	cg := vta.CallGraph(all, cha.CallGraph(c.P.SSA))
	for _, n := range cg.Nodes {
		for _, e := range n.Out {
			if e.Site != nil && e.Callee != nil && e.Callee.Func != nil {
				g.bySite[e.Site] = append(g.bySite[e.Site], e.Callee.Func)
			}
		}
	}
	vtaCache = map[*Program]*vtaGraph{c.P: g}
	return g
}

// calleesVTA: static callee if there is one, else the VTA-resolved targets.
func (c *Ctx) calleesVTA(ci ssa.CallInstruction) []*ssa.Function {
	if f := ci.Common().StaticCallee(); f != nil {
		return []*ssa.Function{f}
	}
	if ci.Common().IsInvoke() {
		return c.vta().bySite[ci]
	}
	// a call through a function value: VTA merges every closure of the same type that flows through a parameter or field
	// (the cacheCb / packetCallback idiom), which manufactures lock edges that do not exist; resolve only what is visible in
	// the calling function itself
	if t, via := c.funcValueTargets(ci.Common().Value, 0); via == "static" || via == "closure" || via == "bound" || via == "local" || via == "phi" {
		return t
	}
	return nil
}

// goBody: the functions that run on the goroutine started at target: target itself and the module functions it calls
// (static callees and interface calls resolved by VTA), to the given depth; calls made by `go` statements are not followed.
func (c *Ctx) goBody(target *ssa.Function, depth int) []*ssa.Function {
	seen := map[*ssa.Function]bool{}
	var out []*ssa.Function
	var walk func(f *ssa.Function, d int)
	walk = func(f *ssa.Function, d int) {
		if f == nil || seen[f] || f.Blocks == nil || !strings.HasPrefix(pkgPathOf(f), nebulaMod) {
			return
		}
		seen[f] = true
		out = append(out, f)
		if d == 0 {
			return
		}
		eachInstr(f, func(in ssa.Instruction) {
			ci, ok := in.(ssa.CallInstruction)
			if !ok {
				return
			}
			if _, isGo := in.(*ssa.Go); isGo {
				return
			}
			for _, cal := range c.calleesVTA(ci) {
				walk(cal, d-1)
			}
		})
	}
	walk(target, depth)
	return out
}
