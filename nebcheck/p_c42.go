package main

import (
	"fmt"
	"go/token"
	"go/types"
	"strings"

	"golang.org/x/tools/go/ssa"
)

func init() {
	register(&Property{
		ID: "C42", Title: "Certificate reload never changes a node's identity",
		Patterns:  []string{"."},
		Technique: "who-may-write tables for PKI.cs / PKI.caPool and the certificate fields of CertState, CFG guard reachability on reloadCerts (per shape of old and new state: which old certificate's networks and curve must have been compared equal to which new one before the store), on reloadCAPool / loadCAPoolFromConfig (store and success behind a readable bundle, blocklist applied to the returned pool) and on newCertState (key, curve, primary network, private-key pairing), provenance of the stored values, no caching of GetCAPool results",
		LevelText: "Structural necessary conditions on all paths: PKI.cs is stored only by reloadCerts and PKI.caPool only by reloadCAPool; on a reload the new state is stored only if, for every combination of versions present before and after (same version kept, v2 dropped, v1 replaced by v2), the networks and the curve of an old certificate were compared equal to those of a new one, every failing comparison returns before the store; the stored state is the one newCertStateFromConfig built, which comes from newCertState, the only constructor and the only writer of the certificate fields; newCertState succeeds only if both certificates (when present) have equal public keys, curves and first networks and each non-PKCS#11 certificate verified against the very private key that is kept and used; a certificate without networks is refused; the CA pool is stored only when loading returned no error, loading succeeds only if the bundle parsed (or only reported expired entries), every configured blocklist fingerprint is applied to the pool that is returned; GetCAPool results are used at the call and never cached, and the periodic certificate check reads the pool at check time.",
		LevelNote: "Not decided: sequences of reloads (each reload is checked against the state it finds); semantics of slices.Equal / Certificate.Networks / VerifyPrivateKey themselves; that a PKCS#11-held key matches its certificate (nebula cannot verify it either); that the tunnel teardown after a failed periodic check completes (C30).",
		Explanation: "K2 writer/constructor tables, K1 union guards (test passed, or the case does not apply) with one-level callee summaries on reloadCerts / newCertState / loadCertificate / reloadCAPool / loadCAPoolFromConfig, K1 for-all on the blocklist loop, K11 on stored and returned values, value-flow rule on GetCAPool results",
		Run:       runC42,
		Canaries: func(c *Ctx) []Canary {
			return g10FilterCanaries([]Canary{
				{Name: "v1-networks-compared-with-itself", File: "pki.go", Old: "if !slices.Equal(currentState.v1Cert.Networks(), newState.v1Cert.Networks()) {", New: "if !slices.Equal(newState.v1Cert.Networks(), newState.v1Cert.Networks()) {", Rule: "C42.reload"},
				{Name: "v2-curve-test-inverted", File: "pki.go", Old: "if currentState.v2Cert.Curve() != newState.v2Cert.Curve() {", New: "if currentState.v2Cert.Curve() == newState.v2Cert.Curve() {", Rule: "C42.reload"},
				{Name: "v2-removal-only-logged", File: "pki.go", Old: "\t\t\tif !slices.Equal(currentState.v2Cert.Networks(), newState.v1Cert.Networks()) {\n\t\t\t\treturn util.NewContextualError(", New: "\t\t\tif !slices.Equal(currentState.v2Cert.Networks(), newState.v1Cert.Networks()) {\n\t\t\t\tp.l.Warn(\"Removing a V2 cert with different networks\")\n\t\t\t} else if false {\n\t\t\t\treturn util.NewContextualError(", Rule: "C42.reload"},
				{Name: "store-before-checks", File: "pki.go", Old: "\tif currentState != nil {\n\t\tif newState.v1Cert != nil {", New: "\tp.cs.Store(newState)\n\tif currentState != nil {\n\t\tif newState.v1Cert != nil {", Rule: "C42.reload"},
				{Name: "second-writer-of-cert-state", File: "pki.go", Old: "func (p *PKI) getCertState() *CertState {", New: "func (p *PKI) setCertState(cs *CertState) { p.cs.Store(cs) }\n\nfunc (p *PKI) getCertState() *CertState {", Rule: "C42.writers"},
				{Name: "cert-swapped-after-publication", File: "pki.go", Old: "func (cs *CertState) GetDefaultCertificate() cert.Certificate {", New: "func (cs *CertState) replaceV2(c cert.Certificate) { cs.v2Cert = c }\n\nfunc (cs *CertState) GetDefaultCertificate() cert.Certificate {", Rule: "C42.state"},
				{Name: "ca-stored-despite-error", File: "pki.go", Old: "\tcaPool, err := loadCAPoolFromConfig(p.l, c)\n\tif err != nil {", New: "\tcaPool, err := loadCAPoolFromConfig(p.l, c)\n\tif err != nil && !errors.Is(err, cert.ErrExpired) {", Rule: "C42.ca"},
				{Name: "ca-parse-error-tolerated", File: "pki.go", Old: "\t} else if err != nil {\n\t\treturn nil, fmt.Errorf(\"error while adding CA certificate to CA trust store: %s\", err)", New: "\t} else if err != nil && caPool == nil {\n\t\treturn nil, fmt.Errorf(\"error while adding CA certificate to CA trust store: %s\", err)", Rule: "C42.ca"},
				{Name: "blocklist-not-applied", File: "pki.go", Old: "\t\t\tcaPool.BlocklistFingerprint(fp)\n", New: "\t\t\t_ = fp\n", Rule: "C42.ca"},
				{Name: "public-keys-compared-by-length", File: "pki.go", Old: "if !slices.Equal(v1.PublicKey(), v2.PublicKey()) {", New: "if len(v1.PublicKey()) != len(v2.PublicKey()) {", Rule: "C42.pair"},
				{Name: "v2-key-check-skipped-when-v1-present", File: "pki.go", Old: "\tif v2 != nil {\n\t\tif pkcs11backed {", New: "\tif v2 != nil {\n\t\tif pkcs11backed || v1 != nil {", Rule: "C42.pair"},
				{Name: "primary-network-compared-by-count", File: "pki.go", Old: "if v1.Networks()[0] != v2.Networks()[0] {", New: "if len(v1.Networks()) != len(v2.Networks()) {", Rule: "C42.pair"},
				{Name: "empty-networks-accepted", File: "pki.go", Old: "\tif len(c.Networks()) == 0 {\n\t\treturn nil, b, fmt.Errorf(\"no networks encoded in certificate\")\n\t}\n", New: "", Rule: "C42.pair"},
				{Name: "ca-pool-cached-by-checker", File: "connection_manager.go", Old: "func (cm *connectionManager) isInvalidCertificate(now time.Time, hostinfo *HostInfo) bool {\n\tremoteCert := hostinfo.GetCert()\n\tif remoteCert == nil {\n\t\treturn false //don't tear down tunnels for handshakes in progress\n\t}\n\n\tcaPool := cm.intf.pki.GetCAPool()\n", New: "var c42CachedPool *cert.CAPool\n\nfunc (cm *connectionManager) isInvalidCertificate(now time.Time, hostinfo *HostInfo) bool {\n\tremoteCert := hostinfo.GetCert()\n\tif remoteCert == nil {\n\t\treturn false //don't tear down tunnels for handshakes in progress\n\t}\n\n\tif c42CachedPool == nil {\n\t\tc42CachedPool = cm.intf.pki.GetCAPool()\n\t}\n\tcaPool := c42CachedPool\n", Rule: "C42.pool-fresh"},
			})
		},
	})
}

var (
	c42Networks = Ref{"cert", "Certificate", "Networks"}
	c42Curve    = Ref{"cert", "Certificate", "Curve"}
	c42Equal    = []Ref{{"slices", "", "Equal"}, {"bytes", "", "Equal"}}
)

func runC42(c *Ctx) {
	c.Rule("C42.writers", "K2: PKI.cs is written only by reloadCerts, PKI.caPool only by reloadCAPool", 2)
	c.Rule("C42.state", "K2/K11: CertState is constructed and its certificate/key fields written only by newCertState; reloadCerts stores the newCertStateFromConfig result, which is nil or the newCertState result", 8)
	c.Rule("C42.reload", "K1: the store of the new state in reloadCerts lies behind newCertStateFromConfig err==nil and, per shape of old/new state, behind networks and curve equality of an old certificate with a new one (or the shape does not apply)", 9)
	c.Rule("C42.pair", "K1/K11: newCertState succeeds only with equal public keys, curves and first networks when both certificates are present, and with each non-PKCS#11 certificate verified against the private key that is stored and used; loadCertificate refuses a certificate without networks", 10)
	c.Rule("C42.ca", "K1/K11: reloadCAPool stores only the pool loadCAPoolFromConfig returned without error; loading succeeds only if the bundle parsed (or only reported expired entries), returns that pool, and applies every configured blocklist fingerprint to it", 5)
	c.Rule("C42.pool-fresh", "value flow: GetCAPool returns the atomically loaded pool, its results are never stored in a field/global/map (no caching), and the periodic certificate check verifies against the pool read at check time", 7)

	fCs, fPool := c.Field("", "PKI", "cs"), c.Field("", "PKI", "caPool")
	fV1, fV2 := c.Field("", "CertState", "v1Cert"), c.Field("", "CertState", "v2Cert")
	csT := c.NamedType("", "CertState")
	funcs := c.moduleFuncs()
	if fCs == nil || fPool == nil || fV1 == nil || fV2 == nil || csT == nil {
		return
	}
	// ---- writers (one reason per allowed writer)
	k2 := func(rule, owner string, f *typesVar, allow map[string]string) {
		bad, n := 0, 0
		for _, w := range fieldWriters(funcs, f) {
			if c.isTestHelperFile(w.Instr) {
				continue
			}
			n++
			if who := fnName(topFunc(w.Fn)); allow[who] == "" {
				bad++
				c.Bad(rule, owner+"."+f.Name()+"<-"+who, c.instrPos(w.Instr), fmt.Sprintf("%s of %s.%s outside %v: a state that did not pass the reload checks can be put in use / the previous state does not stay in use", w.Kind, owner, f.Name(), g10Keys(allow)))
			}
		}
		if bad == 0 {
			c.OK(rule, owner+"."+f.Name(), fmt.Sprintf("%d write site(s), all in %v", n, g10Keys(allow)))
		}
	}
	k2("C42.writers", "PKI", fCs, map[string]string{"(*nebula.PKI).reloadCerts": "the only place the identity checks run"})
	k2("C42.writers", "PKI", fPool, map[string]string{"(*nebula.PKI).reloadCAPool": "stores only a pool that loaded without error"})
	for _, fname := range []string{"v1Cert", "v2Cert", "v1Credential", "v2Credential", "privateKey"} {
		if f := c.Field("", "CertState", fname); f != nil {
			k2("C42.state", "CertState", f, map[string]string{"nebula.newCertState": "constructor: the pairing checks dominate its success return; the state is immutable afterwards"})
		}
	}
	nAlloc, badAlloc := 0, 0
	for _, fn := range funcs {
		eachInstr(fn, func(in ssa.Instruction) {
			al, ok := in.(*ssa.Alloc)
			if !ok || c.isTestHelperFile(in) {
				return
			}
			if n, isN := types.Unalias(al.Type().(*types.Pointer).Elem()).(*types.Named); !isN || n.Obj() != csT.Obj() {
				return
			}
			nAlloc++
			if who := fnName(topFunc(fn)); who != "nebula.newCertState" {
				badAlloc++
				c.Bad("C42.state", "CertState{}<-"+who, c.instrPos(in), "a CertState is constructed outside newCertState: it has not passed the key / curve / network pairing checks")
			}
		})
	}
	if badAlloc == 0 {
		c.OK("C42.state", "CertState{}", fmt.Sprintf("%d allocation(s), all in newCertState", nAlloc))
	}

	newFromCfg := Ref{"", "", "newCertStateFromConfig"}
	isNewState := func(v ssa.Value) bool { return g10CallResult(v, 0, newFromCfg) != nil }
	isCurState := func(v ssa.Value) bool {
		call, _ := callOf(v)
		if call == nil {
			return false
		}
		if matchFunc(calleeObj(call), Ref{"", "PKI", "getCertState"}) {
			return true
		}
		a := callArgs(call)
		return matchFunc(calleeObj(call), Ref{"sync/atomic", "Pointer", "Load"}) && len(a) == 1 && isFieldAddrOf(a[0], fCs)
	}
	// statePtr: v is the state pointer itself (through phis; nil edges ignored), not a value loaded from it
	statePtr := func(side func(ssa.Value) bool) func(r g10Res, v ssa.Value) bool {
		return func(r g10Res, v ssa.Value) bool {
			x := g10Val(r, v)
			if isNilConst(x) {
				return false
			}
			ok, _ := allEdges(x, func(e ssa.Value) bool { return isNilConst(e) || side(e) })
			return ok
		}
	}
	curP, newP := statePtr(isCurState), statePtr(isNewState)

	// ---- reloadCerts
	if fn := c.Func(Ref{"", "PKI", "reloadCerts"}); fn != nil && len(fn.Params) == 3 {
		pInitial := fn.Params[2]
		var sinks []Sink
		for _, w := range fieldWriters([]*ssa.Function{fn}, fCs) {
			sinks = append(sinks, Sink{Instr: w.Instr, Desc: "p.cs store"})
			if ci, ok := w.Instr.(ssa.CallInstruction); ok && w.Kind == "atomic" && len(ci.Common().Args) >= 2 {
				okV, why := allEdges(ci.Common().Args[len(ci.Common().Args)-1], isNewState)
				c.Check(okV, "C42.state", "reloadCerts:stored-value", c.instrPos(w.Instr), "the newCertStateFromConfig result", "the state put in use is not (only) the one newCertStateFromConfig returned ("+why+")")
			}
		}
		certOf := func(side func(g10Res, ssa.Value) bool, f *typesVar) func(g10Res, ssa.Value) bool {
			return func(r g10Res, v ssa.Value) bool {
				u, ok := g10Val(r, v).(*ssa.UnOp)
				if !ok || u.Op != token.MUL {
					return false
				}
				fa, ok := u.X.(*ssa.FieldAddr)
				return ok && fieldOfAddr(fa) == f && side(r, fa.X)
			}
		}
		attrOf := func(m Ref, cert func(g10Res, ssa.Value) bool) func(g10Res, ssa.Value) bool {
			return func(r g10Res, v ssa.Value) bool {
				call, _ := callOf(g10Val(r, v))
				return call != nil && matchFunc(calleeObj(call), m) && cert(r, callArgs(call)[0])
			}
		}
		bind := func(r g10Res, p func(g10Res, ssa.Value) bool) func(ssa.Value) bool {
			return func(v ssa.Value) bool { return p(r, v) }
		}
		// tie: attribute of the old certificate `old` compared equal to that of the new certificate `nw`
		tie := func(r g10Res, attr string, old, nw *typesVar) Guard {
			if attr == "networks" {
				a, b := bind(r, attrOf(c42Networks, certOf(curP, old))), bind(r, attrOf(c42Networks, certOf(newP, nw)))
				return gAny("", gBool("", true, -1, CallSpec{Refs: c42Equal, Args: map[int]func(ssa.Value) bool{0: a, 1: b}}),
					gBool("", true, -1, CallSpec{Refs: c42Equal, Args: map[int]func(ssa.Value) bool{0: b, 1: a}}))
			}
			return gCmp("", bind(r, attrOf(c42Curve, certOf(curP, old))), bind(r, attrOf(c42Curve, certOf(newP, nw))), mustEqual)
		}
		absent := func(r g10Res, side func(g10Res, ssa.Value) bool, f *typesVar) Guard {
			return gValNil("", bind(r, certOf(side, f)))
		}
		present := func(r g10Res, side func(g10Res, ssa.Value) bool, f *typesVar) Guard {
			return gValNotNil("", bind(r, certOf(side, f)))
		}
		first := func(r g10Res) Guard { // no previous state: the initial load
			return gAny("", gValNil("", bind(r, curP)), gValBool("", true, func(v ssa.Value) bool { return g10Val(r, v) == pInitial }))
		}
		type shape struct {
			name, why string
			mk        func(r g10Res, attr string) Guard
		}
		shapes := []shape{
			{"v1-kept", "both states hold a v1 certificate", func(r g10Res, a string) Guard {
				return gAny("", tie(r, a, fV1, fV1), absent(r, newP, fV1), absent(r, curP, fV1), first(r))
			}},
			{"v2-kept", "both states hold a v2 certificate", func(r g10Res, a string) Guard {
				return gAny("", tie(r, a, fV2, fV2), absent(r, newP, fV2), absent(r, curP, fV2), first(r))
			}},
			{"v2-removed", "the old state holds a v2 certificate and the new one only a v1", func(r g10Res, a string) Guard {
				alts := []Guard{tie(r, a, fV2, fV1), present(r, newP, fV2), absent(r, curP, fV2), absent(r, newP, fV1), first(r)}
				if a == "curve" { // both old certificates share one curve (newCertState): either may be compared
					alts = append(alts, tie(r, a, fV1, fV1))
				}
				return gAny("", alts...)
			}},
			{"v1-replaced-by-v2", "the old state holds only a v1 certificate and the new one only a v2", func(r g10Res, a string) Guard {
				return gAny("", tie(r, a, fV1, fV2), present(r, newP, fV1), present(r, curP, fV2), absent(r, newP, fV2), absent(r, curP, fV1), first(r))
			}},
		}
		okLoad, _, path := c.g10MustPassAll(fn, sinks, gErrNil("", callTo(newFromCfg)))
		c.Check(okLoad && len(sinks) > 0, "C42.reload", "reloadCerts:store<-new-state-loaded", c.P.Pos(fn.Pos()), "store only after newCertStateFromConfig returned no error", "the new state is stored although loading it failed: "+strings.Join(path, " -> "))
		for _, sh := range shapes {
			for _, attr := range []string{"networks", "curve"} {
				sh, attr := sh, attr
				g := c.g10Summ(attr+" equal ("+sh.name+")", func(r g10Res) Guard { return sh.mk(r, attr) })
				ok, n, path := c.g10MustPassAll(fn, sinks, g)
				cons := "reloadCerts:store<-" + attr + ":" + sh.name
				switch {
				case len(sinks) == 0:
					c.Unknown("C42.reload", cons, "no store of PKI.cs found in reloadCerts: cannot decide")
				case ok:
					c.OK("C42.reload", cons, fmt.Sprintf("every path passes one of %d test(s) or the shape does not apply", n))
				default:
					c.Bad("C42.reload", cons, c.instrPos(sinks[0].Instr), fmt.Sprintf("when %s, the new state is stored on a path where the %s of an old certificate was never compared equal to the %s of a new one: a reload can change the node's %s (%d related tests found)", sh.why, attr, attr, attr, n), path...)
				}
			}
		}
	}
	if fn := c.Func(newFromCfg); fn != nil {
		ok, why := true, ""
		for _, b := range fn.Blocks {
			if ret, isR := b.Instrs[len(b.Instrs)-1].(*ssa.Return); isR && len(ret.Results) == 2 {
				okR, w := allEdges(retResult(ret, 0), func(v ssa.Value) bool {
					return isNilConst(v) || g10CallResult(v, 0, Ref{"", "", "newCertState"}) != nil
				})
				if !okR {
					ok, why = false, w
				}
			}
		}
		c.Check(ok, "C42.state", "newCertStateFromConfig:returns", c.P.Pos(fn.Pos()), "nil or the newCertState result", "newCertStateFromConfig can return a state that newCertState did not build ("+why+")")
	}
	c42Pair(c)
	c42CA(c, fPool)
	c42PoolFresh(c, funcs, fPool)
}

// ---- newCertState / loadCertificate
func c42Pair(c *Ctx) {
	fn := c.Func(Ref{"", "", "newCertState"})
	if fn == nil {
		return
	}
	if len(fn.Params) != 7 || errResultIndex(fn) != 1 {
		c.Unknown("C42.pair", "newCertState", "signature changed: cannot decide")
		return
	}
	pV1, pV2, pHSM, pCurve, pKey := fn.Params[1], fn.Params[2], fn.Params[3], fn.Params[4], fn.Params[5]
	sinks := successReturns(fn, 1)
	is := func(r g10Res, p ssa.Value) func(ssa.Value) bool {
		return func(v ssa.Value) bool { return g10Val(r, v) == p }
	}
	attr := func(r g10Res, m Ref, p ssa.Value) func(ssa.Value) bool {
		return func(v ssa.Value) bool {
			call, _ := callOf(g10Val(r, v))
			return call != nil && matchFunc(calleeObj(call), m) && is(r, p)(callArgs(call)[0])
		}
	}
	firstNet := func(r g10Res, p ssa.Value) func(ssa.Value) bool {
		return func(v ssa.Value) bool {
			u, ok := g10Val(r, v).(*ssa.UnOp)
			if !ok || u.Op != token.MUL {
				return false
			}
			ia, ok := u.X.(*ssa.IndexAddr)
			return ok && isIntConst(0)(ia.Index) && attr(r, c42Networks, p)(ia.X)
		}
	}
	oneAbsent := func(r g10Res) Guard { return gAny("", gValNil("", is(r, pV1)), gValNil("", is(r, pV2))) }
	both := []struct {
		name string
		mk   func(r g10Res) Guard
	}{
		{"public-keys-equal", func(r g10Res) Guard {
			pk := Ref{"cert", "Certificate", "PublicKey"}
			return gAny("", gBool("", true, -1, CallSpec{Refs: c42Equal, Args: map[int]func(ssa.Value) bool{0: attr(r, pk, pV1), 1: attr(r, pk, pV2)}}),
				gBool("", true, -1, CallSpec{Refs: c42Equal, Args: map[int]func(ssa.Value) bool{0: attr(r, pk, pV2), 1: attr(r, pk, pV1)}}), oneAbsent(r))
		}},
		{"curves-equal", func(r g10Res) Guard {
			return gAny("", gCmp("", attr(r, c42Curve, pV1), attr(r, c42Curve, pV2), mustEqual), oneAbsent(r))
		}},
		{"first-networks-equal", func(r g10Res) Guard {
			return gAny("", gCmp("", firstNet(r, pV1), firstNet(r, pV2), mustEqual), oneAbsent(r))
		}},
	}
	report := func(cons string, g Guard, bad string) {
		ok, n, path := c.g10MustPassAll(fn, sinks, g)
		switch {
		case len(sinks) == 0:
			c.Unknown("C42.pair", cons, "no success return found: cannot decide")
		case ok:
			c.OK("C42.pair", cons, fmt.Sprintf("%d success return(s) behind %d test(s)", len(sinks), n))
		default:
			c.Bad("C42.pair", cons, c.instrPos(sinks[0].Instr), bad+" ("+fmt.Sprint(n)+" matching tests)", path...)
		}
	}
	for _, b := range both {
		report("newCertState:success<-"+b.name, c.g10Summ(b.name, b.mk), "a certificate state with a v1 and a v2 certificate is accepted without the test "+b.name+": the two certificates in use need not share one key pair / curve / primary network")
	}
	for _, pv := range []struct {
		name string
		p    ssa.Value
	}{{"v1", pV1}, {"v2", pV2}} {
		pv := pv
		g := c.g10Summ("private key verified for "+pv.name, func(r g10Res) Guard {
			return gAny("", gErrNil("", CallSpec{Refs: []Ref{{"cert", "Certificate", "VerifyPrivateKey"}}, Args: map[int]func(ssa.Value) bool{0: is(r, pv.p), 1: is(r, pCurve), 2: is(r, pKey)}}),
				gValNil("", is(r, pv.p)), gValBool("", true, is(r, pHSM)))
		})
		report("newCertState:success<-private-key-verified:"+pv.name, g, "a state whose "+pv.name+" certificate was not verified against the configured private key (and is not PKCS#11 backed) is accepted: certificate and key in use need not be a pair")
	}
	// the verified key is the one kept and used; the verified certificates are the ones stored
	fKey, fC1, fC2 := c.Field("", "CertState", "privateKey"), c.Field("", "CertState", "v1Cert"), c.Field("", "CertState", "v2Cert")
	stored := map[*typesVar][]ssa.Value{}
	eachInstr(fn, func(in ssa.Instruction) {
		if st, ok := in.(*ssa.Store); ok {
			if fa, ok := st.Addr.(*ssa.FieldAddr); ok {
				stored[fieldOfAddr(fa)] = append(stored[fieldOfAddr(fa)], st.Val)
			}
		}
	})
	for _, w := range []struct {
		f    *typesVar
		want ssa.Value
	}{{fKey, pKey}, {fC1, pV1}, {fC2, pV2}} {
		if w.f == nil {
			continue
		}
		ok := len(stored[w.f]) > 0
		for _, v := range stored[w.f] {
			ok = ok && stripValue(v) == w.want
		}
		c.Check(ok, "C42.pair", "newCertState:"+w.f.Name()+"=verified-value", c.P.Pos(fn.Pos()), "the stored value is the checked parameter", "CertState."+w.f.Name()+" is not set from the parameter the pairing checks were made on")
	}
	okCred, nCred := true, 0
	for _, ci := range callsIn(fn, Ref{"handshake", "", "NewCredential"}) {
		a := ci.Common().Args
		nCred++
		okCred = okCred && len(a) == 4 && stripValue(a[2]) == ssa.Value(pKey) && (a[0] == ssa.Value(pV1) || a[0] == ssa.Value(pV2))
	}
	c.Check(okCred && nCred > 0, "C42.pair", "newCertState:credential-key=verified-key", c.P.Pos(fn.Pos()), fmt.Sprintf("%d credential(s) built from the verified certificate and key", nCred), "a handshake credential is built from a key or certificate other than the verified ones")

	// a certificate without networks never reaches newCertState (it indexes Networks()[0])
	if lc := c.Func(Ref{"", "", "loadCertificate"}); lc != nil {
		idx := errResultIndex(lc)
		var vs []g10ValSink
		if idx >= 0 {
			vs = g10ValueSinks(lc, idx, 0)
		}
		if len(vs) == 0 {
			c.Unknown("C42.pair", "loadCertificate:success<-has-networks", "no success return found: cannot decide")
		}
		for i, s := range vs {
			crt := s.Val
			g := c.g10Summ("len(Networks()) != 0", func(r g10Res) Guard {
				return g10LenGuard("", func(v ssa.Value) bool {
					call, _ := callOf(g10Val(r, v))
					return call != nil && matchFunc(calleeObj(call), c42Networks) && g10Val(r, callArgs(call)[0]) == stripValue(crt)
				}, false)
			})
			ok, n, path := c.mustPass(lc, s.Sink, g)
			cons := fmt.Sprintf("loadCertificate:success#%d<-has-networks", i)
			if ok {
				c.OK("C42.pair", cons, fmt.Sprintf("%d test(s)", n))
			} else {
				c.Bad("C42.pair", cons, c.instrPos(s.Instr), "a host certificate without networks is accepted: the primary-network comparison indexes Networks()[0] and the node would have no overlay address", path...)
			}
		}
	}
}

// ---- CA pool reload
func c42CA(c *Ctx, fPool *typesVar) {
	load := Ref{"", "", "loadCAPoolFromConfig"}
	if fn := c.Func(Ref{"", "PKI", "reloadCAPool"}); fn != nil {
		var sinks []Sink
		okVal, why := true, ""
		for _, w := range fieldWriters([]*ssa.Function{fn}, fPool) {
			sinks = append(sinks, Sink{Instr: w.Instr, Desc: "p.caPool store"})
			if ci, ok := w.Instr.(ssa.CallInstruction); ok && w.Kind == "atomic" {
				a := ci.Common().Args
				if ok2, w2 := allEdges(a[len(a)-1], func(v ssa.Value) bool { return g10CallResult(v, 0, load) != nil }); !ok2 {
					okVal, why = false, w2
				}
			}
		}
		ok, _, path := c.g10MustPassAll(fn, sinks, gErrNil("", callTo(load)))
		c.Check(ok && len(sinks) > 0, "C42.ca", "reloadCAPool:store<-load-ok", c.P.Pos(fn.Pos()), "stored only after loadCAPoolFromConfig returned no error", "the trust store is replaced although the CA bundle failed to load (the previous pool does not stay in use) "+strings.Join(path, " -> "))
		c.Check(okVal && len(sinks) > 0, "C42.ca", "reloadCAPool:stored-value", c.P.Pos(fn.Pos()), "the loaded pool", "the pool stored is not the one loadCAPoolFromConfig returned ("+why+")")
	}
	fn := c.Func(load)
	if fn == nil {
		return
	}
	idx := errResultIndex(fn)
	parse := Ref{"cert", "", "NewCAPoolFromPEMReader"}
	sinks := g10ValueSinks(fn, idx, 0)
	if len(sinks) == 0 {
		c.Unknown("C42.ca", "loadCAPoolFromConfig:success", "no success return found: cannot decide")
		return
	}
	parsed := gAny("bundle parsed", gErrNil("", callTo(parse)),
		gBool("", true, -1, CallSpec{Refs: []Ref{{"errors", "", "Is"}}, Args: map[int]func(ssa.Value) bool{
			0: func(v ssa.Value) bool { return g10CallResult(v, 1, parse) != nil },
			1: func(v ssa.Value) bool {
				u, ok := stripValue(v).(*ssa.UnOp)
				if !ok {
					return false
				}
				g, ok := u.X.(*ssa.Global)
				return ok && g.Object() != nil && g.Object().Name() == "ErrExpired" && g.Object().Pkg().Path() == PkgPath("cert")
			}}}))
	for i, s := range sinks {
		cons := fmt.Sprintf("loadCAPoolFromConfig:success#%d", i)
		if _, reach := reachable(fn.Blocks[0], nil)[s.Instr.Block()]; !reach {
			continue // the recover block
		}
		ok, n, path := c.mustPass(fn, s.Sink, parsed)
		if ok {
			c.OK("C42.ca", cons+"<-bundle-parsed", fmt.Sprintf("%d test(s)", n))
		} else {
			c.Bad("C42.ca", cons+"<-bundle-parsed", c.instrPos(s.Instr), "loading the CA bundle reports success although NewCAPoolFromPEMReader failed with an error other than ErrExpired: an unreadable bundle replaces the trust store", path...)
		}
		pool := stripValue(s.Val)
		c.Check(g10CallResult(pool, 0, parse) != nil, "C42.ca", cons+":returned-pool", c.instrPos(s.Instr), "the parsed pool", "the pool returned is not the one parsed from the bundle")
		// blocklist: every element of the configured list is applied to the returned pool
		isList := func(v ssa.Value) bool { return g10CallResult(v, -1, Ref{"config", "C", "GetStringSlice"}) != nil }
		isPool := func(v ssa.Value) bool { return stripValue(v) == pool }
		cuts, loose := c42BlocklistCuts(c, fn, isList, isPool, true)
		consB := cons + "<-blocklist-applied"
		switch {
		case len(cuts) == 0 && loose:
			c.Unknown("C42.ca", consB, "BlocklistFingerprint is applied to the returned pool, but not in the body of a range loop over the configured list (in line or in a one-level helper): unrecognised shape")
		case len(cuts) == 0:
			c.Bad("C42.ca", consB, c.instrPos(s.Instr), "no loop over the configured pki.blocklist applies BlocklistFingerprint to the returned pool on every iteration: newly blocklisted peers stay trusted after a reload")
		default:
			skip, _ := passEdges(fn, c42EmptyList(isList))
			av, path2 := c.g10AvoidsPath(fn, s.Instr, func(in ssa.Instruction) bool { return cuts[in] }, skip)
			c.Check(!av, "C42.ca", consB, c.instrPos(s.Instr), "every success path runs the blocklist loop (or the list is empty)", "a success path skips the blocklist loop although the list is not empty: "+path2)
		}
	}
}

func c42EmptyList(isList func(ssa.Value) bool) Guard {
	return g10LenGuard("len(blocklist) == 0", isList, true)
}

// c42BlocklistCuts returns the instructions of f after which every element of the list has been
// passed to BlocklistFingerprint on the pool: the header test of a range loop over the list whose
// body applies it unconditionally, or (one level) a call to a module function that does so on every
// path for its own parameters. loose: some BlocklistFingerprint on the pool exists at all.
func c42BlocklistCuts(c *Ctx, f *ssa.Function, isList, isPool func(ssa.Value) bool, summarise bool) (map[ssa.Instruction]bool, bool) {
	cuts := map[ssa.Instruction]bool{}
	loose := false
	bl := Ref{"cert", "CAPool", "BlocklistFingerprint"}
	for _, ci := range callsIn(f, bl) {
		loose = loose || isPool(ci.Common().Args[0])
	}
	for _, li := range findRangeLoops(f, isList) {
		for _, ci := range g10CallsInBlock(li.Body, bl) {
			a := ci.Common().Args
			if isPool(a[0]) && derivesFrom(a[1], sliceLocal, isList) {
				cuts[li.Header.Instrs[len(li.Header.Instrs)-1]] = true
			}
		}
	}
	if !summarise {
		return cuts, loose
	}
	eachInstr(f, func(in ssa.Instruction) {
		call, ok := in.(*ssa.Call)
		if !ok || call.Call.StaticCallee() == nil || call.Call.IsInvoke() {
			return
		}
		g := call.Call.StaticCallee()
		if g.Blocks == nil || pkgPathOf(g) != nebulaMod {
			return
		}
		args := call.Call.Args
		res := func(pred func(ssa.Value) bool) func(ssa.Value) bool {
			return func(v ssa.Value) bool {
				if p, isP := stripValue(v).(*ssa.Parameter); isP && p.Parent() == g {
					for k, gp := range g.Params {
						if gp == p && k < len(args) {
							return pred(args[k])
						}
					}
				}
				return false
			}
		}
		gl, gp := res(isList), res(isPool)
		sub, subLoose := c42BlocklistCuts(c, g, gl, gp, false)
		loose = loose || subLoose
		if len(sub) == 0 {
			return
		}
		skip, _ := passEdges(g, c42EmptyList(gl))
		for _, b := range g.Blocks {
			if ret, isR := b.Instrs[len(b.Instrs)-1].(*ssa.Return); isR {
				if av, _ := c.g10AvoidsPath(g, ret, func(x ssa.Instruction) bool { return sub[x] }, skip); av {
					return
				}
			}
		}
		cuts[in] = true
	})
	return cuts, loose
}

// ---- GetCAPool results are used, never kept
func c42PoolFresh(c *Ctx, funcs []*ssa.Function, fPool *typesVar) {
	get := c.Func(Ref{"", "PKI", "GetCAPool"})
	if get == nil {
		return
	}
	okGet := false
	for _, b := range get.Blocks {
		if ret, ok := b.Instrs[len(b.Instrs)-1].(*ssa.Return); ok && len(ret.Results) == 1 {
			call, _ := callOf(ret.Results[0])
			okGet = call != nil && matchFunc(calleeObj(call), Ref{"sync/atomic", "Pointer", "Load"}) && isFieldAddrOf(callArgs(call)[0], fPool)
		}
	}
	c.Check(okGet, "C42.pool-fresh", "GetCAPool:returns-current", c.P.Pos(get.Pos()), "returns p.caPool.Load()", "GetCAPool does not return the atomically loaded current pool")
	sources := map[*ssa.Function]bool{get: true} // GetCAPool and thin wrappers returning its result
	for changed := true; changed; {
		changed = false
		for _, fn := range funcs {
			if c.isTestFile(fn.Pos()) {
				continue
			}
			ord := 0
			eachInstr(fn, func(in ssa.Instruction) {
				call, ok := in.(*ssa.Call)
				if !ok || call.Call.StaticCallee() == nil || !sources[call.Call.StaticCallee()] {
					return
				}
				cons := fmt.Sprintf("%s:%s#%d", fnName(fn), call.Call.StaticCallee().Name(), ord)
				ord++
				kept := ""
				seen := map[ssa.Value]bool{}
				var flow func(v ssa.Value)
				flow = func(v ssa.Value) {
					if seen[v] || v.Referrers() == nil {
						return
					}
					seen[v] = true
					for _, r := range *v.Referrers() {
						switch x := r.(type) {
						case *ssa.Phi:
							flow(x)
						case *ssa.ChangeType:
							flow(x)
						case *ssa.MakeInterface:
							flow(x)
						case *ssa.Store:
							if x.Val != v {
								continue
							}
							if root, _ := addrRoot(x.Addr); g10IsAlloc(root) {
								flow(root) // a local variable: follow its loads
								continue
							}
							kept = "stored at " + c.instrPos(x)
						case *ssa.UnOp:
							if x.Op == token.MUL {
								flow(x)
							}
						case *ssa.MapUpdate:
							if x.Value == v {
								kept = "put in a map at " + c.instrPos(x)
							}
						case *ssa.MakeClosure:
							kept = "captured by a closure at " + c.instrPos(x)
						case *ssa.Send:
							kept = "sent on a channel at " + c.instrPos(x)
						case *ssa.Return:
							if !sources[fn] && fn.Signature.Results().Len() == 1 {
								sources[fn] = true
								changed = true
							}
						}
					}
				}
				flow(call)
				c.Check(kept == "", "C42.pool-fresh", cons, c.instrPos(call), "used at the call, not kept", "the CA pool obtained here is "+kept+": a later reload (new CA set, new blocklist) is not seen by its users, so newly untrusted peers are not disconnected")
			})
		}
	}
	// the periodic check verifies against the pool read at check time
	if fn := c.Func(Ref{"", "connectionManager", "isInvalidCertificate"}); fn != nil && len(fn.Params) >= 2 {
		ok := false
		for _, ci := range callsIn(fn, Ref{"cert", "CAPool", "VerifyCachedCertificate"}) {
			a := callArgs(ci)
			pool, _ := callOf(g10Load(a[0]))
			ok = pool != nil && pool.Call.StaticCallee() != nil && sources[pool.Call.StaticCallee()] && a[1] == ssa.Value(fn.Params[1])
		}
		c.Check(ok, "C42.pool-fresh", "isInvalidCertificate:pool-at-check-time", c.P.Pos(fn.Pos()), "GetCAPool().VerifyCachedCertificate(now, cert)", "the periodic certificate check does not verify against the CA pool read at the check time: newly blocklisted or untrusted peers are not disconnected on the next check")
	}
}

