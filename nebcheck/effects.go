package main

import (
	"go/types"
	"sort"
	"strings"

	"golang.org/x/tools/go/ssa"
)

// EffectSummary computes, for functions of the nebula module, whether they (transitively) write
// tunnel state or reach an I/O sink. Callee resolution: static callees; interface calls resolved
// by class hierarchy over the nebula module's own types (CHA restricted to the module); dynamic
// calls through function values are treated as effectful only if tabled.
type EffectSummary struct {
	c        *Ctx
	tracked  map[*types.TypeName]bool // struct types whose fields are tunnel state
	sinks    []Ref                    // calls that are effects by themselves
	memo     map[*ssa.Function]string // "" = none, else first reason
	inprog   map[*ssa.Function]bool
	implMemo map[*types.Func][]*ssa.Function
}

func (c *Ctx) newEffects(trackedTypes []string, sinks []Ref) *EffectSummary {
	es := &EffectSummary{c: c, tracked: map[*types.TypeName]bool{}, sinks: sinks, memo: map[*ssa.Function]string{}, inprog: map[*ssa.Function]bool{}, implMemo: map[*types.Func][]*ssa.Function{}}
	for _, t := range trackedTypes {
		pkg, name := "", t
		if i := strings.LastIndexByte(t, '.'); i >= 0 {
			pkg, name = t[:i], t[i+1:]
		}
		if n := c.NamedType(pkg, name); n != nil {
			es.tracked[n.Obj()] = true
		}
	}
	return es
}

// directEffect: fn itself writes a tracked field / element, or calls a sink.
func (es *EffectSummary) directEffect(fn *ssa.Function) string {
	reason := ""
	eachInstr(fn, func(in ssa.Instruction) {
		if reason != "" {
			return
		}
		switch x := in.(type) {
		case *ssa.Store:
			if t := es.trackedRoot(x.Addr); t != "" {
				reason = "writes " + t
			}
		case *ssa.MapUpdate:
			if t := es.trackedRoot(x.Map); t != "" {
				reason = "updates map " + t
			}
		case ssa.CallInstruction:
			if bn := builtinName(x); bn == "delete" || bn == "clear" {
				if t := es.trackedRoot(x.Common().Args[0]); t != "" {
					reason = bn + " on " + t
				}
				return
			}
			o := calleeObj(x)
			if matchAny(o, es.sinks) {
				reason = "calls " + o.Name()
				return
			}
			// atomic writes on tracked fields
			if o != nil && o.Pkg() != nil && o.Pkg().Path() == "sync/atomic" && atomicWriteMethods[o.Name()] {
				if a := callArgs(x); len(a) > 0 {
					if t := es.trackedRoot(a[0]); t != "" {
						reason = "atomic " + o.Name() + " on " + t
					}
				}
			}
		}
	})
	return reason
}

// trackedRoot: the address/value is (a field / element of) a tracked struct reached through a
// pointer (not a fresh local allocation). Returns "Type.field".
func (es *EffectSummary) trackedRoot(v ssa.Value) string {
	for d := 0; d < 8; d++ {
		switch x := v.(type) {
		case *ssa.FieldAddr:
			t := x.X.Type()
			if p, ok := t.Underlying().(*types.Pointer); ok {
				t = p.Elem()
			}
			if n := recvNamed(t); n != nil && es.tracked[n.Obj()] {
				// ignore writes into a struct freshly allocated in this function (constructor)
				if root, _ := addrRoot(x); isFreshAlloc(root) {
					return ""
				}
				return n.Obj().Name() + "." + fieldOfAddr(x).Name()
			}
			v = x.X
		case *ssa.IndexAddr:
			v = x.X
		case *ssa.UnOp:
			v = x.X
		case *ssa.Slice:
			v = x.X
		default:
			return ""
		}
	}
	return ""
}

func isFreshAlloc(v ssa.Value) bool {
	switch v.(type) {
	case *ssa.Alloc:
		return true
	}
	return false
}

// Effect returns a non-empty reason if fn may (transitively) have an effect.
func (es *EffectSummary) Effect(fn *ssa.Function) string {
	if fn == nil || fn.Blocks == nil {
		return ""
	}
	if r, ok := es.memo[fn]; ok {
		return r
	}
	if es.inprog[fn] {
		return ""
	}
	es.inprog[fn] = true
	defer delete(es.inprog, fn)
	r := es.directEffect(fn)
	if r == "" {
		for _, a := range fn.AnonFuncs {
			if rr := es.Effect(a); rr != "" {
				r = "closure: " + rr
				break
			}
		}
	}
	if r == "" {
		eachInstr(fn, func(in ssa.Instruction) {
			if r != "" {
				return
			}
			ci, ok := in.(ssa.CallInstruction)
			if !ok {
				return
			}
			for _, callee := range es.callees(ci) {
				if !strings.HasPrefix(pkgPathOf(callee), nebulaMod) {
					continue
				}
				if rr := es.Effect(callee); rr != "" {
					r = "-> " + callee.Name() + " " + rr
					if len(r) > 160 {
						r = r[:160]
					}
					return
				}
			}
		})
	}
	es.memo[fn] = r
	return r
}

func pkgPathOf(f *ssa.Function) string {
	if f.Pkg != nil {
		return f.Pkg.Pkg.Path()
	}
	if f.Parent() != nil {
		return pkgPathOf(f.Parent())
	}
	if o := f.Object(); o != nil && o.Pkg() != nil {
		return o.Pkg().Path()
	}
	return ""
}

// callees resolves a call: static callee, or all nebula implementations of the interface method.
func (es *EffectSummary) callees(ci ssa.CallInstruction) []*ssa.Function {
	cc := ci.Common()
	if !cc.IsInvoke() {
		if f := cc.StaticCallee(); f != nil {
			return []*ssa.Function{f}
		}
		return nil
	}
	return es.implementations(cc.Method)
}

func (es *EffectSummary) implementations(m *types.Func) []*ssa.Function {
	if r, ok := es.implMemo[m]; ok {
		return r
	}
	var out []*ssa.Function
	sig := m.Type().(*types.Signature)
	iface, _ := sig.Recv().Type().Underlying().(*types.Interface)
	if iface != nil {
		for path, sp := range es.c.P.SSAPkgs {
			if !strings.HasPrefix(path, nebulaMod) {
				continue
			}
			for _, mem := range sp.Members {
				tm, ok := mem.(*ssa.Type)
				if !ok {
					continue
				}
				for _, t := range []types.Type{tm.Type(), types.NewPointer(tm.Type())} {
					if types.IsInterface(t) || !types.Implements(t, iface) {
						continue
					}
					sel := es.c.P.SSA.MethodSets.MethodSet(t).Lookup(m.Pkg(), m.Name())
					if sel != nil {
						if f := es.c.P.SSA.MethodValue(sel); f != nil {
							out = append(out, f)
						}
					}
				}
			}
		}
	}
	sort.Slice(out, func(i, j int) bool { return out[i].String() < out[j].String() })
	es.implMemo[m] = out
	return out
}

// EffectOfCall: reason if the call instruction may have an effect.
func (es *EffectSummary) EffectOfCall(ci ssa.CallInstruction) string {
	if o := calleeObj(ci); matchAny(o, es.sinks) {
		return "calls " + o.Name()
	}
	for _, f := range es.callees(ci) {
		if !strings.HasPrefix(pkgPathOf(f), nebulaMod) {
			continue
		}
		if r := es.Effect(f); r != "" {
			return r
		}
	}
	return ""
}
