package main

import (
	"fmt"
	"go/token"
	"strings"

	"golang.org/x/tools/go/ssa"
)

func init() {
	register(&Property{
		ID: "C04", Title: "Issuance never exceeds the signing CA",
		Patterns:  []string{"./cert/...", "./cmd/nebula-cert"},
		Technique: "CFG guard reachability on TBSCertificate.SignWith with a case split on the signer, argument provenance (no transposition) into the shared constraint checker, must-normalise-before-setSignature on the P-256 path, who-may-call tables",
		LevelText: "Structural necessary conditions decided on all paths of SignWith: success requires curve agreement; with a signer: not a CA, the same checkCAConstraints the verifier uses with each argument taken from the like-named TBS field, issuer set to the signer's fingerprint; without a signer: IsCA; the version's fromTBSCertificate (ending in validate) succeeded; on P-256 the signature handed to setSignature is p256.Normalize's result. setSignature and checkCAConstraints have no other callers than the tabled ones; the CLI signs only after the CA key was checked against the CA certificate and the CA is unexpired.",
		LevelNote: "Not decided: p256.Normalize arithmetic yields low-S; that a constraint-clean certificate verifies is C01's rule set over the same checkCAConstraints function object.",
		Explanation: "K1 guard-set with case split (signer nil / non-nil), K11 argument provenance, phi-edge guard for the P-256 normalisation, K2 callers of setSignature/checkCAConstraints, K1 on cmd/nebula-cert signCert and ca",
		Run:       runC04,
		Canaries: func(c *Ctx) []Canary {
			return []Canary{
				{Name: "skip-constraints-when-no-groups", File: "cert/sign.go", Old: "err := checkCAConstraints(signer, t.NotBefore, t.NotAfter, t.Groups, t.Networks, t.UnsafeNetworks)\n\t\tif err != nil {\n\t\t\treturn nil, err\n\t\t}", New: "if len(t.Groups) > 0 {\n\t\t\terr := checkCAConstraints(signer, t.NotBefore, t.NotAfter, t.Groups, t.Networks, t.UnsafeNetworks)\n\t\t\tif err != nil {\n\t\t\t\treturn nil, err\n\t\t\t}\n\t\t}", Rule: "C04.signwith"},
				{Name: "networks-passed-twice", File: "cert/sign.go", Old: "t.Groups, t.Networks, t.UnsafeNetworks)", New: "t.Groups, t.Networks, t.Networks)", Rule: "C04.args"},
				{Name: "normalize-removed", File: "cert/sign.go", Old: "\t\tsig, err = p256.Normalize(sig)\n", New: "\t\t_, err = p256.Normalize(sig)\n", Rule: "C04.low-s"},
				{Name: "ca-may-sign-ca", File: "cert/sign.go", Old: "\t\tif t.IsCA {\n\t\t\treturn nil, fmt.Errorf(\"can not sign a CA certificate with another\")\n\t\t}\n", New: "", Rule: "C04.signwith"},
				{Name: "v2-notbefore-notafter-swapped", File: "cert/cert_v2.go", Old: "\t\tnotBefore:      t.NotBefore,\n\t\tnotAfter:       t.NotAfter,\n\t\tissuer:         t.issuer,", New: "\t\tnotBefore:      t.NotAfter,\n\t\tnotAfter:       t.NotBefore,\n\t\tissuer:         t.issuer,", Rule: "C04.args"},
			}
		},
	})
}

func runC04(c *Ctx) {
	c.Rule("C04.signwith", "K1: SignWith succeeds only if curve==t.Curve; signer!=nil => !IsCA, checkCAConstraints ok, signer.Fingerprint ok; signer==nil => IsCA; fromTBSCertificate, marshalForSigning, signer lambda and setSignature all succeeded", 8)
	c.Rule("C04.args", "K11: checkCAConstraints receives (signer, t.NotBefore, t.NotAfter, t.Groups, t.Networks, t.UnsafeNetworks); t.issuer <- signer.Fingerprint(); fromTBSCertificate copies each TBS field into the like-named details field", 3)
	c.Rule("C04.low-s", "K1/K11: on every path where curve == P256 the value passed to setSignature is p256.Normalize's result", 1)
	c.Rule("C04.callers", "K2: setSignature is called only from SignWith and CalculateAlternateFingerprint; checkCAConstraints only from SignWith and CheckCAConstraints (shared with the verifier)", 2)
	c.Rule("C04.cli", "K1: nebula-cert sign reaches Sign/SignWith only with an unexpired CA whose private key was verified against it (non-PKCS#11), and signs leaf certificates with IsCA=false; nebula-cert ca self-signs with IsCA=true", 3)

	fn := c.Func(Ref{"cert", "TBSCertificate", "SignWith"})
	tbs := c.NamedType("cert", "TBSCertificate")
	if fn == nil || tbs == nil {
		return
	}
	pT, pSigner, pCurve := fn.Params[0], fn.Params[1], fn.Params[2]
	_ = pT
	tbsField := func(name string) func(ssa.Value) bool {
		f := c.Field("cert", "TBSCertificate", name)
		return func(v ssa.Value) bool { return f != nil && loadsField(v, f) }
	}
	sinks := successReturns(fn, 1)
	bsc := "beingSignedCertificate"
	c.requireGuards("C04.signwith", fn, sinks, "success-return",
		gCmp("curve == t.Curve", func(v ssa.Value) bool { return v == pCurve }, tbsField("Curve"), mustEqual),
		gErrNil("fromTBSCertificate ok (validate)", callTo(Ref{"cert", bsc, "fromTBSCertificate"}, Ref{"cert", "certificateV1", "fromTBSCertificate"}, Ref{"cert", "certificateV2", "fromTBSCertificate"})),
		gErrNil("marshalForSigning ok", callTo(Ref{"cert", bsc, "marshalForSigning"})),
		gErrNil("setSignature ok", callTo(Ref{"cert", bsc, "setSignature"})),
	)
	c.requireDominatingTest("C04.signwith", fn, sinks, "success-return", gValNotNil("signer != nil", func(v ssa.Value) bool { return stripValue(v) == pSigner }))
	withSigner, noSigner := splitEdges(fn, gValNotNil("signer != nil", func(v ssa.Value) bool { return stripValue(v) == pSigner }))
	ccSpec := callTo(Ref{"cert", "", "checkCAConstraints"}).withArg(0, func(v ssa.Value) bool { return stripValue(v) == pSigner })
	c.requireAfter("C04.signwith", fn, "signer!=nil", withSigner, sinks, "success-return",
		gValBool("!t.IsCA", false, tbsField("IsCA")),
		gErrNil("checkCAConstraints(signer, ...) ok", ccSpec),
		gErrNil("signer.Fingerprint() ok", callTo(certM("Fingerprint")).withArg(0, func(v ssa.Value) bool { return stripValue(v) == pSigner })),
	)
	c.requireAfter("C04.signwith", fn, "signer==nil", noSigner, sinks, "success-return",
		gValBool("t.IsCA", true, tbsField("IsCA")),
	)
	// argument provenance
	for _, ci := range callsIn(fn, Ref{"cert", "", "checkCAConstraints"}) {
		args := ci.Common().Args
		want := []string{"", "NotBefore", "NotAfter", "Groups", "Networks", "UnsafeNetworks"}
		var bad []string
		if len(args) != 6 || stripValue(args[0]) != pSigner {
			bad = append(bad, "signer")
		}
		for i := 1; i < 6 && i < len(args); i++ {
			if !tbsField(want[i])(args[i]) {
				bad = append(bad, fmt.Sprintf("arg %d should be t.%s, is %s", i, want[i], exprString(args[i])))
			}
		}
		c.Check(len(bad) == 0, "C04.args", "SignWith:checkCAConstraints-args", c.instrPos(ci), "each constraint argument is the like-named TBS field", strings.Join(bad, "; "))
	}
	if iss := fieldsWrittenBy(fn, tbs)["issuer"]; iss != nil {
		ok := derivesFrom(iss, sliceLocal, func(x ssa.Value) bool {
			call, _ := callOf(x)
			return call != nil && matchFunc(calleeObj(call), certM("Fingerprint")) && stripValue(callArgs(call)[0]) == pSigner
		})
		c.Check(ok, "C04.args", "SignWith:issuer<-signer.Fingerprint()", c.P.Pos(fn.Pos()), "issuer is the signer's fingerprint", "t.issuer is not set from signer.Fingerprint()")
	} else {
		c.Bad("C04.args", "SignWith:issuer<-signer.Fingerprint()", c.P.Pos(fn.Pos()), "t.issuer is never set in SignWith")
	}
	// fromTBSCertificate copies like-named fields and ends in validate()
	for _, ver := range []struct{ recv, det string }{{"certificateV1", "detailsV1"}, {"certificateV2", "detailsV2"}} {
		f := c.Func(Ref{"cert", ver.recv, "fromTBSCertificate"})
		dn := c.NamedType("cert", ver.det)
		cn := c.NamedType("cert", ver.recv)
		if f == nil || dn == nil || cn == nil {
			continue
		}
		w := fieldsWrittenBy(f, dn)
		for k, v := range fieldsWrittenBy(f, cn) {
			if k != "details" {
				w[k] = v
			}
		}
		var bad []string
		n := 0
		for name, val := range w {
			src := fieldsIn(val, tbs, sliceLocal)
			n++
			match := false
			for s := range src {
				if strings.EqualFold(s, name) {
					match = true
				}
			}
			if !match || len(src) != 1 {
				bad = append(bad, fmt.Sprintf("%s <- %s", name, setStr(src)))
			}
		}
		c.Check(len(bad) == 0 && n >= 9, "C04.args", ver.recv+".fromTBSCertificate:field-copy", c.P.Pos(f.Pos()), fmt.Sprintf("%d fields each from the like-named TBS field", n), "field(s) filled from the wrong TBS field: "+strings.Join(bad, ", "))
		okV := true
		rs := successReturns(f, 0)
		for _, s := range rs {
			call, _ := callOf(retResult(s.Instr.(*ssa.Return), 0))
			okV = okV && call != nil && matchFunc(calleeObj(call), Ref{"cert", ver.recv, "validate"})
		}
		c.Check(okV && len(rs) > 0, "C04.signwith", ver.recv+".fromTBSCertificate:returns-validate", c.P.Pos(f.Pos()), "result is validate()", "fromTBSCertificate can succeed without validate()")
	}
	// low-S
	c04LowS(c, fn, pCurve, bsc)
	// callers
	funcs := c.moduleFuncs()
	allowSet := map[string]bool{"(*cert.TBSCertificate).SignWith": true, "cert.CalculateAlternateFingerprint": true}
	bad := 0
	cs := callersOf(funcs, Ref{"cert", bsc, "setSignature"}, Ref{"cert", "certificateV1", "setSignature"}, Ref{"cert", "certificateV2", "setSignature"})
	for _, s := range cs {
		if !allowSet[fnName(topFunc(s.Fn))] {
			bad++
			c.Bad("C04.callers", "setSignature<-"+fnName(topFunc(s.Fn)), c.instrPos(s.Instr), "setSignature called outside the signing path / alternate-fingerprint helper")
		}
	}
	if bad == 0 {
		c.OK("C04.callers", "setSignature", fmt.Sprintf("%d call sites, all allowed", len(cs)))
	}
	allowCC := map[string]bool{"(*cert.TBSCertificate).SignWith": true, "cert.CheckCAConstraints": true}
	cs = callersOf(funcs, Ref{"cert", "", "checkCAConstraints"})
	seen := map[string]bool{}
	for _, s := range cs {
		seen[fnName(topFunc(s.Fn))] = true
		if !allowCC[fnName(topFunc(s.Fn))] {
			c.Bad("C04.callers", "checkCAConstraints<-"+fnName(topFunc(s.Fn)), c.instrPos(s.Instr), "unexpected caller")
		}
	}
	c.Check(seen["(*cert.TBSCertificate).SignWith"] && seen["cert.CheckCAConstraints"], "C04.callers", "checkCAConstraints:shared", "cert/ca_pool.go", "signer and verifier share one constraint function", "signer and verifier no longer share checkCAConstraints")
	c04CLI(c)
}

func c04LowS(c *Ctx, fn *ssa.Function, pCurve *ssa.Parameter, bsc string) {
	calls := callsIn(fn, Ref{"cert", bsc, "setSignature"})
	if len(calls) == 0 {
		c.Bad("C04.low-s", "SignWith:setSignature", c.P.Pos(fn.Pos()), "setSignature call not found")
		return
	}
	isNorm := func(v ssa.Value) bool {
		call, i := callOf(v)
		return call != nil && i == 0 && matchFunc(calleeObj(call), Ref{"cert/p256", "", "Normalize"})
	}
	notP256 := gCmp("curve != P256", func(v ssa.Value) bool { return v == pCurve }, func(v ssa.Value) bool { k, ok := constInt(v); return ok && k == 1 }, mustDiffer)
	for i, ci := range calls {
		arg := callArgs(ci)[1]
		cons := fmt.Sprintf("SignWith:setSignature#%d", i)
		switch x := arg.(type) {
		case *ssa.Phi:
			ok := true
			for k, e := range x.Edges {
				if isNorm(e) {
					// normalised value: its own input must be the signer's output (not checked further)
					continue
				}
				pred := x.Block().Preds[k]
				okE, _, path := c.mustPass(fn, Sink{Instr: x.Block().Instrs[0], ViaPred: pred}, notP256)
				if !okE {
					ok = false
					c.Bad("C04.low-s", cons, c.instrPos(ci), "an un-normalised signature reaches setSignature on a path where the curve may be P-256", path...)
				}
			}
			if ok {
				c.OK("C04.low-s", cons, "un-normalised edge only when curve != P256")
			}
		default:
			if isNorm(arg) {
				c.OK("C04.low-s", cons, "always normalised")
			} else {
				// must be guarded by curve != P256 entirely
				okE, _, path := c.mustPass(fn, Sink{Instr: ci}, notP256)
				if okE {
					c.OK("C04.low-s", cons, "only reachable when curve != P256")
				} else {
					c.Bad("C04.low-s", cons, c.instrPos(ci), "signature handed to setSignature is never normalised to low-S for P-256", path...)
				}
			}
		}
	}
}

func c04CLI(c *Ctx) {
	if c.P.SSAPkgs[PkgPath("cmd/nebula-cert")] == nil {
		c.Unknown("C04.cli", "cmd/nebula-cert", "package not loaded")
		return
	}
	sign := c.Func(Ref{"cmd/nebula-cert", "", "signCert"})
	ca := c.Func(Ref{"cmd/nebula-cert", "", "ca"})
	if sign == nil || ca == nil {
		return
	}
	signSinks := callSinks(sign, "Sign/SignWith", callTo(Ref{"cert", "TBSCertificate", "Sign"}, Ref{"cert", "TBSCertificate", "SignWith"}))
	c.requireGuards("C04.cli", sign, signSinks, "sign-call",
		gBool("CA certificate not expired", false, -1, callTo(certM("Expired"))))
	// VerifyPrivateKey is required on the non-PKCS#11 path: Sign (with raw key) must be guarded
	rawSinks := callSinks(sign, "Sign(raw key)", callTo(Ref{"cert", "TBSCertificate", "Sign"}))
	c.requireGuards("C04.cli", sign, rawSinks, "sign-with-raw-key",
		gAny("CA key matches CA certificate (VerifyPrivateKey), or the PKCS#11 arm that skips it",
			gErrNil("VerifyPrivateKey ok", callTo(certM("VerifyPrivateKey"))),
			gEnclosingBypass("PKCS#11 arm", callTo(certM("VerifyPrivateKey")))))
	// IsCA literal false in signCert, true in ca
	tbs := c.NamedType("cert", "TBSCertificate")
	for _, f := range []struct {
		fn   *ssa.Function
		want bool
	}{{sign, false}, {ca, true}} {
		n, ok := 0, true
		for _, sub := range funcsWithAnon(f.fn) {
			eachInstr(sub, func(in ssa.Instruction) {
				st, isS := in.(*ssa.Store)
				if !isS {
					return
				}
				fa, isF := st.Addr.(*ssa.FieldAddr)
				if !isF || recvNamed(fa.X.Type()) == nil || recvNamed(fa.X.Type()).Obj() != tbs.Obj() || fieldOfAddr(fa).Name() != "IsCA" {
					return
				}
				n++
				bv, isC := boolConst(st.Val)
				if !isC || bv != f.want {
					ok = false
				}
			})
		}
		// a composite literal that omits IsCA leaves it false
		if f.want == false && n == 0 {
			c.OK("C04.cli", fnName(f.fn)+":IsCA", "IsCA left false (zero value)")
			continue
		}
		c.Check(ok && n > 0, "C04.cli", fnName(f.fn)+":IsCA", c.P.Pos(f.fn.Pos()), fmt.Sprintf("IsCA constant %v", f.want), fmt.Sprintf("TBSCertificate.IsCA is not the constant %v here", f.want))
	}
	// ca: Sign(nil, ...)
	for i, ci := range callsInDeep(ca, Ref{"cert", "TBSCertificate", "Sign"}, Ref{"cert", "TBSCertificate", "SignWith"}) {
		c.Check(isNilConst(stripValue(callArgs(ci)[1])), "C04.cli", fmt.Sprintf("ca:self-sign#%d", i), c.instrPos(ci), "signer is nil", "nebula-cert ca signs with a non-nil signer")
	}
}

var _ = token.ADD
