package main

import (
	"fmt"
	"go/token"
	"go/types"
	"sort"
	"strings"

	"golang.org/x/tools/go/ssa"
)

func init() {
	register(&Property{
		ID: "C15", Title: "Relays never see or alter end-to-end traffic",
		Patterns:    []string{"."},
		Technique:   "provenance of the payload handed to every relay send (source classes: ciphertext / handshake message / relay-verified bytes being forwarded vs. plaintext-by-contract), key-to-tunnel pairing at every encrypt call, provenance of the tunnel a received packet is attributed to, forward-flow restriction on the relay identity carried by ViaSender, CFG guards on underlay-address learning",
		LevelText:   "Structural necessary conditions on all paths: every payload given to SendVia/prepareSendVia is (a) the output of the tunnel cipher under the target tunnel's own state, (b) a handshake message, or (c) the relay-authenticated bytes being forwarded, never a plaintext-by-contract value (tun segments, to-be-encrypted parameters, decrypted output); every encrypt helper is called with a ConnectionState that belongs to the HostInfo passed with it, and the relay leg is the record looked up for that same target; in the receive dispatcher every tunnel handed to the authenticator and to a handler is the one found by the packet's own index, never one carried by the relay-supplied ViaSender; the relay identity in ViaSender (relayHI/relay) is built only from the relay-authenticated tunnel and flows only into reply routing; a relayed packet never teaches the endpoint's underlay address.",
		LevelNote:   "Not decided: cryptographic strength of the AEAD and that the outer tag-only layer leaks nothing; that HandshakePacket only ever holds handshake bytes (C10 stores them); behaviour of a hostile relay beyond what the endpoint's own AEAD rejects (C12/C14 decide that every effect is behind the endpoint's Decrypt). Values boxed into `any` are treated as diagnostics.",
		Explanation: "K11 source classes on SendVia/prepareSendVia payloads with caller recursion, K11 pairing ci<->hostinfo at the encrypt helpers and relay-lookup<->target, K11 attribution in readOutsidePackets, K2/K11 on ViaSender.relayHI/relay readers and writers, K1 IsRelayed guard on SetRemote(via.UdpAddr)",
		Run:         runC15,
		Canaries: func(c *Ctx) []Canary {
			return []Canary{
				{Name: "relay-arm-sends-plaintext-segment", File: "inside.go", Old: "toSend, err := f.prepareSendVia(relayHostInfo, relay, innerPacket, nb, scratch, true)", New: "toSend, err := f.prepareSendVia(relayHostInfo, relay, seg, nb, scratch, false)", Rule: "C15.e2e-payload"},
				{Name: "control-relay-arm-sends-unencrypted-p", File: "inside.go", Old: "f.SendVia(relayHostInfo, relay, out, nb, fullOut[:header.Len+len(out)], true, q)", New: "f.SendVia(relayHostInfo, relay, p, nb, fullOut[:header.Len+len(out)], false, q)", Rule: "C15.e2e-payload"},
				{Name: "inner-packet-under-relay-key", File: "inside.go", Old: "innerPacket := f.sendInsideEncrypt(hostinfo, ci, seg, scratch[header.Len:], nb)", New: "innerPacket := f.sendInsideEncrypt(hostinfo, relayHostInfo.ConnectionState, seg, scratch[header.Len:], nb)", Rule: "C15.inner-key"},
				{Name: "encrypt-helper-returns-plaintext-on-error", File: "inside.go", Old: "\t\t// Skip this segment; the rest of the superpacket can still go out. TCP will retransmit anything we drop here.\n\t\treturn nil", New: "\t\treturn append(out[:0], seg...)", Rule: "C15.inner-key"},
				{Name: "relayed-packet-attributed-to-relay-tunnel", File: "outside.go", Old: "\t// At this point we should have a valid existing tunnel, verify and send\n", New: "\tif hostinfo == nil && via.IsRelayed {\n\t\thostinfo = via.relayHI\n\t}\n", Rule: "C15.attribution"},
				{Name: "relay-identity-becomes-endpoint-address", File: "handshake_manager.go", Old: "\t\thostinfo.relayState.InsertRelayTo(via.relayHI.vpnAddrs[0])\n\t}\n\n\t// Verify correct host responded (initiator check)", New: "\t\thostinfo.relayState.InsertRelayTo(via.relayHI.vpnAddrs[0])\n\t\thostinfo.SetRemote(via.relayHI.GetRemote())\n\t}\n\n\t// Verify correct host responded (initiator check)", Rule: "C15.via-flow"},
				{Name: "terminal-unwrap-carries-target-not-relay", File: "outside.go", Old: "\t\t\trelayHI:   hostinfo,\n\t\t\trelay:     relay,\n\t\t\tIsRelayed: true,", New: "\t\t\trelayHI:   hostinfo,\n\t\t\trelay:     relay,\n\t\t\tIsRelayed: false,", Rule: "C15.via-flow"},
				{Name: "inner-packet-dispatched-as-direct", File: "outside.go", Old: "\t\tf.readOutsidePackets(via, signedPayload, rxc)", New: "\t\tf.readOutsidePackets(ViaSender{UdpAddr: via.UdpAddr}, signedPayload, rxc)", Rule: "C15.via-flow"},
				{Name: "relayed-packet-roams-endpoint", File: "outside.go", Old: "if !via.IsRelayed && curRemote != via.UdpAddr {", New: "if curRemote != via.UdpAddr {", Rule: "C15.underlay"},
			}
		},
	})
}

// c15 bundles the anchors of the payload classifier.
type c15 struct {
	c      *Ctx
	funcs  []*ssa.Function
	sinks  map[*ssa.Function]int            // relay send functions -> index of the payload parameter
	neg    map[*ssa.Function]map[int]string // plaintext-by-contract parameters
	pos    map[*ssa.Function]map[int]string // parameters that are relay-verified received bytes
	encFn  *ssa.Function                    // sendInsideEncrypt (summary checked by C15.inner-key)
	fHP    *types.Var
	fBytes *types.Var
}

var (
	c15EncryptDanger = Ref{"noiseutil", "CipherState", "EncryptDanger"}
	c15Decrypt       = Ref{"", "ConnectionState", "Decrypt"}
	c15Segment       = Ref{"overlay/tio", "", "SegmentSuperpacket"}
	c15RelayLookup   = Ref{"", "HostMap", "QueryVpnAddrsRelayFor"}
	c15HsResults     = []Ref{{"handshake", "Machine", "ProcessPacket"}, {"handshake", "Machine", "Initiate"}}
)

// classifyOrigin: +1 allowed class, -1 plaintext class, 0 unrecognised.
func (k *c15) classifyOrigin(o ssa.Value, depth int) (int, string) {
	if isNilConst(o) {
		return +1, "nil"
	}
	if call, idx := callOf(o); call != nil {
		co := calleeObj(call)
		switch {
		case matchFunc(co, c15EncryptDanger) && idx == 0:
			return +1, "ciphertext (EncryptDanger output)"
		case k.encFn != nil && call.Common().StaticCallee() == k.encFn:
			return +1, "ciphertext (sendInsideEncrypt output)"
		case matchAny(co, c15HsResults) && idx == 0:
			return +1, "handshake message from the handshake machine"
		case matchFunc(co, c15Decrypt) && idx == 0:
			return -1, "decrypted payload (Decrypt output)"
		}
		return 0, "result of " + exprString(o)
	}
	if lk, ok := o.(*ssa.Lookup); ok && loadsField(lk.X, k.fHP) {
		return +1, "stored handshake message (HostInfo.HandshakePacket)"
	}
	if _, ok := g7FieldLoadBase(o, k.fBytes); ok {
		return -1, "tun packet bytes (tio.Packet.Bytes)"
	}
	p, ok := o.(*ssa.Parameter)
	if !ok {
		return 0, "value " + exprString(o)
	}
	fn := p.Parent()
	i := g7ParamIndex(p)
	if why, ok := k.neg[fn][i]; ok {
		return -1, why
	}
	if why, ok := k.pos[fn][i]; ok {
		return +1, why
	}
	if ai, ok := k.sinks[fn]; ok && ai == i {
		return +1, "pass-through of the relay send's own payload parameter (its callers carry the obligation)"
	}
	if fn.Parent() != nil {
		// a closure parameter: who calls the closure?
		var mk *ssa.MakeClosure
		eachInstr(fn.Parent(), func(in ssa.Instruction) {
			if mc, ok := in.(*ssa.MakeClosure); ok && mc.Fn == ssa.Value(fn) {
				mk = mc
			}
		})
		if mk != nil && mk.Referrers() != nil {
			for _, r := range *mk.Referrers() {
				if ci, ok := r.(ssa.CallInstruction); ok && matchFunc(calleeObj(ci), c15Segment) {
					return -1, "plaintext tun segment (callback parameter of tio.SegmentSuperpacket)"
				}
			}
		}
		return 0, "parameter of a closure whose caller is not recognised"
	}
	if depth >= 4 {
		return 0, "parameter chain deeper than 4 callers"
	}
	sites, esc := g7Callers(k.funcs, fn)
	if esc || len(sites) == 0 {
		return 0, fmt.Sprintf("parameter #%d of %s whose callers cannot be enumerated", i, fnName(fn))
	}
	verdict, why := +1, ""
	for _, s := range sites {
		args := callArgs(s)
		if i >= len(args) {
			return 0, "variadic caller"
		}
		v, w := k.classify(args[i], depth+1)
		if v < verdict {
			verdict, why = v, fmt.Sprintf("%s at %s", w, k.c.instrPos(s))
		}
		if v > 0 && why == "" {
			why = w
		}
		if verdict < 0 {
			break
		}
	}
	if verdict > 0 {
		why = fmt.Sprintf("every caller of %s passes: %s", fnName(fn), why)
	}
	return verdict, why
}

func (k *c15) classify(v ssa.Value, depth int) (int, string) {
	os := g7Origins(v)
	if len(os) == 0 {
		return 0, "no origin"
	}
	verdict := +1
	var whys []string
	for _, o := range os {
		cv, w := k.classifyOrigin(o, depth)
		if cv < verdict {
			verdict = cv
			whys = []string{w}
		} else if cv == verdict && w != "nil" {
			whys = append(whys, w)
		}
	}
	sort.Strings(whys)
	return verdict, strings.Join(whys, "; ")
}

type c15Pair struct{ ci, hi int }

// keyOwner resolves the tunnel (*HostInfo origins, in the frame of the function holding v) whose
// ConnectionState encrypted the ciphertext v. A ciphertext received as a parameter of a helper is
// resolved at every caller and mapped back onto the helper's own *HostInfo parameter.
func (k *c15) keyOwner(v ssa.Value, pairs map[*ssa.Function]c15Pair, depth int) []ssa.Value {
	var out []ssa.Value
	add := func(vs ...ssa.Value) {
		for _, x := range vs {
			if !g7Contains(out, x) {
				out = append(out, x)
			}
		}
	}
	for _, o := range g7NonNil(g7Origins(v)) {
		if call, _ := callOf(o); call != nil {
			encl := topFunc(call.Parent())
			if call.Common().StaticCallee() == k.encFn {
				add(g7NonNil(g7Origins(callArgs(call)[pairs[k.encFn].hi]))...)
			} else if pr, ok := pairs[encl]; ok && matchFunc(calleeObj(call), c15EncryptDanger) {
				add(encl.Params[pr.hi])
			} else {
				return nil
			}
			continue
		}
		p, isP := o.(*ssa.Parameter)
		if !isP || p.Parent().Parent() != nil || depth >= 3 {
			return nil
		}
		fn := p.Parent()
		sites, esc := g7Callers(k.funcs, fn)
		if esc || len(sites) == 0 {
			return nil
		}
		i := g7ParamIndex(p)
		for _, s := range sites {
			args := callArgs(s)
			owner := k.keyOwner(args[i], pairs, depth+1)
			if len(owner) == 0 {
				return nil
			}
			mapped := false
			for j, q := range fn.Params {
				if j < len(args) && j != i && g7SameSet(g7NonNil(g7Origins(args[j])), owner) {
					add(q)
					mapped = true
				}
			}
			if !mapped {
				return nil
			}
		}
	}
	return out
}

func runC15(c *Ctx) {
	c.Rule("C15.e2e-payload", "K11: the payload of every SendVia/prepareSendVia call is tunnel-cipher output, a handshake message, the relay-verified bytes being forwarded, or the send helper's own pass-through parameter; never a plaintext-by-contract value. The forwarded bytes are never handed on after a Decrypt", 7)
	c.Rule("C15.inner-key", "K11: sendInsideEncrypt returns only EncryptDanger(ci.eKey, plaintext=seg) output or nil; sendNoMetrics encrypts p under its ci parameter; every call of an encrypt helper passes ci == <the same hostinfo>.ConnectionState (or its own paired parameters); at the relay arms the relay leg (via, relay) comes from one QueryVpnAddrsRelayFor(<target>.vpnAddrs, _) for the target whose key encrypted the inner packet", 10)
	c.Rule("C15.attribution", "K11: in readOutsidePackets every *HostInfo reaching the authenticator or a handler is the result of QueryRelayIndex/QueryIndex*(h.RemoteIndex) on the parsed header, never a tunnel carried by ViaSender", 10)
	c.Rule("C15.via-flow", "K2/K11: ViaSender.relayHI/relay/IsRelayed are written only in the terminal relay arm from the relay-authenticated tunnel and its own relay record (IsRelayed=true); values read from relayHI/relay flow only into reply routing (InsertRelayTo, SendVia, UpdateRelayForByIdxState), nil tests and diagnostics", 7)
	c.Rule("C15.underlay", "K1: HostInfo.SetRemote(via.UdpAddr) is reached only when via.IsRelayed is false", 4)

	k := &c15{c: c, funcs: c.moduleFuncs(), sinks: map[*ssa.Function]int{}, neg: map[*ssa.Function]map[int]string{}, pos: map[*ssa.Function]map[int]string{}}
	k.fHP = c.Field("", "HostInfo", "HandshakePacket")
	k.fBytes = c.Field("overlay/tio", "Packet", "Bytes")
	fConn := c.Field("", "HostInfo", "ConnectionState")
	fEKey := c.Field("", "ConnectionState", "eKey")
	fVpn := c.Field("", "HostInfo", "vpnAddrs")
	sendVia := c.Func(Ref{"", "Interface", "SendVia"})
	prepVia := c.Func(Ref{"", "Interface", "prepareSendVia"})
	k.encFn = c.Func(Ref{"", "Interface", "sendInsideEncrypt"})
	noMetrics := c.Func(Ref{"", "Interface", "sendNoMetrics"})
	relPkt := c.Func(Ref{"", "Interface", "handleOutsideRelayPacket"})
	disp := c.Func(Ref{"", "Interface", "readOutsidePackets"})
	if sendVia == nil || prepVia == nil || k.encFn == nil || noMetrics == nil || relPkt == nil || disp == nil || fConn == nil || fEKey == nil || fVpn == nil {
		return
	}
	// payload parameter of the relay send functions: (f, via, relay, ad, ...)
	k.sinks[sendVia], k.sinks[prepVia] = 3, 3
	// plaintext-by-contract parameters (receiver first): the value the function is asked to encrypt
	negTab := []struct {
		ref Ref
		idx int
		why string
	}{
		{Ref{"", "Interface", "sendNoMetrics"}, 6, "p: payload sendNoMetrics is asked to encrypt"},
		{Ref{"", "Interface", "send"}, 5, "p: payload send is asked to encrypt"},
		{Ref{"", "Interface", "sendTo"}, 6, "p: payload sendTo is asked to encrypt"},
		{Ref{"", "Interface", "sendMessageNow"}, 4, "p: cached tun packet to encrypt"},
		{Ref{"", "Interface", "SendMessageToHostInfo"}, 4, "p: payload to encrypt"},
		{Ref{"", "Interface", "SendMessageToVpnAddr"}, 4, "p: payload to encrypt"},
		{Ref{"", "Interface", "sendInsideEncrypt"}, 3, "seg: plaintext tun segment to encrypt"},
		{Ref{"", "Interface", "rejectOutside"}, 1, "packet: decrypted inbound packet being rejected"},
		{Ref{"", "Interface", "handleOutsideMessagePacket"}, 3, "out: decrypted inbound packet"},
	}
	for _, e := range negTab {
		if fn := c.Func(e.ref); fn != nil && e.idx < len(fn.Params) {
			if k.neg[fn] == nil {
				k.neg[fn] = map[int]string{}
			}
			k.neg[fn][e.idx] = "plaintext-by-contract (" + e.why + ")"
		}
	}
	// the relay handler's packet: authenticated by VerifyRelay with the relay tunnel's key, never decrypted
	k.pos[relPkt] = map[int]string{3: "relay-verified received bytes (handleOutsideRelayPacket's packet)"}

	// ---- C15.e2e-payload
	type site struct {
		ci ssa.CallInstruction
		fn *ssa.Function
	}
	var sites []site
	for _, fn := range k.funcs {
		eachInstr(fn, func(in ssa.Instruction) {
			ci, ok := in.(ssa.CallInstruction)
			if !ok || c.isTestHelperFile(in) {
				return
			}
			if sc := ci.Common().StaticCallee(); sc == sendVia || sc == prepVia || matchFunc(calleeObj(ci), Ref{"", "EncWriter", "SendVia"}) {
				sites = append(sites, site{ci, fn})
			}
		})
	}
	ord := map[string]int{}
	cipherSites := []site{}
	for _, s := range sites {
		name := fnName(s.fn) + ":" + calleeObj(s.ci).Name()
		ord[name]++
		cons := fmt.Sprintf("%s#%d:payload", name, ord[name])
		v, why := k.classify(callArgs(s.ci)[3], 0)
		switch {
		case v > 0:
			c.OK("C15.e2e-payload", cons, why)
			if strings.Contains(why, "ciphertext") {
				cipherSites = append(cipherSites, s)
			}
		case v < 0:
			c.Bad("C15.e2e-payload", cons, c.instrPos(s.ci), "a relay send is handed a value the relay could read: "+why)
		default:
			c.Unknown("C15.e2e-payload", cons, "payload source not recognised: "+why)
		}
	}
	// the forwarded bytes are the dispatcher's own packet, handed on before any Decrypt
	decs := callsIn(disp, c15Decrypt)
	for i, ci := range callsIn(disp, Ref{"", "Interface", "handleOutsideRelayPacket"}) {
		cons := fmt.Sprintf("readOutsidePackets:handleOutsideRelayPacket#%d:packet-not-decrypted", i+1)
		okSrc := g7SameSet(g7Origins(callArgs(ci)[3]), []ssa.Value{disp.Params[2]})
		after := false
		for _, d := range decs {
			if av, _ := c.avoidsCut(disp, d, ci, func(ssa.Instruction) bool { return false }); av {
				after = true
			}
		}
		c.Check(okSrc && !after, "C15.e2e-payload", cons, c.instrPos(ci), "the received packet itself, on a path that never ran Decrypt", "the relay handler is given bytes other than the received packet, or after an in-place Decrypt: what it forwards is no longer the sender's end-to-end ciphertext")
	}
	if len(callsInDeep(relPkt, c15Decrypt)) > 0 {
		c.Bad("C15.e2e-payload", "handleOutsideRelayPacket:no-decrypt", c.P.Pos(relPkt.Pos()), "the relay handler calls Decrypt: a relay must only verify the outer tag")
	}

	// ---- C15.inner-key
	// (a) summary of sendInsideEncrypt
	{
		fn := k.encFn
		pCi, pSeg := fn.Params[2], fn.Params[3]
		bad := ""
		for _, r := range g7Returns(fn) {
			for _, o := range g7NonNil(g7Origins(r.Results[0])) {
				call, idx := callOf(o)
				if call == nil || idx != 0 || !matchFunc(calleeObj(call), c15EncryptDanger) {
					bad = "returns " + exprString(o) + " at " + c.instrPos(r)
					continue
				}
				a := callArgs(call)
				base, isKey := g7FieldLoadBase(a[0], fEKey)
				if !isKey || !g7SameSet(g7Origins(base), []ssa.Value{pCi}) {
					bad = "encrypts under " + exprString(a[0]) + ", not under its ConnectionState parameter's eKey"
				}
				if !g7SameSet(g7NonNil(g7Origins(a[3])), []ssa.Value{pSeg}) {
					bad = "the plaintext argument of EncryptDanger is " + exprString(a[3]) + ", not the segment"
				}
			}
		}
		c.Check(bad == "", "C15.inner-key", "sendInsideEncrypt:returns-only-ciphertext-under-ci", c.P.Pos(fn.Pos()), "every returned value is nil or EncryptDanger(ci.eKey, seg) output", "the helper whose result is relayed does not return only ciphertext under the given tunnel state: "+bad)
	}
	// pairing table: (ci index, hostinfo index), receiver first
	pairs := map[*ssa.Function]c15Pair{}
	for _, e := range []struct {
		ref    Ref
		ci, hi int
	}{
		{Ref{"", "Interface", "sendInsideEncrypt"}, 2, 1}, // data path encrypt: header index from hostinfo, key from ci
		{Ref{"", "Interface", "sendNoMetrics"}, 3, 4},     // control/reject path encrypt, relays the result when hostinfo has no remote
		{Ref{"", "Interface", "send"}, 3, 4},              // wrapper of sendNoMetrics
		{Ref{"", "Interface", "sendTo"}, 3, 4},            // wrapper of sendNoMetrics
		{Ref{"", "Interface", "rejectOutside"}, 2, 3},     // wrapper of sendNoMetrics
	} {
		if fn := c.Func(e.ref); fn != nil {
			pairs[fn] = c15Pair{e.ci, e.hi}
		}
	}
	// (b) sendNoMetrics encrypts p under its ci
	{
		fn := noMetrics
		pr := pairs[fn]
		n := 0
		for _, ci := range callsIn(fn, c15EncryptDanger) {
			n++
			a := callArgs(ci)
			base, isKey := g7FieldLoadBase(a[0], fEKey)
			ok := isKey && g7SameSet(g7Origins(base), []ssa.Value{fn.Params[pr.ci]}) && g7SameSet(g7NonNil(g7Origins(a[3])), []ssa.Value{fn.Params[6]})
			c.Check(ok, "C15.inner-key", fmt.Sprintf("sendNoMetrics:EncryptDanger#%d", n), c.instrPos(ci), "EncryptDanger(ci.eKey, plaintext=p)", "sendNoMetrics does not encrypt p under its ConnectionState parameter: key "+exprString(a[0])+", plaintext "+exprString(a[3]))
		}
		if n == 0 {
			c.Unknown("C15.inner-key", "sendNoMetrics:EncryptDanger", "encrypt call not found")
		}
	}
	// (c) ci belongs to hostinfo at every call of a paired helper
	pord := map[string]int{}
	for _, fn := range k.funcs {
		eachInstr(fn, func(in ssa.Instruction) {
			ci, ok := in.(ssa.CallInstruction)
			if !ok || c.isTestHelperFile(in) {
				return
			}
			callee := ci.Common().StaticCallee()
			pr, tab := pairs[callee]
			if !tab {
				return
			}
			a := callArgs(ci)
			name := fnName(fn) + ":" + callee.Name()
			pord[name]++
			cons := fmt.Sprintf("%s#%d:ci-of-hostinfo", name, pord[name])
			oci, ohi := g7NonNil(g7Origins(a[pr.ci])), g7NonNil(g7Origins(a[pr.hi]))
			if len(oci) == 0 || len(ohi) == 0 {
				c.Unknown("C15.inner-key", cons, "arguments not resolved")
				return
			}
			bad := ""
			for _, o := range oci {
				if base, isCS := g7FieldLoadBase(o, fConn); isCS {
					if !g7SameSet(g7NonNil(g7Origins(base)), ohi) {
						bad = fmt.Sprintf("ConnectionState of %s is paired with tunnel %s", exprString(base), exprString(a[pr.hi]))
					}
					continue
				}
				if p, isP := o.(*ssa.Parameter); isP {
					if epr, etab := pairs[p.Parent()]; etab && g7ParamIndex(p) == epr.ci && g7SameSet(ohi, []ssa.Value{p.Parent().Params[epr.hi]}) {
						continue // pass-through of the caller's own paired parameters
					}
				}
				bad = "ConnectionState argument " + exprString(o) + " is not the ConnectionState of the HostInfo passed with it"
			}
			c.Check(bad == "", "C15.inner-key", cons, c.instrPos(in), "ci is hostinfo.ConnectionState (or the caller's paired parameters)", "a packet would be encrypted under another tunnel's key (the relay's, when that tunnel is the relay): "+bad)
		})
	}
	// (d) relay leg lookup is for the tunnel whose key encrypted the inner packet
	for _, s := range cipherSites {
		a := callArgs(s.ci)
		cons := fmt.Sprintf("%s:%s:relay-leg-for-target", fnName(s.fn), calleeObj(s.ci).Name())
		target := k.keyOwner(a[3], pairs, 0)
		if len(target) == 0 {
			c.Unknown("C15.inner-key", cons, "the tunnel that encrypted the inner packet is not resolved")
			continue
		}
		bad := ""
		var lookups []ssa.Value
		for argIdx, want := range map[int]int{1: 0, 2: 1} { // via <- result 0, relay <- result 1
			for _, o := range g7NonNil(g7Origins(a[argIdx])) {
				call, idx := callOf(o)
				if call == nil || idx != want || !matchFunc(calleeObj(call), c15RelayLookup) {
					bad = fmt.Sprintf("argument %d is %s, not result %d of QueryVpnAddrsRelayFor", argIdx, exprString(o), want)
					continue
				}
				if !g7Contains(lookups, call) {
					lookups = append(lookups, call)
				}
			}
		}
		if len(lookups) != 1 && bad == "" {
			bad = fmt.Sprintf("via and relay come from %d different lookups", len(lookups))
		}
		for _, l := range lookups {
			tips := callArgs(l.(*ssa.Call))[1]
			okT := false
			for _, o := range g7Origins(tips) {
				if base, isV := g7FieldLoadBase(o, fVpn); isV && g7SameSet(g7NonNil(g7Origins(base)), target) {
					okT = true
				} else {
					okT = false
					break
				}
			}
			if !okT {
				bad = "the relay record is looked up for " + exprString(tips) + ", not for the addresses of the tunnel that encrypted the inner packet"
			}
		}
		c.Check(bad == "", "C15.inner-key", cons, c.instrPos(s.ci), "via/relay = QueryVpnAddrsRelayFor(<target>.vpnAddrs, _) for the tunnel whose key made the inner packet", "the relay leg is not the one set up for the inner packet's tunnel: "+bad)
	}

	// ---- C15.attribution
	c15Attribution(c, disp)
	// ---- C15.via-flow
	c15ViaFlow(c, k.funcs, relPkt)
	// ---- C15.underlay
	fUdp := c.Field("", "ViaSender", "UdpAddr")
	fIsRel := c.Field("", "ViaSender", "IsRelayed")
	if fUdp != nil && fIsRel != nil {
		n := 0
		for _, fn := range k.funcs {
			var sinks []Sink
			for _, ci := range callsIn(fn, Ref{"", "HostInfo", "SetRemote"}) {
				if c.isTestHelperFile(ci) {
					continue
				}
				if derivesFrom(callArgs(ci)[1], sliceLocal, func(x ssa.Value) bool { return loadsField(x, fUdp) }) {
					sinks = append(sinks, Sink{Instr: ci, Desc: "SetRemote(via.UdpAddr)"})
				}
			}
			if len(sinks) == 0 {
				continue
			}
			n++
			c.requireGuards("C15.underlay", fn, sinks, "SetRemote(via.UdpAddr)", g7FieldBoolGuard("via.IsRelayed == false", fIsRel, false))
		}
		if n == 0 {
			c.Unknown("C15.underlay", "SetRemote(via.UdpAddr)", "no site learns the underlay address from a ViaSender: cannot decide")
		}
	}
}

// c15Attribution: every *HostInfo that reaches a non-diagnostic call in the dispatcher (as an
// argument, or as the base of one: hostinfo.ConnectionState, hostinfo.vpnAddrs) comes from the
// index lookups keyed by the parsed header's RemoteIndex.
func c15Attribution(c *Ctx, disp *ssa.Function) {
	hi := c.NamedType("", "HostInfo")
	fRI := c.Field("header", "H", "RemoteIndex")
	if hi == nil || fRI == nil {
		return
	}
	lookups := []Ref{{"", "HostMap", "QueryRelayIndex"}, {"", "HostMap", "QueryIndexCached"}, {"", "HostMap", "QueryIndex"}}
	isHI := func(t types.Type) bool {
		p, ok := t.Underlying().(*types.Pointer)
		if !ok {
			return false
		}
		n, _ := types.Unalias(p.Elem()).(*types.Named)
		return n != nil && n.Obj() == hi.Obj()
	}
	ord := map[string]int{}
	nLook := 0
	eachInstr(disp, func(in ssa.Instruction) {
		ci, ok := in.(ssa.CallInstruction)
		if !ok || g7IsLogCall(ci) || builtinName(ci) != "" {
			return
		}
		o := calleeObj(ci)
		if o == nil {
			return
		}
		if matchAny(o, lookups) {
			nLook++
			idx := callArgs(ci)[1]
			c.Check(loadsField(idx, fRI), "C15.attribution", fmt.Sprintf("readOutsidePackets:%s:key", o.Name()), c.instrPos(in), "keyed by the parsed header's RemoteIndex", "the tunnel lookup is keyed by "+exprString(idx)+", not by the index the packet itself carries")
			return
		}
		// every *HostInfo in the backward slice of the arguments
		var foreign []string
		used := false
		for _, a := range callArgs(ci) {
			backSlice(a, sliceLocal, func(x ssa.Value) {
				if !isHI(x.Type()) {
					return
				}
				if _, isPhi := x.(*ssa.Phi); isPhi {
					return
				}
				used = true
				if call, _ := callOf(x); call != nil && matchAny(calleeObj(call), lookups) {
					return
				}
				foreign = append(foreign, exprString(x))
			})
		}
		if !used {
			return
		}
		ord[o.Name()]++
		cons := fmt.Sprintf("readOutsidePackets:%s#%d", o.Name(), ord[o.Name()])
		c.Check(len(foreign) == 0, "C15.attribution", cons, c.instrPos(in), "tunnel comes from the packet's own index", "a tunnel that was not found by the packet's own index reaches "+o.Name()+": "+strings.Join(foreign, ", ")+" - a relayed packet would be authenticated against / attributed to a tunnel the relay chose")
	})
	if nLook == 0 {
		c.Unknown("C15.attribution", "readOutsidePackets:lookups", "index lookups not found")
	}
}

// c15StructCells resolves a struct value to the chain of local cells it was built in: the cell it
// is loaded from, and the cells copied into that one as a whole earlier in the same block
// (`v := T{...}` is lowered to a literal cell copied into v's cell).
func c15StructCells(v ssa.Value) []*ssa.Alloc {
	var out []*ssa.Alloc
	for i := 0; i < 4; i++ {
		u, ok := v.(*ssa.UnOp)
		if !ok || u.Op != token.MUL {
			return out
		}
		al, ok := u.X.(*ssa.Alloc)
		if !ok {
			return out
		}
		out = append(out, al)
		var fwd ssa.Value
		instrs := u.Block().Instrs
		for j := instrIndex(u) - 1; j >= 0 && j < len(instrs); j-- {
			if st, ok := instrs[j].(*ssa.Store); ok && st.Addr == ssa.Value(al) {
				fwd = st.Val
				break
			}
		}
		if fwd == nil {
			return out
		}
		v = fwd
	}
	return out
}

// c15ViaFlow: writers and readers of the relay identity carried by ViaSender.
func c15ViaFlow(c *Ctx, funcs []*ssa.Function, relPkt *ssa.Function) {
	fRelHI := c.Field("", "ViaSender", "relayHI")
	fRel := c.Field("", "ViaSender", "relay")
	fIsRel := c.Field("", "ViaSender", "IsRelayed")
	fRS := c.Field("", "HostInfo", "relayState")
	fRI := c.Field("header", "H", "RemoteIndex")
	if fRelHI == nil || fRel == nil || fIsRel == nil || fRS == nil || fRI == nil {
		return
	}
	// writers: only the terminal arm, from the authenticated relay tunnel
	hostinfo := relPkt.Params[1]
	nW := 0
	for _, f := range []*types.Var{fRelHI, fRel, fIsRel} {
		for _, w := range fieldWriters(funcs, f) {
			if c.isTestHelperFile(w.Instr) || w.Kind != "store" {
				continue
			}
			nW++
			st := w.Instr.(*ssa.Store)
			cons := fmt.Sprintf("%s:ViaSender.%s=", fnName(w.Fn), f.Name())
			if topFunc(w.Fn) != relPkt {
				c.Bad("C15.via-flow", cons, c.instrPos(st), "a relayed ViaSender is built outside the relay handler's terminal arm: its relay identity is not the tunnel that authenticated the outer packet")
				continue
			}
			os := g7NonNil(g7Origins(st.Val))
			switch f {
			case fRelHI:
				c.Check(g7SameSet(os, []ssa.Value{hostinfo}), "C15.via-flow", cons, c.instrPos(st), "relayHI is the relay tunnel VerifyRelay authenticated", "relayHI is "+exprString(st.Val)+", not the tunnel whose key authenticated the outer packet")
			case fRel:
				ok := len(os) > 0
				for _, o := range os {
					call, idx := callOf(o)
					if call == nil || idx != 0 || !matchFunc(calleeObj(call), Ref{"", "RelayState", "QueryRelayForByIdx"}) {
						ok = false
						continue
					}
					a := callArgs(call)
					base, isRS := g7FieldLoadBase(a[0], fRS)
					ok = ok && isRS && g7SameSet(g7Origins(base), []ssa.Value{hostinfo}) && loadsField(a[1], fRI)
				}
				c.Check(ok, "C15.via-flow", cons, c.instrPos(st), "relay is the authenticated relay tunnel's own record for the packet's index", "relay is "+exprString(st.Val)+", not hostinfo.relayState.QueryRelayForByIdx(h.RemoteIndex)")
			case fIsRel:
				bv, isC := boolConst(st.Val)
				c.Check(isC && bv, "C15.via-flow", cons, c.instrPos(st), "IsRelayed = true", "the unwrapped inner packet is not marked relayed: the relay's underlay address would be attributed to the endpoint")
			}
		}
	}
	if nW < 3 {
		c.Unknown("C15.via-flow", "ViaSender:writers", fmt.Sprintf("only %d writes of relayHI/relay/IsRelayed found (3 confirmed by reading)", nW))
	}
	// and the terminal arm really hands that rebuilt ViaSender to the dispatcher
	for i, ci := range callsIn(relPkt, Ref{"", "Interface", "readOutsidePackets"}) {
		cons := fmt.Sprintf("handleOutsideRelayPacket:readOutsidePackets#%d:via", i+1)
		cells := c15StructCells(callArgs(ci)[1])
		if len(cells) == 0 {
			c.Unknown("C15.via-flow", cons, "the ViaSender argument is not a local struct value: unrecognised shape")
			continue
		}
		set := map[*types.Var]bool{}
		eachInstr(relPkt, func(in ssa.Instruction) {
			if st, ok := in.(*ssa.Store); ok {
				if fa, ok := st.Addr.(*ssa.FieldAddr); ok {
					for _, cell := range cells {
						if f := fieldOfAddr(fa); fa.X == ssa.Value(cell) && (f == fRelHI || f == fRel || f == fIsRel) {
							set[f] = true
						}
					}
				}
			}
		})
		c.Check(len(set) == 3, "C15.via-flow", cons, c.instrPos(ci), "the inner packet is dispatched with the rebuilt ViaSender (relayHI, relay, IsRelayed set)", "the inner packet is dispatched with a ViaSender whose relay identity / IsRelayed were not set: it would be treated as received directly from the relay's address")
	}
	// readers: reply routing only (one reason each)
	allowed := []struct {
		ref Ref
		why string
	}{
		{Ref{"", "RelayState", "InsertRelayTo"}, "remember which relay reaches the peer"},
		{Ref{"", "Interface", "SendVia"}, "send the handshake reply back over the relay it arrived through"},
		{Ref{"", "RelayState", "UpdateRelayForByIdxState"}, "re-mark the relay record the handshake arrived through as Established"},
	}
	type key struct {
		fn *ssa.Function
		f  *types.Var
	}
	bad := map[key][]string{}
	seen := map[key]int{}
	var order []key
	for _, fn := range funcs {
		if c.isTestFile(fn.Pos()) {
			continue
		}
		eachInstr(fn, func(in ssa.Instruction) {
			var f *types.Var
			var start ssa.Value
			switch x := in.(type) {
			case *ssa.FieldAddr:
				f, start = fieldOfAddr(x), x
			case *ssa.Field:
				f, start = fieldOfVal(x), x
			default:
				return
			}
			if f != fRelHI && f != fRel {
				return
			}
			kk := key{fn, f}
			for _, u := range g7ForwardUses(start) {
				if st, isSt := u.In.(*ssa.Store); isSt {
					if st.Addr == start {
						continue // construction, judged above
					}
				}
				if seen[kk] == 0 {
					order = append(order, kk)
				}
				seen[kk]++
				switch u.Kind {
				case "compare", "box":
					continue
				case "call-arg":
					ci := u.In.(ssa.CallInstruction)
					if g7IsLogCall(ci) || builtinName(ci) == "len" {
						continue
					}
					ok := false
					for _, al := range allowed {
						if matchFunc(calleeObj(ci), al.ref) {
							ok = true
						}
					}
					if ok {
						continue
					}
					name := "dynamic call"
					if o := calleeObj(ci); o != nil {
						name = o.Name()
					}
					bad[kk] = append(bad[kk], fmt.Sprintf("passed to %s at %s", name, c.instrPos(u.In)))
				default:
					bad[kk] = append(bad[kk], fmt.Sprintf("%s at %s", u.Kind, c.instrPos(u.In)))
				}
			}
		})
	}
	for _, kk := range order {
		cons := fmt.Sprintf("%s:reads:ViaSender.%s", fnName(kk.fn), kk.f.Name())
		c.Check(len(bad[kk]) == 0, "C15.via-flow", cons, c.P.Pos(kk.fn.Pos()), fmt.Sprintf("%d uses, all reply routing / nil tests / diagnostics", seen[kk]), "the relay's identity flows beyond reply routing (it must never become the packet's attributed peer): "+strings.Join(bad[kk], "; "))
	}
	if len(order) < 2 {
		c.Unknown("C15.via-flow", "ViaSender:readers", "readers of relayHI/relay not found")
	}
}
