package main

import (
	"fmt"
	"go/token"
	"go/types"
	"sort"
	"strings"

	"golang.org/x/tools/go/ssa"
)

// Generic helpers added with C18/C19 (every identifier is prefixed g2).

// g2Returns lists the returns of fn in source order (the synthetic recover block is skipped).
func g2Returns(fn *ssa.Function) []*ssa.Return {
	var out []*ssa.Return
	for _, b := range fn.Blocks {
		if len(b.Instrs) == 0 || b == fn.Recover {
			continue
		}
		if r, ok := b.Instrs[len(b.Instrs)-1].(*ssa.Return); ok {
			out = append(out, r)
		}
	}
	sort.SliceStable(out, func(i, j int) bool { return out[i].Pos() < out[j].Pos() })
	return out
}

// g2Ord gives the ordinal of in among the instructions of its function for which same holds
// (source order): obligations are keyed by ordinal, never by line.
func g2Ord(in ssa.Instruction, same func(ssa.Instruction) bool) int {
	var all []ssa.Instruction
	eachInstr(in.Parent(), func(x ssa.Instruction) {
		if same(x) {
			all = append(all, x)
		}
	})
	sort.SliceStable(all, func(i, j int) bool { return all[i].Pos() < all[j].Pos() })
	for i, x := range all {
		if x == in {
			return i
		}
	}
	return -1
}

// ---------------------------------------------------------------------------------------
// parameter identity

// g2ParamValue: 1 when v is the parameter p unmodified (p itself, or a load of the local cell p
// was spilled to, when nothing but p is ever stored into that cell and its address never escapes);
// 0 when v is some other value; -1 when the cell escapes (cannot decide).
func g2ParamValue(v ssa.Value, p *ssa.Parameter) int {
	v = stripValue(v)
	if v == ssa.Value(p) {
		return 1
	}
	u, ok := v.(*ssa.UnOp)
	if !ok || u.Op != token.MUL {
		return 0
	}
	al, ok := u.X.(*ssa.Alloc)
	if !ok {
		return 0
	}
	return g2CellHoldsOnly(al, p)
}

func g2CellHoldsOnly(al *ssa.Alloc, p ssa.Value) int {
	res := 1
	var scan func(addr ssa.Value, whole bool)
	scan = func(addr ssa.Value, whole bool) {
		refs := addr.Referrers()
		if refs == nil {
			return
		}
		for _, r := range *refs {
			switch x := r.(type) {
			case *ssa.Store:
				if x.Addr == addr {
					if !whole || x.Val != p {
						res = 0 // a field of the copy, or the whole copy, is overwritten
					}
				} else if res == 1 {
					res = -1 // the address itself is stored somewhere
				}
			case *ssa.UnOp, *ssa.DebugRef:
			case *ssa.FieldAddr:
				scan(x, false)
			case *ssa.IndexAddr:
				scan(x, false)
			default:
				if res == 1 {
					res = -1 // address passed to a call / captured
				}
			}
		}
	}
	scan(al, true)
	return res
}

// g2FieldOfParam: v is a load of field f of the (unmodified) parameter p.
func g2FieldOfParam(v ssa.Value, f *types.Var, p *ssa.Parameter) bool {
	v = stripValue(v)
	switch x := v.(type) {
	case *ssa.Field:
		return fieldOfVal(x) == f && g2ParamValue(x.X, p) == 1
	case *ssa.UnOp:
		if fa, ok := x.X.(*ssa.FieldAddr); ok && x.Op == token.MUL && fieldOfAddr(fa) == f {
			if fa.X == ssa.Value(p) {
				return true // pointer parameter
			}
			if al, ok := fa.X.(*ssa.Alloc); ok {
				return g2CellHoldsOnly(al, p) == 1
			}
		}
	}
	return false
}

// ---------------------------------------------------------------------------------------
// map accesses on a field

type g2MapOp struct {
	In   ssa.Instruction
	Kind string // lookup | update | delete
	Key  ssa.Value
	Val  ssa.Value // update only
}

// g2MapOps lists the lookups / updates / deletes in fn on the map held in field f.
func g2MapOps(fn *ssa.Function, isMap func(ssa.Value) bool) []g2MapOp {
	var out []g2MapOp
	eachInstr(fn, func(in ssa.Instruction) {
		switch x := in.(type) {
		case *ssa.Lookup:
			if isMap(x.X) {
				out = append(out, g2MapOp{In: x, Kind: "lookup", Key: x.Index})
			}
		case *ssa.MapUpdate:
			if isMap(x.Map) {
				out = append(out, g2MapOp{In: x, Kind: "update", Key: x.Key, Val: x.Value})
			}
		case ssa.CallInstruction:
			if builtinName(x) == "delete" && isMap(x.Common().Args[0]) {
				out = append(out, g2MapOp{In: in, Kind: "delete", Key: x.Common().Args[1]})
			}
		}
	})
	sort.SliceStable(out, func(i, j int) bool { return out[i].In.Pos() < out[j].In.Pos() })
	return out
}

// g2FoundGuard: the test "the key was present" on a lookup of a map satisfying isMap: the
// comma-ok result being true, or the looked-up pointer being non-nil.
func g2FoundGuard(name string, isMap func(ssa.Value) bool) Guard {
	isLk := func(x ssa.Value) bool { lk, ok := x.(*ssa.Lookup); return ok && isMap(lk.X) }
	return gAny(name,
		gValBool(name, true, func(v ssa.Value) bool {
			ex, ok := stripValue(v).(*ssa.Extract)
			return ok && ex.Index == 1 && isLk(ex.Tuple)
		}),
		gValNotNil(name, func(v ssa.Value) bool {
			v = stripValue(v)
			if ex, ok := v.(*ssa.Extract); ok {
				return ex.Index == 0 && isLk(ex.Tuple)
			}
			return isLk(v)
		}))
}

// ---------------------------------------------------------------------------------------
// guards through materialised booleans

// g2Implied: does `v == true` (passTrue) or `v == false` imply that leaf passed? v may be the
// leaf value itself, its negation, or a phi (`a && b`, `a || b`, flag variable) all of whose
// incoming values either imply it with the same polarity or are the constant of the other
// polarity. passEdge, when non-nil, accepts a constant edge of the passing polarity if the CFG
// edge it arrives over is itself a pass edge (the `a || b` lowering).
func g2Implied(v ssa.Value, leaf func(ssa.Value) (bool, bool), passEdge func(pred, blk *ssa.BasicBlock) bool, depth int) (ok bool, passTrue bool) {
	if depth > 4 {
		return false, false
	}
	if is, pt := leaf(v); is {
		return true, pt
	}
	switch x := v.(type) {
	case *ssa.UnOp:
		if x.Op == token.NOT {
			if ok, pt := g2Implied(x.X, leaf, passEdge, depth+1); ok {
				return true, !pt
			}
		}
	case *ssa.Phi:
		found, pol := false, false
		for _, e := range x.Edges {
			if _, isC := boolConst(e); isC {
				continue
			}
			ok, pt := g2Implied(e, leaf, passEdge, depth+1)
			if !ok || (found && pt != pol) {
				return false, false
			}
			found, pol = true, pt
		}
		if !found {
			return false, false
		}
		for k, e := range x.Edges {
			if bv, isC := boolConst(e); isC && bv == pol {
				// a constant of the passing polarity: fine only when it arrives over a pass edge
				if passEdge == nil || !passEdge(x.Block().Preds[k], x.Block()) {
					return false, false
				}
			}
		}
		return true, pol
	}
	return false, false
}

// g2Lift turns guards on leaf values into one guard that also recognises Ifs on booleans the
// leaves were materialised into.
func g2Lift(fn *ssa.Function, name string, leaves ...Guard) Guard {
	direct, _ := passEdges(fn, gAny(name, leaves...))
	isPass := func(pred, blk *ssa.BasicBlock) bool {
		for i, s := range pred.Succs {
			if s == blk && direct[Edge{pred, i}] {
				return true
			}
		}
		return false
	}
	leaf := func(v ssa.Value) (bool, bool) {
		cd := normCond(v)
		for _, g := range leaves {
			if is, pt := g.Match(cd, nil); is {
				return true, pt
			}
		}
		return false, false
	}
	return Guard{Name: name, Match: func(cd Cond, ifi *ssa.If) (bool, bool) {
		for _, g := range leaves {
			if is, pt := g.Match(cd, ifi); is {
				return true, pt
			}
		}
		if cd.Kind != CondBool {
			return false, false
		}
		if _, isPhi := cd.Base.(*ssa.Phi); !isPhi {
			return false, false
		}
		if ok, pt := g2Implied(cd.Base, leaf, isPass, 0); ok {
			return true, pt != cd.Neg
		}
		return false, false
	}}
}

// ---------------------------------------------------------------------------------------
// reachability from a set of start blocks, honouring phi-split sinks

// g2Walk is a forward exploration of one function that is sensitive to flag variables: the state
// is (block, known truth value of each boolean phi), so an `if flag` whose flag was set from a
// constant on the path taken follows only the feasible side (the product construction of K1,
// restricted to booleans materialised from constants). It never crosses `blocked` edges and does
// not continue past an instruction for which cut holds.
type g2Walk struct {
	c       *Ctx
	instrAt map[ssa.Instruction]*g2Node // first state that executed the instruction
	edgeAt  map[Edge]*g2Node            // first state that left over the edge
	retAt   map[*ssa.Return][]*g2Node   // every state that reached the return
	edgeAll map[Edge][]*g2Node          // every state that left over the edge
}

type g2Node struct {
	b    *ssa.BasicBlock
	env  string
	vals map[*ssa.Phi]bool
	prev *g2Node
}

func g2EnvKey(m map[*ssa.Phi]bool) string {
	var ks []string
	for p, v := range m {
		ks = append(ks, fmt.Sprintf("%s=%v", p.Name(), v))
	}
	sort.Strings(ks)
	return strings.Join(ks, ",")
}

func g2EvalBool(v ssa.Value, env map[*ssa.Phi]bool) (bool, bool) {
	switch x := v.(type) {
	case *ssa.Const:
		return boolConst(x)
	case *ssa.Phi:
		b, ok := env[x]
		return b, ok
	case *ssa.UnOp:
		if x.Op == token.NOT {
			b, ok := g2EvalBool(x.X, env)
			return !b, ok
		}
	}
	return false, false
}

// g2Explore starts after instruction `from` (or at the top of each block in starts when from is nil).
func (c *Ctx) g2Explore(fn *ssa.Function, starts []*ssa.BasicBlock, from ssa.Instruction, blocked map[Edge]bool, cut func(ssa.Instruction) bool) *g2Walk {
	w := &g2Walk{c: c, instrAt: map[ssa.Instruction]*g2Node{}, edgeAt: map[Edge]*g2Node{}, retAt: map[*ssa.Return][]*g2Node{}, edgeAll: map[Edge][]*g2Node{}}
	type item struct {
		n     *g2Node
		start int
	}
	seen := map[string]bool{}
	var queue []item
	push := func(n *g2Node, start int) {
		k := fmt.Sprintf("%d|%s|%d", n.b.Index, n.env, start)
		if !seen[k] {
			seen[k] = true
			queue = append(queue, item{n, start})
		}
	}
	if from != nil {
		push(&g2Node{b: from.Block(), vals: map[*ssa.Phi]bool{}}, instrIndex(from)+1)
	}
	for _, b := range starts {
		push(&g2Node{b: b, vals: map[*ssa.Phi]bool{}}, 0)
	}
	for len(queue) > 0 {
		it := queue[0]
		queue = queue[1:]
		b, stop := it.n.b, false
		for i := it.start; i < len(b.Instrs); i++ {
			in := b.Instrs[i]
			if _, ok := w.instrAt[in]; !ok {
				w.instrAt[in] = it.n
			}
			if r, ok := in.(*ssa.Return); ok {
				w.retAt[r] = append(w.retAt[r], it.n)
			}
			if cut != nil && cut(in) {
				stop = true
				break
			}
		}
		if stop {
			continue
		}
		feasible := []int{}
		for i := range b.Succs {
			feasible = append(feasible, i)
		}
		if ifi, ok := b.Instrs[len(b.Instrs)-1].(*ssa.If); ok {
			if v, known := g2EvalBool(ifi.Cond, it.n.vals); known {
				if v {
					feasible = []int{0}
				} else {
					feasible = []int{1}
				}
			}
		}
		for _, i := range feasible {
			e := Edge{b, i}
			if blocked[e] {
				continue
			}
			if _, ok := w.edgeAt[e]; !ok {
				w.edgeAt[e] = it.n
			}
			w.edgeAll[e] = append(w.edgeAll[e], it.n)
			s := b.Succs[i]
			vals := map[*ssa.Phi]bool{}
			for p, v := range it.n.vals {
				vals[p] = v
			}
			for _, in := range s.Instrs {
				phi, ok := in.(*ssa.Phi)
				if !ok {
					break
				}
				if !types.Identical(phi.Type().Underlying(), types.Typ[types.Bool]) {
					continue
				}
				delete(vals, phi)
				for k, pr := range s.Preds {
					if pr == b {
						if v, known := g2EvalBool(phi.Edges[k], it.n.vals); known {
							vals[phi] = v
						}
						break
					}
				}
			}
			push(&g2Node{b: s, env: g2EnvKey(vals), vals: vals, prev: it.n}, 0)
		}
	}
	return w
}

func (w *g2Walk) pathTo(n *g2Node) []string {
	var rev []*g2Node
	for x := n; x != nil; x = x.prev {
		rev = append(rev, x)
	}
	var out []string
	for i := len(rev) - 1; i >= 0; i-- {
		out = append(out, fmt.Sprintf("b%d(%s)", rev[i].b.Index, w.c.blockLine(rev[i].b)))
	}
	return out
}

// reaches: is the sink reached (a phi-split return only over its own incoming edge)?
func (w *g2Walk) reaches(s Sink) ([]string, bool) {
	if s.ViaPred != nil {
		for i, su := range s.ViaPred.Succs {
			if su == s.Instr.Block() {
				if n, ok := w.edgeAt[Edge{s.ViaPred, i}]; ok {
					return append(w.pathTo(n), fmt.Sprintf("b%d(return)", su.Index)), true
				}
			}
		}
		return nil, false
	}
	if n, ok := w.instrAt[s.Instr]; ok {
		return w.pathTo(n), true
	}
	return nil, false
}

// retVerdict: can the return sink be reached carrying `want` in its boolean result idx?
// 1: yes, on the path returned; 0: no; -1: it is reached with a value the walk cannot determine.
func (w *g2Walk) retVerdict(s Sink, idx int, want bool) ([]string, int) {
	ret := s.Instr.(*ssa.Return)
	v := retResult(ret, idx)
	verdict := 0
	var path []string
	note := func(val ssa.Value, n *g2Node, tail string) {
		b, known := g2EvalBool(val, n.vals)
		if !known {
			// a flag the walk lost track of (phi, result variable in memory) is undetermined; any
			// other computed value can be `want` for some input as far as the rule can tell
			_, isPhi := val.(*ssa.Phi)
			u, isLoad := val.(*ssa.UnOp)
			if !isPhi && !(isLoad && u.Op == token.MUL) {
				b, known = want, true
			}
		}
		switch {
		case known && b != want:
		case known:
			if verdict != 1 {
				verdict, path = 1, append(w.pathTo(n), tail)
			}
		case verdict == 0:
			verdict, path = -1, append(w.pathTo(n), tail)
		}
	}
	if s.ViaPred != nil {
		phi, _ := v.(*ssa.Phi)
		for i, su := range s.ViaPred.Succs {
			if su != ret.Block() {
				continue
			}
			for _, n := range w.edgeAll[Edge{s.ViaPred, i}] {
				val := v
				if phi != nil && phi.Block() == ret.Block() {
					for k, p := range ret.Block().Preds {
						if p == s.ViaPred {
							val = phi.Edges[k]
						}
					}
				}
				note(val, n, fmt.Sprintf("b%d(return)", su.Index))
			}
		}
		return path, verdict
	}
	for _, n := range w.retAt[ret] {
		note(v, n, "return")
	}
	return path, verdict
}

// g2RequireRet: starting at the given blocks (nil: entry), fn returns `want` in its boolean result
// idx only over a pass edge of g. Flag-sensitive; a way out whose result the walk cannot determine
// is reported undecided.
func (c *Ctx) g2RequireRet(rule, construct string, fn *ssa.Function, starts []*ssa.BasicBlock, idx int, want bool, g Guard, why string) bool {
	if starts == nil {
		starts = []*ssa.BasicBlock{fn.Blocks[0]}
	}
	sinks := boolReturns(fn, idx, want)
	if len(starts) == 0 || len(sinks) == 0 {
		c.Unknown(rule, construct, "start or sink of the rule not found in "+fnName(fn)+": unrecognised shape")
		return false
	}
	edges, n := passEdges(fn, g)
	w := c.g2Explore(fn, starts, nil, edges, nil)
	var unk *Sink
	var unkPath []string
	for i := range sinks {
		path, v := w.retVerdict(sinks[i], idx, want)
		switch v {
		case 1:
			c.Bad(rule, construct, c.instrPos(sinks[i].Instr), fmt.Sprintf("%s: `return %v` is reachable without passing the test %q (%d matching tests in the function)", why, want, g.Name, n), path...)
			return false
		case -1:
			if unk == nil {
				unk, unkPath = &sinks[i], path
			}
		}
	}
	if unk != nil {
		c.Unknown(rule, construct, fmt.Sprintf("the return at %s carries a computed result the rule cannot follow on the path %s: cannot decide whether `return %v` bypasses the test %q", c.instrPos(unk.Instr), strings.Join(unkPath, "->"), want, g.Name))
		return false
	}
	if n == 0 {
		c.Unknown(rule, construct, fmt.Sprintf("no test %q found and no `return %v` reachable: unrecognised shape", g.Name, want))
		return false
	}
	c.OK(rule, construct, fmt.Sprintf("%d return(s), every path to `return %v` passes one of %d test(s) %q", len(sinks), want, n, g.Name))
	return true
}

// g2DefiniteSink: the sink is a definite instance of what the rule constrains: any non-return
// instruction, or a return one of whose results is a constant (true/false/nil) on the way in
// considered. A return of computed values only is not: the rule cannot tell what it carries.
func g2DefiniteSink(s Sink) bool {
	ret, ok := s.Instr.(*ssa.Return)
	if !ok {
		return true
	}
	for i := range ret.Results {
		v := retResult(ret, i)
		if phi, isPhi := v.(*ssa.Phi); isPhi && s.ViaPred != nil && phi.Block() == ret.Block() {
			for k, p := range ret.Block().Preds {
				if p == s.ViaPred {
					v = phi.Edges[k]
				}
			}
		}
		if _, isC := v.(*ssa.Const); isC {
			return true
		}
	}
	return false
}

// g2RequireFrom: starting at the given blocks (nil: the function entry), every path to a sink
// crosses a pass edge of g. One obligation (rule, construct). A bypass that ends in a return of a
// computed (non-constant) value is reported undecided, not violated.
func (c *Ctx) g2RequireFrom(rule, construct string, fn *ssa.Function, starts []*ssa.BasicBlock, sinks []Sink, g Guard, why string) bool {
	if starts == nil {
		starts = []*ssa.BasicBlock{fn.Blocks[0]}
	}
	if len(starts) == 0 || len(sinks) == 0 {
		c.Unknown(rule, construct, "start or sink of the rule not found in "+fnName(fn)+": unrecognised shape")
		return false
	}
	edges, n := passEdges(fn, g)
	w := c.g2Explore(fn, starts, nil, edges, nil)
	for _, s := range sinks {
		path, hit := w.reaches(s)
		if !hit {
			continue
		}
		if !g2DefiniteSink(s) {
			c.Unknown(rule, construct, fmt.Sprintf("%s at %s carries a computed result the rule cannot follow (result variable in memory): cannot decide whether it bypasses the test %q", s.Desc, c.instrPos(s.Instr), g.Name))
			return false
		}
		c.Bad(rule, construct, c.instrPos(s.Instr), fmt.Sprintf("%s: %s is reachable without passing the test %q (%d matching tests in the function)", why, s.Desc, g.Name, n), path...)
		return false
	}
	if n == 0 {
		c.Unknown(rule, construct, fmt.Sprintf("no test %q found and no sink reachable: unrecognised shape", g.Name))
		return false
	}
	c.OK(rule, construct, fmt.Sprintf("%d sink(s), every path passes one of %d test(s) %q", len(sinks), n, g.Name))
	return true
}

// g2MustPassInstr: every path from `from` (nil = entry) to `to` executes an instruction for which
// cut holds or crosses one of the excused edges. Returns ok and a witness.
func (c *Ctx) g2MustPassInstr(fn *ssa.Function, from, to ssa.Instruction, cut func(ssa.Instruction) bool, excused map[Edge]bool) (bool, []string) {
	var starts []*ssa.BasicBlock
	if from == nil {
		starts = []*ssa.BasicBlock{fn.Blocks[0]}
	}
	w := c.g2Explore(fn, starts, from, excused, func(in ssa.Instruction) bool { return in != to && cut(in) })
	if n, ok := w.instrAt[to]; ok {
		return false, w.pathTo(n)
	}
	return true, nil
}

// g2PathAvoiding: some path from the top of block via to instruction `to` executes no instruction
// for which cut holds (flag-sensitive pathThrough).
func (c *Ctx) g2PathAvoiding(fn *ssa.Function, via *ssa.BasicBlock, to ssa.Instruction, cut func(ssa.Instruction) bool) ([]string, bool) {
	w := c.g2Explore(fn, []*ssa.BasicBlock{via}, nil, nil, func(in ssa.Instruction) bool { return in != to && cut(in) })
	if n, ok := w.instrAt[to]; ok {
		return w.pathTo(n), true
	}
	return nil, false
}

// ---------------------------------------------------------------------------------------
// which sources can reach a value when the branches on a selector are decided

// g2Sel describes the selector: which values are "the selector" in a function, and the class
// under which branches are decided (Const valid: the selector equals Val; otherwise: the
// selector differs from every constant it is compared with).
type g2Sel struct {
	Is    func(ssa.Value) bool
	Const bool
	Val   int64
}

// g2Live computes the blocks reachable from entry when every `selector ==/!= K` test is decided
// by the class, and the set of dead edges.
func g2Live(fn *ssa.Function, sel g2Sel) (map[*ssa.BasicBlock]bool, map[Edge]bool) {
	dead := map[Edge]bool{}
	for _, b := range fn.Blocks {
		if len(b.Instrs) == 0 {
			continue
		}
		ifi, ok := b.Instrs[len(b.Instrs)-1].(*ssa.If)
		if !ok {
			continue
		}
		cd := normCond(ifi.Cond)
		if cd.Kind == CondBool && sel.Const && sel.Is(cd.Base) {
			// boolean selector: Val != 0 means true
			if (sel.Val != 0) != cd.Neg {
				dead[Edge{b, 1}] = true
			} else {
				dead[Edge{b, 0}] = true
			}
			continue
		}
		if cd.Kind != CondCmp {
			continue
		}
		bo := cd.Base.(*ssa.BinOp)
		if bo.Op != token.EQL && bo.Op != token.NEQ {
			continue
		}
		var k int64
		var isK bool
		switch {
		case sel.Is(bo.X):
			k, isK = constInt(bo.Y)
		case sel.Is(bo.Y):
			k, isK = constInt(bo.X)
		}
		if !isK {
			continue
		}
		eq := sel.Const && sel.Val == k
		truth := eq == (bo.Op == token.EQL) // value of the comparison
		if cd.Neg {
			truth = !truth
		}
		if truth {
			dead[Edge{b, 1}] = true
		} else {
			dead[Edge{b, 0}] = true
		}
	}
	live := map[*ssa.BasicBlock]bool{}
	for b := range reachable(fn.Blocks[0], dead) {
		live[b] = true
	}
	return live, dead
}

// g2SelConsts lists the constants the selector is compared with (==/!=) in fn.
func g2SelConsts(fn *ssa.Function, is func(ssa.Value) bool) []int64 {
	seen := map[int64]bool{}
	eachInstr(fn, func(in ssa.Instruction) {
		bo, ok := in.(*ssa.BinOp)
		if !ok || (bo.Op != token.EQL && bo.Op != token.NEQ) {
			return
		}
		if is(bo.X) {
			if k, ok := constInt(bo.Y); ok {
				seen[k] = true
			}
		} else if is(bo.Y) {
			if k, ok := constInt(bo.X); ok {
				seen[k] = true
			}
		}
	})
	var out []int64
	for k := range seen {
		out = append(out, k)
	}
	sort.Slice(out, func(i, j int) bool { return out[i] < out[j] })
	return out
}

// g2Sources walks v backwards and returns the set of named sources (src) that can flow into it,
// following phi edges only over live CFG edges. Values it cannot look behind are returned as
// opaque leaves ("param:x", "call:f", ...). call, when non-nil, may resolve a call to the names
// flowing out of it (summary of the callee); ok=false => the arguments are followed instead for
// the transparent calls and the call is opaque otherwise.
func g2Sources(v ssa.Value, live map[*ssa.BasicBlock]bool, dead map[Edge]bool, src func(ssa.Value) (string, bool),
	call func(*ssa.Call) ([]string, bool)) map[string]bool {
	out := map[string]bool{}
	seen := map[ssa.Value]bool{}
	liveEdge := func(pred, blk *ssa.BasicBlock) bool {
		if !live[pred] {
			return false
		}
		for i, s := range pred.Succs {
			if s == blk && !dead[Edge{pred, i}] {
				return true
			}
		}
		return false
	}
	var walk func(v ssa.Value)
	walk = func(v ssa.Value) {
		if v == nil || seen[v] {
			return
		}
		seen[v] = true
		if n, ok := src(v); ok {
			out[n] = true
			return
		}
		switch x := v.(type) {
		case *ssa.Const:
			out["const:"+exprString(x)] = true
		case *ssa.Phi:
			for k, e := range x.Edges {
				if liveEdge(x.Block().Preds[k], x.Block()) {
					walk(e)
				}
			}
		case *ssa.Convert:
			walk(x.X)
		case *ssa.ChangeType:
			walk(x.X)
		case *ssa.BinOp:
			walk(x.X)
			walk(x.Y)
		case *ssa.UnOp:
			if x.Op == token.MUL {
				if al, ok := x.X.(*ssa.Alloc); ok {
					n := 0
					if refs := al.Referrers(); refs != nil {
						for _, r := range *refs {
							if st, ok := r.(*ssa.Store); ok && st.Addr == al && live[st.Block()] {
								walk(st.Val)
								n++
							}
						}
					}
					if n > 0 {
						return
					}
				}
				out["load:"+exprString(x)] = true
				return
			}
			walk(x.X)
		case *ssa.Call:
			if call != nil {
				if names, ok := call(x); ok {
					for _, n := range names {
						out[n] = true
					}
					return
				}
			}
			name := "dyn"
			if o := calleeObj(x); o != nil {
				name = o.Name()
			}
			out["call:"+name] = true
		case *ssa.Parameter:
			out["param:"+x.Name()] = true
		default:
			out["value:"+exprString(v)] = true
		}
	}
	walk(v)
	return out
}

// g2SourcesUnder: g2Sources with the branches on the selector decided by class cl. Calls to
// module functions for which bind yields a selector predicate are summarised through their
// returns (helper extraction), at most two levels deep.
func g2SourcesUnder(fn *ssa.Function, isSel func(ssa.Value) bool, cl g2Sel, v ssa.Value, src func(ssa.Value) (string, bool),
	bind func(call *ssa.Call, callee *ssa.Function, isSel func(ssa.Value) bool) func(ssa.Value) bool, depth int) map[string]bool {
	cl.Is = isSel
	live, dead := g2Live(fn, cl)
	return g2Sources(v, live, dead, src, func(call *ssa.Call) ([]string, bool) {
		callee := call.Call.StaticCallee()
		if callee == nil || callee.Blocks == nil || depth >= 2 || bind == nil || !strings.HasPrefix(pkgPathOf(callee), nebulaMod) {
			return nil, false
		}
		inner := bind(call, callee, isSel)
		if inner == nil {
			return nil, false
		}
		lv, _ := g2Live(callee, g2Sel{Is: inner, Const: cl.Const, Val: cl.Val})
		var names []string
		for _, r := range g2Returns(callee) {
			if !lv[r.Block()] {
				continue
			}
			for _, res := range r.Results {
				if types.Identical(res.Type(), call.Type()) {
					for n := range g2SourcesUnder(callee, inner, cl, res, src, bind, depth+1) {
						names = append(names, n)
					}
				}
			}
		}
		return names, len(names) > 0
	})
}

func g2SetString(m map[string]bool) string { return setStr(m) }

func g2OnlySource(m map[string]bool, want string) bool { return len(m) == 1 && m[want] }

func g2HasOpaque(m map[string]bool) bool {
	for k := range m {
		if strings.Contains(k, ":") {
			return true
		}
	}
	return false
}

// ---------------------------------------------------------------------------------------
// order of two instants

// g2LaterGuard: a test that establishes "E is later than the other instant" where E satisfies
// isE: E.After(n) / n.Before(E) true, E.Before(n) / n.After(E) false, E.Sub(n) / E.Compare(n) /
// time.Until(E) compared with zero (> or >= pass), n.Sub(E) / time.Since(E) (< or <= pass).
func g2LaterGuard(name string, isE func(ssa.Value) bool) Guard {
	timeCall := func(v ssa.Value) (*ssa.Call, string) {
		call, _ := callOf(v)
		if call == nil {
			return nil, ""
		}
		o := calleeObj(call)
		if o == nil || o.Pkg() == nil || o.Pkg().Path() != "time" {
			return nil, ""
		}
		return call, o.Name()
	}
	return Guard{Name: name, Match: func(cd Cond, _ *ssa.If) (bool, bool) {
		switch cd.Kind {
		case CondBool:
			call, n := timeCall(cd.Base)
			if call == nil || len(callArgs(call)) != 2 || (n != "After" && n != "Before") {
				return false, false
			}
			a := callArgs(call)
			eFirst, eSecond := isE(a[0]), isE(a[1])
			if eFirst == eSecond {
				return false, false
			}
			// After(E,n) true => later ; Before(n,E) true => later
			later := (n == "After") == eFirst
			return true, later != cd.Neg
		case CondCmp:
			bo := cd.Base.(*ssa.BinOp)
			op := bo.Op
			var x ssa.Value
			if k, ok := constInt(bo.Y); ok && k == 0 {
				x = bo.X
			} else if k, ok := constInt(bo.X); ok && k == 0 {
				x, op = bo.Y, swapOp(op)
			} else {
				return false, false
			}
			if cd.Neg {
				op = negOp(op)
			}
			call, n := timeCall(x)
			if call == nil {
				return false, false
			}
			a := callArgs(call)
			sign := 0 // +1: x = E - n ; -1: x = n - E
			switch {
			case (n == "Sub" || n == "Compare") && len(a) == 2 && isE(a[0]) != isE(a[1]):
				sign = -1
				if isE(a[0]) {
					sign = 1
				}
			case n == "Until" && len(a) == 1 && isE(a[0]):
				sign = 1
			case n == "Since" && len(a) == 1 && isE(a[0]):
				sign = -1
			default:
				return false, false
			}
			if sign < 0 {
				op = swapOp(op) // (n-E) op 0  <=>  (E-n) swap(op) 0
			}
			switch op {
			case token.GTR, token.GEQ:
				return true, true
			case token.LSS, token.LEQ:
				return true, false
			}
		}
		return false, false
	}}
}

// ---------------------------------------------------------------------------------------
// lock held at selected calls

// g2CallsUnderLock: every call in the module for which pick holds is made with the mutex class
// held in write mode; functions named in entry are analysed as entered with the lock held (their
// own callers are checked by the LockDiscipline that tables them). Returns the number of sites.
func (c *Ctx) g2CallsUnderLock(rule string, key lockKey, pick func(ssa.CallInstruction) (string, bool), entry map[string]int) int {
	n := 0
	for _, fn := range c.moduleFuncs() {
		if strings.HasSuffix(c.fileOf(topFunc(fn).Pos()), "_tester.go") {
			continue
		}
		var lf *LockFlow
		seen := map[string]int{}
		eachInstr(fn, func(in ssa.Instruction) {
			ci, ok := in.(ssa.CallInstruction)
			if !ok {
				return
			}
			what, ok := pick(ci)
			if !ok {
				return
			}
			if root, _ := addrRoot(stripLoad(callArgs(ci)[0])); isFreshAllocDeep(root) {
				return // object under construction
			}
			if lf == nil {
				st := lockState{}
				if m, ok := entry[fnName(topFunc(fn))]; ok {
					st[key] = m
				}
				lf = lockFlow(fn, st, nil)
			}
			m, live := lf.mustAt(in, key)
			if !live {
				return
			}
			n++
			seen[what]++
			c.Check(m == lkW, rule, fmt.Sprintf("%s:call:%s#%d", fnName(fn), what, seen[what]), c.instrPos(in), "mutex held", fmt.Sprintf("%s is called with %s %s", what, key, modeName(m)))
		})
	}
	return n
}

// g2HasMethod resolves a method declared on a (possibly generic) named type as an object; an
// unresolved one makes the check UNDECIDED.
func g2HasMethod(c *Ctx, n *types.Named, name string) bool {
	for i := 0; i < n.NumMethods(); i++ {
		if n.Method(i).Name() == name {
			return true
		}
	}
	c.Unknown("anchor", n.Obj().Name()+"."+name, "method not found in the current tree (renamed or removed)")
	return false
}

// ---------------------------------------------------------------------------------------
// one-level summaries: a guard established inside a helper

// g2RetGuarded: every way fn can return `want` in its boolean result idx either crosses a pass
// edge of g, or returns a value that can equal want only if g's test passed (`return a.After(b)`).
// False when fn has no such return at all.
func g2RetGuarded(fn *ssa.Function, idx int, want bool, g Guard) bool {
	edges, _ := passEdges(fn, g)
	prev := reachable(fn.Blocks[0], edges)
	leaf := func(v ssa.Value) (bool, bool) { return g.Match(normCond(v), nil) }
	n, ok := 0, true
	for _, b := range fn.Blocks {
		if len(b.Instrs) == 0 || b == fn.Recover {
			continue
		}
		ret, isRet := b.Instrs[len(b.Instrs)-1].(*ssa.Return)
		if !isRet || idx >= len(ret.Results) {
			continue
		}
		one := func(val ssa.Value, via *ssa.BasicBlock) {
			if bv, isC := boolConst(val); isC && bv != want {
				return
			} else if !isC {
				if imp, pt := g2Implied(val, leaf, nil, 0); imp && pt == want {
					n++
					return
				}
			}
			n++
			if via == nil {
				if _, r := prev[b]; r {
					ok = false
				}
				return
			}
			if _, r := prev[via]; !r {
				return
			}
			for i, s := range via.Succs {
				if s == b && !edges[Edge{via, i}] {
					ok = false
				}
			}
		}
		v := retResult(ret, idx)
		if phi, isPhi := v.(*ssa.Phi); isPhi && phi.Block() == b {
			for k, e := range phi.Edges {
				one(e, b.Preds[k])
			}
		} else {
			one(v, nil)
		}
	}
	return ok && n > 0
}

// g2SummaryGuard: an If on the single boolean result of a static call to a module function whose
// own `return true` (or `return false`) is guarded, inside it, by the guard inner builds for that
// callee (the caller's objects re-expressed over the callee's parameters). One level only: inner
// must not itself contain summary guards.
func g2SummaryGuard(name string, inner func(call *ssa.Call, callee *ssa.Function) (Guard, bool)) Guard {
	type res struct{ is, passTrue bool }
	memo := map[*ssa.Call]res{}
	return Guard{Name: name, Match: func(cd Cond, _ *ssa.If) (bool, bool) {
		if cd.Kind != CondBool {
			return false, false
		}
		call, idx := callOf(cd.Base)
		if call == nil || idx != -1 || !types.Identical(call.Type(), types.Typ[types.Bool]) {
			return false, false
		}
		r, done := memo[call]
		if !done {
			callee := call.Call.StaticCallee()
			if callee != nil && callee.Blocks != nil && strings.HasPrefix(pkgPathOf(callee), nebulaMod) {
				if g, ok := inner(call, callee); ok {
					switch {
					case g2RetGuarded(callee, 0, true, g):
						r = res{true, true}
					case g2RetGuarded(callee, 0, false, g):
						r = res{true, false}
					}
				}
			}
			memo[call] = r
		}
		if !r.is {
			return false, false
		}
		return true, r.passTrue != cd.Neg
	}}
}

// g2Bypass: is the sink reachable from the entry without crossing a pass edge of g
// (flag-sensitive)? Returns the witness, whether it is, and the number of matching tests.
func (c *Ctx) g2Bypass(fn *ssa.Function, s Sink, g Guard) ([]string, bool, int) {
	edges, n := passEdges(fn, g)
	w := c.g2Explore(fn, []*ssa.BasicBlock{fn.Blocks[0]}, nil, edges, nil)
	path, hit := w.reaches(s)
	return path, hit, n
}

// ---------------------------------------------------------------------------------------
// small shared pieces

func g2FailEdges(fn *ssa.Function, g Guard) map[Edge]bool {
	pass, _ := passEdges(fn, g)
	out := map[Edge]bool{}
	for e := range pass {
		out[Edge{e.From, 1 - e.Succ}] = true
	}
	return out
}

func g2Union(ms ...map[Edge]bool) map[Edge]bool {
	out := map[Edge]bool{}
	for _, m := range ms {
		for e := range m {
			out[e] = true
		}
	}
	return out
}

// g2LoadOn: v is a load of field f whose base object satisfies base.
func g2LoadOn(v ssa.Value, f *types.Var, base func(ssa.Value) bool) bool {
	switch x := stripValue(v).(type) {
	case *ssa.UnOp:
		if fa, ok := x.X.(*ssa.FieldAddr); ok && x.Op == token.MUL {
			return fieldOfAddr(fa) == f && base(fa.X)
		}
	case *ssa.Field:
		return fieldOfVal(x) == f && base(x.X)
	}
	return false
}

// g2Materialised: the result of a leaf test ends (through negations and boolean phis) in a branch
// the lifted guard does not recognise, or in a store (flag variable in memory): the rule cannot
// follow it.
func g2Materialised(fn *ssa.Function, lifted Guard, leaves ...Guard) bool {
	found := false
	seen := map[ssa.Value]bool{}
	var follow func(v ssa.Value)
	follow = func(v ssa.Value) {
		if seen[v] || v.Referrers() == nil {
			return
		}
		seen[v] = true
		for _, r := range *v.Referrers() {
			switch x := r.(type) {
			case *ssa.If:
				if is, _ := lifted.Match(normCond(x.Cond), x); !is {
					found = true
				}
			case *ssa.Store:
				if x.Val == v {
					found = true
				}
			case *ssa.Phi:
				follow(x)
			case *ssa.UnOp:
				if x.Op == token.NOT {
					follow(x)
				}
			}
		}
	}
	eachInstr(fn, func(in ssa.Instruction) {
		v, ok := in.(ssa.Value)
		if !ok || !types.Identical(v.Type(), types.Typ[types.Bool]) {
			return
		}
		cd := normCond(v)
		for _, g := range leaves {
			if m, _ := g.Match(cd, nil); m {
				follow(v)
				return
			}
		}
	})
	return found
}
