package main

import (
	"fmt"
	"go/token"

	"golang.org/x/tools/go/ssa"
)

var (
	c29PendingLock = lockKey("HandshakeManager.RWMutex")
	c29HHLock      = lockKey("HandshakeHostInfo.Mutex")

	c29GenIndex   = Ref{"", "", "generateIndex"}
	c29AllocIndex = Ref{"", "HandshakeManager", "allocateIndex"}
)

func init() {
	register(&Property{
		ID: "C29", Title: "Local tunnel indexes are unique and never zero",
		Patterns:    []string{"."},
		Technique:   "CFG guard reachability (with materialised booleans and one level of helper summaries) on generateIndex / allocateIndex / CheckAndComplete / AddRelay, lock-held dataflow for check-then-insert atomicity, who-may-write tables by kind of write for the three local-index maps and HostInfo.localIndexId, provenance of inserted / deleted keys, ownership tests on every index release",
		LevelText:   "Structural necessary conditions on all paths: generateIndex returns success only after testing the returned value against zero, and every index allocator handed to a handshake machine returns generateIndex / allocateIndex results; allocateIndex inserts into the pending table only a generateIndex value that it found absent from both the pending and the main table, in one critical section of the pending-table lock (main table read-locked), records it as the tunnel's own index and returns it; CheckAndComplete adds a tunnel to the main table only after its index was found absent from the main table and absent from the pending table (or pending for this very tunnel), holding both write locks from the tests to the insert; Complete moves the index from pending to main in one critical section and is reached only after continueHandshake re-verified, under the handshake's own lock, that the pending entry is still this handshake (the timeout path deletes under the same lock); AddRelay inserts a relay index only if absent from Relays, in one write-lock critical section, and records the same value in the Relay; entries of Indexes / pending indexes / Relays / RemoteIndexes are inserted, deleted and replaced only by the tabled functions, a drained map is replaced only when empty, the key deleted is the removed tunnel's own index, and each delete is ownership-checked (the entry is the tunnel being removed).",
		LevelNote:   "Not decided: the probability of 32 consecutive collisions (allocation then fails with an error, which is decided); histories (that the tables really contain what the guards assume is C28's invariant); responder indexes are not reserved between generateIndex and CheckAndComplete (by design, covered by the collision tests there); uniqueness across the relay and tunnel namespaces is not required. Lock classes are per type.",
		Explanation: "K1 (edge-sensitive, helper-lifted) guards, K3 atomicity of test+insert, K2 writer tables by kind, K11 key provenance, ownership guards on release",
		Run:         runC29,
		Canaries: func(c *Ctx) []Canary {
			return []Canary{
				{Name: "generate-index-single-draw", File: "handshake_manager.go", Old: "\tfor index == 0 {\n\t\t_, err := rand.Read(b)", New: "\tfor first := true; first; first = false {\n\t\t_, err := rand.Read(b)", Rule: "C29.nonzero"},
				{Name: "responder-index-echoes-initiator", File: "handshake_manager.go", Old: "func() (uint32, error) { return generateIndex(f.l) },", New: "func() (uint32, error) { return h.RemoteIndex, nil },", Rule: "C29.nonzero"},
				{Name: "allocate-ignores-main-table", File: "handshake_manager.go", Old: "\t\t_, inMain := hm.mainHostMap.Indexes[index]\n\n\t\tif !inMain && !inPending {", New: "\t\tif !inPending {", Rule: "C29.alloc"},
				{Name: "allocate-under-read-lock", File: "handshake_manager.go", Old: "\thm.Lock()\n\tdefer hm.Unlock()\n\n\tfor range 32 {", New: "\thm.RLock()\n\tdefer hm.RUnlock()\n\n\tfor range 32 {", Rule: "C29.alloc"},
				{Name: "pending-collision-compares-index-not-owner", File: "handshake_manager.go", Old: "if found && existingPendingIndex.hostinfo != hostinfo {", New: "if found && existingPendingIndex.hostinfo.localIndexId != hostinfo.localIndexId {", Rule: "C29.complete"},
				{Name: "complete-without-reverify", File: "handshake_manager.go", Old: "\tif !ok || cur != hh {\n\t\treturn\n\t}", New: "\tif !ok || cur == nil {\n\t\treturn\n\t}", Rule: "C29.complete"},
				{Name: "relay-index-checked-in-wrong-map", File: "relay_manager.go", Old: "_, inRelays := hm.Relays[index]", New: "_, inRelays := hm.Indexes[index]", Rule: "C29.relay"},
				{Name: "index-deleted-from-connection-manager", File: "connection_manager.go", Old: "func (cm *connectionManager) getInactivityTimeout() time.Duration {", New: "func (cm *connectionManager) forgetIndex(i uint32) { delete(cm.hostMap.Indexes, i) }\n\nfunc (cm *connectionManager) getInactivityTimeout() time.Duration {", Rule: "C29.release"},
				{Name: "pending-delete-by-remote-index", File: "handshake_manager.go", Old: "\tdelete(hm.indexes, hostinfo.localIndexId)\n", New: "\tdelete(hm.indexes, hostinfo.remoteIndexId)\n", Rule: "C29.release"},
				{Name: "index-map-replaced-while-one-left", File: "hostmap.go", Old: "\tif len(hm.Indexes) == 0 {\n\t\thm.Indexes = map[uint32]*HostInfo{}", New: "\tif len(hm.Indexes) <= 1 {\n\t\thm.Indexes = map[uint32]*HostInfo{}", Rule: "C29.release"},
				{Name: "remote-index-delete-unowned", File: "hostmap.go", Old: "\tif ok && hostinfo2 == hostinfo {\n\t\tdelete(hm.RemoteIndexes, hostinfo.remoteIndexId)", New: "\tif ok {\n\t\t_ = hostinfo2\n\t\tdelete(hm.RemoteIndexes, hostinfo.remoteIndexId)", Rule: "C29.remote-owner"},
			}
		},
	})
}

func runC29(c *Ctx) {
	c.Rule("C29.nonzero", "K1/K11: generateIndex returns success only after `index != 0` on the returned value; every IndexAllocator passed to handshake.NewMachine returns the results of generateIndex / allocateIndex", 3)
	c.Rule("C29.alloc", "K1/K3/K11: allocateIndex inserts into the pending table a generateIndex value found absent from pending and main, in one critical section (pending write lock, main read lock), stores it as the tunnel's index and returns it", 12)
	c.Rule("C29.complete", "K1/K3/K2: CheckAndComplete adds to main only after both collision tests (pending exempts only this tunnel) under both write locks; Complete moves pending->main atomically and is reached only after the re-verification under the handshake lock", 16)
	c.Rule("C29.relay", "K1/K3/K11: AddRelay inserts a generateIndex value into Relays only if absent, in one write-lock critical section, and records the same value as Relay.LocalIndex / InsertRelay key / result", 8)
	c.Rule("C29.release", "K2/K1/K11: Indexes / pending indexes / Relays / localIndexId are written only by the tabled functions per kind of write; a map is replaced only when empty; the deleted key is the removed tunnel's own index", 11)
	c.Rule("C29.release-owner", "K1: every delete from a local-index map is guarded by an ownership test (the entry is the tunnel being removed): a second delete of an already removed tunnel, or a delete on behalf of a tunnel of the other table, must not release an index that was handed out again", 3)
	c.Rule("C29.remote-owner", "K1/K2: RemoteIndexes entries are deleted only in unlockedDeleteHostInfo and only when the entry is the tunnel being removed", 5)

	fIdx := c.Field("", "HostMap", "Indexes")
	fRel := c.Field("", "HostMap", "Relays")
	fRI := c.Field("", "HostMap", "RemoteIndexes")
	fPend := c.Field("", "HandshakeManager", "indexes")
	fLocal := c.Field("", "HostInfo", "localIndexId")
	fRemote := c.Field("", "HostInfo", "remoteIndexId")
	fHHhi := c.Field("", "HandshakeHostInfo", "hostinfo")
	if fIdx == nil || fRel == nil || fRI == nil || fPend == nil || fLocal == nil || fHHhi == nil || fRemote == nil {
		return
	}
	// absent(f): `_, ok := x.f[key]` with ok false; the key role is re-bound inside helpers
	absent := func(what string, f *typesVar, key func(ssa.Value) bool, owner ssa.Value) Guard {
		// `_, ok := m[k]; !ok`, or `m[k] == nil` (the tables never hold nil entries)
		mk := func(k func(ssa.Value) bool) Guard {
			return gAny(what, gValBool(what, false, g8CommaOK(f, k)), gValNil(what, g8Entry(f, k)))
		}
		byKey := c.g8Lift(what, func(r g8Roles) Guard { return mk(r["key"]) }, g8Roles{"key": key})
		if owner == nil {
			return byKey
		}
		// the key is the owner's localIndexId: a helper may take the tunnel instead of the index
		byOwner := c.g8Lift(what, func(r g8Roles) Guard { return mk(g8FieldOf(fLocal, r["hi"])) }, g8Roles{"hi": g8Is(owner)})
		return gAny(what, byKey, byOwner)
	}

	c29NonZero(c)
	c29Alloc(c, fIdx, fPend, fLocal, fHHhi, absent)
	c29Complete(c, fIdx, fPend, fLocal, fHHhi, absent)
	c29Relay(c, fRel, absent)
	c29Release(c, fIdx, fRel, fRI, fPend, fLocal, fRemote, fHHhi)
}

// ---- generateIndex and the allocators handed to the handshake machines
func c29NonZero(c *Ctx) {
	if fn := c.Func(c29GenIndex); fn != nil {
		sinks := g8SuccessReturns(fn, 1)
		if len(sinks) == 0 {
			c.Unknown("C29.nonzero", "generateIndex:success-return", "no success return found")
		}
		for i, s := range sinks {
			v := retResult(s.Instr.(*ssa.Return), 0)
			g := gCmp("returned index != 0", g8Is(v), isIntConst(0), mustDiffer)
			by, n, path := c.g8Bypass(fn, nil, s, g)
			cons := fmt.Sprintf("generateIndex:success-return#%d<-index!=0", i)
			if by {
				c.Bad("C29.nonzero", cons, c.instrPos(s.Instr), fmt.Sprintf("generateIndex can return success without having tested the returned value against zero (%d test(s) found): zero means \"unknown index\" on the wire", n), path...)
			} else {
				c.OK("C29.nonzero", cons, fmt.Sprintf("%d test(s)", n))
			}
		}
	}
	// every allocator given to a handshake machine draws from generateIndex / allocateIndex
	n := 0
	for _, fn := range c.moduleFuncs() {
		if c.isTestFile(fn.Pos()) {
			continue
		}
		for k, ci := range callsIn(fn, Ref{"handshake", "", "NewMachine"}) {
			n++
			cons := fmt.Sprintf("%s:NewMachine#%d:allocator", fnName(fn), k)
			args := ci.Common().Args
			if len(args) < 4 {
				c.Unknown("C29.nonzero", cons, "unexpected NewMachine signature")
				continue
			}
			al, _ := g8ClosureArg(args[3])
			if al == nil || al.Blocks == nil {
				c.Unknown("C29.nonzero", cons, "the index allocator is not a function literal / named function: cannot see where indexes come from")
				continue
			}
			c.Funcs[al.String()] = true
			bad := ""
			for _, r := range g8Returns(al) {
				if len(r.Results) != 2 {
					bad = "unexpected result count"
					break
				}
				v, e := retResult(r, 0), retResult(r, 1)
				call, i := callOf(v)
				fromAlloc := call != nil && i == 0 && matchAny(calleeObj(call), []Ref{c29GenIndex, c29AllocIndex})
				if fromAlloc {
					if ec, j := callOf(e); ec != call || j != 1 {
						bad = "the error of the allocation is not propagated with the index"
					}
					continue
				}
				if definitelyNonNil(e, 0) {
					continue // failure return
				}
				bad = "returns " + exprString(v) + " as a fresh local index"
			}
			c.Check(bad == "", "C29.nonzero", cons, c.instrPos(ci), "returns generateIndex/allocateIndex results", "the index allocator of this handshake machine "+bad+": the index is neither guaranteed non-zero nor checked for uniqueness")
		}
	}
	if n == 0 {
		c.Unknown("C29.nonzero", "NewMachine", "no handshake machine construction found")
	}
}

type c29Absent func(what string, f *typesVar, key func(ssa.Value) bool, owner ssa.Value) Guard

// c29TestSites: the instructions that test membership of key in x.f: the lookups themselves, or,
// when the test lives in a helper, the calls passing the key (or its owner) to a module function
// that looks f up.
func c29TestSites(fn *ssa.Function, f *typesVar, key func(ssa.Value) bool, owner ssa.Value) []ssa.Instruction {
	var out []ssa.Instruction
	for _, lk := range g8Lookups(fn, f, key) {
		out = append(out, lk)
	}
	if len(out) > 0 {
		return out
	}
	eachInstr(fn, func(in ssa.Instruction) {
		call, ok := in.(*ssa.Call)
		if !ok {
			return
		}
		h := call.Call.StaticCallee()
		if h == nil || h.Blocks == nil || len(g8Lookups(h, f, nil)) == 0 {
			return
		}
		for _, a := range call.Call.Args {
			if key(a) || (owner != nil && g8Same(a, owner)) {
				out = append(out, in)
				return
			}
		}
	})
	return out
}

// ---- allocateIndex
func c29Alloc(c *Ctx, fIdx, fPend, fLocal, fHHhi *typesVar, absent c29Absent) {
	fn := c.Func(c29AllocIndex)
	if fn == nil {
		return
	}
	hh := fn.Params[1]
	ins := g8Inserts(fn, fPend)
	if len(ins) == 0 {
		c.Unknown("C29.alloc", "allocateIndex:pending-insert", "no insert into the pending index table found")
		return
	}
	lf := lockFlow(fn, nil, nil)
	for i, mu := range ins {
		cons := fmt.Sprintf("allocateIndex:pending-insert#%d", i)
		key := mu.Key
		c.Check(g8ResultOf(0, c29GenIndex)(key), "C29.alloc", cons+":key-from-generateIndex", c.instrPos(mu), "key is a generateIndex result", "the reserved index "+exprString(key)+" does not come from generateIndex: it is not known to be non-zero")
		c.Check(g8Same(mu.Value, hh), "C29.alloc", cons+":owner", c.instrPos(mu), "registered for the handshake being set up", "the pending entry does not point at the handshake the index is allocated for")
		sink := []Sink{{Instr: mu, Desc: "pending insert"}}
		c.g8Require("C29.alloc", fn, sink, fmt.Sprintf("pending-insert#%d", i),
			absent("index absent from main Indexes", fIdx, g8Is(key), nil),
			absent("index absent from pending indexes", fPend, g8Is(key), nil))
		// test and insert are one critical section
		for j, lk := range c29TestSites(fn, fPend, g8Is(key), nil) {
			c.g8Atomic("C29.alloc", fmt.Sprintf("%s:pending-test#%d", cons, j), lf, lk, mu, c29PendingLock, lkW, "the pending-table test and the reservation must be atomic against other allocations and completions")
		}
		for j, lk := range c29TestSites(fn, fIdx, g8Is(key), nil) {
			c.g8Atomic("C29.alloc", fmt.Sprintf("%s:main-test#%d", cons, j), lf, lk, mu, c29PendingLock, lkW, "the main-table test and the reservation must be atomic against completions (which take the pending lock too)")
			c.g8HeldAt("C29.alloc", fmt.Sprintf("%s:main-test#%d:main-read-locked", cons, j), lf, lk, hostMapLock, lkR, "reading the main index table")
		}
	}
	// the tunnel records the reserved value as its own index, and the caller gets that value
	isOwnStore := func(key ssa.Value) func(ssa.Instruction) bool {
		return func(in ssa.Instruction) bool {
			st, ok := in.(*ssa.Store)
			if !ok {
				return false
			}
			fa, ok := st.Addr.(*ssa.FieldAddr)
			return ok && fieldOfAddr(fa) == fLocal && g8Same(st.Val, key) && g8FieldOf(fHHhi, g8Is(hh))(fa.X)
		}
	}
	rets := g8SuccessReturns(fn, 1)
	if len(rets) == 0 {
		c.Unknown("C29.alloc", "allocateIndex:success-return", "no success return found")
	}
	for i, s := range rets {
		ret := s.Instr.(*ssa.Return)
		v := retResult(ret, 0)
		cons := fmt.Sprintf("allocateIndex:success-return#%d", i)
		var mine *ssa.MapUpdate
		for _, mu := range ins {
			if g8Same(mu.Key, v) {
				mine = mu
			}
		}
		if mine == nil {
			c.Bad("C29.alloc", cons+":returns-reserved", c.instrPos(ret), "the index returned to the handshake machine ("+exprString(v)+") is not the one reserved in the pending table")
			continue
		}
		av, path := c.avoidsCut(fn, nil, ret, func(in ssa.Instruction) bool { return in == ssa.Instruction(mine) })
		if av {
			c.Bad("C29.alloc", cons+":returns-reserved", c.instrPos(ret), "allocateIndex can return success without having reserved the index in the pending table", path...)
		} else {
			c.OK("C29.alloc", cons+":returns-reserved", "reserved on every path")
		}
		av, path = c.avoidsCut(fn, nil, ret, isOwnStore(mine.Key))
		if av {
			c.Bad("C29.alloc", cons+":stored-as-own-index", c.instrPos(ret), "allocateIndex can return success without storing the reserved value into hh.hostinfo.localIndexId: the tunnel would later release / look up a different index than the one reserved", path...)
		} else {
			c.OK("C29.alloc", cons+":stored-as-own-index", "hh.hostinfo.localIndexId = reserved index on every path")
		}
	}
}

// ---- CheckAndComplete / Complete / continueHandshake
func c29Complete(c *Ctx, fIdx, fPend, fLocal, fHHhi *typesVar, absent c29Absent) {
	addRef := Ref{"", "HostMap", "unlockedAddHostInfo"}
	pendDel := Ref{"", "HandshakeManager", "unlockedDeleteHostInfo"}
	funcs := c.moduleFuncs()
	if fn := c.Func(Ref{"", "HandshakeManager", "CheckAndComplete"}); fn != nil {
		hi := fn.Params[1]
		ownIdx := g8FieldOf(fLocal, g8Is(hi))
		var sinks []Sink
		for _, ci := range callsIn(fn, addRef) {
			c.Check(len(callArgs(ci)) > 1 && g8Same(callArgs(ci)[1], hi), "C29.complete", "CheckAndComplete:adds-checked-tunnel", c.instrPos(ci), "the tunnel added is the one tested", "the tunnel added to the main table is not the one whose index was tested")
			sinks = append(sinks, Sink{Instr: ci, Desc: "unlockedAddHostInfo"})
		}
		pendingOK := c.g8Lift("index not pending for another tunnel", func(r g8Roles) Guard {
			return gAny("index not pending for another tunnel",
				gValBool("not pending", false, g8CommaOK(fPend, g8FieldOf(fLocal, r["hi"]))),
				gCmp("pending entry is this tunnel", g8FieldOf(fHHhi, g8Entry(fPend, g8FieldOf(fLocal, r["hi"]))), r["hi"], mustEqual))
		}, g8Roles{"hi": g8Is(hi)})
		c.g8Require("C29.complete", fn, sinks, "add", absent("index absent from main Indexes", fIdx, ownIdx, hi), pendingOK)
		lf := lockFlow(fn, nil, nil)
		for i, s := range sinks {
			for j, lk := range c29TestSites(fn, fIdx, ownIdx, hi) {
				c.g8Atomic("C29.complete", fmt.Sprintf("CheckAndComplete:add#%d:main-test#%d", i, j), lf, lk, s.Instr, hostMapLock, lkW, "main-table collision test and insert must be atomic")
			}
			for j, lk := range c29TestSites(fn, fPend, ownIdx, hi) {
				c.g8Atomic("C29.complete", fmt.Sprintf("CheckAndComplete:add#%d:pending-test#%d", i, j), lf, lk, s.Instr, c29PendingLock, lkW, "pending-table collision test and insert must be atomic against allocateIndex")
			}
		}
	}
	if fn := c.Func(Ref{"", "HandshakeManager", "Complete"}); fn != nil {
		hi := fn.Params[1]
		adds, dels := callsIn(fn, addRef), callsIn(fn, pendDel)
		lf := lockFlow(fn, nil, nil)
		if len(adds) == 0 {
			c.Unknown("C29.complete", "Complete:add", "unlockedAddHostInfo call not found")
		}
		for i, a := range adds {
			cons := fmt.Sprintf("Complete:add#%d", i)
			c.Check(g8Same(callArgs(a)[1], hi), "C29.complete", cons+":tunnel", c.instrPos(a), "adds the completed tunnel", "Complete adds a different tunnel than the one whose index is reserved")
			c.g8HeldAt("C29.complete", cons+":main-write-locked", lf, a, hostMapLock, lkW, "adding to the main table")
			c.g8HeldAt("C29.complete", cons+":pending-write-locked", lf, a, c29PendingLock, lkW, "the index must not be re-allocated while it moves from pending to main")
			for j, d := range dels {
				if !g8Same(callArgs(d)[1], hi) {
					continue
				}
				from, to := ssa.Instruction(d), ssa.Instruction(a)
				if g8Dominates(a, d) {
					from, to = a, d
				}
				c.Check(!g8ReleasedBetween(from, to, c29PendingLock) && !g8ReleasedBetween(from, to, hostMapLock), "C29.complete", fmt.Sprintf("%s:move-atomic#%d", cons, j), c.instrPos(a), "pending release and main insert in one critical section", "a lock is released between releasing the pending reservation and inserting into the main table: the index is in neither table in between and can be handed out again")
			}
		}
	}
	// who may add to the main table / complete
	c.g8Callers("C29.complete", funcs, "unlockedAddHostInfo", map[string]string{
		"(*nebula.HandshakeManager).CheckAndComplete": "responder path: guarded by the collision tests above",
		"(*nebula.HandshakeManager).Complete":         "initiator path: the index is reserved in the pending table",
	}, addRef)
	completes := c.g8Callers("C29.complete", funcs, "Complete", map[string]string{
		"(*nebula.HandshakeManager).continueHandshake": "after re-verifying the pending entry under the handshake lock",
	}, Ref{"", "HandshakeManager", "Complete"})
	if fn := c.Func(Ref{"", "HandshakeManager", "continueHandshake"}); fn != nil {
		hh := fn.Params[2]
		hhHI := g8FieldOf(fHHhi, g8Is(hh))
		ownIdx := g8FieldOf(fLocal, hhHI)
		lf := lockFlow(fn, nil, nil)
		n := 0
		for _, s := range completes {
			if s.Fn != fn {
				continue
			}
			ci := s.Instr.(ssa.CallInstruction)
			cons := fmt.Sprintf("continueHandshake:Complete#%d", n)
			n++
			c.Check(hhHI(callArgs(ci)[1]), "C29.complete", cons+":tunnel", c.instrPos(s.Instr), "completes hh.hostinfo", "the tunnel completed is not the pending handshake's own tunnel")
			// `cur, ok := hm.indexes[idx]; ok && cur == hh` or `hm.indexes[idx] == hh` (a missing entry reads
			// as nil, and hh is not nil): the entry for the tunnel's index is this very handshake
			still := c.g8Lift("pending entry is still this handshake", func(r g8Roles) Guard {
				own := g8FieldOf(fLocal, g8FieldOf(fHHhi, r["hh"]))
				return gCmp("pending entry is still this handshake", g8Entry(fPend, own), r["hh"], mustEqual)
			}, g8Roles{"hh": g8Is(hh)})
			c.g8Require("C29.complete", fn, []Sink{{Instr: s.Instr, Desc: "Complete"}}, fmt.Sprintf("Complete#%d", n-1), still)
			for j, lk := range c29TestSites(fn, fPend, ownIdx, hh) {
				c.g8Atomic("C29.complete", fmt.Sprintf("%s:reverify#%d", cons, j), lf, lk, s.Instr, c29HHLock, lkW, "the re-verification only protects Complete while the handshake's own lock keeps the timeout path from deleting it")
			}
		}
		if n == 0 {
			c.Unknown("C29.complete", "continueHandshake:Complete", "call not found")
		}
	}
	// the timeout path deletes the pending state under the same handshake lock
	if fn := c.Func(Ref{"", "HandshakeManager", "handleOutbound"}); fn != nil {
		lf := lockFlow(fn, nil, nil)
		dels := callsIn(fn, Ref{"", "HandshakeManager", "DeleteHostInfo"})
		if len(dels) == 0 {
			c.Unknown("C29.complete", "handleOutbound:DeleteHostInfo", "give-up delete not found")
		}
		for i, d := range dels {
			c.g8HeldAt("C29.complete", fmt.Sprintf("handleOutbound:DeleteHostInfo#%d:handshake-locked", i), lf, d, c29HHLock, lkW, "the give-up delete must exclude a concurrent completion of the same handshake")
		}
	}
}

// ---- AddRelay
func c29Relay(c *Ctx, fRel *typesVar, absent c29Absent) {
	fn := c.Func(Ref{"", "", "AddRelay"})
	if fn == nil {
		return
	}
	fLI := c.Field("", "Relay", "LocalIndex")
	ins := g8Inserts(fn, fRel)
	if len(ins) == 0 {
		c.Unknown("C29.relay", "AddRelay:insert", "no insert into Relays found")
		return
	}
	lf := lockFlow(fn, nil, nil)
	for i, mu := range ins {
		cons := fmt.Sprintf("AddRelay:insert#%d", i)
		key := mu.Key
		c.Check(g8ResultOf(0, c29GenIndex)(key), "C29.relay", cons+":key-from-generateIndex", c.instrPos(mu), "key is a generateIndex result", "the relay index "+exprString(key)+" does not come from generateIndex")
		c.g8Require("C29.relay", fn, []Sink{{Instr: mu, Desc: "Relays insert"}}, fmt.Sprintf("insert#%d", i), absent("index absent from Relays", fRel, g8Is(key), nil))
		for j, lk := range c29TestSites(fn, fRel, g8Is(key), nil) {
			c.g8Atomic("C29.relay", fmt.Sprintf("%s:test#%d", cons, j), lf, lk, mu, hostMapLock, lkW, "the Relays test and the insert must be atomic")
		}
		// the same value is recorded in the Relay and handed to InsertRelay
		okLI := false
		eachInstr(fn, func(in ssa.Instruction) {
			if st, ok := in.(*ssa.Store); ok {
				if fa, ok := st.Addr.(*ssa.FieldAddr); ok && fLI != nil && fieldOfAddr(fa) == fLI && g8Same(st.Val, key) {
					okLI = true
				}
			}
		})
		c.Check(okLI, "C29.relay", cons+":Relay.LocalIndex", c.instrPos(mu), "Relay.LocalIndex = inserted key", "the Relay does not record the inserted index as its LocalIndex: later updates re-key the relay state under a different index than the one registered in hm.Relays")
		okIns := false
		for _, ci := range callsIn(fn, Ref{"", "RelayState", "InsertRelay"}) {
			if a := callArgs(ci); len(a) > 2 && g8Same(a[2], key) {
				okIns = true
			}
		}
		c.Check(okIns, "C29.relay", cons+":InsertRelay-key", c.instrPos(mu), "InsertRelay(_, key, _)", "the owning tunnel's relay state is not keyed by the inserted index: the index would never be released")
	}
	for i, s := range g8SuccessReturns(fn, 1) {
		ret := s.Instr.(*ssa.Return)
		v := retResult(ret, 0)
		var mine *ssa.MapUpdate
		for _, mu := range ins {
			if g8Same(mu.Key, v) {
				mine = mu
			}
		}
		cons := fmt.Sprintf("AddRelay:success-return#%d:returns-inserted", i)
		if mine == nil {
			c.Bad("C29.relay", cons, c.instrPos(ret), "the relay index returned ("+exprString(v)+") is not the one inserted into hm.Relays")
			continue
		}
		av, path := c.avoidsCut(fn, nil, ret, func(in ssa.Instruction) bool { return in == ssa.Instruction(mine) })
		if av {
			c.Bad("C29.relay", cons, c.instrPos(ret), "AddRelay can return success without having inserted the index", path...)
		} else {
			c.OK("C29.relay", cons, "inserted on every path")
		}
	}
}

// ---- who releases, which key, and ownership
func c29Release(c *Ctx, fIdx, fRel, fRI, fPend, fLocal, fRemote, fHHhi *typesVar) {
	funcs := c.moduleFuncs()
	const (
		mainDel = "(*nebula.HostMap).unlockedDeleteHostInfo"
		pendDel = "(*nebula.HandshakeManager).unlockedDeleteHostInfo"
	)
	// a private helper (x_fix4_helpers.go: unexported, same package, never a function value, every call site inside the
	// tabled functions of that row or inside such a helper again) is a part of the tabled function that calls it
	cg := fix4BuildCallGraph(funcs)
	withHelpers := func(tab map[string]map[string]string) map[string]map[string]string {
		for _, row := range tab {
			var roots []*ssa.Function
			for _, f := range funcs {
				if _, ok := row[fnName(f)]; ok && f.Parent() == nil {
					roots = append(roots, f)
				}
			}
			for f := range fix4Family(c, funcs, cg, roots...) {
				if _, ok := row[fnName(f)]; !ok {
					row[fnName(f)] = "private helper called only from the tabled writers of this kind"
				}
			}
		}
		return tab
	}
	c.g8WritersByKind("C29.release", funcs, "HostMap", fIdx, withHelpers(map[string]map[string]string{
		"map-update": {"(*nebula.HostMap).unlockedAddHostInfo": "registers a tunnel under its own index (callers tabled in C29.complete)"},
		"map-delete": {mainDel: "removal of the owning tunnel"},
		"store":      {mainDel: "replaces the drained map", "nebula.newHostMap": "constructor"},
	}))
	c.g8WritersByKind("C29.release", funcs, "HandshakeManager", fPend, withHelpers(map[string]map[string]string{
		"map-update": {"(*nebula.HandshakeManager).allocateIndex": "reserves a fresh index"},
		"map-delete": {pendDel: "removal of the owning pending tunnel"},
		"store":      {pendDel: "replaces the drained map", "nebula.NewHandshakeManager": "constructor"},
	}))
	c.g8WritersByKind("C29.release", funcs, "HostMap", fRel, withHelpers(map[string]map[string]string{
		"map-update": {"nebula.AddRelay": "reserves a fresh relay index"},
		"map-delete": {mainDel: "removal of the tunnel the relay stands on"},
		"store":      {"nebula.newHostMap": "constructor"},
	}))
	c.g8WritersByKind("C29.release", funcs, "HostInfo", fLocal, map[string]map[string]string{
		"store": {
			"(*nebula.HandshakeManager).allocateIndex":  "the index just reserved in the pending table",
			"(*nebula.HandshakeManager).beginHandshake": "responder: the index its machine drew from generateIndex (result.LocalIndex), checked at CheckAndComplete",
		},
	})
	c.g8WritersByKind("C29.remote-owner", funcs, "HostMap", fRI, withHelpers(map[string]map[string]string{
		"map-update": {"(*nebula.HostMap).unlockedAddHostInfo": "registers the peer's index for the added tunnel"},
		"map-delete": {mainDel: "owner-checked removal"},
		"store":      {mainDel: "replaces the drained map", "nebula.newHostMap": "constructor"},
	}))
	// the responder's index is the machine's result.LocalIndex
	if fn := c.Func(Ref{"", "HandshakeManager", "beginHandshake"}); fn != nil {
		fRL := c.Field("handshake", "Result", "LocalIndex")
		n, ok := 0, true
		eachInstr(fn, func(in ssa.Instruction) {
			if st, isS := in.(*ssa.Store); isS {
				if fa, isF := st.Addr.(*ssa.FieldAddr); isF && fieldOfAddr(fa) == fLocal {
					n++
					ok = ok && fRL != nil && g8LoadedField(st.Val) == fRL
				}
			}
		})
		c.Check(ok && n > 0, "C29.release", "beginHandshake:localIndexId=result.LocalIndex", c.P.Pos(fn.Pos()), "the responder tunnel's index is the one its machine allocated", "the responder tunnel's localIndexId is not the machine's allocated LocalIndex")
	}
	// unlockedAddHostInfo registers the tunnel under its own indexes
	if fn := c.Func(Ref{"", "HostMap", "unlockedAddHostInfo"}); fn != nil {
		hi := fn.Params[1]
		for _, m := range []struct {
			f, key *typesVar
			rule   string
		}{{fIdx, fLocal, "C29.release"}, {fRI, fRemote, "C29.remote-owner"}} {
			ins := g8Inserts(fn, m.f)
			ok := len(ins) > 0
			for _, mu := range ins {
				ok = ok && g8FieldOf(m.key, g8Is(hi))(mu.Key) && g8Same(mu.Value, hi)
			}
			c.Check(ok, m.rule, "unlockedAddHostInfo:"+m.f.Name()+"[hostinfo."+m.key.Name()+"]=hostinfo", c.P.Pos(fn.Pos()), "keyed by the tunnel's own index", "the tunnel is not registered in "+m.f.Name()+" under its own "+m.key.Name())
		}
	}
	type delSpec struct {
		fnRef  Ref
		f      *typesVar
		rule   string
		pend   bool // entries are *HandshakeHostInfo: ownership is entry.hostinfo == hostinfo
		viaRel bool // keys come from hostinfo.relayState.CopyRelayForIdxs()
		keyFld *typesVar
	}
	for _, d := range []delSpec{
		{Ref{"", "HostMap", "unlockedDeleteHostInfo"}, fIdx, "C29.release", false, false, fLocal},
		{Ref{"", "HandshakeManager", "unlockedDeleteHostInfo"}, fPend, "C29.release", true, false, fLocal},
		{Ref{"", "HostMap", "unlockedDeleteHostInfo"}, fRel, "C29.release", false, true, nil},
		{Ref{"", "HostMap", "unlockedDeleteHostInfo"}, fRI, "C29.remote-owner", false, false, fRemote},
	} {
		root := c.Func(d.fnRef)
		if root == nil {
			continue
		}
		fRS := c.Field("", "HostInfo", "relayState")
		// the deletes are looked for in the delete function and in its private helpers; in a helper the removed tunnel is the
		// parameter that receives it at every call site
		fam := fix4Family(c, funcs, cg, root)
		bind := fix4BindParam(fam, cg, root, root.Params[1])
		type unit struct {
			fn *ssa.Function
			hi ssa.Value
		}
		var units []unit
		nDels := 0
		for _, g := range fix4FamilyList(funcs, fix4ReachFamily(fam, root)) {
			touches := len(g8Deletes(g, d.f)) > 0
			eachInstr(g, func(in ssa.Instruction) {
				if st, ok := in.(*ssa.Store); ok {
					if fa, ok := st.Addr.(*ssa.FieldAddr); ok && fieldOfAddr(fa) == d.f {
						touches = true
					}
				}
			})
			if !touches && g != root {
				continue
			}
			nDels += len(g8Deletes(g, d.f))
			if bind[g] == nil {
				c.Unknown(d.rule, fnName(g)+":delete("+d.f.Name()+")", "the private helper is not handed the removed tunnel as an argument at every call: key and ownership of its deletes are not followed")
				continue
			}
			units = append(units, unit{g, bind[g]})
		}
		if nDels == 0 {
			c.Unknown(d.rule, fnName(root)+":delete("+d.f.Name()+")", "no delete from the map found in its delete function")
			continue
		}
		for _, u := range units {
			fn, hi := u.fn, u.hi
			dels := g8Deletes(fn, d.f)
			base := fnName(fn) + ":delete(" + d.f.Name() + ")"
			for i, del := range dels {
				cons := fmt.Sprintf("%s#%d", base, i)
				key := del.Call.Args[1]
				// which key
				okKey := false
				if d.viaRel {
					okKey = derivesFrom(key, sliceLocal, func(x ssa.Value) bool {
						call, ok := x.(*ssa.Call)
						if !ok || !matchFunc(calleeObj(call), Ref{"", "RelayState", "CopyRelayForIdxs"}) {
							return false
						}
						fa, ok := callArgs(call)[0].(*ssa.FieldAddr)
						return ok && fieldOfAddr(fa) == fRS && g8Is(hi)(fa.X)
					})
				} else {
					okKey = g8FieldOf(d.keyFld, g8Is(hi))(key)
				}
				c.Check(okKey, d.rule, cons+":key", c.instrPos(del), "the removed tunnel's own index", "the key deleted from "+d.f.Name()+" ("+exprString(key)+") is not the index of the tunnel being removed")
				// ownership
				entry := g8Entry(d.f, g8Is(key))
				lhs := entry
				if d.pend {
					lhs = g8FieldOf(fHHhi, func(v ssa.Value) bool {
						return derivesFrom(v, sliceLocal, func(x ssa.Value) bool { return entry(x) })
					})
				} else {
					lhs = func(v ssa.Value) bool { return derivesFrom(v, sliceLocal, func(x ssa.Value) bool { return entry(x) }) }
				}
				g := c.g8Lift("entry is the tunnel being removed", func(r g8Roles) Guard {
					return gCmp("entry is the tunnel being removed", lhs, r["hi"], mustEqual)
				}, g8Roles{"hi": g8Is(hi)})
				rule := d.rule
				if rule == "C29.release" {
					rule = "C29.release-owner"
				}
				by, n, path := c.g8Bypass(fn, nil, Sink{Instr: del}, g)
				if by {
					c.Bad(rule, cons+":owner-checked", c.instrPos(del), fmt.Sprintf("delete(%s, %s) runs without testing that the entry is the tunnel being removed (%d such test(s) in the function): when this tunnel no longer owns the index (already removed once, or it lives in the other table) and the index was handed out again, the new owner's entry is released", d.f.Name(), exprString(key), n), path...)
				} else {
					c.OK(rule, cons+":owner-checked", fmt.Sprintf("%d test(s)", n))
				}
			}
			// a drained map is replaced only when empty
			eachInstr(fn, func(in ssa.Instruction) {
				st, ok := in.(*ssa.Store)
				if !ok {
					return
				}
				fa, ok := st.Addr.(*ssa.FieldAddr)
				if !ok || fieldOfAddr(fa) != d.f {
					return
				}
				empty := gCmp("len(map) == 0", isLenOf(func(v ssa.Value) bool { return loadsField(v, d.f) }), isIntConst(0), func(op token.Token) (bool, bool) {
					switch op {
					case token.EQL:
						return true, true
					case token.NEQ, token.GTR:
						return true, false
					}
					return false, false
				})
				c.g8Require(d.rule, fn, []Sink{{Instr: st, Desc: "map replacement"}}, "replace("+d.f.Name()+")", empty)
			})
		}
	}
}
