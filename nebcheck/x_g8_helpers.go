package main

import (
	"fmt"
	"go/token"
	"go/types"
	"sort"
	"strings"

	"golang.org/x/tools/go/ssa"
)

// Helpers added for C29 / C31 / C32 (all identifiers carry the g8 prefix).

// ---------------------------------------------------------------------------------------
// value identity

// g8Same: a and b denote the same value: the same SSA value, loads of the same local cell, or
// loads of the same field of bases that are themselves g8Same (hostinfo.localIndexId read twice).
// Field stability is the engine's "stable predicate" assumption (the field is not reassigned
// between the two reads); callers that need it checked do so separately.
func g8Same(a, b ssa.Value) bool { return g8SameD(a, b, 0) }

func g8SameD(a, b ssa.Value, d int) bool {
	a, b = g8Resolve(a), g8Resolve(b)
	if a == nil || b == nil {
		return false
	}
	if a == b || sameVar(a, b) {
		return true
	}
	if d > 6 {
		return false
	}
	if fa, fb := g8LoadedField(a), g8LoadedField(b); fa != nil && fa == fb {
		return g8SameD(g8FieldBase(a), g8FieldBase(b), d+1)
	}
	return false
}

// g8Resolve strips conversions and sees through a local cell that is assigned exactly once (a
// parameter or local that go/ssa spilled because a closure captures it): the load denotes the
// stored value. Cells a closure assigns to are left alone.
func g8Resolve(v ssa.Value) ssa.Value {
	for d := 0; d < 4; d++ {
		v = stripValue(v)
		u, ok := v.(*ssa.UnOp)
		if !ok || u.Op != token.MUL {
			return v
		}
		al, ok := u.X.(*ssa.Alloc)
		if !ok {
			return v
		}
		var stored []ssa.Value
		clean := true
		if refs := al.Referrers(); refs != nil {
			for _, r := range *refs {
				switch x := r.(type) {
				case *ssa.Store:
					if x.Addr == ssa.Value(al) {
						stored = append(stored, x.Val)
					} else {
						clean = false // the cell's address is stored somewhere
					}
				case *ssa.UnOp, *ssa.DebugRef:
				case *ssa.MakeClosure:
					fnc, _ := x.Fn.(*ssa.Function)
					for i, bnd := range x.Bindings {
						if bnd != ssa.Value(al) || fnc == nil || i >= len(fnc.FreeVars) {
							continue
						}
						if fr := fnc.FreeVars[i].Referrers(); fr != nil {
							for _, q := range *fr {
								if st, isS := q.(*ssa.Store); isS && st.Addr == ssa.Value(fnc.FreeVars[i]) {
									clean = false
								}
								if _, isC := q.(*ssa.MakeClosure); isC {
									clean = false // captured again by a nested closure: give up
								}
							}
						}
					}
				default:
					clean = false
				}
			}
		}
		if !clean || len(stored) != 1 {
			return v
		}
		v = stored[0]
	}
	return v
}

// g8LoadedField: v is `*(&x.f)` or `x.f`: the field object, else nil.
func g8LoadedField(v ssa.Value) *types.Var {
	switch x := g8Resolve(v).(type) {
	case *ssa.UnOp:
		if x.Op == token.MUL {
			if fa, ok := x.X.(*ssa.FieldAddr); ok {
				return fieldOfAddr(fa)
			}
		}
	case *ssa.Field:
		return fieldOfVal(x)
	}
	return nil
}

// g8FieldBase: the x of a field load `x.f` (nil when v is not a field load).
func g8FieldBase(v ssa.Value) ssa.Value {
	switch x := g8Resolve(v).(type) {
	case *ssa.UnOp:
		if x.Op == token.MUL {
			if fa, ok := x.X.(*ssa.FieldAddr); ok {
				return fa.X
			}
		}
	case *ssa.Field:
		return x.X
	}
	return nil
}

// g8FieldOf: v is a load of field f whose base satisfies base.
func g8FieldOf(f *types.Var, base func(ssa.Value) bool) func(ssa.Value) bool {
	return func(v ssa.Value) bool {
		return f != nil && g8LoadedField(v) == f && base(g8FieldBase(v))
	}
}

func g8Is(x ssa.Value) func(ssa.Value) bool {
	return func(v ssa.Value) bool { return x != nil && g8Same(v, x) }
}

// g8ResultOf: v is result #idx of a call to one of refs.
func g8ResultOf(idx int, refs ...Ref) func(ssa.Value) bool {
	return func(v ssa.Value) bool {
		call, i := callOf(g8Resolve(v))
		if call == nil || !matchAny(calleeObj(call), refs) {
			return false
		}
		return i == idx || (i == -1 && idx == 0)
	}
}

// ---------------------------------------------------------------------------------------
// map accesses through a struct field

func g8Inserts(fn *ssa.Function, f *types.Var) []*ssa.MapUpdate {
	var out []*ssa.MapUpdate
	eachInstr(fn, func(in ssa.Instruction) {
		if mu, ok := in.(*ssa.MapUpdate); ok && f != nil && loadsField(mu.Map, f) {
			out = append(out, mu)
		}
	})
	return out
}

// g8Deletes: delete(x.f, k) calls.
func g8Deletes(fn *ssa.Function, f *types.Var) []*ssa.Call {
	var out []*ssa.Call
	eachInstr(fn, func(in ssa.Instruction) {
		if call, ok := in.(*ssa.Call); ok && f != nil && builtinName(call) == "delete" && loadsField(call.Call.Args[0], f) {
			out = append(out, call)
		}
	})
	return out
}

func g8Lookups(fn *ssa.Function, f *types.Var, key func(ssa.Value) bool) []*ssa.Lookup {
	var out []*ssa.Lookup
	eachInstr(fn, func(in ssa.Instruction) {
		if lk, ok := in.(*ssa.Lookup); ok && f != nil && loadsField(lk.X, f) && (key == nil || key(lk.Index)) {
			out = append(out, lk)
		}
	})
	return out
}

// g8CommaOK: v is the `ok` of `_, ok := x.f[k]` with k satisfying key.
func g8CommaOK(f *types.Var, key func(ssa.Value) bool) func(ssa.Value) bool {
	return func(v ssa.Value) bool {
		ex, ok := stripValue(v).(*ssa.Extract)
		if !ok || ex.Index != 1 {
			return false
		}
		lk, ok := ex.Tuple.(*ssa.Lookup)
		return ok && lk.CommaOk && f != nil && loadsField(lk.X, f) && key(lk.Index)
	}
}

// g8Entry: v is the element read by x.f[k] (plain lookup, or element 0 of the comma-ok form).
func g8Entry(f *types.Var, key func(ssa.Value) bool) func(ssa.Value) bool {
	return func(v ssa.Value) bool {
		v = stripValue(v)
		if ex, ok := v.(*ssa.Extract); ok && ex.Index == 0 {
			v = ex.Tuple
		}
		lk, ok := v.(*ssa.Lookup)
		return ok && f != nil && loadsField(lk.X, f) && key(lk.Index)
	}
}

func g8Returns(fn *ssa.Function) []*ssa.Return {
	var out []*ssa.Return
	for _, b := range fn.Blocks {
		if len(b.Instrs) == 0 || b.Comment == "recover" {
			continue
		}
		if r, ok := b.Instrs[len(b.Instrs)-1].(*ssa.Return); ok {
			out = append(out, r)
		}
	}
	sort.Slice(out, func(i, j int) bool { return out[i].Pos() < out[j].Pos() })
	return out
}

// ---------------------------------------------------------------------------------------
// K1 with materialised booleans: reachability over (predecessor, block) states, so that an `if`
// on a phi of booleans is decided per incoming edge (`free := !a && !b; if free {..}` tests !a on
// the edge from the first operand and !b on the edge from the second).

type g8State struct{ pred, b *ssa.BasicBlock }

// g8EffCond resolves the condition an If tests when its block was entered from pred.
func g8EffCond(v ssa.Value, pred, b *ssa.BasicBlock) (ssa.Value, bool) {
	neg := false
	for d := 0; d < 4; d++ {
		if u, ok := v.(*ssa.UnOp); ok && u.Op == token.NOT {
			neg = !neg
			v = u.X
			continue
		}
		if phi, ok := v.(*ssa.Phi); ok && phi.Block() == b && pred != nil {
			found := false
			for i, p := range b.Preds {
				if p == pred && i < len(phi.Edges) {
					v, found = phi.Edges[i], true
					break
				}
			}
			if found {
				// the edge value was computed in pred (or above): do not resolve further phis
				b, pred = nil, nil
				continue
			}
		}
		break
	}
	return v, neg
}

// g8Feasible lists the successor indices of b that can be taken when entered from pred without
// crossing a pass edge of g (nil g: only constant folding). matched reports an If matching g.
func g8Feasible(pred, b *ssa.BasicBlock, g *Guard) (succs []int, matched bool) {
	if len(b.Instrs) == 0 {
		return nil, false
	}
	ifi, ok := b.Instrs[len(b.Instrs)-1].(*ssa.If)
	if !ok {
		for i := range b.Succs {
			succs = append(succs, i)
		}
		return succs, false
	}
	eff, neg := g8EffCond(ifi.Cond, pred, b)
	cd := normCond(eff)
	cd.Neg = cd.Neg != neg
	if cd.Kind == CondBool {
		if bv, isC := boolConst(cd.Base); isC {
			if bv != cd.Neg {
				return []int{0}, false
			}
			return []int{1}, false
		}
	}
	if g != nil {
		if is, passTrue := g.Match(cd, ifi); is {
			if passTrue {
				return []int{1}, true
			}
			return []int{0}, true
		}
	}
	return []int{0, 1}, false
}

// g8Bypass: is the sink reachable from the entry (or from `from`, a block entered from its
// dominator) without crossing a pass edge of g? Returns the witness path and the number of tests
// matching g met on the explored part of the CFG.
func (c *Ctx) g8Bypass(fn *ssa.Function, from *ssa.BasicBlock, s Sink, g Guard) (bool, int, []string) {
	start := g8State{nil, fn.Blocks[0]}
	if from != nil {
		start = g8State{nil, from}
	}
	prev := map[g8State]g8State{}
	seen := map[g8State]bool{start: true}
	work := []g8State{start}
	tests := map[*ssa.BasicBlock]bool{}
	sb := s.Instr.Block()
	for len(work) > 0 {
		st := work[0]
		work = work[1:]
		if st.b == sb && (s.ViaPred == nil || st.pred == s.ViaPred) {
			var rev []string
			for x := st; ; x = prev[x] {
				rev = append(rev, fmt.Sprintf("b%d(%s)", x.b.Index, c.blockLine(x.b)))
				if x == start {
					break
				}
			}
			var path []string
			for i := len(rev) - 1; i >= 0; i-- {
				path = append(path, rev[i])
			}
			return true, g8CountTests(fn, g), path
		}
		succs, m := g8Feasible(st.pred, st.b, &g)
		if m {
			tests[st.b] = true
		}
		for _, i := range succs {
			n := g8State{st.b, st.b.Succs[i]}
			if !seen[n] {
				seen[n] = true
				prev[n] = st
				work = append(work, n)
			}
		}
	}
	return false, g8CountTests(fn, g), nil
}

// g8CountTests counts the Ifs of fn matching g (any incoming edge).
func g8CountTests(fn *ssa.Function, g Guard) int {
	n := 0
	for _, b := range fn.Blocks {
		hit := false
		preds := append([]*ssa.BasicBlock{nil}, b.Preds...)
		for _, p := range preds {
			if _, m := g8Feasible(p, b, &g); m {
				hit = true
			}
		}
		if hit {
			n++
		}
	}
	return n
}

// g8Require: one obligation per guard: every path entry->each sink passes the guard. A sink that
// is reachable while the function contains no test of the guard at all is reported as violated
// (the guard is gone), like requireGuards.
func (c *Ctx) g8Require(rule string, fn *ssa.Function, sinks []Sink, sinkName string, guards ...Guard) {
	if fn == nil {
		return
	}
	if len(sinks) == 0 {
		c.Unknown(rule, fnName(fn)+":"+sinkName, "no sink instance found (the guarded construct is gone or was moved): cannot decide")
		return
	}
	for _, g := range guards {
		ok, tests := true, 0
		for i, s := range sinks {
			by, n, path := c.g8Bypass(fn, nil, s, g)
			tests = n
			if by {
				ok = false
				c.Bad(rule, fmt.Sprintf("%s:%s#%d<-%s", fnName(fn), sinkName, i, g.Name), c.instrPos(s.Instr),
					fmt.Sprintf("%s is reachable without passing the test %q (%d matching test(s) in the function)", sinkName, g.Name, n), path...)
			}
		}
		if ok {
			if tests == 0 {
				c.Unknown(rule, fmt.Sprintf("%s:%s<-%s", fnName(fn), sinkName, g.Name), "test not found and sink unreachable: unrecognised shape")
				continue
			}
			c.OK(rule, fmt.Sprintf("%s:%s<-%s", fnName(fn), sinkName, g.Name), fmt.Sprintf("%d sink(s), every path passes one of %d test(s)", len(sinks), tests))
		}
	}
}

// ---------------------------------------------------------------------------------------
// guards through one level of helper: `if hm.indexInUse(i) { continue }` where the helper performs
// the tabled test on its parameter.

// g8Roles binds role names to value predicates of the current function. Roles that are tied to a
// particular value (a parameter, a local) are re-bound to the helper's parameters by position;
// predicates that are purely structural (field objects) can be closed over by the factory.
type g8Roles map[string]func(ssa.Value) bool

type g8Mk func(r g8Roles) Guard

// g8Lift returns the guard mk(roles), additionally accepting a call to a module function whose
// boolean (or error) result implies the guard: every `return false` (resp. `true`, resp. nil
// error) of the helper passes mk(roles re-bound to the helper's parameters).
func (c *Ctx) g8Lift(name string, mk g8Mk, roles g8Roles) Guard {
	direct := mk(roles)
	return Guard{Name: name, Match: func(cd Cond, ifi *ssa.If) (bool, bool) {
		if is, p := direct.Match(cd, ifi); is {
			return is, p
		}
		if cd.Kind != CondBool && cd.Kind != CondNotNil {
			return false, false
		}
		call, idx := callOf(cd.Base)
		if call == nil {
			return false, false
		}
		h := call.Call.StaticCallee()
		if h == nil || h.Blocks == nil || !strings.HasPrefix(pkgPathOf(h), nebulaMod) {
			return false, false
		}
		if idx < 0 {
			idx = 0
		}
		// re-bind roles: parameter j of h plays role r when argument j does in the caller
		args := call.Call.Args
		sub := g8Roles{}
		bound := false
		for r, pred := range roles {
			set := map[int]bool{}
			for j, a := range args {
				if j < len(h.Params) && pred(a) {
					set[j] = true
					bound = true
				}
			}
			sub[r] = g8IsParamIn(h, set)
		}
		if len(roles) > 0 && !bound {
			return false, false
		}
		inner := mk(sub)
		// holds: every return of h yielding `want` either passed a test of the inner guard or
		// returns the tested condition itself (`return a || b`).
		holds := func(want bool) bool {
			rv := g8BoolReturns(h, idx, want)
			if len(rv) == 0 {
				return false
			}
			byValue := 0
			for _, r := range rv {
				if !r.isConst {
					if is, passTrue := inner.Match(normCond(r.val), nil); is && passTrue == want {
						byValue++
						continue
					}
				}
				if by, _, _ := c.g8Bypass(h, nil, r.sink, inner); by {
					return false
				}
			}
			return byValue > 0 || g8CountTests(h, inner) > 0
		}
		holdsErrNil := func(sinks []Sink) bool {
			if len(sinks) == 0 {
				return false
			}
			for _, s := range sinks {
				if by, _, _ := c.g8Bypass(h, nil, s, inner); by {
					return false
				}
			}
			return g8CountTests(h, inner) > 0
		}
		if cd.Kind == CondNotNil {
			if !isErrorType(cd.Base.Type()) || idx != errResultIndex(h) {
				return false, false
			}
			if holdsErrNil(successReturns(h, idx)) {
				return true, cd.Neg // guard holds when err == nil
			}
			return false, false
		}
		if idx >= h.Signature.Results().Len() {
			return false, false
		}
		if b, ok := h.Signature.Results().At(idx).Type().Underlying().(*types.Basic); !ok || b.Kind() != types.Bool {
			return false, false
		}
		c.Funcs[h.String()] = true
		if holds(false) {
			return true, cd.Neg // base must be false
		}
		if holds(true) {
			return true, !cd.Neg
		}
		return false, false
	}}
}

func g8IsParamIn(h *ssa.Function, set map[int]bool) func(ssa.Value) bool {
	return func(v ssa.Value) bool {
		v = stripValue(v)
		if u, ok := v.(*ssa.UnOp); ok && u.Op == token.MUL {
			// a parameter spilled to a local cell (address taken / captured)
			if al, ok := u.X.(*ssa.Alloc); ok {
				vals := storesInto(al)
				if len(vals) == 1 {
					v = stripValue(vals[0])
				}
			}
		}
		p, ok := v.(*ssa.Parameter)
		if !ok || p.Parent() != h {
			return false
		}
		for j, q := range h.Params {
			if q == p {
				return set[j]
			}
		}
		return false
	}
}

// ---------------------------------------------------------------------------------------
// K3 helpers on top of lockFlow

// g8HeldAt: the mutex class is must-held in at least mode `want` just before `at`.
func (c *Ctx) g8HeldAt(rule, cons string, lf *LockFlow, at ssa.Instruction, key lockKey, want int, why string) bool {
	m, live := lf.mustAt(at, key)
	if !live {
		c.OK(rule, cons, "unreachable")
		return true
	}
	return c.Check(m >= want, rule, cons, c.instrPos(at), string(key)+" "+modeName(m), fmt.Sprintf("%s: %s is %s here (needs %s)", why, key, modeName(m), modeName(want)))
}

// g8ReleasedBetween: some path from..to executes a (non-deferred) Unlock/RUnlock of key.
func g8ReleasedBetween(from, to ssa.Instruction, key lockKey) bool {
	_, hit := pathHits(from, to, nil, func(in ssa.Instruction) bool {
		if _, isDefer := in.(*ssa.Defer); isDefer {
			return false
		}
		ci, ok := in.(ssa.CallInstruction)
		if !ok {
			return false
		}
		k, op, ok := lockOpOf(ci)
		return ok && k == key && (op == "Unlock" || op == "RUnlock")
	})
	return hit
}

// g8Atomic: `check` and `act` run in one critical section of key (held in mode want at both, never
// released on a path between them).
func (c *Ctx) g8Atomic(rule, cons string, lf *LockFlow, check, act ssa.Instruction, key lockKey, want int, why string) {
	ok1 := c.g8HeldAt(rule, cons+":held-at-check", lf, check, key, want, why)
	ok2 := c.g8HeldAt(rule, cons+":held-at-act", lf, act, key, want, why)
	if ok1 && ok2 {
		c.Check(!g8ReleasedBetween(check, act, key), rule, cons+":not-released-between", c.instrPos(act), "one critical section", why+": "+string(key)+" is released between the test and the action, so the test no longer protects the action")
	}
}

// ---------------------------------------------------------------------------------------
// K2 by kind

// g8WritersByKind checks the write sites of field f against allow[kind][function] (kind as in
// WriteSite.Kind; "addr-escape" ignored; *_test.go and *_tester.go ignored).
func (c *Ctx) g8WritersByKind(rule string, funcs []*ssa.Function, owner string, f *types.Var, allow map[string]map[string]string) {
	if f == nil {
		return
	}
	ws := fieldWriters(funcs, f)
	bad, n := 0, 0
	seen := map[string]bool{}
	for _, w := range ws {
		if c.isTestHelperFile(w.Instr) || w.Kind == "addr-escape" {
			continue
		}
		n++
		fnm := fnName(w.Fn)
		if _, ok := allow[w.Kind][fnm]; ok {
			continue
		}
		if _, ok := allow[w.Kind][fnName(topFunc(w.Fn))]; ok && w.Fn != topFunc(w.Fn) {
			continue
		}
		// a block of a tabled writer extracted into an unexported helper that only tabled writers call
		if kind := allow[w.Kind]; len(kind) > 0 && fix5PartOfTabled(funcs, w.Fn, func(n string) bool { _, ok := kind[n]; return ok }, 1) {
			c.Funcs[topFunc(w.Fn).String()] = true
			continue
		}
		k := owner + "." + f.Name() + ":" + w.Kind + "<-" + fnm
		if seen[k] {
			continue
		}
		seen[k] = true
		bad++
		c.Bad(rule, k, c.instrPos(w.Instr), fmt.Sprintf("%s of %s.%s outside the functions tabled for that kind of write", w.Kind, owner, f.Name()))
	}
	if bad == 0 {
		c.OK(rule, owner+"."+f.Name(), fmt.Sprintf("%d write site(s), all tabled by kind", n))
	}
}

// g8Callers checks every reference to the functions refs against allow[fnName(caller)].
func (c *Ctx) g8Callers(rule string, funcs []*ssa.Function, what string, allow map[string]string, refs ...Ref) []CallSite {
	var kept []CallSite
	bad := 0
	for _, s := range callersOf(funcs, refs...) {
		if c.isTestHelperFile(s.Instr) {
			continue
		}
		n := fnName(s.Fn)
		if _, ok := allow[n]; !ok {
			if _, ok2 := allow[fnName(topFunc(s.Fn))]; !ok2 {
				// a block of a tabled caller extracted into an unexported helper that only tabled callers call
				if s.Kind == "call" && len(allow) > 0 && fix5PartOfTabled(funcs, s.Fn, func(n string) bool { _, ok := allow[n]; return ok }, 1) {
					c.Funcs[topFunc(s.Fn).String()] = true
					kept = append(kept, s)
					continue
				}
				bad++
				c.Bad(rule, what+"<-"+n, c.instrPos(s.Instr), fmt.Sprintf("%s of %s from a function outside the table", s.Kind, what))
				continue
			}
		}
		kept = append(kept, s)
	}
	if bad == 0 {
		c.OK(rule, what, fmt.Sprintf("%d reference(s), all tabled", len(kept)))
	}
	return kept
}

// g8ClosureArg resolves a function-typed argument to the function it denotes (closure, named
// function or bound method wrapper), through conversions to a named func type.
func g8ClosureArg(v ssa.Value) (*ssa.Function, []ssa.Value) {
	switch x := stripValue(v).(type) {
	case *ssa.MakeClosure:
		if f, ok := x.Fn.(*ssa.Function); ok {
			return f, x.Bindings
		}
	case *ssa.Function:
		return x, nil
	}
	return nil, nil
}

// g8FuncTarget: the declared function/method a function value denotes (bound method wrappers
// resolved to the wrapped method).
func g8FuncTarget(v ssa.Value) *types.Func {
	f, _ := g8ClosureArg(v)
	if f == nil {
		return nil
	}
	if o := fnObj(f); o != nil {
		return o
	}
	return boundTarget(f)
}

// g8Dominates: instruction a is executed before b on every path to b.
func g8Dominates(a, b ssa.Instruction) bool {
	if a.Block() == b.Block() {
		return instrIndex(a) < instrIndex(b)
	}
	return a.Block().Dominates(b.Block())
}

type g8RetVal struct {
	sink    Sink
	val     ssa.Value
	isConst bool
}

// g8BoolReturns lists the returns of fn whose result #idx may equal want, split per phi edge,
// with the value returned on that edge.
func g8BoolReturns(fn *ssa.Function, idx int, want bool) []g8RetVal {
	var out []g8RetVal
	for _, ret := range g8Returns(fn) {
		if idx >= len(ret.Results) {
			continue
		}
		v := retResult(ret, idx)
		add := func(s Sink, e ssa.Value) {
			if bv, ok := boolConst(e); ok {
				if bv == want {
					out = append(out, g8RetVal{s, e, true})
				}
				return
			}
			out = append(out, g8RetVal{s, e, false})
		}
		if phi, ok := v.(*ssa.Phi); ok && phi.Block() == ret.Block() {
			for k, e := range phi.Edges {
				add(Sink{Instr: ret, Desc: fmt.Sprintf("return maybe-%v (phi)", want), ViaPred: ret.Block().Preds[k]}, e)
			}
			continue
		}
		add(Sink{Instr: ret, Desc: fmt.Sprintf("return maybe-%v", want)}, v)
	}
	return out
}

// g8SuccessReturns: successReturns without the synthetic recover block (which re-reads the named
// results after a recovered panic and is not a path of the function body).
func g8SuccessReturns(fn *ssa.Function, idx int) []Sink {
	var out []Sink
	for _, s := range successReturns(fn, idx) {
		if s.Instr.Block().Comment != "recover" {
			out = append(out, s)
		}
	}
	return out
}

// g8RelatedTest: fn contains an If that g does not recognise, whose condition is computed from
// values matching every ingredient but is not a plain comparison of two of them (e.g.
// `retries-counter <= 0`): the test may well be the tabled one in a shape the rule does not read.
// A plain comparison of the ingredients with another operator is NOT related-unrecognised: that is
// the tabled test with the wrong strictness / polarity.
func g8RelatedTest(fn *ssa.Function, g Guard, ingredients ...func(ssa.Value) bool) bool {
	if len(ingredients) == 0 {
		return false
	}
	for _, b := range fn.Blocks {
		if len(b.Instrs) == 0 {
			continue
		}
		ifi, ok := b.Instrs[len(b.Instrs)-1].(*ssa.If)
		if !ok {
			continue
		}
		cd := normCond(ifi.Cond)
		if is, _ := g.Match(cd, ifi); is {
			continue
		}
		all := true
		for _, ing := range ingredients {
			if !derivesFrom(ifi.Cond, sliceLocal, ing) {
				all = false
				break
			}
		}
		if !all {
			continue
		}
		if cd.Kind == CondCmp {
			bo := cd.Base.(*ssa.BinOp)
			direct := func(v ssa.Value) bool {
				for _, ing := range ingredients {
					if ing(v) || ing(stripValue(v)) {
						return true
					}
				}
				_, isK := stripValue(v).(*ssa.Const)
				return isK
			}
			if direct(bo.X) && direct(bo.Y) {
				continue
			}
		}
		return true
	}
	return false
}

// g8RequireRel is g8Require for one guard, answering "cannot decide" instead of "violated" when the
// guard is not found but a related test of unrecognised shape exists.
func (c *Ctx) g8RequireRel(rule string, fn *ssa.Function, sinks []Sink, sinkName string, g Guard, ingredients ...func(ssa.Value) bool) {
	if fn == nil {
		return
	}
	if len(sinks) > 0 && g8CountTests(fn, g) == 0 && g8RelatedTest(fn, g, ingredients...) {
		c.Unknown(rule, fmt.Sprintf("%s:%s<-%s", fnName(fn), sinkName, g.Name), "the tabled test was not found, but the function tests the same operands in a shape this rule does not read: cannot decide")
		return
	}
	c.g8Require(rule, fn, sinks, sinkName, g)
}
