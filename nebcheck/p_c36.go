package main

import (
	"fmt"
	"go/token"
	"go/types"
	"sort"
	"strings"

	"golang.org/x/tools/go/ssa"
)

func init() {
	register(&Property{
		ID: "C36", Title: "Unusable underlay addresses are never used",
		Patterns:    []string{"."},
		Technique:   "filter-at-every-entrance rule set: who-may-write tables closing the remote-list cache, provenance of the filter argument, CFG guard reachability inside the bulk setters / the three shouldAdd siblings / the allow-list composition / the collector / every learn-remote and punch site (guards recognised one call level down and along the caller chain), construction-based length bounds for the per-source cap, for-all guard for the static-host delete guard",
		LevelText:   "Structural necessary conditions on all paths: the per-owner caches of a RemoteList are written only by the tabled setters; every bulk setter call passes lh.unlockedShouldAddV4/V6 as filter and appends an element only if filter(subject, element) was true; the three shouldAdd siblings answer true only if the remote allow list allowed the address for the given overlay address(es) and the own-network table does not contain it; RemoteAllowList.Allow/AllowAll answer true only if the global list and the inside-range list (of every overlay address) allow; reported lists are reset and refilled from at most MaxRemotes (= 10) elements, prepends truncate to MaxRemotes; static entries are prepended only after lh.shouldAdd and under the node's own owner key, network-derived entries under the sender's; a learned remote (HostInfo.SetRemote from a packet source) is set only where the packet was not relayed and the allow list allowed the source for the tunnel's overlay addresses - in the function itself, in validatePeerCert, or in every caller up the chain - and packet sources inside the own overlay networks are refused before any handshake / roaming handler; unlockedCollect appends an address only if it is not in badRemotes and, for DNS results, shouldAdd accepted it (a nil shouldAdd exists only in tests: the one constructor call passes lh.shouldAdd); badRemotes is cleared only after a completed handshake; every punch target was allowed by the allow list and tested against the own overlay networks; DeleteVpnAddrs deletes nothing when any address is static.",
		LevelNote:   "Not decided: allow-list or own-network changes do not re-filter addresses already stored (history); bart / slices internals; relay addresses (overlay addresses, only capped); operator commands (Control.SetRemoteForTunnel, ssh create-tunnel / change-remote) set a remote unfiltered by design; that the existing tunnel re-pointed on a duplicate handshake has the same overlay addresses as the validated certificate. On the tree as received the punch rule reports handleHostPunchNotification (F6, reproduced with a test): its punch targets are only allow-list filtered, never tested against the own overlay networks.",
		Explanation: "K2 cache writer tables, K11 filter argument, K1 in setters / shouldAdd siblings / Allow+AllowAll / unlockedCollect / SetRemote sites with caller-chain summaries / readOutsidePackets / Punchy.Schedule sites, length-bound idioms for MaxRemotes, K1 for-all in DeleteVpnAddrs",
		Run:         runC36,
		Canaries: func(c *Ctx) []Canary {
			return []Canary{
				{Name: "reply-filter-always-true", File: "lighthouse.go", Old: "\tam.unlockedSetV4(fromVpnAddrs[0], certVpnAddr, n.Details.V4AddrPorts, lhh.lh.unlockedShouldAddV4)\n", New: "\tam.unlockedSetV4(fromVpnAddrs[0], certVpnAddr, n.Details.V4AddrPorts, func(netip.Addr, *V4AddrPort) bool { return true })\n", Rule: "C36.filter-arg"},
				{Name: "v6-setter-ignores-filter", File: "remote_list.go", Old: "to []*V6AddrPort, check checkFuncV6) {\n\tr.shouldRebuild = true\n\tc := r.unlockedGetOrMakeV6(ownerVpnIp)\n\n\t// Reset the slice\n\tc.reported = c.reported[:0]\n\n\t// We can't take their array but we can take their pointers\n\tfor _, v := range to[:minInt(len(to), MaxRemotes)] {\n\t\tif check(vpnIp, v) {", New: "to []*V6AddrPort, check checkFuncV6) {\n\tr.shouldRebuild = true\n\tc := r.unlockedGetOrMakeV6(ownerVpnIp)\n\n\t// Reset the slice\n\tc.reported = c.reported[:0]\n\n\t// We can't take their array but we can take their pointers\n\tfor _, v := range to[:minInt(len(to), MaxRemotes)] {\n\t\tif v != nil || check(vpnIp, v) {", Rule: "C36.set-filter"},
				{Name: "v4-setter-takes-whole-list", File: "remote_list.go", Old: "to []*V4AddrPort, check checkFuncV4) {\n\tr.shouldRebuild = true\n\tc := r.unlockedGetOrMakeV4(ownerVpnIp)\n\n\t// Reset the slice\n\tc.reported = c.reported[:0]\n\n\t// We can't take their array but we can take their pointers\n\tfor _, v := range to[:minInt(len(to), MaxRemotes)] {", New: "to []*V4AddrPort, check checkFuncV4) {\n\tr.shouldRebuild = true\n\tc := r.unlockedGetOrMakeV4(ownerVpnIp)\n\n\t// Reset the slice\n\tc.reported = c.reported[:0]\n\n\t// We can't take their array but we can take their pointers\n\tfor _, v := range to {", Rule: "C36.cap"},
				{Name: "relay-setter-accumulates", File: "remote_list.go", Old: "\t// Reset the slice\n\tc.relay = c.relay[:0]\n", New: "", Rule: "C36.cap"},
				{Name: "v6-should-add-forgets-own-networks", File: "lighthouse.go", Old: "\tif lh.myVpnNetworksTable.Contains(udpAddr.Addr()) {\n\t\treturn false\n\t}\n\n\treturn true\n}\n\nfunc (lh *LightHouse) IsLighthouseAddr", New: "\treturn true\n}\n\nfunc (lh *LightHouse) IsLighthouseAddr", Rule: "C36.should-add"},
				{Name: "allow-all-checks-first-address-only", File: "allow_list.go", Old: "\tfor _, vpnAddr := range vpnAddrs {\n\t\tif !al.getInsideAllowList(vpnAddr).Allow(udpAddr) {\n\t\t\treturn false\n\t\t}\n\t}\n", New: "\tfor _, vpnAddr := range vpnAddrs {\n\t\tif !al.getInsideAllowList(vpnAddr).Allow(udpAddr) {\n\t\t\treturn false\n\t\t}\n\t\tbreak\n\t}\n", Rule: "C36.allow-compose"},
				{Name: "roam-before-allow-list", File: "outside.go", Old: "\tif !via.IsRelayed && curRemote != via.UdpAddr {\n", New: "\tif !via.IsRelayed && curRemote != via.UdpAddr {\n\t\thostinfo.SetRemote(via.UdpAddr)\n", Rule: "C36.learned"},
				{Name: "initiator-checks-global-list-only", File: "handshake_manager.go", Old: "\t\tif !f.lightHouse.GetRemoteAllowList().AllowAll(hostinfo.vpnAddrs, via.UdpAddr.Addr()) {\n\t\t\tf.l.Debug(\"lighthouse.remote_allow_list denied incoming handshake\",\n\t\t\t\t\"vpnAddrs\", hostinfo.vpnAddrs, \"from\", via)", New: "\t\tif !f.lightHouse.GetRemoteAllowList().AllowUnknownVpnAddr(via.UdpAddr.Addr()) {\n\t\t\tf.l.Debug(\"lighthouse.remote_allow_list denied incoming handshake\",\n\t\t\t\t\"vpnAddrs\", hostinfo.vpnAddrs, \"from\", via)", Rule: "C36.learned"},
				{Name: "responder-skips-allow-list", File: "handshake_manager.go", Old: "\tif !via.IsRelayed {\n\t\tif !f.lightHouse.GetRemoteAllowList().AllowAll(vpnAddrs, via.UdpAddr.Addr()) {\n\t\t\tf.l.Debug(\"lighthouse.remote_allow_list denied incoming handshake\",\n\t\t\t\t\"vpnAddrs\", vpnAddrs, \"from\", via)\n\t\t\treturn nil, false, false\n\t\t}\n\t}\n", New: "", Rule: "C36.learned"},
				{Name: "own-network-source-accepted-for-handshakes", File: "outside.go", Old: "\tif !via.IsRelayed {\n\t\tif f.myVpnNetworksTable.Contains(via.UdpAddr.Addr()) {", New: "\tif !via.IsRelayed && h.Type != header.Handshake {\n\t\tif f.myVpnNetworksTable.Contains(via.UdpAddr.Addr()) {", Rule: "C36.own-net-source"},
				{Name: "collect-keeps-bad-learned-v6", File: "remote_list.go", Old: "\t\t\t\tu := protoV6AddrPortToNetAddrPort(c.v6.learned)\n\t\t\t\tif !r.unlockedIsBad(u) {\n\t\t\t\t\taddrs = append(addrs, u)\n\t\t\t\t}\n", New: "\t\t\t\tu := protoV6AddrPortToNetAddrPort(c.v6.learned)\n\t\t\t\taddrs = append(addrs, u)\n", Rule: "C36.collect"},
				{Name: "dns-results-unfiltered", File: "remote_list.go", Old: "\t\tif r.shouldAdd == nil || r.shouldAdd(r.vpnAddrs, addr.Addr()) {\n\t\t\tif !r.unlockedIsBad(addr) {\n\t\t\t\taddrs = append(addrs, addr)\n\t\t\t}\n\t\t}\n", New: "\t\tif !r.unlockedIsBad(addr) {\n\t\t\taddrs = append(addrs, addr)\n\t\t}\n", Rule: "C36.collect"},
				{Name: "bad-remotes-forgotten-on-retry", File: "handshake_manager.go", Old: "\thh.lastRemotes = remotes\n", New: "\thh.lastRemotes = remotes\n\thostinfo.remotes.ResetBlockedRemotes()\n", Rule: "C36.bad"},
				{Name: "static-guard-first-address-only", File: "lighthouse.go", Old: "\tfor _, addr := range allVpnAddrs {\n\t\tif _, ok := staticList[addr]; ok {\n\t\t\treturn\n\t\t}\n\t}\n", New: "\tif _, ok := staticList[allVpnAddrs[0]]; ok {\n\t\treturn\n\t}\n", Rule: "C36.static"},
				{Name: "static-entry-owned-by-peer", File: "lighthouse.go", Old: "\t\t\tam.unlockedPrependV4(lh.myVpnNetworks[0].Addr(), netAddrToProtoV4AddrPort(", New: "\t\t\tam.unlockedPrependV4(vpnAddr, netAddrToProtoV4AddrPort(", Rule: "C36.static"},
				{Name: "v6-punch-allow-list-bypassed-for-link-local", File: "lighthouse.go", Old: "\t\tb := protoV6AddrPortToNetAddrPort(a)\n\t\tif remoteAllowList.Allow(detailsVpnAddr, b.Addr())", New: "\t\tb := protoV6AddrPortToNetAddrPort(a)\n\t\tif (b.Addr().IsLinkLocalUnicast() || remoteAllowList.Allow(detailsVpnAddr, b.Addr()))", Rule: "C36.punch"},
				{Name: "learned-slot-written-by-query-reply", File: "lighthouse.go", Old: "\tam.unlockedSetRelay(fromVpnAddrs[0], relays)\n\tam.Unlock()\n\n\t// Non-blocking attempt to trigger, skip if it would block\n", New: "\tam.unlockedSetRelay(fromVpnAddrs[0], relays)\n\tif len(n.Details.V4AddrPorts) > 0 {\n\t\tam.unlockedGetOrMakeV4(certVpnAddr).learned = n.Details.V4AddrPorts[0]\n\t}\n\tam.Unlock()\n\n\t// Non-blocking attempt to trigger, skip if it would block\n", Rule: "C36.entrances"},
			}
		},
	})
}

const c36Mod = nebulaMod

func isViaSender(t types.Type) bool { return g5IsNamed(t, c36Mod, "ViaSender") }

// c36Env carries the resolved anchors shared by the C36 rules.
type c36Env struct {
	c        *Ctx
	funcs    []*ssa.Function
	fUdp     *types.Var // ViaSender.UdpAddr
	fRelayed *types.Var // ViaSender.IsRelayed
	fLHNets  *types.Var // LightHouse.myVpnNetworksTable
	fIfNets  *types.Var // Interface.myVpnNetworksTable
	allowRef []Ref
}

func runC36(c *Ctx) {
	c.Rule("C36.entrances", "K2: the per-owner caches (reported / learned / relay slots, the cache map, hostname results, the deduplicated list) and HostInfo.remote are written only by the tabled setters; those setters are called only from the tabled entrances", 19)
	c.Rule("C36.filter-arg", "K11: every unlockedSetV4/V6 call passes the method value lh.unlockedShouldAddV4/V6 as filter; the one NewRemoteList call passes lh.shouldAdd", 7)
	c.Rule("C36.set-filter", "K1: unlockedSetV4/V6 append an element only if filter(subject, element) returned true, subject being the non-owner address parameter", 4)
	c.Rule("C36.cap", "MaxRemotes is 10; the bulk setters reset the owner's list and refill it from at most MaxRemotes elements (slice bound min(len, MaxRemotes)); prepends truncate to MaxRemotes", 6)
	c.Rule("C36.should-add", "K1: shouldAdd / unlockedShouldAddV4 / unlockedShouldAddV6 return true only if RemoteAllowList.Allow[All](subject, addr) was true and myVpnNetworksTable.Contains(addr) false, addr derived from the candidate parameter", 6)
	c.Rule("C36.allow-compose", "K1: RemoteAllowList.Allow / AllowAll return true only if the global list allows and the inside-range list of the (every) overlay address allows the same underlay address", 4)
	c.Rule("C36.learned", "K1/K2: HostInfo.SetRemote with a packet source is reached only un-relayed and after the allow list allowed that source (in the function, in validatePeerCert, or in every caller up the chain); other SetRemote callers are the tabled operator commands", 8)
	c.Rule("C36.own-net-source", "K1: readOutsidePackets reaches the handshake, roaming and relay handlers only for relayed packets or sources outside the own overlay networks", 3)
	c.Rule("C36.collect", "K1: unlockedCollect appends an address only if unlockedIsBad(address) was false and, for DNS results, shouldAdd accepted it", 5)
	c.Rule("C36.bad", "K2/K1: badRemotes is written only by BlockRemote (which marks the list for rebuild) and cleared only by RefreshFromHandshake after a completed handshake / ResetBlockedRemotes (no caller)", 6)
	c.Rule("C36.punch", "K1: every Punchy.Schedule target passed the remote allow list and the own-overlay-network test (the predicate pair of shouldAdd)", 4)
	c.Rule("C36.static", "K1/K11: DeleteVpnAddrs deletes only if no address of the tunnel is static (for-all); static entries are prepended only after lh.shouldAdd accepted them, under the node's own owner key; network-derived entries never use that key", 13)

	e := &c36Env{c: c, funcs: c.moduleFuncs(),
		fUdp: c.Field("", "ViaSender", "UdpAddr"), fRelayed: c.Field("", "ViaSender", "IsRelayed"),
		fLHNets: c.Field("", "LightHouse", "myVpnNetworksTable"), fIfNets: c.Field("", "Interface", "myVpnNetworksTable"),
		allowRef: []Ref{{"", "RemoteAllowList", "Allow"}, {"", "RemoteAllowList", "AllowAll"}}}
	c36Entrances(e)
	c36Setters(e)
	c36ShouldAdd(e)
	c36AllowCompose(e)
	c36Learned(e)
	c36Collect(e)
	c36Bad(e)
	c36Punch(e)
	c36Static(e)
}

// ---------------------------------------------------------------------------------------
// entrances: who writes the caches, who calls the writers

func c36Entrances(e *c36Env) {
	c := e.c
	why := "an underlay address can enter the destination list without passing the filters of the tabled entrances"
	type wt struct {
		typ, field string
		allow      map[string]string
	}
	for _, t := range []wt{
		{"cacheV4", "reported", map[string]string{"(*nebula.RemoteList).unlockedSetV4": "filtered bulk set", "(*nebula.RemoteList).unlockedPrependV4": "static entry (filtered by the caller)", "(*nebula.RemoteList).ResetForOwner": "truncates to empty"}},
		{"cacheV6", "reported", map[string]string{"(*nebula.RemoteList).unlockedSetV6": "filtered bulk set", "(*nebula.RemoteList).unlockedPrependV6": "static entry (filtered by the caller)", "(*nebula.RemoteList).ResetForOwner": "truncates to empty"}},
		{"cacheV4", "learned", map[string]string{"(*nebula.RemoteList).unlockedSetLearnedV4": "learned slot, fed by LearnRemote only"}},
		{"cacheV6", "learned", map[string]string{"(*nebula.RemoteList).unlockedSetLearnedV6": "learned slot, fed by LearnRemote only"}},
		{"cacheRelay", "relay", map[string]string{"(*nebula.RemoteList).unlockedSetRelay": "capped relay set"}},
		{"cache", "v4", map[string]string{"(*nebula.RemoteList).unlockedGetOrMakeV4": "get-or-create"}},
		{"cache", "v6", map[string]string{"(*nebula.RemoteList).unlockedGetOrMakeV6": "get-or-create"}},
		{"RemoteList", "cache", map[string]string{"nebula.NewRemoteList": "constructor", "(*nebula.RemoteList).unlockedGetOrMakeV4": "get-or-create", "(*nebula.RemoteList).unlockedGetOrMakeV6": "get-or-create", "(*nebula.RemoteList).unlockedGetOrMakeRelay": "get-or-create"}},
		{"RemoteList", "addrs", map[string]string{"nebula.NewRemoteList": "constructor: empty", "(*nebula.RemoteList).unlockedCollect": "filtered collection (C36.collect)", "(*nebula.RemoteList).unlockedSort": "in-place sort / dedupe of the collected list"}},
		{"RemoteList", "hr", map[string]string{"(*nebula.RemoteList).unlockedSetHostnamesResults": "static host DNS results (filtered in unlockedCollect)"}},
		{"RemoteList", "shouldAdd", map[string]string{"nebula.NewRemoteList": "constructor argument (C36.filter-arg)"}},
		{"HostInfo", "remote", map[string]string{"(*nebula.HostInfo).SetRemote": "the one setter of the data destination (C36.learned)"}},
	} {
		g5Writers(c, "C36.entrances", e.funcs, t.typ, c.Field("", t.typ, t.field), t.allow, why)
	}
	for _, t := range []struct {
		ref   Ref
		allow map[string]string
	}{
		{Ref{"", "RemoteList", "LearnRemote"}, map[string]string{"(*nebula.HostInfo).SetRemote": "learned address = the tunnel's current remote"}},
		{Ref{"", "RemoteList", "unlockedSetLearnedV4"}, map[string]string{"(*nebula.RemoteList).LearnRemote": "locked wrapper"}},
		{Ref{"", "RemoteList", "unlockedSetLearnedV6"}, map[string]string{"(*nebula.RemoteList).LearnRemote": "locked wrapper"}},
		{Ref{"", "RemoteList", "unlockedPrependV4"}, map[string]string{"(*nebula.LightHouse).addStaticRemotes": "static_host_map entries (C36.static)"}},
		{Ref{"", "RemoteList", "unlockedPrependV6"}, map[string]string{"(*nebula.LightHouse).addStaticRemotes": "static_host_map entries (C36.static)"}},
		{Ref{"", "RemoteList", "unlockedSetHostnamesResults"}, map[string]string{"(*nebula.LightHouse).addStaticRemotes": "static_host_map hostnames", "(*nebula.RemoteList).ClearHostnameResults": "drops them (nil)"}},
		{Ref{"", "RemoteList", "ResetForOwner"}, map[string]string{"(*nebula.LightHouse).reload": "static_host_map reload, entries are rebuilt from the configuration"}},
		{Ref{"", "RemoteList", "ClearHostnameResults"}, map[string]string{"(*nebula.LightHouse).reload": "host removed from static_host_map"}},
	} {
		g5Callers(c, "C36.entrances", e.funcs, t.ref, t.allow, why)
	}
}

// ---------------------------------------------------------------------------------------
// bulk setters: filter argument, filter applied, cap

func c36Setters(e *c36Env) {
	c := e.c
	maxR := int64(-1)
	if v := c.ConstVal("", "MaxRemotes"); v != nil {
		maxR, _ = constantInt64(v)
		c.Check(maxR == 10, "C36.cap", "MaxRemotes", "hostmap.go", "MaxRemotes = 10", fmt.Sprintf("MaxRemotes is %s: each information source may contribute more than ten addresses per peer", v.ExactString()))
	}
	for _, v := range []string{"4", "6"} {
		setRef := Ref{"", "RemoteList", "unlockedSetV" + v}
		want := Ref{"", "LightHouse", "unlockedShouldAddV" + v}
		ord := map[string]int{}
		for _, s := range callersOf(e.funcs, setRef) {
			if c.isTestHelperFile(s.Instr) {
				continue
			}
			caller := fnName(topFunc(s.Fn))
			ord[caller]++
			cons := fmt.Sprintf("%s:%s#%d:filter", caller, setRef.Name, ord[caller])
			ci, isCall := s.Instr.(ssa.CallInstruction)
			if !isCall || s.Kind == "funcvalue" {
				c.Bad("C36.filter-arg", cons, c.instrPos(s.Instr), setRef.Name+" escapes as a function value: its filter argument cannot be decided")
				continue
			}
			a := callArgs(ci)
			c.Check(len(a) == 5 && matchFunc(g5MethodValue(a[4]), want), "C36.filter-arg", cons, c.instrPos(s.Instr), "filter = lh."+want.Name, "the addresses are stored with a filter other than lh."+want.Name+" (allow list + own overlay networks): "+exprString(a[len(a)-1]))
		}
		// inside the setter
		fn := c.Func(setRef)
		chk := g5Param(c, "C36.set-filter", fn, "filter function", func(t types.Type) bool { _, ok := t.Underlying().(*types.Signature); return ok })
		if fn == nil || chk == nil {
			continue
		}
		var owner ssa.Value // the address parameter that selects the owner's cache
		for _, ci := range callsIn(fn, Ref{"", "RemoteList", "unlockedGetOrMakeV" + v}) {
			owner = callArgs(ci)[1]
		}
		fRep := c.Field("", "cacheV"+v, "reported")
		n := 0
		// the appends of the setter itself, and those of helpers the reported list is threaded through
		// (`c.reported = appendIfAllowed(c.reported, vpnIp, v, check)`, x_fix3_helpers.go)
		w := fix3NewWalker()
		chain := &fix3Chain{}
		if fRep != nil {
			for _, st := range g6StoresToField(fn, fRep) {
				chain.merge(fix3ChainOf(w, st.Val))
			}
		}
		eachInstr(fn, func(in ssa.Instruction) {
			if call, ok := in.(*ssa.Call); ok && builtinName(call) == "append" {
				if s := (fix3Site{Append: call}); !chain.has(s) {
					chain.Sites = append(chain.Sites, s)
				}
			}
		})
		sort.SliceStable(chain.Sites, func(i, j int) bool {
			a, b := chain.Sites[i], chain.Sites[j]
			if a.Root().Pos() != b.Root().Pos() {
				return a.Root().Pos() < b.Root().Pos()
			}
			return a.Append.Pos() < b.Append.Pos()
		})
		for i, why := range chain.Opaque {
			c.Unknown("C36.set-filter", fmt.Sprintf("%s:helper#%d", setRef.Name, i+1), "the reported list is handed to a helper whose effect on it is not understood ("+why+"): cannot decide what it appends")
		}
		for _, site := range chain.Sites {
			call := site.Append
			n++
			c.Funcs[call.Parent().String()] = true
			cons := fmt.Sprintf("%s:append#%d", setRef.Name, n)
			elems := g5AppendedElems(call)
			if len(elems) == 0 {
				c.Bad("C36.set-filter", cons, c.instrPos(site.Root()), "a whole slice is appended to the reported list ("+site.String()+"): no per-address filter can have been applied")
				continue
			}
			okAll, okSubj := true, true
			var wpath []string
			for _, el := range elems {
				levels := fix3Levels(site, el)
				mk := func(li int) func(fix3Level) Guard {
					return func(lv fix3Level) Guard {
						elem := lv.Val
						return Guard{Name: "filter(subject, element) == true", Match: func(cd Cond, _ *ssa.If) (bool, bool) {
							if cd.Kind != CondBool {
								return false, false
							}
							cl, ok := stripValue(cd.Base).(*ssa.Call)
							if !ok || len(cl.Call.Args) != 2 || !sameVar(cl.Call.Args[1], elem) {
								return false, false
							}
							// the function called is the setter's filter parameter, the subject one of its address parameters
							// (both possibly handed down to the helper as parameters)
							if fv := fix3ToRoot(site, li, stripValue(cl.Call.Value)); fv == nil || stripValue(fv) != ssa.Value(chk) {
								return false, false
							}
							subj := fix3ToRoot(site, li, cl.Call.Args[0])
							if p, isP := subj.(*ssa.Parameter); !isP || p.Parent() != fn || owner == nil || ssa.Value(p) == owner {
								okSubj = false
							}
							return true, !cd.Neg
						}}
					}
				}
				pass := false
				for li, lv := range levels {
					ok, _, path := c.mustPass(lv.Fn, Sink{Instr: lv.At}, mk(li)(lv))
					if ok {
						pass = true
						break
					}
					if li == 0 {
						wpath = path
					}
				}
				if !pass {
					okAll = false
				}
			}
			if okAll {
				c.OK("C36.set-filter", cons, "appended only after the filter accepted the element")
			} else {
				c.Bad("C36.set-filter", cons, c.instrPos(site.Root()), "an address is stored in the reported list ("+site.String()+") without the filter having accepted it", wpath...)
			}
			c.Check(okSubj, "C36.set-filter", cons+":subject", c.instrPos(site.Root()), "the filter is asked about the subject (non-owner) address", "the filter is called with the owner key instead of the overlay address the addresses belong to: the per-overlay-range allow list is looked up for the wrong host")
		}
		if n == 0 {
			c.Unknown("C36.set-filter", setRef.Name, "no append found: unrecognised shape")
		}
		c36Cap(c, fn, fRep, maxR)
		if p := c.Func(Ref{"", "RemoteList", "unlockedPrependV" + v}); p != nil {
			c36Cap(c, p, fRep, maxR)
		}
	}
	if fn := c.Func(Ref{"", "RemoteList", "unlockedSetRelay"}); fn != nil {
		c36Cap(c, fn, c.Field("", "cacheRelay", "relay"), maxR)
	}
	// the one constructor call
	n := 0
	for _, s := range callersOf(e.funcs, Ref{"", "", "NewRemoteList"}) {
		if c.isTestHelperFile(s.Instr) {
			continue
		}
		n++
		ci, isCall := s.Instr.(ssa.CallInstruction)
		ok := isCall && matchFunc(g5MethodValue(callArgs(ci)[1]), Ref{"", "LightHouse", "shouldAdd"})
		c.Check(ok, "C36.filter-arg", fmt.Sprintf("%s:NewRemoteList#%d:shouldAdd", fnName(topFunc(s.Fn)), n), c.instrPos(s.Instr), "shouldAdd = lh.shouldAdd", "a RemoteList is built without lh.shouldAdd: its DNS results would be used unfiltered")
	}
	if n == 0 {
		c.Unknown("C36.filter-arg", "NewRemoteList", "no constructor call found")
	}
}

// c36Cap decides that the slice held in field f leaves fn with at most k elements, from the
// idioms: reset (f = f[:0]) then append one element per iteration of a range loop over a
// collection sliced to min(len, k); reset then append(f, s[:min(len(s), k)]...); prepend then
// truncate f[:k] unless len(f) <= k.
func c36Cap(c *Ctx, fn *ssa.Function, f *types.Var, k int64) {
	if f == nil || k < 0 {
		return
	}
	cons := fn.Name() + ":" + f.Name() + "<=MaxRemotes"
	isLoadF := func(v ssa.Value) bool { u, ok := v.(*ssa.UnOp); return ok && u.Op == token.MUL && loadsField(v, f) }
	var stores []*ssa.Store
	eachInstr(fn, func(in ssa.Instruction) {
		if st, ok := in.(*ssa.Store); ok {
			if fa, ok := st.Addr.(*ssa.FieldAddr); ok && fieldOfAddr(fa) == f {
				stores = append(stores, st)
			}
		}
	})
	if len(stores) == 0 {
		c.Unknown("C36.cap", cons, "no store to the list found: unrecognised shape")
		return
	}
	var resets []*ssa.Store
	isTrunc := func(in ssa.Instruction) bool {
		st, ok := in.(*ssa.Store)
		if !ok {
			return false
		}
		fa, ok := st.Addr.(*ssa.FieldAddr)
		if !ok || fieldOfAddr(fa) != f {
			return false
		}
		sl, ok := st.Val.(*ssa.Slice)
		return ok && isLoadF(sl.X) && sl.High != nil && g5IntAtMost(sl.High, k)
	}
	for _, st := range stores {
		if sl, ok := st.Val.(*ssa.Slice); ok && isLoadF(sl.X) && sl.High != nil && g5IntAtMost(sl.High, 0) {
			resets = append(resets, st)
		}
	}
	resetBefore := func(at ssa.Instruction, hdr *ssa.BasicBlock) bool {
		for _, r := range resets {
			if hdr != nil {
				if r.Block() != hdr && r.Block().Dominates(hdr) {
					return true
				}
				continue
			}
			if r.Block() == at.Block() && instrIndex(r) < instrIndex(at) || r.Block() != at.Block() && r.Block().Dominates(at.Block()) {
				return true
			}
		}
		return false
	}
	loops := naturalLoops(fn)
	walker := fix3NewWalker()
	isReset := func(v ssa.Value) bool {
		sl, ok := v.(*ssa.Slice)
		return ok && isLoadF(sl.X) && sl.High != nil && g5IntAtMost(sl.High, 0)
	}
	lenLE := gCmp("len(list) <= MaxRemotes", isLenOf(isLoadF), func(v ssa.Value) bool { kk, ok := constInt(v); return ok && kk == k }, func(op token.Token) (bool, bool) {
		switch op {
		case token.GTR:
			return true, false
		case token.LEQ:
			return true, true
		}
		return false, false
	})
	truncatedAfter := func(st *ssa.Store) bool {
		edges, _ := passEdges(fn, lenLE)
		for _, b := range fn.Blocks {
			if r, isR := b.Instrs[len(b.Instrs)-1].(*ssa.Return); isR {
				if av, _ := c.avoidsCutEdges(fn, st, r, isTrunc, edges); av {
					return false
				}
			}
		}
		return true
	}
	for _, st := range stores {
		if isTrunc(st) {
			continue // reset or truncation
		}
		// append(base, ...), or a helper that gives its slice argument back unchanged or extended by one element
		// (`c.reported = appendIfAllowed(c.reported, vpnIp, v, check)`): one element per evaluation
		var base, more ssa.Value
		nEl := 0
		if call, ok := st.Val.(*ssa.Call); ok && builtinName(call) == "append" {
			base, more = call.Call.Args[0], call.Call.Args[1]
			nEl = len(g5AppendedElems(call))
		} else if b, one := fix3OnePerCall(walker, st.Val); one {
			base, nEl = b, 1
		} else {
			c.Unknown("C36.cap", cons, "the list is assigned from "+exprString(st.Val)+": unrecognised shape")
			return
		}
		lp := innermostLoop(loops, st.Block())
		switch {
		case isReset(base) && lp == nil: // append(list[:0], s...)
			if nEl == 0 && !g5LenAtMost(more, k) {
				c.Bad("C36.cap", cons, c.instrPos(st), "a slice that is not bounded by MaxRemotes is appended: "+exprString(more))
				return
			}
		case isLoadF(base) && nEl == 1 && lp == nil:
			if !resetBefore(st, nil) && !truncatedAfter(st) {
				c.Bad("C36.cap", cons, c.instrPos(st), "an element is appended without a preceding reset or a following truncation to MaxRemotes")
				return
			}
		case isLoadF(base) && nEl == 1:
			bounded, recognised := g5LoopBound(lp, k)
			if !recognised {
				c.Unknown("C36.cap", cons, "elements are appended in a loop whose trip count is not of the form idx < bound: unrecognised shape")
				return
			}
			if !bounded {
				c.Bad("C36.cap", cons, c.instrPos(st), "elements are appended in a loop that is not bounded by MaxRemotes (collection not cut to min(len, MaxRemotes)): one source can contribute more than ten addresses")
				return
			}
			if !resetBefore(st, lp.Header) {
				c.Bad("C36.cap", cons, c.instrPos(st), "the owner's list is not reset before it is refilled: it grows beyond MaxRemotes over successive updates")
				return
			}
		case isLoadF(base):
			if lp != nil || !g5LenAtMost(more, k) {
				c.Bad("C36.cap", cons, c.instrPos(st), "a slice that is not bounded by MaxRemotes is appended: "+exprString(more))
				return
			}
			if !resetBefore(st, nil) {
				c.Bad("C36.cap", cons, c.instrPos(st), "the owner's list is not reset before it is refilled: it grows beyond MaxRemotes over successive updates")
				return
			}
		case isLoadF(more):
			if !truncatedAfter(st) {
				c.Bad("C36.cap", cons, c.instrPos(st), "after the prepend the function can return with more than MaxRemotes elements (no truncation to MaxRemotes on the len > MaxRemotes path)")
				return
			}
		default:
			c.Unknown("C36.cap", cons, "append of unrecognised operands")
			return
		}
	}
	c.OK("C36.cap", cons, "bounded by construction")
}

// ---------------------------------------------------------------------------------------
// the shouldAdd siblings and the allow-list composition

func c36ShouldAdd(e *c36Env) {
	c := e.c
	for _, name := range []string{"shouldAdd", "unlockedShouldAddV4", "unlockedShouldAddV6"} {
		fn := c.Func(Ref{"", "LightHouse", name})
		if fn == nil {
			continue
		}
		if len(fn.Params) != 3 {
			c.Unknown("C36.should-add", name, "unexpected signature")
			continue
		}
		// subject: the overlay address(es); candidate: the underlay address (netip.Addr next to a slice subject, else the pointer)
		subj, cand := fn.Params[1], fn.Params[2]
		if g5IsAddrSlice(cand.Type()) || (!g5IsAddrSlice(subj.Type()) && g5IsNamed(cand.Type(), "net/netip", "Addr")) {
			subj, cand = cand, subj
		}
		fromCand := g5FromThrough(cand)
		allow := gBool("remote allow list allows the candidate for the subject", true, -1, CallSpec{Refs: e.allowRef, Args: map[int]func(ssa.Value) bool{1: g5From(subj), 2: fromCand}})
		own := gBool("candidate not inside the own overlay networks", false, -1, bartContains(e.fLHNets, fromCand))
		c.requireGuards("C36.should-add", fn, boolReturns(fn, 0, true), name+":return-true", allow, own)
	}
}

func c36AllowCompose(e *c36Env) {
	c := e.c
	fGlobal := c.Field("", "RemoteAllowList", "AllowList")
	alAllow := Ref{"", "AllowList", "Allow"}
	inside := Ref{"", "RemoteAllowList", "getInsideAllowList"}
	for _, name := range []string{"Allow", "AllowAll"} {
		fn := c.Func(Ref{"", "RemoteAllowList", name})
		if fn == nil {
			continue
		}
		if len(fn.Params) != 3 {
			c.Unknown("C36.allow-compose", name, "unexpected signature")
			continue
		}
		vpn, udp := fn.Params[1], fn.Params[2]
		isUdp := func(v ssa.Value) bool { return v == ssa.Value(udp) }
		global := gBool("global list allows the underlay address", true, -1, CallSpec{Refs: []Ref{alAllow}, Args: map[int]func(ssa.Value) bool{0: func(v ssa.Value) bool { return loadsField(v, fGlobal) }, 1: isUdp}})
		insideFor := func(subject func(ssa.Value) bool) Guard {
			return gBool("inside-range list of the overlay address allows the underlay address", true, -1, CallSpec{Refs: []Ref{alAllow}, Args: map[int]func(ssa.Value) bool{
				0: func(v ssa.Value) bool {
					call, _ := callOf(v)
					return call != nil && matchFunc(calleeObj(call), inside) && subject(callArgs(call)[1])
				}, 1: isUdp}})
		}
		c.Check(g5ReturnsOnlyIf(c, fn, 0, true, global), "C36.allow-compose", name+":global", c.P.Pos(fn.Pos()), "true only if the global list allows", name+" can answer true although the global remote allow list denies the address")
		if name == "Allow" {
			c.Check(g5ReturnsOnlyIf(c, fn, 0, true, insideFor(func(v ssa.Value) bool { return v == ssa.Value(vpn) })), "C36.allow-compose", name+":inside", c.P.Pos(fn.Pos()), "true only if the inside-range list allows", name+" can answer true although the list configured for the peer's overlay range denies the address")
			continue
		}
		loopsV := findRangeLoops(fn, func(v ssa.Value) bool { return v == ssa.Value(vpn) })
		if len(loopsV) != 1 {
			c.Bad("C36.allow-compose", name+":inside-for-all", c.P.Pos(fn.Pos()), fmt.Sprintf("expected one loop over the overlay addresses, found %d: the inside-range lists are not consulted for every address", len(loopsV)))
			continue
		}
		c.forAllGuard("C36.allow-compose", name+":inside-for-all", fn, loopsV[0], boolReturns(fn, 0, true), insideFor(g5FromThrough(vpn)))
	}
}

// ---------------------------------------------------------------------------------------
// learned addresses

// viaAllowed builds, for a root predicate identifying the ViaSender value, the guard
// "the packet was relayed, or the allow list allowed via.UdpAddr".
func (e *c36Env) viaAllowed(root func(ssa.Value) bool) Guard {
	ofVia := func(f *types.Var) func(ssa.Value) bool {
		return func(v ssa.Value) bool { return loadsField(v, f) && derivesFrom(v, sliceLocal, root) }
	}
	udp := func(v ssa.Value) bool { return derivesFrom(v, sliceThrough, ofVia(e.fUdp)) }
	return gAny("packet relayed, or the allow list allowed its source for the tunnel's overlay addresses",
		gValBool("via.IsRelayed", true, ofVia(e.fRelayed)),
		gBool("AllowAll(vpnAddrs, via.UdpAddr.Addr())", true, -1, CallSpec{Refs: e.allowRef, Args: map[int]func(ssa.Value) bool{2: udp}}))
}

// allowedAt: on every path to `at` (a call in fn handing on fn's ViaSender parameter) the packet
// was relayed or the allow list allowed its source - in fn, one call level down, or in every caller.
func (e *c36Env) allowedAt(fn *ssa.Function, at ssa.Instruction, depth int) (bool, string) {
	c := e.c
	vi := g5ParamIndex(fn, isViaSender)
	if vi < 0 {
		return false, fnName(fn) + " has no ViaSender parameter"
	}
	via := fn.Params[vi]
	if _, stable := g5StableParamField(via, e.fRelayed); !stable {
		return false, "the ViaSender parameter of " + fnName(fn) + " is reassigned"
	}
	g := g5Lift(c, "relayed or allow-listed source", func(x ssa.Value) bool { return x == ssa.Value(via) }, e.viaAllowed)
	if ok, n, _ := c.mustPass(fn, Sink{Instr: at}, g); ok && n > 0 {
		return true, "established in " + fn.Name()
	}
	if depth >= 3 {
		return false, "not established within three caller levels"
	}
	sites := g5CallSites(e.funcs, fn)
	if len(sites) == 0 {
		return false, "not established in " + fn.Name() + ", which has no static caller"
	}
	var where []string
	for _, s := range sites {
		if c.isTestHelperFile(s) {
			continue
		}
		caller := s.Parent()
		a := s.Common().Args
		cvi := g5ParamIndex(caller, isViaSender)
		if cvi < 0 || vi >= len(a) || !g5From(caller.Params[cvi])(a[vi]) {
			return false, fmt.Sprintf("%s is called from %s with a ViaSender that is not the caller's own parameter", fn.Name(), fnName(caller))
		}
		ok, w := e.allowedAt(caller, s, depth+1)
		if !ok {
			return false, fmt.Sprintf("%s <- %s: %s", fn.Name(), caller.Name(), w)
		}
		where = append(where, w)
	}
	if len(where) == 0 {
		return false, "not established in " + fn.Name() + ", which has no caller outside test helpers"
	}
	return true, strings.Join(where, ", ")
}

func c36Learned(e *c36Env) {
	c := e.c
	operator := map[string]string{
		"(*nebula.Control).SetRemoteForTunnel": "operator command: forces a remote by design",
		"nebula.sshCreateTunnel":               "operator command over ssh: explicit first address",
		"nebula.sshChangeRemote":               "operator command over ssh: forces a remote by design",
	}
	ord := map[string]int{}
	n := 0
	for _, s := range callersOf(e.funcs, Ref{"", "HostInfo", "SetRemote"}) {
		if c.isTestHelperFile(s.Instr) {
			continue
		}
		n++
		fn := s.Fn
		caller := fnName(topFunc(fn))
		ord[caller]++
		cons := fmt.Sprintf("%s:SetRemote#%d", caller, ord[caller])
		if reason, ok := operator[caller]; ok {
			c.OK("C36.learned", cons, "tabled: "+reason)
			continue
		}
		ci, isCall := s.Instr.(ssa.CallInstruction)
		vi := g5ParamIndex(fn, isViaSender)
		if !isCall || vi < 0 {
			c.Bad("C36.learned", cons, c.instrPos(s.Instr), "a tunnel's remote is set from a site that is neither a packet-source handler (ViaSender parameter) nor a tabled operator command: the address did not pass the remote allow list")
			continue
		}
		via := fn.Params[vi]
		isRelayed, stable := g5StableParamField(via, e.fRelayed)
		arg := callArgs(ci)[1]
		srcOK := derivesFrom(arg, sliceLocal, func(x ssa.Value) bool { return loadsField(x, e.fUdp) && g5From(via)(x) })
		okNR, _, path := c.mustPass(fn, Sink{Instr: s.Instr}, gValBool("via.IsRelayed == false", false, isRelayed))
		switch {
		case !srcOK:
			c.Bad("C36.learned", cons, c.instrPos(s.Instr), "the learned address is not the packet's source via.UdpAddr: "+exprString(arg))
		case !stable:
			c.Unknown("C36.learned", cons, "the ViaSender parameter is reassigned in the function: relayed/allowed tests are not about one packet")
		case !okNR:
			c.Bad("C36.learned", cons, c.instrPos(s.Instr), "the source address of a relayed packet (the relay's address) can be learned as the peer's remote", path...)
		default:
			ok, where := e.allowedAt(fn, s.Instr, 0)
			c.Check(ok, "C36.learned", cons, c.instrPos(s.Instr), "un-relayed and allow-listed: "+where, "a packet source is learned as the tunnel's remote without the remote allow list having allowed it for the tunnel's overlay addresses: "+where)
		}
	}
	if n == 0 {
		c.Unknown("C36.learned", "SetRemote", "no caller found")
	}
	// packet sources inside the own overlay networks never reach the handshake / roaming handlers
	if fn := c.Func(Ref{"", "Interface", "readOutsidePackets"}); fn != nil {
		vi := g5ParamIndex(fn, isViaSender)
		if vi < 0 {
			c.Unknown("C36.own-net-source", "readOutsidePackets", "no ViaSender parameter")
			return
		}
		via := fn.Params[vi]
		isRelayed, stable := g5StableParamField(via, e.fRelayed)
		if !stable {
			c.Unknown("C36.own-net-source", "readOutsidePackets", "the ViaSender parameter is reassigned")
			return
		}
		udp := func(v ssa.Value) bool {
			return derivesFrom(v, sliceThrough, func(x ssa.Value) bool { return loadsField(x, e.fUdp) && g5From(via)(x) })
		}
		g := gAny("relayed, or source outside the own overlay networks",
			gValBool("via.IsRelayed", true, isRelayed),
			gBool("myVpnNetworksTable.Contains(via.UdpAddr.Addr()) == false", false, -1, bartContains(e.fIfNets, udp)))
		for _, r := range []Ref{{"", "HandshakeManager", "HandleIncoming"}, {"", "Interface", "handleHostRoaming"}, {"", "Interface", "handleOutsideRelayPacket"}} {
			c.requireGuards("C36.own-net-source", fn, callSinks(fn, r.Name, callTo(r)), r.Name, g)
		}
	}
}

// ---------------------------------------------------------------------------------------
// collection, bad remotes

func c36Collect(e *c36Env) {
	c := e.c
	fn := c.Func(Ref{"", "RemoteList", "unlockedCollect"})
	if fn == nil {
		return
	}
	fShould := c.Field("", "RemoteList", "shouldAdd")
	fBad := c.Field("", "RemoteList", "badRemotes")
	fAddrs := c.Field("", "RemoteList", "addrs")
	isDNS := func(v ssa.Value) bool {
		return derivesFrom(v, sliceLocal, isCallTo(Ref{"", "hostnamesResults", "GetAddrs"}))
	}
	isAddrPortAppend := func(call *ssa.Call) bool {
		if builtinName(call) != "append" {
			return false
		}
		sl, isS := call.Type().Underlying().(*types.Slice)
		return isS && g5IsNamed(sl.Elem(), "net/netip", "AddrPort")
	}
	// the appends that build the destination list: in the collector itself, or in helpers the accumulator is threaded
	// through (`addrs = r.appendUnlessBad(addrs, u)`); plus every other append of addresses in the collector
	w := fix3NewWalker()
	chain := &fix3Chain{}
	if fAddrs != nil {
		for _, st := range g6StoresToField(fn, fAddrs) {
			chain.merge(fix3ChainOf(w, st.Val))
		}
	}
	for _, f := range funcsWithAnon(fn) { // function literals of the collector too: a test counts inside the literal only
		eachInstr(f, func(in ssa.Instruction) {
			if call, ok := in.(*ssa.Call); ok && isAddrPortAppend(call) {
				if s := (fix3Site{Append: call}); !chain.has(s) {
					chain.Sites = append(chain.Sites, s)
				}
			}
		})
	}
	sort.SliceStable(chain.Sites, func(i, j int) bool {
		a, b := chain.Sites[i], chain.Sites[j]
		if a.Root().Pos() != b.Root().Pos() {
			return a.Root().Pos() < b.Root().Pos()
		}
		return a.Append.Pos() < b.Append.Pos()
	})
	for i, why := range chain.Opaque {
		c.Unknown("C36.collect", fmt.Sprintf("unlockedCollect:helper#%d", i+1), "the destination list is handed to a helper whose effect on it is not understood ("+why+"): cannot decide what it appends")
	}
	n := 0
	for _, site := range chain.Sites {
		call := site.Append
		if !isAddrPortAppend(call) {
			continue
		}
		n++
		c.Funcs[call.Parent().String()] = true
		cons := fmt.Sprintf("unlockedCollect:append#%d", n)
		elems := g5AppendedElems(call)
		if len(elems) == 0 {
			c.Bad("C36.collect", cons, c.instrPos(site.Root()), "a whole slice is appended to the destination list ("+site.String()+"): blocked / unusable addresses are not filtered out")
			continue
		}
		for _, el := range elems {
			// the appended value as the function holding the append sees it and, where it is a parameter handed in, as
			// each caller up to the collector sees it: a test counts at whichever level it is made on that very value
			levels := fix3Levels(site, el)
			type req struct {
				name string
				mk   func(fix3Level) Guard
				bad  bool // the blocked test
			}
			reqs := []req{{"unlockedIsBad(address) == false", func(lv fix3Level) Guard {
				val := lv.Val
				return g5Lift(c, "unlockedIsBad(address) == false", func(x ssa.Value) bool { return sameVar(x, val) }, func(root func(ssa.Value) bool) Guard {
					return fix3NotBlocked("unlockedIsBad(address) == false", fBad, func(v ssa.Value) bool { return derivesFrom(v, sliceLocal, root) })
				})
			}, true}}
			dns := false
			for _, lv := range levels {
				if isDNS(lv.Val) {
					dns = true
				}
			}
			if dns {
				cons += ":dns"
				reqs = append(reqs, req{"shouldAdd accepted the DNS result (nil only in tests)", func(lv fix3Level) Guard {
					val := lv.Val
					return gAny("shouldAdd accepted the DNS result (nil only in tests)",
						gValNil("shouldAdd == nil", func(v ssa.Value) bool { return loadsField(v, fShould) }),
						Guard{Name: "shouldAdd(vpnAddrs, address)", Match: func(cd Cond, _ *ssa.If) (bool, bool) {
							if cd.Kind != CondBool {
								return false, false
							}
							cl, ok := stripValue(cd.Base).(*ssa.Call)
							if !ok || !loadsField(cl.Call.Value, fShould) || len(cl.Call.Args) != 2 || !g5FromThrough(val)(cl.Call.Args[1]) {
								return false, false
							}
							return true, !cd.Neg
						}})
				}, false})
			}
			okAll := true
			var where []string
			for _, r := range reqs {
				pass, dead, at, path := fix3PassAtSomeLevel(c, levels, r.mk)
				if pass {
					where = append(where, at)
					continue
				}
				okAll = false
				unrecognised := false
				if r.bad && fBad != nil {
					for _, lv := range levels {
						val := lv.Val
						if fix3ComparesWithElemOf(lv.Fn, func(v ssa.Value) bool { return sameVar(v, val) }, fBad) {
							unrecognised = true
						}
					}
				}
				switch {
				case unrecognised:
					c.Unknown("C36.collect", cons, "the address is compared with the blocked list in a form that is not recognised (expected !unlockedIsBad(address) / !slices.Contains(badRemotes, address) in front of the append): cannot decide the test "+r.name)
				case dead:
					c.Unknown("C36.collect", cons, "no test "+r.name+" found and the append is unreachable: unrecognised shape")
				default:
					c.Bad("C36.collect", cons, c.instrPos(site.Root()), "an address reaches the destination list ("+site.String()+") without the test "+r.name, path...)
				}
			}
			if okAll {
				c.OK("C36.collect", cons, fmt.Sprintf("%d test(s) on every path (%s; in %s)", len(reqs), site.String(), strings.Join(where, ", ")))
			}
		}
	}
	if n == 0 {
		c.Unknown("C36.collect", "unlockedCollect", "no append to the destination list found")
	}
	dns := 0
	for _, o := range c.Obs {
		if o.Rule == "C36.collect" && strings.HasSuffix(o.Construct, ":dns") {
			dns++
		}
	}
	if dns == 0 {
		c.Unknown("C36.collect", "unlockedCollect:dns", "the DNS (static hostname) results are no longer collected here: cannot decide their filter")
	}
}

func c36Bad(e *c36Env) {
	c := e.c
	fBad := c.Field("", "RemoteList", "badRemotes")
	g5Writers(c, "C36.bad", e.funcs, "RemoteList", fBad, map[string]string{
		"(*nebula.RemoteList).BlockRemote":          "marks the address that answered as the wrong host",
		"(*nebula.RemoteList).RefreshFromHandshake": "cleared on a completed handshake",
		"(*nebula.RemoteList).ResetBlockedRemotes":  "explicit reset (no caller)",
	}, "the blocked-address list is written outside the marking / completed-handshake functions")
	g5Callers(c, "C36.bad", e.funcs, Ref{"", "RemoteList", "ResetBlockedRemotes"}, map[string]string{}, "blocked addresses are forgotten outside a completed handshake: an address that answered as the wrong host is tried again")
	n := g5Callers(c, "C36.bad", e.funcs, Ref{"", "RemoteList", "RefreshFromHandshake"}, map[string]string{
		"(*nebula.HandshakeManager).beginHandshake":    "responder: after CheckAndComplete succeeded",
		"(*nebula.HandshakeManager).continueHandshake": "initiator: after Complete",
	}, "blocked addresses are forgotten outside a completed handshake")
	if n == 0 {
		c.Unknown("C36.bad", "RefreshFromHandshake", "no caller found")
	}
	// ... and only after the tunnel was installed
	for name, done := range map[string]Ref{"beginHandshake": {"", "HandshakeManager", "CheckAndComplete"}, "continueHandshake": {"", "HandshakeManager", "Complete"}} {
		fn := c.Func(Ref{"", "HandshakeManager", name})
		if fn == nil {
			continue
		}
		for i, ci := range callsIn(fn, Ref{"", "RemoteList", "RefreshFromHandshake"}) {
			av, path := c.avoidsCut(fn, nil, ci, func(in ssa.Instruction) bool {
				x, ok := in.(ssa.CallInstruction)
				return ok && matchFunc(calleeObj(x), done)
			})
			ok := !av
			if ok && done.Name == "CheckAndComplete" {
				ok, _, path = c.mustPass(fn, Sink{Instr: ci}, gErrNil("CheckAndComplete ok", callTo(done)))
			}
			cons := fmt.Sprintf("%s:RefreshFromHandshake#%d<-%s", name, i+1, done.Name)
			if ok {
				c.OK("C36.bad", cons, "after the tunnel was installed")
			} else {
				c.Bad("C36.bad", cons, c.instrPos(ci), "the blocked-address list is cleared on a path where the handshake did not complete", path...)
			}
		}
	}
	// marking forces a rebuild of the deduplicated list
	if fn := c.Func(Ref{"", "RemoteList", "BlockRemote"}); fn != nil {
		fRebuild := c.Field("", "RemoteList", "shouldRebuild")
		ok, n := true, 0
		eachInstr(fn, func(in ssa.Instruction) {
			st, isS := in.(*ssa.Store)
			if !isS {
				return
			}
			if fa, isF := st.Addr.(*ssa.FieldAddr); !isF || fieldOfAddr(fa) != fBad {
				return
			}
			n++
			marks := func(x ssa.Instruction) bool { return storesFieldBool(x, fRebuild, true) }
			if before, _ := c.avoidsCut(fn, nil, st, marks); !before {
				return // already marked on every path to the store
			}
			for _, b := range fn.Blocks {
				if r, isR := b.Instrs[len(b.Instrs)-1].(*ssa.Return); isR {
					if av, _ := c.avoidsCut(fn, st, r, marks); av {
						ok = false
					}
				}
			}
		})
		c.Check(ok && n > 0, "C36.bad", "BlockRemote:marks-rebuild", c.P.Pos(fn.Pos()), "shouldRebuild = true after the address is recorded", "an address is recorded as bad without forcing the deduplicated list to be rebuilt: it stays a handshake destination")
	}
}

// ---------------------------------------------------------------------------------------
// punches

func c36Punch(e *c36Env) {
	c := e.c
	shouldRefs := []Ref{{"", "LightHouse", "shouldAdd"}, {"", "LightHouse", "unlockedShouldAddV4"}, {"", "LightHouse", "unlockedShouldAddV6"}}
	ord := map[string]int{}
	n := 0
	for _, s := range callersOf(e.funcs, Ref{"", "Punchy", "Schedule"}) {
		if c.isTestHelperFile(s.Instr) {
			continue
		}
		n++
		caller := fnName(topFunc(s.Fn))
		ord[caller]++
		cons := fmt.Sprintf("%s:Schedule#%d", caller, ord[caller])
		ci, isCall := s.Instr.(ssa.CallInstruction)
		if !isCall || s.Kind != "call" {
			c.Bad("C36.punch", cons, c.instrPos(s.Instr), "Punchy.Schedule escapes as a function value / go / defer: its target cannot be decided")
			continue
		}
		target := callArgs(ci)[1]
		rel := func(v ssa.Value) bool { return g5Related(v, target) }
		both := gBool("shouldAdd accepted the target", true, -1, CallSpec{Refs: shouldRefs, Args: map[int]func(ssa.Value) bool{2: rel}})
		allow := gAny("remote allow list allows the target", gBool("Allow[All](peer, target)", true, -1, CallSpec{Refs: e.allowRef, Args: map[int]func(ssa.Value) bool{2: rel}}), both)
		own := gAny("target not inside the own overlay networks",
			gBool("LightHouse.myVpnNetworksTable.Contains(target) == false", false, -1, bartContains(e.fLHNets, rel)),
			gBool("Interface.myVpnNetworksTable.Contains(target) == false", false, -1, bartContains(e.fIfNets, rel)), both)
		for _, g := range []struct {
			key string
			g   Guard
			why string
		}{
			{"allow-list", allow, "a punch is scheduled to an address the remote allow list denies"},
			{"own-networks", own, "a punch is scheduled to an underlay address that was never tested against the node's own overlay networks: a lighthouse-supplied address inside the overlay range is punched (shouldAdd refuses exactly these for every other use)"},
		} {
			pass, _, path := c.mustPass(s.Fn, Sink{Instr: s.Instr}, g.g)
			if pass {
				c.OK("C36.punch", cons+"<-"+g.key, g.g.Name)
			} else {
				c.Bad("C36.punch", cons+"<-"+g.key, c.instrPos(s.Instr), g.why, path...)
			}
		}
	}
	if n == 0 {
		c.Unknown("C36.punch", "Punchy.Schedule", "no punch scheduling site found")
	}
}

// ---------------------------------------------------------------------------------------
// static hosts

func c36Static(e *c36Env) {
	c := e.c
	fStatic := c.Field("", "LightHouse", "staticList")
	fAddrMap := c.Field("", "LightHouse", "addrMap")
	fMyNets := c.Field("", "LightHouse", "myVpnNetworks")
	isStaticList := func(v ssa.Value) bool {
		return derivesFrom(v, sliceThrough, func(x ssa.Value) bool {
			return isCallTo(Ref{"", "LightHouse", "GetStaticHostList"})(x) || loadsField(x, fStatic)
		})
	}
	// forAll: in fn, one loop over all elements of the collection p tests each against the static
	// list before any sink, and every path to a sink runs that loop. Returns "" when it holds.
	forAll := func(fn *ssa.Function, p ssa.Value, sinks []Sink) (string, string, []string) {
		elemOf := func(v ssa.Value) bool {
			u, ok := stripValue(v).(*ssa.UnOp)
			if !ok {
				return false
			}
			ia, ok := u.X.(*ssa.IndexAddr)
			if !ok || ia.X != p {
				return false
			}
			_, isConst := constInt(ia.Index)
			return !isConst
		}
		notStatic := gValBool("address is not in the static host list", false, func(v ssa.Value) bool {
			ex, ok := stripValue(v).(*ssa.Extract)
			if !ok || ex.Index != 1 {
				return false
			}
			lk, ok := ex.Tuple.(*ssa.Lookup)
			return ok && isStaticList(lk.X) && elemOf(lk.Index)
		})
		edges, _ := passEdges(fn, notStatic)
		var pick *loopInfo
		for _, li := range findRangeLoops(fn, func(v ssa.Value) bool { return v == p }) {
			l := li
			region := reachable(l.Body, map[Edge]bool{{l.Header, l.DoneIx}: true})
			for ed := range edges {
				if _, in := region[ed.From]; in {
					pick = &l
				}
			}
		}
		if pick == nil {
			return "no loop over all addresses of the tunnel testing each against the static host list", c.P.Pos(fn.Pos()), nil
		}
		sub := NewCtx(c.Prop, c.Tier, c.Seed)
		sub.P = c.P
		sub.forAllGuard("r", "c", fn, *pick, sinks, notStatic)
		if len(sub.Obs) != 1 || sub.Obs[0].Verdict != Discharged {
			return sub.Obs[0].Detail, sub.Obs[0].Pos, sub.Obs[0].Path
		}
		blocked := map[Edge]bool{}
		for _, pr := range pick.Header.Preds {
			for i, s := range pr.Succs {
				if s == pick.Header {
					blocked[Edge{pr, i}] = true
				}
			}
		}
		prev := reachable(fn.Blocks[0], blocked)
		for _, s := range sinks {
			if _, r := prev[s.Instr.Block()]; r {
				return s.Desc + " is reachable without running the static-host test loop", c.instrPos(s.Instr), c.blockPath(prev, s.Instr.Block())
			}
		}
		return "", "", nil
	}
	if fn := c.Func(Ref{"", "LightHouse", "DeleteVpnAddrs"}); fn != nil {
		p := g5Param(c, "C36.static", fn, "tunnel addresses ([]netip.Addr)", g5IsAddrSlice)
		var sinks []Sink
		eachInstr(fn, func(in ssa.Instruction) {
			if ci, ok := in.(ssa.CallInstruction); ok && builtinName(ci) == "delete" && loadsField(ci.Common().Args[0], fAddrMap) {
				sinks = append(sinks, Sink{Instr: in, Desc: "delete(addrMap, addr)"})
			}
		})
		cons := "DeleteVpnAddrs:static-for-all"
		switch {
		case p == nil:
		case len(sinks) == 0:
			c.Unknown("C36.static", cons, "no delete from addrMap found: unrecognised shape")
		default:
			why, pos, path := forAll(fn, p, sinks)
			if why == "" {
				c.OK("C36.static", cons, "every address is tested against the static list before any delete")
				break
			}
			// the test extracted into a helper: `if lh.anyStatic(addrs) { return }`
			done := false
			for _, b := range fn.Blocks {
				ifi, ok := b.Instrs[len(b.Instrs)-1].(*ssa.If)
				if !ok || done {
					continue
				}
				cd := normCond(ifi.Cond)
				call, _ := callOf(cd.Base)
				if cd.Kind != CondBool || call == nil {
					continue
				}
				callee := call.Call.StaticCallee()
				if callee == nil || callee.Blocks == nil || !strings.HasPrefix(pkgPathOf(callee), c36Mod) {
					continue
				}
				for i, a := range call.Call.Args {
					if a != ssa.Value(p) || i >= len(callee.Params) {
						continue
					}
					for _, want := range []bool{false, true} {
						rs := boolReturns(callee, 0, want)
						if w, _, _ := forAll(callee, callee.Params[i], rs); w != "" || len(rs) == 0 {
							continue
						}
						theCall, w2 := call, want
						g := gValBool(fmt.Sprintf("%s(addrs) == %v (no address is static)", callee.Name(), want), w2, func(v ssa.Value) bool { cl, _ := callOf(v); return cl == theCall })
						c.requireGuards("C36.static", fn, sinks, "delete", g)
						done = true
					}
				}
			}
			if !done {
				c.Bad("C36.static", cons, pos, why+": a static host's cached addresses can be deleted when a tunnel closes", path...)
			}
		}
	}
	// owner keys and the static filter
	ownKey := func(v ssa.Value) bool {
		return derivesFrom(v, sliceThrough, func(x ssa.Value) bool { return loadsField(x, fMyNets) })
	}
	writers := []Ref{{"", "RemoteList", "unlockedSetV4"}, {"", "RemoteList", "unlockedSetV6"}, {"", "RemoteList", "unlockedSetRelay"}, {"", "RemoteList", "unlockedPrependV4"}, {"", "RemoteList", "unlockedPrependV6"}}
	ord := map[string]int{}
	for _, s := range callersOf(e.funcs, writers...) {
		ci, isCall := s.Instr.(ssa.CallInstruction)
		if c.isTestHelperFile(s.Instr) || !isCall {
			continue
		}
		caller := fnName(topFunc(s.Fn))
		name := calleeObj(ci).Name()
		ord[caller+name]++
		cons := fmt.Sprintf("%s:%s#%d", caller, name, ord[caller+name])
		a := callArgs(ci)
		fromNetwork := g5ParamIndex(s.Fn, func(t types.Type) bool { return g5IsPtrToNamed(t, c36Mod, "NebulaMeta") }) >= 0
		if fromNetwork {
			si := g5ParamIndex(s.Fn, g5IsAddrSlice)
			ok := si >= 0 && g5From(s.Fn.Params[si])(a[1]) && !ownKey(a[1])
			c.Check(ok, "C36.static", cons+":owner", c.instrPos(ci), "network-derived entry owned by its sender", "a lighthouse message is recorded under an owner key that is not its sender's (possibly the node's own key, which holds the static entries): "+exprString(a[1]))
		} else {
			c.Check(ownKey(a[1]), "C36.static", cons+":owner", c.instrPos(ci), "configuration-derived entry owned by the node's own address", "a configuration-derived (static / calculated) entry is stored under an owner key other than the node's own: a lighthouse answer or host update for that owner resets it")
		}
		if strings.HasPrefix(name, "unlockedPrepend") {
			entry := a[2]
			g := gBool("lh.shouldAdd accepted the static address", true, -1, CallSpec{Refs: []Ref{{"", "LightHouse", "shouldAdd"}}, Args: map[int]func(ssa.Value) bool{2: func(v ssa.Value) bool { return g5Related(v, entry) }}})
			pass, _, path := c.mustPass(s.Fn, Sink{Instr: s.Instr}, g)
			if pass {
				c.OK("C36.static", cons+":filtered", "prepended only after lh.shouldAdd")
			} else {
				c.Bad("C36.static", cons+":filtered", c.instrPos(ci), "a static_host_map address is stored without lh.shouldAdd (allow list + own overlay networks) having accepted it", path...)
			}
		}
	}
}
