package main

import (
	"fmt"
	"go/constant"
	"go/token"
	"strings"

	"golang.org/x/tools/go/ssa"
)

func init() {
	register(&Property{
		ID: "C31", Title: "Concurrent handshakes converge to one working tunnel",
		Patterns:    []string{"."},
		Technique:   "finite order-relation table of shouldSwapPrimary (path-sensitive reachability of its `true` returns under peer<self, peer=self, peer>self, through materialised booleans and one level of helper summaries), CFG guards from the decision to its executor, lock-held re-check in swapPrimary, who-may-promote table",
		LevelText:   "Structural necessary conditions on all paths, for the one clause \"at most one of the two nodes ever decides to swap its primary tunnel\": shouldSwapPrimary can return true under at most one strict side of the order between the peer's first overlay address and the node's own first overlay address (same position on both sides), so the two ends of a tunnel pair - which see the mirrored order - cannot both decide to swap; the swapPrimary decision is produced only where shouldSwapPrimary returned true for the tunnel being reported, together with the primary read under the same read lock; the executor runs swapPrimary only for that decision with exactly those two tunnels; swapPrimary promotes only after re-reading the primary under the write lock and finding it unchanged, in one critical section; nothing else promotes a tunnel except the tabled relay set-up.",
		LevelNote:   "Not decided (schedule / liveness statements): that traffic flows as soon as either handshake completes, that both nodes eventually hold a single tunnel with matching indexes, delivery interleavings, duplication and loss. Equal first addresses are excluded by the self-handshake refusal (C09). AddRelay promotes the tunnel a relay is set up on (tabled, by design) - that promotion is outside the tie-break. Assumes both ends run this same rule and see each other's certificate addresses in the same order.",
		Explanation: "K8-style finite table over the three order relations computed by CFG reachability (no execution), K1 guards makeTrafficDecision -> doTrafficCheck -> swapPrimary, K3 atomic re-check, K2 promoters",
		Run:         runC31,
		Canaries: func(c *Ctx) []Canary {
			return []Canary{
				{Name: "tie-break-removed", File: "connection_manager.go", Old: "\tif current.vpnAddrs[0].Compare(cm.intf.myVpnAddrs[0]) < 0 {\n\t\t// Their primary vpn addr is less than mine. Do not swap.\n\t\treturn false\n\t}\n", New: "", Rule: "C31.tiebreak"},
				{Name: "tie-break-only-refuses-equal", File: "connection_manager.go", Old: "if current.vpnAddrs[0].Compare(cm.intf.myVpnAddrs[0]) < 0 {", New: "if current.vpnAddrs[0].Compare(cm.intf.myVpnAddrs[0]) == 0 {", Rule: "C31.tiebreak"},
				{Name: "tie-break-compares-different-positions", File: "connection_manager.go", Old: "if current.vpnAddrs[0].Compare(cm.intf.myVpnAddrs[0]) < 0 {", New: "if current.vpnAddrs[0].Compare(cm.intf.myVpnAddrs[len(cm.intf.myVpnAddrs)-1]) < 0 {", Rule: "C31.tiebreak"},
				{Name: "tie-break-skipped-when-cert-reloaded", File: "connection_manager.go", Old: "\tif current.vpnAddrs[0].Compare(cm.intf.myVpnAddrs[0]) < 0 {\n\t\t// Their primary vpn addr is less than mine. Do not swap.\n\t\treturn false\n\t}\n", New: "\tif cm.intf.pki.getCertState().getCertificate(current.ConnectionState.myCert.Version()) == nil {\n\t\treturn true\n\t}\n\tif current.vpnAddrs[0].Compare(cm.intf.myVpnAddrs[0]) < 0 {\n\t\t// Their primary vpn addr is less than mine. Do not swap.\n\t\treturn false\n\t}\n", Rule: "C31.tiebreak"},
				{Name: "decision-asks-about-the-primary", File: "connection_manager.go", Old: "if cm.shouldSwapPrimary(hostinfo) {", New: "if cm.shouldSwapPrimary(primary) {", Rule: "C31.decision"},
				{Name: "swap-decision-without-tie-break", File: "connection_manager.go", Old: "\t\t\tif cm.shouldSwapPrimary(hostinfo) {\n\t\t\t\tdecision = swapPrimary\n\t\t\t} else {", New: "\t\t\tif cm.shouldSwapPrimary(hostinfo) || !outTraffic {\n\t\t\t\tdecision = swapPrimary\n\t\t\t} else {", Rule: "C31.decision"},
				{Name: "executor-swaps-arguments", File: "connection_manager.go", Old: "cm.swapPrimary(hostinfo, primary)", New: "cm.swapPrimary(primary, hostinfo)", Rule: "C31.decision"},
				{Name: "swap-without-recheck", File: "connection_manager.go", Old: "if cm.hostMap.Hosts[current.vpnAddrs[0]] == primary {", New: "if primary != nil {", Rule: "C31.recheck"},
				{Name: "recheck-outside-the-write-lock", File: "connection_manager.go", Old: "\tcm.hostMap.Lock()\n\t// Make sure the primary is still the same after the write lock. This avoids a race with a rehandshake.\n\tif cm.hostMap.Hosts[current.vpnAddrs[0]] == primary {\n\t\tcm.hostMap.unlockedMakePrimary(current)\n\t}\n\tcm.hostMap.Unlock()", New: "\tcm.hostMap.RLock()\n\tsame := cm.hostMap.Hosts[current.vpnAddrs[0]] == primary\n\tcm.hostMap.RUnlock()\n\tcm.hostMap.Lock()\n\tif same {\n\t\tcm.hostMap.unlockedMakePrimary(current)\n\t}\n\tcm.hostMap.Unlock()", Rule: "C31.recheck"},
				{Name: "replayed-handshake-promotes", File: "handshake_manager.go", Old: "\t\tif msg := existing.HandshakePacket[handshakePacketStage2]; msg != nil {\n\t\t\thm.sendHandshakeResponse(via, msg, existing, true)\n\t\t}\n", New: "\t\tf.hostMap.MakePrimary(existing)\n\t\tif msg := existing.HandshakePacket[handshakePacketStage2]; msg != nil {\n\t\t\thm.sendHandshakeResponse(via, msg, existing, true)\n\t\t}\n", Rule: "C31.promoters"},
			}
		},
	})
}

// c31Roles names the values the tie-break is about inside one function: cur is the tunnel whose
// promotion is considered; peer / self are address values bound by position when the comparison
// was extracted into a helper taking the two addresses. Each predicate yields the position of the
// address in its list (or -1 when unknown).
type c31Roles struct {
	cur        func(ssa.Value) bool
	peer, self func(ssa.Value) (int64, bool)
}

type c31 struct {
	c         *Ctx
	fVpn, fMy *typesVar
}

// elemOf: v is `x.f[k]` (k constant) with x satisfying base.
func c31ElemOf(f *typesVar, base func(ssa.Value) bool, v ssa.Value) (int64, bool) {
	u, ok := g8Resolve(v).(*ssa.UnOp)
	if !ok || u.Op != token.MUL {
		return 0, false
	}
	ia, ok := u.X.(*ssa.IndexAddr)
	if !ok || !g8FieldOf(f, base)(ia.X) {
		return 0, false
	}
	k, isK := constInt(ia.Index)
	if !isK {
		return -1, true
	}
	return k, true
}

func (x *c31) isPeer(r c31Roles, v ssa.Value) (int64, bool) {
	if r.peer != nil {
		if k, ok := r.peer(v); ok {
			return k, true
		}
	}
	if r.cur == nil {
		return 0, false
	}
	return c31ElemOf(x.fVpn, r.cur, v)
}

func (x *c31) isSelf(r c31Roles, v ssa.Value) (int64, bool) {
	if r.self != nil {
		if k, ok := r.self(v); ok {
			return k, true
		}
	}
	return c31ElemOf(x.fMy, anyValue, v)
}

// c31Atom is a boolean whose value is a function of the order relation rel = sign(peer - self).
type c31Atom struct {
	eval         func(rel int) (canTrue, canFalse bool)
	kPeer, kSelf int64
	desc         string
}

var c31AddrCompare = Ref{"net/netip", "Addr", "Compare"}
var c31AddrLess = Ref{"net/netip", "Addr", "Less"}

func cmpInts(a int64, op token.Token, b int64) bool {
	return constant.Compare(constant.MakeInt64(a), op, constant.MakeInt64(b))
}

// orient: the two operands are (peer, self) => +1, (self, peer) => -1.
func (x *c31) orient(r c31Roles, a, b ssa.Value) (int, int64, int64, bool) {
	if kp, ok := x.isPeer(r, a); ok {
		if ks, ok2 := x.isSelf(r, b); ok2 {
			return 1, kp, ks, true
		}
	}
	if kp, ok := x.isPeer(r, b); ok {
		if ks, ok2 := x.isSelf(r, a); ok2 {
			return -1, kp, ks, true
		}
	}
	return 0, 0, 0, false
}

func (x *c31) atom(r c31Roles, v ssa.Value, depth int) *c31Atom {
	v = g8Resolve(v)
	switch b := v.(type) {
	case *ssa.BinOp:
		switch b.Op {
		case token.EQL, token.NEQ, token.LSS, token.LEQ, token.GTR, token.GEQ:
		default:
			return nil
		}
		// Compare(a, b) <op> k
		for _, sw := range []bool{false, true} {
			l, rr, op := b.X, b.Y, b.Op
			if sw {
				l, rr, op = b.Y, b.X, swapOp(b.Op)
			}
			call, _ := callOf(l)
			k, isK := constInt(rr)
			if call == nil || !isK || !matchFunc(calleeObj(call), c31AddrCompare) {
				continue
			}
			a := callArgs(call)
			if len(a) != 2 {
				continue
			}
			if s, kp, ks, ok := x.orient(r, a[0], a[1]); ok {
				return &c31Atom{kPeer: kp, kSelf: ks, desc: "Compare " + op.String() + fmt.Sprint(" ", k), eval: func(rel int) (bool, bool) {
					t := cmpInts(int64(s*rel), op, k)
					return t, !t
				}}
			}
		}
		// a == b / a != b on the addresses themselves
		if b.Op == token.EQL || b.Op == token.NEQ {
			if _, kp, ks, ok := x.orient(r, b.X, b.Y); ok {
				return &c31Atom{kPeer: kp, kSelf: ks, desc: "addr " + b.Op.String(), eval: func(rel int) (bool, bool) {
					t := (rel == 0) == (b.Op == token.EQL)
					return t, !t
				}}
			}
		}
	case *ssa.Call:
		if matchFunc(calleeObj(b), c31AddrLess) {
			if a := callArgs(b); len(a) == 2 {
				if s, kp, ks, ok := x.orient(r, a[0], a[1]); ok {
					return &c31Atom{kPeer: kp, kSelf: ks, desc: "Less", eval: func(rel int) (bool, bool) {
						t := s*rel < 0
						return t, !t
					}}
				}
			}
		}
		// one level of helper: a module predicate taking the tunnel and/or the two addresses
		h := b.Call.StaticCallee()
		if depth > 0 || h == nil || h.Blocks == nil || !strings.HasPrefix(pkgPathOf(h), nebulaMod) || h.Signature.Results().Len() != 1 {
			return nil
		}
		curSet := map[int]bool{}
		peerAt, selfAt := map[int]int64{}, map[int]int64{}
		for j, a := range b.Call.Args {
			if r.cur != nil && r.cur(a) {
				curSet[j] = true
			}
			if k, ok := x.isPeer(r, a); ok {
				peerAt[j] = k
			}
			if k, ok := x.isSelf(r, a); ok {
				selfAt[j] = k
			}
		}
		byPos := func(at map[int]int64) func(ssa.Value) (int64, bool) {
			return func(v ssa.Value) (int64, bool) {
				for j, k := range at {
					if g8IsParamIn(h, map[int]bool{j: true})(v) {
						return k, true
					}
				}
				return 0, false
			}
		}
		sub := c31Roles{cur: g8IsParamIn(h, curSet), peer: byPos(peerAt), self: byPos(selfAt)}
		tt := x.truth(h, sub, depth+1)
		if tt.atoms == 0 || tt.err != "" {
			return nil
		}
		x.c.Funcs[h.String()] = true
		return &c31Atom{kPeer: tt.kPeer, kSelf: tt.kSelf, desc: "helper " + h.Name(), eval: func(rel int) (bool, bool) {
			return tt.canTrue[rel], tt.canFalse[rel]
		}}
	}
	return nil
}

type c31Truth struct {
	canTrue, canFalse map[int]bool
	atoms             int
	kPeer, kSelf      int64
	descs             []string
	err               string
}

// truth computes, for each order relation, whether fn (single bool result) can return true /
// false: reachability over (pred, block) states with the order-dependent branches decided by rel.
func (x *c31) truth(fn *ssa.Function, r c31Roles, depth int) c31Truth {
	out := c31Truth{canTrue: map[int]bool{}, canFalse: map[int]bool{}, kPeer: -2, kSelf: -2}
	seenAtom := map[ssa.Value]bool{}
	note := func(v ssa.Value, a *c31Atom) {
		if seenAtom[v] {
			return
		}
		seenAtom[v] = true
		out.atoms++
		out.descs = append(out.descs, a.desc)
		if out.kPeer == -2 {
			out.kPeer, out.kSelf = a.kPeer, a.kSelf
		} else if out.kPeer != a.kPeer || out.kSelf != a.kSelf {
			out.err = "order tests use different address positions"
		}
	}
	for rel := -1; rel <= 1; rel++ {
		start := g8State{nil, fn.Blocks[0]}
		seen := map[g8State]bool{start: true}
		work := []g8State{start}
		for len(work) > 0 {
			st := work[0]
			work = work[1:]
			b := st.b
			if len(b.Instrs) == 0 {
				continue
			}
			var succs []int
			switch last := b.Instrs[len(b.Instrs)-1].(type) {
			case *ssa.Return:
				if len(last.Results) != 1 {
					out.err = "unexpected result count"
					continue
				}
				v, neg := g8EffCond(retResult(last, 0), st.pred, b)
				cd := normCond(v)
				neg = neg != cd.Neg
				t, f := true, true
				if cd.Kind == CondBool {
					if bv, ok := boolConst(cd.Base); ok {
						t, f = bv, !bv
					} else if a := x.atom(r, cd.Base, depth); a != nil {
						note(cd.Base, a)
						t, f = a.eval(rel)
					}
				} else if cd.Kind == CondCmp {
					if a := x.atom(r, cd.Base, depth); a != nil {
						note(cd.Base, a)
						t, f = a.eval(rel)
					}
				}
				if neg {
					t, f = f, t
				}
				out.canTrue[rel] = out.canTrue[rel] || t
				out.canFalse[rel] = out.canFalse[rel] || f
				continue
			case *ssa.If:
				v, neg := g8EffCond(last.Cond, st.pred, b)
				cd := normCond(v)
				neg = neg != cd.Neg
				t, f := true, true
				if cd.Kind == CondBool {
					if bv, ok := boolConst(cd.Base); ok {
						t, f = bv, !bv
					} else if a := x.atom(r, cd.Base, depth); a != nil {
						note(cd.Base, a)
						t, f = a.eval(rel)
					}
				} else if cd.Kind == CondCmp {
					if a := x.atom(r, cd.Base, depth); a != nil {
						note(cd.Base, a)
						t, f = a.eval(rel)
					}
				}
				if neg {
					t, f = f, t
				}
				if t {
					succs = append(succs, 0)
				}
				if f {
					succs = append(succs, 1)
				}
			default:
				for i := range b.Succs {
					succs = append(succs, i)
				}
			}
			for _, i := range succs {
				n := g8State{b, b.Succs[i]}
				if !seen[n] {
					seen[n] = true
					work = append(work, n)
				}
			}
		}
	}
	return out
}

// c31ComparesAddrs: some branch or result of fn is computed from both HostInfo.vpnAddrs and
// Interface.myVpnAddrs.
func c31ComparesAddrs(fn *ssa.Function, x *c31) bool {
	found := false
	chk := func(v ssa.Value) {
		a := derivesFrom(v, sliceThrough, func(y ssa.Value) bool { return g8LoadedField(y) == x.fVpn })
		b := derivesFrom(v, sliceThrough, func(y ssa.Value) bool { return g8LoadedField(y) == x.fMy })
		if a && b {
			found = true
		}
	}
	eachInstr(fn, func(in ssa.Instruction) {
		switch i := in.(type) {
		case *ssa.If:
			chk(i.Cond)
		case *ssa.Return:
			for _, r := range i.Results {
				chk(r)
			}
		}
	})
	return found
}

// c31Group: the places inside one function where the constant swapPrimary becomes the decision,
// with the predicate naming the reported tunnel in that function.
type c31Group struct {
	fn      *ssa.Function
	sinks   []Sink
	tun     func(ssa.Value) bool
	unbound bool // a helper that is not handed the reported tunnel
}

func runC31(c *Ctx) {
	c.Rule("C31.tiebreak", "K8: shouldSwapPrimary can return true under at most one strict side of the order between peer.vpnAddrs[k] and own myVpnAddrs[k] (same k): the mirrored view of the other end then refuses", 2)
	c.Rule("C31.decision", "K1: the swapPrimary decision is produced only after shouldSwapPrimary(returned tunnel) was true, with the primary read for that tunnel's address; doTrafficCheck runs swapPrimary only for that decision with exactly (tunnel, primary)", 5)
	c.Rule("C31.recheck", "K1/K3: swapPrimary promotes only if Hosts[current.vpnAddrs[0]] is still the primary the decision saw, test and promotion in one write-lock critical section", 4)
	c.Rule("C31.promoters", "K2: a tunnel is promoted to primary only by the swap executor, the locked wrapper and the tabled relay set-up", 3)

	x := &c31{c: c, fVpn: c.Field("", "HostInfo", "vpnAddrs"), fMy: c.Field("", "Interface", "myVpnAddrs")}
	fHosts := c.Field("", "HostMap", "Hosts")
	if x.fVpn == nil || x.fMy == nil || fHosts == nil {
		return
	}
	shouldRef := Ref{"", "connectionManager", "shouldSwapPrimary"}
	swapRef := Ref{"", "connectionManager", "swapPrimary"}
	promoteRef := Ref{"", "HostMap", "unlockedMakePrimary"}
	relNames := map[int]string{-1: "peer<self", 0: "peer=self", 1: "peer>self"}

	// ---- tie-break
	if fn := c.Func(shouldRef); fn != nil {
		if fn.Signature.Results().Len() != 1 || len(fn.Params) < 2 {
			c.Unknown("C31.tiebreak", "shouldSwapPrimary", "unexpected signature")
		} else {
			cur := fn.Params[1]
			tt := x.truth(fn, c31Roles{cur: g8Is(cur)}, 0)
			var ts []string
			for rel := -1; rel <= 1; rel++ {
				if tt.canTrue[rel] {
					ts = append(ts, relNames[rel])
				}
			}
			detail := fmt.Sprintf("order tests %v; can decide to swap under {%s}", tt.descs, strings.Join(ts, ","))
			switch {
			case tt.err != "":
				c.Unknown("C31.tiebreak", "shouldSwapPrimary:antisymmetric", tt.err)
			case tt.atoms == 0 && c31ComparesAddrs(fn, x):
				c.Unknown("C31.tiebreak", "shouldSwapPrimary:antisymmetric", "the function computes a condition from the peer's and the node's own overlay addresses in a shape this rule does not read")
			case tt.canTrue[-1] && tt.canTrue[1]:
				c.Bad("C31.tiebreak", "shouldSwapPrimary:antisymmetric", c.P.Pos(fn.Pos()), "shouldSwapPrimary can return true both when the peer's address is lower and when it is higher than the node's own ("+detail+"): the two ends of a tunnel pair can both decide to swap and never settle on one tunnel")
			case tt.atoms == 0:
				c.Unknown("C31.tiebreak", "shouldSwapPrimary:antisymmetric", "never returns true and no order test recognised")
			default:
				c.OK("C31.tiebreak", "shouldSwapPrimary:antisymmetric", detail)
			}
			if tt.atoms > 0 && tt.err == "" {
				c.Check(tt.kPeer == tt.kSelf && tt.kPeer >= 0, "C31.tiebreak", "shouldSwapPrimary:same-position", c.P.Pos(fn.Pos()), fmt.Sprintf("both sides compare address #%d", tt.kPeer),
					fmt.Sprintf("the order test compares the peer's address #%d with the node's own address #%d: the other end compares a different pair, so the two views are not mirror images", tt.kPeer, tt.kSelf))
			}
		}
	}

	// ---- decision
	swapK := int64(-1)
	if v := c.ConstVal("", "swapPrimary"); v != nil {
		swapK, _ = constantInt64(v)
	}
	if fn := c.Func(Ref{"", "connectionManager", "makeTrafficDecision"}); fn != nil && swapK >= 0 {
		n := 0
		for _, ret := range g8Returns(fn) {
			if len(ret.Results) != 3 {
				continue
			}
			// places where the constant swapPrimary becomes the decision of this return: in this
			// function, or in a same-module helper whose result is the decision (a part of the
			// decision tree extracted into a method); one group of sinks per function analysed
			tun0 := retResult(ret, 1)
			top := &c31Group{fn: fn, tun: g8Is(tun0)}
			groups := []*c31Group{top}
			seen := map[ssa.Value]bool{}
			unfollowed := ""
			var walk func(g *c31Group, v ssa.Value, depth int)
			walk = func(g *c31Group, v ssa.Value, depth int) {
				if seen[v] {
					return
				}
				seen[v] = true
				if phi, ok := v.(*ssa.Phi); ok {
					for i, e := range phi.Edges {
						if k, isK := constInt(e); isK && k == swapK {
							g.sinks = append(g.sinks, Sink{Instr: phi, Desc: "decision = swapPrimary", ViaPred: phi.Block().Preds[i]})
						} else {
							walk(g, e, depth)
						}
					}
					return
				}
				if _, isK := constInt(v); isK {
					return
				}
				poss := fix5PossibleInts(v)
				if !poss[swapK] && !poss[-1] {
					return // cannot be the swap decision
				}
				call, idx := callOf(g8Resolve(v))
				h := fix5Callee(call)
				if h == nil || depth >= 2 || h == g.fn {
					if poss[swapK] || call != nil {
						unfollowed = "the decision is computed by " + exprString(v) + ", which this rule does not follow"
					}
					return
				}
				if idx < 0 {
					idx = 0
				}
				tset := map[int]bool{}
				for j, a := range call.Call.Args {
					if g.tun(a) {
						tset[j] = true
					}
				}
				sub := &c31Group{fn: h, tun: g8IsParamIn(h, tset), unbound: len(tset) == 0}
				groups = append(groups, sub)
				c.Funcs[h.String()] = true
				for _, hr := range g8Returns(h) {
					if idx >= len(hr.Results) {
						continue
					}
					rv := retResult(hr, idx)
					if k, isK := constInt(rv); isK {
						if k == swapK {
							sub.sinks = append(sub.sinks, Sink{Instr: hr, Desc: "return swapPrimary"})
						}
						continue
					}
					walk(sub, rv, depth+1)
				}
			}
			d := retResult(ret, 0)
			if k, isK := constInt(d); isK && k == swapK {
				top.sinks = append(top.sinks, Sink{Instr: ret, Desc: "return swapPrimary"})
			}
			walk(top, d, 0)
			nSinks := 0
			for _, g := range groups {
				nSinks += len(g.sinks)
			}
			if nSinks == 0 {
				if unfollowed != "" {
					n++
					c.Unknown("C31.decision", fmt.Sprintf("makeTrafficDecision:swap-decision#%d", n-1), unfollowed)
				}
				continue
			}
			tun, prim := retResult(ret, 1), retResult(ret, 2)
			cons := fmt.Sprintf("makeTrafficDecision:swap-decision#%d", n)
			n++
			if unfollowed != "" {
				c.Unknown("C31.decision", cons+":other-producers", unfollowed)
			}
			for _, grp := range groups {
				if len(grp.sinks) == 0 {
					continue
				}
				if grp.unbound {
					c.Unknown("C31.decision", fmt.Sprintf("%s:swap-decision#%d", fnName(grp.fn), n-1), "the helper that yields the swap decision is not handed the reported tunnel as an argument: cannot tie its shouldSwapPrimary test to that tunnel")
					continue
				}
				g := gBool("shouldSwapPrimary(reported tunnel) is true", true, -1, callTo(shouldRef).withArg(1, grp.tun))
				c.g8Require("C31.decision", grp.fn, grp.sinks, fmt.Sprintf("swap-decision#%d", n-1), g)
			}
			okPrim := g8Entry(fHosts, func(k ssa.Value) bool { _, ok := c31ElemOf(x.fVpn, g8Is(tun), k); return ok })(prim)
			c.Check(okPrim, "C31.decision", cons+":primary-of-that-tunnel", c.instrPos(ret), "primary = Hosts[tunnel.vpnAddrs[k]]", "the primary reported with the swap decision ("+exprString(prim)+") is not the hostmap's primary for the reported tunnel's address: the executor's re-check would compare against the wrong tunnel")
		}
		if n == 0 {
			c.Unknown("C31.decision", "makeTrafficDecision:swap-decision", "no return can yield swapPrimary")
		}
	}
	funcs := c.moduleFuncs()
	swaps := c.g8Callers("C31.decision", funcs, "swapPrimary", map[string]string{
		"(*nebula.connectionManager).doTrafficCheck": "the executor of makeTrafficDecision's decisions",
	}, swapRef)
	if fn := c.Func(Ref{"", "connectionManager", "doTrafficCheck"}); fn != nil {
		n := 0
		for _, s := range swaps {
			if s.Fn != fn || s.Kind != "call" {
				continue
			}
			ci := s.Instr.(ssa.CallInstruction)
			a := callArgs(ci)
			cons := fmt.Sprintf("doTrafficCheck:swapPrimary#%d", n)
			n++
			dec, i1 := callOf(a[1])
			dec2, i2 := callOf(a[2])
			okArgs := dec != nil && dec == dec2 && i1 == 1 && i2 == 2 && matchFunc(calleeObj(dec), Ref{"", "connectionManager", "makeTrafficDecision"})
			c.Check(okArgs, "C31.decision", cons+":args", c.instrPos(s.Instr), "swapPrimary(decision.tunnel, decision.primary)", "swapPrimary is not called with (tunnel, primary) exactly as reported by makeTrafficDecision: the tunnel the tie-break was evaluated for is not the one promoted")
			if okArgs {
				c.g8Require("C31.decision", fn, []Sink{{Instr: s.Instr, Desc: "swapPrimary"}}, fmt.Sprintf("swapPrimary#%d", n-1),
					gCmp("decision == swapPrimary", func(v ssa.Value) bool { cl, i := callOf(v); return cl == dec && i == 0 }, isIntConst(swapK), mustEqual))
			}
		}
		if n == 0 {
			c.Unknown("C31.decision", "doTrafficCheck:swapPrimary", "executor arm not found")
		}
	}

	// ---- re-check under the write lock
	if fn := c.Func(swapRef); fn != nil && len(fn.Params) == 3 {
		cur, prim := fn.Params[1], fn.Params[2]
		lf := lockFlow(fn, nil, nil)
		calls := callsIn(fn, promoteRef)
		if len(calls) == 0 {
			c.Unknown("C31.recheck", "swapPrimary:promote", "promotion call not found")
		}
		isKey := func(k ssa.Value) bool { _, ok := c31ElemOf(x.fVpn, g8Is(cur), k); return ok }
		for i, ci := range calls {
			cons := fmt.Sprintf("swapPrimary:promote#%d", i)
			c.Check(g8Same(callArgs(ci)[1], cur), "C31.recheck", cons+":tunnel", c.instrPos(ci), "promotes the tunnel the decision was made for", "swapPrimary promotes a different tunnel than the one the decision was made for")
			g := c.g8Lift("primary unchanged since the decision", func(r g8Roles) Guard {
				return gCmp("primary unchanged since the decision", g8Entry(fHosts, func(k ssa.Value) bool { _, ok := c31ElemOf(x.fVpn, r["cur"], k); return ok }), r["prim"], mustEqual)
			}, g8Roles{"cur": g8Is(cur), "prim": g8Is(prim)})
			c.g8Require("C31.recheck", fn, []Sink{{Instr: ci, Desc: "unlockedMakePrimary"}}, fmt.Sprintf("promote#%d", i), g)
			sites := c29TestSites(fn, fHosts, isKey, cur)
			if len(sites) == 0 {
				c.Bad("C31.recheck", cons+":recheck-site", c.instrPos(ci), "no read of Hosts[current.vpnAddrs[k]] in swapPrimary")
			}
			for j, lk := range sites {
				c.g8Atomic("C31.recheck", fmt.Sprintf("%s:recheck#%d", cons, j), lf, lk, ci, hostMapLock, lkW, "the primary must be re-read under the same write lock that protects the promotion (a handshake may have completed since the decision)")
			}
		}
	}

	// ---- who may promote
	c.g8Callers("C31.promoters", funcs, "unlockedMakePrimary", map[string]string{
		"(*nebula.HostMap).MakePrimary":           "locked wrapper (callers tabled below)",
		"(*nebula.connectionManager).swapPrimary": "executor of the tie-broken decision, after the re-check",
		"nebula.AddRelay":                         "by design: a relay must stand on the primary tunnel, so the tunnel a relay is set up on is promoted (outside the tie-break, see LevelNote)",
	}, promoteRef)
	c.g8Callers("C31.promoters", funcs, "MakePrimary", map[string]string{
		// no production caller today: any new caller is a promotion outside the tie-break
	}, Ref{"", "HostMap", "MakePrimary"})
	c.g8Callers("C31.promoters", funcs, "shouldSwapPrimary", map[string]string{
		"(*nebula.connectionManager).makeTrafficDecision": "the only place the swap decision is made",
	}, shouldRef)
}
