package main

import (
	"fmt"
	"go/constant"
	"go/token"
	"go/types"
	"sort"
	"strings"

	"golang.org/x/tools/go/ssa"
)

// ---------------------------------------------------------------------------------------
// g13 heap evaluation: K8 (path-sensitive propagation over a finite abstract input) extended with a
// symbolic store, for the small pointer-manipulating functions of the timer wheel. An abstract
// input is a heap *shape* (which of a handful of named pointers are nil, which named object a field
// points at) plus the outcome of each integer comparison the function makes; integers are linear
// forms over named atoms (never numbers of the program), pointers are names. The evaluator follows
// the one path the abstract input determines, applies stores to the symbolic store (so a later load
// sees an earlier store), and returns the final store, the ordered write log and the results. It
// gives up (error string => UNDECIDED) on anything outside this fragment: unresolved calls, maps,
// channels, a branch the abstract input does not determine, more than the allowed loop visits.

type g13Val struct {
	P   string  // pointer / object / opaque symbol ("nil" for the nil pointer); "" => not a pointer
	L   *g11Lin // integer as a linear form
	B   *bool
	Tup []g13Val
}

func g13P(s string) g13Val  { return g13Val{P: s} }
func g13I(l g11Lin) g13Val  { return g13Val{L: &l} }
func g13Bool(b bool) g13Val { return g13Val{B: &b} }

func (v g13Val) String() string {
	switch {
	case v.P != "":
		return v.P
	case v.L != nil:
		return v.L.String()
	case v.B != nil:
		return fmt.Sprint(*v.B)
	case v.Tup != nil:
		return fmt.Sprint(v.Tup)
	}
	return "?"
}

func (v g13Val) eq(o g13Val) bool { return v.String() == o.String() }

type g13HeapCfg struct {
	Params map[string]g13Val // by parameter name
	Heap   map[string]g13Val // initial store: location -> value
	// Cmp decides a comparison the store does not decide (a, b rendered as strings).
	Cmp func(op token.Token, a, b string) (bool, bool)
	// Call resolves a call (callee object name with receiver, e.g. "findWheel", "Time.Sub").
	Call func(name string, args []g13Val) (g13Val, bool)
	// MaxVisits bounds the visits of one block (loops are evaluated for the iterations Cmp allows).
	MaxVisits int
}

type g13HeapRes struct {
	Ret    []g13Val
	Heap   map[string]g13Val
	Writes []string // locations written, in order
	Reads  []string // locations read, in order
	Fresh  map[string]bool
}

func (r *g13HeapRes) wrote(loc string) bool {
	for _, w := range r.Writes {
		if w == loc {
			return true
		}
	}
	return false
}

type g13HeapState struct {
	cfg   *g13HeapCfg
	vals  map[ssa.Value]g13Val
	res   *g13HeapRes
	nNew  int
	depth int
}

func g13Loc(p string) string { return strings.TrimPrefix(p, "&") }

func (st *g13HeapState) zero(t types.Type) g13Val {
	switch u := t.Underlying().(type) {
	case *types.Pointer, *types.Slice, *types.Map, *types.Chan, *types.Signature, *types.Interface:
		return g13P("nil")
	case *types.Basic:
		if u.Info()&types.IsInteger != 0 {
			return g13I(g11Const(0))
		}
		if u.Info()&types.IsBoolean != 0 {
			return g13Bool(false)
		}
	}
	return g13P("zero")
}

func (st *g13HeapState) load(loc string, t types.Type) g13Val {
	st.res.Reads = append(st.res.Reads, loc)
	if v, ok := st.res.Heap[loc]; ok {
		return v
	}
	root := loc
	if i := strings.IndexAny(loc, ".["); i >= 0 {
		root = loc[:i]
	}
	var v g13Val
	if st.res.Fresh[root] {
		v = st.zero(t)
	} else if b, ok := t.Underlying().(*types.Basic); ok && b.Info()&types.IsInteger != 0 {
		v = g13I(g11Atom(loc))
	} else {
		v = g13P("<" + loc + ">")
	}
	st.res.Heap[loc] = v
	return v
}

func (st *g13HeapState) get(v ssa.Value) (g13Val, string) {
	if a, ok := st.vals[v]; ok {
		return a, ""
	}
	switch x := v.(type) {
	case *ssa.Const:
		if x.Value == nil {
			return st.zero(x.Type()), ""
		}
		switch x.Value.Kind() {
		case constant.Int:
			if i, ok := constant.Int64Val(x.Value); ok {
				return g13I(g11Const(i)), ""
			}
		case constant.Bool:
			return g13Bool(constant.BoolVal(x.Value)), ""
		}
		return g13P("k:" + x.Value.ExactString()), ""
	case *ssa.Global:
		return g13P("&" + x.Name()), ""
	case *ssa.Function:
		return g13P("func:" + x.Name()), ""
	}
	return g13Val{}, "value not available: " + v.Name()
}

func (st *g13HeapState) cmp(op token.Token, a, b g13Val) (bool, string) {
	neg := false
	switch op {
	case token.NEQ:
		op, neg = token.EQL, true
	}
	fin := func(r bool) (bool, string) { return r != neg, "" }
	if a.P != "" && b.P != "" {
		if op == token.EQL {
			if a.P == b.P {
				return fin(true)
			}
			named := func(s string) bool { return s != "nil" && !strings.HasPrefix(s, "<") }
			if (a.P == "nil" && named(b.P)) || (b.P == "nil" && named(a.P)) || (named(a.P) && named(b.P)) {
				return fin(false)
			}
		}
	} else if a.L != nil && b.L != nil {
		if d, ok := a.L.constDiff(*b.L); ok {
			return fin(constant.Compare(constant.MakeInt64(d), op, constant.MakeInt64(0)))
		}
	} else if a.B != nil && b.B != nil && op == token.EQL {
		return fin(*a.B == *b.B)
	}
	if st.cfg.Cmp != nil {
		if neg {
			op = token.NEQ
		}
		if r, ok := st.cfg.Cmp(op, a.String(), b.String()); ok {
			return r, ""
		}
	}
	if neg {
		op = token.NEQ
	}
	return false, fmt.Sprintf("comparison %s %s %s is not determined by the abstract input", a, op, b)
}

// g13HeapRun evaluates fn under cfg. Static calls to module functions the Call oracle does not
// resolve are evaluated in place on the same store (helper extraction), three levels deep.
func g13HeapRun(fn *ssa.Function, cfg *g13HeapCfg) (*g13HeapRes, string) {
	st := &g13HeapState{cfg: cfg, vals: map[ssa.Value]g13Val{}, res: &g13HeapRes{Heap: map[string]g13Val{}, Fresh: map[string]bool{}}}
	for k, v := range cfg.Heap {
		st.res.Heap[k] = v
	}
	if cfg.MaxVisits == 0 {
		cfg.MaxVisits = 4
	}
	var args []g13Val
	for _, p := range fn.Params {
		if v, ok := cfg.Params[p.Name()]; ok {
			args = append(args, v)
		} else if b, ok := p.Type().Underlying().(*types.Basic); ok && b.Info()&types.IsInteger != 0 {
			args = append(args, g13I(g11Atom(p.Name())))
		} else {
			args = append(args, g13P(p.Name()))
		}
	}
	ret, err := st.run(fn, args)
	if err != "" {
		return nil, err
	}
	st.res.Ret = ret
	return st.res, ""
}

func (st *g13HeapState) run(fn *ssa.Function, args []g13Val) ([]g13Val, string) {
	cfg := st.cfg
	st.depth++
	defer func() { st.depth-- }()
	if st.depth > 4 {
		return nil, "call depth"
	}
	for i, p := range fn.Params {
		if i >= len(args) {
			return nil, "arity"
		}
		st.vals[p] = args[i]
	}
	var prev *ssa.BasicBlock
	b := fn.Blocks[0]
	visits := map[*ssa.BasicBlock]int{}
	for steps := 0; steps < 20000; {
		visits[b]++
		if visits[b] > cfg.MaxVisits {
			return nil, "loop visited more often than the abstract input allows"
		}
		// phis read their operands simultaneously
		newPhi := map[ssa.Value]g13Val{}
		for _, in := range b.Instrs {
			phi, ok := in.(*ssa.Phi)
			if !ok {
				break
			}
			idx := -1
			for i, p := range b.Preds {
				if p == prev {
					idx = i
				}
			}
			if idx < 0 {
				return nil, "phi without predecessor"
			}
			v, err := st.get(phi.Edges[idx])
			if err != "" {
				return nil, err
			}
			newPhi[phi] = v
		}
		for k, v := range newPhi {
			st.vals[k] = v
		}
		next := (*ssa.BasicBlock)(nil)
		for _, in := range b.Instrs {
			steps++
			switch x := in.(type) {
			case *ssa.Phi, *ssa.DebugRef:
			case *ssa.If:
				cv, err := st.get(x.Cond)
				if err != "" {
					return nil, err
				}
				if cv.B == nil {
					return nil, "branch on a non-boolean abstract value"
				}
				if *cv.B {
					next = b.Succs[0]
				} else {
					next = b.Succs[1]
				}
			case *ssa.Jump:
				next = b.Succs[0]
			case *ssa.Return:
				var out []g13Val
				for _, r := range x.Results {
					v, err := st.get(r)
					if err != "" {
						return nil, err
					}
					out = append(out, v)
				}
				return out, ""
			case *ssa.Store:
				a, err := st.get(x.Addr)
				if err != "" {
					return nil, err
				}
				v, err := st.get(x.Val)
				if err != "" {
					return nil, err
				}
				if a.P == "" || a.P == "nil" || strings.HasPrefix(a.P, "<") {
					return nil, "store through an undetermined pointer " + a.String()
				}
				loc := g13Loc(a.P)
				st.res.Heap[loc] = v
				st.res.Writes = append(st.res.Writes, loc)
			case *ssa.Panic:
				return nil, "panic"
			case ssa.Value:
				v, err := st.eval(x)
				if err != "" {
					return nil, err
				}
				st.vals[x] = v
			default:
				return nil, fmt.Sprintf("unsupported instruction %T", in)
			}
		}
		if next == nil {
			return nil, "fell off a block"
		}
		prev, b = b, next
	}
	return nil, "step limit"
}

func (st *g13HeapState) eval(v ssa.Value) (g13Val, string) {
	switch x := v.(type) {
	case *ssa.Alloc:
		st.nNew++
		name := fmt.Sprintf("new%d", st.nNew)
		st.res.Fresh[name] = true
		return g13P(name), ""
	case *ssa.FieldAddr:
		b, err := st.get(x.X)
		if err != "" {
			return g13Val{}, err
		}
		if b.P == "" || b.P == "nil" {
			return g13Val{}, "field of a nil / non-pointer value"
		}
		return g13P("&" + g13Loc(b.P) + "." + fieldOfAddr(x).Name()), ""
	case *ssa.IndexAddr:
		b, err := st.get(x.X)
		if err != "" {
			return g13Val{}, err
		}
		i, err := st.get(x.Index)
		if err != "" {
			return g13Val{}, err
		}
		return g13P("&" + g13Loc(b.P) + "[" + i.String() + "]"), ""
	case *ssa.UnOp:
		a, err := st.get(x.X)
		if err != "" {
			return g13Val{}, err
		}
		switch x.Op {
		case token.MUL:
			if a.P == "" || a.P == "nil" {
				return g13Val{}, "load through a nil / non-pointer value"
			}
			if strings.HasPrefix(a.P, "<") {
				return g13Val{}, "load through an undetermined pointer " + a.P
			}
			return st.load(g13Loc(a.P), x.Type()), ""
		case token.NOT:
			if a.B != nil {
				return g13Bool(!*a.B), ""
			}
		case token.SUB:
			if a.L != nil {
				return g13I(a.L.scale(-1)), ""
			}
		}
		return g13Val{}, "unsupported unary operation"
	case *ssa.BinOp:
		a, err := st.get(x.X)
		if err != "" {
			return g13Val{}, err
		}
		b, err := st.get(x.Y)
		if err != "" {
			return g13Val{}, err
		}
		switch x.Op {
		case token.EQL, token.NEQ, token.LSS, token.LEQ, token.GTR, token.GEQ:
			r, e := st.cmp(x.Op, a, b)
			if e != "" {
				return g13Val{}, e
			}
			return g13Bool(r), ""
		}
		if a.L == nil || b.L == nil {
			return g13Val{}, "arithmetic on non-integers"
		}
		switch x.Op {
		case token.ADD:
			return g13I(a.L.add(*b.L)), ""
		case token.SUB:
			return g13I(a.L.sub(*b.L)), ""
		case token.MUL:
			if k, ok := a.L.isConst(); ok {
				return g13I(b.L.scale(k)), ""
			}
			if k, ok := b.L.isConst(); ok {
				return g13I(a.L.scale(k)), ""
			}
			ops := []string{a.L.String(), b.L.String()}
			sort.Strings(ops)
			return g13I(g11Atom("mul(" + ops[0] + "," + ops[1] + ")")), ""
		case token.QUO:
			return g13I(g11Atom("quo(" + a.L.String() + "," + b.L.String() + ")")), ""
		}
		return g13Val{}, "unsupported arithmetic " + x.Op.String()
	case *ssa.Convert:
		return st.get(x.X)
	case *ssa.ChangeType:
		return st.get(x.X)
	case *ssa.MakeInterface:
		return st.get(x.X)
	case *ssa.ChangeInterface:
		return st.get(x.X)
	case *ssa.Extract:
		t, err := st.get(x.Tuple)
		if err != "" {
			return g13Val{}, err
		}
		if x.Index < len(t.Tup) {
			return t.Tup[x.Index], ""
		}
		return g13Val{}, "extract from a non-tuple"
	case *ssa.Call:
		var args []g13Val
		for _, a := range callArgs(x) {
			av, err := st.get(a)
			if err != "" {
				return g13Val{}, err
			}
			args = append(args, av)
		}
		if bn := builtinName(x); (bn == "min" || bn == "max") && len(args) == 2 && args[0].L != nil && args[1].L != nil {
			less, e := st.cmp(token.LSS, args[0], args[1])
			if e != "" {
				return g13Val{}, e
			}
			if less == (bn == "min") {
				return args[0], ""
			}
			return args[1], ""
		}
		o := calleeObj(x)
		if o == nil {
			return g13Val{}, "unresolved call"
		}
		if st.cfg.Call == nil {
			st.cfg.Call = func(string, []g13Val) (g13Val, bool) { return g13Val{}, false }
		}
		name := o.Name()
		if sig, ok := o.Type().(*types.Signature); ok && sig.Recv() != nil {
			if n := recvNamed(sig.Recv().Type()); n != nil {
				name = n.Obj().Name() + "." + name
			}
		}
		if r, ok := st.cfg.Call(name, args); ok {
			return r, ""
		}
		if callee := x.Call.StaticCallee(); callee != nil && callee.Blocks != nil && strings.HasPrefix(pkgPathOf(callee), nebulaMod) {
			ret, err := st.run(callee, args)
			if err != "" {
				return g13Val{}, err
			}
			switch len(ret) {
			case 0:
				return g13P("void"), ""
			case 1:
				return ret[0], ""
			}
			return g13Val{Tup: ret}, ""
		}
		return g13Val{}, "unresolved call to " + name
	}
	return g13Val{}, fmt.Sprintf("unsupported value %T", v)
}
