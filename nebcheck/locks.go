package main

import (
	"fmt"
	"go/token"
	"go/types"

	"golang.org/x/tools/go/ssa"
)

// ---------------------------------------------------------------------------------------
// K3/K4 lock-state dataflow (intra-procedural, per mutex class = struct type + field)

type lockKey string

const (
	lkNone = 0
	lkR    = 1
	lkW    = 2
)

// lockOpOf classifies a call as Lock/RLock/Unlock/RUnlock on a mutex field and returns its class.
func lockOpOf(ci ssa.CallInstruction) (lockKey, string, bool) {
	o := calleeObj(ci)
	if o == nil || o.Pkg() == nil || o.Pkg().Path() != "sync" {
		return "", "", false
	}
	switch o.Name() {
	case "Lock", "RLock", "Unlock", "RUnlock", "TryLock", "TryRLock":
	default:
		return "", "", false
	}
	args := callArgs(ci)
	if len(args) == 0 {
		return "", "", false
	}
	return lockClassOf(args[0]), o.Name(), true
}

// lockClassOf names the mutex addressed by v: "Type.field" for &x.field (embedded: field = the
// mutex type name), or "local:<name>" / "global:<name>".
func lockClassOf(v ssa.Value) lockKey {
	switch x := v.(type) {
	case *ssa.FieldAddr:
		f := fieldOfAddr(x)
		t := x.X.Type()
		if p, ok := t.Underlying().(*types.Pointer); ok {
			t = p.Elem()
		}
		owner := "?"
		if n := recvNamed(t); n != nil {
			owner = n.Obj().Name()
		} else if fa, ok := x.X.(*ssa.FieldAddr); ok {
			owner = string(lockClassOf(fa))
		}
		return lockKey(owner + "." + f.Name())
	case *ssa.Global:
		return lockKey("global:" + x.Name())
	case *ssa.Alloc:
		return lockKey("local:" + x.Comment)
	case *ssa.UnOp:
		if x.Op == token.MUL {
			return lockClassOf(x.X) // pointer to mutex loaded from a field
		}
	case *ssa.Parameter:
		return lockKey("param:" + x.Name())
	}
	return lockKey("?" + v.Name())
}

type lockState map[lockKey]int

func (s lockState) clone() lockState {
	n := lockState{}
	for k, v := range s {
		n[k] = v
	}
	return n
}

// meet for must-hold: a lock is held after the join only if held on all incoming paths (min mode).
func meetMust(a, b lockState) lockState {
	out := lockState{}
	for k, v := range a {
		if w, ok := b[k]; ok {
			if w < v {
				v = w
			}
			if v > 0 {
				out[k] = v
			}
		}
	}
	return out
}

// join for may-hold: held if held on some path (max mode).
func joinMay(a, b lockState) lockState {
	out := a.clone()
	for k, v := range b {
		if v > out[k] {
			out[k] = v
		}
	}
	return out
}

func equalState(a, b lockState) bool {
	if len(a) != len(b) {
		return false
	}
	for k, v := range a {
		if b[k] != v {
			return false
		}
	}
	return true
}

// LockFlow holds the result of the dataflow for one function.
type LockFlow struct {
	fn     *ssa.Function
	must   map[*ssa.BasicBlock]lockState // must-held at block entry
	may    map[*ssa.BasicBlock]lockState
	live   map[*ssa.BasicBlock]bool
	pruned map[Edge]bool
	Defer  map[lockKey]bool // classes with a deferred unlock
}

// edgeAssume decides, for an If, which successor indices are feasible under the analysis
// assumption (e.g. a package-level flag assumed true). nil => both.
type edgeAssume func(ifi *ssa.If) []int

func applyLockInstr(st lockState, in ssa.Instruction, deferred map[lockKey]bool) {
	ci, ok := in.(ssa.CallInstruction)
	if !ok {
		return
	}
	k, op, ok := lockOpOf(ci)
	if !ok {
		return
	}
	if _, isDefer := in.(*ssa.Defer); isDefer {
		if op == "Unlock" || op == "RUnlock" {
			deferred[k] = true
		}
		return
	}
	if _, isGo := in.(*ssa.Go); isGo {
		return
	}
	switch op {
	case "Lock":
		st[k] = lkW
	case "RLock":
		if st[k] < lkR {
			st[k] = lkR
		}
	case "Unlock", "RUnlock":
		delete(st, k)
	}
}

// lockFlow runs the must/may analyses. entry is the assumed state at function entry.
func lockFlow(fn *ssa.Function, entry lockState, assume edgeAssume) *LockFlow {
	lf := &LockFlow{fn: fn, must: map[*ssa.BasicBlock]lockState{}, may: map[*ssa.BasicBlock]lockState{}, live: map[*ssa.BasicBlock]bool{}, pruned: map[Edge]bool{}, Defer: map[lockKey]bool{}}
	if len(fn.Blocks) == 0 {
		return lf
	}
	if entry == nil {
		entry = lockState{}
	}
	feasible := func(b *ssa.BasicBlock) []int {
		idx := make([]int, len(b.Succs))
		for i := range idx {
			idx[i] = i
		}
		if assume != nil && len(b.Instrs) > 0 {
			if ifi, ok := b.Instrs[len(b.Instrs)-1].(*ssa.If); ok {
				if r := assume(ifi); r != nil {
					return r
				}
			}
		}
		return idx
	}
	e0 := fn.Blocks[0]
	lf.must[e0] = entry.clone()
	lf.may[e0] = entry.clone()
	lf.live[e0] = true
	work := []*ssa.BasicBlock{e0}
	for len(work) > 0 {
		b := work[0]
		work = work[1:]
		mu, ma := lf.must[b].clone(), lf.may[b].clone()
		for _, in := range b.Instrs {
			applyLockInstr(mu, in, lf.Defer)
			applyLockInstr(ma, in, map[lockKey]bool{})
		}
		for _, i := range feasible(b) {
			s := b.Succs[i]
			changed := false
			if !lf.live[s] {
				lf.live[s] = true
				lf.must[s] = mu.clone()
				lf.may[s] = ma.clone()
				changed = true
			} else {
				nm := meetMust(lf.must[s], mu)
				nj := joinMay(lf.may[s], ma)
				if !equalState(nm, lf.must[s]) || !equalState(nj, lf.may[s]) {
					lf.must[s], lf.may[s] = nm, nj
					changed = true
				}
			}
			if changed {
				work = append(work, s)
			}
		}
	}
	return lf
}

// mustAt returns the must-held mode of key just before instruction at.
func (lf *LockFlow) mustAt(at ssa.Instruction, key lockKey) (int, bool) {
	b := at.Block()
	if !lf.live[b] {
		return 0, false // unreachable under the assumption
	}
	st := lf.must[b].clone()
	for _, in := range b.Instrs {
		if in == at {
			return st[key], true
		}
		applyLockInstr(st, in, map[lockKey]bool{})
	}
	return 0, true
}

func (lf *LockFlow) mayAt(at ssa.Instruction, key lockKey) (int, bool) {
	b := at.Block()
	if !lf.live[b] {
		return 0, false
	}
	st := lf.may[b].clone()
	for _, in := range b.Instrs {
		if in == at {
			return st[key], true
		}
		applyLockInstr(st, in, map[lockKey]bool{})
	}
	return 0, true
}

// assumeGlobalBool: treat `if <pkg>.<name>` (a load of the package-level bool, or the constant it
// became under another build configuration) as always `val`.
func assumeGlobalBool(pkgShort, name string, val bool) edgeAssume {
	return func(ifi *ssa.If) []int {
		cd := normCond(ifi.Cond)
		// go/ssa keeps `if <constant>`: under a build configuration where the flag is a constant,
		// follow the constant
		if cd.Kind == CondBool {
			if bv, ok := boolConst(cd.Base); ok {
				if bv != cd.Neg {
					return []int{0}
				}
				return []int{1}
			}
		}
		if cd.Kind != CondBool {
			return nil
		}
		u, ok := cd.Base.(*ssa.UnOp)
		if !ok || u.Op != token.MUL {
			return nil
		}
		g, ok := u.X.(*ssa.Global)
		if !ok || g.Name() != name || g.Pkg == nil || g.Pkg.Pkg.Path() != PkgPath(pkgShort) {
			return nil
		}
		if val != cd.Neg {
			return []int{0}
		}
		return []int{1}
	}
}

// instrsBetween reports whether some path from `from` (exclusive) to `to` passes an instruction
// satisfying pred, honouring the same edge assumption. Instruction-level forward search.
func pathHits(from, to ssa.Instruction, assume edgeAssume, pred func(ssa.Instruction) bool) (ssa.Instruction, bool) {
	type state struct {
		b   *ssa.BasicBlock
		hit ssa.Instruction
	}
	seen := map[state]bool{}
	var found ssa.Instruction
	var walkBlock func(b *ssa.BasicBlock, start int, hit ssa.Instruction)
	walkBlock = func(b *ssa.BasicBlock, start int, hit ssa.Instruction) {
		for i := start; i < len(b.Instrs); i++ {
			in := b.Instrs[i]
			if in == to {
				if hit != nil && found == nil {
					found = hit
				}
				return
			}
			if hit == nil && pred(in) {
				hit = in
			}
		}
		succs := make([]int, len(b.Succs))
		for i := range succs {
			succs[i] = i
		}
		if assume != nil && len(b.Instrs) > 0 {
			if ifi, ok := b.Instrs[len(b.Instrs)-1].(*ssa.If); ok {
				if r := assume(ifi); r != nil {
					succs = r
				}
			}
		}
		for _, i := range succs {
			s := b.Succs[i]
			k := state{s, nil}
			if hit != nil {
				k.hit = hit
			}
			kk := state{s, nil}
			if hit != nil {
				kk = state{s, hit}
			}
			_ = k
			if seen[kk] {
				continue
			}
			seen[kk] = true
			walkBlock(s, 0, hit)
		}
	}
	b := from.Block()
	for i, in := range b.Instrs {
		if in == from {
			walkBlock(b, i+1, nil)
			break
		}
	}
	return found, found != nil
}

func modeName(m int) string {
	switch m {
	case lkR:
		return "read-locked"
	case lkW:
		return "write-locked"
	}
	return "not held"
}

var _ = fmt.Sprint
